import RsjProofs.EvalScopeBase
/-!
  C09, run-time half: pure facts about object layers – the invariant of a layer depends only on
  its static part (everything but the cached environment and thunks) and its cached environment;
  cloning (`extend_object`) and cache updates keep it.
-/
namespace Rsj.Eval.Scope
open Rsj.Core Rsj.Eval Rsj.Analyze

theorem findField_go_some {ls : List Layer} {i j : Nat} {name : String} {f : Field}
    (h : findField.go name ls i = some (j, f)) :
    ∃ l, ls[j - i]? = some l ∧ i ≤ j ∧ f ∈ l.fields := by
  induction ls generalizing i with
  | nil => simp [findField.go] at h
  | cons l rest ih =>
    unfold findField.go at h
    cases hf : l.fields.find? (fun f => f.name == name) with
    | some g =>
      rw [hf] at h
      simp only [Option.some.injEq, Prod.mk.injEq] at h
      obtain ⟨rfl, rfl⟩ := h
      exact ⟨l, by simp, Nat.le_refl _, List.mem_of_find?_eq_some hf⟩
    | none =>
      rw [hf] at h
      obtain ⟨l', h1, h2, h3⟩ := ih h
      refine ⟨l', ?_, by omega, h3⟩
      have : j - i = (j - (i + 1)) + 1 := by omega
      rw [this]; simpa using h1

/-- the field found by `find_field` belongs to the layer whose index is returned -/
theorem findField_some {ob : Obj} {start li : Nat} {name : String} {f : Field}
    (h : findField ob start name = some (li, f)) :
    ∃ l, ob.layers[li]? = some l ∧ f ∈ l.fields := by
  unfold findField at h
  obtain ⟨l, h1, h2, h3⟩ := findField_go_some h
  refine ⟨l, ?_, h3⟩
  rw [List.getElem?_drop] at h1
  have : start + (li - start) = li := by omega
  rw [this] at h1; exact h1

/-! ### Static part -/

theorem staticLayer_eq {l l' : Layer} (h : staticLayer l' = staticLayer l) :
    l'.isTop = l.isTop ∧ l'.locals = l.locals ∧ l'.baseEnv = l.baseEnv ∧ l'.asserts = l.asserts ∧
    l'.fields.map staticField = l.fields.map staticField := by
  simp only [staticLayer, Layer.mk.injEq] at h
  obtain ⟨h1, h2, h3, _, h5, h6⟩ := h
  exact ⟨h1, h2, h3, h6, h5⟩

theorem staticField_eq {f f' : Field} (h : staticField f' = staticField f) :
    f'.name = f.name ∧ f'.baseEnv = f.baseEnv ∧ f'.expr = f.expr := by
  simp only [staticField, Field.mk.injEq] at h
  exact ⟨h.1, h.2.2.1, h.2.2.2.1⟩

/-- a field of `l'` has a twin in `l` when the static parts agree -/
theorem field_twin {l l' : Layer} (h : l'.fields.map staticField = l.fields.map staticField) {f' : Field}
    (hf : f' ∈ l'.fields) : ∃ f ∈ l.fields, f'.baseEnv = f.baseEnv ∧ f'.expr = f.expr := by
  have : staticField f' ∈ l'.fields.map staticField := List.mem_map_of_mem hf
  rw [h] at this
  obtain ⟨f, hf1, hf2⟩ := List.mem_map.1 this
  obtain ⟨_, h2, h3⟩ := staticField_eq hf2
  exact ⟨f, hf1, h2.symm, h3.symm⟩

section
variable {EO : EId → AEnv → Prop}

theorem LayerBody_of_static {l l' : Layer} (hs : staticLayer l' = staticLayer l) {Γ : AEnv}
    (h : LayerBody l Γ) : LayerBody l' Γ := by
  obtain ⟨_, _, _, h4, h5⟩ := staticLayer_eq hs
  refine ⟨by rw [h4]; exact h.1, ?_⟩
  intro f' hf' hb ep hep
  obtain ⟨f, hf, g1, g2⟩ := field_twin h5 hf'
  exact h.2 f hf (g1 ▸ hb) ep (g2 ▸ hep)

theorem InitOk_of_static {l l' : Layer} (hs : staticLayer l' = staticLayer l) {b : EId} {P : AEnv → Prop}
    (h : InitOk EO l b P) : InitOk EO l' b P := by
  obtain ⟨h1, h2, _, _, _⟩ := staticLayer_eq hs
  obtain ⟨Γ, g1, g2, g3, g4⟩ := h
  refine ⟨Γ, g1, ?_, ?_, ?_⟩
  · rw [h1]; exact g2
  · rw [h2]; exact g3
  · rw [h2]; exact g4

/-- the invariant of a layer depends on its static part and its cached environment only -/
theorem LayerOk_of_static {l l' : Layer} (hs : staticLayer l' = staticLayer l)
    (he : ∀ e, l'.env = some e → l.env = some e) (h : LayerOk EO l) : LayerOk EO l' := by
  obtain ⟨h1, h2, h3, h4, h5⟩ := staticLayer_eq hs
  obtain ⟨g1, g2, g3⟩ := h
  refine ⟨?_, ?_, ?_⟩
  · intro b hb
    have := g1 b (h3 ▸ hb)
    obtain ⟨Γ, k1, k2, k3, k4⟩ := InitOk_of_static hs this
    exact ⟨Γ, k1, k2, k3, LayerBody_of_static hs (by rw [h2]; rw [h2] at k4; exact k4)⟩
  · intro f' hf' b hb
    obtain ⟨f, hf, k1, k2⟩ := field_twin h5 hf'
    have := InitOk_of_static hs (g2 f hf b (k1 ▸ hb))
    obtain ⟨Γ, m1, m2, m3, m4⟩ := this
    exact ⟨Γ, m1, m2, m3, fun ep hep => m4 ep (k2 ▸ hep)⟩
  · intro e hen
    obtain ⟨Γ, k1, k2, k3⟩ := g3 e (he e hen)
    exact ⟨Γ, k1, k2, LayerBody_of_static hs k3⟩

theorem staticLayer_clone (l : Layer) : staticLayer (cloneLayer l) = staticLayer l := by
  simp only [staticLayer, cloneLayer, List.map_map]
  congr 1
  all_goals try (apply List.map_congr_left; intro f _; simp [staticField, cloneField])

/-- `extend_object`: cloned layers are well scoped -/
theorem LayerOk.clone {l : Layer} (h : LayerOk EO l) : LayerOk EO (cloneLayer l) :=
  LayerOk_of_static (staticLayer_clone l) (fun e he => by simp [cloneLayer] at he) h

theorem layers_extendObject {lhs rhs : Obj}
    (h1 : ∀ l ∈ lhs.layers, LayerOk EO l) (h2 : ∀ l ∈ rhs.layers, LayerOk EO l) :
    ∀ l ∈ (extendObject lhs rhs).layers, LayerOk EO l := by
  intro l hl
  simp only [extendObject, List.mem_map, List.mem_append] at hl
  obtain ⟨l0, hl0, rfl⟩ := hl
  rcases hl0 with h | h
  · exact (h2 l0 h).clone
  · exact (h1 l0 h).clone

theorem layers_extendObject' {lhs rhs : Obj} {l : Layer} (hl : l ∈ (extendObject lhs rhs).layers)
    (h1 : ∀ l ∈ lhs.layers, LayerOk EO l) (h2 : ∀ l ∈ rhs.layers, LayerOk EO l) : LayerOk EO l :=
  layers_extendObject h1 h2 l hl

end

/-! ### Shape -/

theorem LayerShape.clone {l : Layer} (h : LayerShape l) : LayerShape (cloneLayer l) := by
  refine ⟨?_, h.assertBase, ?_⟩
  · intro f hf hb he
    simp only [cloneLayer, List.mem_map] at hf
    obtain ⟨g, hg, rfl⟩ := hf
    exact h.fieldBase g hg hb he
  · intro f hf ht
    simp only [cloneLayer, List.mem_map] at hf
    obtain ⟨g, hg, rfl⟩ := hf
    simp only [cloneField] at ht ⊢
    cases he : g.expr with
    | some e => rfl
    | none =>
      rw [he] at ht
      have := h.fieldExpr g hg ht
      rw [he] at this; cases this

theorem shape_extendObject {lhs rhs : Obj}
    (h1 : ∀ l ∈ lhs.layers, LayerShape l) (h2 : ∀ l ∈ rhs.layers, LayerShape l) {l : Layer}
    (hl : l ∈ (extendObject lhs rhs).layers) : LayerShape l := by
  simp only [extendObject, List.mem_map, List.mem_append] at hl
  obtain ⟨l0, hl0, rfl⟩ := hl
  rcases hl0 with h | h
  · exact (h2 l0 h).clone
  · exact (h1 l0 h).clone

theorem shape_extendObject' {lhs rhs : Obj} {l : Layer} (hl : l ∈ (extendObject lhs rhs).layers)
    (h1 : ∀ l ∈ lhs.layers, LayerShape l) (h2 : ∀ l ∈ rhs.layers, LayerShape l) : LayerShape l :=
  shape_extendObject h1 h2 hl

theorem LayerShape.setEnv {l : Layer} (h : LayerShape l) (e : Option EId) : LayerShape { l with env := e } :=
  ⟨h.fieldBase, h.assertBase, h.fieldExpr⟩

/-- caching thunks in fields keeps the shape -/
theorem LayerShape.mapFields {l : Layer} (h : LayerShape l) (g : Field → Field)
    (hg : ∀ f, (g f).baseEnv = f.baseEnv ∧ (g f).expr = f.expr ∧ ((g f).thunk = none → f.thunk = none)) :
    LayerShape { l with fields := l.fields.map g } := by
  refine ⟨?_, h.assertBase, ?_⟩
  · intro f hf hb he
    simp only [List.mem_map] at hf
    obtain ⟨f0, hf0, rfl⟩ := hf
    exact h.fieldBase f0 hf0 ((hg f0).1 ▸ hb) ((hg f0).2.1 ▸ he)
  · intro f hf ht
    simp only [List.mem_map] at hf
    obtain ⟨f0, hf0, rfl⟩ := hf
    rw [(hg f0).2.1]
    exact h.fieldExpr f0 hf0 ((hg f0).2.2 ht)

theorem set_eq_self {α} (l : List α) (i : Nat) (x : α) (h : l[i]? = some x) : l.set i x = l := by
  apply List.ext_getElem?
  intro j
  rw [List.getElem?_set]
  split
  · subst_vars; split <;> simp_all
  · rfl

/-- replacing a layer by one with the same static part keeps the static part of the object -/
theorem map_static_set {ls : List Layer} {li : Nat} {x y : Layer} (hy : ls[li]? = some y)
    (hx : staticLayer x = staticLayer y) : (ls.set li x).map staticLayer = ls.map staticLayer := by
  rw [List.map_set, hx]
  have hlt : li < ls.length := by
    rcases Nat.lt_or_ge li ls.length with h | h
    · exact h
    · simp [List.getElem?_eq_none h] at hy
  have : (ls.map staticLayer)[li]? = some (staticLayer y) := by simp [hy]
  exact set_eq_self _ _ _ this

theorem getElem?_of_map_static {ls ls' : List Layer} (h : ls'.map staticLayer = ls.map staticLayer)
    {li : Nat} {y : Layer} (hy : ls[li]? = some y) :
    ∃ y', ls'[li]? = some y' ∧ staticLayer y' = staticLayer y := by
  have h1 : (ls.map staticLayer)[li]? = some (staticLayer y) := by simp [hy]
  rw [← h] at h1
  simp only [List.getElem?_map, Option.map_eq_some_iff] at h1
  exact h1

/-! ### Field names: every visible name is found by `find_field` -/

def layerNames (l : Layer) : List String := l.fields.map (·.name)
def objNames (ob : Obj) : List String := ob.layers.flatMap layerNames

theorem mem_insertSorted {n : String} {v : Vis} {acc : List (String × Vis)} {p : String × Vis}
    (h : p ∈ insertSorted n v acc) : p = (n, v) ∨ p ∈ acc := by
  induction acc with
  | nil => simp [insertSorted] at h; exact .inl h
  | cons q rest ih =>
    obtain ⟨m, w⟩ := q
    simp only [insertSorted] at h
    split at h
    · simp only [List.mem_cons] at h ⊢
      rcases h with h | h | h
      · exact .inl h
      · exact .inr (.inl h)
      · exact .inr (.inr h)
    · simp only [List.mem_cons] at h ⊢
      rcases h with h | h
      · exact .inr (.inl h)
      · rcases ih h with h' | h'
        · exact .inl h'
        · exact .inr (.inr h')

theorem fieldsOrder_fields (N : List String) (fs : List Field) (acc : List (String × Vis))
    (hacc : ∀ p ∈ acc, p.1 ∈ N) (hfs : ∀ f ∈ fs, f.name ∈ N) :
    ∀ p ∈ fs.foldl (fun acc f =>
      match acc.find? (fun p => p.1 == f.name) with
      | none => insertSorted f.name f.vis acc
      | some (_, .default) => acc.map (fun p => if p.1 == f.name then (p.1, f.vis) else p)
      | some _ => acc) acc, p.1 ∈ N := by
  induction fs generalizing acc with
  | nil => exact hacc
  | cons f rest ih =>
    simp only [List.foldl_cons]
    apply ih
    · intro p hp
      split at hp
      · rcases mem_insertSorted hp with rfl | h
        · exact hfs f (by simp)
        · exact hacc p h
      · obtain ⟨q, hq, rfl⟩ := List.mem_map.1 hp
        split
        · exact hacc q hq
        · exact hacc q hq
      · exact hacc p hp
    · intro g hg; exact hfs g (by simp [hg])

theorem fieldsOrder_layers (N : List String) (ls : List Layer) (acc : List (String × Vis))
    (hacc : ∀ p ∈ acc, p.1 ∈ N) (hls : ∀ l ∈ ls, ∀ f ∈ l.fields, f.name ∈ N) :
    ∀ p ∈ ls.foldl (fun acc layer => layer.fields.foldl (fun acc f =>
      match acc.find? (fun p => p.1 == f.name) with
      | none => insertSorted f.name f.vis acc
      | some (_, .default) => acc.map (fun p => if p.1 == f.name then (p.1, f.vis) else p)
      | some _ => acc) acc) acc, p.1 ∈ N := by
  induction ls generalizing acc with
  | nil => exact hacc
  | cons l rest ih =>
    simp only [List.foldl_cons]
    apply ih
    · exact fieldsOrder_fields N l.fields acc hacc (hls l (by simp))
    · intro l' hl'; exact hls l' (by simp [hl'])

/-- every visible field name is the name of a field of some layer -/
theorem visible_mem_names {ob : Obj} {n : String} (h : n ∈ visibleFields ob) : n ∈ objNames ob := by
  simp only [visibleFields, List.mem_filterMap] at h
  obtain ⟨p, hp, hq⟩ := h
  have := fieldsOrder_layers (objNames ob) ob.layers [] (by simp)
    (by intro l hl f hf
        simp only [objNames, List.mem_flatMap]
        exact ⟨l, hl, List.mem_map.2 ⟨f, hf, rfl⟩⟩) p hp
  split at hq
  · cases hq
  · cases hq; exact this

theorem findField_go_isSome {ls : List Layer} {i : Nat} {n : String}
    (h : n ∈ ls.flatMap layerNames) : (findField.go n ls i).isSome = true := by
  induction ls generalizing i with
  | nil => simp at h
  | cons l rest ih =>
    unfold findField.go
    cases hf : l.fields.find? (fun f => f.name == n) with
    | some g => rfl
    | none =>
      simp only [List.flatMap_cons, List.mem_append] at h
      rcases h with h | h
      · exfalso
        obtain ⟨f, hf1, hf2⟩ := List.mem_map.1 h
        have := List.find?_eq_none.1 hf f hf1
        simp [hf2] at this
      · exact ih h

/-- … and `find_field` from the top layer finds it -/
theorem findField_isSome {ob : Obj} {n : String} (h : n ∈ objNames ob) : (findField ob 0 n).isSome = true := by
  unfold findField
  simp only [List.drop_zero]
  exact findField_go_isSome h

theorem layerNames_static (l : Layer) : layerNames (staticLayer l) = layerNames l := by
  simp [layerNames, staticLayer, staticField, List.map_map, Function.comp_def]

/-- the names of an object never change -/
theorem objNames_static {ob ob' : Obj} (h : ob'.layers.map staticLayer = ob.layers.map staticLayer) :
    objNames ob' = objNames ob := by
  have key : ∀ ls : List Layer, ls.flatMap layerNames = (ls.map staticLayer).flatMap layerNames := by
    intro ls
    induction ls with
    | nil => rfl
    | cons l rest ih => simp [List.flatMap_cons, layerNames_static, ih]
  simp only [objNames]
  rw [key ob'.layers, key ob.layers, h]

end Rsj.Eval.Scope
