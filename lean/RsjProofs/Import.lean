/-
  Helper lemmas about the import model (`RsjModel/Import.lean`): the search
  order of `find_import`, invariance of the search paths, and the cache
  invariant of `load_real_file` (load once).
-/
import RsjModel.Import
namespace Rsj.Import

/-! ### `find_import` -/

theorem findImport_abs (fs : FS) (s : Session) (fromSrc : Nat) (path : String) (h : isAbs path = true) :
    findImport fs s fromSrc path = if fs.exists path then some path else none := by
  unfold findImport
  simp [h]

theorem findImport_rel (fs : FS) (s : Session) (fromSrc : Nat) (path : String) (h : isAbs path = false) :
    findImport fs s fromSrc path =
      ((baseDirs s fromSrc).map (fun b => pathJoin b path)).find? (fun full => fs.exists full) := by
  unfold findImport
  simp [h]

theorem findImport_eq_candidates (fs : FS) (s : Session) (fromSrc : Nat) (path : String) :
    findImport fs s fromSrc path = (candidates s fromSrc path).find? (fun full => fs.exists full) := by
  unfold findImport candidates
  cases h : isAbs path with
  | true => simp only [if_true, List.find?_cons, List.find?_nil]; cases fs.exists path <;> rfl
  | false => simp

theorem findImport_exists {fs : FS} {s : Session} {fromSrc : Nat} {path full : String}
    (h : findImport fs s fromSrc path = some full) : fs.exists full = true := by
  rw [findImport_eq_candidates] at h
  have := List.find?_some h
  exact this

/-! ### The session is only ever extended -/

theorem loadRealFile_searchPaths (fs : FS) (parses : List Nat → Bool) (s : Session) (path : String) :
    (loadRealFile fs parses s path).1.searchPaths = s.searchPaths := by
  unfold loadRealFile
  split
  · rfl
  · rfl
  · split
    · rfl
    · split
      · rfl
      · simp only
        split <;> rfl

theorem doImport_searchPaths (fs : FS) (parses : List Nat → Bool) (s : Session) (fromSrc : Nat) (path : String) :
    (doImport fs parses s fromSrc path).1.searchPaths = s.searchPaths := by
  unfold doImport
  split
  · rfl
  · exact loadRealFile_searchPaths _ _ _ _

theorem runImports_searchPaths (fs : FS) (parses : List Nat → Bool) (s : Session) (ops : List ImportOp) :
    (runImports fs parses s ops).searchPaths = s.searchPaths := by
  induction ops generalizing s with
  | nil => rfl
  | cons op rest ih => simp only [runImports]; rw [ih, doImport_searchPaths]

/-! ### The cache invariant -/

/-- `loads` has no repetition and lists exactly the keys of the cache. -/
structure Inv (s : Session) : Prop where
  nodup : s.loads.Nodup
  keys : ∀ c, c ∈ s.loads ↔ cacheGet s.cache c ≠ none

theorem inv_ofJpaths (jl : List String) : Inv (Session.ofJpaths jl) :=
  ⟨List.nodup_nil, fun c => by simp [Session.ofJpaths, cacheGet]⟩

theorem cacheGet_cons (k : String) (v : Nat) (rest : List (String × Nat)) (c : String) :
    cacheGet ((k, v) :: rest) c = if k = c then some v else cacheGet rest c := rfl

theorem loadRealFile_inv (fs : FS) (parses : List Nat → Bool) (s : Session) (path : String) (h : Inv s) :
    Inv (loadRealFile fs parses s path).1 := by
  unfold loadRealFile
  split
  · exact h
  · exact h
  · next norm hc =>
    split
    · exact h
    · next hmiss =>
      split
      · exact h
      · next data hr =>
        simp only
        split
        · refine ⟨?_, ?_⟩
          · simp only
            rw [List.nodup_append]
            refine ⟨h.nodup, by simp, ?_⟩
            intro a ha b hb
            simp only [List.mem_singleton] at hb
            subst hb
            intro hab
            subst hab
            exact (h.keys a).mp ha hmiss
          · intro c
            simp only [List.mem_append, List.mem_singleton, cacheGet_cons]
            by_cases hcn : norm = c
            · simp [hcn]
            · simp only [hcn, if_false]
              rw [← h.keys c]
              constructor
              · rintro (hm | he)
                · exact hm
                · exact absurd he.symm hcn
              · intro hm; exact Or.inl hm
        · exact ⟨h.nodup, h.keys⟩

theorem doImport_inv (fs : FS) (parses : List Nat → Bool) (s : Session) (fromSrc : Nat) (path : String)
    (h : Inv s) : Inv (doImport fs parses s fromSrc path).1 := by
  unfold doImport
  split
  · exact h
  · exact loadRealFile_inv _ _ _ _ h

theorem runImports_inv (fs : FS) (parses : List Nat → Bool) (s : Session) (ops : List ImportOp) (h : Inv s) :
    Inv (runImports fs parses s ops) := by
  induction ops generalizing s with
  | nil => exact h
  | cons op rest ih => exact ih _ (doImport_inv _ _ _ _ _ h)

/-- Entries of the cache are never replaced or removed. -/
theorem loadRealFile_cache_mono (fs : FS) (parses : List Nat → Bool) (s : Session) (path : String)
    {c : String} {t : Nat} (h : cacheGet s.cache c = some t) :
    cacheGet (loadRealFile fs parses s path).1.cache c = some t := by
  unfold loadRealFile
  split
  · exact h
  · exact h
  · next norm hc =>
    split
    · exact h
    · next hmiss =>
      split
      · exact h
      · simp only
        split
        · simp only [cacheGet_cons]
          by_cases hcn : norm = c
          · subst hcn; rw [hmiss] at h; cases h
          · simp only [hcn, if_false]; exact h
        · exact h

theorem doImport_cache_mono (fs : FS) (parses : List Nat → Bool) (s : Session) (fromSrc : Nat) (path : String)
    {c : String} {t : Nat} (h : cacheGet s.cache c = some t) :
    cacheGet (doImport fs parses s fromSrc path).1.cache c = some t := by
  unfold doImport
  split
  · exact h
  · exact loadRealFile_cache_mono _ _ _ _ h

theorem runImports_cache_mono (fs : FS) (parses : List Nat → Bool) (s : Session) (ops : List ImportOp)
    {c : String} {t : Nat} (h : cacheGet s.cache c = some t) :
    cacheGet (runImports fs parses s ops).cache c = some t := by
  induction ops generalizing s with
  | nil => exact h
  | cons op rest ih => exact ih _ (doImport_cache_mono _ _ _ _ _ h)

/-- A successful `load_real_file` returns the thunk the cache holds for the canonical path. -/
theorem loadRealFile_ok (fs : FS) (parses : List Nat → Bool) (s : Session) (path : String) {t : Nat}
    (h : (loadRealFile fs parses s path).2 = .ok t) :
    ∃ c, fs.canonicalize path = .ok c ∧ cacheGet (loadRealFile fs parses s path).1.cache c = some t := by
  cases hc : fs.canonicalize path with
  | error e =>
    unfold loadRealFile at h
    simp only [hc] at h
    cases e <;> simp at h
  | ok norm =>
    refine ⟨norm, rfl, ?_⟩
    unfold loadRealFile at h ⊢
    simp only [hc] at h ⊢
    cases hg : cacheGet s.cache norm with
    | some t' =>
      simp only [hg] at h ⊢
      cases h
      rfl
    | none =>
      simp only [hg] at h ⊢
      cases hr : fs.read path with
      | error e => simp [hr] at h
      | ok data =>
        simp only [hr] at h ⊢
        cases hp : parses data with
        | true =>
          simp only [hp, if_true] at h ⊢
          cases h
          simp [cacheGet_cons]
        | false => simp [hp] at h

/-- A cache hit changes nothing. -/
theorem loadRealFile_hit (fs : FS) (parses : List Nat → Bool) (s : Session) (path : String) {c : String} {t : Nat}
    (hc : fs.canonicalize path = .ok c) (h : cacheGet s.cache c = some t) :
    loadRealFile fs parses s path = (s, .ok t) := by
  unfold loadRealFile
  simp only [hc, h]

/-- The number of successful loads of a canonical path. -/
def loadCount (s : Session) (c : String) : Nat := s.loads.count c

theorem loadCount_le_one {s : Session} (h : Inv s) (c : String) : loadCount s c ≤ 1 :=
  List.nodup_iff_count.mp h.nodup c

end Rsj.Import
