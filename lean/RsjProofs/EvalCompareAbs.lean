/-
  C08 on the evaluator model, part 2: the abstraction.

  * `Ret m st r`: the computation `m`, started in the store `st` (whatever its ghost depth
    counter), returns `r` and leaves the store unchanged except for the ghost counter
    `deepest` (which `stepN` raises to the depth of every step it starts).
  * `Evald st h v`: `v` is deeply evaluated, with a nesting height of at most `h`.
  * `absVal st h v`: the value of the comparison model that `v` stands for.
-/
import RsjModel.Eval
import RsjProofs.EvalCompareNum
set_option linter.unusedSectionVars false
namespace Rsj.Eval.Cmp
open Rsj.Core Rsj.Eval

abbrev CV [FloatLaws] := Rsj.Compare.Value FNum
abbrev CT [FloatLaws] := Rsj.Compare.Thunk FNum

/-! ### the evaluation monad, applied to a store -/

theorem bind_apply {α β} (x : M α) (f : α → M β) (st : St) :
    (x >>= f) st = match x st with
      | none => none
      | some (.ok a, s') => f a s'
      | some (.error e, s') => some (.error e, s') := by
  show (ExceptT.bind x f) st = _
  unfold ExceptT.bind ExceptT.bindCont ExceptT.mk
  show (StateT.bind x _) st = _
  unfold StateT.bind
  show (Option.bind (x st) _) = _
  cases h : x st with
  | none => rfl
  | some p =>
    obtain ⟨r, s'⟩ := p
    cases r <;> rfl

theorem get_apply (st : St) : (get : M St) st = some (.ok st, st) := rfl
theorem set_apply (st' st : St) : (set st' : M PUnit) st = some (.ok ⟨⟩, st') := rfl
theorem pure_apply {α} (a : α) (st : St) : (pure a : M α) st = some (.ok a, st) := rfl
theorem throw_apply {α} (e : Err) (st : St) : (throw e : M α) st = some (.error e, st) := rfl

/-- `m` returns `r`; the store is unchanged up to the ghost depth counter. -/
def Ret {α} (m : M α) (st : St) (r : Except Err α) : Prop :=
  ∀ k, ∃ k', m { st with deepest := k } = some (r, { st with deepest := k' })

theorem Ret.run {α} {m : M α} {st : St} {r : Except Err α} (h : Ret m st r) :
    ∃ k', m st = some (r, { st with deepest := k' }) := h st.deepest

theorem Ret.pure {α} (a : α) (st : St) : Ret (pure a : M α) st (.ok a) := fun k => ⟨k, rfl⟩
theorem Ret.throw {α} (e : Err) (st : St) : Ret (throw e : M α) st (.error e) := fun k => ⟨k, rfl⟩

theorem Ret.bind_ok {α β} {m : M α} {f : α → M β} {st : St} {a : α} {r : Except Err β}
    (hm : Ret m st (.ok a)) (hf : Ret (f a) st r) : Ret (m >>= f) st r := by
  intro k
  obtain ⟨k1, h1⟩ := hm k
  obtain ⟨k2, h2⟩ := hf k1
  exact ⟨k2, by rw [bind_apply, h1]; exact h2⟩

theorem Ret.bind_err {α β} {m : M α} {f : α → M β} {st : St} {e : Err}
    (hm : Ret m st (.error e)) : Ret (m >>= f) st (.error e) := by
  intro k
  obtain ⟨k1, h1⟩ := hm k
  exact ⟨k1, by rw [bind_apply, h1]⟩

/-- a computation has at most one outcome -/
theorem Ret.det {α} {m : M α} {st : St} {r r' : Except Err α} (h : Ret m st r) (h' : Ret m st r') :
    r = r' := by
  obtain ⟨k1, h1⟩ := h 0
  obtain ⟨k2, h2⟩ := h' 0
  rw [h1] at h2
  injection h2 with h2
  injection h2

/-- from a plain run to `Ret`, when the computation is known to be of the `Ret` kind -/
theorem Ret.of_run {α} {m : M α} {st st' : St} {r r' : Except Err α} (h : Ret m st r)
    (h' : m st = some (r', st')) : r' = r ∧ ∃ k, st' = { st with deepest := k } := by
  obtain ⟨k1, h1⟩ := h.run
  rw [h1] at h'
  injection h' with h'
  injection h' with ha hb
  exact ⟨ha.symm, k1, hb.symm⟩

theorem Ret_getThunk {st : St} {t : TId} {s : TState} (h : st.thunks[t]? = some s) :
    Ret (getThunk t) st (.ok s) := by
  intro k
  refine ⟨k, ?_⟩
  unfold getThunk
  rw [bind_apply, get_apply]
  have h' : ({ st with deepest := k } : St).thunks[t]? = some s := h
  simp only [h']; rfl

theorem Ret_getObj {st : St} {o : OId} {ob : Obj} (h : st.objs[o]? = some ob) :
    Ret (getObj o) st (.ok ob) := by
  intro k
  refine ⟨k, ?_⟩
  unfold getObj
  rw [bind_apply, get_apply]
  have h' : ({ st with deepest := k } : St).objs[o]? = some ob := h
  simp only [h']; rfl

theorem Ret_checkDepth {cfg : Cfg} {st : St} {d : Nat} (h : d ≤ cfg.maxStack) :
    Ret (checkDepth cfg d) st (.ok ()) := by
  intro k
  refine ⟨k, ?_⟩
  unfold checkDepth
  rw [if_neg (by omega)]; rfl

theorem Ret_checkDepth_over {cfg : Cfg} {st : St} {d : Nat} (h : cfg.maxStack < d) :
    Ret (checkDepth cfg d) st (.error .stackOverflow) := by
  intro k
  refine ⟨k, ?_⟩
  unfold checkDepth
  rw [if_pos h]; rfl

theorem Ret_noteDepth (st : St) (d : Nat) : Ret (noteDepth d) st (.ok ()) :=
  fun k => ⟨max k d, rfl⟩

theorem Ret_switchState_done {st : St} {t : TId} {v : Value} (h : st.thunks[t]? = some (.done v)) :
    Ret (switchState t) st (.ok (.done v)) := by
  intro k
  refine ⟨k, ?_⟩
  unfold switchState
  rw [bind_apply, get_apply]
  have h' : ({ st with deepest := k } : St).thunks[t]? = some (.done v) := h
  simp only [h']; rfl

/-- a field whose thunk is cached: `find_object_field_thunk` only reads -/
theorem Ret_fieldThunk {st : St} {o : OId} {ob : Obj} {start : Nat} {name : String} {li : Nat}
    {f : Field} {t : TId} (ho : st.objs[o]? = some ob) (hf : findField ob start name = some (li, f))
    (ht : f.thunk = some t) : Ret (fieldThunk o start name) st (.ok (some t)) := by
  unfold fieldThunk
  refine Ret.bind_ok (Ret_getObj ho) ?_
  simp only [hf, ht]
  exact Ret.pure _ _

/-! ### `run` on an evaluated thunk / a checked object -/

theorem run_succ (cfg : Cfg) (n : Nat) (t : Task) :
    run cfg (n + 1) t = (noteDepth t.depth >>= fun _ => step cfg (run cfg n) t) := rfl

theorem step_force (cfg : Cfg) (rec : Task → M Value) (t : TId) (d : Nat) :
    step cfg rec (.force t d) = (do
      match ← switchState t with
      | .done v => pure v
      | .inProgress _ => throw .infiniteRecursion
      | .pending p =>
        let v ← thunkBody cfg rec p d
        finishThunk t v
        pure v) := rfl

theorem step_asserts_checked (cfg : Cfg) (rec : Task → M Value) (o : OId) (d : Nat) {st : St} {ob : Obj}
    (ho : st.objs[o]? = some ob) (hc : ob.assertsChecked = true) :
    Ret (step cfg rec (.asserts o d)) st (.ok .null) := by
  simp only [step]
  refine Ret.bind_ok (Ret_getObj ho) ?_
  simp only [hc, if_true]
  exact Ret.pure _ _

/-- forcing an evaluated thunk returns its value (one level of fuel) -/
theorem run_force_done (cfg : Cfg) (n : Nat) {st : St} {t : TId} {v : Value} (d : Nat)
    (h : st.thunks[t]? = some (.done v)) : Ret (run cfg (n + 1) (.force t d)) st (.ok v) := by
  rw [run_succ]
  refine Ret.bind_ok (Ret_noteDepth _ _) ?_
  rw [step_force]
  refine Ret.bind_ok (Ret_switchState_done h) ?_
  exact Ret.pure _ _

/-- the assertions of an object whose assertions have been checked are not run again -/
theorem run_asserts_checked (cfg : Cfg) (n : Nat) {st : St} {o : OId} {ob : Obj} (d : Nat)
    (ho : st.objs[o]? = some ob) (hc : ob.assertsChecked = true) :
    Ret (run cfg (n + 1) (.asserts o d)) st (.ok .null) := by
  rw [run_succ]
  exact Ret.bind_ok (Ret_noteDepth _ _) (step_asserts_checked cfg _ o d ho hc)

/-! ### deeply evaluated values and what they stand for -/

section
variable [FloatLaws]

/-- `v` is deeply evaluated in `st`, nesting height at most `h`: no NaN; every element thunk of an
    array is `done`; every object has its assertions checked and each *visible* field cached in a
    `done` thunk (hidden fields are unconstrained); recursively, with height `h - 1`. -/
def Evald (st : St) : Nat → Value → Prop
  | 0 => fun v =>
    match v with
    | .num f => FOk f
    | .arr _ => False
    | .obj _ => False
    | _ => True
  | h + 1 => fun v =>
    match v with
    | .num f => FOk f
    | .arr items => ∀ t ∈ items, ∃ w, st.thunks[t]? = some (.done w) ∧ Evald st h w
    | .obj o => ∃ ob, st.objs[o]? = some ob ∧ ob.assertsChecked = true ∧
        ∀ name ∈ visibleFields ob, ∃ li f t w, findField ob 0 name = some (li, f) ∧
          f.thunk = some t ∧ st.thunks[t]? = some (.done w) ∧ Evald st h w
    | _ => True

/-- the thunk `t`, seen through `g` -/
def absThunkWith (g : Value → CV) (st : St) (t : TId) : CT :=
  match st.thunks[t]? with
  | some (.done w) => .val (g w)
  | _ => .fail .explicit

/-- the visible field `name` of `ob`, seen through `g` -/
def absFieldWith (g : Value → CV) (st : St) (ob : Obj) (name : String) : CT :=
  match findField ob 0 name with
  | some (_, f) =>
    match f.thunk with
    | some t => absThunkWith g st t
    | none => .fail .explicit
  | none => .fail .explicit

/-- The value of the comparison model that `v` stands for: arrays are the lists of their elements,
    objects the lists of their *visible* fields in `visibleFields` order (sorted by name). (Where
    `v` is not `Evald st h` the result is a placeholder.) -/
def absVal (st : St) : Nat → Value → CV
  | 0 => fun v =>
    match v with
    | .null => .null
    | .bool b => .bool b
    | .num f => .num (absNum f)
    | .str s => .str (absStr s)
    | .arr _ => .arr []
    | .obj _ => .obj []
    | .func _ => .func
  | h + 1 => fun v =>
    match v with
    | .null => .null
    | .bool b => .bool b
    | .num f => .num (absNum f)
    | .str s => .str (absStr s)
    | .arr items => .arr (items.map (absThunkWith (absVal st h) st))
    | .obj o =>
      match st.objs[o]? with
      | some ob => .obj ((visibleFields ob).map (fun name => (name, absFieldWith (absVal st h) st ob name)))
      | none => .obj []
    | .func _ => .func

omit [FloatLaws] in
theorem Evald_mono {st : St} : ∀ {h : Nat} {v : Value}, Evald st h v → Evald st (h + 1) v
  | 0, v, hv => by
    cases v <;> first | exact hv | exact trivial | exact hv.elim
  | h + 1, v, hv => by
    cases v with
    | arr items =>
      intro t ht
      obtain ⟨w, h1, h2⟩ := hv t ht
      exact ⟨w, h1, Evald_mono h2⟩
    | obj o =>
      obtain ⟨ob, h1, h2, h3⟩ := hv
      refine ⟨ob, h1, h2, fun name hn => ?_⟩
      obtain ⟨li, f, t, w, g1, g2, g3, g4⟩ := h3 name hn
      exact ⟨li, f, t, w, g1, g2, g3, Evald_mono g4⟩
    | _ => exact hv

omit [FloatLaws] in
theorem Evald_mono_le {st : St} {h h' : Nat} {v : Value} (hv : Evald st h v) (hle : h ≤ h') :
    Evald st h' v := by
  induction hle with
  | refl => exact hv
  | step _ ih => exact Evald_mono ih

/-- the abstraction of an evaluated value does not depend on the height bound -/
theorem absVal_mono {st : St} : ∀ {h : Nat} {v : Value}, Evald st h v → absVal st (h + 1) v = absVal st h v
  | 0, v, hv => by
    cases v <;> first | rfl | exact hv.elim
  | h + 1, v, hv => by
    cases v with
    | arr items =>
      show Compare.Value.arr _ = Compare.Value.arr _
      congr 1
      apply List.map_congr_left
      intro t ht
      obtain ⟨w, h1, h2⟩ := hv t ht
      simp only [absThunkWith, h1]
      rw [absVal_mono h2]
    | obj o =>
      obtain ⟨ob, h1, h2, h3⟩ := hv
      show (match st.objs[o]? with | some ob => _ | none => _) = (match st.objs[o]? with | some ob => _ | none => _)
      rw [h1]
      show Compare.Value.obj _ = Compare.Value.obj _
      congr 1
      apply List.map_congr_left
      intro name hn
      obtain ⟨li, f, t, w, g1, g2, g3, g4⟩ := h3 name hn
      simp only [absFieldWith, absThunkWith, g1, g2, g3]
      rw [absVal_mono g4]
    | _ => rfl

theorem absVal_mono_le {st : St} {h h' : Nat} {v : Value} (hv : Evald st h v) (hle : h ≤ h') :
    absVal st h' v = absVal st h v := by
  induction hle with
  | refl => rfl
  | step hle ih => rw [absVal_mono (Evald_mono_le hv hle), ih]

/-! #### what `Evald` says, constructor by constructor -/

omit [FloatLaws] in
theorem Evald_arr {st : St} {h : Nat} {items : List TId} (hv : Evald st h (.arr items)) :
    ∃ h', h = h' + 1 ∧ ∀ t ∈ items, ∃ w, st.thunks[t]? = some (.done w) ∧ Evald st h' w := by
  cases h with
  | zero => exact hv.elim
  | succ h' => exact ⟨h', rfl, hv⟩

omit [FloatLaws] in
theorem Evald_obj {st : St} {h : Nat} {o : OId} (hv : Evald st h (.obj o)) :
    ∃ h', h = h' + 1 ∧ ∃ ob, st.objs[o]? = some ob ∧ ob.assertsChecked = true ∧
      ∀ name ∈ visibleFields ob, ∃ li f t w, findField ob 0 name = some (li, f) ∧
        f.thunk = some t ∧ st.thunks[t]? = some (.done w) ∧ Evald st h' w := by
  cases h with
  | zero => exact hv.elim
  | succ h' => exact ⟨h', rfl, hv⟩

omit [FloatLaws] in
theorem Evald_num {st : St} {h : Nat} {f : Float} (hv : Evald st h (.num f)) : FOk f := by
  cases h <;> exact hv

theorem absVal_null (st : St) (h : Nat) : absVal st h .null = .null := by cases h <;> rfl
theorem absVal_bool (st : St) (h : Nat) (b : Bool) : absVal st h (.bool b) = .bool b := by cases h <;> rfl
theorem absVal_num (st : St) (h : Nat) (f : Float) : absVal st h (.num f) = .num (absNum f) := by cases h <;> rfl
theorem absVal_str (st : St) (h : Nat) (s : String) : absVal st h (.str s) = .str (absStr s) := by cases h <;> rfl
theorem absVal_func (st : St) (h : Nat) (f : FId) : absVal st h (.func f) = .func := by cases h <;> rfl
theorem absVal_arr (st : St) (h : Nat) (items : List TId) :
    absVal st (h + 1) (.arr items) = .arr (items.map (absThunkWith (absVal st h) st)) := rfl
theorem absVal_obj (st : St) (h : Nat) {o : OId} {ob : Obj} (ho : st.objs[o]? = some ob) :
    absVal st (h + 1) (.obj o) =
      .obj ((visibleFields ob).map (fun name => (name, absFieldWith (absVal st h) st ob name))) := by
  show (match st.objs[o]? with | some ob => _ | none => _) = _
  rw [ho]

theorem absThunk_done {g : Value → CV} {st : St} {t : TId} {w : Value}
    (h : st.thunks[t]? = some (.done w)) : absThunkWith g st t = .val (g w) := by
  simp only [absThunkWith, h]

theorem absField_done {g : Value → CV} {st : St} {ob : Obj} {name : String} {li : Nat} {f : Field}
    {t : TId} {w : Value} (h1 : findField ob 0 name = some (li, f)) (h2 : f.thunk = some t)
    (h3 : st.thunks[t]? = some (.done w)) : absFieldWith g st ob name = .val (g w) := by
  simp only [absFieldWith, absThunkWith, h1, h2, h3]

/-- type names agree -/
theorem typeName_abs (st : St) (h : Nat) (v : Value) :
    typeName v = Compare.showTy (absVal st h v).ty := by
  cases h <;> cases v <;> first | rfl | skip
  rename_i h o
  show _ = Compare.showTy (Compare.Value.ty (match st.objs[o]? with | some ob => _ | none => _))
  cases st.objs[o]? <;> rfl

end

/-! ### errors -/

/-- the evaluator's error for an error of the comparison model -/
def absErr : Compare.Err → Err
  | .explicit => .rt "ExplicitError" ""
  | .compareFunctions => .rt "CompareFunctions" ""
  | .compareNull => .rt "CompareNullInequality" ""
  | .compareBool => .rt "CompareBooleanInequality" ""
  | .compareObject => .rt "CompareObjectInequality" ""
  | .compareDifferentTypes l r =>
    .rt "CompareDifferentTypesInequality" (Compare.showTy l ++ "/" ++ Compare.showTy r)
  | .compareArrayArg i t => .rt "InvalidStdFuncArgType" s!"__compare_array/{i}/{Compare.showTy t}"

/-- the evaluator's outcome for a verdict of `structEq` -/
def outB : Except Compare.Err Bool → Except Err Value
  | .ok r => .ok (.bool r)
  | .error e => .error (absErr e)

/-- the evaluator's outcome for a verdict of `lexCompare` -/
def outO : Except Compare.Err Ordering → Except Err Value
  | .ok o => .ok (.num (ordF o))
  | .error e => .error (absErr e)

end Rsj.Eval.Cmp
