import RsjProofs.EvalSafeStep1
/-!
  C01 on the evaluator model: `step` on `local`, calls, object literals and object comprehensions
  keeps every identifier in range; a binding plan never refers to a missing argument.
-/
open Std.Do
set_option mvcgen.warning false
namespace Rsj.Eval.Safe
open Rsj.Core Rsj.Eval Rsj.Eval.Scope

/-- invariant of the loop that builds the variables of a `local` -/
def varsInv (s s1 : St) {β} : PostCond (β × List (String × TId)) PS :=
  ⟨fun (_, vars) st => ⌜Safe st ∧ Le s st ∧ SzLe s1 st ∧ ∀ v ∈ vars, v.2 < st.thunks.size⌝,
   fun e st => ⌜Safe st ∧ Good2 e ∧ SzLe s st⌝, fun _ => ⌜True⌝, ()⟩

/-- the layer of an object literal under construction -/
def ObjLayer2 (nt ne : Nat) (env : EId) (ms : Members) (layer : Layer) : Prop :=
  layer.baseEnv = some env ∧ layer.env = none ∧ layer.locals = memberLocals ms ∧
  layer.asserts = memberAsserts ms ∧ ∀ f ∈ layer.fields, FieldRng nt ne f

theorem ObjLayer2.step {nt ne nt' ne' : Nat} {env : EId} {ms : Members} {layer r : Layer}
    (h : ObjLayer2 nt ne env ms layer) (ha : LayerAcc2 nt' ne' layer r) (h1 : nt ≤ nt') (h2 : ne ≤ ne') :
    ObjLayer2 nt' ne' env ms r := by
  obtain ⟨fs, rfl, hfs⟩ := ha
  obtain ⟨a, b, c, d, e⟩ := h
  refine ⟨a, b, c, d, ?_⟩
  intro f hf
  rcases List.mem_append.1 hf with h | h
  · exact (e f h).mono h1 h2
  · exact hfs f h

theorem ObjLayer2.rng {nt ne : Nat} {env : Nat} {ms : Members} {layer : Layer}
    (h : ObjLayer2 nt ne env ms layer) (henv : env < ne) (hms : CoreShapedMembers ms) : LayerRng nt ne layer := by
  obtain ⟨a, b, c, d, e⟩ := h
  obtain ⟨m1, m2, _⟩ := CoreShapedMembers_mem ms hms
  refine ⟨fun b' hb => (by rw [a] at hb; cases hb; exact henv), fun e' he => (by rw [b] at he; cases he), ?_, ?_, e⟩
  · rw [c]; exact m1
  · rw [d]; exact m2

/-- the layer of an object comprehension under construction -/
def CompLayer2 (nt ne : Nat) (locals : Binds) (layer : Layer) : Prop :=
  layer.baseEnv = none ∧ layer.env = none ∧ layer.locals = bindsList locals ∧
  layer.asserts = [] ∧ ∀ f ∈ layer.fields, FieldRng nt ne f

theorem CompLayer2.step {nt ne nt' ne' : Nat} {locals : Binds} {layer r : Layer}
    (h : CompLayer2 nt ne locals layer) (ha : LayerAcc2 nt' ne' layer r) (h1 : nt ≤ nt') (h2 : ne ≤ ne') :
    CompLayer2 nt' ne' locals r := by
  obtain ⟨fs, rfl, hfs⟩ := ha
  obtain ⟨a, b, c, d, e⟩ := h
  refine ⟨a, b, c, d, ?_⟩
  intro f hf
  rcases List.mem_append.1 hf with h | h
  · exact (e f h).mono h1 h2
  · exact hfs f h

theorem CompLayer2.mono {nt ne nt' ne' : Nat} {locals : Binds} {layer : Layer}
    (h : CompLayer2 nt ne locals layer) (h1 : nt ≤ nt') (h2 : ne ≤ ne') : CompLayer2 nt' ne' locals layer :=
  ⟨h.1, h.2.1, h.2.2.1, h.2.2.2.1, fun f hf => (h.2.2.2.2 f hf).mono h1 h2⟩

theorem CompLayer2.rng {nt ne : Nat} {locals : Binds} {layer : Layer}
    (h : CompLayer2 nt ne locals layer) (hl : CoreShapedBinds locals) : LayerRng nt ne layer := by
  obtain ⟨a, b, c, d, e⟩ := h
  refine ⟨fun b' hb => (by rw [a] at hb; cases hb), fun e' he => (by rw [b] at he; cases he), ?_, ?_, e⟩
  · rw [c]; exact CoreShapedBinds_mem locals hl
  · rw [d]; intro x hx; cases hx

theorem layerRng_singleton {nt ne : Nat} {l r : Layer} (h : l ∈ [r]) (hr : LayerRng nt ne r) : LayerRng nt ne l := by
  simp only [List.mem_singleton] at h
  subst h; exact hr

/-- invariant of the loop over the members of an object literal -/
def objInv (s s1 : St) (env : EId) (ms : Members) {β} : PostCond (β × Layer) PS :=
  ⟨fun (_, layer) st => ⌜Safe st ∧ Le s st ∧ SzLe s1 st ∧ ObjLayer2 st.thunks.size st.envs.size env ms layer⌝,
   fun e st => ⌜Safe st ∧ Good2 e ∧ SzLe s st⌝, fun _ => ⌜True⌝, ()⟩

/-- invariant of the loop over the binding sets of an object comprehension -/
def compInv (s s1 : St) (locals : Binds) {β} : PostCond (β × Layer) PS :=
  ⟨fun (_, layer) st => ⌜Safe st ∧ Le s st ∧ SzLe s1 st ∧ CompLayer2 st.thunks.size st.envs.size locals layer⌝,
   fun e st => ⌜Safe st ∧ Good2 e ∧ SzLe s st⌝, fun _ => ⌜True⌝, ()⟩

section
variable (cfg : Cfg) (rec : Task → M Value) (hrec : RecOk2 rec)
include hrec

theorem step_eval_local2 (s : St) (bs : Binds) (body : Expr) (env : EId) (tail : Bool) (d : Nat) (hS : Safe s)
    (henv : env < s.envs.size) (hc : CoreShaped (.local_ bs body)) :
    ⦃fun st => ⌜st = s⌝⦄ step cfg rec (.eval (.local_ bs body) env tail d)
      ⦃Q2 s (fun v st => ValOk st.thunks.size st.objs.size st.funcs.size v)⦄ := by
  have h1 := allocEnv_spec2
  have h2 := setEnv_spec2
  have h3 := newThunk_spec2
  have h4 := getEnv_spec2
  have hr := rec_spec2 rec hrec
  simp only [CoreShaped] at hc
  obtain ⟨hc1, hc2⟩ := hc
  have hmem := CoreShapedBinds_mem bs hc1
  qstart2
  unfold step
  mvcgen [h1, h2, h3, h4, hr]
  assign_invs (varsInv s ‹St›)
  all_goals clear h1 h2 h3 h4 hr
  all_goals (try simp only [varsInv] at *)
  all_goals vcprep2
  all_goals first
    | s2close
    | exact hmem _ (mem_of_split (by assumption))

set_option maxHeartbeats 4000000 in
theorem callBlock_spec2 (s : St) (fn : Func) (slots : List Bind.Slot) (pos named : List TId)
    (ts tail : Bool) (d : Nat) (hS : Safe s) (hfn : FuncRng s.envs.size fn)
    (hpos : ∀ t ∈ pos, t < s.thunks.size) (hnamed : ∀ t ∈ named, t < s.thunks.size)
    (hplan : ∃ npos nnames,
      Bind.bindPlan (fn.params.map (fun p => (p.1, hasDefault p.2))) npos nnames = .ok slots ∧
      npos = pos.length ∧ nnames.length = named.length) :
    ⦃fun st => ⌜st = s⌝⦄ callBlock cfg rec fn slots pos named ts tail d
      ⦃Q2 s (fun v st => ValOk st.thunks.size st.objs.size st.funcs.size v)⦄ := by
  obtain ⟨npos, nnames, hplan, hnp, hnn⟩ := hplan
  have h1 := allocEnv_spec2
  have h2 := setEnv_spec2
  have h3 := newThunk_spec2
  have h4 := getEnv_spec2
  have h5 := checkDepth_spec2
  have h6 := newEnv_spec2
  have hr := rec_spec2 rec hrec
  qstart2
  unfold callBlock
  mvcgen [h1, h2, h3, h4, h5, h6, hr]
  case inv1 => exact outInv s ‹St›
  case inv4 => exact outInv s ‹St›
  case inv2 => exact loopInv s ‹St›
  case inv3 => exact loopInv s ‹St›
  case inv5 => exact loopInv s ‹St›
  case inv6 => exact loopInv s ‹St›
  all_goals try (clear h1 h2 h3 h4 h5 h6 hr)
  all_goals vcprep2
  all_goals first
    | s2close
    | (have ht := pos_in_range (by assumption) hpos; s2close)
    | (have ht := pos_in_range (by assumption) hnamed; s2close)
    | (exfalso; exact pos_missing_false (by assumption) (by assumption) (by assumption) hplan rfl)
    | (exfalso; exact named_missing_false (by assumption) (by assumption) (by assumption) hplan hnn)
    | (exfalso; exact dflt_missing_false (by assumption) (by assumption) (by assumption) hplan)
    | exact default_shaped (by assumption) (by assumption) hfn
    | exact envRng_args (by assumption) (Safe.envs (by assumption) _ _ (by assumption))
    | exact zip_rng (by assumption)
    | exact zip_rng (by assumption) _ (by assumption)
    | exact Nat.lt_of_lt_of_le (zip_rng' (by assumption) (by assumption)) (by omega)

omit hrec in
theorem shaped_posArg {split : List (Option String × Expr)} (h : ∀ p ∈ split, CoreShaped p.2) {ae : Expr}
    (hm : ae ∈ split.filterMap (fun p => if p.1.isNone then some p.2 else none)) : CoreShaped ae := by
  obtain ⟨p, hp, hq⟩ := List.mem_filterMap.1 hm
  split at hq
  · cases hq; exact h p hp
  · cases hq

omit hrec in
theorem shaped_namedArg {split : List (Option String × Expr)} (h : ∀ p ∈ split, CoreShaped p.2)
    {q : String × Expr} (hm : q ∈ split.filterMap (fun p => p.1.map (fun n => (n, p.2)))) : CoreShaped q.2 := by
  obtain ⟨p, hp, hq⟩ := List.mem_filterMap.1 hm
  cases hp1 : p.1 with
  | none => rw [hp1] at hq; cases hq
  | some n => rw [hp1] at hq; cases hq; exact h p hp

theorem callRest_spec2 (s : St) (fn : Func) (args : Args) (ts : Bool) (env : EId) (tail : Bool) (d : Nat)
    (hS : Safe s) (hfn : FuncRng s.envs.size fn) (henv : env < s.envs.size)
    (hargs : ∀ p ∈ argsSplit args, CoreShaped p.2) :
    ⦃fun st => ⌜st = s⌝⦄ callRest cfg rec fn args ts env tail d
      ⦃Q2 s (fun v st => ValOk st.thunks.size st.objs.size st.funcs.size v)⦄ := by
  have h1 := newThunk_spec2
  have h2 := callBlock_spec2 cfg rec hrec
  qstart2
  unfold callRest
  mvcgen [h1, h2]
  assign_invs (outLenInv s ‹St›)
  all_goals clear h1 h2
  all_goals (try simp only [outLenInv] at *)
  all_goals vcprep2
  all_goals first
    | s2close
    | exact ⟨hS, Good2_bindErr _, by omega, by omega, by omega, by omega⟩
    | exact ⟨by assumption, Good2_bindErr _, by omega, by omega, by omega, by omega⟩
    | exact shaped_posArg hargs (mem_of_split (by assumption))
    | exact shaped_namedArg hargs (mem_of_split (by assumption))
    | (simp only [List.length_append, List.length_cons, List.length_nil] at *; s2close)
    | exact hfn.mono (by omega)
    | (refine ⟨_, _, by assumption, ?_, ?_⟩ <;> simp_all)

theorem step_eval_call2 (s : St) (ce : Expr) (args : Args) (ts : Bool) (env : EId) (tail : Bool) (d : Nat)
    (hS : Safe s) (henv : env < s.envs.size) (hc : CoreShaped (.call ce args ts)) :
    ⦃fun st => ⌜st = s⌝⦄ step cfg rec (.eval (.call ce args ts) env tail d)
      ⦃Q2 s (fun v st => ValOk st.thunks.size st.objs.size st.funcs.size v)⦄ := by
  have h1 := getFunc_spec2
  have h2 := callRest_spec2 cfg rec hrec
  have hr := rec_spec2 rec hrec
  simp only [CoreShaped] at hc
  have hargs := CoreShapedArgs_mem args hc.2
  qstart2
  rw [step_call_eq]
  mvcgen [h1, h2, hr]
  all_goals clear h1 h2 hr
  all_goals vcprep2
  all_goals first
    | s2close
    | exact Safe.funcs (by assumption) _ _ (by assumption)

theorem step_eval_object2 (s : St) (ms : Members) (env : EId) (tail : Bool) (d : Nat) (hS : Safe s)
    (henv : env < s.envs.size) (hc : CoreShaped (.object ms)) :
    ⦃fun st => ⌜st = s⌝⦄ step cfg rec (.eval (.object ms) env tail d)
      ⦃Q2 s (fun v st => ValOk st.thunks.size st.objs.size st.funcs.size v)⦄ := by
  have h1 := getEnv_spec2
  have h2 := objectMember_spec2 rec hrec
  have h3 := allocObj_spec2
  have hms : CoreShapedMembers ms := by simpa only [CoreShaped] using hc
  clear hc
  have hmem := (CoreShapedMembers_mem ms hms).2.2
  qstart2
  unfold step
  mvcgen [h1, h2, h3]
  assign_invs (objInv s ‹St› env ms)
  all_goals clear h1 h2 h3
  all_goals (try simp only [objInv] at *)
  all_goals vcprep2
  all_goals first
    | s2close
    | exact hmem _ (mem_of_split (by assumption))
    | exact ⟨by assumption, by s2close, by s2close, ObjLayer2.step (by assumption) (by assumption) (by omega) (by omega)⟩
    | exact ⟨by assumption, by s2close, by s2close, rfl, rfl, rfl, rfl, fun f hf => by cases hf⟩
    | exact layerRng_singleton (by assumption) (ObjLayer2.rng (by assumption) (by omega) hms)

set_option maxHeartbeats 2000000 in
theorem step_eval_objectComp2 (s : St) (locals : Binds) (name : Expr) (plus : Bool) (body : Expr) (spec : Specs)
    (env : EId) (tail : Bool) (d : Nat) (hS : Safe s) (henv : env < s.envs.size)
    (hc : CoreShaped (.objectComp locals name plus body spec)) :
    ⦃fun st => ⌜st = s⌝⦄ step cfg rec (.eval (.objectComp locals name plus body spec) env tail d)
      ⦃Q2 s (fun v st => ValOk st.thunks.size st.objs.size st.funcs.size v)⦄ := by
  have h1 := getEnv_spec2
  have h2 := evalSpecs_spec2 rec hrec
  have h3 := allocObj_spec2
  have h4 := newEnv_spec2
  have h5 := addField_spec2
  have hr := rec_spec2 rec hrec
  simp only [CoreShaped] at hc
  obtain ⟨hc1, hc2, hc3, hc4, hc5⟩ := hc
  have hsp := CoreShapedSpecs_mem spec hc5
  have hst := specsStartWithFor_list hc4
  qstart2
  unfold step
  mvcgen [h1, h2, h3, h4, h5, hr]
  assign_invs (compInv s ‹St› locals)
  all_goals clear h1 h2 h3 h4 h5 hr
  all_goals (try simp only [compInv] at *)
  all_goals vcprep2
  all_goals first
    | s2close
    | (simp only [SetsRng] at *; s2close)
    | exact ⟨by assumption, by s2close, by s2close, CompLayer2.step (by assumption) (by assumption) (by omega) (by omega)⟩
    | exact ⟨by assumption, by s2close, by s2close, CompLayer2.mono (by assumption) (by omega) (by omega)⟩
    | exact ⟨by assumption, by s2close, by s2close, rfl, rfl, rfl, rfl, fun f hf => by cases hf⟩
    | exact layerRng_singleton (by assumption) (CompLayer2.rng (by assumption) hc1)

end
end Rsj.Eval.Safe
