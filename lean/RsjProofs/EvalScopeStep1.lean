import RsjProofs.EvalScopeStd
/-!
  C09, run-time half: `step` on expressions, the cases without a recursive scope of their own.
-/
open Std.Do
set_option mvcgen.warning false
namespace Rsj.Eval.Scope
open Rsj.Core Rsj.Eval Rsj.Analyze

section
variable (cfg : Cfg) (rec : Task → M Value) (hrec : RecOk rec)
include hrec

set_option maxHeartbeats 2000000 in
/-- the cases of `step` on an expression that need no loop invariant of their own -/
theorem step_eval_simple (s : St) (e : Expr) (env : EId) (tail : Bool) (d : Nat) (hI : Inv s)
    (Γ : AEnv) (hΓ : EnvOk s.envs env Γ) (hws : WS e Γ)
    (hsimple : match e with
      | .object _ | .objectComp .. | .array _ | .arrayComp .. | .call .. | .local_ .. | .builtin .. | .objExt .. => False
      | _ => True) :
    ⦃fun st => ⌜st = s⌝⦄ step cfg rec (.eval e env tail d) ⦃Q s (fun _ _ => True)⦄ := by
  have g0 := getObjRef_spec
  have g1 := checkNum_spec
  have g2 := checkDepth_spec
  have g3 := getObj_spec
  have g4 := sliceNum_spec
  have g5 := sliceRange_spec
  have g6 := safeInt_spec
  have g7 := getVar_spec
  have g8 := allocFunc_spec
  have h1 := recStr_spec rec hrec
  have h2 := wantThunk_spec cfg rec hrec
  have h3 := wantField_spec cfg rec hrec
  have h4 := wantSuperField_spec cfg rec hrec
  have h5 := coerceToString_spec rec hrec
  have h7 := binaryOp_spec cfg rec hrec
  have h10 := sliceArg_spec rec hrec
  have h12 := binaryOp3_spec (cfg := cfg) rec hrec
  have hr := rec_spec rec hrec
  qstart
  cases e with
  | null => ecase
  | true_ => ecase
  | false_ => ecase
  | str => ecase
  | num => ecase
  | importLit => ecase
  | importTextBlock => ecase
  | importComputed => ecase
  | self_ => simp only [WS] at hws; ecase
  | dollar => simp only [WS] at hws; ecase
  | paren => simp only [WS] at hws; ecase
  | field => simp only [WS] at hws; ecase
  | index => simp only [WS] at hws; ecase
  | slice => simp only [WS] at hws; ecase
  | superField => simp only [WS] at hws; ecase
  | superIndex => simp only [WS] at hws; ecase
  | var => simp only [WS] at hws; ecase
  | if_ c t el => simp only [WS] at hws; ecase
  | binary op a b =>
    simp only [WS] at hws
    unfold step
    mvcgen [g0, g1, g2, g3, g4, g5, g6, g7, g8, h1, h2, h3, h4, h5, h7, h10, h12, hr]
    all_goals clear g0 g1 g2 g3 g4 g5 g6 g7 g8 h1 h2 h3 h4 h5 h7 h10 h12 hr
    all_goals vcprep
    all_goals eclose
  | unary => simp only [WS] at hws; ecase
  | func => ecase
  | assert_ => simp only [WS] at hws; ecase
  | error_ => simp only [WS] at hws; ecase
  | inSuper => simp only [WS] at hws; ecase
  | objExt => exact hsimple.elim
  | object => exact hsimple.elim
  | objectComp => exact hsimple.elim
  | array => exact hsimple.elim
  | arrayComp => exact hsimple.elim
  | call => exact hsimple.elim
  | local_ => exact hsimple.elim
  | builtin => exact hsimple.elim

set_option maxHeartbeats 1000000 in
theorem step_eval_objExt (s : St) (oe : Expr) (ms : Members) (env : EId) (tail : Bool) (d : Nat) (hI : Inv s)
    (Γ : AEnv) (hΓ : EnvOk s.envs env Γ) (hws : WS (.objExt oe ms) Γ) :
    ⦃fun st => ⌜st = s⌝⦄ step cfg rec (.eval (.objExt oe ms) env tail d) ⦃Q s (fun _ _ => True)⦄ := by
  have h7 := binaryOp_spec cfg rec hrec
  have hr := rec_spec rec hrec
  have hw1 : WS oe Γ := by simp only [WS] at hws; exact hws.1
  have hw2 : WS (.object ms) Γ := by simp only [WS] at hws ⊢; exact hws.2
  clear hws
  qstart
  unfold step
  mvcgen [h7, hr]
  all_goals clear h7 hr
  all_goals vcprep
  all_goals eclose

theorem step_eval_array (s : St) (items : Exprs) (env : EId) (tail : Bool) (d : Nat) (hI : Inv s)
    (Γ : AEnv) (hΓ : EnvOk s.envs env Γ) (hws : WS (.array items) Γ) :
    ⦃fun st => ⌜st = s⌝⦄ step cfg rec (.eval (.array items) env tail d) ⦃Q s (fun _ _ => True)⦄ := by
  have h1 := newThunk_spec
  simp only [WS] at hws
  have hmem := WSExprs_mem items Γ hws
  qstart
  unfold step
  mvcgen [h1]
  assign_invs (Qg s (fun _ _ => True))
  all_goals clear h1
  all_goals vcprep
  all_goals first
    | eclose
    | exact newThunk_pre hΓ (by schain) (hmem _ (mem_of_split (by assumption)))

theorem step_eval_arrayComp (s : St) (body : Expr) (spec : Specs) (env : EId) (tail : Bool) (d : Nat)
    (hI : Inv s) (Γ : AEnv) (hΓ : EnvOk s.envs env Γ) (hws : WS (.arrayComp body spec) Γ) :
    ⦃fun st => ⌜st = s⌝⦄ step cfg rec (.eval (.arrayComp body spec) env tail d) ⦃Q s (fun _ _ => True)⦄ := by
  have h1 := newThunk_spec
  have h2 := newEnv_spec
  have h3 := evalSpecs_spec rec hrec
  simp only [WS] at hws
  have hsp := SpecsOk_of_WSSpecs spec Γ hws.1
  qstart
  unfold step
  mvcgen [h1, h2, h3]
  assign_invs (Qg s (fun _ _ => True))
  all_goals clear h1 h2 h3
  all_goals vcprep
  all_goals first
    | eclose
    | exact ⟨Γ, hΓ, hsp⟩
    | exact comp_body_pre hΓ (by schain) (by assumption) (by assumption) (by assumption) (by simp)

theorem step_eval_builtin (s : St) (b : Builtin) (args : Exprs) (env : EId) (tail : Bool) (d : Nat)
    (hI : Inv s) (Γ : AEnv) (hΓ : EnvOk s.envs env Γ) (hws : WS (.builtin b args) Γ) :
    ⦃fun st => ⌜st = s⌝⦄ step cfg rec (.eval (.builtin b args) env tail d) ⦃Q s (fun _ _ => True)⦄ := by
  have h1 := newThunk_spec
  have h2 := checkDepth_spec
  have h3 := builtinCall3_spec (cfg := cfg) rec hrec
  simp only [WS] at hws
  have hmem := WSExprs_mem args Γ hws.2
  qstart
  unfold step
  mvcgen [h1, h2, h3]
  assign_invs (Qg s (fun _ _ => True))
  all_goals clear h1 h2 h3
  all_goals vcprep
  all_goals first
    | eclose
    | exact newThunk_pre hΓ (by schain) (hmem _ (mem_of_split (by assumption)))

end
end Rsj.Eval.Scope
