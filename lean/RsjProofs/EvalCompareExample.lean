/-
  C08 on the evaluator model: a concrete store with deeply evaluated values, for the non-vacuity
  examples of RsjProps/C08Eval.lean.
-/
import RsjProofs.EvalCompareDeep
set_option linter.unusedSectionVars false
namespace Rsj.Eval.Cmp
open Rsj.Core Rsj.Eval

variable [L : FloatLaws]

/-- the visible field `a`, cached in thunk `2` -/
def exFieldA : Field := { name := "a", vis := .default, baseEnv := none, expr := none, thunk := some 2 }

/-- a visible field `a` cached in a thunk, and a hidden field `h` that is not evaluated -/
def exObjA (hidden : Expr) : Obj :=
  { layers := [{ isTop := true, locals := [], baseEnv := none, env := none,
                 fields := [exFieldA,
                            { name := "h", vis := .hidden, baseEnv := none, expr := some (hidden, false),
                              thunk := none }],
                 asserts := [] }],
    assertsChecked := true }

/-- thunks: `0 ↦ 1`, `1 ↦ "a"`, `2 ↦ [1, "a"]`, `3 ↦ 0`, `4` pending (fails when forced), `5 ↦ [1, 0]`;
    objects `0`, `1`: `{a: [1, "a"], h:: …}` with different hidden fields -/
def exSt : St :=
  { thunks := #[.done (.num 1.0), .done (.str "a"), .done (.arr [0, 1]), .done (.num 0.0),
                .pending (.expr (.error_ (.str "boom")) 0), .done (.arr [0, 3])],
    objs := #[exObjA (.error_ (.str "boom")), exObjA .null] }

theorem exSt_arr : Evald exSt 1 (.arr [0, 1]) := by
  intro t ht
  simp only [List.mem_cons, List.not_mem_nil, or_false] at ht
  rcases ht with rfl | rfl
  · exact ⟨_, rfl, L.ok_one⟩
  · exact ⟨_, rfl, trivial⟩

theorem exSt_obj (o : OId) (ob : Obj) (ho : exSt.objs[o]? = some ob) (hc : ob.assertsChecked = true)
    (hvis : visibleFields ob = ["a"]) (hfind : findField ob 0 "a" = some (0, exFieldA)) :
    Evald exSt 2 (.obj o) := by
  refine ⟨_, ho, hc, ?_⟩
  intro name hn
  rw [hvis] at hn
  have : name = "a" := by simpa using hn
  subst this
  exact ⟨0, _, 2, _, hfind, rfl, rfl, exSt_arr⟩

theorem exSt_obj0 : Evald exSt 2 (.obj 0) := exSt_obj 0 (exObjA (.error_ (.str "boom"))) rfl rfl (by rfl) (by rfl)
theorem exSt_obj1 : Evald exSt 2 (.obj 1) := exSt_obj 1 (exObjA .null) rfl rfl (by rfl) (by rfl)

end Rsj.Eval.Cmp
