/-
  C17 on the evaluator model, part 5: the oracles discharged for the evaluator itself
  (`rec = run cfg n`) on evaluated keys of one orderable sort (numbers, strings, nested arrays of
  these: `SortE st s`), from the C08 refinement (RsjProofs/EvalCompare*.lean); the comparison as
  a pure function (`cmpE`) is lawful on these keys; the C17 laws of the index order
  `resultOrder`; `std_sortSet` end to end on an array of evaluated elements without `keyF`.
-/
import RsjProofs.EvalSortCompose
set_option linter.unusedVariables false
set_option linter.unusedSectionVars false
namespace Rsj.Eval.SortRef
open Rsj.Core Rsj.Eval Rsj.Eval.Cmp Rsj.Sort
open Rsj.Compare (structEq lexCompare VSort)

/-! ### the C17 laws of the index order (pure) -/

section idx
variable {G : Value → Prop} {cmp : Value → Value → Ordering} {keys : List Value}

/-- stable order of indices: smaller key, or equal key and smaller index -/
def IdxBefore (cmp : Value → Value → Ordering) (keys : List Value) (i j : Nat) : Prop :=
  cmp (keyAt keys i) (keyAt keys j) = .lt ∨ (cmp (keyAt keys i) (keyAt keys j) = .eq ∧ i < j)

theorem idx_good (hk : ∀ k ∈ keys, G k) : ∀ i ∈ List.range keys.length, G (keyAt keys i) :=
  fun i hi => hk _ (keyAt_lt (List.mem_range.mp hi)).2

theorem sortOrder_perm (cmp : Value → Value → Ordering) (keys : List Value) :
    (resultOrder false cmp keys).Perm (List.range keys.length) :=
  qsortPure_perm cmp (keyAt keys) _

theorem sortOrder_stable (h : LawfulOn G cmp) (hk : ∀ k ∈ keys, G k) :
    (resultOrder false cmp keys).Pairwise (IdxBefore cmp keys) :=
  qsortPure_stable (pos := fun i => i) h _ (idx_good hk) (posSorted_range _)

theorem sortOrder_sorted (h : LawfulOn G cmp) (hk : ∀ k ∈ keys, G k) :
    (resultOrder false cmp keys).Pairwise (fun i j => cmp (keyAt keys i) (keyAt keys j) ≠ .gt) :=
  qsortPure_sorted (pos := fun i => i) h _ (idx_good hk) (posSorted_range _)

theorem sortOrder_unique (h : LawfulOn G cmp) (hk : ∀ k ∈ keys, G k) (r : List Nat)
    (hr : r.Perm (List.range keys.length)) (hs : r.Pairwise (IdxBefore cmp keys)) :
    resultOrder false cmp keys = r :=
  qsortPure_unique (pos := fun i => i) h _ (idx_good hk) (posSorted_range _) r hr hs

/-- the identification with the sorting model, on indices: `do_std_sort` with the code's threshold -/
theorem sortOrder_eq_sortIdx (cmp : Value → Value → Ordering) (keys : List Value) {thr : Nat}
    (h : keys.length ≤ thr) :
    sortIdx (ordOf cmp) (keyAt keys) thr keys.length = .ok (resultOrder false cmp keys) := by
  unfold sortIdx
  rw [sort_eq_qsortPure (ordOf cmp) (keyAt keys) _ (by simpa using h)]
  rfl

/-- … and `do_std_set` -/
theorem setOrder_eq_setIdx (cmp : Value → Value → Ordering) (keys : List Value) {thr : Nat}
    (h : keys.length ≤ thr) :
    setIdx (ordOf cmp) (keyAt keys) thr keys.length = .ok (resultOrder true cmp keys) := by
  unfold setIdx
  rw [set_def, sort_eq_qsortPure (ordOf cmp) (keyAt keys) _ (by simpa using h)]
  rfl

/-- only the comparisons between keys of elements of the list matter to `uniq` -/
theorem uniq_congr {α κ : Type} {O O' : KeyOrd κ} {key : α → κ} (l : List α)
    (h : ∀ x ∈ l, ∀ y ∈ l, O.eqv (key x) (key y) = O'.eqv (key x) (key y)) :
    Sort.uniq O key l = Sort.uniq O' key l := by
  rw [uniq_zip, uniq_zip]
  cases l with
  | nil => rfl
  | cons x rest =>
    simp only
    congr 2
    apply List.filter_congr
    intro pc hpc
    have h1 := (List.of_mem_zip hpc).1
    have h2 := List.mem_cons_of_mem x (List.of_mem_zip hpc).2
    simp only [keepPair, h pc.1 h1 pc.2 h2]

/-- `std.set`: the result is strictly ascending in the keys (a set), is a sub-sequence of the
    sorted order, and every index is represented by the *first* index with an equal key -/
theorem setOrder_spec (h : LawfulOn G cmp) (hk : ∀ k ∈ keys, G k) :
    (resultOrder true cmp keys).Pairwise (fun i j => cmp (keyAt keys i) (keyAt keys j) = .lt) ∧
    (resultOrder true cmp keys).Sublist (resultOrder false cmp keys) ∧
    ∀ i, i < keys.length → ∃ j ∈ resultOrder true cmp keys,
      cmp (keyAt keys j) (keyAt keys i) = .eq ∧ j ≤ i := by
  have hL := totalize_lawful h
  have hperm := sortOrder_perm cmp keys
  have hg : ∀ i ∈ resultOrder false cmp keys, G (keyAt keys i) :=
    fun i hi => idx_good hk i (hperm.subset hi)
  have e : resultOrder true cmp keys =
      Sort.uniq (ordOf (totalize G cmp)) (keyAt keys) (resultOrder false cmp keys) := by
    show Sort.uniq (ordOf cmp) _ _ = _
    apply uniq_congr
    intro x hx y hy
    show (cmp _ _ == .eq) = (totalize G cmp _ _ == .eq)
    rw [totalize_on (hg x hx) (hg y hy)]
  have hsub : (resultOrder true cmp keys).Sublist (resultOrder false cmp keys) := by
    rw [e]; exact uniq_sublist _
  have hg' : ∀ i ∈ resultOrder true cmp keys, G (keyAt keys i) := fun i hi => hg i (hsub.subset hi)
  have hst := sortOrder_stable h hk
  have hstT : (resultOrder false cmp keys).Pairwise
      (Before (ordOf (totalize G cmp)) (keyAt keys) (fun i => i)) := by
    refine List.Pairwise.imp_of_mem ?_ hst
    intro x y hx hy hb
    exact (before_totalize_iff (hg x hx) (hg y hy)).mpr hb
  refine ⟨?_, hsub, ?_⟩
  · have := uniq_strict hL (resultOrder false cmp keys) (before_pairwise_sorted hstT)
    rw [← e] at this
    refine List.Pairwise.imp_of_mem ?_ this
    intro x y hx hy hb
    have hb' : totalize G cmp (keyAt keys x) (keyAt keys y) = .lt := hb
    rwa [totalize_on (hg' x hx) (hg' y hy)] at hb'
  · intro i hi
    have him : i ∈ resultOrder false cmp keys := hperm.symm.subset (List.mem_range.mpr hi)
    obtain ⟨j, hj, e1, hr⟩ := uniq_cover hL (resultOrder false cmp keys) hstT i him
    rw [← e] at hj
    have e1' : totalize G cmp (keyAt keys j) (keyAt keys i) = .eq := e1
    rw [totalize_on (hg' j hj) (hg i him)] at e1'
    refine ⟨j, hj, e1', ?_⟩
    rcases hr with rfl | hb | ⟨_, hlt⟩
    · exact Nat.le_refl _
    · have : Ordering.lt = Ordering.eq := hb.symm.trans e1
      cases this
    · exact Nat.le_of_lt hlt

end idx

/-! ### the evaluator's comparison on evaluated orderable values -/

variable [L : FloatLaws]

/-- the comparison of the evaluator on values evaluated in `st` (height ≤ `h`), as a pure function
    (`eq` stands in where the evaluator answers an error; never on two values of one sort) -/
def cmpE (st : St) (h : Nat) (a b : Value) : Ordering :=
  match lexCompare (absVal st h a) (absVal st h b) with
  | .ok o => o
  | .error _ => .eq

theorem cmpE_ok {st : St} {s : VSort} {a b : Value} (ha : SortE st s a) (hb : SortE st s b) :
    lexCompare (absVal st (sortHeight s) a) (absVal st (sortHeight s) b) =
      .ok (cmpE st (sortHeight s) a b) := by
  obtain ⟨o, ho⟩ := Compare.lexCompare_total (sortE_evald ha).2 _ (sortE_evald hb).2
  unfold cmpE
  rw [ho]

/-- on the values of one sort the comparison is a total preorder (from C08) -/
theorem cmpE_lawful (st : St) (s : VSort) : LawfulOn (SortE st s) (cmpE st (sortHeight s)) where
  swap a b ha hb := by
    have h1 := Compare.lexCompare_swap _ _ _ (cmpE_ok ha hb)
    rw [cmpE_ok hb ha] at h1
    injection h1
  le_trans a b c ha hb hc n1 n2 := by
    have h1 := Compare.lexCompare_then _ _ _ _ _ (cmpE_ok ha hb) (cmpE_ok hb hc) n1 n2
    rw [cmpE_ok ha hc] at h1
    injection h1 with h1
    rw [h1]
    intro hg
    cases h12 : cmpE st (sortHeight s) a b <;> cases h23 : cmpE st (sortHeight s) b c <;>
      simp_all [Ordering.then]

theorem isLT_eq_beq (o : Ordering) : o.isLT = (o == .lt) := by cases o <;> rfl

/-- **the comparison oracle of the evaluator** -/
theorem cmpOracle_run (cfg : Cfg) (n : Nat) (st : St) (s : VSort) (d1 : Nat) (keys : List Value)
    (hk : ∀ k ∈ keys, SortE st s k) (hn : sortHeight s + 1 ≤ n) (hd : d1 + sortHeight s ≤ cfg.maxStack) :
    CmpOracle (run cfg n) st d1 keys (cmpE st (sortHeight s)) where
  compare a ha b hb := by
    have c1 := run_compare_ret cfg st _ n hn a b d1 (sortE_evald (hk a ha)).1 (sortE_evald (hk b hb)).1 hd
    rw [cmpE_ok (hk a ha) (hk b hb)] at c1
    exact ⟨_, c1, by rw [ordF_lt_zero, isLT_eq_beq]⟩

/-- **the equality oracle of the evaluator**: `equals` answers `compare = 0` -/
theorem eqOracle_run (cfg : Cfg) (n : Nat) (st : St) (s : VSort) (d1 : Nat) (keys : List Value)
    (hk : ∀ k ∈ keys, SortE st s k) (hn : sortHeight s + 1 ≤ n) (hd : d1 + sortHeight s ≤ cfg.maxStack) :
    EqOracle (run cfg n) st d1 keys (cmpE st (sortHeight s)) where
  equals a ha b hb := by
    have c2 := run_equals_ret cfg st _ n hn a b d1 (sortE_evald (hk a ha)).1 (sortE_evald (hk b hb)).1 hd
    rw [Compare.lexCompare_structEq _ _ _ (cmpE_ok (hk a ha) (hk b hb))] at c2
    exact c2

/-- the value an evaluated thunk holds (`null` stands in for a thunk that is not evaluated) -/
def valAt (st : St) (t : TId) : Value :=
  match st.thunks[t]? with
  | some (.done w) => w
  | _ => .null

omit L in
theorem valAt_done {st : St} {t : TId} {w : Value} (h : st.thunks[t]? = some (.done w)) :
    valAt st t = w := by
  unfold valAt; rw [h]

omit L in
theorem forceOracle_run (cfg : Cfg) (n : Nat) (st : St) (items : List TId)
    (h : ∀ t ∈ items, ∃ w, st.thunks[t]? = some (.done w)) :
    ForceOracle (run cfg (n + 1)) st items (valAt st) := by
  intro t ht d
  obtain ⟨w, hw⟩ := h t ht
  rw [valAt_done hw]
  exact run_force_done cfg n d hw

/-- **`std_sortSet` end to end** (no `keyF`): on an evaluated array thunk whose elements are
    evaluated values of one orderable sort `s`, at most 30 of them, with `sortHeight s + 1` levels of
    fuel, `sortHeight s` frames for the comparisons and (two or more elements) one frame per element
    for the keys: the answer is the array of the same element thunks in the order `resultOrder`;
    the store is unchanged. -/
theorem std_sortSet_ret (cfg : Cfg) (n : Nat) (st : St) (s : VSort) (uniq : Bool) (t0 : TId)
    (items : List TId) (d1 : Nat)
    (ht0 : st.thunks[t0]? = some (.done (.arr items)))
    (hs : SortE st (.arr s) (.arr items))
    (h30 : items.length ≤ 30)
    (hn : sortHeight s + 1 ≤ n)
    (hd : d1 + sortHeight s ≤ cfg.maxStack)
    (hdn : 2 ≤ items.length → d1 + items.length ≤ cfg.maxStack) :
    Ret (std_sortSet cfg (run cfg n) uniq t0 none d1) st
      (.ok (.arr ((resultOrder uniq (cmpE st (sortHeight s)) (items.map (valAt st))).map (itemAt items)))) := by
  obtain ⟨n, rfl⟩ : ∃ m, n = m + 1 := ⟨n - 1, by omega⟩
  obtain ⟨items', e', hi⟩ := hs
  injection e' with e'
  subst e'
  rw [std_sortSet_eq]
  refine Ret.bind_ok (run_force_done cfg n d1 ht0) ?_
  refine Ret.bind_ok (Ret.pure none st) ?_
  refine Ret.bind_ok (Ret.pure none st) ?_
  show Ret (sortSetTail cfg (run cfg (n + 1)) uniq (.arr items) items none d1) st _
  by_cases h1 : items.length ≤ 1
  · rw [sortSetTail_short _ _ _ _ _ _ _ h1, resultOrder_short _ _ _ (by simpa using h1)]
    rw [List.length_map, map_itemAt_range]
    exact Ret.pure _ _
  · have hkeys : ∀ k ∈ items.map (valAt st), SortE st s k := by
      intro k hk
      obtain ⟨t, ht, rfl⟩ := List.mem_map.mp hk
      obtain ⟨w, hw, hsw⟩ := hi t ht
      rw [valAt_done hw]; exact hsw
    rw [sortSetTail_mid _ _ _ _ _ _ _ (by omega) h30]
    refine Ret.bind_ok (std_sortKeys_none_ret d1
      (forceOracle_run cfg n st items (fun t ht => (hi t ht).imp fun w hw => hw.1)) (hdn (by omega))) ?_
    exact sortSetRest_ret uniq (cmpOracle_run cfg (n + 1) st s d1 _ hkeys hn hd)
      (fun _ => eqOracle_run cfg (n + 1) st s d1 _ hkeys hn hd) (by simp)

/-! ### a concrete store for the non-vacuity examples -/

omit L in
/-- thunks `0 ↦ "b"`, `1 ↦ "a"`, `2 ↦ "b"`, `3 ↦ "a"`, `4 ↦ ["b", "a", "b", "a"]` (elements `0 1 2 3`) -/
def exSortSt : St :=
  { thunks := #[.done (.str "b"), .done (.str "a"), .done (.str "b"), .done (.str "a"),
                .done (.arr [0, 1, 2, 3])] }

theorem exSortSt_sortE : SortE exSortSt (.arr .str) (.arr [0, 1, 2, 3]) := by
  refine ⟨_, rfl, ?_⟩
  intro t ht
  simp only [List.mem_cons, List.not_mem_nil, or_false] at ht
  rcases ht with rfl | rfl | rfl | rfl
  · exact ⟨_, rfl, _, rfl⟩
  · exact ⟨_, rfl, _, rfl⟩
  · exact ⟨_, rfl, _, rfl⟩
  · exact ⟨_, rfl, _, rfl⟩

/-- the stable order of `["b", "a", "b", "a"]` is `1, 3, 0, 2` -/
theorem exSortSt_stable :
    [1, 3, 0, 2].Pairwise (fun i j =>
      cmpE exSortSt 0 (keyAt ([0, 1, 2, 3].map (valAt exSortSt)) i)
        (keyAt ([0, 1, 2, 3].map (valAt exSortSt)) j) = .lt ∨
      (cmpE exSortSt 0 (keyAt ([0, 1, 2, 3].map (valAt exSortSt)) i)
        (keyAt ([0, 1, 2, 3].map (valAt exSortSt)) j) = .eq ∧ i < j)) := by
  have lt_ab : cmpE exSortSt 0 (.str "a") (.str "b") = .lt := by rfl
  have eq_aa : cmpE exSortSt 0 (.str "a") (.str "a") = .eq := by rfl
  have eq_bb : cmpE exSortSt 0 (.str "b") (.str "b") = .eq := by rfl
  refine .cons ?_ (.cons ?_ (.cons ?_ (.cons ?_ .nil)))
  · intro j hj
    simp only [List.mem_cons, List.not_mem_nil, or_false] at hj
    rcases hj with rfl | rfl | rfl
    · exact .inr ⟨eq_aa, by decide⟩
    · exact .inl lt_ab
    · exact .inl lt_ab
  · intro j hj
    simp only [List.mem_cons, List.not_mem_nil, or_false] at hj
    rcases hj with rfl | rfl
    · exact .inl lt_ab
    · exact .inl lt_ab
  · intro j hj
    simp only [List.mem_cons, List.not_mem_nil, or_false] at hj
    subst hj
    exact .inr ⟨eq_bb, by decide⟩
  · intro j hj; cases hj

end Rsj.Eval.SortRef
