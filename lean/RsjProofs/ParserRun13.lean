/-
  C15 print/parse, part 13: first tokens of printed positions; bracketed subexpressions
  (`Hd`: handled by the recursive `parse_expr`); the postfix forms `[i]`, slices and calls.
-/
import RsjProofs.ParserRun12
namespace Rsj.Parser

/-! ### first tokens -/

/-- token kinds that can begin a printed expression -/
def exprStartB : TokKind → Bool
  | .simple k => k = .Null || k = .False_ || k = .True_ || k = .Self_ || k = .Dollar || k = .LeftParen ||
      k = .Super || k = .Plus || k = .Minus || k = .Tilde || k = .Exclam || k = .LeftBrace ||
      k = .LeftBracket || k = .Local || k = .If || k = .Function || k = .Assert || k = .Import ||
      k = .Importstr || k = .Importbin || k = .Error
  | .string _ | .textBlock _ | .number _ | .ident _ => true
  | _ => false

def ExprStart2 (tk : TokKind) : Prop := exprStartB tk = true

/-- the first token can begin an expression; `super` is followed by `.` or `[`; an identifier is
    not followed by `=` (so a positional argument is never mistaken for a named one) -/
def HeadOK2 : Toks → Prop
  | [] => False
  | tk :: rest => ExprStart2 tk ∧
      (tk = sim .Super → ∃ r2, rest = sim .Dot :: r2 ∨ rest = sim .LeftBracket :: r2) ∧
      (∀ v b r2, tk = .ident v → rest = b :: r2 → b ≠ sim .Eq)

/-- shape facts of a printed position -/
structure ShapeW (W : TokFn) : Prop where
  head : ∀ lvl o el, HeadOK2 (W lvl o el)
  prim : ∀ o el, ∃ a l, W suffixPrec o el = a :: l ∧ NotUnaryTok a

theorem HeadOK2.cons {l : Toks} (h : HeadOK2 l) : ∃ a m, l = a :: m ∧ ExprStart2 a ∧
    (a = sim .Super → ∃ r2, m = sim .Dot :: r2 ∨ m = sim .LeftBracket :: r2) := by
  cases l with
  | nil => exact h.elim
  | cons a m => exact ⟨a, m, rfl, h.1, h.2.1⟩

/-- appending something that does not begin with `=` -/
theorem HeadOK2.append {l : Toks} (h : HeadOK2 l) {z : TokKind} (hz : z ≠ sim .Eq) (m : Toks) :
    HeadOK2 (l ++ z :: m) := by
  cases l with
  | nil => exact h.elim
  | cons tk rest =>
    refine ⟨h.1, fun ht => ?_, ?_⟩
    · obtain ⟨r2, hr⟩ := h.2.1 ht
      rcases hr with hr | hr
      · exact ⟨r2 ++ z :: m, Or.inl (by rw [hr]; rfl)⟩
      · exact ⟨r2 ++ z :: m, Or.inr (by rw [hr]; rfl)⟩
    · intro v b r2 hv hb
      cases rest with
      | nil =>
        have hb' : z :: m = b :: r2 := hb
        cases hb'; exact hz
      | cons x rest' =>
        have hb' : x :: (rest' ++ z :: m) = b :: r2 := hb
        injection hb' with hb1 hb2
        rw [← hb1]
        exact h.2.2 v x rest' hv rfl

theorem headOK2_simple {k : STok} {rest : Toks} (hk : exprStartB (sim k) = true) (hs : k ≠ .Super) :
    HeadOK2 (sim k :: rest) := by
  refine ⟨hk, fun h => ?_, fun v b r2 h => ?_⟩
  · simp only [sim, TokKind.simple.injEq] at h; exact absurd h hs
  · simp [sim] at h

theorem headOK2_parens (ts : Toks) : HeadOK2 (parens ts) := headOK2_simple (by decide) (by decide)

theorem ExprStart2.ne {tk : TokKind} (h : ExprStart2 tk) {k : STok} (hk : exprStartB (sim k) = false) :
    tk ≠ sim k := by
  intro heq
  rw [heq] at h
  unfold ExprStart2 at h
  rw [hk] at h
  cases h

section
variable {toks : List Token} (pe : PState toks → Except (Err toks) (Expr × PState toks)) (R : Nat)

/-- the bracketed subexpression position of `x` (printed with `openRight = false`) is handled by
    `pe` -/
def Hd (full : Bool) (x : Expr) : Prop :=
  ∀ el, HandlesT pe R (sub full x 0 false el) x.erase (fun tk => tk = sim .Else → el = true)

/-- what the machine lemmas need of a bracketed subexpression -/
def PCh (full : Bool) (x : Expr) : Prop :=
  Hd pe R full x ∧ ∀ el, HeadOK2 (sub full x 0 false el)

/-- run `pe` on a bracketed subexpression with `elseNext = false` -/
theorem PCh.run {full : Bool} {x : Expr} (h : PCh pe R full x) {st : PState toks} {tk : TokKind} {T : Toks}
    (hk : st.kinds = sub full x 0 false false ++ tk :: T) (hlen : st.kinds.length < R)
    (hstop : StopTok tk) (hne : tk ≠ sim .Else) :
    ∃ i' st', pe st = .ok (i', st') ∧ i'.erase = x.erase ∧ st'.kinds = tk :: T :=
  h.1 false st tk T hk hlen hstop (fun h' => absurd h' hne)

omit pe R in
theorem stopTok_of {tk : TokKind} (h1 : NotSuffixStart tk) (k : STok) (hk : tk = sim k)
    (h2 : k ≠ .PipePipe ∧ k ≠ .AmpAmp ∧ k ≠ .Pipe ∧ k ≠ .Hat ∧ k ≠ .Amp ∧ k ≠ .EqEq ∧ k ≠ .ExclamEq ∧ k ≠ .Lt ∧
    k ≠ .LtEq ∧ k ≠ .Gt ∧ k ≠ .GtEq ∧ k ≠ .In ∧ k ≠ .LtLt ∧ k ≠ .GtGt ∧ k ≠ .Plus ∧ k ≠ .Minus ∧
    k ≠ .Asterisk ∧ k ≠ .Slash ∧ k ≠ .Percent) : StopTok tk :=
  ⟨h1, noOp_of_not_binop (by
    intro k' hk'
    rw [hk] at hk'
    simp only [sim, TokKind.simple.injEq] at hk'
    subst hk'; exact h2)⟩

/-! ### `[` … `]` postfix forms -/

/-- the postfix loop on `[`: hands over to `parse_index_expr` -/
theorem suffix_lbracket {st : PState toks} {b : TokKind} {ks : List TokKind} (lhs : Expr)
    (h : st.kinds = sim .LeftBracket :: b :: ks) :
    ∃ st1, st1.kinds = b :: ks ∧ ∀ f, parseSuffixExpr pe (f + 1) lhs st =
      (match parseIndexExpr pe lhs st1 with
       | .ok (e, st2) => parseSuffixExpr pe f e st2
       | .error err => .error err) := by
  have hc := (PState.kinds_cons h).1
  have hmiss : eatSimple .Dot true st = .ok (none, st.pushIf true (.simple .Dot)) :=
    eatSimple_miss true (by rw [hc]; simp [sim])
  obtain ⟨st1, he1, hk1⟩ := eatSimple_hit (st := st.pushIf true (.simple .Dot)) true
    (by rw [kinds_pushIf]; exact h)
  refine ⟨st1, hk1, fun f => ?_⟩
  rw [parseSuffixExpr]
  rw [hmiss]; simp only [bind, Except.bind]
  rw [he1]; simp only []
  cases parseIndexExpr pe lhs st1 with
  | error e => rfl
  | ok v => rfl

/-- `parse_index_expr` on `i ]` -/
theorem parseIndexExpr_index {st : PState toks} {x b : TokKind} {X ks : List TokKind} (lhs : Expr) {ie : Expr}
    (h : st.kinds = x :: X) (hx1 : x ≠ sim .Colon) (hx2 : x ≠ sim .ColonColon)
    (hpe : ∀ st2 : PState toks, st2.kinds = x :: X → ∃ i' st3, pe st2 = .ok (i', st3) ∧
      st3.kinds = sim .RightBracket :: b :: ks ∧ i'.erase = ie) :
    ∃ i' sp st', i'.erase = ie ∧ st'.kinds = b :: ks ∧
      parseIndexExpr pe lhs st = .ok (.index lhs i' sp, st') := by
  have hc1 := (PState.kinds_cons h).1
  have hm1 : eatSimple .Colon true st = .ok (none, st.pushIf true (.simple .Colon)) :=
    eatSimple_miss true (by rw [hc1]; exact hx1)
  have hm2 : eatSimple .ColonColon true (st.pushIf true (.simple .Colon)) =
      .ok (none, (st.pushIf true (.simple .Colon)).pushIf true (.simple .ColonColon)) :=
    eatSimple_miss true (by rw [cur_pushIf, hc1]; exact hx2)
  obtain ⟨i', st3, hp, hk3, hie⟩ := hpe ((st.pushIf true (.simple .Colon)).pushIf true (.simple .ColonColon))
    (by rw [kinds_pushIf, kinds_pushIf]; exact h)
  obtain ⟨st4, he4, hk4⟩ := eatSimple_hit true hk3
  refine ⟨i', surround lhs.span st3.cur.span, st4, hie, hk4, ?_⟩
  unfold parseIndexExpr
  rw [hm1]; simp only [bind, Except.bind]
  rw [hm2]; simp only []
  rw [hp]; simp only []
  rw [he4]; rfl

omit pe R in
theorem followStop_rbracket : StopTok (sim .RightBracket) ∧ sim .RightBracket ≠ sim .Else :=
  ⟨stopTok_rbracket, by simp [sim]⟩

/-- the postfix form `[ i ]` -/
theorem index_step {full : Bool} {i : Expr} (hi : PCh pe R full i) (xe : Expr) :
    SLtok pe R (sim .LeftBracket :: (sub full i 0 false false ++ [sim .RightBracket])) xe
      (.index xe i.erase .zero) := by
  intro lhs st y Y hl hk hR _
  obtain ⟨x, X, hx, hxs, _⟩ := (hi.2 false).cons
  have hk0 : st.kinds = sim .LeftBracket :: x :: (X ++ sim .RightBracket :: y :: Y) := by
    rw [hk, hx]; simp
  obtain ⟨st1, hk1, hstep⟩ := suffix_lbracket pe lhs hk0
  obtain ⟨i', sp', st2, hi', hk2, hidx⟩ := parseIndexExpr_index pe (ie := i.erase) (b := y) (ks := Y) lhs hk1
    (hxs.ne (by decide)) (hxs.ne (by decide))
    (by
      intro st3 hk3
      obtain ⟨i', st4, h1, h2, h3⟩ := hi.run pe R (st := st3) (tk := sim .RightBracket) (T := y :: Y)
        (by rw [hk3, hx]; simp)
        (by rw [hk3]; rw [hk0] at hR; simp at hR ⊢; omega) stopTok_rbracket (by simp [sim])
      exact ⟨i', st4, h1, h3, h2⟩)
  refine ⟨.index lhs i' sp', st2, by simp [Expr.erase, hl, hi'], hk2, fun f hf => ?_⟩
  obtain ⟨f', rfl⟩ : ∃ f', f = f' + 1 := ⟨f - 1, by omega⟩
  refine ⟨f', ?_, ?_⟩
  · rw [hk2]; rw [hk0] at hf; simp at hf ⊢; omega
  · rw [hstep f', hidx]

/-! ### slices -/

/-- the operand of a slice printed from the tree `x` -/
def opnd (full : Bool) (x : Expr) : Operand := ⟨sub full x 0 false false, x⟩

theorem opnd_ok {full : Bool} {x : Expr} (hx : PCh pe R full x) (R' : Nat) (hR' : R' < R) :
    (opnd full x).OK pe R' := by
  refine ⟨?_, ?_⟩
  · obtain ⟨a, l, hal, has, _⟩ := (hx.2 false).cons
    exact ⟨a, l, hal, has.ne (by decide), has.ne (by decide), has.ne (by decide)⟩
  · intro st b ks hk hlen hstop
    have hs : StopTok b ∧ b ≠ sim .Else := by
      rcases hstop with rfl | rfl | rfl
      · exact ⟨stopTok_colon, by simp [sim]⟩
      · exact ⟨stopTok_coloncolon, by simp [sim]⟩
      · exact ⟨stopTok_rbracket, by simp [sim]⟩
    exact hx.run pe R hk (by omega) hs.1 hs.2

def lastOf (full : Bool) : Option Expr → Last
  | none => .none
  | some z => .some (opnd full z)

/-- after the first colon, in the layout the printer chooses -/
def afterOf : Bool → Option Expr → Option Expr → AfterColon
  | false, none, none => .close
  | false, none, some z => .colon (.some (opnd false z))
  | false, some y, none => .expr (opnd false y)
  | false, some y, some z => .exprColon (opnd false y) (.some (opnd false z))
  | true, none, _ => .close
  | true, some y, i3 => .exprColon (opnd true y) (lastOf true i3)

/-- the layout the printer chooses for `[i1 : i2 : i3]` -/
def sliceLay : Bool → Option Expr → Option Expr → Option Expr → SliceLayout
  | true, none, none, i3 => .dcolon (lastOf true i3)
  | true, some x, none, i3 => .e1dcolon (opnd true x) (lastOf true i3)
  | true, none, some y, i3 => .colon (afterOf true (some y) i3)
  | true, some x, some y, i3 => .e1colon (opnd true x) (afterOf true (some y) i3)
  | false, none, i2, i3 => .colon (afterOf false i2 i3)
  | false, some x, i2, i3 => .e1colon (opnd false x) (afterOf false i2 i3)

/-- the tokens between `[` and `]` of a printed slice -/
def sliceMid (full : Bool) (i1 i2 i3 : Option Expr) : Toks :=
  prOpt full i1 ++
    (match i2, full with
      | none, true => sim .ColonColon :: prOpt full i3
      | none, false =>
        sim .Colon :: (match i3 with
          | none => []
          | some x => sim .Colon :: sub full x 0 false false)
      | some y, true => sim .Colon :: (sub full y 0 false false ++ sim .Colon :: prOpt full i3)
      | some y, false =>
        sim .Colon :: (sub full y 0 false false ++ (match i3 with
          | none => []
          | some x => sim .Colon :: sub full x 0 false false)))

omit pe R in
theorem prOpt_none (full : Bool) : prOpt full none = [] := by simp [prOpt]
omit pe R in
theorem prOpt_some (full : Bool) (x : Expr) : prOpt full (some x) = sub full x 0 false false := by simp [prOpt]

omit pe R in
theorem sliceLay_tks (full : Bool) (i1 i2 i3 : Option Expr) :
    (sliceLay full i1 i2 i3).tks = sliceMid full i1 i2 i3 := by
  cases full <;> cases i1 <;> cases i2 <;> cases i3 <;>
    simp [sliceLay, afterOf, sliceMid, SliceLayout.tks, AfterColon.tks, Last.tks, lastOf, opnd, prOpt_none, prOpt_some]

omit pe R in
theorem sliceLay_e (full : Bool) (i1 i2 i3 : Option Expr) :
    (sliceLay full i1 i2 i3).e1 = i1 ∧ (sliceLay full i1 i2 i3).e2 = i2 ∧ (sliceLay full i1 i2 i3).e3 = i3 := by
  cases full <;> cases i1 <;> cases i2 <;> cases i3 <;>
    simp [sliceLay, afterOf, SliceLayout.e1, SliceLayout.e2, SliceLayout.e3, AfterColon.e2, AfterColon.e3, Last.e,
      lastOf, opnd]

theorem sliceLay_ok {full : Bool} {i1 i2 i3 : Option Expr} (R' : Nat) (hR' : R' < R)
    (h1 : ∀ x, i1 = some x → PCh pe R full x) (h2 : ∀ x, i2 = some x → PCh pe R full x)
    (h3 : ∀ x, i3 = some x → PCh pe R full x) : (sliceLay full i1 i2 i3).OK pe R' := by
  have ok : ∀ {i : Option Expr} {x : Expr}, (∀ x, i = some x → PCh pe R full x) → i = some x →
      (opnd full x).OK pe R' := fun h hx => opnd_ok pe R (h _ hx) R' hR'
  cases full <;> cases i1 <;> cases i2 <;> cases i3 <;>
    simp only [sliceLay, afterOf, SliceLayout.OK, AfterColon.OK, Last.OK, lastOf, and_true] <;>
    first
      | trivial
      | exact ok h1 rfl
      | exact ok h2 rfl
      | exact ok h3 rfl
      | exact ⟨ok h1 rfl, ok h2 rfl⟩
      | exact ⟨ok h1 rfl, ok h3 rfl⟩
      | exact ⟨ok h2 rfl, ok h3 rfl⟩
      | exact ⟨ok h1 rfl, ok h2 rfl, ok h3 rfl⟩

/-- the postfix form `[ i1 : i2 : i3 ]` in the layout the printer emits -/
theorem slice_step {full : Bool} {i1 i2 i3 : Option Expr}
    (h1 : ∀ x, i1 = some x → PCh pe R full x) (h2 : ∀ x, i2 = some x → PCh pe R full x)
    (h3 : ∀ x, i3 = some x → PCh pe R full x) (xe : Expr) :
    SLtok pe R (sim .LeftBracket :: (sliceMid full i1 i2 i3 ++ [sim .RightBracket])) xe
      (.slice xe (eraseOpt i1) (eraseOpt i2) (eraseOpt i3) .zero) := by
  intro lhs st y Y hl hk hR _
  obtain ⟨b, ks, hb⟩ := cons_of_append_cons (sliceMid full i1 i2 i3) (sim .RightBracket) (y :: Y)
  have hk0 : st.kinds = sim .LeftBracket :: b :: ks := by
    rw [hk, ← hb]; simp
  obtain ⟨st1, hk1, hstep⟩ := suffix_lbracket pe lhs hk0
  have hR0 : 1 ≤ R := by rw [hk0] at hR; simp at hR; omega
  have hlay := sliceLay_ok pe R (R - 1) (by omega) h1 h2 h3
  obtain ⟨o1, o2, o3, sp, st2, hidx, e1, e2, e3, hk2⟩ := parseIndexExpr_slice pe (R - 1)
    (sliceLay full i1 i2 i3) hlay lhs (st := st1) (b := y) (ks := Y)
    (by rw [hk1, ← hb, sliceLay_tks])
    (by rw [hk1]; rw [hk0] at hR; simp at hR ⊢; omega)
  obtain ⟨q1, q2, q3⟩ := sliceLay_e full i1 i2 i3
  rw [q1] at e1; rw [q2] at e2; rw [q3] at e3
  refine ⟨.slice lhs o1 o2 o3 sp, st2, by simp [Expr.erase, hl, e1, e2, e3], hk2, fun f hf => ?_⟩
  obtain ⟨f', rfl⟩ : ∃ f', f = f' + 1 := ⟨f - 1, by omega⟩
  refine ⟨f', ?_, ?_⟩
  · rw [hk2]; rw [hk0] at hf
    have : (y :: Y).length ≤ ks.length := by
      have := congrArg List.length hb
      simp at this ⊢; omega
    simp at hf this ⊢; omega
  · rw [hstep f', hidx]

end
end Rsj.Parser
