/-
  C08 on the evaluator model, part 8: which errors can occur.  The abstraction of a deeply
  evaluated value contains no failing thunk (`AllVal`); on such values `structEq` fails only with
  `compareFunctions` and `lexCompare` only with one of the five comparison errors — the
  placeholder errors of `absErr` (`ExplicitError`, `InvalidStdFuncArgType`) never arise.
-/
import RsjProofs.EvalCompareTransfer
set_option linter.unusedSectionVars false
namespace Rsj.Compare
section
variable {ν : Type}

/-- every thunk (array element, visible field) holds a value -/
inductive AllVal : Value ν → Prop
  | null : AllVal .null
  | bool (b : Bool) : AllVal (.bool b)
  | num (n : ν) : AllVal (.num n)
  | str (s : List Nat) : AllVal (.str s)
  | func : AllVal .func
  | arr (xs : List (Thunk ν)) : (∀ e, Thunk.fail e ∉ xs) → (∀ v, Thunk.val v ∈ xs → AllVal v) →
      AllVal (.arr xs)
  | obj (fs : List (String × Thunk ν)) : (∀ k e, (k, Thunk.fail e) ∉ fs) →
      (∀ k v, (k, Thunk.val v) ∈ fs → AllVal v) → AllVal (.obj fs)

variable [DecidableEq ν]

theorem eqList_error {xs : List (Thunk ν)} (hx : ∀ e, Thunk.fail e ∉ xs)
    (ih : ∀ v, Thunk.val v ∈ xs → ∀ b, AllVal b → ∀ e, structEq v b = .error e → e = .compareFunctions) :
    ∀ ys, (∀ e, Thunk.fail e ∉ ys) → (∀ v, Thunk.val v ∈ ys → AllVal v) →
      ∀ e, eqList xs ys = .error e → e = .compareFunctions := by
  induction xs with
  | nil => intro ys _ _ e h; simp [eqList] at h
  | cons x xs ihx =>
    intro ys hy hv e h
    cases ys with
    | nil => simp [eqList] at h
    | cons y ys =>
      cases x with
      | fail e' => exact absurd (List.mem_cons_self ..) (hx e')
      | val a =>
        cases y with
        | fail e' => exact absurd (List.mem_cons_self ..) (hy e')
        | val b =>
          simp only [eqList] at h
          cases hab : structEq a b with
          | error e' =>
            rw [hab] at h
            injection h with h
            subst h
            exact ih a (List.mem_cons_self ..) b (hv b (List.mem_cons_self ..)) _ hab
          | ok r =>
            rw [hab] at h
            cases r with
            | false => cases h
            | true =>
              exact ihx (fun e he => hx e (List.mem_cons_of_mem _ he))
                (fun v hv' => ih v (List.mem_cons_of_mem _ hv')) ys
                (fun e he => hy e (List.mem_cons_of_mem _ he))
                (fun v hv' => hv v (List.mem_cons_of_mem _ hv')) e h

/-- without failing thunks, `==` fails only on two functions -/
theorem structEq_error {a : Value ν} (ha : AllVal a) :
    ∀ b, AllVal b → ∀ e, structEq a b = .error e → e = .compareFunctions := by
  induction ha with
  | null => intro b _ e h; cases b <;> simp [structEq] at h
  | bool x => intro b _ e h; cases b <;> simp [structEq] at h
  | num x => intro b _ e h; cases b <;> simp [structEq] at h
  | str x => intro b _ e h; cases b <;> simp [structEq] at h
  | func => intro b _ e h; cases b <;> simp [structEq] at h; exact h.symm
  | arr xs hx _ ih =>
    intro b hb e h
    cases hb with
    | arr ys hy hv =>
      rw [structEq_arr] at h
      split at h
      · exact eqList_error hx ih ys hy hv e h
      · cases h
    | _ => simp [structEq] at h
  | obj fs hx _ ih =>
    intro b hb e h
    cases hb with
    | obj gs hy hv =>
      rw [structEq_obj] at h
      split at h
      · refine eqList_error ?_ ?_ _ ?_ ?_ e h
        · intro e' he
          obtain ⟨k, hk⟩ := mem_map_snd he
          exact hx k e' hk
        · intro v hv'
          obtain ⟨k, hk⟩ := mem_map_snd hv'
          exact ih k v hk
        · intro e' he
          obtain ⟨k, hk⟩ := mem_map_snd he
          exact hy k e' hk
        · intro v hv'
          obtain ⟨k, hk⟩ := mem_map_snd hv'
          exact hv k v hk
      · cases h
    | _ => simp [structEq] at h

/-- the errors of the ordering proper -/
def Err.isOrderErr : Err → Prop
  | .compareNull | .compareBool | .compareObject | .compareFunctions | .compareDifferentTypes _ _ => True
  | _ => False

variable [NumOrd ν]

omit [DecidableEq ν] in
theorem cmpThunks_error {xs : List (Thunk ν)} (hx : ∀ e, Thunk.fail e ∉ xs)
    (ih : ∀ v, Thunk.val v ∈ xs → ∀ b, AllVal b → ∀ e, lexCompare v b = .error e → e.isOrderErr) :
    ∀ ys, (∀ e, Thunk.fail e ∉ ys) → (∀ v, Thunk.val v ∈ ys → AllVal v) →
      ∀ e, cmpThunks xs ys = .error e → e.isOrderErr := by
  induction xs with
  | nil => intro ys _ _ e h; cases ys <;> simp [cmpThunks] at h
  | cons x xs ihx =>
    intro ys hy hv e h
    cases ys with
    | nil => simp [cmpThunks] at h
    | cons y ys =>
      cases x with
      | fail e' => exact absurd (List.mem_cons_self ..) (hx e')
      | val a =>
        cases y with
        | fail e' => exact absurd (List.mem_cons_self ..) (hy e')
        | val b =>
          simp only [cmpThunks] at h
          cases hab : lexCompare a b with
          | error e' =>
            rw [hab] at h
            injection h with h
            subst h
            exact ih a (List.mem_cons_self ..) b (hv b (List.mem_cons_self ..)) _ hab
          | ok o =>
            rw [hab] at h
            cases o with
            | lt => cases h
            | gt => cases h
            | eq =>
              exact ihx (fun e he => hx e (List.mem_cons_of_mem _ he))
                (fun v hv' => ih v (List.mem_cons_of_mem _ hv')) ys
                (fun e he => hy e (List.mem_cons_of_mem _ he))
                (fun v hv' => hv v (List.mem_cons_of_mem _ hv')) e h

omit [DecidableEq ν] in
/-- without failing thunks, the ordering fails only with one of its own five errors -/
theorem lexCompare_error {a : Value ν} (ha : AllVal a) :
    ∀ b, AllVal b → ∀ e, lexCompare a b = .error e → e.isOrderErr := by
  induction ha with
  | arr xs hx _ ih =>
    intro b hb e h
    cases hb with
    | arr ys hy hv =>
      simp only [lexCompare] at h
      exact cmpThunks_error hx ih ys hy hv e h
    | _ => simp [lexCompare] at h; subst h; trivial
  | _ =>
    intro b _ e h
    cases b <;> simp [lexCompare] at h <;> subst h <;> trivial

end
end Rsj.Compare

namespace Rsj.Eval.Cmp
open Rsj.Core Rsj.Eval
open Rsj.Compare (structEq lexCompare AllVal)

variable [L : FloatLaws]

/-- the abstraction of an evaluated value has no failing thunk -/
theorem abs_allVal {st : St} : ∀ {h : Nat} {v : Value}, Evald st h v → AllVal (absVal st h v)
  | 0, v, hv => by
    cases v <;> first | exact hv.elim | constructor
  | h + 1, v, hv => by
    cases v with
    | null => exact .null
    | bool b => exact .bool b
    | num f => exact .num _
    | str s => exact .str _
    | func f => exact .func
    | arr items =>
      rw [absVal_arr]
      refine .arr _ ?_ ?_
      · intro e he
        obtain ⟨t, ht, hte⟩ := List.mem_map.mp he
        obtain ⟨w, h1, _⟩ := hv t ht
        rw [absThunk_done h1] at hte; cases hte
      · intro x hx
        obtain ⟨t, ht, hte⟩ := List.mem_map.mp hx
        obtain ⟨w, h1, h2⟩ := hv t ht
        rw [absThunk_done h1] at hte
        injection hte with hte
        subst hte
        exact abs_allVal h2
    | obj o =>
      obtain ⟨ob, h1, h2, h3⟩ := hv
      rw [absVal_obj st h h1]
      refine .obj _ ?_ ?_
      · intro k e he
        obtain ⟨name, hn, hne⟩ := List.mem_map.mp he
        obtain ⟨li, f, t, w, g1, g2, g3, g4⟩ := h3 name hn
        rw [absField_done g1 g2 g3] at hne
        injection hne with _ hne; cases hne
      · intro k x hx
        obtain ⟨name, hn, hne⟩ := List.mem_map.mp hx
        obtain ⟨li, f, t, w, g1, g2, g3, g4⟩ := h3 name hn
        rw [absField_done g1 g2 g3] at hne
        injection hne with _ hne
        injection hne with hne
        subst hne
        exact abs_allVal g4

end Rsj.Eval.Cmp
