/-
  Helper lemmas for C19: the argument-consumption machines (arrays, objects).
-/
import RsjProofs.Format
namespace Rsj.Format

/-- array items one directive consumes: one per `*`, one for the value unless `%%` -/
def neededCode (c : Code) : Nat :=
  (if c.fw = some .ext then 1 else 0) + (if c.prec = some .ext then 1 else 0) +
    (if c.conv = .pct then 0 else 1)

def needed : List Part → Nat
  | [] => 0
  | .lit _ :: ps => needed ps
  | .code c :: ps => neededCode c + needed ps

/-- the width written in the format string (0 if none or `*`) -/
def specWidth : Option FW → Nat
  | some (.inline n) => n
  | _ => 0

def inlineWidth (c : Code) : Nat := specWidth c.fw

/-- characters guaranteed by literals and inline widths -/
def minLen : List Part → Nat
  | [] => 0
  | .lit s :: ps => s.length + minLen ps
  | .code c :: ps => inlineWidth c + minLen ps

theorem takeW_ok {spec : Option FW} {arr : List Val} {i : Nat} {w : WT} {i' : Nat}
    (h : takeW spec arr i = .ok (w, i')) :
    i' = i + (if spec = some .ext then 1 else 0) ∧ i' ≤ max i arr.length ∧
      (∀ n, spec = some (.inline n) → w = .inline n) ∧ (spec = none → w = .none) ∧
      (spec = some .ext → ∃ v, arr[i]? = some v ∧ w = .val v) := by
  unfold takeW at h
  split at h
  · cases h; simp; omega
  · cases h; simp; omega
  · split at h
    · next v hv =>
      cases h
      have : i < arr.length := by
        rcases List.getElem?_eq_some_iff.mp hv with ⟨w, _⟩; exact w
      refine ⟨by simp, by omega, by simp, by simp, fun _ => ⟨v, hv, rfl⟩⟩
    · cases h

theorem takeW_err {spec : Option FW} {arr : List Val} {i : Nat} {e : Err}
    (h : takeW spec arr i = .error e) :
    e = .notEnough arr.length ∧ spec = some .ext ∧ arr.length ≤ i := by
  unfold takeW at h
  split at h
  · cases h
  · cases h
  · split at h
    · cases h
    · next hv =>
      cases h
      exact ⟨rfl, rfl, List.getElem?_eq_none_iff.mp hv⟩

theorem evalPrec_err {w : WT} {e : Err} (h : evalPrec w = .error e) :
    e = .precInvalid ∨ ∃ ty, e = .precNotNumber ty := by
  unfold evalPrec at h
  split at h
  · cases h
  · cases h
  · split at h
    · cases h
    · cases h; exact Or.inl rfl
  · cases h; exact Or.inr ⟨_, rfl⟩

theorem evalWidth_err {w : WT} {e : Err} (h : evalWidth w = .error e) :
    e = .widthInvalid ∨ ∃ ty, e = .widthNotNumber ty := by
  unfold evalWidth at h
  split at h
  · cases h
  · cases h
  · split at h
    · cases h
    · cases h; exact Or.inl rfl
  · cases h; exact Or.inr ⟨_, rfl⟩

theorem evalWidth_inline {n : Nat} : evalWidth (.inline n) = .ok n := rfl

/-- What a successful directive step guarantees. -/
theorem stepArray_ok {h : Host} {c : Code} {arr : List Val} {i : Nat} {s : List Char} {i' : Nat}
    (hs : stepArray h c arr i = .ok (s, i')) :
    i' = i + neededCode c ∧ i' ≤ max i arr.length ∧ inlineWidth c ≤ s.length := by
  unfold stepArray at hs
  split at hs
  · cases hs
  · next fwT i1 h1 =>
    split at hs
    · cases hs
    · next precT i2 h2 =>
      obtain ⟨e1, l1, inl1, _, _⟩ := takeW_ok h1
      obtain ⟨e2, l2, _, _, _⟩ := takeW_ok h2
      split at hs
      · cases hs
      · next prec hp =>
        split at hs
        · cases hs
        · next fw hfw =>
          have hw : inlineWidth c ≤ fw := by
            unfold inlineWidth specWidth
            split
            · next n hn =>
              rw [hn] at hfw
              simp only [Option.isSome_some, if_true] at hfw
              rw [inl1 n hn, evalWidth_inline] at hfw
              cases hfw; exact Nat.le_refl _
            · omega
          split at hs
          · next hpct =>
            cases hs
            refine ⟨?_, by omega, Nat.le_trans hw (padField_length _ _ _)⟩
            unfold neededCode; rw [if_pos hpct]; omega
          · next hpct =>
            split at hs
            · cases hs
            · next item hitem =>
              split at hs
              · cases hs
              · next s' hr =>
                cases hs
                have : i2 < arr.length := by
                  rcases List.getElem?_eq_some_iff.mp hitem with ⟨w, _⟩; exact w
                refine ⟨?_, by omega, Nat.le_trans hw (padField_length _ _ _)⟩
                unfold neededCode; rw [if_neg hpct]; omega

/-- A directive step reports "not enough" exactly when the array is too short for it,
    and never reports "too many". -/
theorem stepArray_err {h : Host} {c : Code} {arr : List Val} {i : Nat} {e : Err}
    (hs : stepArray h c arr i = .error e) :
    (∀ g, e = .notEnough g → g = arr.length ∧ arr.length < i + neededCode c) ∧
      (∀ a b, e ≠ .tooMany a b) := by
  unfold stepArray at hs
  split at hs
  · next e1 h1 =>
    cases hs
    obtain ⟨rfl, hsp, hle⟩ := takeW_err h1
    refine ⟨fun g hg => ?_, fun a b hab => by cases hab⟩
    cases hg
    refine ⟨rfl, ?_⟩
    unfold neededCode; rw [if_pos hsp]; omega
  · next fwT i1 h1 =>
    obtain ⟨e1, _, _, _, _⟩ := takeW_ok h1
    split at hs
    · next e2 h2 =>
      cases hs
      obtain ⟨rfl, hsp, hle⟩ := takeW_err h2
      refine ⟨fun g hg => ?_, fun a b hab => by cases hab⟩
      cases hg
      refine ⟨rfl, ?_⟩
      unfold neededCode; rw [if_pos hsp]; omega
    · next precT i2 h2 =>
      obtain ⟨e2, _, _, _, _⟩ := takeW_ok h2
      split at hs
      · next ep hp =>
        cases hs
        split at hp
        · rcases evalPrec_err hp with rfl | ⟨ty, rfl⟩
          · exact ⟨fun g hg => (by cases hg), fun a b hab => (by cases hab)⟩
          · exact ⟨fun g hg => (by cases hg), fun a b hab => (by cases hab)⟩
        · cases hp
      · split at hs
        · next ew hw =>
          cases hs
          split at hw
          · rcases evalWidth_err hw with rfl | ⟨ty, rfl⟩
            · exact ⟨fun g hg => (by cases hg), fun a b hab => (by cases hab)⟩
            · exact ⟨fun g hg => (by cases hg), fun a b hab => (by cases hab)⟩
          · cases hw
        · split at hs
          · cases hs
          · next hpct =>
            split at hs
            · next hitem =>
              cases hs
              refine ⟨fun g hg => ?_, fun a b hab => by cases hab⟩
              cases hg
              refine ⟨rfl, ?_⟩
              have := List.getElem?_eq_none_iff.mp hitem
              unfold neededCode; rw [if_neg hpct]; omega
            · split at hs
              · cases hs
                exact ⟨fun g hg => (by cases hg), fun a b hab => (by cases hab)⟩
              · cases hs

/-- Accounting for the whole array machine. -/
theorem fmtArrayGo_ok {h : Host} {arr : List Val} {parts : List Part} {i : Nat}
    {acc out : List Char} (hi : i ≤ arr.length)
    (hs : fmtArrayGo h arr parts i acc = .ok out) :
    i + needed parts = arr.length ∧ acc.length + minLen parts ≤ out.length := by
  induction parts generalizing i acc with
  | nil =>
    unfold fmtArrayGo at hs
    split at hs
    · cases hs
    · cases hs; simp only [needed, minLen]; omega
  | cons p ps ih =>
    cases p with
    | lit s =>
      unfold fmtArrayGo at hs
      obtain ⟨h1, h2⟩ := ih hi hs
      simp only [needed, minLen]
      simp only [List.length_append] at h2
      omega
    | code c =>
      unfold fmtArrayGo at hs
      split at hs
      · cases hs
      · next s i' hstep =>
        obtain ⟨e1, l1, w1⟩ := stepArray_ok hstep
        obtain ⟨h1, h2⟩ := ih (by omega) hs
        simp only [needed, minLen]
        simp only [List.length_append] at h2
        omega

theorem fmtArrayGo_err {h : Host} {arr : List Val} {parts : List Part} {i : Nat}
    {acc : List Char} {e : Err} (hi : i ≤ arr.length)
    (hs : fmtArrayGo h arr parts i acc = .error e) :
    (∀ g, e = .notEnough g → g = arr.length ∧ arr.length < i + needed parts) ∧
      (∀ a b, e = .tooMany a b → a = i + needed parts ∧ b = arr.length ∧ a < b) := by
  induction parts generalizing i acc with
  | nil =>
    unfold fmtArrayGo at hs
    split at hs
    · next hlt =>
      cases hs
      refine ⟨fun g hg => (by cases hg), fun a b hab => ?_⟩
      cases hab
      exact ⟨by simp [needed], rfl, hlt⟩
    · cases hs
  | cons p ps ih =>
    cases p with
    | lit s =>
      unfold fmtArrayGo at hs
      simpa only [needed] using ih hi hs
    | code c =>
      unfold fmtArrayGo at hs
      split at hs
      · next e' hstep =>
        cases hs
        obtain ⟨h1, h2⟩ := stepArray_err hstep
        refine ⟨fun g hg => ?_, fun a b hab => absurd hab (h2 a b)⟩
        obtain ⟨r1, r2⟩ := h1 g hg
        simp only [needed]; omega
      · next s i' hstep =>
        obtain ⟨e1, l1, _⟩ := stepArray_ok hstep
        obtain ⟨h1, h2⟩ := ih (by omega) hs
        refine ⟨fun g hg => ?_, fun a b hab => ?_⟩
        · obtain ⟨r1, r2⟩ := h1 g hg
          simp only [needed]; omega
        · obtain ⟨r1, r2, r3⟩ := h2 a b hab
          simp only [needed]; omega

/-! ## Objects -/

theorem objWidth_ok {spec : Option FW} {star : Err} {n : Nat} (hw : objWidth spec star = .ok n) :
    specWidth spec = n := by
  unfold objWidth at hw
  split at hw
  · cases hw; rfl
  · cases hw; rfl
  · cases hw

theorem stepObject_ok {h : Host} {c : Code} {o : List (List Char × Val)} {s : List Char}
    (hs : stepObject h c o = .ok s) : inlineWidth c ≤ s.length := by
  unfold stepObject at hs
  split at hs
  · cases hs
  · next fw hfw =>
    have hw : inlineWidth c = fw := objWidth_ok hfw
    split at hs
    · cases hs
    · split at hs
      · cases hs; rw [hw]; exact padField_length _ _ _
      · split at hs
        · cases hs
        · split at hs
          · cases hs
          · split at hs
            · cases hs
            · cases hs; rw [hw]; exact padField_length _ _ _

theorem fmtObjectGo_ok {h : Host} {o : List (List Char × Val)} {parts : List Part}
    {acc out : List Char} (hs : fmtObjectGo h o parts acc = .ok out) :
    acc.length + minLen parts ≤ out.length := by
  induction parts generalizing acc with
  | nil => unfold fmtObjectGo at hs; cases hs; simp [minLen]
  | cons p ps ih =>
    cases p with
    | lit s =>
      unfold fmtObjectGo at hs
      have := ih hs
      simp only [List.length_append] at this
      simp only [minLen]; omega
    | code c =>
      unfold fmtObjectGo at hs
      split at hs
      · cases hs
      · next s hstep =>
        have w := stepObject_ok hstep
        have := ih hs
        simp only [List.length_append] at this
        simp only [minLen]; omega

end Rsj.Format
