import RsjProofs.Lower
import RsjProofs.EvalSafeShape
import RsjProofs.EvalPureTable
/-!
  Every program the lowering produces has the shape `CoreShaped` (RsjProofs/EvalSafeShape.lean) that the
  evaluator's no-panic theorem (RsjProps/C01Eval.lean) assumes and the analyzer does not check: builtins
  are applied to an accepted number of arguments, comprehensions start with a `for` clause.
-/
namespace Rsj.Lower
open Rsj.Core Rsj.Eval

theorem arityOk_of (b : Builtin) (n : Nat) (h : Lower.builtinArityOk b n = true) : Eval.builtinArityOk b n := by
  cases b with
  | pure p =>
    simp only [Lower.builtinArityOk, beq_iff_eq] at h
    refine Or.inl ?_
    show n = (Eval.pureSpec p).arity
    rw [Eval.pureSpec_arity p]; exact h
  | _ =>
    unfold Eval.builtinArityOk Eval.builtinArity
    simp [Lower.builtinArityOk] at h ⊢ <;> omega

/-- a lowered field name -/
def FShaped : FName → Prop
  | .fix _ => True
  | .dyn e => CoreShaped e

theorem mkField_shaped {n : FName} {plus : Bool} {v : Vis} {ps : OptParams} {e : Expr} {rest : Members}
    (hn : FShaped n) (hps : CoreShapedOptParams ps) (he : CoreShaped e) (hr : CoreShapedMembers rest) :
    CoreShapedMembers (mkField n plus v ps e rest) := by
  cases n with
  | fix s => simp only [mkField, CoreShapedMembers]; exact ⟨hps, he, hr⟩
  | dyn ne => simp only [mkField, CoreShapedMembers]; exact ⟨hn, hps, he, hr⟩

theorem appendBinds_shaped : ∀ (a b : Binds), CoreShapedBinds a → CoreShapedBinds b → CoreShapedBinds (appendBinds a b)
  | .nil, b, _, hb => by rw [appendBinds]; exact hb
  | .cons n ps e rest, b, ha, hb => by
    rw [appendBinds]
    simp only [CoreShapedBinds] at ha ⊢
    exact ⟨ha.1, ha.2.1, appendBinds_shaped rest b ha.2.2 hb⟩

theorem extend_shaped {l r : Expr} (hl : CoreShaped l) (hr : CoreShaped r) : CoreShaped (extend l r) := by
  unfold extend
  split
  · simp only [CoreShaped] at hr ⊢; exact ⟨hl, hr⟩
  · simp only [CoreShaped]; exact ⟨hl, hr⟩

theorem importHead_shaped {libs : List (String × String)} {k : Nat} {e : Parser.Expr} {r : Expr}
    (h : importHead libs k e = some r) : CoreShaped r := by
  unfold importHead at h
  split at h
  · split at h <;> (cases h; simp [CoreShaped])
  · cases h; simp [CoreShaped]
  · cases h

variable (libs : List (String × String))

theorem lowerArgExprs_length : ∀ (args : List Parser.Arg) (lib : Bool) (as' : Exprs),
    lowerArgExprs libs args lib = .ok as' → exprsLength as' = args.length
  | [], _, as', h => by rw [lowerArgExprs] at h; cases h; rfl
  | .positional e :: rest, lib, as', h => by
    rw [lowerArgExprs] at h
    obtain ⟨e', _, h⟩ := bind_ok h
    obtain ⟨r, hr, h⟩ := bind_ok h
    cases h
    simp [exprsLength, lowerArgExprs_length rest lib r hr]
  | .named nm e :: rest, lib, as', h => by
    rw [lowerArgExprs] at h
    obtain ⟨e', _, h⟩ := bind_ok h
    obtain ⟨r, hr, h⟩ := bind_ok h
    cases h
    simp [exprsLength, lowerArgExprs_length rest lib r hr]

theorem lowerSpecs_startWithFor {spec : List Parser.CompSpec} {lib : Bool} {sp : Specs} {l : Bool}
    (hh : specsHeadFor spec = true) (h : lowerSpecs libs spec lib = .ok (sp, l)) : specsStartWithFor sp := by
  cases spec with
  | nil => simp [specsHeadFor] at hh
  | cons s rest =>
    cases s with
    | if_ c => simp [specsHeadFor] at hh
    | for_ v inner =>
      rw [lowerSpecs] at h
      obtain ⟨n, _, h⟩ := bind_ok h
      obtain ⟨e', _, h⟩ := bind_ok h
      obtain ⟨⟨r, l'⟩, _, h⟩ := bind_ok h
      cases h
      trivial

mutual
  theorem shaped_E : ∀ (e : Parser.Expr) (lib tail : Bool) (c : Expr), lowerE libs e lib tail = .ok c → CoreShaped c
    | .null _, _, _, c, h => by rw [lowerE] at h; cases h; simp [CoreShaped]
    | .bool b _, _, _, c, h => by rw [lowerE] at h; cases h; cases b <;> simp [CoreShaped]
    | .selfObj _, _, _, c, h => by rw [lowerE] at h; cases h; simp [CoreShaped]
    | .dollar _, _, _, c, h => by rw [lowerE] at h; cases h; simp [CoreShaped]
    | .str s _, _, _, c, h => by
      rw [lowerE] at h; obtain ⟨x, _, h⟩ := bind_ok h; cases h; simp [CoreShaped]
    | .textBlock s _, _, _, c, h => by
      rw [lowerE] at h; obtain ⟨x, _, h⟩ := bind_ok h; cases h; simp [CoreShaped]
    | .number n _, _, _, c, h => by
      rw [lowerE] at h; obtain ⟨x, _, h⟩ := bind_ok h; cases h; simp [CoreShaped]
    | .paren e _, lib, _, c, h => by
      rw [lowerE] at h; obtain ⟨e', he, h⟩ := bind_ok h; cases h
      simp only [CoreShaped]; exact shaped_E e lib false e' he
    | .object o _, lib, _, c, h => by
      rw [lowerE] at h; exact shaped_Obj o lib c h
    | .array items _, lib, _, c, h => by
      rw [lowerE] at h; obtain ⟨x, hx, h⟩ := bind_ok h; cases h
      simp only [CoreShaped]; exact shaped_Exprs items lib x hx
    | .arrayComp e spec _, lib, _, c, h => by
      rw [lowerE] at h
      by_cases hh : specsHeadFor spec = true
      · simp only [hh, Bool.not_true, Bool.false_eq_true, if_false] at h
        obtain ⟨⟨sp, l⟩, hs, h⟩ := bind_ok h
        obtain ⟨b, hb, h⟩ := bind_ok h
        cases h
        simp only [CoreShaped]
        exact ⟨shaped_E e l false b hb, lowerSpecs_startWithFor libs hh hs, shaped_Specs spec lib sp l hs⟩
      · simp [hh] at h
    | .field e name _, lib, _, c, h => by
      rw [lowerE] at h; obtain ⟨e', he, h⟩ := bind_ok h; obtain ⟨n, _, h⟩ := bind_ok h; cases h
      simp only [CoreShaped]; exact shaped_E e lib false e' he
    | .index e i _, lib, _, c, h => by
      rw [lowerE] at h; obtain ⟨e', he, h⟩ := bind_ok h; obtain ⟨i', hi, h⟩ := bind_ok h; cases h
      simp only [CoreShaped]; exact ⟨shaped_E e lib false e' he, shaped_E i lib false i' hi⟩
    | .slice e a b cc _, lib, _, c, h => by
      rw [lowerE] at h
      obtain ⟨e', he, h⟩ := bind_ok h
      obtain ⟨a', ha, h⟩ := bind_ok h
      obtain ⟨b', hb, h⟩ := bind_ok h
      obtain ⟨c', hc, h⟩ := bind_ok h
      cases h
      simp only [CoreShaped]
      exact ⟨shaped_E e lib false e' he, shaped_Opt a lib false a' ha, shaped_Opt b lib false b' hb,
        shaped_Opt cc lib false c' hc⟩
    | .superField _ name _, _, _, c, h => by
      rw [lowerE] at h; obtain ⟨x, _, h⟩ := bind_ok h; cases h; simp [CoreShaped]
    | .superIndex _ i _, lib, _, c, h => by
      rw [lowerE] at h; obtain ⟨i', hi, h⟩ := bind_ok h; cases h
      simp only [CoreShaped]; exact shaped_E i lib false i' hi
    | .call f args ts _, lib, tail, c, h => by
      rw [lowerE] at h
      cases hf : (if lib then stdCallee f else none) with
      | some nameHex =>
        simp only [hf] at h
        obtain ⟨b, hb, h⟩ := bind_ok h
        obtain ⟨as', ha, h⟩ := bind_ok h
        cases h
        obtain ⟨name, _, _, _, _, har⟩ := builtinOf_ok hb
        simp only [CoreShaped]
        refine ⟨?_, shaped_ArgExprs args lib as' ha⟩
        rw [lowerArgExprs_length libs args lib as' ha]
        exact arityOk_of b _ har
      | none =>
        simp only [hf] at h
        obtain ⟨f', hf', h⟩ := bind_ok h
        obtain ⟨as', ha, h⟩ := bind_ok h
        cases h
        simp only [CoreShaped]
        exact ⟨shaped_E f lib false f' hf', shaped_Args args lib as' ha⟩
    | .ident id _, lib, _, c, h => by
      rw [lowerE] at h
      split at h
      · cases h
      · obtain ⟨x, _, h⟩ := bind_ok h; cases h; simp [CoreShaped]
    | .local_ binds body _, lib, tail, c, h => by
      rw [lowerE] at h
      obtain ⟨bs, hb, h⟩ := bind_ok h
      obtain ⟨b', hbody, h⟩ := bind_ok h
      cases h
      simp only [CoreShaped]
      exact ⟨shaped_Binds binds _ bs hb, shaped_E body _ tail b' hbody⟩
    | .ite_ cnd t el _, lib, tail, c, h => by
      rw [lowerE] at h
      obtain ⟨c', hc, h⟩ := bind_ok h
      obtain ⟨t', ht, h⟩ := bind_ok h
      obtain ⟨el', hel, h⟩ := bind_ok h
      cases h
      simp only [CoreShaped]
      exact ⟨shaped_E cnd lib false c' hc, shaped_E t lib tail t' ht, shaped_Opt el lib tail el' hel⟩
    | .binary l op r _, lib, _, c, h => by
      rw [lowerE] at h
      obtain ⟨l', hl, h⟩ := bind_ok h
      obtain ⟨r', hr, h⟩ := bind_ok h
      cases h
      simp only [CoreShaped]
      exact ⟨shaped_E l lib false l' hl, shaped_E r lib false r' hr⟩
    | .unary op e _, lib, _, c, h => by
      rw [lowerE] at h; obtain ⟨e', he, h⟩ := bind_ok h; cases h
      simp only [CoreShaped]; exact shaped_E e lib false e' he
    | .objExt e o _ _, lib, _, c, h => by
      rw [lowerE] at h
      obtain ⟨e', he, h⟩ := bind_ok h
      obtain ⟨o', ho, h⟩ := bind_ok h
      cases h
      exact extend_shaped (shaped_E e lib false e' he) (shaped_Obj o lib o' ho)
    | .func params body _, lib, _, c, h => by
      rw [lowerE] at h
      obtain ⟨ps, hps, h⟩ := bind_ok h
      obtain ⟨b, hb, h⟩ := bind_ok h
      cases h
      simp only [CoreShaped]
      exact ⟨shaped_Params params _ ps hps, shaped_E body _ true b hb⟩
    | .assert_ (.mk _ cond msg) body _, lib, tail, c, h => by
      rw [lowerE] at h
      obtain ⟨c', hc, h⟩ := bind_ok h
      obtain ⟨m', hm, h⟩ := bind_ok h
      obtain ⟨b', hb, h⟩ := bind_ok h
      cases h
      simp only [CoreShaped]
      exact ⟨shaped_E cond lib false c' hc, shaped_Opt msg lib false m' hm, shaped_E body lib tail b' hb⟩
    | .import_ e _, lib, _, c, h => by
      rw [lowerE] at h
      cases hi : importHead libs 0 e with
      | some r => simp only [hi] at h; cases h; exact importHead_shaped hi
      | none =>
        simp only [hi] at h; obtain ⟨e', he, h⟩ := bind_ok h; cases h
        simp only [CoreShaped]; exact shaped_E e lib false e' he
    | .importStr e _, lib, _, c, h => by
      rw [lowerE] at h
      cases hi : importHead libs 1 e with
      | some r => simp only [hi] at h; cases h; exact importHead_shaped hi
      | none =>
        simp only [hi] at h; obtain ⟨e', he, h⟩ := bind_ok h; cases h
        simp only [CoreShaped]; exact shaped_E e lib false e' he
    | .importBin e _, lib, _, c, h => by
      rw [lowerE] at h
      cases hi : importHead libs 2 e with
      | some r => simp only [hi] at h; cases h; exact importHead_shaped hi
      | none =>
        simp only [hi] at h; obtain ⟨e', he, h⟩ := bind_ok h; cases h
        simp only [CoreShaped]; exact shaped_E e lib false e' he
    | .error_ e _, lib, _, c, h => by
      rw [lowerE] at h; obtain ⟨e', he, h⟩ := bind_ok h; cases h
      simp only [CoreShaped]; exact shaped_E e lib false e' he
    | .inSuper e _ _, lib, _, c, h => by
      rw [lowerE] at h; obtain ⟨e', he, h⟩ := bind_ok h; cases h
      simp only [CoreShaped]; exact shaped_E e lib false e' he
  theorem shaped_Opt : ∀ (o : Option Parser.Expr) (lib tail : Bool) (c : OptExpr),
      lowerOpt libs o lib tail = .ok c → CoreShapedOpt c
    | none, _, _, c, h => by rw [lowerOpt] at h; cases h; simp [CoreShapedOpt]
    | some e, lib, tail, c, h => by
      rw [lowerOpt] at h; obtain ⟨e', he, h⟩ := bind_ok h; cases h
      simp only [CoreShapedOpt]; exact shaped_E e lib tail e' he
  theorem shaped_Exprs : ∀ (es : List Parser.Expr) (lib : Bool) (c : Exprs),
      lowerExprs libs es lib = .ok c → CoreShapedExprs c
    | [], _, c, h => by rw [lowerExprs] at h; cases h; simp [CoreShapedExprs]
    | e :: es, lib, c, h => by
      rw [lowerExprs] at h
      obtain ⟨e', he, h⟩ := bind_ok h
      obtain ⟨r, hr, h⟩ := bind_ok h
      cases h
      simp only [CoreShapedExprs]
      exact ⟨shaped_E e lib false e' he, shaped_Exprs es lib r hr⟩
  theorem shaped_Args : ∀ (as : List Parser.Arg) (lib : Bool) (c : Args),
      lowerArgs libs as lib = .ok c → CoreShapedArgs c
    | [], _, c, h => by rw [lowerArgs] at h; cases h; simp [CoreShapedArgs]
    | .positional e :: rest, lib, c, h => by
      rw [lowerArgs] at h
      obtain ⟨e', he, h⟩ := bind_ok h
      obtain ⟨r, hr, h⟩ := bind_ok h
      cases h
      simp only [CoreShapedArgs]
      exact ⟨shaped_E e lib false e' he, shaped_Args rest lib r hr⟩
    | .named nm e :: rest, lib, c, h => by
      rw [lowerArgs] at h
      obtain ⟨n, _, h⟩ := bind_ok h
      obtain ⟨e', he, h⟩ := bind_ok h
      obtain ⟨r, hr, h⟩ := bind_ok h
      cases h
      simp only [CoreShapedArgs]
      exact ⟨shaped_E e lib false e' he, shaped_Args rest lib r hr⟩
  theorem shaped_ArgExprs : ∀ (as : List Parser.Arg) (lib : Bool) (c : Exprs),
      lowerArgExprs libs as lib = .ok c → CoreShapedExprs c
    | [], _, c, h => by rw [lowerArgExprs] at h; cases h; simp [CoreShapedExprs]
    | .positional e :: rest, lib, c, h => by
      rw [lowerArgExprs] at h
      obtain ⟨e', he, h⟩ := bind_ok h
      obtain ⟨r, hr, h⟩ := bind_ok h
      cases h
      simp only [CoreShapedExprs]
      exact ⟨shaped_E e lib false e' he, shaped_ArgExprs rest lib r hr⟩
    | .named nm e :: rest, lib, c, h => by
      rw [lowerArgExprs] at h
      obtain ⟨e', he, h⟩ := bind_ok h
      obtain ⟨r, hr, h⟩ := bind_ok h
      cases h
      simp only [CoreShapedExprs]
      exact ⟨shaped_E e lib false e' he, shaped_ArgExprs rest lib r hr⟩
  theorem shaped_Params : ∀ (ps : List Parser.Param) (lib : Bool) (c : Params),
      lowerParams libs ps lib = .ok c → CoreShapedParams c
    | [], _, c, h => by rw [lowerParams] at h; cases h; simp [CoreShapedParams]
    | .mk name d :: rest, lib, c, h => by
      rw [lowerParams] at h
      obtain ⟨n, _, h⟩ := bind_ok h
      obtain ⟨d', hd, h⟩ := bind_ok h
      obtain ⟨r, hr, h⟩ := bind_ok h
      cases h
      simp only [CoreShapedParams]
      exact ⟨shaped_Opt d lib false d' hd, shaped_Params rest lib r hr⟩
  theorem shaped_Binds : ∀ (bs : List Parser.Bind) (lib : Bool) (c : Binds),
      lowerBinds libs bs lib = .ok c → CoreShapedBinds c
    | [], _, c, h => by rw [lowerBinds] at h; cases h; simp [CoreShapedBinds]
    | .mk name hasParams params _ value :: rest, lib, c, h => by
      rw [lowerBinds] at h
      obtain ⟨n, _, h⟩ := bind_ok h
      cases hasParams with
      | true =>
        simp only [if_true] at h
        obtain ⟨ps, hps, h⟩ := bind_ok h
        obtain ⟨v, hv, h⟩ := bind_ok h
        obtain ⟨r, hr, h⟩ := bind_ok h
        cases h
        simp only [CoreShapedBinds, CoreShapedOptParams]
        exact ⟨shaped_Params params _ ps hps, shaped_E value _ true v hv, shaped_Binds rest lib r hr⟩
      | false =>
        simp only [Bool.false_eq_true, if_false] at h
        obtain ⟨v, hv, h⟩ := bind_ok h
        obtain ⟨r, hr, h⟩ := bind_ok h
        cases h
        simp only [CoreShapedBinds, CoreShapedOptParams]
        exact ⟨trivial, shaped_E value lib false v hv, shaped_Binds rest lib r hr⟩
  theorem shaped_Specs : ∀ (ss : List Parser.CompSpec) (lib : Bool) (c : Specs) (l : Bool),
      lowerSpecs libs ss lib = .ok (c, l) → CoreShapedSpecs c
    | [], _, c, l, h => by rw [lowerSpecs] at h; cases h; simp [CoreShapedSpecs]
    | .for_ v inner :: rest, lib, c, l, h => by
      rw [lowerSpecs] at h
      obtain ⟨n, _, h⟩ := bind_ok h
      obtain ⟨e', he, h⟩ := bind_ok h
      obtain ⟨⟨r, l'⟩, hr, h⟩ := bind_ok h
      cases h
      simp only [CoreShapedSpecs]
      exact ⟨shaped_E inner lib false e' he, shaped_Specs rest _ r _ hr⟩
    | .if_ cnd :: rest, lib, c, l, h => by
      rw [lowerSpecs] at h
      obtain ⟨c', hc, h⟩ := bind_ok h
      obtain ⟨⟨r, l'⟩, hr, h⟩ := bind_ok h
      cases h
      simp only [CoreShapedSpecs]
      exact ⟨shaped_E cnd lib false c' hc, shaped_Specs rest lib r _ hr⟩
  theorem shaped_Obj : ∀ (o : Parser.ObjInside) (lib : Bool) (c : Expr), lowerObj libs o lib = .ok c → CoreShaped c
    | .members ms, lib, c, h => by
      rw [lowerObj] at h; obtain ⟨ms', hm, h⟩ := bind_ok h; cases h
      simp only [CoreShaped]; exact shaped_Members ms lib _ ms' hm
    | .comp l1 name plus body l2 spec, lib, c, h => by
      rw [lowerObj] at h
      by_cases hh : specsHeadFor spec = true
      · simp only [hh, Bool.not_true, Bool.false_eq_true, if_false] at h
        obtain ⟨⟨sp, l⟩, hs, h⟩ := bind_ok h
        obtain ⟨b1, hb1, h⟩ := bind_ok h
        obtain ⟨b2, hb2, h⟩ := bind_ok h
        obtain ⟨n', hn, h⟩ := bind_ok h
        obtain ⟨b', hb, h⟩ := bind_ok h
        cases h
        simp only [CoreShaped]
        exact ⟨appendBinds_shaped _ _ (shaped_Binds l1 _ b1 hb1) (shaped_Binds l2 _ b2 hb2),
          shaped_E name l false n' hn, shaped_E body _ false b' hb, lowerSpecs_startWithFor libs hh hs,
          shaped_Specs spec lib sp l hs⟩
      · simp [hh] at h
  theorem shaped_Members : ∀ (ms : List Parser.Member) (outer inner : Bool) (c : Members),
      lowerMembers libs ms outer inner = .ok c → CoreShapedMembers c
    | [], _, _, c, h => by rw [lowerMembers] at h; cases h; simp [CoreShapedMembers]
    | .local_ (.mk name hasParams params _ value) :: rest, outer, inner, c, h => by
      rw [lowerMembers] at h
      obtain ⟨n, _, h⟩ := bind_ok h
      cases hasParams with
      | true =>
        simp only [if_true] at h
        obtain ⟨ps, hps, h⟩ := bind_ok h
        obtain ⟨v, hv, h⟩ := bind_ok h
        obtain ⟨r, hr, h⟩ := bind_ok h
        cases h
        simp only [CoreShapedMembers, CoreShapedOptParams]
        exact ⟨shaped_Params params _ ps hps, shaped_E value _ true v hv, shaped_Members rest outer inner r hr⟩
      | false =>
        simp only [Bool.false_eq_true, if_false] at h
        obtain ⟨v, hv, h⟩ := bind_ok h
        obtain ⟨r, hr, h⟩ := bind_ok h
        cases h
        simp only [CoreShapedMembers, CoreShapedOptParams]
        exact ⟨trivial, shaped_E value inner false v hv, shaped_Members rest outer inner r hr⟩
    | .assert_ (.mk _ cond msg) :: rest, outer, inner, c, h => by
      rw [lowerMembers] at h
      obtain ⟨c', hc, h⟩ := bind_ok h
      obtain ⟨m', hm, h⟩ := bind_ok h
      obtain ⟨r, hr, h⟩ := bind_ok h
      cases h
      simp only [CoreShapedMembers]
      exact ⟨shaped_E cond inner false c' hc, shaped_Opt msg inner false m' hm, shaped_Members rest outer inner r hr⟩
    | .field (.value fname plus v e) :: rest, outer, inner, c, h => by
      rw [lowerMembers] at h
      obtain ⟨e', he, h⟩ := bind_ok h
      obtain ⟨n, hn, h⟩ := bind_ok h
      obtain ⟨r, hr, h⟩ := bind_ok h
      cases h
      exact mkField_shaped (shaped_FieldName fname outer n hn) trivial (shaped_E e inner false e' he)
        (shaped_Members rest outer inner r hr)
    | .field (.func fname params _ v e) :: rest, outer, inner, c, h => by
      rw [lowerMembers] at h
      obtain ⟨ps, hps, h⟩ := bind_ok h
      obtain ⟨e', he, h⟩ := bind_ok h
      obtain ⟨n, hn, h⟩ := bind_ok h
      obtain ⟨r, hr, h⟩ := bind_ok h
      cases h
      exact mkField_shaped (shaped_FieldName fname outer n hn) (shaped_Params params _ ps hps)
        (shaped_E e _ true e' he) (shaped_Members rest outer inner r hr)
  theorem shaped_FieldName : ∀ (f : Parser.FieldName) (outer : Bool) (n : FName),
      lowerFieldName libs f outer = .ok n → FShaped n
    | .ident i, _, n, h => by
      rw [lowerFieldName] at h; obtain ⟨s, _, h⟩ := bind_ok h; cases h; trivial
    | .str s _, _, n, h => by
      rw [lowerFieldName] at h; obtain ⟨t, _, h⟩ := bind_ok h; cases h; trivial
    | .expr ne _, outer, n, h => by
      rw [lowerFieldName] at h; obtain ⟨e', he, h⟩ := bind_ok h; cases h
      exact shaped_E ne outer false e' he
end

/-- **Every lowered program is `CoreShaped`.** -/
theorem lowerWith_coreShaped {ast : Parser.Expr} {e : Expr} (h : lowerWith libs ast = .ok e) : CoreShaped e :=
  shaped_E libs ast true false e h

/-- the form asked for by the C01 development -/
theorem lower_coreShaped {ast : Parser.Expr} {e : Expr} (h : lower ast = .ok e) : CoreShaped e :=
  lowerWith_coreShaped [] h

end Rsj.Lower
