/-
  C17 on the evaluator model, part 1 (pure): the function computed by the evaluator model's
  `std_qsort` (`qsortFuel` / `qsortPure`), its identification with `quick` / `sortSlice` / `sort`
  of the proved sorting model (`RsjModel/Sort.lean`), and the transfer of the C17 laws to it
  for a comparison that is lawful *on the keys that occur* (`LawfulOn G cmp`): the comparison of
  the evaluator is a total preorder only on evaluated values of one orderable sort, not on all
  of `Value`, so the `Lawful` of RsjProofs/Sort.lean is obtained for the totalised comparison
  `totalize G cmp` (every value outside `G` is equivalent to every other such value and greater
  than all of `G`), which agrees with `cmp` on `G`.
-/
import RsjProofs.SortAll
namespace Rsj.Eval.SortRef
open Rsj.Sort

variable {α κ : Type}

/-! ### the pure quick sort of the evaluator model -/

/-- What `Rsj.Eval.std_qsort` computes, with the comparison as a pure function: first element =
    pivot, `<` go left (in order), the others right, then both parts; no fuel: the list unchanged. -/
def qsortFuel (cmp : κ → κ → Ordering) (key : α → κ) : Nat → List α → List α
  | 0, xs => xs
  | _ + 1, [] => []
  | fuel + 1, pivot :: rest =>
    qsortFuel cmp key fuel (rest.filter (fun it => (cmp (key it) (key pivot)).isLT)) ++
      pivot :: qsortFuel cmp key fuel (rest.filter (fun it => !(cmp (key it) (key pivot)).isLT))

/-- the fuel the evaluator passes: the length -/
def qsortPure (cmp : κ → κ → Ordering) (key : α → κ) (xs : List α) : List α :=
  qsortFuel cmp key xs.length xs

theorem qsortFuel_nil (cmp : κ → κ → Ordering) (key : α → κ) (fuel : Nat) :
    qsortFuel cmp key fuel [] = [] := by
  cases fuel <;> rfl

theorem qsortFuel_single (cmp : κ → κ → Ordering) (key : α → κ) (fuel : Nat) (x : α) :
    qsortFuel cmp key fuel [x] = [x] := by
  cases fuel with
  | zero => rfl
  | succ f => simp [qsortFuel, qsortFuel_nil]

theorem qsortFuel_short (cmp : κ → κ → Ordering) (key : α → κ) (fuel : Nat) {l : List α}
    (hl : l.length ≤ 1) : qsortFuel cmp key fuel l = l := by
  match l, hl with
  | [], _ => exact qsortFuel_nil ..
  | [x], _ => exact qsortFuel_single ..

/-- `quick` of the sorting model (behind the guard `len > 1` of its callers) is `qsortFuel`:
    same pivot, same two filters, same order of the parts, same fuel. -/
theorem quick_eq_qsortFuel (O : KeyOrd κ) (key : α → κ) : ∀ (fuel : Nat) (l : List α),
    l.length ≤ fuel + 1 →
    (if l.length > 1 then quick O key fuel l else .ok l) = .ok (qsortFuel O.cmp key fuel l) := by
  intro fuel
  induction fuel with
  | zero =>
    intro l hl
    rw [if_neg (by omega)]; rfl
  | succ fuel ih =>
    intro l hl
    match l, hl with
    | [], _ => rfl
    | [x], _ => rw [if_neg (by simp), qsortFuel_single]
    | pivot :: y :: rest', hl =>
      rw [if_pos (by simp)]
      simp only [quick, qsortFuel]
      generalize y :: rest' = rest at hl ⊢
      have hrl : rest.length ≤ fuel + 1 := by simp only [List.length_cons] at hl; omega
      have e1 := ih (rest.filter (fun item => ltB O key item pivot))
        (Nat.le_trans (List.length_filter_le ..) hrl)
      have e2 := ih (rest.filter (fun item => !ltB O key item pivot))
        (Nat.le_trans (List.length_filter_le ..) hrl)
      rw [e1, e2]
      rfl

/-- `sortSlice` on a slice not longer than the threshold -/
theorem sortSlice_eq_qsortFuel (O : KeyOrd κ) (key : α → κ) {thr : Nat} (fuel : Nat) (l : List α)
    (hl : l.length ≤ thr) :
    sortSlice O key thr (fuel + 1) l = .ok (qsortFuel O.cmp key l.length l) := by
  simp only [sortSlice]
  rw [if_neg (by omega)]
  exact quick_eq_qsortFuel O key l.length l (by omega)

/-- **the identification**: `sort` of the sorting model, on an array not longer than the merge
    threshold (30 in the code; the evaluator model covers exactly these), is `qsortPure`. -/
theorem sort_eq_qsortPure (O : KeyOrd κ) (key : α → κ) {thr : Nat} (l : List α) (hl : l.length ≤ thr) :
    sort O key thr l = .ok (qsortPure O.cmp key l) := by
  unfold sort qsortPure
  by_cases h1 : l.length ≤ 1
  · rw [if_pos h1, qsortFuel_short _ _ _ h1]
  · rw [if_neg h1]
    exact sortSlice_eq_qsortFuel O key l.length l hl

/-- any sufficient fuel gives the same list -/
theorem qsortFuel_fuel (cmp : κ → κ → Ordering) (key : α → κ) : ∀ (f f' : Nat) (l : List α),
    l.length ≤ f + 1 → l.length ≤ f' + 1 → qsortFuel cmp key f l = qsortFuel cmp key f' l := by
  intro f
  induction f with
  | zero =>
    intro f' l h1 _
    rw [qsortFuel_short _ _ _ (by omega), qsortFuel_short _ _ _ (by omega)]
  | succ f ih =>
    intro f' l h1 h2
    cases f' with
    | zero => rw [qsortFuel_short _ _ _ (by omega), qsortFuel_short _ _ _ (by omega)]
    | succ f' =>
      match l, h1, h2 with
      | [], _, _ => rfl
      | pivot :: rest, h1, h2 =>
        simp only [List.length_cons] at h1 h2
        simp only [qsortFuel]
        rw [ih f' _ (Nat.le_trans (List.length_filter_le ..) (by omega))
              (Nat.le_trans (List.length_filter_le ..) (by omega)),
            ih f' _ (Nat.le_trans (List.length_filter_le ..) (by omega))
              (Nat.le_trans (List.length_filter_le ..) (by omega))]

theorem qsortFuel_eq_pure (cmp : κ → κ → Ordering) (key : α → κ) (fuel : Nat) (l : List α)
    (hl : l.length ≤ fuel + 1) : qsortFuel cmp key fuel l = qsortPure cmp key l :=
  qsortFuel_fuel cmp key fuel l.length l hl (by omega)

/-- only the comparisons between keys of elements of the list matter -/
theorem qsortFuel_congr {cmp cmp' : κ → κ → Ordering} (key : α → κ) : ∀ (fuel : Nat) (l : List α),
    (∀ x ∈ l, ∀ y ∈ l, cmp (key x) (key y) = cmp' (key x) (key y)) →
    qsortFuel cmp key fuel l = qsortFuel cmp' key fuel l := by
  intro fuel
  induction fuel with
  | zero => intro l _; rfl
  | succ fuel ih =>
    intro l h
    match l, h with
    | [], _ => rfl
    | pivot :: rest, h =>
      simp only [qsortFuel]
      have hf : ∀ it ∈ rest, (cmp (key it) (key pivot)).isLT = (cmp' (key it) (key pivot)).isLT := by
        intro it hit
        rw [h it (List.mem_cons_of_mem _ hit) pivot List.mem_cons_self]
      have e1 : rest.filter (fun it => (cmp (key it) (key pivot)).isLT) =
          rest.filter (fun it => (cmp' (key it) (key pivot)).isLT) :=
        List.filter_congr hf
      have e2 : rest.filter (fun it => !(cmp (key it) (key pivot)).isLT) =
          rest.filter (fun it => !(cmp' (key it) (key pivot)).isLT) :=
        List.filter_congr (fun it hit => by rw [hf it hit])
      rw [e1, e2]
      have hsub : ∀ (p : α → Bool), ∀ x ∈ rest.filter p, ∀ y ∈ rest.filter p,
          cmp (key x) (key y) = cmp' (key x) (key y) := fun p x hx y hy =>
        h x (List.mem_cons_of_mem _ (List.mem_filter.mp hx).1)
          y (List.mem_cons_of_mem _ (List.mem_filter.mp hy).1)
      rw [ih _ (hsub _), ih _ (hsub _)]

/-! ### a comparison that is lawful on the keys that occur -/

/-- The laws of RsjProofs/Sort.lean (`Lawful`), relative to a set `G` of keys. -/
structure LawfulOn (G : κ → Prop) (cmp : κ → κ → Ordering) : Prop where
  swap : ∀ a b, G a → G b → cmp b a = (cmp a b).swap
  le_trans : ∀ a b c, G a → G b → G c → cmp a b ≠ .gt → cmp b c ≠ .gt → cmp a c ≠ .gt

open Classical in
/-- `cmp` on `G`; every key outside `G` is above all of `G` and equivalent to every other one. -/
noncomputable def totalize (G : κ → Prop) (cmp : κ → κ → Ordering) (a b : κ) : Ordering :=
  if G a then (if G b then cmp a b else .lt) else (if G b then .gt else .eq)

theorem totalize_on {G : κ → Prop} {cmp : κ → κ → Ordering} {a b : κ} (ha : G a) (hb : G b) :
    totalize G cmp a b = cmp a b := by
  unfold totalize
  rw [if_pos ha, if_pos hb]

/-- the key order of the sorting model for a comparison: `EqualsValue` is `CompareValue = 0` -/
def ordOf (cmp : κ → κ → Ordering) : KeyOrd κ := { cmp := cmp, eqv := fun a b => cmp a b == .eq }

theorem totalize_lawful {G : κ → Prop} {cmp : κ → κ → Ordering} (h : LawfulOn G cmp) :
    Lawful (ordOf (totalize G cmp)) where
  swap a b := by
    show totalize G cmp b a = (totalize G cmp a b).swap
    unfold totalize
    by_cases ha : G a <;> by_cases hb : G b <;> simp only [ha, hb, if_true, if_false]
    · exact h.swap a b ha hb
    · rfl
    · rfl
    · rfl
  le_trans a b c := by
    show totalize G cmp a b ≠ .gt → totalize G cmp b c ≠ .gt → totalize G cmp a c ≠ .gt
    unfold totalize
    by_cases ha : G a <;> by_cases hb : G b <;> by_cases hc : G c <;>
      simp only [ha, hb, hc, if_true, if_false]
    · exact h.le_trans a b c ha hb hc
    all_goals simp
  eqv_iff a b := by
    show (totalize G cmp a b == .eq) = true ↔ totalize G cmp a b = .eq
    exact beq_iff_eq

/-! ### the C17 laws of `qsortPure` -/

section laws
variable {G : κ → Prop} {cmp : κ → κ → Ordering} {key : α → κ} {pos : α → Nat}

/-- permutation: no law needed -/
theorem qsortPure_perm (cmp : κ → κ → Ordering) (key : α → κ) (l : List α) :
    (qsortPure cmp key l).Perm l :=
  sort_perm' (O := ordOf cmp) (key := key) (thr := l.length) (sort_eq_qsortPure (ordOf cmp) key l (Nat.le_refl _))

theorem before_totalize_iff {x y : α} (hx : G (key x)) (hy : G (key y)) :
    Before (ordOf (totalize G cmp)) key pos x y ↔ Before (ordOf cmp) key pos x y := by
  unfold Before
  show (totalize G cmp (key x) (key y) = .lt ∨ (totalize G cmp (key x) (key y) = .eq ∧ _)) ↔
    (cmp (key x) (key y) = .lt ∨ (cmp (key x) (key y) = .eq ∧ _))
  rw [totalize_on hx hy]

theorem qsortPure_totalize (l : List α) (hg : ∀ x ∈ l, G (key x)) :
    qsortPure (totalize G cmp) key l = qsortPure cmp key l :=
  qsortFuel_congr key _ l (fun x hx y hy => totalize_on (hg x hx) (hg y hy))

/-- **stable**: ordered by key, equal keys in input (position) order -/
theorem qsortPure_stable (h : LawfulOn G cmp) (l : List α) (hg : ∀ x ∈ l, G (key x))
    (hp : PosSorted pos l) : (qsortPure cmp key l).Pairwise (Before (ordOf cmp) key pos) := by
  obtain ⟨r, e, p, s⟩ := sort_spec (O := ordOf (totalize G cmp)) (key := key) (pos := pos)
    (totalize_lawful h) (thr := l.length + 1) (by omega) l hp
  rw [sort_eq_qsortPure _ key l (by omega)] at e
  cases e
  change (qsortPure (totalize G cmp) key l).Pairwise _ at s
  change (qsortPure (totalize G cmp) key l).Perm _ at p
  rw [qsortPure_totalize l hg] at s p
  refine List.Pairwise.imp_of_mem ?_ s
  intro x y hx hy hb
  exact (before_totalize_iff (hg x (p.subset hx)) (hg y (p.subset hy))).mp hb

/-- **sorted**: keys are non-decreasing -/
theorem qsortPure_sorted (h : LawfulOn G cmp) (l : List α) (hg : ∀ x ∈ l, G (key x))
    (hp : PosSorted pos l) : (qsortPure cmp key l).Pairwise (fun x y => cmp (key x) (key y) ≠ .gt) :=
  before_pairwise_sorted (qsortPure_stable h l hg hp)

/-- **unique**: a permutation of the input that is ordered and stable is the result -/
theorem qsortPure_unique (h : LawfulOn G cmp) (l : List α) (hg : ∀ x ∈ l, G (key x))
    (hp : PosSorted pos l) (r : List α) (hr : r.Perm l)
    (hs : r.Pairwise (Before (ordOf cmp) key pos)) : qsortPure cmp key l = r := by
  have s1 := qsortPure_stable h l hg hp
  have toT : ∀ {r' : List α}, r'.Perm l → r'.Pairwise (Before (ordOf cmp) key pos) →
      r'.Pairwise (Before (ordOf (totalize G cmp)) key pos) := by
    intro r' p s
    refine List.Pairwise.imp_of_mem ?_ s
    intro x y hx hy hb
    exact (before_totalize_iff (hg x (p.subset hx)) (hg y (p.subset hy))).mpr hb
  exact before_unique (totalize_lawful h) (toT (qsortPure_perm cmp key l) s1) (toT hr hs)
    ((qsortPure_perm cmp key l).trans hr.symm)

end laws

/-! ### the `uniq` pass -/

/-- the `uniq` pass of `std_sortSet` from a state with the previous key `prev` -/
def uniqFrom (eqv : κ → κ → Bool) (key : α → κ) : Option κ → List α → List α
  | _, [] => []
  | none, x :: rest => x :: uniqFrom eqv key (some (key x)) rest
  | some pk, x :: rest =>
    if eqv pk (key x) then uniqFrom eqv key (some (key x)) rest
    else x :: uniqFrom eqv key (some (key x)) rest

theorem uniqFrom_some (O : KeyOrd κ) (key : α → κ) : ∀ (l : List α) (pk : κ),
    uniqFrom O.eqv key (some pk) l = uniqLoop O key pk l := by
  intro l
  induction l with
  | nil => intro pk; rfl
  | cons x rest ih =>
    intro pk
    simp only [uniqFrom, uniqLoop, ih]

/-- started without a previous key, the pass is `std.uniq` of the sorting model -/
theorem uniqFrom_none (O : KeyOrd κ) (key : α → κ) (l : List α) :
    uniqFrom O.eqv key none l = uniq O key l := by
  match l with
  | [] => rfl
  | [x] => rfl
  | x :: y :: rest =>
    show x :: uniqFrom O.eqv key (some (key x)) (y :: rest) = x :: uniqLoop O key (key x) (y :: rest)
    rw [uniqFrom_some]

end Rsj.Eval.SortRef
