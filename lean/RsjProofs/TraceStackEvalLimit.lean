/-
  Helper lemmas for C10 (optional part, `RsjProps/C10Eval.lean`): the evaluator model of
  RsjModel/Eval.lean under two frame limits `s ≤ s'`.  `Rel x y`: the computation `x` (run under
  the smaller limit) behaves exactly like `y` (same result, same error, same store, same fuel
  exhaustion) unless `x` reports a stack overflow.  `Rel` is compatible with `bind`, `forIn` over
  lists, `if` and `match`; the frame limit only occurs in `checkDepth`, for which `Rel` holds when
  `s ≤ s'`.  The tactic `rel_all` walks through a definition along these lines (the relational
  analogue of the `monotonicity` tactic used in RsjProofs/EvalMono.lean).
-/
import RsjModel.Eval
namespace Rsj.Eval
open Rsj.Core

/-- `>>=` of the evaluation monad, applied to a store. -/
theorem M_bind_apply {α β} (x : M α) (f : α → M β) (st : St) :
    (x >>= f) st = match x st with
      | none => none
      | some (.ok a, st') => f a st'
      | some (.error e, st') => some (.error e, st') := by
  show (ExceptT.bind x f) st = _
  unfold ExceptT.bind ExceptT.mk ExceptT.bindCont
  show (StateT.bind _ _) st = _
  unfold StateT.bind
  show (Option.bind _ _) = _
  cases h : x st with
  | none => simp
  | some p =>
    obtain ⟨r, st'⟩ := p
    cases r with
    | ok a => rfl
    | error e => rfl

/-- `x` behaves like `y`, unless `x` reports a stack overflow. -/
structure Rel {α : Type} (x y : M α) : Prop where
  h : ∀ st, x st = y st ∨ ∃ st', x st = some (.error .stackOverflow, st')

theorem Rel.refl {α} (x : M α) : Rel x x := ⟨fun _ => Or.inl rfl⟩

theorem Rel.bind {α β} {x y : M α} {f g : α → M β} (hx : Rel x y) (hf : ∀ a, Rel (f a) (g a)) :
    Rel (x >>= f) (y >>= g) := by
  constructor
  intro st
  rw [M_bind_apply, M_bind_apply]
  rcases hx.h st with h | ⟨st', h⟩
  · rw [← h]
    cases hxs : x st with
    | none => left; rfl
    | some p =>
      obtain ⟨r, st'⟩ := p
      cases r with
      | ok a => exact (hf a).h st'
      | error e => left; rfl
  · rw [h]; right; exact ⟨st', rfl⟩

theorem Rel.checkDepth {s s' : Nat} (h : s ≤ s') (d : Nat) :
    Rel (checkDepth { maxStack := s } d) (checkDepth { maxStack := s' } d) := by
  constructor
  intro st
  unfold Rsj.Eval.checkDepth
  by_cases h1 : d > s
  · right; simp only [h1, if_true]; exact ⟨st, rfl⟩
  · have : ¬ d > s' := by omega
    left; simp only [h1, this, if_false]

theorem Rel.forIn_list {α β : Type} (l : List α) (init : β) {f g : α → β → M (ForInStep β)}
    (h : ∀ a b, Rel (f a b) (g a b)) : Rel (forIn l init f) (forIn l init g) := by
  induction l generalizing init with
  | nil => exact Rel.refl _
  | cons a r ih =>
    simp only [List.forIn_cons]
    apply Rel.bind (h a init)
    intro x
    cases x with
    | done b => exact Rel.refl _
    | yield b => exact ih b

syntax "rel_all" ident ident : tactic
macro_rules
| `(tactic| rel_all $hle $hrec) => `(tactic|
   repeat' (first
     | (with_reducible exact Rel.refl _)
     | exact $hrec _
     | exact Rel.checkDepth $hle _
     | apply Rel.bind
     | apply Rel.forIn_list
     | intro _
     | split
     | dsimp only))

section
variable {s s' : Nat} (hle : s ≤ s') {r r' : Task → M Value} (hrec : ∀ t, Rel (r t) (r' t))
include hle hrec

omit hle in
theorem Rel.recStr (t : Task) : Rel (recStr r t) (recStr r' t) := by
  unfold Rsj.Eval.recStr
  rel_all hle hrec

omit hle in
theorem Rel.objectMember (env : EId) (d : Nat) (layer : Layer) (m : Members) :
    Rel (objectMember r env d layer m) (objectMember r' env d layer m) := by
  unfold Rsj.Eval.objectMember
  rel_all hle hrec

omit hle in
theorem Rel.sliceArg (env : EId) (d : Nat) (x : OptExpr) :
    Rel (sliceArg r env d x) (sliceArg r' env d x) := by
  unfold Rsj.Eval.sliceArg
  rel_all hle hrec

omit hle in
theorem Rel.std_length (t : TId) (d1 : Nat) : Rel (std_length r t d1) (std_length r' t d1) := by
  unfold Rsj.Eval.std_length
  rel_all hle hrec

omit hle in
theorem Rel.std_type (t : TId) (d1 : Nat) : Rel (std_type r t d1) (std_type r' t d1) := by
  unfold Rsj.Eval.std_type
  rel_all hle hrec

omit hle in
theorem Rel.std_trace (t0 t1 : TId) (d1 : Nat) : Rel (std_trace r t0 t1 d1) (std_trace r' t0 t1 d1) := by
  unfold Rsj.Eval.std_trace
  rel_all hle hrec

omit hle in
theorem Rel.std_objectHasEx (t0 t1 t2 : TId) (d1 : Nat) : Rel (std_objectHasEx r t0 t1 t2 d1) (std_objectHasEx r' t0 t1 t2 d1) := by
  unfold Rsj.Eval.std_objectHasEx
  rel_all hle hrec

omit hle in
theorem Rel.std_objectFieldsEx (t0 t1 : TId) (d1 : Nat) : Rel (std_objectFieldsEx r t0 t1 d1) (std_objectFieldsEx r' t0 t1 d1) := by
  unfold Rsj.Eval.std_objectFieldsEx
  rel_all hle hrec

omit hle in
theorem Rel.std_map (t0 t1 : TId) (d1 : Nat) : Rel (std_map r t0 t1 d1) (std_map r' t0 t1 d1) := by
  unfold Rsj.Eval.std_map
  rel_all hle hrec

omit hle in
theorem Rel.std_makeArray (t0 t1 : TId) (d1 : Nat) : Rel (std_makeArray r t0 t1 d1) (std_makeArray r' t0 t1 d1) := by
  unfold Rsj.Eval.std_makeArray
  rel_all hle hrec

omit hle in
theorem Rel.builtinCall (b : Builtin) (ts : List TId) (d1 : Nat) : Rel (builtinCall r b ts d1) (builtinCall r' b ts d1) := by
  unfold Rsj.Eval.builtinCall
  rel_all hle hrec
  all_goals first
    | exact Rel.std_length hrec _ _
    | exact Rel.std_type hrec _ _
    | exact Rel.std_trace hrec _ _ _
    | exact Rel.std_objectHasEx hrec _ _ _ _
    | exact Rel.std_objectFieldsEx hrec _ _ _
    | exact Rel.std_map hrec _ _ _
    | exact Rel.std_makeArray hrec _ _ _

theorem Rel.wantThunk (t : TId) (d : Nat) :
    Rel (wantThunk { maxStack := s } r t d) (wantThunk { maxStack := s' } r' t d) := by
  unfold Rsj.Eval.wantThunk
  rel_all hle hrec

theorem Rel.wantField (o : OId) (n : String) (d : Nat) :
    Rel (wantField { maxStack := s } r o n d) (wantField { maxStack := s' } r' o n d) := by
  unfold Rsj.Eval.wantField
  rel_all hle hrec
  all_goals exact Rel.wantThunk hle hrec _ _

omit hle in
theorem Rel.evalSpecs (specs : List (Option String × Expr)) (env : EId) (d : Nat) :
    Rel (evalSpecs r specs env d) (evalSpecs r' specs env d) := by
  unfold Rsj.Eval.evalSpecs
  rel_all hle hrec

theorem Rel.wantSuperField (e : EId) (n : String) (d : Nat) :
    Rel (wantSuperField { maxStack := s } r e n d) (wantSuperField { maxStack := s' } r' e n d) := by
  unfold Rsj.Eval.wantSuperField
  rel_all hle hrec
  all_goals exact Rel.wantThunk hle hrec _ _

omit hle in
theorem Rel.coerceToString (v : Value) (d : Nat) :
    Rel (coerceToString r v d) (coerceToString r' v d) := by
  unfold Rsj.Eval.coerceToString
  rel_all hle hrec
  all_goals exact Rel.recStr hrec _

theorem Rel.binaryOp (op : BinOp) (l rr : Value) (d : Nat) (hs : Bool) :
    Rel (binaryOp { maxStack := s } r op l rr d hs) (binaryOp { maxStack := s' } r' op l rr d hs) := by
  unfold Rsj.Eval.binaryOp
  rel_all hle hrec
  all_goals exact Rel.coerceToString hrec _ _

theorem Rel.compareLists (d : Nat) (xs ys : List TId) :
    Rel (compareLists { maxStack := s } r d xs ys) (compareLists { maxStack := s' } r' d xs ys) := by
  induction xs generalizing ys with
  | nil => cases ys <;> (unfold Rsj.Eval.compareLists; exact Rel.refl _)
  | cons x xs ih =>
    cases ys with
    | nil => unfold Rsj.Eval.compareLists; exact Rel.refl _
    | cons y ys =>
      unfold Rsj.Eval.compareLists
      rel_all hle hrec
      all_goals exact ih _

theorem Rel.std_filter (t0 t1 : TId) (d1 : Nat) :
    Rel (std_filter { maxStack := s } r t0 t1 d1) (std_filter { maxStack := s' } r' t0 t1 d1) := by
  unfold Rsj.Eval.std_filter
  rel_all hle hrec

theorem Rel.std_foldl (t0 t1 t2 : TId) (d1 : Nat) :
    Rel (std_foldl { maxStack := s } r t0 t1 t2 d1) (std_foldl { maxStack := s' } r' t0 t1 t2 d1) := by
  unfold Rsj.Eval.std_foldl
  rel_all hle hrec

theorem Rel.std_foldr (t0 t1 t2 : TId) (d1 : Nat) :
    Rel (std_foldr { maxStack := s } r t0 t1 t2 d1) (std_foldr { maxStack := s' } r' t0 t1 t2 d1) := by
  unfold Rsj.Eval.std_foldr
  rel_all hle hrec

theorem Rel.std_flatMap (t0 t1 : TId) (d1 : Nat) :
    Rel (std_flatMap { maxStack := s } r t0 t1 d1) (std_flatMap { maxStack := s' } r' t0 t1 d1) := by
  unfold Rsj.Eval.std_flatMap
  rel_all hle hrec

omit hle in
theorem Rel.std_mapWithIndex (t0 t1 : TId) (d1 : Nat) : Rel (std_mapWithIndex r t0 t1 d1) (std_mapWithIndex r' t0 t1 d1) := by
  unfold Rsj.Eval.std_mapWithIndex
  rel_all hle hrec
  all_goals first
    | exact Rel.recStr hrec _
    | exact Rel.coerceToString hrec _ _

omit hle in
theorem Rel.std_mapWithKey (t0 t1 : TId) (d1 : Nat) : Rel (std_mapWithKey r t0 t1 d1) (std_mapWithKey r' t0 t1 d1) := by
  unfold Rsj.Eval.std_mapWithKey
  rel_all hle hrec
  all_goals first
    | exact Rel.recStr hrec _
    | exact Rel.coerceToString hrec _ _

theorem Rel.std_filterMap (t0 t1 t2 : TId) (d1 : Nat) :
    Rel (std_filterMap { maxStack := s } r t0 t1 t2 d1) (std_filterMap { maxStack := s' } r' t0 t1 t2 d1) := by
  unfold Rsj.Eval.std_filterMap
  rel_all hle hrec

omit hle in
theorem Rel.std_join (t0 t1 : TId) (d1 : Nat) : Rel (std_join r t0 t1 d1) (std_join r' t0 t1 d1) := by
  unfold Rsj.Eval.std_join
  rel_all hle hrec
  all_goals first
    | exact Rel.recStr hrec _
    | exact Rel.coerceToString hrec _ _

omit hle in
theorem Rel.std_range (t0 t1 : TId) (d1 : Nat) : Rel (std_range r t0 t1 d1) (std_range r' t0 t1 d1) := by
  unfold Rsj.Eval.std_range
  rel_all hle hrec
  all_goals first
    | exact Rel.recStr hrec _
    | exact Rel.coerceToString hrec _ _

omit hle in
theorem Rel.std_member (t0 t1 : TId) (d1 : Nat) : Rel (std_member r t0 t1 d1) (std_member r' t0 t1 d1) := by
  unfold Rsj.Eval.std_member
  rel_all hle hrec
  all_goals first
    | exact Rel.recStr hrec _
    | exact Rel.coerceToString hrec _ _

omit hle in
theorem Rel.std_count (t0 t1 : TId) (d1 : Nat) : Rel (std_count r t0 t1 d1) (std_count r' t0 t1 d1) := by
  unfold Rsj.Eval.std_count
  rel_all hle hrec
  all_goals first
    | exact Rel.recStr hrec _
    | exact Rel.coerceToString hrec _ _

omit hle in
theorem Rel.std_all (t : TId) (d1 : Nat) : Rel (std_all r t d1) (std_all r' t d1) := by
  unfold Rsj.Eval.std_all
  rel_all hle hrec
  all_goals first
    | exact Rel.recStr hrec _
    | exact Rel.coerceToString hrec _ _

omit hle in
theorem Rel.std_any (t : TId) (d1 : Nat) : Rel (std_any r t d1) (std_any r' t d1) := by
  unfold Rsj.Eval.std_any
  rel_all hle hrec
  all_goals first
    | exact Rel.recStr hrec _
    | exact Rel.coerceToString hrec _ _

omit hle in
theorem Rel.std_equals (t0 t1 : TId) (d1 : Nat) : Rel (std_equals r t0 t1 d1) (std_equals r' t0 t1 d1) := by
  unfold Rsj.Eval.std_equals
  rel_all hle hrec
  all_goals first
    | exact Rel.recStr hrec _
    | exact Rel.coerceToString hrec _ _

omit hle in
theorem Rel.std_compare (t0 t1 : TId) (d1 : Nat) : Rel (std_compare r t0 t1 d1) (std_compare r' t0 t1 d1) := by
  unfold Rsj.Eval.std_compare
  rel_all hle hrec
  all_goals first
    | exact Rel.recStr hrec _
    | exact Rel.coerceToString hrec _ _

omit hle in
theorem Rel.std_primitiveEquals (t0 t1 : TId) (d1 : Nat) : Rel (std_primitiveEquals r t0 t1 d1) (std_primitiveEquals r' t0 t1 d1) := by
  unfold Rsj.Eval.std_primitiveEquals
  rel_all hle hrec
  all_goals first
    | exact Rel.recStr hrec _
    | exact Rel.coerceToString hrec _ _

omit hle in
theorem Rel.std_assertEqual (t0 t1 : TId) (d1 : Nat) : Rel (std_assertEqual r t0 t1 d1) (std_assertEqual r' t0 t1 d1) := by
  unfold Rsj.Eval.std_assertEqual
  rel_all hle hrec
  all_goals first
    | exact Rel.recStr hrec _
    | exact Rel.coerceToString hrec _ _

omit hle in
theorem Rel.std_toString (t : TId) (d1 : Nat) : Rel (std_toString r t d1) (std_toString r' t d1) := by
  unfold Rsj.Eval.std_toString
  rel_all hle hrec
  all_goals first
    | exact Rel.recStr hrec _
    | exact Rel.coerceToString hrec _ _

theorem Rel.std_sortKeys (kf : Option FId) (items : List TId) (d1 : Nat) :
    Rel (std_sortKeys { maxStack := s } r kf items d1) (std_sortKeys { maxStack := s' } r' kf items d1) := by
  unfold Rsj.Eval.std_sortKeys
  rel_all hle hrec

omit hle in
theorem Rel.std_qsort (keys : List Value) (d1 : Nat) (fuel : Nat) (xs : List Nat) :
    Rel (std_qsort r keys d1 fuel xs) (std_qsort r' keys d1 fuel xs) := by
  induction fuel generalizing xs with
  | zero => unfold Rsj.Eval.std_qsort; exact Rel.refl _
  | succ k ih =>
    cases xs with
    | nil => unfold Rsj.Eval.std_qsort; exact Rel.refl _
    | cons p rest =>
      cases rest with
      | nil => unfold Rsj.Eval.std_qsort; exact Rel.refl _
      | cons q rest =>
        unfold Rsj.Eval.std_qsort
        generalize (q :: rest) = tl
        rel_all hle hrec
        all_goals exact ih _

theorem Rel.std_sortSet (u : Bool) (t0 : TId) (t1 : Option TId) (d1 : Nat) :
    Rel (std_sortSet { maxStack := s } r u t0 t1 d1) (std_sortSet { maxStack := s' } r' u t0 t1 d1) := by
  unfold Rsj.Eval.std_sortSet
  rel_all hle hrec
  all_goals first
    | exact Rel.std_sortKeys hle hrec _ _ _
    | exact Rel.std_qsort hrec _ _ _ _

theorem Rel.builtinCall2 (b : Builtin) (ts : List TId) (d1 : Nat) :
    Rel (builtinCall2 { maxStack := s } r b ts d1) (builtinCall2 { maxStack := s' } r' b ts d1) := by
  unfold Rsj.Eval.builtinCall2
  rel_all hle hrec
  all_goals first
    | exact Rel.builtinCall hrec _ _ _
    | exact Rel.std_sortSet hle hrec _ _ _ _
    | exact Rel.std_sortKeys hle hrec _ _ _
    | exact Rel.std_qsort hrec _ _ _ _
    | exact Rel.std_filter hle hrec _ _ _
    | exact Rel.std_foldl hle hrec _ _ _ _
    | exact Rel.std_foldr hle hrec _ _ _ _
    | exact Rel.std_flatMap hle hrec _ _ _
    | exact Rel.std_mapWithIndex hrec _ _ _
    | exact Rel.std_mapWithKey hrec _ _ _
    | exact Rel.std_filterMap hle hrec _ _ _ _
    | exact Rel.std_join hrec _ _ _
    | exact Rel.std_range hrec _ _ _
    | exact Rel.std_member hrec _ _ _
    | exact Rel.std_count hrec _ _ _
    | exact Rel.std_all hrec _ _
    | exact Rel.std_any hrec _ _
    | exact Rel.std_equals hrec _ _ _
    | exact Rel.std_compare hrec _ _ _
    | exact Rel.std_primitiveEquals hrec _ _ _
    | exact Rel.std_assertEqual hrec _ _ _
    | exact Rel.std_toString hrec _ _
    | exact Rel.recStr hrec _
    | exact Rel.coerceToString hrec _ _

omit hle in
theorem Rel.forceAll (ts : List TId) (d1 : Nat) : Rel (forceAll r ts d1) (forceAll r' ts d1) := by
  unfold Rsj.Eval.forceAll
  rel_all hle hrec

omit hle in
theorem Rel.coerceAll (vals : List Value) (d1 : Nat) : Rel (coerceAll r vals d1) (coerceAll r' vals d1) := by
  unfold Rsj.Eval.coerceAll
  rel_all hle hrec
  all_goals exact Rel.coerceToString hrec _ _

omit hle in
theorem Rel.forceBytes (items : List TId) (item : PArg → Except PErr Nat) (d1 : Nat) :
    Rel (forceBytes r items item d1) (forceBytes r' items item d1) := by
  unfold Rsj.Eval.forceBytes
  rel_all hle hrec

omit hle in
theorem Rel.fmtForceOpt (t : Option TId) (d : Nat) : Rel (fmtForceOpt r t d) (fmtForceOpt r' t d) := by
  unfold Rsj.Eval.fmtForceOpt
  rel_all hle hrec

omit hle in
theorem Rel.fmtItem (c : Format.Code) (v : Value) (d : Nat) : Rel (fmtItem r c v d) (fmtItem r' c v d) := by
  unfold Rsj.Eval.fmtItem
  rel_all hle hrec
  all_goals first
    | exact Rel.coerceToString hrec _ _
    | exact Rel.recStr hrec _

omit hle in
theorem Rel.fmtArrayCode (c : Format.Code) (items : List TId) (i d : Nat) :
    Rel (fmtArrayCode r c items i d) (fmtArrayCode r' c items i d) := by
  unfold Rsj.Eval.fmtArrayCode
  rel_all hle hrec
  all_goals first
    | exact Rel.fmtForceOpt hrec _ _
    | exact Rel.fmtItem hrec _ _ _
    | exact Rel.coerceToString hrec _ _
    | exact Rel.recStr hrec _

omit hle in
theorem Rel.fmtArrayPart (p : Format.Part) (items : List TId) (i : Nat) (out : List Char) (d : Nat) :
    Rel (fmtArrayPart r p items i out d) (fmtArrayPart r' p items i out d) := by
  unfold Rsj.Eval.fmtArrayPart
  rel_all hle hrec
  all_goals first
    | exact Rel.fmtArrayCode hrec _ _ _ _
    | exact Rel.fmtForceOpt hrec _ _
    | exact Rel.fmtItem hrec _ _ _
    | exact Rel.coerceToString hrec _ _
    | exact Rel.recStr hrec _

omit hle in
theorem Rel.fmtArray (parts : List Format.Part) (items : List TId) (d : Nat) :
    Rel (fmtArray r parts items d) (fmtArray r' parts items d) := by
  unfold Rsj.Eval.fmtArray
  rel_all hle hrec
  all_goals first
    | exact Rel.fmtArrayPart hrec _ _ _ _ _
    | exact Rel.fmtArrayCode hrec _ _ _ _
    | exact Rel.fmtForceOpt hrec _ _
    | exact Rel.fmtItem hrec _ _ _
    | exact Rel.coerceToString hrec _ _
    | exact Rel.recStr hrec _

omit hle in
theorem Rel.fmtObjectCode (c : Format.Code) (o : OId) (d : Nat) :
    Rel (fmtObjectCode r c o d) (fmtObjectCode r' c o d) := by
  unfold Rsj.Eval.fmtObjectCode
  rel_all hle hrec
  all_goals first
    | exact Rel.fmtItem hrec _ _ _
    | exact Rel.coerceToString hrec _ _
    | exact Rel.recStr hrec _

omit hle in
theorem Rel.fmtObjectPart (p : Format.Part) (o : OId) (out : List Char) (d : Nat) :
    Rel (fmtObjectPart r p o out d) (fmtObjectPart r' p o out d) := by
  unfold Rsj.Eval.fmtObjectPart
  rel_all hle hrec
  all_goals first
    | exact Rel.fmtObjectCode hrec _ _ _
    | exact Rel.fmtItem hrec _ _ _
    | exact Rel.coerceToString hrec _ _
    | exact Rel.recStr hrec _

omit hle in
theorem Rel.fmtObject (parts : List Format.Part) (o : OId) (d : Nat) :
    Rel (fmtObject r parts o d) (fmtObject r' parts o d) := by
  unfold Rsj.Eval.fmtObject
  rel_all hle hrec
  all_goals first
    | exact Rel.fmtObjectPart hrec _ _ _ _
    | exact Rel.fmtObjectCode hrec _ _ _
    | exact Rel.fmtItem hrec _ _ _
    | exact Rel.coerceToString hrec _ _
    | exact Rel.recStr hrec _

omit hle in
theorem Rel.pureFinish (spec : PureSpec) (vals : List Value) (d1 : Nat) :
    Rel (pureFinish r spec vals d1) (pureFinish r' spec vals d1) := by
  unfold Rsj.Eval.pureFinish
  rel_all hle hrec
  all_goals first
    | exact Rel.forceBytes hrec _ _ _
    | exact Rel.fmtArray hrec _ _ _
    | exact Rel.fmtObject hrec _ _ _
    | exact Rel.fmtArrayPart hrec _ _ _ _ _
    | exact Rel.fmtObjectPart hrec _ _ _ _
    | exact Rel.fmtArrayCode hrec _ _ _ _
    | exact Rel.fmtObjectCode hrec _ _ _
    | exact Rel.fmtForceOpt hrec _ _
    | exact Rel.fmtItem hrec _ _ _
    | exact Rel.recStr hrec _
    | exact Rel.coerceToString hrec _ _

theorem Rel.binaryOp3 (op : BinOp) (l rr : Value) (d : Nat) (hs : Bool) :
    Rel (binaryOp3 { maxStack := s } r op l rr d hs) (binaryOp3 { maxStack := s' } r' op l rr d hs) := by
  unfold Rsj.Eval.binaryOp3
  rel_all hle hrec
  all_goals first
    | exact Rel.binaryOp hle hrec _ _ _ _ _
    | exact Rel.pureFinish hrec _ _ _
    | exact Rel.forceBytes hrec _ _ _
    | exact Rel.fmtArray hrec _ _ _
    | exact Rel.fmtObject hrec _ _ _
    | exact Rel.fmtArrayPart hrec _ _ _ _ _
    | exact Rel.fmtObjectPart hrec _ _ _ _
    | exact Rel.coerceToString hrec _ _

omit hle in
/-- the generic pure builtin does not look at the frame limit -/
theorem Rel.std_pure (spec : PureSpec) (ts : List TId) (d1 : Nat) :
    Rel (std_pure r spec ts d1) (std_pure r' spec ts d1) := by
  unfold Rsj.Eval.std_pure
  rel_all hle hrec
  all_goals first
    | exact Rel.forceAll hrec _ _
    | exact Rel.coerceAll hrec _ _
    | exact Rel.pureFinish hrec _ _ _
    | exact Rel.forceBytes hrec _ _ _
    | exact Rel.fmtArray hrec _ _ _
    | exact Rel.fmtObject hrec _ _ _
    | exact Rel.fmtArrayPart hrec _ _ _ _ _
    | exact Rel.fmtObjectPart hrec _ _ _ _
    | exact Rel.recStr hrec _
    | exact Rel.coerceToString hrec _ _

theorem Rel.builtinCall3 (b : Builtin) (ts : List TId) (d1 : Nat) :
    Rel (builtinCall3 { maxStack := s } r b ts d1) (builtinCall3 { maxStack := s' } r' b ts d1) := by
  unfold Rsj.Eval.builtinCall3
  rel_all hle hrec
  all_goals first
    | exact Rel.std_pure hrec _ _ _
    | exact Rel.builtinCall2 hle hrec _ _ _
    | exact Rel.forceAll hrec _ _
    | exact Rel.coerceAll hrec _ _
    | exact Rel.pureFinish hrec _ _ _
    | exact Rel.forceBytes hrec _ _ _
    | exact Rel.fmtArray hrec _ _ _
    | exact Rel.fmtObject hrec _ _ _
    | exact Rel.fmtArrayPart hrec _ _ _ _ _
    | exact Rel.fmtObjectPart hrec _ _ _ _
    | exact Rel.recStr hrec _
    | exact Rel.coerceToString hrec _ _

theorem Rel.thunkBody (p : Pending) (d : Nat) :
    Rel (thunkBody { maxStack := s } r p d) (thunkBody { maxStack := s' } r' p d) := by
  unfold Rsj.Eval.thunkBody
  rel_all hle hrec
  all_goals first
    | exact Rel.binaryOp hle hrec _ _ _ _ _
    | exact Rel.wantThunk hle hrec _ _

theorem Rel.step (t : Task) :
    Rel (step { maxStack := s } r t) (step { maxStack := s' } r' t) := by
  unfold Rsj.Eval.step
  rel_all hle hrec
  all_goals first
    | exact Rel.binaryOp hle hrec _ _ _ _ _
    | exact Rel.binaryOp3 hle hrec _ _ _ _ _
    | exact Rel.coerceToString hrec _ _
    | exact Rel.compareLists hle hrec _ _ _
    | exact Rel.evalSpecs hrec _ _ _
    | exact Rel.wantThunk hle hrec _ _
    | exact Rel.wantField hle hrec _ _ _
    | exact Rel.wantSuperField hle hrec _ _ _
    | exact Rel.recStr hrec _
    | exact Rel.objectMember hrec _ _ _ _
    | exact Rel.sliceArg hrec _ _ _
    | exact Rel.builtinCall3 hle hrec _ _ _
    | exact Rel.thunkBody hle hrec _ _
end

/-- The whole evaluator under limits `s ≤ s'`, same fuel. -/
theorem Rel.run {s s' : Nat} (hle : s ≤ s') (n : Nat) (t : Task) :
    Rel (run { maxStack := s } n t) (run { maxStack := s' } n t) := by
  induction n generalizing t with
  | zero => exact Rel.refl _
  | succ k ih =>
    show Rel (Rsj.Eval.stepN { maxStack := s } (Rsj.Eval.run { maxStack := s } k) t)
      (Rsj.Eval.stepN { maxStack := s' } (Rsj.Eval.run { maxStack := s' } k) t)
    unfold Rsj.Eval.stepN
    exact Rel.bind (Rel.refl _) (fun _ => Rel.step hle ih t)

/-- The monadic part of `evalProgram` (force, deep-evaluate, manifest). -/
def progOf (cfg : Cfg) (fuel : Nat) (e : Expr) : M String := do
    let stdT ← allocThunk (.done .null)
    let root ← allocEnv { parent := none, vars := [("std", stdT)], obj := none }
    let t ← allocThunk (.pending (.expr e root))
    let v ← Rsj.Eval.run cfg fuel (.force t 0)
    let _ ← Rsj.Eval.run cfg fuel (.deep v 0)
    match ← Rsj.Eval.run cfg fuel (.manifest v 0 true) with
    | .str s => pure s
    | _ => throw (.internal "manifest did not return a string")

/-- `evalProgram` is `progOf` run from the empty store, then rendered. -/
theorem evalProgram_eq (cfg : Cfg) (fuel : Nat) (e : Expr) :
    evalProgram cfg fuel e = match progOf cfg fuel e {} with
      | none => ("gas", {})
      | some (.ok s, st) => ("ok " ++ s, st)
      | some (.error er, st) => (showErr er, restoreInProgress st) := rfl

theorem Rel.progOf {s s' : Nat} (hle : s ≤ s') (fuel : Nat) (e : Expr) :
    Rel (progOf { maxStack := s } fuel e) (progOf { maxStack := s' } fuel e) := by
  unfold Rsj.Eval.progOf
  have hrec : ∀ t, Rel (Rsj.Eval.run { maxStack := s } fuel t)
      (Rsj.Eval.run { maxStack := s' } fuel t) := Rel.run hle fuel
  rel_all hle hrec

end Rsj.Eval
