import RsjProofs.ParserWF
namespace Rsj.Parser
variable {toks : List Token}

/-- partial-correctness triple: if `m` succeeds, `Q` holds of its value and final state -/
def Ok {α : Type} (m : Except (Err toks) (α × PState toks)) (Q : α → PState toks → Prop) : Prop :=
  ∀ a s, m = .ok (a, s) → Q a s

theorem Ok.pure {α : Type} {a : α} {s : PState toks} {Q : α → PState toks → Prop} (h : Q a s) :
    Ok (Pure.pure (a, s) : Except (Err toks) (α × PState toks)) Q := by
  intro a' s' h'; cases h'; exact h

theorem Ok.ok {α : Type} {a : α} {s : PState toks} {Q : α → PState toks → Prop} (h : Q a s) :
    Ok (Except.ok (a, s) : Except (Err toks) (α × PState toks)) Q := by
  intro a' s' h'; cases h'; exact h

theorem Ok.error {α : Type} {e : Err toks} {Q : α → PState toks → Prop} :
    Ok (Except.error e : Except (Err toks) (α × PState toks)) Q := by
  intro a' s' h'; cases h'

theorem Ok.bind {α β : Type} {m : Except (Err toks) (α × PState toks)}
    {f : α × PState toks → Except (Err toks) (β × PState toks)}
    {P : α → PState toks → Prop} {Q : β → PState toks → Prop}
    (hm : Ok m P) (hf : ∀ a s, P a s → Ok (f (a, s)) Q) : Ok (m >>= f) Q := by
  intro b s' h
  cases m with
  | error e => cases h
  | ok x =>
    obtain ⟨a, s⟩ := x
    exact hf a s (hm a s rfl) b s' h

theorem Ok.mono {α : Type} {m : Except (Err toks) (α × PState toks)}
    {P Q : α → PState toks → Prop} (hm : Ok m P) (h : ∀ a s, P a s → Q a s) : Ok m Q :=
  fun a s e => h a s (hm a s e)

/-- the token `sp` was consumed between `st` and `st'` -/
def Tok (st : PState toks) (sp : Span) (st' : PState toks) : Prop :=
  sp.start = st.pos ∧ sp.stop = st'.prev ∧ sp.start ≤ sp.stop ∧ IsStart toks sp.start ∧
    IsStop toks sp.stop ∧ st.prev ≤ st.pos ∧ st'.prev ≤ st'.pos ∧ st'.rem.length < st.rem.length

/-- nothing was consumed between `st` and `st'` -/
def Same (st st' : PState toks) : Prop :=
  st'.pos = st.pos ∧ st'.prev = st.prev ∧ st'.rem.length = st.rem.length

theorem same_of_eq {st st' : PState toks} (h1 : st'.cur = st.cur) (h2 : st'.rem = st.rem) : Same st st' := by
  unfold Same PState.pos PState.prev PState.pre
  rw [h1, h2]; exact ⟨rfl, rfl, rfl⟩

theorem same_pushIf (st : PState toks) (add : Bool) (e : Expected) : Same st (st.pushIf add e) := by
  unfold PState.pushIf PState.push
  split <;> exact same_of_eq rfl rfl

theorem same_push (st : PState toks) (e : Expected) : Same st (st.push e) := same_of_eq rfl rfl

section
variable (hord : Ord toks)
include hord

theorem tok_of_advance {st st' : PState toks} (h : st.advance = .ok st') : Tok st st.cur.span st' := by
  have hr := (advance_spec h).1
  refine ⟨rfl, (prev_of_rem hr).symm, st.pos_le_stop hord, ⟨st.cur, st.cur_mem, rfl⟩,
    ⟨st.cur, st.cur_mem, rfl⟩, st.prev_le_pos hord, st'.prev_le_pos hord, ?_⟩
  rw [hr]; simp

def EatPost (st : PState toks) : Option Span → PState toks → Prop
  | some sp, st' => Tok st sp st'
  | none, st' => Same st st'

theorem spec_eatSimple (k : STok) (add : Bool) (st : PState toks) :
    Ok (eatSimple k add st) (EatPost st) := by
  unfold eatSimple
  split
  · intro r s h
    cases hadv : st.advance with
    | error e => rw [hadv] at h; cases h
    | ok st1 =>
      rw [hadv] at h
      cases h
      exact tok_of_advance hord hadv
  · exact Ok.ok (same_pushIf st add _)

theorem spec_expectSimple (k : STok) (add : Bool) (st : PState toks) :
    Ok (expectSimple k add st) (fun sp st' => Tok st sp st') := by
  unfold expectSimple
  refine Ok.bind (spec_eatSimple hord k add st) ?_
  intro r s h
  cases r with
  | some sp => exact Ok.pure h
  | none => exact Ok.error

theorem spec_eatIdent (add : Bool) (st : PState toks) :
    Ok (eatIdent add st) (fun r st' => match r with
      | some i => Tok st i.span st'
      | none => Same st st') := by
  unfold eatIdent
  split
  · intro r s h
    cases hadv : st.advance with
    | error e => rw [hadv] at h; cases h
    | ok st1 =>
      rw [hadv] at h
      cases h
      exact tok_of_advance hord hadv
  · exact Ok.ok (same_pushIf st add _)

theorem spec_expectIdent (add : Bool) (st : PState toks) :
    Ok (expectIdent add st) (fun i st' => Tok st i.span st') := by
  unfold expectIdent
  refine Ok.bind (spec_eatIdent hord add st) ?_
  intro r s h
  cases r with
  | some sp => exact Ok.pure h
  | none => exact Ok.error

end

end Rsj.Parser
