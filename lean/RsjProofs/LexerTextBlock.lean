/-
  Text blocks: a well-formed `|||` / `|||-` block lexes to its body lines minus
  the whitespace prefix of the first line, each line lossily decoded;
  `|||-` drops exactly the final newline.
-/
import RsjProofs.LexerStrings
namespace Rsj.Lexer
open Rsj.Utf8

/-! ### Text blocks -/

theorem eatWhileAux_exact (p : Nat → Bool) (pre : List Nat) (x : Nat) (r : List Nat) (pos : Nat)
    (hpre : ∀ b ∈ pre, p b = true) (hx : p x = false) :
    Cur.eatWhileAux p pos (pre ++ x :: r) = ⟨pos + pre.length, x :: r⟩ := by
  induction pre generalizing pos with
  | nil => simp [Cur.eatWhileAux, hx]
  | cons a t ih =>
    have ha := hpre a (by simp)
    simp only [List.cons_append, Cur.eatWhileAux, ha, if_true, List.length_cons]
    rw [ih (pos + 1) (fun b hb => hpre b (List.mem_cons_of_mem _ hb))]
    congr 1; omega

theorem replicate_comm (j : Nat) (l : List Nat) :
    List.replicate j 10 ++ 10 :: l = 10 :: (List.replicate j 10 ++ l) := by
  induction j with
  | zero => rfl
  | succ j ih => simp [List.replicate_succ, ih]

/-- A run of fully empty lines. -/
theorem tbEmptyLines_blanks (j : Nat) (y : Nat) (r : List Nat) (pos : Nat) (str : List Nat)
    (hy : y ≠ 10 ∧ y ≠ 13) :
    tbEmptyLines pos (List.replicate j 10 ++ y :: r) str =
      (⟨pos + j, y :: r⟩, List.replicate j 10 ++ str) := by
  induction j generalizing pos str with
  | zero =>
    simp only [List.replicate_zero, List.nil_append, Nat.add_zero]
    unfold tbEmptyLines
    rw [if_neg hy.1]
    split
    · exact absurd rfl hy.2
    · rfl
  | succ j ih =>
    simp only [List.replicate_succ, List.cons_append]
    unfold tbEmptyLines
    rw [if_pos rfl, ih]
    simp only [Prod.mk.injEq, Cur.mk.injEq, and_true]
    refine ⟨by omega, ?_⟩
    rw [replicate_comm]

/-- Scanning the content of a line up to its newline. -/
theorem tbLoop_content (start : Nat) (pfx : List Nat) (strip : Bool) (tail : List Nat) :
    ∀ (f : Nat) (c : List Nat) (p : Nat) (str : List Nat), IsBytes c → (∀ b ∈ c, b ≠ 10) →
      c.length < f →
      ∃ out f', Lossy c out ∧ f' ≤ f ∧ f ≤ f' + c.length ∧
        tbLoop start pfx strip f ⟨p, c ++ 10 :: tail⟩ str =
          tbLoop start pfx strip f' ⟨p + c.length, 10 :: tail⟩ (out.reverse ++ str) := by
  intro f
  induction f with
  | zero => intro c p str _ _ h; omega
  | succ f ih =>
    intro c p str hb hne hf
    cases c with
    | nil => exact ⟨[], f + 1, Lossy.nil, by omega, by simp, by simp⟩
    | cons b t =>
      have hb1 := hne b (by simp)
      obtain ⟨n, r, hn, hstep, cr, hcr, hea⟩ :=
        eatAnyChar_plain (p := p) (x := 10) (tail := tail) hb (by omega)
      obtain ⟨out, f', hl, hf1, hf2, hq⟩ := ih (t.drop n) (p + 1 + n) (cr.orRepl :: str)
        (hb.tail.drop n) (fun y hy => hne y (List.mem_cons_of_mem _ (List.mem_of_mem_drop hy)))
        (by simp only [List.length_drop, List.length_cons] at hf ⊢; omega)
      refine ⟨r.getD 0xFFFD :: out, f', Lossy.step (by simp) hstep (by simpa using hl), by omega,
        by simp only [List.length_drop, List.length_cons] at hf2 ⊢; omega, ?_⟩
      have e1 : Cur.eatByte ⟨p, (b :: t) ++ 10 :: tail⟩ 10 = none := by simp [Cur.eatByte, hb1]
      conv => lhs; unfold tbLoop
      simp only [e1, hea]
      rw [hq, hcr]
      simp only [List.reverse_cons, List.append_assoc, List.singleton_append, List.length_drop,
        List.length_cons]
      congr 2
      omega

inductive TbLine where
  | blank
  | text (content : List Nat)

/-- Source bytes of the lines of a text block (after the first line). -/
def renderLines (pfx : List Nat) : List TbLine → List Nat
  | [] => []
  | .blank :: rest => 10 :: renderLines pfx rest
  | .text c :: rest => pfx ++ c ++ 10 :: renderLines pfx rest

def LinesWF : List TbLine → Prop
  | [] => True
  | .blank :: rest => LinesWF rest
  | .text c :: rest => IsBytes c ∧ (∀ b ∈ c, b ≠ 10) ∧ LinesWF rest

/-- The text the lines denote: each line without the prefix, lossily decoded, newline kept. -/
inductive LinesValue : List TbLine → List Nat → Prop
  | nil : LinesValue [] []
  | blank {rest : List TbLine} {out : List Nat} : LinesValue rest out → LinesValue (.blank :: rest) (10 :: out)
  | text {c o : List Nat} {rest : List TbLine} {out : List Nat} :
      Lossy c o → LinesValue rest out → LinesValue (.text c :: rest) (o ++ 10 :: out)

/-- `strip_last_lf` -/
def finishTb (strip : Bool) (full : List Nat) : List Nat := if strip then full.dropLast else full

theorem isSpTab_ne {y : Nat} (h : isSpTab y = true) : y ≠ 10 ∧ y ≠ 13 := by
  simp [isSpTab] at h; omega

theorem term_head (tws tail : List Nat) (htws : ∀ b ∈ tws, isSpTab b = true) :
    ∃ y r, tws ++ 124 :: 124 :: 124 :: tail = y :: r ∧ y ≠ 10 ∧ y ≠ 13 := by
  cases tws with
  | nil => exact ⟨124, _, rfl, by omega, by omega⟩
  | cons a t => exact ⟨a, _, rfl, isSpTab_ne (htws a (by simp))⟩

theorem eatSlice_append (p : Nat) (s r : List Nat) :
    Cur.eatSlice ⟨p, s ++ r⟩ s = some ⟨p + s.length, r⟩ := by
  unfold Cur.eatSlice
  have : s.isPrefixOf (s ++ r) = true := List.isPrefixOf_iff_prefix.mpr (List.prefix_append s r)
  simp [this]

theorem reverse_replicate (j : Nat) : (List.replicate j (10 : Nat)).reverse = List.replicate j 10 := by
  simp

theorem finish_strip (str : List Nat) (j : Nat) :
    (List.replicate j 10 ++ str).reverse =
      (str.reverse ++ 10 :: (List.replicate j 10 ++ [])).dropLast := by
  have : str.reverse ++ 10 :: (List.replicate j 10 ++ []) =
      (str.reverse ++ List.replicate j 10) ++ [10] := by
    simp only [List.append_nil, List.append_assoc]
    congr 1
    have := replicate_comm j []
    simpa using this.symm
  rw [this, List.dropLast_concat]
  simp

/-- The lines after the first one, up to and including the terminator. -/
theorem tbLoop_lines (start : Nat) (pfx : List Nat) (strip : Bool) (tws tail : List Nat)
    (hpne : pfx ≠ []) (hpfx : ∀ b ∈ pfx, isSpTab b = true) (htws : ∀ b ∈ tws, isSpTab b = true)
    (hterm : pfx.isPrefixOf (tws ++ 124 :: 124 :: 124 :: tail) = false) :
    ∀ (L : List TbLine) (j f p : Nat) (str : List Nat), LinesWF L →
      1 + j + (renderLines pfx L).length + tws.length + 3 + tail.length < f →
      ∃ out, LinesValue L out ∧
        tbLoop start pfx strip f
          ⟨p, 10 :: (List.replicate j 10 ++ (renderLines pfx L ++ (tws ++ 124 :: 124 :: 124 :: tail)))⟩ str =
        .tok (.textBlock (finishTb strip (str.reverse ++ 10 :: (List.replicate j 10 ++ out))))
          ⟨p + 1 + j + (renderLines pfx L).length + tws.length + 3, tail⟩ := by
  intro L
  induction L with
  | nil =>
    intro j f p str _ hf
    obtain ⟨f, rfl⟩ : ∃ f', f = f' + 1 := ⟨f - 1, by omega⟩
    refine ⟨[], LinesValue.nil, ?_⟩
    obtain ⟨y, r, hyr, hy⟩ := term_head tws tail htws
    simp only [renderLines, List.nil_append, List.length_nil, Nat.add_zero]
    unfold tbLoop
    have e1 : Cur.eatByte ⟨p, 10 :: (List.replicate j 10 ++ (tws ++ 124 :: 124 :: 124 :: tail))⟩ 10 =
        some ⟨p + 1, List.replicate j 10 ++ (tws ++ 124 :: 124 :: 124 :: tail)⟩ := by
      simp [Cur.eatByte]
    simp only [e1]
    rw [hyr, tbEmptyLines_blanks j y r (p + 1) (10 :: str) hy, ← hyr]
    simp only
    have e2 : Cur.eatSlice ⟨p + 1 + j, tws ++ 124 :: 124 :: 124 :: tail⟩ pfx = none := by
      simp [Cur.eatSlice, hterm]
    have e3 : Cur.eatWhile ⟨p + 1 + j, tws ++ 124 :: 124 :: 124 :: tail⟩ isSpTab =
        ⟨p + 1 + j + tws.length, 124 :: 124 :: 124 :: tail⟩ :=
      eatWhileAux_exact isSpTab tws 124 _ _ htws (by simp [isSpTab])
    have e4 : Cur.eatSlice ⟨p + 1 + j + tws.length, 124 :: 124 :: 124 :: tail⟩ [124, 124, 124] =
        some ⟨p + 1 + j + tws.length + 3, tail⟩ := eatSlice_append _ [124, 124, 124] tail
    simp only [e2, e3, e4]
    rw [replicate_comm]
    cases strip
    · simp [finishTb, replicate_comm]
    · simp only [if_true, finishTb]
      rw [finish_strip]
  | cons l rest ih =>
    intro j f p str hwf hf
    cases l with
    | blank =>
      simp only [renderLines, List.length_cons] at hf ⊢
      obtain ⟨out, hv, hq⟩ := ih (j + 1) f p str hwf (by omega)
      refine ⟨10 :: out, LinesValue.blank hv, ?_⟩
      have e : List.replicate j 10 ++ (10 :: renderLines pfx rest ++ (tws ++ 124 :: 124 :: 124 :: tail)) =
          List.replicate (j + 1) 10 ++ (renderLines pfx rest ++ (tws ++ 124 :: 124 :: 124 :: tail)) := by
        rw [List.cons_append, replicate_comm, List.replicate_succ, List.cons_append]
      rw [e, hq]
      congr 2
      · rw [List.replicate_succ, List.cons_append, ← replicate_comm]
      · congr 1; omega
    | text c =>
      obtain ⟨hb, hne, hwf'⟩ := hwf
      simp only [renderLines, List.length_append, List.length_cons] at hf ⊢
      obtain ⟨f, rfl⟩ : ∃ f', f = f' + 1 := ⟨f - 1, by omega⟩
      obtain ⟨y, pr, hpr⟩ : ∃ y pr, pfx = y :: pr := by
        cases pfx with
        | nil => exact absurd rfl hpne
        | cons y pr => exact ⟨y, pr, rfl⟩
      have hy := isSpTab_ne (hpfx y (by simp [hpr]))
      generalize hX : tws ++ 124 :: 124 :: 124 :: tail = X at *
      have e1 : Cur.eatByte ⟨p, 10 :: (List.replicate j 10 ++ (pfx ++ c ++ 10 :: renderLines pfx rest ++ X))⟩ 10 =
          some ⟨p + 1, List.replicate j 10 ++ (pfx ++ c ++ 10 :: renderLines pfx rest ++ X)⟩ := by
        simp [Cur.eatByte]
      have e2 : tbEmptyLines (p + 1) (List.replicate j 10 ++ (pfx ++ c ++ 10 :: renderLines pfx rest ++ X))
          (10 :: str) =
          (⟨p + 1 + j, pfx ++ (c ++ 10 :: (renderLines pfx rest ++ X))⟩, List.replicate j 10 ++ 10 :: str) := by
        have : pfx ++ c ++ 10 :: renderLines pfx rest ++ X =
            y :: (pr ++ (c ++ 10 :: (renderLines pfx rest ++ X))) := by simp [hpr]
        rw [this, tbEmptyLines_blanks j y _ (p + 1) (10 :: str) hy]
        simp [hpr]
      obtain ⟨o, f', hl, hf1, hf2, hq⟩ := tbLoop_content start pfx strip (renderLines pfx rest ++ X) f c
        (p + 1 + j + pfx.length) (List.replicate j 10 ++ 10 :: str) hb hne (by omega)
      have hXlen : X.length = tws.length + 3 + tail.length := by rw [← hX]; simp; omega
      obtain ⟨out, hv, hq2⟩ := ih 0 f' (p + 1 + j + pfx.length + c.length)
        (o.reverse ++ (List.replicate j 10 ++ 10 :: str)) hwf' (by omega)
      refine ⟨o ++ 10 :: out, LinesValue.text hl hv, ?_⟩
      conv => lhs; unfold tbLoop
      simp only [e1, e2, eatSlice_append, hq]
      simp only [List.replicate_zero, List.nil_append] at hq2
      rw [hq2]
      congr 2
      · simp [replicate_comm]
      · congr 1; omega

/-- The first loop: fully empty lines, then the first line's whitespace prefix. -/
theorem tbFirst_blanks (pfx : List Nat) (x : Nat) (r : List Nat) (hpne : pfx ≠ [])
    (hpfx : ∀ b ∈ pfx, isSpTab b = true) (hx : isSpTab x = false ∧ x ≠ 13) :
    ∀ (k f p : Nat) (str : List Nat), k < f →
      tbFirst f ⟨p, List.replicate k 10 ++ (pfx ++ x :: r)⟩ str =
        .found pfx ⟨p + k + pfx.length, x :: r⟩ (List.replicate k 10 ++ str) := by
  intro k
  induction k with
  | zero =>
    intro f p str hf
    obtain ⟨f, rfl⟩ : ∃ f', f = f' + 1 := ⟨f - 1, by omega⟩
    have e1 : Cur.eatWhile ⟨p, pfx ++ x :: r⟩ isSpTab = ⟨p + pfx.length, x :: r⟩ :=
      eatWhileAux_exact isSpTab pfx x r p hpfx hx.1
    have e2 : Cur.eatByteB ⟨p + pfx.length, x :: r⟩ 13 = (false, ⟨p + pfx.length, x :: r⟩) := by
      simp [Cur.eatByteB, Cur.eatByte, hx.2]
    unfold tbFirst
    simp only [List.replicate_zero, List.nil_append, e1, e2, Nat.add_sub_cancel_left,
      List.take_left', Nat.add_zero]
    have hne : pfx.isEmpty = false := by cases pfx <;> simp_all
    simp [hne]
  | succ k ih =>
    intro f p str hf
    obtain ⟨f, rfl⟩ : ∃ f', f = f' + 1 := ⟨f - 1, by omega⟩
    have e1 : Cur.eatWhile ⟨p, List.replicate (k + 1) 10 ++ (pfx ++ x :: r)⟩ isSpTab =
        ⟨p, List.replicate (k + 1) 10 ++ (pfx ++ x :: r)⟩ := by
      have := eatWhileAux_exact isSpTab [] 10 (List.replicate k 10 ++ (pfx ++ x :: r)) p (by simp)
        (by simp [isSpTab])
      simpa [List.replicate_succ, Cur.eatWhile] using this
    have e2 : Cur.eatByteB ⟨p, List.replicate (k + 1) 10 ++ (pfx ++ x :: r)⟩ 13 =
        (false, ⟨p, List.replicate (k + 1) 10 ++ (pfx ++ x :: r)⟩) := by
      simp [Cur.eatByteB, Cur.eatByte, List.replicate_succ]
    have e3 : Cur.eatByte ⟨p, List.replicate (k + 1) 10 ++ (pfx ++ x :: r)⟩ 10 =
        some ⟨p + 1, List.replicate k 10 ++ (pfx ++ x :: r)⟩ := by
      simp [Cur.eatByte, List.replicate_succ]
    unfold tbFirst
    simp only [e1, e2, e3, Nat.sub_self, List.take_zero, List.isEmpty_nil, if_true, Bool.false_eq_true,
      if_false]
    rw [ih f (p + 1) (10 :: str) (by omega)]
    congr 1
    · congr 1; omega
    · rw [replicate_comm]; simp [List.replicate_succ]

/-- Source text of a well-formed text block (everything after the opening `|||`). -/
def tbSource (strip : Bool) (ws0 : List Nat) (k0 : Nat) (pfx c1 : List Nat) (L : List TbLine)
    (tws tail : List Nat) : List Nat :=
  (if strip then [45] else []) ++ (ws0 ++ 10 :: (List.replicate k0 10 ++ (pfx ++ (c1 ++ 10 ::
    (renderLines pfx L ++ (tws ++ 124 :: 124 :: 124 :: tail))))))

theorem lexTextBlock_value (start : Cur) (p : Nat) (strip : Bool) (ws0 : List Nat) (k0 : Nat)
    (pfx c1 : List Nat) (L : List TbLine) (tws tail : List Nat)
    (hws0 : ∀ b ∈ ws0, isSpTabCr b = true) (hpne : pfx ≠ []) (hpfx : ∀ b ∈ pfx, isSpTab b = true)
    (hc1 : IsBytes c1) (hc1n : ∀ b ∈ c1, b ≠ 10)
    (hc1h : ∀ y t, c1 = y :: t → isSpTab y = false ∧ y ≠ 13)
    (hL : LinesWF L) (htws : ∀ b ∈ tws, isSpTab b = true)
    (hterm : pfx.isPrefixOf (tws ++ 124 :: 124 :: 124 :: tail) = false) :
    ∃ o1 out, Lossy c1 o1 ∧ LinesValue L out ∧
      lexTextBlock start ⟨p, tbSource strip ws0 k0 pfx c1 L tws tail⟩ =
        .tok (.textBlock (finishTb strip (List.replicate k0 10 ++ (o1 ++ 10 :: out))))
          ⟨p + ((tbSource strip ws0 k0 pfx c1 L tws tail).length - tail.length), tail⟩ := by
  generalize hX : tws ++ 124 :: 124 :: 124 :: tail = X at *
  generalize hR : renderLines pfx L ++ X = R
  -- the optional '-'
  have hd : ∃ p1, Cur.eatByteB ⟨p, tbSource strip ws0 k0 pfx c1 L tws tail⟩ 45 =
      (strip, ⟨p1, ws0 ++ 10 :: (List.replicate k0 10 ++ (pfx ++ (c1 ++ 10 :: R)))⟩) ∧
      p1 = p + (if strip then 1 else 0) := by
    unfold tbSource
    rw [hX, hR]
    cases strip
    · refine ⟨p, ?_, by simp⟩
      simp only [Bool.false_eq_true, if_false, List.nil_append]
      cases ws0 with
      | nil => simp [Cur.eatByteB, Cur.eatByte]
      | cons a t =>
        have := hws0 a (by simp)
        have : a ≠ 45 := by simp [isSpTabCr] at this; omega
        simp [Cur.eatByteB, Cur.eatByte, this]
    · exact ⟨p + 1, by simp [Cur.eatByteB, Cur.eatByte], by simp⟩
  obtain ⟨p1, hd1, hp1⟩ := hd
  have e2 : Cur.eatWhile ⟨p1, ws0 ++ 10 :: (List.replicate k0 10 ++ (pfx ++ (c1 ++ 10 :: R)))⟩ isSpTabCr =
      ⟨p1 + ws0.length, 10 :: (List.replicate k0 10 ++ (pfx ++ (c1 ++ 10 :: R)))⟩ :=
    eatWhileAux_exact isSpTabCr ws0 10 _ p1 hws0 (by simp [isSpTabCr])
  have e3 : Cur.eatByte ⟨p1 + ws0.length, 10 :: (List.replicate k0 10 ++ (pfx ++ (c1 ++ 10 :: R)))⟩ 10 =
      some ⟨p1 + ws0.length + 1, List.replicate k0 10 ++ (pfx ++ (c1 ++ 10 :: R))⟩ := by
    simp [Cur.eatByte]
  obtain ⟨x, r, hxr, hx⟩ : ∃ x r, c1 ++ 10 :: R = x :: r ∧ isSpTab x = false ∧ x ≠ 13 := by
    cases hc : c1 with
    | nil => exact ⟨10, R, rfl, by simp [isSpTab], by omega⟩
    | cons y t => exact ⟨y, t ++ 10 :: R, rfl, hc1h y t hc⟩
  have e4 := tbFirst_blanks pfx x r hpne hpfx hx k0
    ((List.replicate k0 10 ++ (pfx ++ x :: r)).length + 1) (p1 + ws0.length + 1) [] (by simp; omega)
  have hXlen : X.length = tws.length + 3 + tail.length := by rw [← hX]; simp; omega
  have hRlen : R.length = (renderLines pfx L).length + X.length := by rw [← hR]; simp
  obtain ⟨o1, f', hl1, hf1, hf2, hq1⟩ := tbLoop_content start.pos pfx strip R
    ((c1 ++ 10 :: R).length + 1) c1 (p1 + ws0.length + 1 + k0 + pfx.length)
    (List.replicate k0 10 ++ []) hc1 hc1n (by simp; omega)
  simp only [List.length_append, List.length_cons] at hf2
  obtain ⟨out, hv, hq2⟩ := tbLoop_lines start.pos pfx strip tws tail hpne hpfx htws
    (by rw [hX]; exact hterm) L 0 f' (p1 + ws0.length + 1 + k0 + pfx.length + c1.length)
    (o1.reverse ++ (List.replicate k0 10 ++ [])) hL (by omega)
  refine ⟨o1, out, hl1, hv, ?_⟩
  unfold lexTextBlock
  simp only [hd1, e2, e3]
  rw [hxr] at *
  rw [e4]
  simp only
  rw [← hxr, hq1]
  simp only [List.replicate_zero, List.nil_append] at hq2
  rw [hX, hR] at hq2
  rw [hq2]
  have hs : (o1.reverse ++ (List.replicate k0 10 ++ [])).reverse ++ 10 :: out =
      List.replicate k0 10 ++ (o1 ++ 10 :: out) := by simp
  have hpos : p1 + ws0.length + 1 + k0 + pfx.length + c1.length + 1 + 0 + (renderLines pfx L).length +
      tws.length + 3 = p + ((tbSource strip ws0 k0 pfx c1 L tws tail).length - tail.length) := by
    unfold tbSource
    rw [hX, hR]
    simp only [List.length_append, List.length_cons, List.length_replicate, hRlen, hXlen]
    cases strip <;> simp at hp1 ⊢ <;> omega
  rw [hs, hpos]

theorem nextToken_bars (p : Nat) (rest : List Nat) :
    nextToken ⟨p, 124 :: 124 :: 124 :: rest⟩ =
      lexTextBlock ⟨p, 124 :: 124 :: 124 :: rest⟩ ⟨p + 3, rest⟩ := by
  simp [nextToken, simpleByte, List.lookup, Cur.eatSlice]

/-- A well-formed text block lexes to its lines minus the first line's prefix. -/
theorem nextToken_textBlock (p : Nat) (strip : Bool) (ws0 : List Nat) (k0 : Nat)
    (pfx c1 : List Nat) (L : List TbLine) (tws tail : List Nat)
    (hws0 : ∀ b ∈ ws0, isSpTabCr b = true) (hpne : pfx ≠ []) (hpfx : ∀ b ∈ pfx, isSpTab b = true)
    (hc1 : IsBytes c1) (hc1n : ∀ b ∈ c1, b ≠ 10)
    (hc1h : ∀ y t, c1 = y :: t → isSpTab y = false ∧ y ≠ 13)
    (hL : LinesWF L) (htws : ∀ b ∈ tws, isSpTab b = true)
    (hterm : pfx.isPrefixOf (tws ++ 124 :: 124 :: 124 :: tail) = false) :
    ∃ o1 out, Lossy c1 o1 ∧ LinesValue L out ∧
      nextToken ⟨p, 124 :: 124 :: 124 :: tbSource strip ws0 k0 pfx c1 L tws tail⟩ =
        .tok (.textBlock (finishTb strip (List.replicate k0 10 ++ (o1 ++ 10 :: out))))
          ⟨p + 3 + ((tbSource strip ws0 k0 pfx c1 L tws tail).length - tail.length), tail⟩ := by
  obtain ⟨o1, out, h1, h2, h3⟩ := lexTextBlock_value
    ⟨p, 124 :: 124 :: 124 :: tbSource strip ws0 k0 pfx c1 L tws tail⟩ (p + 3) strip ws0 k0 pfx c1 L
    tws tail hws0 hpne hpfx hc1 hc1n hc1h hL htws hterm
  exact ⟨o1, out, h1, h2, by rw [nextToken_bars, h3]⟩

end Rsj.Lexer
