/-
  Key-quoting decisions: `is_safe_toml_plain`, `is_safe_yaml_plain`.
-/
import RsjModel.Json
namespace Rsj.Json

/-! ### TOML bare keys (TOML v1.0.0: `unquoted-key = 1*( ALPHA / DIGIT / %x2D / %x5F )`) -/

def isBareKeyChar (c : Nat) : Prop :=
  (48 ≤ c ∧ c ≤ 57) ∨ (65 ≤ c ∧ c ≤ 90) ∨ (97 ≤ c ∧ c ≤ 122) ∨ c = 45 ∨ c = 95

theorem tomlPlain_bare {s : Str} (h : isSafeTomlPlain s = true) :
    s ≠ [] ∧ ∀ c ∈ s, isBareKeyChar c := by
  unfold isSafeTomlPlain at h
  simp only [Bool.and_eq_true, Bool.not_eq_true', List.all_eq_true, Bool.or_eq_true, beq_iff_eq] at h
  refine ⟨by intro e; subst e; simp at h, fun c hc => ?_⟩
  rcases h.2 c hc with (ha | rfl) | rfl
  · simp only [isAlnum, Bool.or_eq_true, Bool.and_eq_true, decide_eq_true_eq] at ha
    unfold isBareKeyChar; omega
  · exact Or.inr (Or.inr (Or.inr (Or.inr rfl)))
  · exact Or.inr (Or.inr (Or.inr (Or.inl rfl)))

/-! ### YAML plain keys -/

theorem yaml_c1 {s : Str} (h : isSafeYamlPlain s = true) : yEmptyOrDashes s = false := by
  cases hc : yEmptyOrDashes s with
  | false => rfl
  | true => simp [isSafeYamlPlain, hc] at h
theorem yaml_c2 {s : Str} (h : isSafeYamlPlain s = true) : yUnsafeChar s = false := by
  cases hc : yUnsafeChar s with
  | false => rfl
  | true => simp [isSafeYamlPlain, hc] at h
theorem yaml_c3 {s : Str} (h : isSafeYamlPlain s = true) : yReserved s = false := by
  cases hc : yReserved s with
  | false => rfl
  | true => simp [isSafeYamlPlain, hc] at h
theorem yaml_c4 {s : Str} (h : isSafeYamlPlain s = true) : yDate s = false := by
  cases hc : yDate s with
  | false => rfl
  | true => simp [isSafeYamlPlain, hc] at h
theorem yaml_c5 {s : Str} (h : isSafeYamlPlain s = true) : yInt s = false := by
  cases hc : yInt s with
  | false => rfl
  | true => simp [isSafeYamlPlain, hc] at h
theorem yaml_c6 {s : Str} (h : isSafeYamlPlain s = true) : yBin s = false := by
  cases hc : yBin s with
  | false => rfl
  | true => simp [isSafeYamlPlain, hc] at h
theorem yaml_c7 {s : Str} (h : isSafeYamlPlain s = true) : yHex s = false := by
  cases hc : yHex s with
  | false => rfl
  | true => simp [isSafeYamlPlain, hc] at h
theorem yaml_c8 {s : Str} (h : isSafeYamlPlain s = true) : yFloat s = false := by
  cases hc : yFloat s with
  | false => rfl
  | true => simp [isSafeYamlPlain, hc] at h

/-- characters of a bare key: `[0-9A-Za-z/_.-]` only — no YAML indicator
    (`: # , [ ] { } & * ! | > ' " % @ \``), no white space, no line break -/
theorem yamlPlain_chars {s : Str} (h : isSafeYamlPlain s = true) :
    s ≠ [] ∧ ∀ c ∈ s, yPlainChar c = true := by
  have h1 := yaml_c1 h
  have h2 := yaml_c2 h
  refine ⟨by intro e; subst e; simp [yEmptyOrDashes] at h1, fun c hc => ?_⟩
  simp only [yUnsafeChar, List.any_eq_false, Bool.not_eq_true', Bool.not_eq_false] at h2
  simpa using h2 c hc

/-- decimal integers `-?[0-9]+` (YAML 1.2 core schema `int`, without `+`,
    which is not a plain-safe character anyway) -/
def isDecInt : Str → Bool
  | 45 :: ds => !ds.isEmpty && ds.all isDigit
  | ds => !ds.isEmpty && ds.all isDigit

theorem countC_digits {ds : Str} (h : ds.all isDigit = true) : countC (· == 45) ds = 0 := by
  unfold countC
  rw [List.length_eq_zero_iff, List.filter_eq_nil_iff]
  intro c hc
  have := List.all_eq_true.mp h c hc
  simp only [isDigit, Bool.and_eq_true, decide_eq_true_eq] at this
  simp; omega

theorem all_mono {p q : Nat → Bool} {l : Str} (h : l.all p = true) (hpq : ∀ c, p c = true → q c = true) :
    l.all q = true :=
  List.all_eq_true.mpr (fun c hc => hpq c (List.all_eq_true.mp h c hc))

theorem yInt_of_decInt {s : Str} (h : isDecInt s = true) : yInt s = true := by
  have key : ∀ ds : Str, ds.all isDigit = true →
      ds.all (fun c => isDigit c || c == 95 || c == 45) = true :=
    fun ds hd => all_mono hd (fun c hc => by simp [hc])
  unfold yInt
  by_cases hm : ∃ ds, s = 45 :: ds
  · obtain ⟨ds, rfl⟩ := hm
    simp only [isDecInt, Bool.and_eq_true] at h
    have hc := countC_digits h.2
    have : countC (· == 45) (45 :: ds) = 1 := by
      unfold countC at hc ⊢
      simp [hc]
    simp [this, key ds h.2]
  · have hd : (!s.isEmpty && s.all isDigit) = true := by
      cases s with
      | nil => simp [isDecInt] at h
      | cons c t =>
        by_cases hc : c = 45
        · subst hc; exact absurd ⟨t, rfl⟩ hm
        · unfold isDecInt at h
          split at h
          · next heq => cases heq; exact absurd rfl hc
          · exact h
    simp only [Bool.and_eq_true] at hd
    simp [countC_digits hd.2, key s hd.2]

/-- a key emitted bare is not a decimal integer -/
theorem yamlPlain_not_int {s : Str} (h : isSafeYamlPlain s = true) : isDecInt s = false := by
  cases hd : isDecInt s with
  | false => rfl
  | true => exact absurd (yaml_c5 h) (by simp [yInt_of_decInt hd])

/-- a key emitted bare is none of the reserved words, in any letter case -/
theorem yamlPlain_not_reserved {s : Str} (h : isSafeYamlPlain s = true) :
    ∀ w ∈ yamlSpecial, s.map toLowerAscii ≠ w.map toLowerAscii := by
  have h3 := yaml_c3 h
  simp only [yReserved, List.any_eq_false] at h3
  intro w hw e
  exact h3 w hw (by simp [eqIgnoreAsciiCase, e])

/-! ### transcription of the YAML 1.2 core schema tag resolution (spec §10.3.2) -/

def dropSign : Str → Str
  | 45 :: r => r
  | 43 :: r => r
  | s => s

def isHexD (c : Nat) : Bool := (48 ≤ c && c ≤ 57) || (97 ≤ c && c ≤ 102) || (65 ≤ c && c ≤ 70)

/-- `[-+]? [0-9]+` -/
def coreInt (s : Str) : Bool := let d := dropSign s; !d.isEmpty && d.all isDigit
/-- `0o [0-7]+` -/
def coreOct : Str → Bool
  | 48 :: 111 :: r => !r.isEmpty && r.all (fun c => 48 ≤ c && c ≤ 55)
  | _ => false
/-- `0x [0-9a-fA-F]+` -/
def coreHex : Str → Bool
  | 48 :: 120 :: r => !r.isEmpty && r.all isHexD
  | _ => false
/-- `( [eE] [-+]? [0-9]+ )?` -/
def coreExp : Str → Bool
  | [] => true
  | x :: r => (x == 101 || x == 69) && (let d := dropSign r; !d.isEmpty && d.all isDigit)
/-- `[-+]? ( \. [0-9]+ | [0-9]+ ( \. [0-9]* )? ) ( [eE] [-+]? [0-9]+ )?` -/
def coreFloat (s : Str) : Bool :=
  let s := dropSign s
  let ip := s.takeWhile isDigit
  match s.dropWhile isDigit with
  | 46 :: r' => (!ip.isEmpty || !(r'.takeWhile isDigit).isEmpty) && coreExp (r'.dropWhile isDigit)
  | r => !ip.isEmpty && coreExp r
/-- `null | Null | NULL | ~`, `true | True | TRUE | false | False | FALSE`,
    `[-+]? \. (inf | Inf | INF)`, `\. (nan | NaN | NAN)` -/
def coreWords : List Str :=
  [ [110,117,108,108], [78,117,108,108], [78,85,76,76], [126],
    [116,114,117,101], [84,114,117,101], [84,82,85,69],
    [102,97,108,115,101], [70,97,108,115,101], [70,65,76,83,69],
    [46,105,110,102], [46,73,110,102], [46,73,78,70],
    [45,46,105,110,102], [45,46,73,110,102], [45,46,73,78,70],
    [43,46,105,110,102], [43,46,73,110,102], [43,46,73,78,70],
    [46,110,97,110], [46,78,97,78], [46,78,65,78] ]
/-- would a plain scalar with this text resolve to something other than `!!str`? -/
def coreNonString (s : Str) : Bool :=
  s.isEmpty || coreWords.contains s || coreInt s || coreOct s || coreHex s || coreFloat s

end Rsj.Json
