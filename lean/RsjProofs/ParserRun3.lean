/-
  C15 print/parse, part 3: shape of printed fragment trees (first tokens, head / postfix split).
-/
import RsjProofs.ParserRun2
namespace Rsj.Parser

/-- token kinds that can begin a printed fragment expression -/
def ExprStart : TokKind → Prop
  | .simple k => k = .Null ∨ k = .False_ ∨ k = .True_ ∨ k = .Self_ ∨ k = .Dollar ∨ k = .LeftParen ∨
      k = .Super ∨ k = .Plus ∨ k = .Minus ∨ k = .Tilde ∨ k = .Exclam
  | .string _ | .textBlock _ | .number _ | .ident _ => True
  | _ => False

/-- … and are not a unary operator -/
def PrimStart : TokKind → Prop
  | .simple k => k = .Null ∨ k = .False_ ∨ k = .True_ ∨ k = .Self_ ∨ k = .Dollar ∨ k = .LeftParen ∨
      k = .Super
  | .string _ | .textBlock _ | .number _ | .ident _ => True
  | _ => False

theorem PrimStart.exprStart {tk : TokKind} (h : PrimStart tk) : ExprStart tk := by
  cases tk <;> simp only [PrimStart, ExprStart] at h ⊢
  rcases h with h | h | h | h | h | h | h <;> simp [h]

theorem parens_eq (ts : Toks) : parens ts = sim .LeftParen :: (ts ++ [sim .RightParen]) := rfl

/-- the first token can begin an expression (`prim`: and is no unary operator); `super` is
    followed by `.` or `[` -/
def HeadOK (prim : Bool) : Toks → Prop
  | [] => False
  | tk :: rest => (if prim then PrimStart tk else ExprStart tk) ∧
      (tk = sim .Super → ∃ r2, rest = sim .Dot :: r2 ∨ rest = sim .LeftBracket :: r2)

theorem HeadOK.append {b : Bool} {l : Toks} (m : Toks) (h : HeadOK b l) : HeadOK b (l ++ m) := by
  cases l with
  | nil => exact h.elim
  | cons tk rest =>
    refine ⟨h.1, fun ht => ?_⟩
    obtain ⟨r2, hr⟩ := h.2 ht
    rcases hr with hr | hr
    · exact ⟨r2 ++ m, Or.inl (by rw [hr]; rfl)⟩
    · exact ⟨r2 ++ m, Or.inr (by rw [hr]; rfl)⟩

theorem HeadOK.weaken {l : Toks} (h : HeadOK true l) : HeadOK false l := by
  cases l with
  | nil => exact h
  | cons tk rest => exact ⟨PrimStart.exprStart h.1, h.2⟩

theorem unaryTok_mem (op : UnaryOp) : op.tok = .Plus ∨ op.tok = .Minus ∨ op.tok = .Tilde ∨ op.tok = .Exclam := by
  cases op <;> decide

theorem headOK_paren (ts : Toks) : HeadOK true (parens ts) := by
  simp [parens_eq, HeadOK, PrimStart, sim]

/-- First token(s) of a printed fragment tree. -/
theorem first_tok {e : Expr} (h : Frag e) : ∀ lvl : Nat,
    HeadOK false (P e lvl) ∧
      (unaryPrec ≤ lvl → (∀ op x sp, e ≠ .unary op x sp) ∨ unaryPrec < lvl → HeadOK true (P e lvl)) := by
  have both : ∀ {l : Toks}, HeadOK true l → ∀ {q r : Prop}, HeadOK false l ∧ (q → r → HeadOK true l) :=
    fun h => ⟨h.weaken, fun _ _ => h⟩
  induction h with
  | null sp => intro lvl; exact both (by simp [P, pr, HeadOK, PrimStart, sim])
  | bool b sp => intro lvl; cases b <;> exact both (by simp [P, pr, HeadOK, PrimStart, sim])
  | selfObj sp => intro lvl; exact both (by simp [P, pr, HeadOK, PrimStart, sim])
  | dollar sp => intro lvl; exact both (by simp [P, pr, HeadOK, PrimStart, sim])
  | str s sp => intro lvl; exact both (by simp [P, pr, HeadOK, PrimStart, sim])
  | textBlock s sp => intro lvl; exact both (by simp [P, pr, HeadOK, PrimStart, sim])
  | number s sp => intro lvl; exact both (by simp [P, pr, HeadOK, PrimStart, sim])
  | ident i sp => intro lvl; exact both (by simp [P, pr, HeadOK, PrimStart, sim])
  | superField ssp name sp => intro lvl; exact both (by simp [P, pr, HeadOK, PrimStart, sim])
  | superIndex ssp sp hi ih => intro lvl; exact both (by simp [P, pr, HeadOK, PrimStart, sim])
  | paren sp he ih => intro lvl; exact both (by simp only [P, pr]; exact headOK_paren _)
  | @unary e op sp he ih =>
    intro lvl
    by_cases hl : unaryPrec < lvl
    · exact both (by simp only [P, pr, hl, if_true]; exact headOK_paren _)
    · refine ⟨?_, ?_⟩
      · simp only [P, pr, hl, if_false]
        rcases unaryTok_mem op with h | h | h | h <;> simp [HeadOK, ExprStart, sim, h]
      · intro _ h
        rcases h with h | h
        · exact absurd rfl (h op e sp)
        · exact absurd h hl
  | @binary l r op sp hl hr ihl ihr =>
    intro lvl
    by_cases hp : op.prec < lvl
    · exact both (by simp only [P, pr, hp, if_true]; exact headOK_paren _)
    · have hlt : op.prec < unaryPrec := by cases op <;> decide
      have hP : P (.binary l op r sp) lvl = P l op.prec ++ sim op.tok :: P r (op.prec + 1) := by
        simp only [P, pr, hp, if_false, sub_false]
        rw [pr_indep hl]
      rw [hP]
      exact ⟨(ihl op.prec).1.append _, fun h10 _ => by omega⟩
  | @field e name sp he ih =>
    intro lvl
    have hP : P (.field e name sp) lvl = P e suffixPrec ++ [sim .Dot, .ident name.value] := by
      simp only [P, pr, sub_false]
      rw [pr_indep he]
    rw [hP]
    exact both (((ih suffixPrec).2 (by decide) (Or.inr (by decide))).append _)
  | @index e i sp he hi ihe ihi =>
    intro lvl
    have hP : P (.index e i sp) lvl =
        P e suffixPrec ++ sim .LeftBracket :: (P i 0 ++ [sim .RightBracket]) := by
      simp only [P, pr, sub_false]
      rw [pr_indep he]
    rw [hP]
    exact both (((ihe suffixPrec).2 (by decide) (Or.inr (by decide))).append _)
  | @inSuper e ssp sp he ih =>
    intro lvl
    by_cases hp : inSuperKind.prec < lvl
    · exact both (by simp only [P, pr, hp, if_true]; exact headOK_paren _)
    · have hP : P (.inSuper e ssp sp) lvl = P e inSuperKind.prec ++ [sim .In, sim inSuperHead] := by
        simp only [P, pr, hp, if_false, sub_false]
        rw [pr_indep he]
      rw [hP]
      have h6 : inSuperKind.prec < unaryPrec := by decide
      exact ⟨(ih inSuperKind.prec).1.append _, fun h10 _ => by omega⟩

end Rsj.Parser
