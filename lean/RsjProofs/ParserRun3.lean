/-
  C15 print/parse, part 3: shape of printed fragment trees (first tokens, head / postfix split).
-/
import RsjProofs.ParserRun2
namespace Rsj.Parser

/-- token kinds that can begin a printed fragment expression -/
def ExprStart : TokKind → Prop
  | .simple k => k = .Null ∨ k = .False_ ∨ k = .True_ ∨ k = .Self_ ∨ k = .Dollar ∨ k = .LeftParen ∨
      k = .Super ∨ k = .Plus ∨ k = .Minus ∨ k = .Tilde ∨ k = .Exclam
  | .string _ | .textBlock _ | .number _ | .ident _ => True
  | _ => False

/-- … and are not a unary operator -/
def PrimStart : TokKind → Prop
  | .simple k => k = .Null ∨ k = .False_ ∨ k = .True_ ∨ k = .Self_ ∨ k = .Dollar ∨ k = .LeftParen ∨
      k = .Super
  | .string _ | .textBlock _ | .number _ | .ident _ => True
  | _ => False

theorem PrimStart.exprStart {tk : TokKind} (h : PrimStart tk) : ExprStart tk := by
  cases tk <;> simp only [PrimStart, ExprStart] at h ⊢
  rcases h with h | h | h | h | h | h | h <;> simp [h]

theorem parens_eq (ts : Toks) : parens ts = sim .LeftParen :: (ts ++ [sim .RightParen]) := rfl

/-- the first token can begin an expression (`prim`: and is no unary operator); `super` is
    followed by `.` or `[` -/
def HeadOK (prim : Bool) : Toks → Prop
  | [] => False
  | tk :: rest => (if prim then PrimStart tk else ExprStart tk) ∧
      (tk = sim .Super → ∃ r2, rest = sim .Dot :: r2 ∨ rest = sim .LeftBracket :: r2)

theorem HeadOK.append {b : Bool} {l : Toks} (m : Toks) (h : HeadOK b l) : HeadOK b (l ++ m) := by
  cases l with
  | nil => exact h.elim
  | cons tk rest =>
    refine ⟨h.1, fun ht => ?_⟩
    obtain ⟨r2, hr⟩ := h.2 ht
    rcases hr with hr | hr
    · exact ⟨r2 ++ m, Or.inl (by rw [hr]; rfl)⟩
    · exact ⟨r2 ++ m, Or.inr (by rw [hr]; rfl)⟩

theorem HeadOK.weaken {l : Toks} (h : HeadOK true l) : HeadOK false l := by
  cases l with
  | nil => exact h
  | cons tk rest => exact ⟨PrimStart.exprStart h.1, h.2⟩

theorem unaryTok_mem (op : UnaryOp) : op.tok = .Plus ∨ op.tok = .Minus ∨ op.tok = .Tilde ∨ op.tok = .Exclam := by
  cases op <;> decide

theorem headOK_paren (ts : Toks) : HeadOK true (parens ts) := by
  simp [parens_eq, HeadOK, PrimStart, sim]

theorem P_call {f : Expr} (hf : Frag f) (args : List Arg) (ts : Bool) (sp : Span) (lvl : Nat) :
    P (.call f args ts sp) lvl = P f suffixPrec ++ sim .LeftParen ::
      (prArgs false args ++ sim .RightParen :: (if ts then [sim .Tailstrict] else [])) := by
  simp only [P, pr, sub_false]
  rw [pr_indep hf]

/-- First token(s) of a printed fragment tree. -/
theorem first_tok {e : Expr} (h : Frag e) : ∀ lvl : Nat,
    HeadOK false (P e lvl) ∧
      (unaryPrec ≤ lvl → (∀ op x sp, e ≠ .unary op x sp) ∨ unaryPrec < lvl → HeadOK true (P e lvl)) := by
  have both : ∀ {l : Toks}, HeadOK true l → ∀ {q r : Prop}, HeadOK false l ∧ (q → r → HeadOK true l) :=
    fun h => ⟨h.weaken, fun _ _ => h⟩
  induction h with
  | null sp => intro lvl; exact both (by simp [P, pr, HeadOK, PrimStart, sim])
  | bool b sp => intro lvl; cases b <;> exact both (by simp [P, pr, HeadOK, PrimStart, sim])
  | selfObj sp => intro lvl; exact both (by simp [P, pr, HeadOK, PrimStart, sim])
  | dollar sp => intro lvl; exact both (by simp [P, pr, HeadOK, PrimStart, sim])
  | str s sp => intro lvl; exact both (by simp [P, pr, HeadOK, PrimStart, sim])
  | textBlock s sp => intro lvl; exact both (by simp [P, pr, HeadOK, PrimStart, sim])
  | number s sp => intro lvl; exact both (by simp [P, pr, HeadOK, PrimStart, sim])
  | ident i sp => intro lvl; exact both (by simp [P, pr, HeadOK, PrimStart, sim])
  | superField ssp name sp => intro lvl; exact both (by simp [P, pr, HeadOK, PrimStart, sim])
  | superIndex ssp sp hi ih => intro lvl; exact both (by simp [P, pr, HeadOK, PrimStart, sim])
  | paren sp he ih => intro lvl; exact both (by simp only [P, pr]; exact headOK_paren _)
  | @unary e op sp he ih =>
    intro lvl
    by_cases hl : unaryPrec < lvl
    · exact both (by simp only [P, pr, hl, if_true]; exact headOK_paren _)
    · refine ⟨?_, ?_⟩
      · simp only [P, pr, hl, if_false]
        rcases unaryTok_mem op with h | h | h | h <;> simp [HeadOK, ExprStart, sim, h]
      · intro _ h
        rcases h with h | h
        · exact absurd rfl (h op e sp)
        · exact absurd h hl
  | @binary l r op sp hl hr ihl ihr =>
    intro lvl
    by_cases hp : op.prec < lvl
    · exact both (by simp only [P, pr, hp, if_true]; exact headOK_paren _)
    · have hlt : op.prec < unaryPrec := by cases op <;> decide
      have hP : P (.binary l op r sp) lvl = P l op.prec ++ sim op.tok :: P r (op.prec + 1) := by
        simp only [P, pr, hp, if_false, sub_false]
        rw [pr_indep hl]
      rw [hP]
      exact ⟨(ihl op.prec).1.append _, fun h10 _ => by omega⟩
  | @field e name sp he ih =>
    intro lvl
    have hP : P (.field e name sp) lvl = P e suffixPrec ++ [sim .Dot, .ident name.value] := by
      simp only [P, pr, sub_false]
      rw [pr_indep he]
    rw [hP]
    exact both (((ih suffixPrec).2 (by decide) (Or.inr (by decide))).append _)
  | @index e i sp he hi ihe ihi =>
    intro lvl
    have hP : P (.index e i sp) lvl =
        P e suffixPrec ++ sim .LeftBracket :: (P i 0 ++ [sim .RightBracket]) := by
      simp only [P, pr, sub_false]
      rw [pr_indep he]
    rw [hP]
    exact both (((ihe suffixPrec).2 (by decide) (Or.inr (by decide))).append _)
  | @inSuper e ssp sp he ih =>
    intro lvl
    by_cases hp : inSuperKind.prec < lvl
    · exact both (by simp only [P, pr, hp, if_true]; exact headOK_paren _)
    · have hP : P (.inSuper e ssp sp) lvl = P e inSuperKind.prec ++ [sim .In, sim inSuperHead] := by
        simp only [P, pr, hp, if_false, sub_false]
        rw [pr_indep he]
      rw [hP]
      have h6 : inSuperKind.prec < unaryPrec := by decide
      exact ⟨(ih inSuperKind.prec).1.append _, fun h10 _ => by omega⟩
  | @call f args ts sp hf ha ihf iha =>
    intro lvl
    rw [P_call hf]
    exact both (((ihf suffixPrec).2 (by decide) (Or.inr (by decide))).append _)

/-- the second token, if there is one, is not `=` (so a positional argument is never mistaken
    for a named one) -/
def Sec (l : Toks) : Prop := l ≠ [] ∧ ∀ a b rest, l = a :: b :: rest → b ≠ sim .Eq

theorem Sec.append {l : Toks} (h : Sec l) {tok : TokKind} (ht : tok ≠ sim .Eq) (m : Toks) :
    Sec (l ++ tok :: m) := by
  refine ⟨by simp, ?_⟩
  intro a b rest hab
  cases l with
  | nil => exact absurd rfl h.1
  | cons x l' =>
    cases l' with
    | nil =>
      simp only [List.cons_append, List.nil_append, List.cons.injEq] at hab
      rw [← hab.2.1]; exact ht
    | cons y l'' =>
      simp only [List.cons_append, List.cons.injEq] at hab
      rw [← hab.2.1]
      exact h.2 x y l'' rfl

theorem Sec.cons_of_head {tk : TokKind} {l : Toks} (h : HeadOK false l) : Sec (tk :: l) := by
  refine ⟨by simp, ?_⟩
  intro a b rest hab
  cases l with
  | nil => exact h.elim
  | cons x l' =>
    simp only [List.cons.injEq] at hab
    rw [← hab.2.1]
    intro hx
    have := h.1
    rw [hx] at this
    simp [ExprStart, sim] at this

theorem binTok_ne_eq (op : BinaryOp) : sim op.tok ≠ sim .Eq := by
  cases op <;> decide

theorem sec_tok {e : Expr} (h : Frag e) : ∀ lvl : Nat, Sec (P e lvl) := by
  induction h with
  | null sp => intro lvl; simp [P, pr, Sec]
  | bool b sp => intro lvl; simp [P, pr, Sec]
  | selfObj sp => intro lvl; simp [P, pr, Sec]
  | dollar sp => intro lvl; simp [P, pr, Sec]
  | str s sp => intro lvl; simp [P, pr, Sec]
  | textBlock s sp => intro lvl; simp [P, pr, Sec]
  | number s sp => intro lvl; simp [P, pr, Sec]
  | ident i sp => intro lvl; simp [P, pr, Sec]
  | superField ssp name sp => intro lvl; simp [P, pr, Sec, sim]
  | superIndex ssp sp hi ih => intro lvl; simp [P, pr, Sec, sim]
  | @paren e sp he ih =>
    intro lvl
    have : P (.paren e sp) lvl = sim .LeftParen :: (P e 0 ++ [sim .RightParen]) := by
      simp [P, pr, sub_false, parens_eq]
    rw [this]
    exact Sec.cons_of_head ((first_tok he 0).1.append _)
  | @unary e op sp he ih =>
    intro lvl
    by_cases hl : unaryPrec < lvl
    · have : P (.unary op e sp) lvl = sim .LeftParen :: ((sim op.tok :: P e unaryPrec) ++ [sim .RightParen]) := by
        simp [P, pr, sub_false, hl, parens_eq]
      rw [this]
      refine Sec.cons_of_head ?_
      rcases unaryTok_mem op with h | h | h | h <;> simp [HeadOK, ExprStart, sim, h]
    · have : P (.unary op e sp) lvl = sim op.tok :: P e unaryPrec := by simp [P, pr, sub_false, hl]
      rw [this]
      exact Sec.cons_of_head (first_tok he unaryPrec).1
  | @binary l r op sp hl hr ihl ihr =>
    intro lvl
    by_cases hp : op.prec < lvl
    · have : P (.binary l op r sp) lvl =
          sim .LeftParen :: ((P l op.prec ++ sim op.tok :: P r (op.prec + 1)) ++ [sim .RightParen]) := by
        simp only [P, pr, hp, if_true, sub_false, parens_eq]
        rw [pr_indep hl]
      rw [this]
      exact Sec.cons_of_head (((first_tok hl op.prec).1.append _).append _)
    · have hP : P (.binary l op r sp) lvl = P l op.prec ++ sim op.tok :: P r (op.prec + 1) := by
        simp only [P, pr, hp, if_false, sub_false]
        rw [pr_indep hl]
      rw [hP]
      exact (ihl op.prec).append (binTok_ne_eq op) _
  | @field e name sp he ih =>
    intro lvl
    have hP : P (.field e name sp) lvl = P e suffixPrec ++ sim .Dot :: [.ident name.value] := by
      simp only [P, pr, sub_false]
      rw [pr_indep he]
    rw [hP]
    exact (ih suffixPrec).append (by decide) _
  | @index e i sp he hi ihe ihi =>
    intro lvl
    have hP : P (.index e i sp) lvl =
        P e suffixPrec ++ sim .LeftBracket :: (P i 0 ++ [sim .RightBracket]) := by
      simp only [P, pr, sub_false]
      rw [pr_indep he]
    rw [hP]
    exact (ihe suffixPrec).append (by decide) _
  | @inSuper e ssp sp he ih =>
    intro lvl
    by_cases hp : inSuperKind.prec < lvl
    · have : P (.inSuper e ssp sp) lvl =
          sim .LeftParen :: ((P e inSuperKind.prec ++ [sim .In, sim inSuperHead]) ++ [sim .RightParen]) := by
        simp only [P, pr, hp, if_true, sub_false, parens_eq]
        rw [pr_indep he]
      rw [this]
      exact Sec.cons_of_head (((first_tok he inSuperKind.prec).1.append _).append _)
    · have hP : P (.inSuper e ssp sp) lvl = P e inSuperKind.prec ++ sim .In :: [sim inSuperHead] := by
        simp only [P, pr, hp, if_false, sub_false]
        rw [pr_indep he]
      rw [hP]
      exact (ih inSuperKind.prec).append (by decide) _
  | @call f args ts sp hf ha ihf iha =>
    intro lvl
    rw [P_call hf]
    exact (ihf suffixPrec).append (by decide) _

end Rsj.Parser
