/-
  Object algebra of the evaluator model, part 4: one step into the evaluation
  monad.  `M`-computations are applied to a store and unfolded equationally
  (`bind_apply`, `get_apply`, … — the same technique as the `*_apply` lemmas of
  RsjProofs/EvalOnce.lean, restated here so that this file does not depend on it).
-/
import RsjProofs.EvalObjectAbs
set_option linter.unusedSimpArgs false
namespace Rsj.Eval.ObjM
open Rsj.Core Rsj.Eval

theorem bind_apply {α β} (x : M α) (f : α → M β) (st : St) :
    (x >>= f) st = match x st with
      | none => none
      | some (.ok a, s') => f a s'
      | some (.error e, s') => some (.error e, s') := by
  show (ExceptT.bind x f) st = _
  unfold ExceptT.bind ExceptT.bindCont ExceptT.mk
  show (StateT.bind x _) st = _
  unfold StateT.bind
  show (Option.bind (x st) _) = _
  cases h : x st with
  | none => rfl
  | some p =>
    obtain ⟨r, s'⟩ := p
    cases r <;> rfl

theorem get_apply (st : St) : (get : M St) st = some (.ok st, st) := rfl
theorem set_apply (st' st : St) : (set st' : M PUnit) st = some (.ok ⟨⟩, st') := rfl
theorem pure_apply {α} (a : α) (st : St) : (pure a : M α) st = some (.ok a, st) := rfl
theorem throw_apply {α} (e : Err) (st : St) : (throw e : M α) st = some (.error e, st) := rfl

theorem getObj_apply (o : OId) (st : St) :
    getObj o st = match st.objs[o]? with
      | some ob => some (.ok ob, st)
      | none => some (.error (.internal "attempted to access destroyed object"), st) := by
  unfold getObj
  rw [bind_apply, get_apply]
  simp only []
  cases h : st.objs[o]? <;> rfl

theorem allocObj_apply (ob : Obj) (st : St) :
    allocObj ob st = some (.ok st.objs.size, { st with objs := st.objs.push ob }) := by
  unfold allocObj
  rw [bind_apply, get_apply]
  simp only []
  rw [bind_apply, set_apply]
  rfl

/-- the `+` of two objects in `do_binary_op` -/
theorem binaryOp_add_obj (cfg : Cfg) (rec : Task → M Value) (a b : OId) (d : Nat) (hs : Bool) :
    binaryOp cfg rec .add (.obj a) (.obj b) d hs =
      (do let o ← allocObj (extendObject (← getObj a) (← getObj b)); pure (.obj o)) := by
  unfold binaryOp
  rfl

/-- `lhs + rhs` on objects, applied to a store: exactly one allocation, of
    `extendObject lhs rhs`; an id that is not in the store is the panic
    "attempted to access destroyed object" and changes nothing. -/
theorem binaryOp_add_obj_apply (cfg : Cfg) (rec : Task → M Value) (a b : OId) (d : Nat) (hs : Bool)
    (st : St) :
    binaryOp cfg rec .add (.obj a) (.obj b) d hs st =
      match st.objs[a]?, st.objs[b]? with
      | some oa, some ob =>
        some (.ok (.obj st.objs.size), { st with objs := st.objs.push (extendObject oa ob) })
      | _, _ => some (.error (.internal "attempted to access destroyed object"), st) := by
  rw [binaryOp_add_obj, bind_apply, getObj_apply]
  cases ha : st.objs[a]? with
  | none => rfl
  | some oa =>
    simp only []
    rw [bind_apply, getObj_apply]
    cases hb : st.objs[b]? with
    | none => rfl
    | some ob =>
      simp only []
      rw [bind_apply, allocObj_apply]
      rfl

/-- the `in` of `do_binary_op` -/
theorem binaryOp_in_obj_apply (cfg : Cfg) (rec : Task → M Value) (f : String) (o : OId) (d : Nat) (hs : Bool)
    (st : St) :
    binaryOp cfg rec .in_ (.str f) (.obj o) d hs st =
      match st.objs[o]? with
      | some ob => some (.ok (.bool (findField ob 0 f).isSome), st)
      | none => some (.error (.internal "attempted to access destroyed object"), st) := by
  have : binaryOp cfg rec .in_ (.str f) (.obj o) d hs =
      (do pure (.bool ((findField (← getObj o) 0 f).isSome))) := by
    unfold binaryOp; rfl
  rw [this, bind_apply, getObj_apply]
  cases ho : st.objs[o]? <;> rfl

/-! ### the builtins and `super` read the object through the same functions -/

/-- `std.length` on an object counts the visible fields -/
theorem std_length_obj_apply (rec : Task → M Value) (t : TId) (d1 : Nat) (st st1 : St) (o : OId) (ob : Obj)
    (hrec : rec (.force t d1) st = some (.ok (.obj o), st1)) (ho : st1.objs[o]? = some ob) :
    std_length rec t d1 st = some (.ok (.num (Float.ofNat (visibleFields ob).length)), st1) := by
  unfold std_length
  rw [bind_apply, hrec]
  simp only []
  rw [bind_apply, getObj_apply, ho]
  rfl

/-- `std.objectHasEx(o, f, hidden)`: `findField … 0` with hidden fields, `hasVisibleField` without -/
theorem std_objectHasEx_apply (rec : Task → M Value) (t0 t1 t2 : TId) (d1 : Nat) (st s1 s2 s3 : St)
    (o : OId) (f : String) (h : Bool) (ob : Obj)
    (h0 : rec (.force t0 d1) st = some (.ok (.obj o), s1))
    (h1 : rec (.force t1 d1) s1 = some (.ok (.str f), s2))
    (h2 : rec (.force t2 d1) s2 = some (.ok (.bool h), s3))
    (ho : s3.objs[o]? = some ob) :
    std_objectHasEx rec t0 t1 t2 d1 st =
      some (.ok (.bool (if h then (findField ob 0 f).isSome else hasVisibleField ob f)), s3) := by
  unfold std_objectHasEx
  rw [bind_apply, h0]
  simp only []
  rw [bind_apply, h1]
  simp only []
  rw [bind_apply, h2]
  simp only []
  rw [bind_apply, getObj_apply, ho]
  rfl


theorem getEnv_apply (e : EId) (st : St) :
    getEnv e st = match st.envs[e]? with
      | some s => some (.ok s, st)
      | none => some (.error (.internal "env data not set"), st) := by
  unfold getEnv
  rw [bind_apply, get_apply]
  simp only []
  cases h : st.envs[e]? <;> rfl

theorem getObjRef_apply (e : EId) (st : St) (E : Env) (r : ObjRef) (hE : st.envs[e]? = some E) (hr : E.obj = some r) :
    getObjRef e st = some (.ok r, st) := by
  unfold getObjRef
  rw [bind_apply, getEnv_apply, hE]
  simp only [hr]
  rfl

/-- `want_super_field`: `SuperWithoutSuperObject` exactly in the bottom layer, otherwise the
    lookup starts one layer below the layer of the environment -/
theorem wantSuperField_apply (cfg : Cfg) (rec : Task → M Value) (env : EId) (name : String) (d : Nat) (st : St)
    (E : Env) (r : ObjRef) (ob : Obj)
    (hE : st.envs[env]? = some E) (hr : E.obj = some r) (ho : st.objs[r.obj]? = some ob) :
    wantSuperField cfg rec env name d st =
      if r.layer + 1 = ob.layers.length then some (.error (.rt "SuperWithoutSuperObject" ""), st)
      else (fieldThunk r.obj (r.layer + 1) name >>= fun x =>
        match x with
        | some t => wantThunk cfg rec t d
        | none => throw (.rt "UnknownObjectField" name)) st := by
  unfold wantSuperField
  rw [bind_apply, getObjRef_apply env st E r hE hr]
  simp only []
  rw [bind_apply, getObj_apply, ho]
  simp only []
  by_cases h : r.layer + 1 = ob.layers.length
  · simp only [h, beq_self_eq_true, if_true]
    rfl
  · have hb : (r.layer + 1 == ob.layers.length) = false := by simp [h]
    simp only [h, hb, if_false]
    rfl

/-- `e in super`: the lookup one layer below the layer of the environment -/
theorem step_inSuper_apply (cfg : Cfg) (rec : Task → M Value) (le : Expr) (env : EId) (tail : Bool) (d : Nat)
    (st s1 : St) (n : String) (E : Env) (r : ObjRef) (ob : Obj)
    (hrec : rec (.eval le env false d) st = some (.ok (.str n), s1))
    (hE : s1.envs[env]? = some E) (hr : E.obj = some r) (ho : s1.objs[r.obj]? = some ob) :
    step cfg rec (.eval (.inSuper le) env tail d) st =
      some (.ok (.bool (findField ob (r.layer + 1) n).isSome), s1) := by
  have : step cfg rec (.eval (.inSuper le) env tail d) = (do
      match ← rec (.eval le env false d) with
      | .str n =>
        let r ← getObjRef env
        pure (.bool ((findField (← getObj r.obj) (r.layer + 1) n).isSome))
      | v => throw (.rt "InvalidBinaryOpTypes" s!"Rsj.Core.BinOp.in_/{typeName v}/Object")) := by
    unfold step; rfl
  rw [this, bind_apply, hrec]
  simp only []
  rw [bind_apply, getObjRef_apply env s1 E r hE hr]
  simp only []
  rw [bind_apply, getObj_apply, ho]
  rfl

end Rsj.Eval.ObjM
