/-
  Helper lemmas for property C06: uniqueness of round-to-nearest-even.
-/
import RsjModel.Dec
namespace Rsj.Dec

end Rsj.Dec
