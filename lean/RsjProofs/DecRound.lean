/-
  Helper lemmas for property C06: uniqueness of round-to-nearest-even
  (`isNearestEven` is satisfied by at most one bit pattern).
-/
import RsjModel.Dec
namespace Rsj.Dec

theorem scaled_succ (b : Nat) : scaled b < scaled (b + 1) := by
  unfold scaled
  have hP : (2 : Nat) ^ 52 = 4503599627370496 := by decide
  simp only [hP]
  by_cases hfr : b % 4503599627370496 + 1 < 4503599627370496
  · have h1 : (b + 1) / 4503599627370496 = b / 4503599627370496 := by omega
    have h2 : (b + 1) % 4503599627370496 = b % 4503599627370496 + 1 := by omega
    rw [h1, h2]
    by_cases he : b / 4503599627370496 = 0
    · simp only [he, if_true]; omega
    · simp only [he, if_false]
      exact Nat.mul_lt_mul_of_pos_right (by omega) (Nat.pow_pos (by omega))
  · have h1 : (b + 1) / 4503599627370496 = b / 4503599627370496 + 1 := by omega
    have h2 : (b + 1) % 4503599627370496 = 0 := by omega
    have h3 : b % 4503599627370496 = 4503599627370495 := by omega
    rw [h1, h2, h3]
    simp only [Nat.add_eq_zero_iff, Nat.one_ne_zero, and_false, if_false, Nat.add_zero]
    by_cases he : b / 4503599627370496 = 0
    · simp only [he, if_true]; omega
    · simp only [he, if_false]
      rw [Nat.pow_succ]
      generalize hQ : 2 ^ (b / 4503599627370496) = Q
      have hQpos : 0 < Q := by rw [← hQ]; exact Nat.pow_pos (by omega)
      omega

theorem scaled_mono {a b : Nat} (h : a < b) : scaled a < scaled b := by
  induction b with
  | zero => omega
  | succ b ih =>
    by_cases hab : a = b
    · subst hab; exact scaled_succ a
    · exact Nat.lt_trans (ih (by omega)) (scaled_succ b)

theorem midSum_mono {a b : Nat} (h : a < b) : midSum a < midSum b := by
  unfold midSum
  have h1 := scaled_mono h
  have h2 : scaled (a + 1) < scaled (b + 1) := scaled_mono (by omega)
  omega

theorem midSum_mono_le {a b : Nat} (h : a ≤ b) : midSum a ≤ midSum b := by
  by_cases hab : a = b
  · subst hab; exact Nat.le_refl _
  · exact Nat.le_of_lt (midSum_mono (by omega))

/-- The two bounds contained in `isNearestEven`. -/
theorem isNearestEven_bounds {num den b : Nat} (h : isNearestEven num den b = true) :
    0 < den ∧ b ≤ INF_BITS ∧
    (b ≠ 0 → midSum (b - 1) * den ≤ 2 * (num * 2 ^ 1075) ∧
       (b % 2 = 1 → midSum (b - 1) * den < 2 * (num * 2 ^ 1075))) ∧
    (b ≠ INF_BITS → 2 * (num * 2 ^ 1075) ≤ midSum b * den ∧
       (b % 2 = 1 → 2 * (num * 2 ^ 1075) < midSum b * den)) := by
  unfold isNearestEven at h
  simp only [Bool.and_eq_true, decide_eq_true_eq, Bool.or_eq_true, beq_iff_eq] at h
  obtain ⟨⟨hden, hb⟩, hlo, hhi⟩ := h
  refine ⟨hden, hb, ?_, ?_⟩
  · intro hb0
    rcases hlo with hlo | hlo
    · exact absurd hlo hb0
    · by_cases hev : b % 2 = 0
      · simp only [hev, if_true, decide_eq_true_eq] at hlo
        exact ⟨hlo, fun h1 => by omega⟩
      · simp only [hev, if_false, decide_eq_true_eq] at hlo
        exact ⟨Nat.le_of_lt hlo, fun _ => hlo⟩
  · intro hbi
    rcases hhi with hhi | hhi
    · exact absurd hhi hbi
    · by_cases hev : b % 2 = 0
      · simp only [hev, if_true, decide_eq_true_eq] at hhi
        exact ⟨hhi, fun h1 => by omega⟩
      · simp only [hev, if_false, decide_eq_true_eq] at hhi
        exact ⟨Nat.le_of_lt hhi, fun _ => hhi⟩

theorem nearestEven_lt_absurd {num den b1 b2 : Nat}
    (h1 : isNearestEven num den b1 = true) (h2 : isNearestEven num den b2 = true)
    (hlt : b1 < b2) : False := by
  obtain ⟨hden, _, _, hhi1⟩ := isNearestEven_bounds h1
  obtain ⟨_, hb2, hlo2, _⟩ := isNearestEven_bounds h2
  have ⟨hA, hA'⟩ := hhi1 (by omega)
  have ⟨hB, hB'⟩ := hlo2 (by omega)
  have hle : midSum b1 * den ≤ midSum (b2 - 1) * den :=
    Nat.mul_le_mul_right _ (midSum_mono_le (by omega))
  generalize 2 * (num * 2 ^ 1075) = N at *
  by_cases ho1 : b1 % 2 = 1
  · have := hA' ho1; omega
  · by_cases ho2 : b2 % 2 = 1
    · have := hB' ho2; omega
    · -- both even, hence b1 < b2 - 1 and the midpoints differ strictly
      have hlt' : midSum b1 < midSum (b2 - 1) := midSum_mono (by omega)
      have : midSum b1 * den < midSum (b2 - 1) * den := Nat.mul_lt_mul_of_pos_right hlt' hden
      omega

theorem nearestEven_unique {num den b1 b2 : Nat}
    (h1 : isNearestEven num den b1 = true) (h2 : isNearestEven num den b2 = true) : b1 = b2 := by
  rcases Nat.lt_trichotomy b1 b2 with h | h | h
  · exact (nearestEven_lt_absurd h1 h2 h).elim
  · exact h
  · exact (nearestEven_lt_absurd h2 h1 h).elim

/-! ### the executable `roundNE` satisfies the specification -/

/-- `floorBits` as a function of `t = ⌊num · 2^1075 / den⌋`. -/
def fbT (t : Nat) : Nat :=
  if t < 2 ^ 53 then t / 2
  else
    let eb := t.log2 - 52
    if eb ≥ 2047 then INF_BITS else eb * 2 ^ 52 + (t / 2 ^ eb - 2 ^ 52)

theorem floorBits_eq (num den : Nat) : floorBits num den = fbT (num * 2 ^ 1075 / den) := rfl

theorem scaled_INF : scaled INF_BITS = 2 ^ 52 * 2 ^ 2047 := by
  unfold scaled INF_BITS
  have h1 : 0x7FF0000000000000 / 2 ^ 52 = 2047 := by decide
  have h2 : 0x7FF0000000000000 % 2 ^ 52 = 0 := by decide
  rw [h1, h2]; simp

theorem fbT_spec (t : Nat) :
    fbT t ≤ INF_BITS ∧ scaled (fbT t) ≤ t ∧ (fbT t ≠ INF_BITS → t < scaled (fbT t + 1)) := by
  have hP52 : (2 : Nat) ^ 52 = 4503599627370496 := by decide
  have hP53 : (2 : Nat) ^ 53 = 9007199254740992 := by decide
  have hINF : INF_BITS = 9218868437227405312 := by decide
  unfold fbT
  by_cases hsmall : t < 2 ^ 53
  · -- subnormal range and the first binade
    rw [if_pos hsmall]
    rw [hP53] at hsmall
    refine ⟨by rw [hINF]; omega, ?_, ?_⟩
    · unfold scaled; rw [hP52]
      have : t / 2 / 4503599627370496 = 0 := by omega
      rw [if_pos this]; omega
    · intro _
      unfold scaled; rw [hP52]
      by_cases hb : t / 2 + 1 < 4503599627370496
      · have : (t / 2 + 1) / 4503599627370496 = 0 := by omega
        rw [if_pos this]; omega
      · have h1 : (t / 2 + 1) / 4503599627370496 = 1 := by omega
        have h2 : (t / 2 + 1) % 4503599627370496 = 0 := by omega
        rw [h1, h2]; simp; omega
  · rw [if_neg hsmall]
    have ht0 : t ≠ 0 := by
      intro h; rw [h] at hsmall; exact hsmall (by decide)
    have hL1 : 2 ^ t.log2 ≤ t := Nat.log2_self_le ht0
    have hL2 : t < 2 ^ (t.log2 + 1) := Nat.lt_log2_self
    have hL53 : 53 ≤ t.log2 := by
      apply Nat.le_of_not_lt
      intro h
      exact hsmall ((Nat.log2_lt ht0).mp h)
    generalize hL : t.log2 = L at *
    obtain ⟨eb, rfl⟩ : ∃ eb, L = eb + 52 := ⟨L - 52, by omega⟩
    have heb1 : 1 ≤ eb := by omega
    simp only [Nat.add_sub_cancel]
    by_cases hbig : eb ≥ 2047
    · simp only [hbig, if_true]
      refine ⟨Nat.le_refl _, ?_, fun h => absurd rfl h⟩
      rw [scaled_INF, ← Nat.pow_add]
      exact Nat.le_trans (Nat.pow_le_pow_right (by omega) (by omega)) hL1
    · simp only [hbig, if_false]
      have hQpos : 0 < 2 ^ eb := Nat.pow_pos (by omega)
      have hsplit1 : 2 ^ (eb + 52) = 2 ^ 52 * 2 ^ eb := by rw [Nat.add_comm, Nat.pow_add]
      have hsplit2 : 2 ^ (eb + 52 + 1) = 2 ^ 53 * 2 ^ eb := by
        rw [show eb + 52 + 1 = 53 + eb by omega, Nat.pow_add]
      have hq1 : 2 ^ 52 ≤ t / 2 ^ eb := by
        rw [Nat.le_div_iff_mul_le hQpos, ← hsplit1]; exact hL1
      have hq2 : t / 2 ^ eb < 2 ^ 53 := by
        rw [Nat.div_lt_iff_lt_mul hQpos, ← hsplit2]; exact hL2
      have hle : t / 2 ^ eb * 2 ^ eb ≤ t := Nat.div_mul_le_self _ _
      have hlt : t < t / 2 ^ eb * 2 ^ eb + 2 ^ eb := Nat.lt_div_mul_add hQpos
      generalize hq : t / 2 ^ eb = q at *
      generalize hQ : 2 ^ eb = Q at *
      rw [hP52] at hq1 ⊢
      rw [hP53] at hq2
      refine ⟨by rw [hINF]; omega, ?_, ?_⟩
      · unfold scaled; rw [hP52]
        have h1 : (eb * 4503599627370496 + (q - 4503599627370496)) / 4503599627370496 = eb := by omega
        have h2 : (eb * 4503599627370496 + (q - 4503599627370496)) % 4503599627370496
            = q - 4503599627370496 := by omega
        rw [h1, h2, if_neg (by omega), hQ]
        have : 4503599627370496 + (q - 4503599627370496) = q := by omega
        rw [this]; exact hle
      · intro _
        unfold scaled; rw [hP52]
        by_cases hfr : q - 4503599627370496 + 1 < 4503599627370496
        · have h1 : (eb * 4503599627370496 + (q - 4503599627370496) + 1) / 4503599627370496 = eb := by
            omega
          have h2 : (eb * 4503599627370496 + (q - 4503599627370496) + 1) % 4503599627370496
              = q - 4503599627370496 + 1 := by omega
          rw [h1, h2, if_neg (by omega), hQ]
          have : 4503599627370496 + (q - 4503599627370496 + 1) = q + 1 := by omega
          rw [this, Nat.add_mul, Nat.one_mul]; exact hlt
        · have h1 : (eb * 4503599627370496 + (q - 4503599627370496) + 1) / 4503599627370496
              = eb + 1 := by omega
          have h2 : (eb * 4503599627370496 + (q - 4503599627370496) + 1) % 4503599627370496 = 0 := by
            omega
          rw [h1, h2, if_neg (by omega), Nat.pow_succ, hQ]
          have hqv : q = 9007199254740991 := by omega
          subst hqv
          omega

theorem floorBits_spec (num den : Nat) (hden : 0 < den) :
    floorBits num den ≤ INF_BITS ∧ scaled (floorBits num den) * den ≤ num * 2 ^ 1075 ∧
    (floorBits num den ≠ INF_BITS → num * 2 ^ 1075 < scaled (floorBits num den + 1) * den) := by
  rw [floorBits_eq]
  generalize num * 2 ^ 1075 = X
  obtain ⟨h1, h2, h3⟩ := fbT_spec (X / den)
  have hle : X / den * den ≤ X := Nat.div_mul_le_self _ _
  have hlt : X < X / den * den + den := Nat.lt_div_mul_add hden
  refine ⟨h1, Nat.le_trans (Nat.mul_le_mul_right _ h2) hle, ?_⟩
  intro hne
  have h4 : X / den + 1 ≤ scaled (fbT (X / den) + 1) := h3 hne
  have : (X / den + 1) * den ≤ scaled (fbT (X / den) + 1) * den := Nat.mul_le_mul_right _ h4
  rw [Nat.add_mul, Nat.one_mul] at this
  omega

/-- **roundNE is correct**: the computed bit pattern satisfies `isNearestEven`. -/
theorem roundNE_spec (num den : Nat) (hden : 0 < den) :
    isNearestEven num den (roundNE num den) = true := by
  unfold roundNE
  dsimp only
  split
  · next h => exact h
  · next hnot =>
    obtain ⟨hb, hlo, hhi⟩ := floorBits_spec num den hden
    generalize floorBits num den = b at *
    generalize hX : num * 2 ^ 1075 = X at *
    -- the lower bound of `b` always holds; so `b < INF_BITS` and the upper bound fails
    have hlow : b ≠ 0 → midSum (b - 1) * den < 2 * X := by
      intro hb0
      have h1 : scaled (b - 1) < scaled b := scaled_mono (by omega)
      have hb1 : b - 1 + 1 = b := by omega
      have : midSum (b - 1) < 2 * scaled b := by unfold midSum; rw [hb1]; omega
      have h2 : midSum (b - 1) * den < 2 * scaled b * den := Nat.mul_lt_mul_of_pos_right this hden
      have h3 : 2 * scaled b * den = 2 * (scaled b * den) := Nat.mul_assoc _ _ _
      omega
    by_cases hbi : b = INF_BITS
    · exfalso
      apply hnot
      unfold isNearestEven
      simp only [Bool.and_eq_true, decide_eq_true_eq, Bool.or_eq_true, beq_iff_eq, hX]
      refine ⟨⟨hden, hb⟩, ?_, Or.inl hbi⟩
      by_cases hb0 : b = 0
      · exact Or.inl hb0
      · right
        have := hlow hb0
        split
        · exact decide_eq_true (Nat.le_of_lt this)
        · exact decide_eq_true this
    · have hhi' := hhi hbi
      have hup : 2 * X < midSum (b + 1) * den := by
        have h1 : scaled (b + 1) < scaled (b + 1 + 1) := scaled_mono (by omega)
        have : 2 * scaled (b + 1) < midSum (b + 1) := by unfold midSum; omega
        have h2 : 2 * scaled (b + 1) * den < midSum (b + 1) * den :=
          Nat.mul_lt_mul_of_pos_right this hden
        have h3 : 2 * scaled (b + 1) * den = 2 * (scaled (b + 1) * den) := Nat.mul_assoc _ _ _
        omega
      -- the failed upper bound of `b`
      have hfail : (b % 2 = 0 → midSum b * den < 2 * X) ∧ (b % 2 = 1 → midSum b * den ≤ 2 * X) := by
        constructor
        · intro hev
          apply Nat.lt_of_not_le
          intro hle
          apply hnot
          unfold isNearestEven
          simp only [Bool.and_eq_true, decide_eq_true_eq, Bool.or_eq_true, beq_iff_eq, hX]
          refine ⟨⟨hden, hb⟩, ?_, Or.inr ?_⟩
          · by_cases hb0 : b = 0
            · exact Or.inl hb0
            · right; simp only [hev, if_true]; exact decide_eq_true (Nat.le_of_lt (hlow hb0))
          · simp only [hev, if_true]; exact decide_eq_true hle
        · intro hod
          apply Nat.le_of_not_lt
          intro hlt
          apply hnot
          unfold isNearestEven
          simp only [Bool.and_eq_true, decide_eq_true_eq, Bool.or_eq_true, beq_iff_eq, hX]
          have hne : ¬ (b % 2 = 0) := by omega
          refine ⟨⟨hden, hb⟩, ?_, Or.inr ?_⟩
          · by_cases hb0 : b = 0
            · exact Or.inl hb0
            · right; simp only [hne, if_false]; exact decide_eq_true (hlow hb0)
          · simp only [hne, if_false]; exact decide_eq_true hlt
      unfold isNearestEven
      simp only [Bool.and_eq_true, decide_eq_true_eq, Bool.or_eq_true, beq_iff_eq, hX]
      have hb1 : b + 1 - 1 = b := by omega
      refine ⟨⟨hden, by omega⟩, Or.inr ?_, ?_⟩
      · rw [hb1]
        by_cases hev : (b + 1) % 2 = 0
        · simp only [hev, if_true]; exact decide_eq_true (hfail.2 (by omega))
        · simp only [hev, if_false]; exact decide_eq_true (hfail.1 (by omega))
      · by_cases hbi' : b + 1 = INF_BITS
        · exact Or.inl hbi'
        · right
          by_cases hev : (b + 1) % 2 = 0
          · simp only [hev, if_true]; exact decide_eq_true (Nat.le_of_lt hup)
          · simp only [hev, if_false]; exact decide_eq_true hup

end Rsj.Dec
