/-
  Helper lemmas for property C06: uniqueness of round-to-nearest-even
  (`isNearestEven` is satisfied by at most one bit pattern).
-/
import RsjModel.Dec
namespace Rsj.Dec

theorem scaled_succ (b : Nat) : scaled b < scaled (b + 1) := by
  unfold scaled
  have hP : (2 : Nat) ^ 52 = 4503599627370496 := by decide
  simp only [hP]
  by_cases hfr : b % 4503599627370496 + 1 < 4503599627370496
  · have h1 : (b + 1) / 4503599627370496 = b / 4503599627370496 := by omega
    have h2 : (b + 1) % 4503599627370496 = b % 4503599627370496 + 1 := by omega
    rw [h1, h2]
    by_cases he : b / 4503599627370496 = 0
    · simp only [he, if_true]; omega
    · simp only [he, if_false]
      exact Nat.mul_lt_mul_of_pos_right (by omega) (Nat.pow_pos (by omega))
  · have h1 : (b + 1) / 4503599627370496 = b / 4503599627370496 + 1 := by omega
    have h2 : (b + 1) % 4503599627370496 = 0 := by omega
    have h3 : b % 4503599627370496 = 4503599627370495 := by omega
    rw [h1, h2, h3]
    simp only [Nat.add_eq_zero_iff, Nat.one_ne_zero, and_false, if_false, Nat.add_zero]
    by_cases he : b / 4503599627370496 = 0
    · simp only [he, if_true]; omega
    · simp only [he, if_false]
      rw [Nat.pow_succ]
      generalize hQ : 2 ^ (b / 4503599627370496) = Q
      have hQpos : 0 < Q := by rw [← hQ]; exact Nat.pow_pos (by omega)
      omega

theorem scaled_mono {a b : Nat} (h : a < b) : scaled a < scaled b := by
  induction b with
  | zero => omega
  | succ b ih =>
    by_cases hab : a = b
    · subst hab; exact scaled_succ a
    · exact Nat.lt_trans (ih (by omega)) (scaled_succ b)

theorem midSum_mono {a b : Nat} (h : a < b) : midSum a < midSum b := by
  unfold midSum
  have h1 := scaled_mono h
  have h2 : scaled (a + 1) < scaled (b + 1) := scaled_mono (by omega)
  omega

theorem midSum_mono_le {a b : Nat} (h : a ≤ b) : midSum a ≤ midSum b := by
  by_cases hab : a = b
  · subst hab; exact Nat.le_refl _
  · exact Nat.le_of_lt (midSum_mono (by omega))

/-- The two bounds contained in `isNearestEven`. -/
theorem isNearestEven_bounds {num den b : Nat} (h : isNearestEven num den b = true) :
    0 < den ∧ b ≤ INF_BITS ∧
    (b ≠ 0 → midSum (b - 1) * den ≤ 2 * (num * 2 ^ 1075) ∧
       (b % 2 = 1 → midSum (b - 1) * den < 2 * (num * 2 ^ 1075))) ∧
    (b ≠ INF_BITS → 2 * (num * 2 ^ 1075) ≤ midSum b * den ∧
       (b % 2 = 1 → 2 * (num * 2 ^ 1075) < midSum b * den)) := by
  unfold isNearestEven at h
  simp only [Bool.and_eq_true, decide_eq_true_eq, Bool.or_eq_true, beq_iff_eq] at h
  obtain ⟨⟨hden, hb⟩, hlo, hhi⟩ := h
  refine ⟨hden, hb, ?_, ?_⟩
  · intro hb0
    rcases hlo with hlo | hlo
    · exact absurd hlo hb0
    · by_cases hev : b % 2 = 0
      · simp only [hev, if_true, decide_eq_true_eq] at hlo
        exact ⟨hlo, fun h1 => by omega⟩
      · simp only [hev, if_false, decide_eq_true_eq] at hlo
        exact ⟨Nat.le_of_lt hlo, fun _ => hlo⟩
  · intro hbi
    rcases hhi with hhi | hhi
    · exact absurd hhi hbi
    · by_cases hev : b % 2 = 0
      · simp only [hev, if_true, decide_eq_true_eq] at hhi
        exact ⟨hhi, fun h1 => by omega⟩
      · simp only [hev, if_false, decide_eq_true_eq] at hhi
        exact ⟨Nat.le_of_lt hhi, fun _ => hhi⟩

theorem nearestEven_lt_absurd {num den b1 b2 : Nat}
    (h1 : isNearestEven num den b1 = true) (h2 : isNearestEven num den b2 = true)
    (hlt : b1 < b2) : False := by
  obtain ⟨hden, _, _, hhi1⟩ := isNearestEven_bounds h1
  obtain ⟨_, hb2, hlo2, _⟩ := isNearestEven_bounds h2
  have ⟨hA, hA'⟩ := hhi1 (by omega)
  have ⟨hB, hB'⟩ := hlo2 (by omega)
  have hle : midSum b1 * den ≤ midSum (b2 - 1) * den :=
    Nat.mul_le_mul_right _ (midSum_mono_le (by omega))
  generalize 2 * (num * 2 ^ 1075) = N at *
  by_cases ho1 : b1 % 2 = 1
  · have := hA' ho1; omega
  · by_cases ho2 : b2 % 2 = 1
    · have := hB' ho2; omega
    · -- both even, hence b1 < b2 - 1 and the midpoints differ strictly
      have hlt' : midSum b1 < midSum (b2 - 1) := midSum_mono (by omega)
      have : midSum b1 * den < midSum (b2 - 1) * den := Nat.mul_lt_mul_of_pos_right hlt' hden
      omega

theorem nearestEven_unique {num den b1 b2 : Nat}
    (h1 : isNearestEven num den b1 = true) (h2 : isNearestEven num den b2 = true) : b1 = b2 := by
  rcases Nat.lt_trichotomy b1 b2 with h | h | h
  · exact (nearestEven_lt_absurd h1 h2 h).elim
  · exact h
  · exact (nearestEven_lt_absurd h2 h1 h).elim

end Rsj.Dec
