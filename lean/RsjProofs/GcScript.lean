/-
  The scripted driver (`St.step`, `runScript`): every state it produces satisfies the
  representation invariants, `Gc::view` never fails, and the final answer is `end#0`.
-/
import RsjProofs.GcCorollaries
namespace Rsj.Gc

def Held.pos (h : Held) : Prop := h.handles > 0 ∨ h.views > 0

structure Valid (s : St) : Prop where
  wf : WF s.heap
  clean : Clean s.heap
  bound : ∀ o ∈ s.heap, o.id < s.held.length
  /-- the counts stored in the objects are the numbers of handles / views the driver holds -/
  sync : ∀ o ∈ s.heap, s.held[o.id]? = some ⟨o.ext, o.views⟩
  /-- a node of which the driver holds a handle or a view has not been reclaimed -/
  present : ∀ i h, s.held[i]? = some h → h.pos → i ∈ ids s.heap

theorem Valid.init : Valid { heap := [], held := [] } := by
  refine ⟨List.nodup_nil, ?_, ?_, ?_, ?_⟩
  · intro o ho; cases ho
  · intro o ho; cases ho
  · intro o ho; cases ho
  · intro i h hh _
    change ([] : List Held)[i]? = some h at hh
    rw [List.getElem?_nil] at hh; cases hh

theorem mem_updObj {H : Heap} {i : Nat} {f : Obj → Obj} {o' : Obj} :
    o' ∈ updObj H i f ↔ ∃ o ∈ H, (if o.id == i then f o else o) = o' := by
  unfold updObj; exact List.mem_map

theorem ids_updObj {H : Heap} {i : Nat} {f : Obj → Obj} (hf : ∀ o, (f o).id = o.id) :
    ids (updObj H i f) = ids H := by
  unfold ids updObj
  rw [List.map_map]
  apply List.map_congr_left
  intro o _
  simp only [Function.comp]
  split
  · exact hf o
  · rfl

theorem updHeld_length (hs : List Held) (i : Nat) (g : Held → Held) :
    (updHeld hs i g).length = hs.length := by
  unfold updHeld; cases hs[i]? <;> simp

theorem updHeld_ne (hs : List Held) {i k : Nat} (g : Held → Held) (h : k ≠ i) :
    (updHeld hs i g)[k]? = hs[k]? := by
  unfold updHeld
  cases hs[i]? with
  | none => rfl
  | some x => simp only; rw [List.getElem?_set_ne (Ne.symm h)]

theorem updHeld_self (hs : List Held) (i : Nat) (g : Held → Held) :
    (updHeld hs i g)[i]? = (hs[i]?).map g := by
  unfold updHeld
  cases hi : hs[i]? with
  | none => simp [hi]
  | some x =>
    have hlt : i < hs.length := by
      rcases List.getElem?_eq_some_iff.mp hi with ⟨w, _⟩; exact w
    simp only [Option.map_some]
    rw [List.getElem?_set_self hlt]

/-- Updating one node (object and/or driver record) consistently keeps the state valid. -/
theorem Valid.update {s : St} (v : Valid s) (i : Nat) (f : Obj → Obj) (held' : List Held)
    (g : Held → Held)
    (hfid : ∀ o, (f o).id = o.id) (hfv : ∀ o, (f o).visits = o.visits)
    (hfm : ∀ o, (f o).mark = o.mark)
    (hlen : held'.length = s.held.length)
    (hother : ∀ k, k ≠ i → held'[k]? = s.held[k]?)
    (hat : held'[i]? = (s.held[i]?).map g)
    (hsync : ∀ o, g ⟨o.ext, o.views⟩ = ⟨(f o).ext, (f o).views⟩)
    (hpos : ∀ h, s.held[i]? = some h → (g h).pos → i ∈ ids s.heap) :
    Valid { heap := updObj s.heap i f, held := held' } := by
  refine ⟨?_, ?_, ?_, ?_, ?_⟩
  · show WF (updObj s.heap i f)
    unfold WF; rw [ids_updObj hfid]; exact v.wf
  · intro o' ho'
    obtain ⟨o, ho, rfl⟩ := mem_updObj.mp ho'
    split
    · rw [hfv, hfm]; exact v.clean o ho
    · exact v.clean o ho
  · intro o' ho'
    obtain ⟨o, ho, rfl⟩ := mem_updObj.mp ho'
    show _ < held'.length
    rw [hlen]
    split
    · rw [hfid]; exact v.bound o ho
    · exact v.bound o ho
  · intro o' ho'
    obtain ⟨o, ho, rfl⟩ := mem_updObj.mp ho'
    show held'[_]? = _
    by_cases hi : o.id = i
    · have hb : (o.id == i) = true := by simpa using hi
      simp only [hb, if_true, hfid]
      rw [hi, hat, ← hi, v.sync o ho, Option.map_some, hsync]
    · have hb : (o.id == i) = false := by simpa using hi
      simp only [hb, Bool.false_eq_true, if_false]
      rw [hother _ hi]; exact v.sync o ho
  · intro k h hk hp
    show k ∈ ids (updObj s.heap i f)
    rw [ids_updObj hfid]
    change held'[k]? = some h at hk
    by_cases hki : k = i
    · subst hki
      rw [hat] at hk
      cases hs : s.held[k]? with
      | none => rw [hs] at hk; cases hk
      | some h0 =>
        rw [hs, Option.map_some] at hk
        cases hk
        exact hpos h0 hs hp
    · rw [hother k hki] at hk
      exact v.present k h hk hp

theorem St.arg_some {s : St} {a : Option Nat} {i : Nat} (h : s.arg a = some i) :
    i < s.held.length := by
  unfold St.arg at h
  cases a with
  | none => cases h
  | some k =>
    simp only at h
    split at h
    · cases h; assumption
    · cases h

theorem St.canReach_true {s : St} {i : Nat} (h : s.canReach i = true) :
    ∃ hd, s.held[i]? = some hd ∧ hd.pos := by
  unfold St.canReach at h
  cases hs : s.held[i]? with
  | none => rw [hs] at h; cases h
  | some hd =>
    rw [hs] at h
    refine ⟨hd, rfl, ?_⟩
    unfold Held.pos
    simp only [Bool.or_eq_true, decide_eq_true_eq] at h
    exact h

theorem Valid.find_some {s : St} (v : Valid s) {i : Nat} (h : s.canReach i = true) :
    ∃ o, find s.heap i = some o := by
  obtain ⟨hd, h1, h2⟩ := St.canReach_true h
  have := v.present i hd h1 h2
  cases hf : find s.heap i with
  | none => exact absurd this (find_none.mp hf)
  | some o => exact ⟨o, rfl⟩

theorem Valid.alloc {s : St} (v : Valid s) (e vw : Nat) :
    Valid { heap := s.heap ++ [{ id := s.held.length, edges := [], views := vw, ext := e,
                                 visits := 0, mark := false }],
            held := s.held ++ [{ handles := e, views := vw }] } := by
  refine ⟨?_, ?_, ?_, ?_, ?_⟩
  · show WF (_ ++ _)
    unfold WF; rw [ids_append, List.nodup_append]
    refine ⟨v.wf, by simp [ids], ?_⟩
    intro a ha b hb
    obtain ⟨o, ho, rfl⟩ := mem_ids.mp ha
    have := v.bound o ho
    simp [ids] at hb
    omega
  · intro o ho
    rcases List.mem_append.mp ho with h | h
    · exact v.clean o h
    · rw [List.mem_singleton.mp h]; exact ⟨rfl, rfl⟩
  · intro o ho
    show _ < (s.held ++ _).length
    rw [List.length_append]
    rcases List.mem_append.mp ho with h | h
    · have := v.bound o h; omega
    · rw [List.mem_singleton.mp h]; simp
  · intro o ho
    show (s.held ++ _)[_]? = _
    rcases List.mem_append.mp ho with h | h
    · rw [List.getElem?_append_left (v.bound o h)]; exact v.sync o h
    · rw [List.mem_singleton.mp h]
      simp
  · intro k h hk hpk
    show k ∈ ids (_ ++ _)
    change (s.held ++ _)[k]? = some h at hk
    rw [ids_append]
    by_cases hlt : k < s.held.length
    · rw [List.getElem?_append_left hlt] at hk
      exact List.mem_append_left _ (v.present k h hk hpk)
    · have hge : s.held.length ≤ k := by omega
      rw [List.getElem?_append_right hge] at hk
      have : k - s.held.length = 0 := by
        cases hkk : k - s.held.length with
        | zero => rfl
        | succ m => rw [hkk] at hk; simp at hk
      have : k = s.held.length := by omega
      subst this
      exact List.mem_append_right _ (by simp [ids])

theorem Valid.collect {s : St} (v : Valid s) : Valid { s with heap := collect s.heap } := by
  have hex := collect_exact v.wf v.clean
  refine ⟨collect_wf v.wf v.clean, collect_clean _, ?_, ?_, ?_⟩
  · intro o ho; exact v.bound o ((hex o).mp ho).1
  · intro o ho; exact v.sync o ((hex o).mp ho).1
  · intro i h hi hp
    obtain ⟨o, ho, hid⟩ := mem_ids.mp (v.present i h hi hp)
    have hs := v.sync o ho
    rw [hid, hi] at hs
    cases hs
    have hroot : IsRoot o := by
      unfold IsRoot; unfold Held.pos at hp; simp only at hp; omega
    exact mem_ids.mpr ⟨o, (hex o).mpr ⟨ho, Reach.root ho hroot⟩, hid⟩

/-- Every driver operation succeeds (no "attempted to access destroyed object") and keeps the
    state valid. -/
theorem Valid.step {s : St} (v : Valid s) (op : Op) :
    ∃ s' r, s.step op = some (s', r) ∧ Valid s' := by
  cases op with
  | alloc => exact ⟨_, _, rfl, v.alloc 1 0⟩
  | allocView => exact ⟨_, _, rfl, v.alloc 0 1⟩
  | handle a =>
    simp only [St.step]
    cases ha : s.arg a with
    | none => exact ⟨_, _, rfl, v⟩
    | some i =>
      simp only
      cases hc : s.canReach i with
      | false => exact ⟨_, _, rfl, v⟩
      | true =>
        simp only [if_true]
        refine ⟨_, _, rfl, ?_⟩
        obtain ⟨hd, h1, h2⟩ := St.canReach_true hc
        exact v.update i _ _ (fun h => { h with handles := h.handles + 1 })
          (fun _ => rfl) (fun _ => rfl) (fun _ => rfl)
          (updHeld_length _ _ _) (fun k hk => updHeld_ne _ _ hk) (updHeld_self _ _ _)
          (fun _ => rfl) (fun h hh _ => v.present i hd h1 h2)
  | view a =>
    simp only [St.step]
    cases ha : s.arg a with
    | none => exact ⟨_, _, rfl, v⟩
    | some i =>
      simp only
      cases hc : s.canReach i with
      | false => exact ⟨_, _, rfl, v⟩
      | true =>
        simp only [if_true]
        obtain ⟨o, hf⟩ := v.find_some hc
        rw [hf]
        refine ⟨_, _, rfl, ?_⟩
        obtain ⟨hd, h1, h2⟩ := St.canReach_true hc
        exact v.update i _ _ (fun h => { h with views := h.views + 1 })
          (fun _ => rfl) (fun _ => rfl) (fun _ => rfl)
          (updHeld_length _ _ _) (fun k hk => updHeld_ne _ _ hk) (updHeld_self _ _ _)
          (fun _ => rfl) (fun h hh _ => v.present i hd h1 h2)
  | dropHandle a =>
    simp only [St.step]
    cases ha : s.arg a with
    | none => exact ⟨_, _, rfl, v⟩
    | some i =>
      simp only
      cases hh : s.held[i]? with
      | none => exact ⟨_, _, rfl, v⟩
      | some hd =>
        simp only
        by_cases hpos : hd.handles > 0
        · rw [if_pos hpos]
          refine ⟨_, _, rfl, ?_⟩
          refine v.update i _ _ (fun h => { h with handles := h.handles - 1 })
            (fun _ => rfl) (fun _ => rfl) (fun _ => rfl)
            (updHeld_length _ _ _) (fun k hk => updHeld_ne _ _ hk) (updHeld_self _ _ _)
            (fun _ => rfl) ?_
          intro h hh' hp
          refine v.present i h hh' ?_
          unfold Held.pos at hp ⊢; simp only at hp; omega
        · rw [if_neg hpos]; exact ⟨_, _, rfl, v⟩
  | dropView a =>
    simp only [St.step]
    cases ha : s.arg a with
    | none => exact ⟨_, _, rfl, v⟩
    | some i =>
      simp only
      cases hh : s.held[i]? with
      | none => exact ⟨_, _, rfl, v⟩
      | some hd =>
        simp only
        by_cases hpos : hd.views > 0
        · rw [if_pos hpos]
          refine ⟨_, _, rfl, ?_⟩
          refine v.update i _ _ (fun h => { h with views := h.views - 1 })
            (fun _ => rfl) (fun _ => rfl) (fun _ => rfl)
            (updHeld_length _ _ _) (fun k hk => updHeld_ne _ _ hk) (updHeld_self _ _ _)
            (fun _ => rfl) ?_
          intro h hh' hp
          refine v.present i h hh' ?_
          unfold Held.pos at hp ⊢; simp only at hp; omega
        · rw [if_neg hpos]; exact ⟨_, _, rfl, v⟩
  | edge a b =>
    simp only [St.step]
    cases ha : s.arg a with
    | none => exact ⟨_, _, rfl, v⟩
    | some i =>
      cases hb : s.arg b with
      | none => exact ⟨_, _, rfl, v⟩
      | some j =>
        simp only
        cases hc : (s.canReach i && s.canReach j) with
        | false => exact ⟨_, _, rfl, v⟩
        | true =>
          simp only [if_true]
          have hci : s.canReach i = true := by
            simp only [Bool.and_eq_true] at hc; exact hc.1
          obtain ⟨o, hf⟩ := v.find_some hci
          rw [hf]
          refine ⟨_, _, rfl, ?_⟩
          obtain ⟨hd, h1, h2⟩ := St.canReach_true hci
          exact v.update i _ s.held id
            (fun _ => rfl) (fun _ => rfl) (fun _ => rfl)
            rfl (fun k hk => rfl) (by simp)
            (fun _ => rfl) (fun h hh _ => v.present i hd h1 h2)
  | delEdge a b =>
    simp only [St.step]
    cases ha : s.arg a with
    | none => exact ⟨_, _, rfl, v⟩
    | some i =>
      cases hb : s.arg b with
      | none => exact ⟨_, _, rfl, v⟩
      | some j =>
        simp only
        cases hc : s.canReach i with
        | false => exact ⟨_, _, rfl, v⟩
        | true =>
          simp only [if_true]
          obtain ⟨o, hf⟩ := v.find_some hc
          rw [hf]
          simp only
          cases he : o.edges.contains j with
          | false => exact ⟨_, _, rfl, v⟩
          | true =>
            simp only [if_true]
            refine ⟨_, _, rfl, ?_⟩
            obtain ⟨hd, h1, h2⟩ := St.canReach_true hc
            exact v.update i _ s.held id
              (fun _ => rfl) (fun _ => rfl) (fun _ => rfl)
              rfl (fun k hk => rfl) (by simp)
              (fun _ => rfl) (fun h hh _ => v.present i hd h1 h2)
  | gc => exact ⟨_, _, rfl, v.collect⟩
  | bad => exact ⟨_, _, rfl, v⟩

theorem Valid.finish {s : St} (v : Valid s) : s.finish = 0 := by
  unfold St.finish
  have hids : ids (s.heap.map (fun o => { o with ext := 0, views := 0 })) = ids s.heap := by
    simp [ids, List.map_map, Function.comp_def]
  have hw : WF (s.heap.map (fun o => { o with ext := 0, views := 0 })) := by
    unfold WF; rw [hids]; exact v.wf
  have hc : Clean (s.heap.map (fun o => { o with ext := 0, views := 0 })) := by
    intro o' ho'
    obtain ⟨o, ho, rfl⟩ := List.mem_map.mp ho'
    exact v.clean o ho
  rw [collect_no_roots hw hc]
  · rfl
  · intro o' ho'
    obtain ⟨o, _, rfl⟩ := List.mem_map.mp ho'
    exact ⟨rfl, rfl⟩

theorem runScript_valid (ops : List Op) (s : St) (out : List String) (v : Valid s) :
    ∃ res, runScript ops s out = some res ∧ res.getLast? = some "end#0" := by
  induction ops generalizing s out with
  | nil =>
    refine ⟨_, rfl, ?_⟩
    rw [v.finish]
    simp [List.getLast?_reverse]
    decide
  | cons op ops ih =>
    obtain ⟨s', r, hstep, v'⟩ := v.step op
    simp only [runScript, hstep]
    exact ih s' (r :: out) v'

theorem script_valid (ops : List Op) :
    ∃ out, runScript ops { heap := [], held := [] } [] = some out ∧ out.getLast? = some "end#0" :=
  runScript_valid ops _ [] Valid.init

end Rsj.Gc
