import RsjProofs.EvalScopeStep3
/-!
  C09, run-time half: `step` on the tasks other than the evaluation of an expression (forcing a
  thunk, object asserts, deep evaluation, manifestation, equality, comparison).
-/
open Std.Do
set_option mvcgen.warning false
namespace Rsj.Eval.Scope
open Rsj.Core Rsj.Eval Rsj.Analyze

/-! ### The tasks other than evaluating an expression -/

theorem zipIdx_split {α} {l : List α} {pref suff : List (Nat × α)} {cur : Nat × α}
    (h : l.zipIdx.map (fun p => (p.2, p.1)) = pref ++ cur :: suff) : l[cur.1]? = some cur.2 := by
  obtain ⟨li, x⟩ := cur
  have hm : (li, x) ∈ l.zipIdx.map (fun p => (p.2, p.1)) := by rw [h]; simp
  obtain ⟨p, hp, hq⟩ := List.mem_map.1 hm
  obtain ⟨p1, p2⟩ := p
  simp only [Prod.mk.injEq] at hq
  obtain ⟨rfl, rfl⟩ := hq
  have := List.mem_zipIdx hp
  have hlt : p2 < l.length := by simpa using this.2.1
  rw [List.getElem?_eq_getElem hlt]
  simpa using this.2.2.symm

/-- an assert of a layer is well scoped in the environment `get_object_layer_env` returns -/
theorem asserts_taskOk {s st : St} {o li : Nat} {ob0 : Obj} {layer0 : Layer} {c : Expr} {m : OptExpr}
    {env : EId} {d : Nat}
    (hl0 : ob0.layers[li]? = some layer0) (hc : (c, m) ∈ layer0.asserts) (hob : s.objs[o]? = some ob0)
    (hpost : ∃ ob layer, st.objs[o]? = some ob ∧ ob.layers[li]? = some layer ∧ layer.env = some env)
    (hI' : Inv st) (hS : S s st) :
    TaskOk st.envs (.eval c env false d) ∧ ∀ me, m = .some me → TaskOk st.envs (.eval me env false d) := by
  obtain ⟨ob, layer, g1, g2, g3⟩ := hpost
  obtain ⟨ob', k1, k2⟩ := hS.objs o ob0 hob
  rw [g1] at k1; cases k1
  obtain ⟨y', hy1, hy2⟩ := getElem?_of_map_static k2 hl0
  rw [g2] at hy1; cases hy1
  obtain ⟨Γ, m1, _, m3⟩ := (hI'.g.objs o ob g1 layer (mem_of_getElem? g2)).2.2 env g3
  obtain ⟨_, _, _, h4, _⟩ := staticLayer_eq hy2
  have := m3.1 (c, m) (h4 ▸ hc)
  exact ⟨⟨Γ, m1, this.1⟩, fun me hme => ⟨Γ, m1, by subst hme; simpa [WSOpt] using this.2⟩⟩

/-- the layer indices of an object stay valid -/
theorem asserts_li {s st : St} {o li : Nat} {ob0 ob' : Obj} {layer0 : Layer}
    (hl0 : ob0.layers[li]? = some layer0) (hob : s.objs[o]? = some ob0) (hob' : st.objs[o]? = some ob')
    (hS : S s st) : ∃ layer, ob'.layers[li]? = some layer := by
  obtain ⟨ob1, k1, k2⟩ := hS.objs o ob0 hob
  rw [hob'] at k1; cases k1
  obtain ⟨y', hy1, _⟩ := getElem?_of_map_static k2 hl0
  exact ⟨y', hy1⟩

/-- a layer with an assert has a base environment -/
theorem asserts_base {s st : St} {o li : Nat} {ob0 ob' : Obj} {layer0 layer' : Layer} {c : Expr × OptExpr}
    (hl0 : ob0.layers[li]? = some layer0) (hc : c ∈ layer0.asserts) (hob : s.objs[o]? = some ob0)
    (h2 : ob'.layers[li]? = some layer') (h1 : st.objs[o]? = some ob') (hI' : Inv st) (hS : S s st) :
    layer'.baseEnv.isSome = true := by
  obtain ⟨ob1, k1, k2⟩ := hS.objs o ob0 hob
  rw [h1] at k1; cases k1
  obtain ⟨y', hy1, hy2⟩ := getElem?_of_map_static k2 hl0
  rw [h2] at hy1; cases hy1
  obtain ⟨_, _, _, h4, _⟩ := staticLayer_eq hy2
  refine (hI'.shape o ob' h1 layer' (mem_of_getElem? h2)).assertBase ?_
  rw [h4]
  intro hnil
  rw [hnil] at hc; cases hc

theorem asserts_taskOk_msg {s st st2 : St} {o li : Nat} {ob0 ob : Obj} {layer0 layer : Layer} {c : Expr}
    {m : OptExpr} {me : Expr} {env : EId} {d : Nat}
    (hl0 : ob0.layers[li]? = some layer0) (hc : (c, m) ∈ layer0.asserts) (hm : m = .some me)
    (hob : s.objs[o]? = some ob0) (hlay : ob.layers[li]? = some layer) (henv : layer.env = some env)
    (hobj : st.objs[o]? = some ob) (hI' : Inv st) (hS1 : S s st) (hS2 : S st st2) :
    TaskOk st2.envs (.eval me env false d) :=
  taskOk_mono ((asserts_taskOk hl0 hc hob ⟨ob, layer, hobj, hlay, henv⟩ hI' hS1).2 me hm) hS2

/-! ### Walking over the visible fields of an object (`NamesOk`: `EvalScopeStd`) -/

/-- `.deep` on an object -/
def deepObj (cfg : Cfg) (rec : Task → M Value) (o : OId) (d : Nat) : M Value := do
  let _ ← rec (.asserts o d)
  for name in visibleFields (← getObj o) do
    let some t ← fieldThunk o 0 name | throw (.internal "visible field without thunk")
    let need ← match ← getThunk t with
      | .done (.arr _) => pure true
      | .done (.obj _) => pure true
      | .done _ => pure false
      | _ => pure true
    if need then
      checkDepth cfg (d + 1)
      let fv ← rec (.force t (d + 1))
      let _ ← rec (.deep fv (d + 1))
  pure (.obj o)

theorem step_deep_obj_eq (cfg : Cfg) (rec : Task → M Value) (o : OId) (d : Nat) :
    step cfg rec (.deep (.obj o) d) = deepObj cfg rec o d := by
  unfold step deepObj; rfl

/-- `.manifest` on an object -/
def manifestObj (cfg : Cfg) (rec : Task → M Value) (o : OId) (d : Nat) (canon : Bool) : M Value := do
  let _ ← rec (.asserts o d)
  let names := visibleFields (← getObj o)
  if names.isEmpty then return .str (if canon then "{}" else "{ }")
  let mut parts : List String := []
  for name in names do
    let some t ← fieldThunk o 0 name | throw (.internal "visible field without thunk")
    checkDepth cfg (d + 1)
    let fv ← rec (.force t (d + 1))
    let s ← recStr rec (.manifest fv (d + 1) canon)
    parts := parts ++ [if canon then strHex name ++ ":" ++ s else jsonEscape name ++ ": " ++ s]
  pure (.str ("{" ++ (if canon then "," else ", ").intercalate parts ++ "}"))

theorem step_manifest_obj_eq (cfg : Cfg) (rec : Task → M Value) (o : OId) (d : Nat) (canon : Bool) :
    step cfg rec (.manifest (.obj o) d canon) = manifestObj cfg rec o d canon := by
  unfold step manifestObj; rfl

/-- `.equals` on two objects -/
def equalsObj (cfg : Cfg) (rec : Task → M Value) (x y : OId) (d : Nat) : M Value := do
  let xf := visibleFields (← getObj x)
  let yf := visibleFields (← getObj y)
  if xf != yf then return .bool false
  let mut first := true
  for name in xf do
    checkDepth cfg (d + 1)
    if first then
      let _ ← rec (.asserts x (d + 1))
      let _ ← rec (.asserts y (d + 1))
      first := false
    let some xt ← fieldThunk x 0 name | throw (.internal "visible field without thunk")
    let some yt ← fieldThunk y 0 name | throw (.internal "visible field without thunk")
    let xv ← rec (.force xt (d + 1))
    let yv ← rec (.force yt (d + 1))
    match ← rec (.equals xv yv (d + 1)) with
    | .bool true => pure ()
    | _ => return .bool false
  pure (.bool true)

theorem step_equals_obj_eq (cfg : Cfg) (rec : Task → M Value) (x y : OId) (d : Nat) :
    step cfg rec (.equals (.obj x) (.obj y) d) = equalsObj cfg rec x y d := by
  unfold step equalsObj; rfl

section
variable (cfg : Cfg) (rec : Task → M Value) (hrec : RecOk rec)
include hrec

theorem step_force (s : St) (t : TId) (d : Nat) (hI : Inv s) :
    ⦃fun st => ⌜st = s⌝⦄ step cfg rec (.force t d) ⦃Q s (fun _ _ => True)⦄ := by
  have h1 := switchState_spec
  have h2 := thunkBody_spec cfg rec hrec
  have h3 := finishThunk_spec
  qstart
  unfold step
  mvcgen [h1, h2, h3]
  all_goals clear h1 h2 h3
  all_goals vcprep
  all_goals first
    | eclose
    | exact (by assumption : ∀ p : Pending, TState.pending _ = TState.pending p → _) _ rfl

theorem step_asserts (s : St) (o : OId) (d : Nat) (hI : Inv s) :
    ⦃fun st => ⌜st = s⌝⦄ step cfg rec (.asserts o d) ⦃Q s (fun _ _ => True)⦄ := by
  have h1 := getObj_spec
  have h2 := setObj_spec
  have h3 := layerEnv_spec
  have h4 := coerceToString_spec rec hrec
  have hr := rec_spec rec hrec
  qstart
  unfold step
  mvcgen [h1, h2, h3, h4, hr]
  assign_invs (Qg s (fun _ _ => True))
  all_goals clear h1 h2 h3 h4 hr
  all_goals vcprep
  all_goals first
    | eclose
    | exact ⟨Inv.g (by assumption) |>.objs _ _ (by assumption) _ (by assumption),
        Inv.shape (by assumption) _ _ (by assumption) _ (by assumption)⟩
    | grind
    | exact asserts_li (zipIdx_split (by assumption)) (by assumption) (by assumption) (by schain)
    | exact asserts_base (zipIdx_split (by assumption)) (mem_of_split (by assumption)) (by assumption)
        (by assumption) (by assumption) (by assumption) (by schain)
    | exact (asserts_taskOk (zipIdx_split (by assumption)) (mem_of_split (by assumption)) (by assumption)
        ⟨_, _, by assumption, by assumption, by assumption⟩ (by assumption) (by schain)).1
    | exact asserts_taskOk_msg (zipIdx_split (by assumption)) (mem_of_split (by assumption)) (by assumption)
        (by assumption) (by assumption) (by assumption) (by assumption) (by assumption) (by schain) (by schain)

set_option hygiene false in
/-- a task that only walks values: every loop keeps the invariant -/
macro "tcase" : tactic => `(tactic|
  (unfold step
   mvcgen [g1, g2, g3, g4, g5, h1, h8, hr]
   assign_invs (Qg s (fun _ _ => True))
   all_goals clear g1 g2 g3 g4 g5 h1 h8 hr
   all_goals vcprep
   all_goals eclose))

set_option hygiene false in
/-- a walk over the visible fields of objects: the closers of the verification conditions -/
macro "ocase" : tactic => `(tactic|
  (all_goals clear g1 g2 g3 g4 h1 hr
   all_goals vcprep
   all_goals first
     | eclose
     | exact ⟨by assumption, by schain, (NamesOk.mono (by assumption) (by schain)).tail⟩
     | exact ⟨by assumption, by schain, (NamesOk.mono (by assumption) (by schain)).tail,
         (NamesOk.mono (by assumption) (by schain)).tail⟩
     | exact ⟨by assumption, by schain, NamesOk.visible (by assumption)⟩
     | (exfalso
        exact NamesOk.found_false (by assumption) (by assumption) (by assumption) (by schain))))

theorem deepObj_spec (s : St) (o : OId) (d : Nat) (hI : Inv s) :
    ⦃fun st => ⌜st = s⌝⦄ deepObj cfg rec o d ⦃Q s (fun _ _ => True)⦄ := by
  have g1 := getThunk_spec
  have g2 := checkDepth_spec
  have g3 := fieldThunk_spec
  have g4 := getObj_spec
  have h1 := recStr_spec rec hrec
  have hr := rec_spec rec hrec
  qstart
  unfold deepObj
  mvcgen [g1, g2, g3, g4, h1, hr]
  case inv1 =>
    exact ⟨fun (cur, _) st => ⌜Inv st ∧ S s st ∧ NamesOk st o cur.suffix⌝,
      fun e st => ⌜(NonPanic e → Inv st) ∧ Good e⌝, fun _ => ⌜True⌝, ()⟩
  ocase

theorem manifestObj_spec (s : St) (o : OId) (d : Nat) (canon : Bool) (hI : Inv s) :
    ⦃fun st => ⌜st = s⌝⦄ manifestObj cfg rec o d canon ⦃Q s (fun _ _ => True)⦄ := by
  have g1 := getThunk_spec
  have g2 := checkDepth_spec
  have g3 := fieldThunk_spec
  have g4 := getObj_spec
  have h1 := recStr_spec rec hrec
  have hr := rec_spec rec hrec
  qstart
  unfold manifestObj
  mvcgen [g1, g2, g3, g4, h1, hr]
  case inv1 =>
    exact ⟨fun (cur, _) st => ⌜Inv st ∧ S s st ∧ NamesOk st o cur.suffix⌝,
      fun e st => ⌜(NonPanic e → Inv st) ∧ Good e⌝, fun _ => ⌜True⌝, ()⟩
  ocase

theorem equalsObj_spec (s : St) (x y : OId) (d : Nat) (hI : Inv s) :
    ⦃fun st => ⌜st = s⌝⦄ equalsObj cfg rec x y d ⦃Q s (fun _ _ => True)⦄ := by
  have g1 := getThunk_spec
  have g2 := checkDepth_spec
  have g3 := fieldThunk_spec
  have g4 := getObj_spec
  have h1 := recStr_spec rec hrec
  have hr := rec_spec rec hrec
  qstart
  unfold equalsObj
  mvcgen [g1, g2, g3, g4, h1, hr]
  case inv1 =>
    exact ⟨fun (cur, _) st => ⌜Inv st ∧ S s st ∧ NamesOk st x cur.suffix ∧ NamesOk st y cur.suffix⌝,
      fun e st => ⌜(NonPanic e → Inv st) ∧ Good e⌝, fun _ => ⌜True⌝, ()⟩
  all_goals clear g1 g2 g3 g4 h1 hr
  all_goals vcprep
  all_goals first
     | eclose
     | exact ⟨by assumption, by schain, (NamesOk.mono (by assumption) (by schain)).tail,
         (NamesOk.mono (by assumption) (by schain)).tail⟩
     | (exfalso
        exact NamesOk.found_false (by assumption) (by assumption) (by assumption) (by schain))
     | exact ⟨by assumption, by schain, (NamesOk.mono (by assumption) (by schain)).nil,
         (NamesOk.mono (by assumption) (by schain)).nil⟩
     | exact ⟨hI, S.refl _, namesOk_pair (by assumption) (by assumption) (by assumption)⟩

set_option maxHeartbeats 1000000 in
theorem step_walk (s : St) (t : Task) (hI : Inv s)
    (ht : match t with | .deep .. | .manifest .. | .equals .. | .compare .. => True | _ => False) :
    ⦃fun st => ⌜st = s⌝⦄ step cfg rec t ⦃Q s (fun _ _ => True)⦄ := by
  have g1 := getThunk_spec
  have g2 := checkDepth_spec
  have g3 := fieldThunk_spec
  have g4 := getObj_spec
  have g5 := numText_spec
  have h1 := recStr_spec rec hrec
  have h8 := compareLists_spec cfg rec hrec
  have hr := rec_spec rec hrec
  cases t with
  | deep v d =>
    cases v with
    | obj o => rw [step_deep_obj_eq]; exact deepObj_spec cfg rec hrec s o d hI
    | _ => qstart; tcase
  | manifest v d c =>
    cases v with
    | obj o => rw [step_manifest_obj_eq]; exact manifestObj_spec cfg rec hrec s o d c hI
    | _ => qstart; tcase
  | equals a b d =>
    cases a with
    | obj x =>
      cases b with
      | obj y => rw [step_equals_obj_eq]; exact equalsObj_spec cfg rec hrec s x y d hI
      | _ => qstart; tcase
    | _ => qstart; tcase
  | compare a b d => qstart; tcase
  | force => exact ht.elim
  | asserts => exact ht.elim
  | eval => exact ht.elim

end
end Rsj.Eval.Scope
