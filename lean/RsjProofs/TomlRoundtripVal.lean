/-
  Round trip of the TOML writer, part 1: values.

  The specification reader `readVal` / `readArr` / `readInl` (`RsjProofs/TomlRead.lean`)
  reads back the text `valueP ind d sg v` of the writer (`RsjProofs/Toml.lean`) for
  every null-free value whose numbers are number tokens and whose objects have
  distinct keys (`ValOK`), whatever the depth, the single-line flag and the indent
  (made of TOML whitespace), provided a delimiter follows.  Also: keys, header
  paths, and the fuel the readers need (`needV` …), bounded by the length of the text.
-/
import RsjProofs.TomlRead
import RsjProofs.TomlSemProofs
import RsjProofs.NumChars
namespace Rsj.Toml
open Rsj.Json

/-- the indent string of `std.manifestTomlEx` consists of TOML whitespace (space / tab) -/
def IndOK (ind : Str) : Prop := ∀ c ∈ ind, isWsT c = true

/-! ### whitespace -/

/-- a string of TOML whitespace and newlines -/
def WsNl (w : Str) : Prop := ∀ c ∈ w, (isWsT c || c == 10) = true

theorem IndOK.nil : IndOK [] := by intro c h; cases h

theorem IndOK.append {a b : Str} (ha : IndOK a) (hb : IndOK b) : IndOK (a ++ b) := by
  intro c h
  rcases List.mem_append.mp h with h | h
  · exact ha c h
  · exact hb c h

theorem IndOK.rep {w : Str} (h : IndOK w) : ∀ n, IndOK (rep n w)
  | 0 => IndOK.nil
  | n + 1 => by rw [Json.rep]; exact IndOK.append h (IndOK.rep h n)

theorem IndOK.wsNl {w : Str} (h : IndOK w) : WsNl w := by
  intro c hc; rw [h c hc]; rfl

theorem WsNl.nil : WsNl [] := by intro c h; cases h

theorem WsNl.cons {c : Nat} {w : Str} (hc : (isWsT c || c == 10) = true) (hw : WsNl w) : WsNl (c :: w) := by
  intro x hx
  rcases List.mem_cons.mp hx with rfl | hx
  · exact hc
  · exact hw x hx

theorem WsNl.append {a b : Str} (ha : WsNl a) (hb : WsNl b) : WsNl (a ++ b) := by
  intro c h
  rcases List.mem_append.mp h with h | h
  · exact ha c h
  · exact hb c h

theorem skipWs_append {w : Str} (h : IndOK w) (t : Str) : skipWs (w ++ t) = skipWs t := by
  induction w with
  | nil => rfl
  | cons c w ih =>
    have hc : isWsT c = true := h c List.mem_cons_self
    rw [List.cons_append, skipWs, if_pos hc]
    exact ih (fun x hx => h x (List.mem_cons_of_mem _ hx))

theorem skipWsNl_append {w : Str} (h : WsNl w) (t : Str) : skipWsNl (w ++ t) = skipWsNl t := by
  induction w with
  | nil => rfl
  | cons c w ih =>
    have hc : (isWsT c || c == 10) = true := h c List.mem_cons_self
    rw [List.cons_append, skipWsNl, if_pos hc]
    exact ih (fun x hx => h x (List.mem_cons_of_mem _ hx))

theorem skipWs_cons {c : Nat} (t : Str) (h : isWsT c = false) : skipWs (c :: t) = c :: t := by
  rw [skipWs]; simp [h]

theorem skipWsNl_cons {c : Nat} (t : Str) (h : isWsT c = false) (h10 : c ≠ 10) :
    skipWsNl (c :: t) = c :: t := by
  rw [skipWsNl]; simp [h, h10]

theorem skipWsNl_nl (t : Str) : skipWsNl (10 :: t) = skipWsNl t := by
  rw [skipWsNl]; rfl

theorem skipWs_sp (t : Str) : skipWs (32 :: t) = skipWs t := by
  rw [skipWs]; rfl

theorem skipWsNl_sp (t : Str) : skipWsNl (32 :: t) = skipWsNl t := by
  rw [skipWsNl]; rfl

theorem isWsT_false {c : Nat} (h1 : c ≠ 32) (h2 : c ≠ 9) : isWsT c = false := by
  simp [isWsT, h1, h2]

/-! ### first characters -/

/-- what a value or a key may start with: not whitespace, newline, bracket closer,
    comma -/
structure Head (c : Nat) : Prop where
  ws : isWsT c = false
  nl : c ≠ 10
  rb : c ≠ 93
  rc : c ≠ 125
  cm : c ≠ 44

theorem isBare_cases {c : Nat} (h : isBare c = true) :
    (48 ≤ c ∧ c ≤ 57) ∨ (65 ≤ c ∧ c ≤ 90) ∨ (97 ≤ c ∧ c ≤ 122) ∨ c = 95 ∨ c = 45 := by
  simp only [isBare, isAlnum, Bool.or_eq_true, Bool.and_eq_true, decide_eq_true_eq, beq_iff_eq] at h
  omega

theorem head_of_range {c : Nat} (h : (45 ≤ c ∧ c ≤ 57) ∨ (65 ≤ c ∧ c ≤ 90) ∨ (95 ≤ c ∧ c ≤ 122) ∨ c = 34 ∨ c = 91 ∨ c = 123) :
    Head c :=
  ⟨isWsT_false (by omega) (by omega), by omega, by omega, by omega, by omega⟩

/-- an emitted key starts with a bare-key character or `"` -/
theorem escapeKeyToml_head (k : Str) :
    ∃ c t, escapeKeyToml k = c :: t ∧ (isBare c = true ∨ c = 34) := by
  rcases escapeKeyToml_forms k with ⟨he, hne, hall⟩ | ⟨he, _⟩
  · obtain ⟨c, k', rfl⟩ := List.exists_cons_of_ne_nil hne
    exact ⟨c, k', he, Or.inl (hall c List.mem_cons_self)⟩
  · exact ⟨34, _, by rw [he]; rfl, Or.inr rfl⟩

theorem keyHead_facts {c : Nat} (h : isBare c = true ∨ c = 34) : Head c ∧ c ≠ 91 := by
  rcases h with h | h
  · have := isBare_cases h
    exact ⟨head_of_range (by omega), by omega⟩
  · exact ⟨head_of_range (by omega), by omega⟩

theorem digit_facts {c : Nat} (h : isDigit c = true ∨ c = 45) : (48 ≤ c ∧ c ≤ 57) ∨ c = 45 := by
  rcases h with h | h
  · simp only [isDigit, Bool.and_eq_true, decide_eq_true_eq] at h; exact Or.inl h
  · exact Or.inr h

/-- a manifested value starts with a character that is neither whitespace nor a closer -/
theorem valueP_head (ind : Str) (d : Nat) (sg : Bool) (v : JVal) (hv : ValOK v) (hn : hasNull v = false) :
    ∃ c t, valueP ind d sg v = c :: t ∧ Head c := by
  cases v with
  | null => simp [hasNull] at hn
  | bool b =>
    cases b
    · exact ⟨102, _, by rw [valueP]; rfl, head_of_range (by omega)⟩
    · exact ⟨116, _, by rw [valueP]; rfl, head_of_range (by omega)⟩
  | num t =>
    rw [ValOK] at hv
    obtain ⟨⟨c, t', rfl, hc⟩, _⟩ := hv
    have := digit_facts hc
    exact ⟨c, t', by rw [valueP], head_of_range (by omega)⟩
  | str s => exact ⟨34, _, by rw [valueP]; rfl, head_of_range (by omega)⟩
  | arr l =>
    cases l with
    | nil => exact ⟨91, _, by rw [valueP], head_of_range (by omega)⟩
    | cons x xs =>
      cases sg
      · exact ⟨91, _, by rw [valueP]; rfl, head_of_range (by omega)⟩
      · exact ⟨91, _, by rw [valueP]; rfl, head_of_range (by omega)⟩
  | obj l =>
    cases l with
    | nil => exact ⟨123, _, by rw [valueP], head_of_range (by omega)⟩
    | cons x xs => exact ⟨123, _, by rw [valueP]; rfl, head_of_range (by omega)⟩

/-! ### what may follow a value -/

/-- end of text, TOML whitespace, newline, `,`, `]`, `}` -/
def TDelim (r : Str) : Prop :=
  r = [] ∨ ∃ c r', r = c :: r' ∧ (c = 32 ∨ c = 9 ∨ c = 10 ∨ c = 44 ∨ c = 93 ∨ c = 125)

theorem TDelim.delim {r : Str} (h : TDelim r) : Delim r := by
  rcases h with h | ⟨c, r', h, hc⟩
  · exact Or.inl h
  · refine Or.inr ⟨c, r', h, ?_⟩
    rcases hc with rfl | rfl | rfl | rfl | rfl | rfl
    · exact Or.inl (by decide)
    · exact Or.inl (by decide)
    · exact Or.inl (by decide)
    · exact Or.inr (Or.inl rfl)
    · exact Or.inr (Or.inr (Or.inl rfl))
    · exact Or.inr (Or.inr (Or.inr rfl))

theorem TDelim.cons {c : Nat} (r : Str) (hc : c = 32 ∨ c = 9 ∨ c = 10 ∨ c = 44 ∨ c = 93 ∨ c = 125) :
    TDelim (c :: r) := Or.inr ⟨c, r, rfl, hc⟩

theorem TDelim.wsNl_append {w t : Str} (hw : WsNl w) (ht : TDelim t) : TDelim (w ++ t) := by
  cases w with
  | nil => exact ht
  | cons c w =>
    have hc := hw c List.mem_cons_self
    simp only [isWsT, Bool.or_eq_true, beq_iff_eq] at hc
    exact TDelim.cons _ (by omega)

/-! ### `readVal` on each kind of text -/

theorem readVal_true (f : Nat) (r : Str) : readVal (f + 1) (sTrue ++ r) = some (.bool true, r) := by
  simp [readVal, sTrue, stripPrefix]

theorem readVal_false (f : Nat) (r : Str) : readVal (f + 1) (sFalse ++ r) = some (.bool false, r) := by
  simp [readVal, sTrue, sFalse, stripPrefix]

theorem readVal_str (f : Nat) (s r : Str) : readVal (f + 1) (escape s ++ r) = some (.str s, r) := by
  have h := tomlStrBody_escapeBody s r
  unfold escape
  rw [List.cons_append, List.append_assoc]
  simp only [List.cons_append, List.nil_append]
  simp [readVal, sTrue, sFalse, stripPrefix, h]

theorem readVal_num (f : Nat) {t : Str} (r : Str) (ht : NumTok t) (hr : TDelim r) :
    readVal (f + 1) (t ++ r) = some (.num t, r) := by
  obtain ⟨⟨c, t', rfl, hc⟩, hl⟩ := ht
  have h := hl r hr.delim
  have hc' := digit_facts hc
  have a1 : ¬ 116 = c := by omega
  have a2 : ¬ 102 = c := by omega
  have h' : lexNumber (c :: (t' ++ r)) = .ok (some (c :: t', r)) := h
  rw [readVal]
  · simp only [List.cons_append, sTrue, sFalse, stripPrefix, a1, a2, if_false, h']
  · intro r' heq; injection heq with h1 _; omega
  · intro r' heq; injection heq with h1 _; omega
  · intro r' heq; injection heq with h1 _; omega

theorem readVal_arr_empty (f : Nat) (r : Str) : readVal (f + 1) (91 :: 93 :: r) = some (.arr [], r) := by
  have h : skipWsNl (93 :: r) = 93 :: r := skipWsNl_cons _ (by decide) (by decide)
  simp [readVal, sTrue, sFalse, stripPrefix, h]

theorem readVal_arr_open (f : Nat) {r : Str} {c : Nat} {t : Str} {xs : List JVal} {r' : Str}
    (h : skipWsNl r = c :: t) (hc : c ≠ 93) (ha : readArr f (c :: t) = some (xs, r')) :
    readVal (f + 1) (91 :: r) = some (.arr xs, r') := by
  simp [readVal, sTrue, sFalse, stripPrefix, h, hc, ha]

theorem readVal_obj_empty (f : Nat) (r : Str) :
    readVal (f + 1) (123 :: 32 :: 32 :: 125 :: r) = some (.obj [], r) := by
  have h : skipWs (32 :: 32 :: 125 :: r) = 125 :: r := by
    rw [skipWs_sp, skipWs_sp]; exact skipWs_cons _ (by decide)
  simp [readVal, sTrue, sFalse, stripPrefix, h]

theorem readVal_obj_open (f : Nat) {r : Str} {c : Nat} {t : Str} {fs : List (Str × JVal)} {r' : Str}
    (h : skipWs r = c :: t) (hc : c ≠ 125) (ha : readInl f (c :: t) = some (fs, r')) :
    readVal (f + 1) (123 :: r) = some (.obj fs, r') := by
  simp [readVal, sTrue, sFalse, stripPrefix, h, hc, ha]

/-! ### fuel -/

mutual
/-- fuel `readVal` needs on the text of a value -/
def needV : JVal → Nat
  | .arr xs => 1 + needL xs
  | .obj fs => 1 + needF fs
  | _ => 1
/-- fuel `readArr` needs on the items of an array -/
def needL : List JVal → Nat
  | [] => 0
  | x :: xs => 1 + needV x + needL xs
/-- fuel `readInl` needs on the fields of an inline table -/
def needF : List (Str × JVal) → Nat
  | [] => 0
  | (_, x) :: xs => 1 + needV x + needF xs
end

theorem exists_succ {f : Nat} (h : 1 ≤ f) : ∃ f', f = f' + 1 := ⟨f - 1, by omega⟩

/-! ### the round trip of values, by mutual structural induction -/

/-- text after an item of an array: separator, remaining items, the closing
    whitespace `cl`, `]` -/
def itemsTailP (ind : Str) (d : Nat) (sg : Bool) (xs : List JVal) (cl r : Str) : Str :=
  itemSep sg xs ++ (itemsP ind d sg xs ++ (cl ++ 93 :: r))

/-- text after a field value of an inline table -/
def inlineTailP (ind : Str) (d : Nat) (xs : List (Str × JVal)) (r : Str) : Str :=
  fieldSep xs ++ (inlineP ind d xs ++ 32 :: 125 :: r)

def ValGoal (ind : Str) (v : JVal) : Prop :=
  ∀ (d : Nat) (sg : Bool) (f : Nat) (r : Str), ValOK v → hasNull v = false → TDelim r → needV v ≤ f →
    readVal f (valueP ind d sg v ++ r) = some (v, r)

def ItemsGoal (ind : Str) : List JVal → Prop
  | [] => True
  | x :: xs => ∀ (d : Nat) (sg : Bool) (f : Nat) (cl r : Str), ItemsOK (x :: xs) → hasNullL (x :: xs) = false →
      WsNl cl → needL (x :: xs) ≤ f →
      readArr f (valueP ind (d + 1) true x ++ itemsTailP ind d sg xs cl r) = some (x :: xs, r)

def FieldsGoal (ind : Str) : List (Str × JVal) → Prop
  | [] => True
  | (k, x) :: xs => ∀ (d : Nat) (f : Nat) (r : Str), FieldsOK ((k, x) :: xs) → hasNullF ((k, x) :: xs) = false →
      (keysOf ((k, x) :: xs)).Nodup → needF ((k, x) :: xs) ≤ f →
      readInl f (inlineP ind d ((k, x) :: xs) ++ 32 :: 125 :: r) = some ((k, x) :: xs, r)

theorem itemsTailP_delim (ind : Str) (d : Nat) (sg : Bool) (xs : List JVal) {cl : Str} (r : Str) (hcl : WsNl cl) :
    TDelim (itemsTailP ind d sg xs cl r) := by
  cases xs with
  | nil =>
    simp only [itemsTailP, itemSep, itemsP, List.nil_append]
    exact TDelim.wsNl_append hcl (TDelim.cons _ (by omega))
  | cons y ys =>
    cases sg
    · exact TDelim.cons _ (by omega)
    · exact TDelim.cons _ (by omega)

theorem inlineTailP_delim (ind : Str) (d : Nat) (xs : List (Str × JVal)) (r : Str) :
    TDelim (inlineTailP ind d xs r) := by
  cases xs with
  | nil => exact TDelim.cons _ (by omega)
  | cons y ys => exact TDelim.cons _ (by omega)

theorem skipWsNl_value (ind : Str) (d : Nat) (sg : Bool) (v : JVal) (hv : ValOK v) (hn : hasNull v = false)
    {w : Str} (hw : WsNl w) (t : Str) :
    skipWsNl (w ++ (valueP ind d sg v ++ t)) = valueP ind d sg v ++ t := by
  obtain ⟨c, t', h, hc⟩ := valueP_head ind d sg v hv hn
  rw [skipWsNl_append hw, h, List.cons_append, skipWsNl_cons _ hc.ws hc.nl]

theorem skipWs_value (ind : Str) (d : Nat) (sg : Bool) (v : JVal) (hv : ValOK v) (hn : hasNull v = false)
    {w : Str} (hw : IndOK w) (t : Str) :
    skipWs (w ++ (valueP ind d sg v ++ t)) = valueP ind d sg v ++ t := by
  obtain ⟨c, t', h, hc⟩ := valueP_head ind d sg v hv hn
  rw [skipWs_append hw, h, List.cons_append, skipWs_cons _ hc.ws]

theorem hasNullL_cons {x : JVal} {xs : List JVal} (h : hasNullL (x :: xs) = false) :
    hasNull x = false ∧ hasNullL xs = false := by
  rw [hasNullL, Bool.or_eq_false_iff] at h; exact h

theorem hasNullF_cons {k : Str} {x : JVal} {xs : List (Str × JVal)} (h : hasNullF ((k, x) :: xs) = false) :
    hasNull x = false ∧ hasNullF xs = false := by
  rw [hasNullF, Bool.or_eq_false_iff] at h; exact h

theorem items_step {ind : Str} (hi : IndOK ind) (x : JVal) (xs : List JVal)
    (hx : ValGoal ind x) (hxs : ItemsGoal ind xs) : ItemsGoal ind (x :: xs) := by
  intro d sg f cl r hok hnn hcl hf
  rw [ItemsOK] at hok
  have hnn' := hasNullL_cons hnn
  rw [needL] at hf
  obtain ⟨f', rfl⟩ := exists_succ (f := f) (by omega)
  rw [readArr, hx (d + 1) true f' _ hok.1 hnn'.1 (itemsTailP_delim ind d sg xs r hcl) (by omega)]
  cases xs with
  | nil =>
    simp only [itemsTailP, itemSep, itemsP, List.nil_append]
    rw [skipWsNl_append hcl, skipWsNl_cons _ (by decide) (by decide)]
    rfl
  | cons y ys =>
    have hy := hok.2
    rw [ItemsOK] at hy
    have hny := hasNullL_cons hnn'.2
    have e : skipWsNl (itemsTailP ind d sg (y :: ys) cl r)
        = 44 :: ((if sg then [32] else 10 :: rep (d + 1) ind) ++
            (valueP ind (d + 1) true y ++ itemsTailP ind d sg ys cl r)) := by
      cases sg
      · simp only [itemsTailP, itemSep, itemsP, Bool.false_eq_true, if_false, List.append_assoc,
          List.cons_append, List.nil_append]
        exact skipWsNl_cons _ (by decide) (by decide)
      · simp only [itemsTailP, itemSep, itemsP, if_true, List.append_assoc,
          List.cons_append, List.nil_append]
        exact skipWsNl_cons _ (by decide) (by decide)
    have hw : WsNl (if sg then [32] else 10 :: rep (d + 1) ind) := by
      cases sg
      · exact WsNl.cons (by decide) (hi.rep _).wsNl
      · exact WsNl.cons (by decide) WsNl.nil
    have := hxs d sg f' cl r hok.2 hnn'.2 hcl (by omega)
    simp only [e, skipWsNl_value ind _ _ y hy.1 hny.1 hw, this]

theorem fields_step {ind : Str} (k : Str) (x : JVal) (xs : List (Str × JVal))
    (hx : ValGoal ind x) (hxs : FieldsGoal ind xs) : FieldsGoal ind ((k, x) :: xs) := by
  intro d f r hok hnn hnd hf
  rw [FieldsOK] at hok
  have hnn' := hasNullF_cons hnn
  rw [needF] at hf
  obtain ⟨f', rfl⟩ := exists_succ (f := f) (by omega)
  have e : inlineP ind d ((k, x) :: xs) ++ 32 :: 125 :: r
      = escapeKeyToml k ++ 32 :: 61 :: 32 :: (valueP ind (d + 1) true x ++ inlineTailP ind d xs r) := by
    simp only [inlineP, inlineTailP, List.append_assoc, List.cons_append, List.nil_append]
  have hkey := readKey_escapeKeyToml k (32 :: 61 :: 32 :: (valueP ind (d + 1) true x ++ inlineTailP ind d xs r))
    (by intro c r' h; injection h with h1 _; subst h1; decide)
  have hsk1 : skipWs (32 :: 61 :: 32 :: (valueP ind (d + 1) true x ++ inlineTailP ind d xs r))
      = 61 :: 32 :: (valueP ind (d + 1) true x ++ inlineTailP ind d xs r) := by
    rw [skipWs_sp]; exact skipWs_cons _ (by decide)
  have hsk2 : skipWs (32 :: (valueP ind (d + 1) true x ++ inlineTailP ind d xs r))
      = valueP ind (d + 1) true x ++ inlineTailP ind d xs r :=
    skipWs_value ind _ _ x hok.1 hnn'.1 (w := [32]) (by intro c hc; simp at hc; subst hc; decide) _
  have hval := hx (d + 1) true f' _ hok.1 hnn'.1 (inlineTailP_delim ind d xs r) (by omega)
  rw [e, readInl, hkey]
  simp only [hsk1, hsk2, hval]
  cases xs with
  | nil =>
    have : skipWs (inlineTailP ind d [] r) = 125 :: r := by
      simp only [inlineTailP, fieldSep, inlineP, List.nil_append]
      rw [skipWs_sp]; exact skipWs_cons _ (by decide)
    simp only [this]
  | cons p ys =>
    obtain ⟨k', y⟩ := p
    have hnd' : (keysOf ((k', y) :: ys)).Nodup := by
      simp only [keysOf, List.map_cons, List.nodup_cons] at hnd ⊢
      exact hnd.2
    have hk : hasKey k ((k', y) :: ys) = false := by
      rw [hasKey_eq_false]
      simp only [keysOf, List.map_cons, List.nodup_cons] at hnd ⊢
      exact hnd.1
    obtain ⟨c, t, hc, hcb⟩ := escapeKeyToml_head k'
    have hcf := (keyHead_facts hcb).1
    have e2 : skipWs (inlineTailP ind d ((k', y) :: ys) r)
        = 44 :: 32 :: (inlineP ind d ((k', y) :: ys) ++ 32 :: 125 :: r) := by
      simp only [inlineTailP, fieldSep, List.cons_append, List.nil_append]
      exact skipWs_cons _ (by decide)
    have e3 : skipWs (32 :: (inlineP ind d ((k', y) :: ys) ++ 32 :: 125 :: r))
        = inlineP ind d ((k', y) :: ys) ++ 32 :: 125 :: r := by
      rw [skipWs_sp, inlineP, hc]
      simp only [List.cons_append, List.append_assoc]
      exact skipWs_cons _ hcf.ws
    have := hxs d f' r hok.2 hnn'.2 hnd' (by omega)
    simp only [e2, e3, this, hk]
    rfl

theorem val_arr {ind : Str} (hi : IndOK ind) (l : List JVal) (hl : ItemsGoal ind l) : ValGoal ind (.arr l) := by
  intro d sg f r hv hnn hr hf
  rw [ValOK] at hv
  rw [hasNull] at hnn
  rw [needV] at hf
  obtain ⟨f', rfl⟩ := exists_succ (f := f) (by omega)
  cases l with
  | nil => rw [valueP]; exact readVal_arr_empty f' r
  | cons x xs =>
    have hx := hv
    rw [ItemsOK] at hx
    have hnx := hasNullL_cons hnn
    obtain ⟨c, t, hc, hch⟩ := valueP_head ind (d + 1) true x hx.1 hnx.1
    cases sg
    · have e : valueP ind d false (.arr (x :: xs)) ++ r
          = 91 :: ((10 :: rep (d + 1) ind) ++
              (valueP ind (d + 1) true x ++ itemsTailP ind d false xs (10 :: rep d ind) r)) := by
        rw [valueP]
        simp only [itemsP, itemsTailP, Bool.false_eq_true, if_false, List.append_assoc, List.cons_append,
          List.nil_append]
      have hsk : skipWsNl ((10 :: rep (d + 1) ind) ++
              (valueP ind (d + 1) true x ++ itemsTailP ind d false xs (10 :: rep d ind) r))
          = c :: (t ++ itemsTailP ind d false xs (10 :: rep d ind) r) := by
        rw [skipWsNl_value ind _ _ x hx.1 hnx.1 (WsNl.cons (by decide) (hi.rep _).wsNl), hc, List.cons_append]
      rw [e]
      refine readVal_arr_open f' hsk hch.rb ?_
      rw [← List.cons_append, ← hc]
      exact hl d false f' _ r hv hnn (WsNl.cons (by decide) (hi.rep _).wsNl) (by omega)
    · have e : valueP ind d true (.arr (x :: xs)) ++ r
          = 91 :: ([32] ++ (valueP ind (d + 1) true x ++ itemsTailP ind d true xs [32] r)) := by
        rw [valueP]
        simp only [itemsP, itemsTailP, if_true, List.append_assoc, List.cons_append, List.nil_append]
      have hsk : skipWsNl ([32] ++ (valueP ind (d + 1) true x ++ itemsTailP ind d true xs [32] r))
          = c :: (t ++ itemsTailP ind d true xs [32] r) := by
        rw [skipWsNl_value ind _ _ x hx.1 hnx.1 (WsNl.cons (by decide) WsNl.nil), hc, List.cons_append]
      rw [e]
      refine readVal_arr_open f' hsk hch.rb ?_
      rw [← List.cons_append, ← hc]
      exact hl d true f' _ r hv hnn (WsNl.cons (by decide) WsNl.nil) (by omega)

theorem val_obj {ind : Str} (l : List (Str × JVal)) (hl : FieldsGoal ind l) : ValGoal ind (.obj l) := by
  intro d sg f r hv hnn hr hf
  rw [ValOK] at hv
  rw [hasNull] at hnn
  rw [needV] at hf
  obtain ⟨f', rfl⟩ := exists_succ (f := f) (by omega)
  cases l with
  | nil => rw [valueP]; exact readVal_obj_empty f' r
  | cons p xs =>
    obtain ⟨k, x⟩ := p
    obtain ⟨c, t, hc, hcb⟩ := escapeKeyToml_head k
    have hcf := (keyHead_facts hcb).1
    have e : valueP ind d sg (.obj ((k, x) :: xs)) ++ r
        = 123 :: 32 :: (inlineP ind d ((k, x) :: xs) ++ 32 :: 125 :: r) := by
      rw [valueP]
      simp only [List.append_assoc, List.cons_append, List.nil_append]
    have hin : ∃ t', inlineP ind d ((k, x) :: xs) ++ 32 :: 125 :: r = c :: t' := by
      rw [inlineP, hc]; exact ⟨_, rfl⟩
    obtain ⟨t', ht'⟩ := hin
    have hsk : skipWs (32 :: (inlineP ind d ((k, x) :: xs) ++ 32 :: 125 :: r)) = c :: t' := by
      rw [skipWs_sp, ht']; exact skipWs_cons _ hcf.ws
    rw [e]
    refine readVal_obj_open f' hsk hcf.rc ?_
    rw [← ht']
    exact hl d f' r hv.1 hnn hv.2 (by omega)

mutual
theorem rt_val {ind : Str} (hi : IndOK ind) : (v : JVal) → ValGoal ind v
  | .null => by intro d sg f r _ hnn; simp [hasNull] at hnn
  | .bool true => by
    intro d sg f r _ _ _ hf
    obtain ⟨f', rfl⟩ := exists_succ (f := f) (by simpa [needV] using hf)
    rw [valueP]; exact readVal_true f' r
  | .bool false => by
    intro d sg f r _ _ _ hf
    obtain ⟨f', rfl⟩ := exists_succ (f := f) (by simpa [needV] using hf)
    rw [valueP]; exact readVal_false f' r
  | .num t => by
    intro d sg f r hv _ hr hf
    obtain ⟨f', rfl⟩ := exists_succ (f := f) (by simpa [needV] using hf)
    rw [ValOK] at hv
    rw [valueP]; exact readVal_num f' r hv hr
  | .str s => by
    intro d sg f r _ _ _ hf
    obtain ⟨f', rfl⟩ := exists_succ (f := f) (by simpa [needV] using hf)
    rw [valueP]; exact readVal_str f' s r
  | .arr l => val_arr hi l (rt_items hi l)
  | .obj l => val_obj l (rt_fields hi l)
theorem rt_items {ind : Str} (hi : IndOK ind) : (l : List JVal) → ItemsGoal ind l
  | [] => trivial
  | x :: xs => items_step hi x xs (rt_val hi x) (rt_items hi xs)
theorem rt_fields {ind : Str} (hi : IndOK ind) : (l : List (Str × JVal)) → FieldsGoal ind l
  | [] => trivial
  | (k, x) :: xs => fields_step k x xs (rt_val hi x) (rt_fields hi xs)
end

/-- **Values**: `readVal` reads back the text of a value, with enough fuel and a
    delimiter behind it -/
theorem readVal_valueP {ind : Str} (hi : IndOK ind) (v : JVal) (d : Nat) (sg : Bool) (f : Nat) (r : Str)
    (hv : ValOK v) (hn : hasNull v = false) (hr : TDelim r) (hf : needV v ≤ f) :
    readVal f (valueP ind d sg v ++ r) = some (v, r) :=
  rt_val hi v d sg f r hv hn hr hf

/-! ### keys and header paths -/

theorem isBare_dot : ∀ c r', (46 :: r : Str) = c :: r' → isBare c = false := by
  intro c r' h; injection h with h1 _; subst h1; decide

theorem isBare_rb {r : Str} : ∀ c r', (93 :: r : Str) = c :: r' → isBare c = false := by
  intro c r' h; injection h with h1 _; subst h1; decide

theorem isBare_sp {r : Str} : ∀ c r', (32 :: r : Str) = c :: r' → isBare c = false := by
  intro c r' h; injection h with h1 _; subst h1; decide

/-- a header path `k1.k2.….k` starts like a key -/
theorem pathKey_head (path : List Str) (k : Str) (X : Str) :
    ∃ c t, pathDots path ++ (escapeKeyToml k ++ X) = c :: t ∧ (isBare c = true ∨ c = 34) := by
  cases path with
  | nil =>
    obtain ⟨c, t, hc, hb⟩ := escapeKeyToml_head k
    exact ⟨c, t ++ X, by rw [pathDots, List.nil_append, hc, List.cons_append], hb⟩
  | cons p ps =>
    obtain ⟨c, t, hc, hb⟩ := escapeKeyToml_head p
    exact ⟨c, _, by rw [pathDots, hc]; rfl, hb⟩

theorem readPath_header (k : Str) (R : Str) : ∀ (path : List Str) (f : Nat), path.length + 1 ≤ f →
    readPath f (pathDots path ++ (escapeKeyToml k ++ 93 :: R)) = some (path ++ [k], 93 :: R)
  | [], f, hf => by
    obtain ⟨f', rfl⟩ := exists_succ (f := f) (by omega)
    rw [pathDots, List.nil_append, readPath, readKey_escapeKeyToml k (93 :: R) isBare_rb]
    rfl
  | p :: ps, f, hf => by
    obtain ⟨f', rfl⟩ := exists_succ (f := f) (by omega)
    have ih := readPath_header k R ps f' (by simp only [List.length_cons] at hf; omega)
    have e : pathDots (p :: ps) ++ (escapeKeyToml k ++ 93 :: R)
        = escapeKeyToml p ++ 46 :: (pathDots ps ++ (escapeKeyToml k ++ 93 :: R)) := by
      rw [pathDots]; simp only [List.append_assoc, List.cons_append]
    rw [e, readPath, readKey_escapeKeyToml p _ isBare_dot]
    simp only [ih]
    rfl

theorem splitLast_snoc (k : Str) : ∀ (path : List Str), splitLast (path ++ [k]) = some (path, k)
  | [] => rfl
  | [p] => by simp [splitLast]
  | p :: q :: qs => by
    have ih := splitLast_snoc k (q :: qs)
    simp only [List.cons_append] at ih ⊢
    rw [splitLast, ih]

/-! ### the fuel is bounded by the length of the text -/

theorem pathDots_length : ∀ (path : List Str), path.length ≤ (pathDots path).length
  | [] => Nat.le_refl _
  | p :: ps => by
    have := pathDots_length ps
    rw [pathDots]
    simp only [List.length_append, List.length_cons]
    omega

theorem itemSep_length (sg : Bool) (y : JVal) (ys : List JVal) : (itemSep sg (y :: ys)).length = 2 := by
  cases sg <;> rfl

mutual
theorem len_val (ind : Str) : (v : JVal) → ∀ (d : Nat) (sg : Bool), ValOK v → hasNull v = false →
    needV v ≤ (valueP ind d sg v).length
  | .null => by intro d sg _ hn; simp [hasNull] at hn
  | .bool b => by
    intro d sg hv hn
    obtain ⟨c, t, hc, _⟩ := valueP_head ind d sg _ hv hn
    rw [hc]; simp [needV]
  | .num t => by
    intro d sg hv hn
    obtain ⟨c, t, hc, _⟩ := valueP_head ind d sg _ hv hn
    rw [hc]; simp [needV]
  | .str s => by
    intro d sg hv hn
    obtain ⟨c, t, hc, _⟩ := valueP_head ind d sg _ hv hn
    rw [hc]; simp [needV]
  | .arr [] => by
    intro d sg _ _
    rw [needV, needL, valueP]; simp
  | .obj [] => by
    intro d sg _ _
    rw [needV, needF, valueP]; simp
  | .arr (x :: xs) => by
    intro d sg hv hn
    rw [ValOK] at hv
    rw [hasNull] at hn
    have := len_items ind (x :: xs) d sg hv hn
    rw [needV, valueP]
    cases sg
    · simp only [Bool.false_eq_true, if_false, List.length_append, List.length_cons, List.length_nil]
      omega
    · simp only [if_true, List.length_append, List.length_cons, List.length_nil]
      omega
  | .obj (p :: xs) => by
    intro d sg hv hn
    rw [ValOK] at hv
    rw [hasNull] at hn
    have := len_fields ind (p :: xs) d hv.1 hn
    rw [needV, valueP]
    simp only [List.length_append, List.length_cons, List.length_nil]
    omega
theorem len_items (ind : Str) : (l : List JVal) → ∀ (d : Nat) (sg : Bool), ItemsOK l → hasNullL l = false →
    needL l ≤ (itemsP ind d sg l).length + 1
  | [] => by intro d sg _ _; rw [needL]; omega
  | [x] => by
    intro d sg hv hn
    rw [ItemsOK] at hv
    have h1 := len_val ind x (d + 1) true hv.1 (hasNullL_cons hn).1
    rw [needL, needL, itemsP]
    simp only [List.length_append]
    omega
  | x :: y :: ys => by
    intro d sg hv hn
    rw [ItemsOK] at hv
    have h1 := len_val ind x (d + 1) true hv.1 (hasNullL_cons hn).1
    have h2 := len_items ind (y :: ys) d sg hv.2 (hasNullL_cons hn).2
    rw [needL, itemsP]
    simp only [List.length_append, itemSep_length]
    omega
theorem len_fields (ind : Str) : (l : List (Str × JVal)) → ∀ (d : Nat), FieldsOK l → hasNullF l = false →
    needF l ≤ (inlineP ind d l).length
  | [] => by intro d _ _; rw [needF]; omega
  | (k, x) :: xs => by
    intro d hv hn
    rw [FieldsOK] at hv
    have h1 := len_val ind x (d + 1) true hv.1 (hasNullF_cons hn).1
    have h2 := len_fields ind xs d hv.2 (hasNullF_cons hn).2
    rw [needF, inlineP]
    simp only [List.length_append, List.length_cons, List.length_nil]
    omega
end

end Rsj.Toml
