import RsjProofs.EvalSafeHelpers
/-!
  C01 on the evaluator model: a binding plan only refers to positional and named arguments that
  exist, and uses the default only of a parameter that has one.
-/
namespace Rsj.Eval.Safe
open Rsj.Core Rsj.Eval Rsj.Bind

theorem assignNamed_bound (params : List (String × Bool)) (npos : Nat) :
    ∀ (names : List String) (j : Nat) (tmp t : List (Option Nat)),
      assignNamed params npos names j tmp = .ok t →
      (∀ k, some k ∈ tmp → k < j) → ∀ k, some k ∈ t → k < j + names.length
  | [], j, tmp, t, h, hb => by
    simp only [assignNamed] at h
    cases h
    simpa using hb
  | n :: rest, j, tmp, t, h, hb => by
    unfold assignNamed at h
    split at h
    · cases h
    · split at h
      · cases h
      · split at h
        · cases h
        · have := assignNamed_bound params npos rest (j + 1) _ t h (by
            intro k hk
            rcases List.mem_or_eq_of_mem_set hk with h' | h'
            · exact Nat.lt_succ_of_lt (hb k h')
            · cases h'; exact Nat.lt_succ_self _)
          intro k hk
          have := this k hk
          simp only [List.length_cons]
          omega

theorem fillRest_slots : ∀ (ps : List (String × Bool)) (tmp : List (Option Nat)) (rest : List Slot),
    fillRest ps tmp = .ok rest → ∀ x ∈ rest.zip ps,
      (∀ i, x.1 ≠ .pos i) ∧ (∀ j, x.1 = .named j → some j ∈ tmp) ∧ (x.1 = .dflt → x.2.2 = true)
  | [], _, rest, h => by
    simp [fillRest] at h; subst h; simp
  | (n, hd) :: ps, tmp, rest, h => by
    unfold fillRest at h
    have tailmem : ∀ j, some j ∈ tmp.tail → some j ∈ tmp := fun j hj => List.mem_of_mem_tail hj
    split at h
    · rename_i j hj
      cases hr : fillRest ps tmp.tail with
      | error e => rw [hr] at h; cases h
      | ok r =>
        rw [hr] at h
        simp only [Except.map] at h
        cases h
        intro x hx
        simp only [List.zip_cons_cons, List.mem_cons] at hx
        rcases hx with rfl | hx
        · refine ⟨fun i hi => (by cases hi), fun k hk => ?_, fun hk => (by cases hk)⟩
          cases hk
          exact List.mem_of_mem_head? hj
        · obtain ⟨a, b, c⟩ := fillRest_slots ps tmp.tail r hr x hx
          exact ⟨a, fun k hk => tailmem k (b k hk), c⟩
    · split at h
      · rename_i hdt
        cases hr : fillRest ps tmp.tail with
        | error e => rw [hr] at h; cases h
        | ok r =>
          rw [hr] at h
          simp only [Except.map] at h
          cases h
          intro x hx
          simp only [List.zip_cons_cons, List.mem_cons] at hx
          rcases hx with rfl | hx
          · exact ⟨fun i hi => (by cases hi), fun k hk => (by cases hk), fun _ => hdt⟩
          · obtain ⟨a, b, c⟩ := fillRest_slots ps tmp.tail r hr x hx
            exact ⟨a, fun k hk => tailmem k (b k hk), c⟩
      · cases h

/-- what every slot of a binding plan refers to exists -/
theorem bindPlan_slots {params : List (String × Bool)} {npos : Nat} {named : List String} {slots : List Slot}
    (h : bindPlan params npos named = .ok slots) : ∀ x ∈ slots.zip params,
      (∀ i, x.1 = .pos i → i < npos) ∧ (∀ j, x.1 = .named j → j < named.length) ∧
      (x.1 = .dflt → x.2.2 = true) := by
  unfold bindPlan at h
  split at h
  · cases h
  · rename_i hle
    split at h
    · cases h
    · rename_i t ht
      split at h
      · cases h
      · rename_i rest hrest
        cases h
        have hb := assignNamed_bound params npos named 0 _ t ht (by
          intro k hk
          simp [List.mem_replicate] at hk)
        intro x hx
        have hlen : ((List.range npos).map Slot.pos).length = (params.take npos).length := by
          simp; omega
        rw [← List.take_append_drop npos params, List.zip_append hlen] at hx
        rcases List.mem_append.1 hx with hx | hx
        · have := (List.of_mem_zip hx).1
          obtain ⟨i, hi, hxi⟩ := List.mem_map.1 this
          refine ⟨fun i' hi' => ?_, fun j hj => ?_, fun hd => ?_⟩
          · rw [← hxi] at hi'; cases hi'; simpa using hi
          · rw [← hxi] at hj; cases hj
          · rw [← hxi] at hd; cases hd
        · obtain ⟨a, b, c⟩ := fillRest_slots _ _ _ hrest x hx
          refine ⟨fun i hi => absurd hi (a i), fun j hj => ?_, c⟩
          have := hb j (b j hj)
          simpa using this

end Rsj.Eval.Safe
