/-
  Round trip: the model's `parseJson` (parse_json.rs) reads back what the
  model's `manifest` (do_manifest_json) writes, for every format whose
  indent / newline / separators are JSON whitespace around `:` and `,`.
-/
import RsjProofs.JsonEscape
namespace Rsj.Json

/-! ### whitespace -/

def WsStr (w : Str) : Prop := ∀ c ∈ w, isWs c = true

instance (w : Str) : Decidable (WsStr w) := by unfold WsStr; infer_instance

theorem WsStr.nil : WsStr [] := by intro c h; cases h

theorem WsStr.append {a b : Str} (ha : WsStr a) (hb : WsStr b) : WsStr (a ++ b) := by
  intro c h
  rcases List.mem_append.mp h with h | h
  · exact ha c h
  · exact hb c h

theorem WsStr.rep {w : Str} (h : WsStr w) : ∀ n, WsStr (rep n w)
  | 0 => WsStr.nil
  | n + 1 => by rw [Json.rep]; exact WsStr.append h (WsStr.rep h n)

theorem skipSpaces_ws_append {w : Str} (t : Str) (h : WsStr w) : skipSpaces (w ++ t) = skipSpaces t := by
  induction w with
  | nil => rfl
  | cons c w ih =>
    have hc : isWs c = true := h c (List.mem_cons_self)
    rw [List.cons_append, skipSpaces, if_pos hc]
    exact ih (fun x hx => h x (List.mem_cons_of_mem _ hx))

theorem skipSpaces_cons_nonws {c : Nat} (t : Str) (h : isWs c = false) : skipSpaces (c :: t) = c :: t := by
  rw [skipSpaces]; simp [h]

/-- what may follow a value in the text: end, whitespace, `,`, `]`, `}` -/
def Delim (r : Str) : Prop :=
  r = [] ∨ ∃ c r', r = c :: r' ∧ (isWs c = true ∨ c = 44 ∨ c = 93 ∨ c = 125)

theorem Delim.ws_append {w t : Str} (hw : WsStr w) (ht : Delim t) : Delim (w ++ t) := by
  cases w with
  | nil => exact ht
  | cons c w => exact Or.inr ⟨c, w ++ t, rfl, Or.inl (hw c List.mem_cons_self)⟩

/-! ### hypotheses on formats and values -/

structure FmtOK (f : Fmt) : Prop where
  indent : WsStr f.indent
  newline : WsStr f.newline
  kv : ∃ u1 u2, f.keyValSep = u1 ++ 58 :: u2 ∧ WsStr u1 ∧ WsStr u2
  item : ∃ w1 w2, f.itemSep = w1 ++ 44 :: w2 ∧ WsStr w1 ∧ WsStr w2
  ea : ∀ e, f.emptyArray = some e → ∃ w, e = 91 :: (w ++ [93]) ∧ WsStr w
  eo : ∀ e, f.emptyObject = some e → ∃ w, e = 123 :: (w ++ [125]) ∧ WsStr w

/-- a number token: starts like a number and is read back whole by `lex_number`
    whenever a delimiter follows -/
def NumTok (t : Str) : Prop :=
  (∃ c t', t = c :: t' ∧ (isDigit c = true ∨ c = 45)) ∧
    ∀ r, Delim r → lexNumber (t ++ r) = .ok (some (t, r))

def keysOf (fs : List (Str × JVal)) : List Str := fs.map Prod.fst

mutual
/-- all numbers are number tokens, all objects have pairwise distinct keys -/
def ValOK : JVal → Prop
  | .num t => NumTok t
  | .arr xs => ItemsOK xs
  | .obj fs => FieldsOK fs ∧ (keysOf fs).Nodup
  | _ => True
def ItemsOK : List JVal → Prop
  | [] => True
  | x :: xs => ValOK x ∧ ItemsOK xs
def FieldsOK : List (Str × JVal) → Prop
  | [] => True
  | (_, x) :: xs => ValOK x ∧ FieldsOK xs
end

mutual
/-- outer-loop iterations `parse_json` spends on the text of a value -/
def steps : JVal → Nat
  | .arr xs => 1 + stepsL xs
  | .obj fs => 1 + stepsF fs
  | _ => 1
def stepsL : List JVal → Nat
  | [] => 0
  | x :: xs => steps x + stepsL xs
def stepsF : List (Str × JVal) → Nat
  | [] => 0
  | (_, x) :: xs => steps x + stepsF xs
end

/-! ### the parser's primitive moves -/

/-- the part of the outer loop after a value has been read -/
def cont (n : Nat) (v : JVal) (st : List Frame) (r : Str) : Except Err JVal :=
  match unwind v st r with
  | .error e => .error e
  | .ok (.done v') => .ok v'
  | .ok (.more st' r') => run n st' r'

theorem run_value {n : Nat} {st : List Frame} {rem r : Str} {v : JVal}
    (h : startValue rem = .ok (.value v r)) : run (n + 1) st rem = cont n v st r := by
  rw [run, h]; rfl

theorem run_push {n : Nat} {st : List Frame} {rem r : Str} {f : Frame}
    (h : startValue rem = .ok (.push f r)) : run (n + 1) st rem = run n (f :: st) r := by
  rw [run, h]

theorem unwind_arr_close (v : JVal) (items : List JVal) (st : List Frame) (r : Str) :
    unwind v (.arr items :: st) (93 :: r) = unwind (.arr (items ++ [v])) st (skipSpaces r) := by
  rw [unwind]

theorem unwind_arr_comma (v : JVal) (items : List JVal) (st : List Frame) (r : Str) :
    unwind v (.arr items :: st) (44 :: r) = .ok (.more (.arr (items ++ [v]) :: st) (skipSpaces r)) := by
  rw [unwind]

theorem unwind_obj_close (v : JVal) (fields : List (Str × JVal)) (key : Str) (st : List Frame) (r : Str)
    (h : hasKey key fields = false) :
    unwind v (.obj fields key :: st) (125 :: r) = unwind (.obj (fields ++ [(key, v)])) st (skipSpaces r) := by
  rw [unwind]; simp [h]

theorem unwind_obj_comma (v : JVal) (fields : List (Str × JVal)) (key : Str) (st : List Frame) (r : Str)
    {k r' : Str} (h : hasKey key fields = false) (hk : lexKeyColon (skipSpaces r) = .ok (k, r')) :
    unwind v (.obj fields key :: st) (44 :: r) = .ok (.more (.obj (fields ++ [(key, v)]) k :: st) r') := by
  rw [unwind]; simp [h, hk]

theorem cont_arr_close (n : Nat) (v : JVal) (items : List JVal) (st : List Frame) (r : Str) :
    cont n v (.arr items :: st) (93 :: r) = cont n (.arr (items ++ [v])) st (skipSpaces r) := by
  unfold cont; rw [unwind_arr_close]

theorem cont_arr_comma (n : Nat) (v : JVal) (items : List JVal) (st : List Frame) (r : Str) :
    cont n v (.arr items :: st) (44 :: r) = run n (.arr (items ++ [v]) :: st) (skipSpaces r) := by
  unfold cont; rw [unwind_arr_comma]

theorem cont_obj_close (n : Nat) (v : JVal) (fields : List (Str × JVal)) (key : Str) (st : List Frame) (r : Str)
    (h : hasKey key fields = false) :
    cont n v (.obj fields key :: st) (125 :: r) = cont n (.obj (fields ++ [(key, v)])) st (skipSpaces r) := by
  unfold cont; rw [unwind_obj_close _ _ _ _ _ h]

theorem cont_obj_comma (n : Nat) (v : JVal) (fields : List (Str × JVal)) (key : Str) (st : List Frame) (r : Str)
    {k r' : Str} (h : hasKey key fields = false) (hk : lexKeyColon (skipSpaces r) = .ok (k, r')) :
    cont n v (.obj fields key :: st) (44 :: r) = run n (.obj (fields ++ [(key, v)]) k :: st) r' := by
  unfold cont; rw [unwind_obj_comma _ _ _ _ _ h hk]

theorem hasKey_eq_false {k : Str} {fs : List (Str × JVal)} : hasKey k fs = false ↔ k ∉ keysOf fs := by
  induction fs with
  | nil => simp [hasKey, keysOf]
  | cons p fs ih =>
    obtain ⟨k', v⟩ := p
    simp only [hasKey, keysOf, List.map_cons, List.mem_cons, Bool.or_eq_false_iff, not_or]
    rw [ih]
    simp only [keysOf, beq_eq_false_iff_ne, ne_eq]
    constructor
    · rintro ⟨h1, h2⟩; exact ⟨fun h => h1 h.symm, h2⟩
    · rintro ⟨h1, h2⟩; exact ⟨fun h => h1 h.symm, h2⟩

/-! ### `startValue` on each kind of text -/

theorem lexNumber_nonnum {c : Nat} (r : Str) (h : numStep .start (some c) = .stop) :
    lexNumber (c :: r) = .ok none := by
  unfold lexNumber; rw [numScan, h]

theorem startValue_null (r : Str) : startValue (sNull ++ r) = .ok (.value .null (skipSpaces r)) := by
  simp [startValue, sNull, stripPrefix]

theorem startValue_true (r : Str) : startValue (sTrue ++ r) = .ok (.value (.bool true) (skipSpaces r)) := by
  simp [startValue, sNull, sTrue, sFalse, stripPrefix]

theorem startValue_false (r : Str) : startValue (sFalse ++ r) = .ok (.value (.bool false) (skipSpaces r)) := by
  simp [startValue, sNull, sFalse, stripPrefix]

theorem startValue_str (s r : Str) : startValue (escape s ++ r) = .ok (.value (.str s) (skipSpaces r)) := by
  have h := lexString_escape s r
  have hn : lexNumber (escape s ++ r) = .ok none := by
    unfold escape; exact lexNumber_nonnum _ (by decide)
  unfold startValue
  rw [hn, h]
  simp [escape, sNull, sTrue, sFalse, stripPrefix]

theorem startValue_num {t : Str} (r : Str) (ht : NumTok t) (hr : Delim r) :
    startValue (t ++ r) = .ok (.value (.num t) (skipSpaces r)) := by
  obtain ⟨⟨c, t', rfl, hc⟩, hl⟩ := ht
  have h := hl r hr
  unfold startValue
  rw [h]
  have h1 : c ≠ 110 ∧ c ≠ 102 ∧ c ≠ 116 := by
    rcases hc with hc | hc
    · simp only [isDigit, Bool.and_eq_true, decide_eq_true_eq] at hc; omega
    · omega
  have a1 : ¬ 110 = c := by omega
  have a2 : ¬ 102 = c := by omega
  have a3 : ¬ 116 = c := by omega
  simp [sNull, sTrue, sFalse, stripPrefix, a1, a2, a3]

theorem startValue_arr_empty {r t : Str} (h : skipSpaces r = 93 :: t) :
    startValue (91 :: r) = .ok (.value (.arr []) (skipSpaces t)) := by
  have hn : lexNumber (91 :: r) = .ok none := lexNumber_nonnum _ (by decide)
  unfold startValue
  rw [hn]
  simp [sNull, sTrue, sFalse, stripPrefix, lexString, h]

theorem startValue_arr_open {r : Str} {c : Nat} {t : Str} (h : skipSpaces r = c :: t) (hc : c ≠ 93) :
    startValue (91 :: r) = .ok (.push (.arr []) (c :: t)) := by
  have hn : lexNumber (91 :: r) = .ok none := lexNumber_nonnum _ (by decide)
  unfold startValue
  rw [hn]
  simp only [sNull, sTrue, sFalse, stripPrefix, lexString, h]
  simp [hc]

theorem startValue_obj_empty {r t : Str} (h : skipSpaces r = 125 :: t) :
    startValue (123 :: r) = .ok (.value (.obj []) (skipSpaces t)) := by
  have hn : lexNumber (123 :: r) = .ok none := lexNumber_nonnum _ (by decide)
  unfold startValue
  rw [hn]
  simp [sNull, sTrue, sFalse, stripPrefix, lexString, h]

theorem startValue_obj_open {r : Str} {c : Nat} {t k r' : Str} (h : skipSpaces r = c :: t) (hc : c ≠ 125)
    (hk : lexKeyColon (c :: t) = .ok (k, r')) :
    startValue (123 :: r) = .ok (.push (.obj [] k) r') := by
  have hn : lexNumber (123 :: r) = .ok none := lexNumber_nonnum _ (by decide)
  unfold startValue
  rw [hn]
  simp only [sNull, sTrue, sFalse, stripPrefix, lexString, h]
  simp [hc, hk]

theorem lexKeyColon_escape (k : Str) {u1 : Str} (u2 t : Str) (h1 : WsStr u1) :
    lexKeyColon (escape k ++ ((u1 ++ 58 :: u2) ++ t)) = .ok (k, skipSpaces (u2 ++ t)) := by
  unfold lexKeyColon
  rw [lexString_escape]
  simp only [List.append_assoc, List.cons_append]
  rw [skipSpaces_ws_append _ h1, skipSpaces_cons_nonws _ (by decide)]
  rfl

/-! ### shape of manifested text -/

theorem isWs_of_digit_or_minus {c : Nat} (h : isDigit c = true ∨ c = 45) : isWs c = false ∧ c ≠ 93 ∧ c ≠ 125 := by
  have : (48 ≤ c ∧ c ≤ 57) ∨ c = 45 := by
    rcases h with h | h
    · simp only [isDigit, Bool.and_eq_true, decide_eq_true_eq] at h; exact Or.inl h
    · exact Or.inr h
  refine ⟨?_, by omega, by omega⟩
  have h9 : ¬ c = 9 := by omega
  have h10 : ¬ c = 10 := by omega
  have h13 : ¬ c = 13 := by omega
  have h32 : ¬ c = 32 := by omega
  simp [isWs, h9, h10, h13, h32]

/-- a manifested value starts with a character that is neither whitespace nor a closer -/
theorem manifest_head {f : Fmt} (hf : FmtOK f) (d : Nat) (v : JVal) (hv : ValOK v) :
    ∃ c t, manifest f d v = c :: t ∧ isWs c = false ∧ c ≠ 93 ∧ c ≠ 125 := by
  cases v with
  | null => exact ⟨110, _, by rw [manifest]; rfl, by decide, by decide, by decide⟩
  | bool b =>
    cases b
    · exact ⟨102, _, by rw [manifest]; rfl, by decide, by decide, by decide⟩
    · exact ⟨116, _, by rw [manifest]; rfl, by decide, by decide, by decide⟩
  | num t =>
    rw [ValOK] at hv
    obtain ⟨⟨c, t', rfl, hc⟩, _⟩ := hv
    have := isWs_of_digit_or_minus hc
    exact ⟨c, t', by rw [manifest], this.1, this.2.1, this.2.2⟩
  | str s => exact ⟨34, _, by rw [manifest]; rfl, by decide, by decide, by decide⟩
  | arr l =>
    cases l with
    | nil =>
      rw [manifest]
      cases he : f.emptyArray with
      | none => exact ⟨91, _, rfl, by decide, by decide, by decide⟩
      | some e =>
        obtain ⟨w, rfl, _⟩ := hf.ea e he
        exact ⟨91, _, rfl, by decide, by decide, by decide⟩
    | cons x xs => exact ⟨91, _, by rw [manifest], by decide, by decide, by decide⟩
  | obj l =>
    cases l with
    | nil =>
      rw [manifest]
      cases he : f.emptyObject with
      | none => exact ⟨123, _, rfl, by decide, by decide, by decide⟩
      | some e =>
        obtain ⟨w, rfl, _⟩ := hf.eo e he
        exact ⟨123, _, rfl, by decide, by decide, by decide⟩
    | cons x xs => exact ⟨123, _, by rw [manifest], by decide, by decide, by decide⟩

theorem skip_to_value {f : Fmt} (hf : FmtOK f) (d : Nat) (v : JVal) (hv : ValOK v) {w : Str} (hw : WsStr w)
    (t : Str) : skipSpaces (w ++ (manifest f d v ++ t)) = manifest f d v ++ t := by
  obtain ⟨c, t', h, hc, _⟩ := manifest_head hf d v hv
  rw [skipSpaces_ws_append _ hw, h, List.cons_append, skipSpaces_cons_nonws _ hc]

/-- text after an item of an array at depth `d` -/
def itemsTail (f : Fmt) (d : Nat) (xs : List JVal) (r : Str) : Str :=
  sepAfter f xs ++ (manifestItems f d xs ++ (f.newline ++ (rep d f.indent ++ 93 :: r)))

/-- text after a field value of an object at depth `d` -/
def fieldsTail (f : Fmt) (d : Nat) (xs : List (Str × JVal)) (r : Str) : Str :=
  sepAfter f xs ++ (manifestFields f d xs ++ (f.newline ++ (rep d f.indent ++ 125 :: r)))

theorem itemsTail_delim {f : Fmt} (hf : FmtOK f) (d : Nat) (xs : List JVal) (r : Str) :
    Delim (itemsTail f d xs r) := by
  cases xs with
  | nil =>
    simp only [itemsTail, sepAfter, manifestItems, List.nil_append]
    exact Delim.ws_append hf.newline (Delim.ws_append (hf.indent.rep d) (Or.inr ⟨93, r, rfl, by simp⟩))
  | cons y ys =>
    obtain ⟨w1, w2, h, hw1, _⟩ := hf.item
    simp only [itemsTail, sepAfter, h, List.append_assoc, List.cons_append]
    exact Delim.ws_append hw1 (Or.inr ⟨44, _, rfl, by simp⟩)

theorem fieldsTail_delim {f : Fmt} (hf : FmtOK f) (d : Nat) (xs : List (Str × JVal)) (r : Str) :
    Delim (fieldsTail f d xs r) := by
  cases xs with
  | nil =>
    simp only [fieldsTail, sepAfter, manifestFields, List.nil_append]
    exact Delim.ws_append hf.newline (Delim.ws_append (hf.indent.rep d) (Or.inr ⟨125, r, rfl, by simp⟩))
  | cons y ys =>
    obtain ⟨w1, w2, h, hw1, _⟩ := hf.item
    simp only [fieldsTail, sepAfter, h, List.append_assoc, List.cons_append]
    exact Delim.ws_append hw1 (Or.inr ⟨44, _, rfl, by simp⟩)

/-! ### the round trip, by mutual structural induction -/

def ValGoal (f : Fmt) (v : JVal) : Prop :=
  ∀ (d n : Nat) (st : List Frame) (r : Str), ValOK v → Delim r →
    run (n + steps v) st (manifest f d v ++ r) = cont n v st (skipSpaces r)

def ItemsGoal (f : Fmt) : List JVal → Prop
  | [] => True
  | x :: xs => ∀ (d n : Nat) (st : List Frame) (r : Str) (acc : List JVal), ItemsOK (x :: xs) →
      run (n + stepsL (x :: xs)) (.arr acc :: st) (manifest f (d + 1) x ++ itemsTail f d xs r)
        = cont n (.arr (acc ++ x :: xs)) st (skipSpaces r)

def FieldsGoal (f : Fmt) : List (Str × JVal) → Prop
  | [] => True
  | (k, x) :: xs => ∀ (d n : Nat) (st : List Frame) (r : Str) (acc : List (Str × JVal)),
      FieldsOK ((k, x) :: xs) → (keysOf acc ++ k :: keysOf xs).Nodup →
      run (n + stepsF ((k, x) :: xs)) (.obj acc k :: st) (manifest f (d + 1) x ++ fieldsTail f d xs r)
        = cont n (.obj (acc ++ (k, x) :: xs)) st (skipSpaces r)

theorem items_step {f : Fmt} (hf : FmtOK f) (x : JVal) (xs : List JVal)
    (hx : ValGoal f x) (hxs : ItemsGoal f xs) : ItemsGoal f (x :: xs) := by
  intro d n st r acc hok
  rw [ItemsOK] at hok
  have e1 : n + stepsL (x :: xs) = (n + stepsL xs) + steps x := by rw [stepsL]; omega
  rw [e1, hx (d + 1) (n + stepsL xs) _ _ hok.1 (itemsTail_delim hf d xs r)]
  cases xs with
  | nil =>
    simp only [itemsTail, sepAfter, manifestItems, List.nil_append, stepsL, Nat.add_zero]
    rw [skipSpaces_ws_append _ hf.newline, skipSpaces_ws_append _ (hf.indent.rep d),
        skipSpaces_cons_nonws _ (by decide), cont_arr_close]
  | cons y ys =>
    obtain ⟨w1, w2, h, hw1, hw2⟩ := hf.item
    have hy := hok.2
    rw [ItemsOK] at hy
    have e2 : itemsTail f d (y :: ys) r
        = w1 ++ 44 :: (w2 ++ (f.newline ++ (rep (d + 1) f.indent ++ (manifest f (d + 1) y ++ itemsTail f d ys r)))) := by
      simp only [itemsTail, sepAfter, manifestItems, h, List.append_assoc, List.cons_append]
    rw [e2, skipSpaces_ws_append _ hw1, skipSpaces_cons_nonws _ (by decide), cont_arr_comma]
    have e3 : w2 ++ (f.newline ++ (rep (d + 1) f.indent ++ (manifest f (d + 1) y ++ itemsTail f d ys r)))
        = (w2 ++ (f.newline ++ rep (d + 1) f.indent)) ++ (manifest f (d + 1) y ++ itemsTail f d ys r) := by
      simp only [List.append_assoc]
    rw [e3, skip_to_value hf _ _ hy.1 (hw2.append (hf.newline.append (hf.indent.rep _)))]
    have := hxs d n st r (acc ++ [x]) hok.2
    rw [this]
    simp only [List.append_assoc, List.cons_append, List.nil_append]

theorem nodup_shift {acc : List Str} {k k' : Str} {ks : List Str}
    (h : (acc ++ k :: k' :: ks).Nodup) : ((acc ++ [k]) ++ k' :: ks).Nodup := by
  simpa only [List.append_assoc, List.cons_append, List.nil_append] using h

theorem fields_step {f : Fmt} (hf : FmtOK f) (k : Str) (x : JVal) (xs : List (Str × JVal))
    (hx : ValGoal f x) (hxs : FieldsGoal f xs) : FieldsGoal f ((k, x) :: xs) := by
  intro d n st r acc hok hnd
  rw [FieldsOK] at hok
  have hk : hasKey k acc = false := by
    rw [hasKey_eq_false]
    intro hmem
    have := List.nodup_append.mp hnd
    exact this.2.2 k hmem k List.mem_cons_self rfl
  have e1 : n + stepsF ((k, x) :: xs) = (n + stepsF xs) + steps x := by rw [stepsF]; omega
  rw [e1, hx (d + 1) (n + stepsF xs) _ _ hok.1 (fieldsTail_delim hf d xs r)]
  cases xs with
  | nil =>
    simp only [fieldsTail, sepAfter, manifestFields, List.nil_append, stepsF, Nat.add_zero]
    rw [skipSpaces_ws_append _ hf.newline, skipSpaces_ws_append _ (hf.indent.rep d),
        skipSpaces_cons_nonws _ (by decide), cont_obj_close _ _ _ _ _ _ hk]
  | cons p ys =>
    obtain ⟨k', y⟩ := p
    obtain ⟨w1, w2, h, hw1, hw2⟩ := hf.item
    obtain ⟨u1, u2, hkv, hu1, hu2⟩ := hf.kv
    have hy := hok.2
    rw [FieldsOK] at hy
    have e2 : fieldsTail f d ((k', y) :: ys) r
        = w1 ++ 44 :: ((w2 ++ (f.newline ++ rep (d + 1) f.indent)) ++
            (escape k' ++ ((u1 ++ 58 :: u2) ++ (manifest f (d + 1) y ++ fieldsTail f d ys r)))) := by
      simp only [fieldsTail, sepAfter, manifestFields, h, hkv, List.append_assoc, List.cons_append]
    have hkc : lexKeyColon (skipSpaces ((w2 ++ (f.newline ++ rep (d + 1) f.indent)) ++
            (escape k' ++ ((u1 ++ 58 :: u2) ++ (manifest f (d + 1) y ++ fieldsTail f d ys r)))))
        = .ok (k', manifest f (d + 1) y ++ fieldsTail f d ys r) := by
      rw [skipSpaces_ws_append _ (hw2.append (hf.newline.append (hf.indent.rep _)))]
      have : skipSpaces (escape k' ++ ((u1 ++ 58 :: u2) ++ (manifest f (d + 1) y ++ fieldsTail f d ys r)))
          = escape k' ++ ((u1 ++ 58 :: u2) ++ (manifest f (d + 1) y ++ fieldsTail f d ys r)) := by
        unfold escape; rw [List.cons_append, skipSpaces_cons_nonws _ (by decide)]
      rw [this, lexKeyColon_escape _ _ _ hu1, skip_to_value hf _ _ hy.1 hu2]
    rw [e2, skipSpaces_ws_append _ hw1, skipSpaces_cons_nonws _ (by decide),
        cont_obj_comma _ _ _ _ _ _ hk hkc]
    have hnd' : (keysOf (acc ++ [(k, x)]) ++ k' :: keysOf ys).Nodup := by
      have : keysOf (acc ++ [(k, x)]) = keysOf acc ++ [k] := by simp [keysOf]
      rw [this]
      exact nodup_shift (by simpa [keysOf] using hnd)
    have := hxs d n st r (acc ++ [(k, x)]) hok.2 hnd'
    rw [this]
    simp only [List.append_assoc, List.cons_append, List.nil_append]

theorem val_scalar_null (f : Fmt) : ValGoal f .null := by
  intro d n st r _ _
  have hs : steps JVal.null = 1 := rfl
  rw [manifest, hs]; exact run_value (startValue_null r)

theorem val_scalar_bool (f : Fmt) (b : Bool) : ValGoal f (.bool b) := by
  intro d n st r _ _
  cases b
  · have hs : steps (JVal.bool false) = 1 := rfl
    rw [manifest, hs]; exact run_value (startValue_false r)
  · have hs : steps (JVal.bool true) = 1 := rfl
    rw [manifest, hs]; exact run_value (startValue_true r)

theorem val_scalar_num (f : Fmt) (t : Str) : ValGoal f (.num t) := by
  intro d n st r hv hr
  rw [ValOK] at hv
  have hs : steps (JVal.num t) = 1 := rfl
  rw [manifest, hs]; exact run_value (startValue_num r hv hr)

theorem val_scalar_str (f : Fmt) (s : Str) : ValGoal f (.str s) := by
  intro d n st r _ _
  have hs : steps (JVal.str s) = 1 := rfl
  rw [manifest, hs]; exact run_value (startValue_str s r)

theorem val_arr {f : Fmt} (hf : FmtOK f) (l : List JVal) (hl : ItemsGoal f l) : ValGoal f (.arr l) := by
  intro d n st r hv hr
  rw [ValOK] at hv
  cases l with
  | nil =>
    have hs : n + steps (.arr []) = n + 1 := by rw [steps, stepsL]
    rw [hs, manifest]
    cases he : f.emptyArray with
    | none =>
      simp only [List.cons_append, List.append_assoc]
      refine run_value (startValue_arr_empty ?_)
      rw [skipSpaces_ws_append _ hf.newline, skipSpaces_ws_append _ hf.newline,
          skipSpaces_ws_append _ (hf.indent.rep d)]
      exact skipSpaces_cons_nonws _ (by decide)
    | some e =>
      obtain ⟨w, rfl, hw⟩ := hf.ea e he
      simp only [List.cons_append, List.append_assoc]
      refine run_value (startValue_arr_empty ?_)
      rw [skipSpaces_ws_append _ hw]
      exact skipSpaces_cons_nonws _ (by decide)
  | cons x xs =>
    have hx := hv
    rw [ItemsOK] at hx
    have hs : n + steps (.arr (x :: xs)) = (n + stepsL (x :: xs)) + 1 := by rw [steps]; omega
    have e : manifest f d (.arr (x :: xs)) ++ r
        = 91 :: ((f.newline ++ rep (d + 1) f.indent) ++ (manifest f (d + 1) x ++ itemsTail f d xs r)) := by
      rw [manifest, manifestItems]
      simp only [itemsTail, List.append_assoc, List.cons_append, List.nil_append]
    obtain ⟨c, t, hc, hws, h93, _⟩ := manifest_head hf (d + 1) x hx.1
    have hsk : skipSpaces ((f.newline ++ rep (d + 1) f.indent) ++ (manifest f (d + 1) x ++ itemsTail f d xs r))
        = c :: (t ++ itemsTail f d xs r) := by
      rw [skip_to_value hf _ _ hx.1 (hf.newline.append (hf.indent.rep _)), hc, List.cons_append]
    rw [hs, e, run_push (startValue_arr_open hsk h93), ← List.cons_append, ← hc]
    have := hl d n st r [] hv
    rw [this, List.nil_append]

theorem val_obj {f : Fmt} (hf : FmtOK f) (l : List (Str × JVal)) (hl : FieldsGoal f l) : ValGoal f (.obj l) := by
  intro d n st r hv hr
  rw [ValOK] at hv
  cases l with
  | nil =>
    have hs : n + steps (.obj []) = n + 1 := by rw [steps, stepsF]
    rw [hs, manifest]
    cases he : f.emptyObject with
    | none =>
      simp only [List.cons_append, List.append_assoc]
      refine run_value (startValue_obj_empty ?_)
      rw [skipSpaces_ws_append _ hf.newline, skipSpaces_ws_append _ hf.newline,
          skipSpaces_ws_append _ (hf.indent.rep d)]
      exact skipSpaces_cons_nonws _ (by decide)
    | some e =>
      obtain ⟨w, rfl, hw⟩ := hf.eo e he
      simp only [List.cons_append, List.append_assoc]
      refine run_value (startValue_obj_empty ?_)
      rw [skipSpaces_ws_append _ hw]
      exact skipSpaces_cons_nonws _ (by decide)
  | cons p xs =>
    obtain ⟨k, x⟩ := p
    have hx := hv.1
    rw [FieldsOK] at hx
    obtain ⟨u1, u2, hkv, hu1, hu2⟩ := hf.kv
    have hs : n + steps (.obj ((k, x) :: xs)) = (n + stepsF ((k, x) :: xs)) + 1 := by rw [steps]; omega
    have e : manifest f d (.obj ((k, x) :: xs)) ++ r
        = 123 :: ((f.newline ++ rep (d + 1) f.indent) ++
            (escape k ++ ((u1 ++ 58 :: u2) ++ (manifest f (d + 1) x ++ fieldsTail f d xs r)))) := by
      rw [manifest, manifestFields]
      simp only [fieldsTail, hkv, List.append_assoc, List.cons_append, List.nil_append]
    have hsk : skipSpaces ((f.newline ++ rep (d + 1) f.indent) ++
            (escape k ++ ((u1 ++ 58 :: u2) ++ (manifest f (d + 1) x ++ fieldsTail f d xs r))))
        = 34 :: ((escapeBody k ++ [34]) ++ ((u1 ++ 58 :: u2) ++ (manifest f (d + 1) x ++ fieldsTail f d xs r))) := by
      rw [skipSpaces_ws_append _ (hf.newline.append (hf.indent.rep _))]
      unfold escape; rw [List.cons_append, skipSpaces_cons_nonws _ (by decide)]
    have hkc : lexKeyColon (34 :: ((escapeBody k ++ [34]) ++ ((u1 ++ 58 :: u2) ++
            (manifest f (d + 1) x ++ fieldsTail f d xs r))))
        = .ok (k, manifest f (d + 1) x ++ fieldsTail f d xs r) := by
      have := lexKeyColon_escape k u2 (manifest f (d + 1) x ++ fieldsTail f d xs r) hu1
      rw [skip_to_value hf _ _ hx.1 hu2] at this
      rw [← this]; rfl
    rw [hs, e, run_push (startValue_obj_open hsk (by decide) hkc)]
    have := hl d n st r [] hv.1 (by simpa [keysOf] using hv.2)
    rw [this, List.nil_append]

mutual
theorem rt_val {f : Fmt} (hf : FmtOK f) : (v : JVal) → ValGoal f v
  | .null => val_scalar_null f
  | .bool b => val_scalar_bool f b
  | .num t => val_scalar_num f t
  | .str s => val_scalar_str f s
  | .arr l => val_arr hf l (rt_items hf l)
  | .obj l => val_obj hf l (rt_fields hf l)
theorem rt_items {f : Fmt} (hf : FmtOK f) : (l : List JVal) → ItemsGoal f l
  | [] => trivial
  | x :: xs => items_step hf x xs (rt_val hf x) (rt_items hf xs)
theorem rt_fields {f : Fmt} (hf : FmtOK f) : (l : List (Str × JVal)) → FieldsGoal f l
  | [] => trivial
  | (k, x) :: xs => fields_step hf k x xs (rt_val hf x) (rt_fields hf xs)
end

/-! ### fuel: the text is at least as long as the number of outer-loop iterations -/

def LenGoal (f : Fmt) (v : JVal) : Prop := ∀ d, ValOK v → steps v ≤ (manifest f d v).length
def LenGoalL (f : Fmt) (l : List JVal) : Prop := ∀ d, ItemsOK l → stepsL l ≤ (manifestItems f d l).length
def LenGoalF (f : Fmt) (l : List (Str × JVal)) : Prop := ∀ d, FieldsOK l → stepsF l ≤ (manifestFields f d l).length

theorem len_scalar {f : Fmt} (hf : FmtOK f) (v : JVal) (h : steps v = 1) : LenGoal f v := by
  intro d hv
  obtain ⟨c, t, hc, _⟩ := manifest_head hf d v hv
  rw [h, hc]; simp

mutual
theorem len_val {f : Fmt} (hf : FmtOK f) : (v : JVal) → LenGoal f v
  | .null => len_scalar hf _ rfl
  | .bool _ => len_scalar hf _ rfl
  | .num _ => len_scalar hf _ rfl
  | .str _ => len_scalar hf _ rfl
  | .arr [] => len_scalar hf _ rfl
  | .obj [] => len_scalar hf _ rfl
  | .arr (x :: xs) => by
    intro d hv
    rw [ValOK] at hv
    have := len_items hf (x :: xs) d hv
    rw [steps, manifest]
    simp only [List.length_cons, List.length_append]
    omega
  | .obj (p :: xs) => by
    intro d hv
    rw [ValOK] at hv
    have := len_fields hf (p :: xs) d hv.1
    rw [steps, manifest]
    simp only [List.length_cons, List.length_append]
    omega
theorem len_items {f : Fmt} (hf : FmtOK f) : (l : List JVal) → LenGoalL f l
  | [] => by intro d _; simp [stepsL]
  | x :: xs => by
    intro d hv
    rw [ItemsOK] at hv
    have h1 := len_val hf x (d + 1) hv.1
    have h2 := len_items hf xs d hv.2
    rw [stepsL, manifestItems]
    simp only [List.length_append]
    omega
theorem len_fields {f : Fmt} (hf : FmtOK f) : (l : List (Str × JVal)) → LenGoalF f l
  | [] => by intro d _; simp [stepsF]
  | (k, x) :: xs => by
    intro d hv
    rw [FieldsOK] at hv
    have h1 := len_val hf x (d + 1) hv.1
    have h2 := len_fields hf xs d hv.2
    rw [stepsF, manifestFields]
    simp only [List.length_append]
    omega
end

/-- **Round trip of the model.**  For a whitespace format and a value whose
    numbers are number tokens and whose objects have distinct keys, `parse_json`
    applied to the manifested text returns exactly the value. -/
theorem parseJson_manifest {f : Fmt} (hf : FmtOK f) (v : JVal) (hv : ValOK v) :
    parseJson (manifest f 0 v) = .ok v := by
  unfold parseJson
  obtain ⟨c, t, hc, hws, _⟩ := manifest_head hf 0 v hv
  have hlen := len_val hf v 0 hv
  have hsk : skipSpaces (manifest f 0 v) = manifest f 0 v ++ [] := by
    rw [hc, skipSpaces_cons_nonws _ hws, List.append_nil]
  have hfuel : (manifest f 0 v).length + 1 = ((manifest f 0 v).length + 1 - steps v) + steps v := by omega
  rw [hsk, hfuel, rt_val hf v 0 _ [] [] hv (Or.inl rfl)]
  unfold cont
  rw [skipSpaces, unwind]
  rfl

end Rsj.Json
