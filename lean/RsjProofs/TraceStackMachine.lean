/-
  Helper lemmas for C10 about whole runs of the machine of RsjModel/TraceStack.lean:
  reachable states keep the invariant, possible outcomes of a run, independence of a step from
  the limit, and the cycle lemma for the self-dependency model.
-/
import RsjProofs.TraceStack
namespace Rsj.TraceStack

/-- Every handler word is bracketed. -/
def HandlersBracketed {σ : Type} (H : σ → List Act × Option σ) : Prop := ∀ h, Bracketed (H h).1

/-- States after completed steps, starting from an initial stack of `eval` (ordinary states only,
    counter 0). -/
inductive Reach {σ : Type} (H : σ → List Act × Option σ) (max : Nat) : σ → St → Prop
  | init (h0 : σ) (s0 : St) : Init s0 → Reach H max h0 s0
  | step {h h' : σ} {s s' : St} : Reach H max h s → stepM H max h s = .next h' s' →
      Reach H max h' s'

theorem reach_inv {σ : Type} {H : σ → List Act × Option σ} {max : Nat} (hB : HandlersBracketed H)
    {h : σ} {s : St} (hr : Reach H max h s) : Inv s ∧ s.len ≤ max := by
  induction hr with
  | init h0 s0 hinit => exact ⟨init_inv hinit, by rw [hinit.1]; exact Nat.zero_le _⟩
  | @step h h' s s' _ hstep ih =>
    have hc := stepM_cases H max h ih.1 (hB h)
    rw [hstep] at hc
    cases hc with
    | popped it s1 _ _ hi hle => exact ⟨hi, hle⟩
    | handled s1 s2 h'' _ _ _ hi hle => exact ⟨hi, hle⟩

/-- What a whole run can produce. -/
theorem run_outcome {σ : Type} {H : σ → List Act × Option σ} {max : Nat}
    (hB : HandlersBracketed H) (fuel : Nat) {h : σ} {s : St} (hr : Reach H max h s) :
    match run H max fuel h s with
    | .panic _ => False
    | .stackOverflow t => max < t.length
    | _ => True := by
  induction fuel generalizing h s with
  | zero => simp [run]
  | succ n ih =>
    have hc := stepM_cases H max h (reach_inv hB hr).1 (hB h)
    simp only [run]
    cases hstep : stepM H max h s with
    | next h' s' => exact ih (Reach.step hr hstep)
    | halt o =>
      rw [hstep] at hc
      cases hc with
      | finished => trivial
      | poppedOverflow it s1 t _ _ _ hlen hgt => simp only; omega
      | handledOverflow s1 s2 h' t _ _ _ _ hlen hgt => simp only; omega
      | handlerError => trivial

/-- One step does not depend on the limit unless it overflows (or panics while reporting). -/
theorem stepM_limit_mono {σ : Type} (H : σ → List Act × Option σ) {m m' : Nat} (hle : m ≤ m')
    (h : σ) (st : St)
    (hno : ∀ t, stepM H m h st ≠ .halt (.stackOverflow t))
    (hnp : ∀ p, stepM H m h st ≠ .halt (.panic p)) :
    stepM H m' h st = stepM H m h st := by
  have hrep : ∀ (s : St), (∃ t, report (σ := σ) s .stackOverflow = .stackOverflow t) ∨
      (∃ p, report (σ := σ) s .stackOverflow = .panic p) := by
    intro s
    unfold report
    cases getStackTrace s with
    | ok t => exact Or.inl ⟨t, rfl⟩
    | error p => exact Or.inr ⟨p, rfl⟩
  unfold stepM at hno hnp ⊢
  cases hp : popItem st with
  | none => rfl
  | some pr =>
    obtain ⟨it, r⟩ := pr
    rw [hp] at hno hnp
    cases r with
    | error p => cases it <;> rfl
    | ok s1 =>
      cases it with
      | trace =>
        simp only at hno hnp ⊢
        by_cases hgt : s1.len > m
        · simp only [hgt, if_true] at hno hnp
          rcases hrep s1 with ⟨t, ht⟩ | ⟨p, hp'⟩
          · exact absurd (by rw [ht]) (hno t)
          · exact absurd (by rw [hp']) (hnp p)
        · have : ¬ s1.len > m' := by omega
          simp only [hgt, this, if_false]
      | delayed =>
        simp only at hno hnp ⊢
        by_cases hgt : s1.len > m
        · simp only [hgt, if_true] at hno hnp
          rcases hrep s1 with ⟨t, ht⟩ | ⟨p, hp'⟩
          · exact absurd (by rw [ht]) (hno t)
          · exact absurd (by rw [hp']) (hnp p)
        · have : ¬ s1.len > m' := by omega
          simp only [hgt, this, if_false]
      | other =>
        simp only at hno hnp ⊢
        cases ha : acts s1 (H h).1 with
        | error p => rfl
        | ok s2 =>
          rw [ha] at hno hnp
          simp only at hno hnp ⊢
          cases hn : (H h).2 with
          | none => rfl
          | some h' =>
            rw [hn] at hno hnp
            simp only at hno hnp ⊢
            by_cases hgt : s2.len > m
            · simp only [hgt, if_true] at hno hnp
              rcases hrep s2 with ⟨t, ht⟩ | ⟨p, hp'⟩
              · exact absurd (by rw [ht]) (hno t)
              · exact absurd (by rw [hp']) (hnp p)
            · have : ¬ s2.len > m' := by omega
              simp only [hgt, this, if_false]

theorem forceChain_cycle (k max : Nat) (hk : 1 ≤ k) :
    ∀ (d j : Nat) (inProg : List Nat) (fuel : Nat), j + d = k → j ≤ max →
      (∀ x, x ∈ inProg ↔ x < j) → d + 1 ≤ fuel →
      forceChain (fun i => (i + 1) % k) max fuel (j % k) inProg j =
        if k ≤ max then .infiniteRecursion else .stackOverflow := by
  intro d
  induction d with
  | zero =>
    intro j inProg fuel hjk hj hin hf
    have : j = k := by omega
    subst this
    cases fuel with
    | zero => omega
    | succ n =>
      have h0 : inProg.contains (j % j) = true := by
        rw [Nat.mod_self, List.contains_iff_mem]; exact (hin 0).mpr (by omega)
      simp only [forceChain, h0, if_true, hj]
  | succ d ih =>
    intro j inProg fuel hjk hj hin hf
    have hlt : j < k := by omega
    cases fuel with
    | zero => omega
    | succ n =>
      have hnot : inProg.contains (j % k) = false := by
        rw [Nat.mod_eq_of_lt hlt]
        cases hc : inProg.contains j with
        | false => rfl
        | true =>
          have := (hin j).mp (List.contains_iff_mem.mp hc)
          omega
      simp only [forceChain, hnot, Bool.false_eq_true, if_false]
      by_cases hgt : j + 1 > max
      · have : ¬ k ≤ max := by omega
        simp only [hgt, if_true, this, if_false]
      · simp only [hgt, if_false]
        rw [Nat.mod_eq_of_lt hlt]
        refine ih (j + 1) (j :: inProg) n (by omega) (by omega) ?_ (by omega)
        intro x
        simp only [List.mem_cons, hin x]
        omega

end Rsj.TraceStack
