/-
  SPECIFICATION (not a model of Rust code): a reader of the YAML streams that
  `std.manifestYamlStream` writes (YAML 1.2.2 chapter 9, restricted):

  * the stream starts with an explicit document start marker line `---`; further
    `---` lines separate the documents;
  * it ends either with a document end marker line `...` after which only empty
    lines may follow, or with the line break that ends the text (a text that does
    not end in a line break is rejected);
  * so every document is followed by a line break, and is read by `readYaml` from
    its lines plus that line break (which matters for `|` scalars: clip chomping).
  Directives, documents without `---`, content on the marker line (`--- text`) and
  anything after `...` other than empty lines are outside the sub-language.
  A marker is a whole line equal to `---` / `...`; inside a document of the
  sub-language no line is equal to one (block scalar content is indented, keys end
  in `:`, sequence entries are `-` or start with `- `).
-/
import RsjProofs.YamlBlock
namespace Rsj.Yaml
open Rsj.Json

def docStart : Str := [45, 45, 45]
def docEnd : Str := [46, 46, 46]

/-- the lines before the first `...` line, and the lines after it if there is one -/
def cutAtEnd : List Str → List Str × Option (List Str)
  | [] => ([], none)
  | l :: ls =>
    if l = docEnd then ([], some ls)
    else
      let p := cutAtEnd ls
      (l :: p.1, p.2)

/-- the lines up to the first `---` line, and the groups of lines between the
    following ones -/
def splitDocs : List Str → List Str × List (List Str)
  | [] => ([], [])
  | l :: ls =>
    let p := splitDocs ls
    if l = docStart then ([], p.1 :: p.2) else (l :: p.1, p.2)

/-- remove the empty last line of a text that ends in a line break -/
def dropFinalEmpty : List Str → Option (List Str)
  | [] => none
  | [l] => if l = [] then some [] else none
  | l :: m :: ls =>
    match dropFinalEmpty (m :: ls) with
    | some r => some (l :: r)
    | none => none

/-- every document from its lines and the line break that follows them -/
def readDocs : List (List Str) → Option (List JVal)
  | [] => some []
  | L :: Ls =>
    match readYaml (joinNl L ++ [10]), readDocs Ls with
    | some v, some vs => some (v :: vs)
    | _, _ => none

def readYamlStream (text : Str) : Option (List JVal) :=
  match linesOf text with
  | [] => none
  | l :: ls =>
    if l ≠ docStart then none
    else
      match cutAtEnd ls with
      | (body, some after) =>
        if allBlank after then readDocs ((splitDocs body).1 :: (splitDocs body).2) else none
      | (body, none) =>
        match dropFinalEmpty body with
        | some b => readDocs ((splitDocs b).1 :: (splitDocs b).2)
        | none => none

end Rsj.Yaml
