import RsjProofs.EvalEmbHelpers2
/-! Store-embedding invariance of the numeric / slice helpers, of the comprehension clauses
    (`evalSpecs`), of the binary operators (`binaryOp`) and of the array comparison (`compareLists`). -/
set_option linter.unusedVariables false
namespace Rsj.Eval
open Rsj.Core
set_option linter.unusedSectionVars false
variable [Mode]

/-! ### helpers without store access -/

theorem safeInt_rel {ρ : Emb} (f : Float) : MRel ρ REq (safeInt f) (safeInt f) := by
  unfold safeInt
  split
  · exact MRel_throw rfl
  · exact MRel_pure (Q := REq) rfl

theorem numText_rel {ρ : Emb} (f : Float) : MRel ρ REq (numText f) (numText f) := by
  unfold numText
  mnorm
  split
  · split
    · exact MRel_pure (Q := REq) rfl
    · exact MRel_pure (Q := REq) rfl
  · exact MRel_throw rfl

theorem sliceNum_rel {ρ : Emb} {v v' : Value} (hv : RVal ρ v v') : MRel ρ REq (sliceNum v) (sliceNum v') := by
  unfold sliceNum
  cases hv <;> simp only []
  all_goals first
    | exact MRel_pure (Q := REq) rfl
    | exact MRel_throw rfl

theorem sliceRange_rel {ρ : Emb} (len : Nat) (a b c : Option Float) :
    MRel ρ REq (sliceRange len a b c) (sliceRange len a b c) := by
  unfold sliceRange
  cases a <;> cases b <;> cases c <;> simp only [] <;> mnorm <;> repeat' split
  all_goals first
    | exact MRel_pure (Q := REq) rfl
    | exact MRel_throw rfl

theorem RVars.filter_ne {ρ : Emb} {vs vs' : List (String × TId)} (h : RVars ρ vs vs') (v : String) :
    RVars ρ (vs.filter (fun p => p.1 != v)) (vs'.filter (fun p => p.1 != v)) :=
  RList.filter_same h _ _ (fun a b hab => by
    have : a.1 = b.1 := hab.1
    simp only [this])

section
variable {cfg cfg' : Cfg} [RCfg cfg cfg'] {rec rec' : Task → M Value} (hrec : RecRel rec rec')
include hrec

/-! ### comprehension clauses -/

theorem evalSpecs_rel {ρ : Emb} {env env' : EId} (specs : List (Option String × Expr)) (d : Nat) {d' : Nat} (he : RE ρ env env') (hd : RDep d d' := by rdep) :
    MRel ρ (RList RVars) (evalSpecs rec specs env d) (evalSpecs rec' specs env' d') := by
  unfold evalSpecs
  mnorm
  split
  · exact MRel_throw rfl
  · exact MRel_throw rfl
  · rename_i v0 e0 rest
    mbind (hrec _ _ _ (.eval e0 false d he)) with first first' hfirst
    cases hfirst <;> simp only []
    case arr items items' hitems =>
      refine MRel_bind (Q₁ := RList RVars) ?_ ?_
      · mfor (RList RVars) with sets sets' hsets x hx
        · exact hitems.map (fun a b hab => .cons ⟨rfl, hab⟩ .nil)
        · refine MRel_bind (Q₁ := RList RVal) ?_ ?_
          · refine MRel_forIn RVars (RList RVal) hsets .nil ?_
            intro ρ2 hle2 vars vars' acc acc' _ _ hvars hacc
            lift_hyps hle2
            mbind (newEnv_rel (.some he) hvars) with inner inner' hinner
            mbind (hrec _ _ _ (.eval _ false d hinner)) with v v' hv
            exact MRel_pure (.yield (hacc.snoc hv))
          · mcont vals vals' hvals
            mnorm
            split
            · rename_i v hxv
              refine MRel_bind (Q₁ := RList RVars) ?_ ?_
              · refine MRel_forIn (RProd RVars RVal) (RList RVars) (RList.zip hsets hvals) .nil ?_
                intro ρ2 hle2 p p' acc acc' hm hm' hp hacc
                clear hm hm'
                lift_hyps hle2
                obtain ⟨vars, value⟩ := p
                obtain ⟨vars', value'⟩ := p'
                obtain ⟨hvars, hvalue⟩ := hp
                have hvars : RVars _ vars vars' := hvars
                have hvalue : RVal _ value value' := hvalue
                cases hvalue <;> simp only []
                case arr its its' hits =>
                  refine MRel_bind (Q₁ := RList RVars) ?_ ?_
                  · refine MRel_forIn RT (RList RVars) hits hacc ?_
                    intro ρ3 hle3 t t' acc2 acc2' _ _ ht hacc2
                    lift_hyps hle3
                    exact MRel_pure (.yield (hacc2.snoc ((hvars.filter_ne v).snoc (show RProd REq RT _ (v, t) (v, t') from ⟨rfl, ht⟩))))
                  · mcont r r' hr
                    exact MRel_pure (.yield hr)
                all_goals exact MRel_throw rfl
              · mcont r r' hr
                exact MRel_pure (.yield hr)
            · refine MRel_bind (Q₁ := RList RVars) ?_ ?_
              · refine MRel_forIn (RProd RVars RVal) (RList RVars) (RList.zip hsets hvals) .nil ?_
                intro ρ2 hle2 p p' acc acc' hm hm' hp hacc
                clear hm hm'
                lift_hyps hle2
                obtain ⟨vars, value⟩ := p
                obtain ⟨vars', value'⟩ := p'
                obtain ⟨hvars, hvalue⟩ := hp
                have hvars : RVars _ vars vars' := hvars
                have hvalue : RVal _ value value' := hvalue
                cases hvalue <;> simp only []
                case bool b =>
                  split
                  · exact MRel_pure (.yield (hacc.snoc hvars))
                  · exact MRel_pure (.yield hacc)
                all_goals exact MRel_throw rfl
              · mcont r r' hr
                exact MRel_pure (.yield hr)
      · mcont r r' hr
        exact MRel_pure hr
    all_goals exact MRel_throw rfl

/-! ### binary operators -/

theorem binaryOp_coerce_rel {ρ : Emb} {v v' : Value} (d : Nat) {d' : Nat} (hasSpan : Bool) (g : String → String)
    (hv : RVal ρ v v') (hd : RDep d d' := by rdep) :
    MRel ρ RVal
      (if hasSpan = true then do
        checkDepth cfg (d + 1)
        let s ← coerceToString rec v (if hasSpan = true then d + 1 else d)
        pure (Value.str (g s))
      else do
        let s ← coerceToString rec v (if hasSpan = true then d + 1 else d)
        pure (Value.str (g s)))
      (if hasSpan = true then do
        checkDepth cfg' (d' + 1)
        let s ← coerceToString rec' v' (if hasSpan = true then d' + 1 else d')
        pure (Value.str (g s))
      else do
        let s ← coerceToString rec' v' (if hasSpan = true then d' + 1 else d')
        pure (Value.str (g s))) := by
  split
  · mbind (checkDepth_rel _ _) with u u' hu
    mbind (coerceToString_rel hrec _ hv) with s s' hs
    cases hs
    exact MRel_pure (.str _)
  · mbind (coerceToString_rel hrec _ hv) with s s' hs
    cases hs
    exact MRel_pure (.str _)

theorem binaryOp_rel {ρ : Emb} {l l' r r' : Value} (op : BinOp) (d : Nat) {d' : Nat} (hasSpan : Bool)
    (hl : RVal ρ l l') (hr : RVal ρ r r') (hd : RDep d d' := by rdep) :
    MRel ρ RVal (binaryOp cfg rec op l r d hasSpan) (binaryOp cfg' rec' op l' r' d' hasSpan) := by
  unfold binaryOp
  mnorm
  cases hl <;> cases hr <;> cases op <;> simp only []
  all_goals try exact MRel_throw rfl
  case bool.bool.land => exact MRel_pure (.bool _)
  case bool.bool.lor => exact MRel_pure (.bool _)
  case num.num.add => mbind (checkNum_rel _) with u u' hu; exact MRel_pure (.num _)
  case num.num.sub => mbind (checkNum_rel _) with u u' hu; exact MRel_pure (.num _)
  case num.num.mul => mbind (checkNum_rel _) with u u' hu; exact MRel_pure (.num _)
  case num.num.div =>
    split
    · exact MRel_throw rfl
    · mbind (checkNum_rel _) with u u' hu; exact MRel_pure (.num _)
  case num.num.rem =>
    split
    · exact MRel_throw rfl
    · mbind (checkNum_rel _) with u u' hu; exact MRel_pure (.num _)
  case num.num.shl =>
    mbind (safeInt_rel _) with a a' ha
    cases ha
    split
    · exact MRel_throw rfl
    · mbind (safeInt_rel _) with b b' hb
      cases hb
      split
      · exact MRel_throw rfl
      · exact MRel_pure (.num _)
  case num.num.shr =>
    mbind (safeInt_rel _) with a a' ha
    cases ha
    split
    · exact MRel_throw rfl
    · mbind (safeInt_rel _) with b b' hb
      cases hb
      exact MRel_pure (.num _)
  case num.num.band =>
    mbind (safeInt_rel _) with a a' ha
    cases ha
    mbind (safeInt_rel _) with b b' hb
    cases hb
    exact MRel_pure (.num _)
  case num.num.bor =>
    mbind (safeInt_rel _) with a a' ha
    cases ha
    mbind (safeInt_rel _) with b b' hb
    cases hb
    exact MRel_pure (.num _)
  case num.num.bxor =>
    mbind (safeInt_rel _) with a a' ha
    cases ha
    mbind (safeInt_rel _) with b b' hb
    cases hb
    exact MRel_pure (.num _)
  case str.str.add => exact MRel_pure (.str _)
  case arr.arr.add => exact MRel_pure (.arr (RList.append ‹_› ‹_›))
  case obj.obj.add =>
    rename_i a a' ha b b' hb
    mbind (getObj_rel ha) with x x' hx
    mbind (getObj_rel hb) with y y' hy
    mbind (allocObj_rel (extendObject_rel hx hy)) with o o' ho
    exact MRel_pure (.obj ho)
  case str.obj.in_ =>
    rename_i a a' ha
    mbind (getObj_rel ha) with x x' hx
    rw [findField_isSome_rel hx]
    exact MRel_pure (.bool _)
  all_goals first
    | exact binaryOp_coerce_rel hrec d hasSpan _ .null
    | exact binaryOp_coerce_rel hrec d hasSpan _ (.bool _)
    | exact binaryOp_coerce_rel hrec d hasSpan _ (.num _)
    | exact binaryOp_coerce_rel hrec d hasSpan _ (.arr ‹_›)
    | exact binaryOp_coerce_rel hrec d hasSpan _ (.obj ‹_›)
    | exact binaryOp_coerce_rel hrec d hasSpan _ (.func ‹_›)

/-! ### `CompareArray` -/

theorem compareLists_rel {ρ : Emb} {xs xs' ys ys' : List TId} (d : Nat) {d' : Nat} (hx : RList RT ρ xs xs')
    (hy : RList RT ρ ys ys') (hd : RDep d d' := by rdep) :
    MRel ρ RVal (compareLists cfg rec d xs ys) (compareLists cfg' rec' d' xs' ys') := by
  induction xs generalizing ρ xs' ys ys' with
  | nil =>
    cases hx
    cases hy
    · unfold compareLists; exact MRel_pure (.num _)
    · unfold compareLists; exact MRel_pure (.num _)
  | cons x xs ih =>
    cases hx with
    | @cons _ x' _ xs' hx1 hx2 =>
    cases hy with
    | nil => unfold compareLists; exact MRel_pure (.num _)
    | @cons y y' ys ys' hy1 hy2 =>
      unfold compareLists
      mbind (checkDepth_rel _ _) with u u' hu
      mbind (hrec _ _ _ (.force _ hx1)) with xv xv' hxv
      mbind (hrec _ _ _ (.force _ hy1)) with yv yv' hyv
      mbind (hrec _ _ _ (.compare _ hxv hyv)) with c c' hc
      cases hc <;> simp only []
      case num f =>
        split
        · exact ih hx2 hy2
        · exact MRel_pure (.num _)
      all_goals exact MRel_throw rfl

end
end Rsj.Eval
