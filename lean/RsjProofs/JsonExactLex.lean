/-
  C20 / C05 — exactness of `parse_json.rs` against the RFC 8259 grammar (`JText`),
  part 1: the lexer.  Whitespace; soundness of `numScan` (what `lex_number` eats is a
  `number` of the ABNF — completeness is `numScan_number` of JsonNumber.lean);
  soundness and completeness of `lexStrBody` against `JChars`; the member-name lexer.
-/
import RsjProofs.CodecJson
import RsjProofs.JsonNumber
namespace Rsj.Json
open Rsj.Codec

/-! ### whitespace -/

theorem isWs_of_IsWs {w : Str} (h : IsWs w) : WsStr w := by
  intro c hc
  rw [isWs_iff]
  rcases h c hc with h | h | h | h <;> omega

theorem IsWs_of_wsStr {w : Str} (h : WsStr w) : IsWs w := by
  intro c hc
  have := isWs_iff.mp (h c hc)
  omega

theorem IsWs.nil : IsWs [] := by intro c h; cases h

theorem IsWs.append {a b : Str} (ha : IsWs a) (hb : IsWs b) : IsWs (a ++ b) := by
  intro c h
  rcases List.mem_append.mp h with h | h
  · exact ha c h
  · exact hb c h

/-- the head of the string, if any, is not whitespace -/
def NoWsHead (s : Str) : Prop := ∀ c r, s = c :: r → isWs c = false

theorem skipSpaces_spec : ∀ s : Str, ∃ w, IsWs w ∧ s = w ++ skipSpaces s ∧ NoWsHead (skipSpaces s)
  | [] => ⟨[], IsWs.nil, rfl, by intro c r h; cases h⟩
  | c :: s => by
    rw [skipSpaces]
    by_cases hc : isWs c = true
    · rw [if_pos hc]
      obtain ⟨w, hw, he, hh⟩ := skipSpaces_spec s
      refine ⟨c :: w, ?_, by rw [List.cons_append, ← he], hh⟩
      intro x hx
      rcases List.mem_cons.mp hx with rfl | hx
      · have := isWs_iff.mp hc; omega
      · exact hw x hx
    · rw [if_neg hc]
      refine ⟨[], IsWs.nil, rfl, ?_⟩
      intro x r h; cases h; simpa using hc

theorem skipSpaces_noWsHead {s : Str} (h : NoWsHead s) : skipSpaces s = s := by
  cases s with
  | nil => rfl
  | cons c r => exact skipSpaces_cons_nonws _ (h c r rfl)

/-! ### numbers: soundness of `numScan` -/

/-- the language of tokens `lex_number` can still eat from each state -/
def Suffix : NState → Str → Prop
  | .eDigits, t => AllDigits t
  | .eSign, t => ∃ d ds, t = d :: ds ∧ isDigit d = true ∧ AllDigits ds
  | .e, t => ∃ sg d ds, t = sg ++ d :: ds ∧ (sg = [] ∨ sg = [43] ∨ sg = [45]) ∧ isDigit d = true ∧ AllDigits ds
  | .fracPart, t => ∃ ds e, t = ds ++ e ∧ AllDigits ds ∧ ExpOK e
  | .dot, t => ∃ d ds e, t = d :: (ds ++ e) ∧ isDigit d = true ∧ AllDigits ds ∧ ExpOK e
  | .intPart, t => ∃ ds fr e, t = ds ++ (fr ++ e) ∧ AllDigits ds ∧ FracOK fr ∧ ExpOK e
  | .zero, t => ∃ fr e, t = fr ++ e ∧ FracOK fr ∧ ExpOK e
  | .minus, t => ∃ i fr e, t = i ++ (fr ++ e) ∧ IntOK i ∧ FracOK fr ∧ ExpOK e
  | .start, t => t = [] ∨ JsonNumber t

theorem AllDigits.nil : AllDigits [] := by intro c h; cases h

theorem AllDigits.cons {d : Nat} {ds : Str} (hd : isDigit d = true) (h : AllDigits ds) : AllDigits (d :: ds) := by
  intro c hc
  rcases List.mem_cons.mp hc with rfl | hc
  · exact hd
  · exact h c hc

theorem suffix_stop {st : NState} {oc : Option Nat} (h : numStep st oc = .stop) : Suffix st [] := by
  cases st
  case start => exact Or.inl rfl
  case zero => exact ⟨[], [], rfl, Or.inl rfl, Or.inl rfl⟩
  case intPart => exact ⟨[], [], [], rfl, AllDigits.nil, Or.inl rfl, Or.inl rfl⟩
  case fracPart => exact ⟨[], [], rfl, AllDigits.nil, Or.inl rfl⟩
  case eDigits => exact AllDigits.nil
  all_goals (cases oc <;> simp [numStep] at h <;> (repeat' split at h) <;> cases h)

theorem isE_iff {c : Nat} : (c == 101 || c == 69) = true ↔ (c = 101 ∨ c = 69) := by simp

/-- an exponent that starts in state `e` -/
theorem exp_of_e {c : Nat} {t : Str} (hc : (c == 101 || c == 69) = true) (h : Suffix .e t) : ExpOK (c :: t) := by
  obtain ⟨sg, d, ds, rfl, hsg, hd, hds⟩ := h
  exact Or.inr ⟨c, sg, d, ds, rfl, isE_iff.mp hc, hsg, hd, hds⟩

theorem frac_of_dot {t : Str} (h : Suffix .dot t) : ∃ fr e, 46 :: t = fr ++ e ∧ FracOK fr ∧ ExpOK e := by
  obtain ⟨d, ds, e, rfl, hd, hds, he⟩ := h
  exact ⟨46 :: d :: ds, e, by simp, Or.inr ⟨d, ds, rfl, hd, hds⟩, he⟩

theorem suffix_step {st st' : NState} {c : Nat} {t : Str} (h : numStep st (some c) = .next st')
    (hs : Suffix st' t) : Suffix st (c :: t) := by
  cases st <;> simp only [numStep] at h <;> repeat' split at h
  all_goals cases h
  -- start
  · next hc =>
    obtain ⟨i, fr, e, rfl, hi, hf, he⟩ := hs
    have : c = 45 := by simpa using hc
    subst this
    exact Or.inr ⟨[45], i, fr, e, rfl, Or.inr rfl, hi, hf, he⟩
  · next _ hc =>
    obtain ⟨fr, e, rfl, hf, he⟩ := hs
    have : c = 48 := by simpa using hc
    subst this
    exact Or.inr ⟨[], [48], fr, e, rfl, Or.inl rfl, Or.inl rfl, hf, he⟩
  · next _ _ hc =>
    obtain ⟨ds, fr, e, rfl, hds, hf, he⟩ := hs
    exact Or.inr ⟨[], c :: ds, fr, e, rfl, Or.inl rfl, Or.inr ⟨c, ds, rfl, hc, hds⟩, hf, he⟩
  -- minus
  · next hc =>
    obtain ⟨fr, e, rfl, hf, he⟩ := hs
    have : c = 48 := by simpa using hc
    subst this
    exact ⟨[48], fr, e, rfl, Or.inl rfl, hf, he⟩
  · next _ hc =>
    obtain ⟨ds, fr, e, rfl, hds, hf, he⟩ := hs
    exact ⟨c :: ds, fr, e, rfl, Or.inr ⟨c, ds, rfl, hc, hds⟩, hf, he⟩
  -- zero
  · next _ hc =>
    have : c = 46 := by simpa using hc
    subst this
    exact frac_of_dot hs
  · next _ _ hc =>
    exact ⟨[], c :: t, rfl, Or.inl rfl, exp_of_e hc hs⟩
  -- intPart
  · next hc =>
    obtain ⟨ds, fr, e, rfl, hds, hf, he⟩ := hs
    exact ⟨c :: ds, fr, e, rfl, AllDigits.cons hc hds, hf, he⟩
  · next _ hc =>
    have : c = 46 := by simpa using hc
    subst this
    obtain ⟨fr, e, h, hf, he⟩ := frac_of_dot hs
    exact ⟨[], fr, e, h, AllDigits.nil, hf, he⟩
  · next _ _ hc =>
    exact ⟨[], [], c :: t, rfl, AllDigits.nil, Or.inl rfl, exp_of_e hc hs⟩
  -- dot
  · next hc =>
    obtain ⟨ds, e, rfl, hds, he⟩ := hs
    exact ⟨c, ds, e, rfl, hc, hds, he⟩
  -- fracPart
  · next hc =>
    obtain ⟨ds, e, rfl, hds, he⟩ := hs
    exact ⟨c :: ds, e, rfl, AllDigits.cons hc hds, he⟩
  · next _ hc =>
    exact ⟨[], c :: t, rfl, AllDigits.nil, exp_of_e hc hs⟩
  -- e
  · next hc =>
    obtain ⟨d, ds, rfl, hd, hds⟩ := hs
    have : c = 45 ∨ c = 43 := by simpa using hc
    rcases this with rfl | rfl
    · exact ⟨[45], d, ds, rfl, Or.inr (Or.inr rfl), hd, hds⟩
    · exact ⟨[43], d, ds, rfl, Or.inr (Or.inl rfl), hd, hds⟩
  · next _ hc =>
    exact ⟨[], c, t, rfl, Or.inl rfl, hc, hs⟩
  -- eSign
  · next hc => exact ⟨c, t, rfl, hc, hs⟩
  -- eDigits
  · next hc => exact AllDigits.cons hc hs

theorem consTok_ok_inv {c : Nat} {x : Except Err (Str × Str)} {t r : Str} (h : consTok c x = .ok (t, r)) :
    ∃ t', x = .ok (t', r) ∧ t = c :: t' := by
  cases x with
  | error e => cases h
  | ok p => obtain ⟨t', r'⟩ := p; cases h; exact ⟨t', rfl, rfl⟩

theorem numScan_sound : ∀ (s : Str) (st : NState) (t r : Str), numScan st s = .ok (t, r) →
    s = t ++ r ∧ Suffix st t
  | [], st, t, r, h => by
    rw [numScan] at h; split at h
    · cases h
    · next hne =>
      cases h
      refine ⟨rfl, ?_⟩
      cases hst : numStep st none with
      | bad => exact absurd hst (by simpa using hne)
      | stop => exact suffix_stop hst
      | next s' => cases st <;> simp [numStep] at hst
  | c :: s, st, t, r, h => by
    rw [numScan] at h; split at h
    · next st' hst =>
      obtain ⟨t', hx, rfl⟩ := consTok_ok_inv h
      obtain ⟨rfl, hs⟩ := numScan_sound s st' t' r hx
      exact ⟨rfl, suffix_step hst hs⟩
    · next hst => cases h; exact ⟨rfl, suffix_stop hst⟩
    · cases h

/-! ### the two renderings of the number grammar -/

theorem allDigits_iff {ds : Str} : AllDigits ds ↔ ∀ c ∈ ds, 48 ≤ c ∧ c ≤ 57 := by
  constructor
  · intro h c hc; exact isDigit_iff.mp (h c hc)
  · intro h c hc; exact isDigit_iff.mpr (h c hc)

theorem isDigits_iff {s : Str} : IsDigits s ↔ ∃ d ds, s = d :: ds ∧ isDigit d = true ∧ AllDigits ds := by
  constructor
  · rintro ⟨hne, h⟩
    cases s with
    | nil => exact absurd rfl hne
    | cons d ds =>
      exact ⟨d, ds, rfl, isDigit_iff.mpr (h d List.mem_cons_self),
        allDigits_iff.mpr (fun c hc => h c (List.mem_cons_of_mem _ hc))⟩
  · rintro ⟨d, ds, rfl, hd, hds⟩
    refine ⟨by simp, ?_⟩
    intro c hc
    rcases List.mem_cons.mp hc with rfl | hc
    · exact isDigit_iff.mp hd
    · exact allDigits_iff.mp hds c hc

theorem intOK_iff {i : Str} : IntOK i ↔ JInt i := by
  constructor
  · rintro (rfl | ⟨d, ds, rfl, hd, hds⟩)
    · exact .zero
    · have := isDigit19_iff.mp hd
      exact .pos this.1 this.2 (allDigits_iff.mp hds)
  · intro h
    cases h with
    | zero => exact Or.inl rfl
    | pos h1 h2 h3 => exact Or.inr ⟨_, _, rfl, isDigit19_iff.mpr ⟨h1, h2⟩, allDigits_iff.mpr h3⟩

theorem fracOK_iff {fr : Str} : FracOK fr ↔ (fr = [] ∨ ∃ ds, IsDigits ds ∧ fr = 46 :: ds) := by
  constructor
  · rintro (rfl | ⟨d, ds, rfl, hd, hds⟩)
    · exact Or.inl rfl
    · exact Or.inr ⟨d :: ds, isDigits_iff.mpr ⟨d, ds, rfl, hd, hds⟩, rfl⟩
  · rintro (rfl | ⟨ds, hds, rfl⟩)
    · exact Or.inl rfl
    · obtain ⟨d, ds', rfl, hd, hds'⟩ := isDigits_iff.mp hds
      exact Or.inr ⟨d, ds', rfl, hd, hds'⟩

theorem expOK_iff {ex : Str} : ExpOK ex ↔ (ex = [] ∨ ∃ e sg ds, (e = 101 ∨ e = 69) ∧
    (sg = [] ∨ sg = [43] ∨ sg = [45]) ∧ IsDigits ds ∧ ex = e :: (sg ++ ds)) := by
  constructor
  · rintro (rfl | ⟨x, sg, d, ds, rfl, hx, hsg, hd, hds⟩)
    · exact Or.inl rfl
    · exact Or.inr ⟨x, sg, d :: ds, hx, hsg, isDigits_iff.mpr ⟨d, ds, rfl, hd, hds⟩, rfl⟩
  · rintro (rfl | ⟨x, sg, ds, hx, hsg, hds, rfl⟩)
    · exact Or.inl rfl
    · obtain ⟨d, ds', rfl, hd, hds'⟩ := isDigits_iff.mp hds
      exact Or.inr ⟨x, sg, d, ds', rfl, hx, hsg, hd, hds'⟩

/-- C05's rendering of the RFC 8259 number grammar is C20's. -/
theorem jsonNumber_iff {t : Str} : JsonNumber t ↔ JNumber t := by
  constructor
  · rintro ⟨sg, i, fr, e, rfl, hsg, hi, hf, he⟩
    have := JNumber.mk hsg (intOK_iff.mp hi) (fracOK_iff.mp hf) (expOK_iff.mp he)
    simpa only [List.append_assoc] using this
  · intro h
    cases h with
    | mk hsg hi hf he =>
      exact ⟨_, _, _, _, by simp only [List.append_assoc], hsg, intOK_iff.mpr hi, fracOK_iff.mpr hf,
        expOK_iff.mpr he⟩
/-! ### strings: `lexStrBody` against `JChars` -/

theorem consStr_ok_inv {c : Nat} {x : Except Err (Str × Str)} {t r : Str} (h : consStr c x = .ok (t, r)) :
    ∃ t', x = .ok (t', r) ∧ t = c :: t' := by
  cases x with
  | error e => cases h
  | ok p => obtain ⟨t', r'⟩ := p; cases h; exact ⟨t', rfl, rfl⟩

/-- the single-character escapes of RFC 8259 section 7 (the table of `JChars.esc`) -/
def simpleEsc (e : Nat) : Option Nat :=
  if e = 34 then some 34 else if e = 92 then some 92 else if e = 47 then some 47
  else if e = 98 then some 8 else if e = 102 then some 12 else if e = 110 then some 10
  else if e = 114 then some 13 else if e = 116 then some 9 else none

theorem lexStrBody_nil : lexStrBody [] = .error .unfinishedString := by rw [lexStrBody]

theorem lexStrBody_quote (r : Str) : lexStrBody (34 :: r) = .ok ([], r) := by
  rw [lexStrBody.eq_def]; dsimp only; rw [if_pos rfl]

theorem lexStrBody_ctl {c : Nat} (r : Str) (h1 : c ≠ 34) (h2 : c ≠ 92) (h3 : c ≤ 0x1f) :
    lexStrBody (c :: r) = .error .invalidChrInString := by
  rw [lexStrBody.eq_def]; dsimp only; rw [if_neg h1, if_neg h2, if_pos h3]

theorem lexStrBody_bs_nil : lexStrBody [92] = .error .unfinishedString := by
  rw [lexStrBody.eq_def]; dsimp only; rw [if_neg (by decide), if_pos rfl]

theorem lexStrBody_simple {x : Nat} (r1 : Str) (hx : x ≠ 117) :
    lexStrBody (92 :: x :: r1) = match simpleEsc x with
      | some v => consStr v (lexStrBody r1)
      | none => .error .invalidStringEscape := by
  rw [lexStrBody.eq_def]; dsimp only; rw [if_neg (by decide), if_pos rfl]
  unfold simpleEsc
  by_cases h1 : x = 34; · simp only [h1, if_true]
  by_cases h2 : x = 92; · simp only [h2, if_true]; rfl
  by_cases h3 : x = 47; · simp only [h3, if_true]; rfl
  by_cases h4 : x = 98; · simp only [h4, if_true]; rfl
  by_cases h5 : x = 102; · simp only [h5, if_true]; rfl
  by_cases h6 : x = 110; · simp only [h6, if_true]; rfl
  by_cases h7 : x = 114; · simp only [h7, if_true]; rfl
  by_cases h8 : x = 116; · simp only [h8, if_true]; rfl
  simp only [h1, h2, h3, h4, h5, h6, h7, h8, hx, if_false]

theorem lexStrBody_u_short {r1 : Str} (h : r1.length < 4) :
    lexStrBody (92 :: 117 :: r1) = .error .invalidStringEscape := by
  rw [lexStrBody.eq_def]; dsimp only; rw [if_neg (by decide), if_pos rfl]
  simp only [show (117 : Nat) ≠ 34 from by decide, show (117 : Nat) ≠ 92 from by decide,
        show (117 : Nat) ≠ 47 from by decide, show (117 : Nat) ≠ 98 from by decide,
        show (117 : Nat) ≠ 102 from by decide, show (117 : Nat) ≠ 110 from by decide,
        show (117 : Nat) ≠ 114 from by decide, show (117 : Nat) ≠ 116 from by decide, if_false, if_true]
  match r1, h with
  | [], _ => rfl
  | [_], _ => rfl
  | [_, _], _ => rfl
  | [_, _, _], _ => rfl
  | _ :: _ :: _ :: _ :: _, h => simp at h; omega

/-- what follows a first `\uXXXX` that is a surrogate -/
def lowHalf (cu1 : Nat) (r2 : Str) : Except Err (Str × Str) :=
  match r2 with
  | 92 :: 117 :: r3 =>
    match r3 with
    | g0 :: g1 :: g2 :: g3 :: r4 =>
      match cu4 g0 g1 g2 g3 with
      | none => .error .invalidStringEscape
      | some cu2 =>
        if cu1 ≤ 0xDBFF ∧ 0xDC00 ≤ cu2 ∧ cu2 ≤ 0xDFFF then
          consStr (0x10000 + (cu1 - 0xD800) * 0x400 + (cu2 - 0xDC00)) (lexStrBody r4)
        else .error .invalidStringEscape
    | _ => .error .invalidStringEscape
  | _ => .error .invalidStringEscape

theorem lexStrBody_u (h0 h1 h2 h3 : Nat) (r2 : Str) :
    lexStrBody (92 :: 117 :: h0 :: h1 :: h2 :: h3 :: r2) = match cu4 h0 h1 h2 h3 with
      | none => .error .invalidStringEscape
      | some cu1 => if 0xD800 ≤ cu1 ∧ cu1 ≤ 0xDFFF then lowHalf cu1 r2 else consStr cu1 (lexStrBody r2) := by
  rw [lexStrBody.eq_def]; dsimp only; rw [if_neg (by decide), if_pos rfl]
  simp only [show (117 : Nat) ≠ 34 from by decide, show (117 : Nat) ≠ 92 from by decide,
        show (117 : Nat) ≠ 47 from by decide, show (117 : Nat) ≠ 98 from by decide,
        show (117 : Nat) ≠ 102 from by decide, show (117 : Nat) ≠ 110 from by decide,
        show (117 : Nat) ≠ 114 from by decide, show (117 : Nat) ≠ 116 from by decide, if_false, if_true]
  cases cu4 h0 h1 h2 h3 with
  | none => rfl
  | some cu1 =>
    dsimp only
    by_cases hs : 0xD800 ≤ cu1 ∧ cu1 ≤ 0xDFFF
    · rw [if_pos hs, if_pos hs]
      rfl
    · rw [if_neg hs, if_neg hs]

theorem lowHalf_inv {cu1 : Nat} {r2 str r : Str} (h : lowHalf cu1 r2 = .ok (str, r)) :
    ∃ g0 g1 g2 g3 r4 cu2 str', r2 = 92 :: 117 :: g0 :: g1 :: g2 :: g3 :: r4 ∧ cu4 g0 g1 g2 g3 = some cu2 ∧
      cu1 ≤ 0xDBFF ∧ 0xDC00 ≤ cu2 ∧ cu2 ≤ 0xDFFF ∧ lexStrBody r4 = .ok (str', r) ∧
      str = (0x10000 + (cu1 - 0xD800) * 0x400 + (cu2 - 0xDC00)) :: str' := by
  unfold lowHalf at h
  split at h
  · split at h
    · split at h
      · cases h
      · next cu2 hcu =>
        split at h
        · next hc =>
          obtain ⟨str', hx, rfl⟩ := consStr_ok_inv h
          exact ⟨_, _, _, _, _, cu2, str', rfl, hcu, hc.1, hc.2.1, hc.2.2, hx, rfl⟩
        · cases h
    · cases h
  · cases h

theorem lowHalf_pair {cu1 cu2 g0 g1 g2 g3 : Nat} (r4 : Str) (hcu : cu4 g0 g1 g2 g3 = some cu2)
    (h1 : cu1 ≤ 0xDBFF) (h2 : 0xDC00 ≤ cu2) (h3 : cu2 ≤ 0xDFFF) :
    lowHalf cu1 (92 :: 117 :: g0 :: g1 :: g2 :: g3 :: r4) =
      consStr (0x10000 + (cu1 - 0xD800) * 0x400 + (cu2 - 0xDC00)) (lexStrBody r4) := by
  unfold lowHalf
  simp only [hcu]
  rw [if_pos ⟨h1, h2, h3⟩]

/-- one iteration of the `lex_string` loop, read backwards: either the closing quote, or
    one `char` of the grammar (source `pre`, denoting `c`) followed by the rest -/
theorem lexStrBody_inv {s str r : Str} (h : lexStrBody s = .ok (str, r)) :
    (s = 34 :: r ∧ str = []) ∨
    ∃ pre c s' str', s = pre ++ s' ∧ str = c :: str' ∧ lexStrBody s' = .ok (str', r) ∧ pre ≠ [] ∧
      ∀ src out, JChars src out → JChars (pre ++ src) (c :: out) := by
  cases s with
  | nil => rw [lexStrBody_nil] at h; cases h
  | cons c s1 =>
    by_cases h34 : c = 34
    · subst h34; rw [lexStrBody_quote] at h; cases h; exact Or.inl ⟨rfl, rfl⟩
    right
    by_cases h92 : c = 92
    · subst h92
      cases s1 with
      | nil => rw [lexStrBody_bs_nil] at h; cases h
      | cons x r1 =>
        by_cases hx : x = 117
        · subst hx
          match r1, h with
          | [], h => rw [lexStrBody_u_short (by simp)] at h; cases h
          | [_], h => rw [lexStrBody_u_short (by simp)] at h; cases h
          | [_, _], h => rw [lexStrBody_u_short (by simp)] at h; cases h
          | [_, _, _], h => rw [lexStrBody_u_short (by simp)] at h; cases h
          | a :: b :: c :: d :: r2, h =>
            rw [lexStrBody_u] at h
            split at h
            · cases h
            · next cu1 hcu =>
              split at h
              · next hs =>
                obtain ⟨g0, g1, g2, g3, r4, cu2, str', rfl, hcu2, k1, k2, k3, hx, rfl⟩ := lowHalf_inv h
                refine ⟨[92, 117, a, b, c, d, 92, 117, g0, g1, g2, g3], _, r4, str', rfl, rfl, hx, by simp, ?_⟩
                intro src out hj
                exact JChars.pair hcu hcu2 hs.1 k1 k2 k3 hj
              · next hs =>
                obtain ⟨str', hx, rfl⟩ := consStr_ok_inv h
                refine ⟨[92, 117, a, b, c, d], cu1, r2, str', rfl, rfl, hx, by simp, ?_⟩
                intro src out hj
                exact JChars.u hcu hs hj
        · rw [lexStrBody_simple _ hx] at h
          split at h
          · next v hv =>
            obtain ⟨str', hx', rfl⟩ := consStr_ok_inv h
            refine ⟨[92, x], v, r1, str', rfl, rfl, hx', by simp, ?_⟩
            intro src out hj
            exact JChars.esc hx hv hj
          · cases h
    · by_cases hctl : c ≤ 0x1f
      · rw [lexStrBody_ctl _ h34 h92 hctl] at h; cases h
      · rw [lexStrBody_plain _ h34 h92 hctl] at h
        obtain ⟨str', hx', rfl⟩ := consStr_ok_inv h
        refine ⟨[c], c, s1, str', rfl, rfl, hx', by simp, ?_⟩
        intro src out hj
        exact JChars.raw (by omega) h34 h92 hj

/-- **Soundness of the string lexer**: what `lex_string` accepts after the opening quote
    is `*char` of the grammar up to the closing quote, denoting the returned string. -/
theorem lexStrBody_sound : ∀ (n : Nat) (s str r : Str), s.length ≤ n → lexStrBody s = .ok (str, r) →
    ∃ src, s = src ++ 34 :: r ∧ JChars src str
  | 0, s, str, r, hn, h => by
    cases s with
    | nil => rw [lexStrBody_nil] at h; cases h
    | cons _ _ => simp at hn
  | n + 1, s, str, r, hn, h => by
    rcases lexStrBody_inv h with ⟨rfl, rfl⟩ | ⟨pre, c, s', str', rfl, rfl, hx, hne, hj⟩
    · exact ⟨[], rfl, .nil⟩
    · have hlen : s'.length ≤ n := by
        have : 0 < pre.length := List.length_pos_iff.mpr hne
        simp at hn; omega
      obtain ⟨src, rfl, hsrc⟩ := lexStrBody_sound n s' str' r hlen hx
      exact ⟨pre ++ src, by simp, hj _ _ hsrc⟩

/-- **Completeness of the string lexer.** -/
theorem lexStrBody_complete {src str : Str} (h : JChars src str) (r : Str) :
    lexStrBody (src ++ 34 :: r) = .ok (str, r) := by
  induction h with
  | nil => exact lexStrBody_quote r
  | raw h1 h2 h3 _ ih =>
    rw [List.cons_append, lexStrBody_plain _ h2 h3 (by omega), ih]; rfl
  | esc h1 h2 _ ih =>
    rw [List.cons_append, List.cons_append, lexStrBody_simple _ h1]
    have : simpleEsc _ = some _ := h2
    rw [this]; dsimp only; rw [ih]; rfl
  | u h1 h2 _ ih =>
    simp only [List.cons_append]
    rw [lexStrBody_u, h1]; dsimp only; rw [if_neg h2, ih]; rfl
  | pair h1 h2 k1 k2 k3 k4 _ ih =>
    simp only [List.cons_append]
    rw [lexStrBody_u, h1]; dsimp only
    rw [if_pos ⟨k1, by omega⟩, lowHalf_pair _ h2 k2 k3 k4, ih]; rfl


/-! ### the token lexers -/

theorem lexNumber_sound {s t r : Str} (h : lexNumber s = .ok (some (t, r))) :
    s = t ++ r ∧ JNumber t ∧ overflows t = false := by
  unfold lexNumber at h
  split at h
  · cases h
  · cases h
  · next c t' r' hs =>
    split at h
    · cases h
    · next hov =>
      cases h
      obtain ⟨rfl, hsuf⟩ := numScan_sound _ _ _ _ hs
      refine ⟨rfl, ?_, by simpa using hov⟩
      rcases hsuf with hnil | hnum
      · cases hnil
      · exact jsonNumber_iff.mp hnum

theorem lexString_sound {s str r : Str} (h : lexString s = .ok (some (str, r))) :
    ∃ src, s = 34 :: (src ++ 34 :: r) ∧ JChars src str := by
  unfold lexString at h
  split at h
  · next r0 =>
    split at h
    · next p hp =>
      cases h
      obtain ⟨src, rfl, hj⟩ := lexStrBody_sound _ r0 str r (Nat.le_refl _) hp
      exact ⟨src, rfl, hj⟩
    · cases h
  · cases h

theorem lexString_complete {src str : Str} (h : JChars src str) (r : Str) :
    lexString (34 :: (src ++ 34 :: r)) = .ok (some (str, r)) := by
  rw [lexString, lexStrBody_complete h]

theorem lexKeyColon_sound {s k r : Str} (h : lexKeyColon s = .ok (k, r)) :
    ∃ ksrc w2 w3, s = 34 :: (ksrc ++ [34]) ++ w2 ++ 58 :: (w3 ++ r) ∧ JChars ksrc k ∧ IsWs w2 ∧ IsWs w3 ∧
      NoWsHead r := by
  unfold lexKeyColon at h
  split at h
  · cases h
  · cases h
  · next k' r0 hs =>
    obtain ⟨ksrc, rfl, hj⟩ := lexString_sound hs
    split at h
    · next r1 hsk =>
      cases h
      obtain ⟨w2, hw2, e2, _⟩ := skipSpaces_spec r0
      obtain ⟨w3, hw3, e3, hh⟩ := skipSpaces_spec r1
      refine ⟨ksrc, w2, w3, ?_, hj, hw2, hw3, hh⟩
      rw [hsk] at e2
      rw [← e3]
      simp only [List.cons_append, List.append_assoc, List.nil_append]
      rw [← e2]
    · cases h

theorem lexKeyColon_complete {ksrc k w2 w3 : Str} (h : JChars ksrc k) (hw2 : IsWs w2) (hw3 : IsWs w3) (r : Str) :
    lexKeyColon (34 :: (ksrc ++ [34]) ++ w2 ++ 58 :: (w3 ++ r)) = .ok (k, skipSpaces r) := by
  have e : 34 :: (ksrc ++ [34]) ++ w2 ++ 58 :: (w3 ++ r) = 34 :: (ksrc ++ 34 :: (w2 ++ 58 :: (w3 ++ r))) := by
    simp only [List.cons_append, List.append_assoc, List.nil_append]
  unfold lexKeyColon
  rw [e, lexString_complete h]
  simp only [skipSpaces_ws_append _ (isWs_of_IsWs hw2), skipSpaces_cons_nonws _ (by decide : isWs 58 = false),
    skipSpaces_ws_append _ (isWs_of_IsWs hw3)]

end Rsj.Json
