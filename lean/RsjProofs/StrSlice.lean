/-
  Helper lemmas for the string model (`RsjModel/Str.lean`), property C18:
  indexing, slicing (`get_slice_range` / `do_slice_string`), `std.substr`.
-/
import RsjModel.Str
namespace Rsj.Str

theorem utf8Len_pos (c : Nat) : 0 < utf8Len c := by
  unfold utf8Len; split <;> (try split) <;> (try split) <;> omega

theorem USIZE_MAX_eq : USIZE_MAX = 2 ^ 64 - 1 := rfl

theorem stepByAux_getElem? (k : Nat) (hk : 1 ≤ k) (l : Str) :
    ∀ (n j : Nat), (stepByAux k n l)[j]? = l[n + j * k]? := by
  induction l with
  | nil => intro n j; simp [stepByAux]
  | cons c cs ih =>
    intro n j
    cases n with
    | zero =>
      simp only [stepByAux]
      cases j with
      | zero => simp
      | succ j =>
        rw [List.getElem?_cons_succ, ih, Nat.succ_mul]
        have : 0 + (j * k + k) = (k - 1 + j * k) + 1 := by omega
        rw [this, List.getElem?_cons_succ]
    | succ n =>
      simp only [stepByAux]
      rw [ih]
      have : n + 1 + j * k = (n + j * k) + 1 := by omega
      rw [this, List.getElem?_cons_succ]

theorem stepBy_getElem? (k : Nat) (hk : 1 ≤ k) (l : Str) (j : Nat) :
    (stepBy k l)[j]? = l[j * k]? := by
  unfold stepBy; rw [stepByAux_getElem? k hk]; simp

theorem take_drop_getElem? (s : Str) (a m i : Nat) :
    ((s.drop a).take m)[i]? = if i < m then s[a + i]? else none := by
  rw [List.getElem?_take]
  split
  · rw [List.getElem?_drop]
  · rfl


theorem sliceString_of_range {s : Str} {st en sp : Option Num} {a b k : Nat}
    (h : getSliceRange s.length st en sp = .ok (a, b, k)) (hab : a ≤ b) (hk : 1 ≤ k) :
    ∃ r, sliceString s st en sp = .ok r ∧
      ∀ j, r[j]? = if a + j * k < b then s[a + j * k]? else none := by
  unfold sliceString
  rw [h]
  simp only
  rw [if_neg (by omega), if_neg (by omega)]
  refine ⟨_, rfl, ?_⟩
  intro j
  rw [stepBy_getElem? k hk, take_drop_getElem?]
  by_cases hc : j * k < b - a
  · rw [if_pos hc, if_pos (by omega)]
  · rw [if_neg hc, if_neg (by omega)]

theorem ofInt_notInt (i : Int) : (Num.ofInt i).notInt = false := rfl

theorem ofInt_ltZero (i : Int) : (Num.ofInt i).ltZero = decide (i < 0) := by
  unfold Num.ofInt Num.ltZero
  simp only [Bool.or_false]
  by_cases h : i < 0
  · have : 0 < i.natAbs := by omega
    simp [h, this]
  · simp [h]

theorem ofInt_ltOne (i : Int) : (Num.ofInt i).ltOne = decide (i < 1) := by
  unfold Num.ofInt Num.ltOne
  simp only
  by_cases h : i < 0
  · have : i < 1 := by omega
    simp [h, this]
  · by_cases h0 : i = 0
    · subst h0; simp
    · have h1 : ¬ i < 1 := by omega
      have h2 : i.natAbs ≠ 0 := by omega
      simp [h, h1, h2]

/-- The `usize` value `get_slice_range` computes for a start/end given as an integer. -/
def clampIdx (len : Nat) (i : Int) : Nat :=
  if i < 0 then len - min i.natAbs USIZE_MAX else min i.toNat USIZE_MAX

theorem ofInt_idx (len : Nat) (i : Int) :
    (if (Num.ofInt i).ltZero = true then len - (Num.ofInt i).negAsUsize else (Num.ofInt i).asUsize)
      = clampIdx len i := by
  rw [ofInt_ltZero]
  unfold clampIdx Num.negAsUsize Num.asUsize Num.ofInt
  by_cases h : i < 0
  · simp [h]
  · have : i.toNat = i.natAbs := by omega
    simp [h, this]

theorem ofInt_idx' (len : Nat) (i : Int) :
    (if (Num.ofInt i).ltZero = true then (Except.ok (len - (Num.ofInt i).negAsUsize) : Except Err Nat)
      else .ok (Num.ofInt i).asUsize) = .ok (clampIdx len i) := by
  rw [← ofInt_idx]; split <;> rfl

theorem ofInt_asUsize_pos {i : Int} (h : 1 ≤ i) : (Num.ofInt i).asUsize = min i.toNat USIZE_MAX := by
  unfold Num.asUsize Num.ofInt
  have h0 : ¬ i < 0 := by omega
  have : i.toNat = i.natAbs := by omega
  simp [h0, this]

theorem getSliceRange_ofInt (len : Nat) (a b k : Option Int) (hk : ∀ x, k = some x → 1 ≤ x) :
    getSliceRange len (a.map Num.ofInt) (b.map Num.ofInt) (k.map Num.ofInt) =
      .ok ((a.map (clampIdx len)).getD 0,
           (b.map (fun i => max (clampIdx len i) ((a.map (clampIdx len)).getD 0))).getD USIZE_MAX,
           (k.map (fun i => min i.toNat USIZE_MAX)).getD 1) := by
  unfold getSliceRange
  cases a <;> cases b <;> cases k <;>
    simp only [Option.map_some, Option.map_none, Option.getD_some, Option.getD_none,
      ofInt_notInt, ofInt_idx, ofInt_idx', Bool.false_eq_true, if_false, Bool.false_or]
  all_goals
    rename_i kk
    have h1 := hk kk rfl
    have h2 : ¬ kk < 1 := by omega
    simp [ofInt_ltOne, h2, ofInt_asUsize_pos h1]
def normIdx (len : Nat) (i : Int) : Nat := if i < 0 then len - i.natAbs else i.toNat

theorem mul_clamp (j st UM len : Nat) (h : len ≤ UM) :
    j * min st UM = j * st ∨ (len ≤ j * min st UM ∧ len ≤ j * st) := by
  by_cases hst : st ≤ UM
  · left; rw [Nat.min_eq_left hst]
  · rw [Nat.min_eq_right (by omega)]
    cases j with
    | zero => left; simp
    | succ j =>
      right
      rw [Nat.succ_mul, Nat.succ_mul]
      omega

theorem if_getElem?_congr (s : Str) (x y E hi : Nat)
    (h : (s.length ≤ x ∧ s.length ≤ y) ∨ (x = y ∧ ((x < E ∧ y < hi) ∨ (E ≤ x ∧ hi ≤ y)))) :
    (if x < E then s[x]? else none) = (if y < hi then s[y]? else none) := by
  rcases h with ⟨h1, h2⟩ | ⟨rfl, h2⟩
  · rw [List.getElem?_eq_none h1, List.getElem?_eq_none h2]; simp
  · rcases h2 with ⟨h3, h4⟩ | ⟨h3, h4⟩
    · rw [if_pos h3, if_pos h4]
    · rw [if_neg (by omega), if_neg (by omega)]

theorem slice_obs (s : Str) (hlen : s.length ≤ USIZE_MAX) (a b k : Option Int) (j : Nat) :
    (if (a.map (clampIdx s.length)).getD 0 + j * (k.map (fun i => min i.toNat USIZE_MAX)).getD 1 <
        (b.map (fun i => max (clampIdx s.length i) ((a.map (clampIdx s.length)).getD 0))).getD USIZE_MAX
      then s[(a.map (clampIdx s.length)).getD 0 + j * (k.map (fun i => min i.toNat USIZE_MAX)).getD 1]?
      else none) =
    (if (a.map (normIdx s.length)).getD 0 + j * (k.map Int.toNat).getD 1 <
        (b.map (normIdx s.length)).getD s.length
      then s[(a.map (normIdx s.length)).getD 0 + j * (k.map Int.toNat).getD 1]?
      else none) := by
  apply if_getElem?_congr
  have hm : ∀ st, j * min st USIZE_MAX = j * st ∨ (s.length ≤ j * min st USIZE_MAX ∧ s.length ≤ j * st) :=
    fun st => mul_clamp j st USIZE_MAX s.length hlen
  cases a <;> cases b <;> cases k <;>
    simp only [Option.map_some, Option.map_none, Option.getD_some, Option.getD_none, clampIdx, normIdx,
      Nat.mul_one]
  all_goals (try (rename_i kk; have := hm kk.toNat; generalize j * min kk.toNat USIZE_MAX = p at *; generalize j * kk.toNat = q at *))
  all_goals generalize s.length = len at *
  all_goals generalize USIZE_MAX = UM at *
  all_goals (try simp only [true_and])
  all_goals (try split) <;> (try split) <;> omega
end Rsj.Str
