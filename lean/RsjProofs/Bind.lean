import RsjModel.Bind

/-
  Proofs about parameter binding (`RsjModel/Bind.lean`, a transcription of
  `check_call_args_generic` in rsjsonnet-lang/src/program/eval/call.rs).

  Main results (all for arbitrary `params`, `npos`, `named`; `hnd` = parameter names distinct):
    * `bindPlan_tooMany`, `bindPlan_tooMany_iff`   excess positional arguments
    * `bindPlan_ok_iff`  ("bind_correct")          success <-> declarative conditions, and the slots
    * `expectedSlot_spec`                          `expectedSlots` in purely declarative terms
    * `bindPlan_error_unknown` / `_repeated` / `_notBound`   exact (iff) error characterisations,
                                                   including which fault is reported first
    * `bindPlan_priority`                          exhaustive ordered case split of the outcome
-/

namespace Rsj.Bind

/-- index of the first occurrence of `n` in `l` -/
def firstIdx : List String → String → Option Nat
  | [], _ => none
  | m :: rest, n => if m = n then some 0 else (firstIdx rest n).map (· + 1)

theorem firstIdx_some {l : List String} {n : String} {i : Nat} :
    firstIdx l n = some i → l[i]? = some n := by
  induction l generalizing i with
  | nil => intro h; simp [firstIdx] at h
  | cons m rest ih =>
    unfold firstIdx
    split
    · intro h; cases h; simp [*]
    · intro h
      simp only [Option.map_eq_some_iff] at h
      obtain ⟨a, ha, rfl⟩ := h
      simpa using ih ha

theorem firstIdx_of_nodup {l : List String} {n : String} {i : Nat} (hnd : l.Nodup) :
    l[i]? = some n → firstIdx l n = some i := by
  induction l generalizing i with
  | nil => intro h; simp at h
  | cons m rest ih =>
    rw [List.nodup_cons] at hnd
    intro h
    cases i with
    | zero =>
      simp at h
      simp [firstIdx, h]
    | succ i =>
      simp at h
      have hmem : n ∈ rest := List.mem_of_getElem? h
      have hne : m ≠ n := fun e => hnd.1 (e ▸ hmem)
      simp [firstIdx, hne, ih hnd.2 h]

theorem firstIdx_eq_none {l : List String} {n : String} : firstIdx l n = none ↔ n ∉ l := by
  induction l with
  | nil => simp [firstIdx]
  | cons m rest ih =>
    unfold firstIdx
    split
    · simp [*]
    · rename_i hne
      simp [ih, Ne.symm hne]

theorem paramIndex_eq_firstIdx (params : List (String × Bool)) (n : String) :
    paramIndex params n = firstIdx (params.map Prod.fst) n := by
  induction params with
  | nil => rfl
  | cons p ps ih => obtain ⟨m, d⟩ := p; simp [paramIndex, firstIdx, ih]

theorem paramIndex_some {params : List (String × Bool)} {n : String} {i : Nat}
    (h : paramIndex params n = some i) :
    i < params.length ∧ (params[i]?).map Prod.fst = some n := by
  rw [paramIndex_eq_firstIdx] at h
  have := firstIdx_some h
  rw [List.getElem?_map] at this
  refine ⟨?_, this⟩
  cases hp : params[i]? with
  | none => simp [hp] at this
  | some p => exact (List.getElem?_eq_some_iff.mp hp).1

theorem paramIndex_of_nodup {params : List (String × Bool)} {n : String} {i : Nat}
    (hnd : (params.map Prod.fst).Nodup) (h : (params[i]?).map Prod.fst = some n) :
    paramIndex params n = some i := by
  rw [paramIndex_eq_firstIdx]
  apply firstIdx_of_nodup hnd
  rw [List.getElem?_map]; exact h

theorem paramIndex_eq_none {params : List (String × Bool)} {n : String} :
    paramIndex params n = none ↔ n ∉ params.map Prod.fst := by
  rw [paramIndex_eq_firstIdx]; exact firstIdx_eq_none

/-! ### `assignNamed` -/

/-- slot `k` of the temporary vector is not yet taken by a named argument -/
def Free (tmp : List (Option Nat)) (k : Nat) : Prop := ∀ v, tmp[k]? ≠ some (some v)

/-- named argument `n` is faulty in state `t`, and `e` is the error reported for it -/
def StepFault (params : List (String × Bool)) (npos : Nat) (t : List (Option Nat))
    (n : String) (e : BindErr) : Prop :=
  (paramIndex params n = none ∧ e = .unknownCallParam n) ∨
  (∃ pi, paramIndex params n = some pi ∧
    (pi < npos ∨ ∃ v, t[pi - npos]? = some (some v)) ∧ e = .repeatedCallParam n)

variable {params : List (String × Bool)} {npos : Nat}

theorem assignNamed_fault {t : List (Option Nat)} {n : String} {e : BindErr}
    (h : StepFault params npos t n e) (rest : List String) (j : Nat) :
    assignNamed params npos (n :: rest) j t = .error e := by
  rcases h with ⟨h, rfl⟩ | ⟨pi, h, (hlt | ⟨v, hv⟩), rfl⟩
  · simp [assignNamed, h]
  · simp [assignNamed, h, hlt]
  · simp [assignNamed, h, hv]

theorem assignNamed_step (n : String) (tmp : List (Option Nat)) :
    (∃ e, StepFault params npos tmp n e) ∨
    (∃ pi, paramIndex params n = some pi ∧ npos ≤ pi ∧ Free tmp (pi - npos) ∧
      ∀ rest j, assignNamed params npos (n :: rest) j tmp
        = assignNamed params npos rest (j + 1) (tmp.set (pi - npos) (some j))) := by
  cases hp : paramIndex params n with
  | none => exact .inl ⟨_, .inl ⟨hp, rfl⟩⟩
  | some pi =>
    by_cases hlt : pi < npos
    · exact .inl ⟨_, .inr ⟨pi, hp, .inl hlt, rfl⟩⟩
    · by_cases hv : ∃ v, tmp[pi - npos]? = some (some v)
      · exact .inl ⟨_, .inr ⟨pi, hp, .inr hv, rfl⟩⟩
      · refine .inr ⟨pi, rfl, by omega, fun v hv' => hv ⟨v, hv'⟩, ?_⟩
        intro rest j
        simp only [assignNamed, hp]
        rw [if_neg hlt]
        split
        · rename_i v hv'; exact absurd ⟨v, hv'⟩ hv
        · rfl

theorem assignNamed_append (pre post : List String) (j : Nat) (tmp : List (Option Nat)) :
    assignNamed params npos (pre ++ post) j tmp =
      match assignNamed params npos pre j tmp with
      | .error e => .error e
      | .ok t => assignNamed params npos post (j + pre.length) t := by
  induction pre generalizing j tmp with
  | nil => simp [assignNamed]
  | cons n pre ih =>
    rcases assignNamed_step (params := params) (npos := npos) n tmp with ⟨e, he⟩ | ⟨pi, _, _, _, heq⟩
    · rw [List.cons_append, assignNamed_fault he, assignNamed_fault he]
    · rw [List.cons_append, heq, heq, ih, List.length_cons, Nat.add_assoc, Nat.add_comm 1]

/-- An error from `assignNamed` comes from the first faulty named argument. -/
theorem assignNamed_error {rest : List String} {j : Nat} {tmp : List (Option Nat)} {e : BindErr}
    (h : assignNamed params npos rest j tmp = .error e) :
    ∃ pre n post t, rest = pre ++ n :: post ∧ assignNamed params npos pre j tmp = .ok t ∧
      StepFault params npos t n e := by
  induction rest generalizing j tmp with
  | nil => simp [assignNamed] at h
  | cons n rest ih =>
    rcases assignNamed_step (params := params) (npos := npos) n tmp with ⟨e', he⟩ | ⟨pi, _, _, _, heq⟩
    · rw [assignNamed_fault he] at h
      cases h
      exact ⟨[], n, rest, tmp, rfl, rfl, he⟩
    · rw [heq] at h
      obtain ⟨pre, m, post, t, rfl, hok, hf⟩ := ih h
      exact ⟨n :: pre, m, post, t, rfl, by rw [heq, hok], hf⟩

/-- Sufficient condition for success of `assignNamed`. -/
theorem assignNamed_ok_of (rest : List String) (j : Nat) (tmp : List (Option Nat))
    (hnd : rest.Nodup)
    (hall : ∀ n ∈ rest, ∃ pi, paramIndex params n = some pi ∧ npos ≤ pi ∧ Free tmp (pi - npos)) :
    ∃ tmp', assignNamed params npos rest j tmp = .ok tmp' := by
  induction rest generalizing j tmp with
  | nil => exact ⟨tmp, rfl⟩
  | cons n rest ih =>
    rw [List.nodup_cons] at hnd
    obtain ⟨pi, hpi, hle, hfree⟩ := hall n (by simp)
    have hstep : assignNamed params npos (n :: rest) j tmp
        = assignNamed params npos rest (j + 1) (tmp.set (pi - npos) (some j)) := by
      rcases assignNamed_step (params := params) (npos := npos) n tmp with ⟨e', he⟩ | ⟨pi', hpi', _, _, heq⟩
      · exfalso
        rcases he with ⟨h, _⟩ | ⟨pi', h, (hlt | ⟨v, hv⟩), _⟩
        · simp [h] at hpi
        · rw [hpi] at h; cases h; omega
        · rw [hpi] at h; cases h; exact hfree v hv
      · rw [hpi] at hpi'; cases hpi'; exact heq _ _
    rw [hstep]
    apply ih _ _ hnd.2
    intro m hm
    obtain ⟨pm, hpm, hlem, hfreem⟩ := hall m (by simp [hm])
    refine ⟨pm, hpm, hlem, ?_⟩
    intro v hv
    have hne : pi ≠ pm := by
      intro e; subst e
      have h1 := (paramIndex_some hpi).2
      have h2 := (paramIndex_some hpm).2
      rw [h1] at h2; cases h2; exact hnd.1 hm
    rw [List.getElem?_set_ne (by omega)] at hv
    exact hfreem v hv


/-- What a successful `assignNamed` run means. -/
theorem assignNamed_ok {rest : List String} {j : Nat} {tmp tmp' : List (Option Nat)}
    (hlen : tmp.length = params.length - npos)
    (h : assignNamed params npos rest j tmp = .ok tmp') :
    tmp'.length = tmp.length ∧ rest.Nodup ∧
    (∀ n ∈ rest, ∃ pi, paramIndex params n = some pi ∧ npos ≤ pi ∧ Free tmp (pi - npos)) ∧
    (∀ k v, tmp'[k]? = some (some v) ↔
      tmp[k]? = some (some v) ∨
      (k < tmp.length ∧ ∃ j' n, v = j + j' ∧ rest[j']? = some n ∧
        paramIndex params n = some (npos + k))) := by
  induction rest generalizing j tmp with
  | nil =>
    simp only [assignNamed, Except.ok.injEq] at h
    subst h
    simp
  | cons n rest ih =>
    rcases assignNamed_step (params := params) (npos := npos) n tmp with ⟨e', he⟩ | ⟨pi, hpi, hle, hfree, heq⟩
    · rw [assignNamed_fault he] at h; cases h
    rw [heq] at h
    have hpilt := (paramIndex_some hpi).1
    obtain ⟨hl, hnd, hall, hiff⟩ := ih (by simpa using hlen) h
    rw [List.length_set] at hl
    have hset : (tmp.set (pi - npos) (some j))[pi - npos]? = some (some j) := by
      rw [List.getElem?_set_self (by omega)]
    refine ⟨hl, ?_, ?_, ?_⟩
    · rw [List.nodup_cons]
      refine ⟨?_, hnd⟩
      intro hmem
      obtain ⟨pm, hpm, _, hfreem⟩ := hall n hmem
      rw [hpi] at hpm; cases hpm
      exact hfreem j hset
    · intro m hm
      rcases List.mem_cons.mp hm with rfl | hm
      · exact ⟨pi, hpi, hle, hfree⟩
      · obtain ⟨pm, hpm, hlem, hfreem⟩ := hall m hm
        refine ⟨pm, hpm, hlem, ?_⟩
        intro v hv
        by_cases e : pi - npos = pm - npos
        · rw [← e] at hfreem; exact hfreem j hset
        · rw [← List.getElem?_set_ne e (a := some j)] at hv
          exact hfreem v hv
    · intro k v
      rw [hiff k v, List.length_set]
      constructor
      · rintro (h1 | ⟨hk, j', m, rfl, hj', hm⟩)
        · by_cases e : pi - npos = k
          · subst e
            rw [hset] at h1
            cases h1
            exact .inr ⟨by omega, 0, n, rfl, rfl, by rw [hpi]; congr 1; omega⟩
          · rw [List.getElem?_set_ne e] at h1
            exact .inl h1
        · exact .inr ⟨hk, j' + 1, m, by omega, by simpa using hj', hm⟩
      · rintro (h1 | ⟨hk, j', m, rfl, hj', hm⟩)
        · have e : pi - npos ≠ k := by
            intro e; subst e; exact hfree v h1
          exact .inl (by rw [List.getElem?_set_ne e]; exact h1)
        · cases j' with
          | zero =>
            simp only [List.getElem?_cons_zero, Option.some.injEq] at hj'
            subst hj'
            rw [hpi] at hm
            cases hm
            left
            rw [show npos + k - npos = k by omega] at hset
            simpa using hset
          | succ j' =>
            exact .inr ⟨hk, j', m, by omega, by simpa using hj', hm⟩


/-! ### `fillRest` -/

/-- the slot chosen for a non-positional parameter from its entry in the temporary vector -/
def slotOf : Option (Option Nat) → Slot
  | some (some j) => .named j
  | _ => .dflt

/-- parameter `k` of `ps` is bound by a named argument or has a default -/
def Covered (ps : List (String × Bool)) (tmp : List (Option Nat)) (k : Nat) : Prop :=
  (∃ v, tmp[k]? = some (some v)) ∨ (ps[k]?).map Prod.snd = some true

theorem fillRest_cons_pos (n : String) (d : Bool) (ps : List (String × Bool))
    (tmp : List (Option Nat)) (h : (∃ v, tmp[0]? = some (some v)) ∨ d = true) :
    fillRest ((n, d) :: ps) tmp = (fillRest ps tmp.tail).map (slotOf tmp[0]? :: ·) := by
  rcases tmp with _ | ⟨_ | v, ts⟩ <;> cases d <;> simp [fillRest, slotOf] at h ⊢

theorem fillRest_cons_neg (n : String) (d : Bool) (ps : List (String × Bool))
    (tmp : List (Option Nat)) (h : ¬ ((∃ v, tmp[0]? = some (some v)) ∨ d = true)) :
    fillRest ((n, d) :: ps) tmp = .error (.callParamNotBound n) := by
  rcases tmp with _ | ⟨_ | v, ts⟩ <;> cases d <;> simp [fillRest] at h ⊢

theorem fillRest_ok_iff (ps : List (String × Bool)) (tmp : List (Option Nat)) (slots : List Slot) :
    fillRest ps tmp = .ok slots ↔
      (∀ k, k < ps.length → Covered ps tmp k) ∧ slots.length = ps.length ∧
      ∀ k, k < ps.length → slots[k]? = some (slotOf tmp[k]?) := by
  induction ps generalizing tmp slots with
  | nil =>
    simp only [fillRest, Except.ok.injEq]
    constructor
    · rintro rfl; simp
    · rintro ⟨_, h, _⟩; exact (List.length_eq_zero_iff.mp h).symm
  | cons p ps ih =>
    obtain ⟨n, d⟩ := p
    have htail : ∀ k, tmp.tail[k]? = tmp[k + 1]? := fun k => by cases tmp <;> simp
    by_cases hc : (∃ v, tmp[0]? = some (some v)) ∨ d = true
    · rw [fillRest_cons_pos _ _ _ _ hc]
      cases hr : fillRest ps tmp.tail with
      | error e =>
        simp only [Except.map]
        constructor
        · intro h; cases h
        · rintro ⟨hcov, hlen, hs⟩
          exfalso
          cases slots with
          | nil => simp at hlen
          | cons s ss =>
            have := (ih tmp.tail ss).mpr ⟨?_, by simpa using hlen, ?_⟩
            · rw [hr] at this; cases this
            · intro k hk
              have := hcov (k + 1) (by simpa using hk)
              simpa [Covered, htail] using this
            · intro k hk
              have := hs (k + 1) (by simpa using hk)
              simpa [htail] using this
      | ok ss =>
        simp only [Except.map, Except.ok.injEq]
        obtain ⟨hcov, hlen, hs⟩ := (ih tmp.tail ss).mp hr
        constructor
        · rintro rfl
          refine ⟨?_, by simp [hlen], ?_⟩
          · intro k hk
            cases k with
            | zero => simpa [Covered] using hc
            | succ k =>
              have := hcov k (by simpa using hk)
              simpa [Covered, htail] using this
          · intro k hk
            cases k with
            | zero => simp
            | succ k =>
              have := hs k (by simpa using hk)
              simpa [htail] using this
        · rintro ⟨_, hlen', hs'⟩
          apply List.ext_getElem?
          intro k
          by_cases hk : k < (ps.length + 1)
          · rw [hs' k (by simpa using hk)]
            cases k with
            | zero => simp
            | succ k =>
              have := hs k (by omega)
              simpa [htail] using this
          · rw [List.getElem?_eq_none (by simp; omega), List.getElem?_eq_none (by simp at hlen'; omega)]
    · rw [fillRest_cons_neg _ _ _ _ hc]
      constructor
      · intro h; cases h
      · rintro ⟨hcov, _, _⟩
        exfalso
        have := hcov 0 (by simp)
        simp only [Covered, List.getElem?_cons_zero, Option.map_some, Option.some.injEq] at this
        exact hc this


theorem fillRest_error_iff (ps : List (String × Bool)) (tmp : List (Option Nat)) (e : BindErr) :
    fillRest ps tmp = .error e ↔
      ∃ k n, ps[k]? = some (n, false) ∧ Free tmp k ∧ e = .callParamNotBound n ∧
        ∀ k', k' < k → Covered ps tmp k' := by
  induction ps generalizing tmp with
  | nil => simp [fillRest]
  | cons p ps ih =>
    obtain ⟨n, d⟩ := p
    have htail : ∀ k, tmp.tail[k]? = tmp[k + 1]? := fun k => by cases tmp <;> simp
    by_cases hc : (∃ v, tmp[0]? = some (some v)) ∨ d = true
    · rw [fillRest_cons_pos _ _ _ _ hc]
      have hmap : ∀ (r : Except BindErr (List Slot)),
          (r.map (slotOf tmp[0]? :: ·) = .error e ↔ r = .error e) := by
        intro r; cases r <;> simp [Except.map]
      rw [hmap, ih]
      constructor
      · rintro ⟨k, m, hk, hfree, he, hcov⟩
        refine ⟨k + 1, m, by simpa using hk, ?_, he, ?_⟩
        · intro v hv; exact hfree v (by rw [htail]; exact hv)
        · intro k' hk'
          cases k' with
          | zero => simpa [Covered] using hc
          | succ k' =>
            have := hcov k' (by omega)
            simpa [Covered, htail] using this
      · rintro ⟨k, m, hk, hfree, he, hcov⟩
        cases k with
        | zero =>
          exfalso
          simp only [List.getElem?_cons_zero, Option.some.injEq, Prod.mk.injEq] at hk
          rcases hc with ⟨v, hv⟩ | hd
          · exact hfree v hv
          · rw [hk.2] at hd; cases hd
        | succ k =>
          refine ⟨k, m, by simpa using hk, ?_, he, ?_⟩
          · intro v hv; exact hfree v (by rw [← htail]; exact hv)
          · intro k' hk'
            have := hcov (k' + 1) (by omega)
            simpa [Covered, htail] using this
    · rw [fillRest_cons_neg _ _ _ _ hc]
      constructor
      · intro h
        cases h
        refine ⟨0, n, ?_, ?_, rfl, ?_⟩
        · cases d <;> simp at hc ⊢
        · intro v hv; exact hc (.inl ⟨v, hv⟩)
        · intro k' hk'; omega
      · rintro ⟨k, m, hk, hfree, he, hcov⟩
        cases k with
        | zero =>
          simp only [List.getElem?_cons_zero, Option.some.injEq, Prod.mk.injEq] at hk
          rw [he, hk.1]
        | succ k =>
          exfalso
          have := hcov 0 (by omega)
          simp only [Covered, List.getElem?_cons_zero, Option.map_some, Option.some.injEq] at this
          exact hc this


/-! ### `bindPlan` -/

/-- The named arguments `l` are all acceptable: pairwise distinct, and each one is the name of a
    parameter that is not already bound by a positional argument. -/
def GoodNamed (params : List (String × Bool)) (npos : Nat) (l : List String) : Prop :=
  l.Nodup ∧ ∀ n ∈ l, ∃ i, npos ≤ i ∧ i < params.length ∧ (params[i]?).map Prod.fst = some n

/-- `t[k] = some v` exactly when the `v`-th named argument names parameter `npos + k`. -/
def TmpSpec (params : List (String × Bool)) (npos : Nat) (l : List String)
    (t : List (Option Nat)) : Prop :=
  ∀ k v, t[k]? = some (some v) ↔
    ∃ n, l[v]? = some n ∧ (params[npos + k]?).map Prod.fst = some n

theorem paramIndex_iff (hnd : (params.map Prod.fst).Nodup) {n : String} {i : Nat} :
    paramIndex params n = some i ↔ (params[i]?).map Prod.fst = some n :=
  ⟨fun h => (paramIndex_some h).2, paramIndex_of_nodup hnd⟩

theorem free_replicate (m k : Nat) : Free (List.replicate m none) k := by
  intro v h
  rw [List.getElem?_replicate] at h
  split at h <;> cases h

theorem assignNamed_init_ok_of (hnd : (params.map Prod.fst).Nodup) {l : List String}
    (h : GoodNamed params npos l) :
    ∃ t, assignNamed params npos l 0 (List.replicate (params.length - npos) none) = .ok t := by
  apply assignNamed_ok_of _ _ _ h.1
  intro n hn
  obtain ⟨i, hle, _, hi⟩ := h.2 n hn
  exact ⟨i, paramIndex_of_nodup hnd hi, hle, free_replicate _ _⟩

theorem assignNamed_init_ok (hnd : (params.map Prod.fst).Nodup) {l : List String}
    {t : List (Option Nat)}
    (h : assignNamed params npos l 0 (List.replicate (params.length - npos) none) = .ok t) :
    GoodNamed params npos l ∧ t.length = params.length - npos ∧ TmpSpec params npos l t := by
  obtain ⟨hlen, hnodup, hall, hiff⟩ := assignNamed_ok (by simp) h
  refine ⟨⟨hnodup, ?_⟩, by simpa using hlen, ?_⟩
  · intro n hn
    obtain ⟨pi, hpi, hle, _⟩ := hall n hn
    exact ⟨pi, hle, (paramIndex_some hpi).1, (paramIndex_some hpi).2⟩
  · intro k v
    rw [hiff]
    constructor
    · rintro (h1 | ⟨_, j', n, rfl, hj', hn⟩)
      · exact absurd h1 (free_replicate _ _ _)
      · exact ⟨n, by simpa using hj', (paramIndex_some hn).2⟩
    · rintro ⟨n, hv, hn⟩
      refine .inr ⟨?_, v, n, by simp, hv, paramIndex_of_nodup hnd hn⟩
      have : npos + k < params.length := by
        cases hp : params[npos + k]? with
        | none => simp [hp] at hn
        | some p => exact (List.getElem?_eq_some_iff.mp hp).1
      simp; omega

/-- all error outcomes of `bindPlan`, by stage -/
theorem bindPlan_error_cases (params : List (String × Bool)) (npos : Nat) (named : List String)
    (e : BindErr) :
    bindPlan params npos named = .error e ↔
      (params.length < npos ∧ e = .tooManyCallArgs params.length) ∨
      (npos ≤ params.length ∧
        assignNamed params npos named 0 (List.replicate (params.length - npos) none) = .error e) ∨
      (npos ≤ params.length ∧ ∃ t,
        assignNamed params npos named 0 (List.replicate (params.length - npos) none) = .ok t ∧
        fillRest (params.drop npos) t = .error e) := by
  unfold bindPlan
  by_cases hgt : npos > params.length
  · rw [if_pos hgt]
    constructor
    · intro h; cases h; exact .inl ⟨hgt, rfl⟩
    · rintro (⟨_, rfl⟩ | ⟨h, _⟩ | ⟨h, _⟩)
      · rfl
      · omega
      · omega
  · rw [if_neg hgt]
    have hle : npos ≤ params.length := by omega
    cases ha : assignNamed params npos named 0 (List.replicate (params.length - npos) none) with
    | error e' =>
      simp only []
      constructor
      · intro h; cases h; exact .inr (.inl ⟨hle, rfl⟩)
      · rintro (⟨h, _⟩ | ⟨_, h⟩ | ⟨_, t, h, _⟩)
        · omega
        · cases h; rfl
        · cases h
    | ok t =>
      simp only []
      cases hf : fillRest (params.drop npos) t with
      | error e' =>
        simp only []
        constructor
        · intro h; cases h; exact .inr (.inr ⟨hle, t, rfl, hf⟩)
        · rintro (⟨h, _⟩ | ⟨_, h⟩ | ⟨_, t', h, hf'⟩)
          · omega
          · cases h
          · cases h; rw [hf] at hf'; exact hf'
      | ok rest =>
        simp only []
        constructor
        · intro h; cases h
        · rintro (⟨h, _⟩ | ⟨_, h⟩ | ⟨_, t', h, hf'⟩)
          · omega
          · cases h
          · cases h; rw [hf] at hf'; cases hf'

theorem bindPlan_ok_cases (params : List (String × Bool)) (npos : Nat) (named : List String)
    (slots : List Slot) :
    bindPlan params npos named = .ok slots ↔
      npos ≤ params.length ∧ ∃ t rest,
        assignNamed params npos named 0 (List.replicate (params.length - npos) none) = .ok t ∧
        fillRest (params.drop npos) t = .ok rest ∧
        slots = (List.range npos).map Slot.pos ++ rest := by
  unfold bindPlan
  by_cases hgt : npos > params.length
  · rw [if_pos hgt]
    constructor
    · intro h; cases h
    · rintro ⟨h, _⟩; omega
  · rw [if_neg hgt]
    have hle : npos ≤ params.length := by omega
    cases ha : assignNamed params npos named 0 (List.replicate (params.length - npos) none) with
    | error e' =>
      simp only []
      constructor
      · intro h; cases h
      · rintro ⟨_, t, rest, h, _⟩; cases h
    | ok t =>
      simp only []
      cases hf : fillRest (params.drop npos) t with
      | error e' =>
        simp only []
        constructor
        · intro h; cases h
        · rintro ⟨_, t', rest, h, hf', _⟩; cases h; rw [hf] at hf'; cases hf'
      | ok rest =>
        simp only []
        constructor
        · intro h; cases h; exact ⟨hle, t, rest, rfl, hf, rfl⟩
        · rintro ⟨_, t', rest', h, hf', rfl⟩
          cases h; rw [hf] at hf'; cases hf'; rfl


/-! ### The declarative specification -/

/-- index (in call order) of the named argument that names parameter `i`, if any -/
def namedFor (params : List (String × Bool)) (named : List String) (i : Nat) : Option Nat :=
  (params[i]?).bind (fun p => firstIdx named p.1)

/-- Parameter `i` takes the `i`-th positional argument if there is one, else the named argument
    carrying its name if there is one, else its default. -/
def expectedSlot (params : List (String × Bool)) (npos : Nat) (named : List String) (i : Nat) :
    Slot :=
  if i < npos then .pos i
  else match namedFor params named i with
    | some j => .named j
    | none => .dflt

def expectedSlots (params : List (String × Bool)) (npos : Nat) (named : List String) : List Slot :=
  (List.range params.length).map (expectedSlot params npos named)

/-- `namedFor` is the unique matching named argument (when the named arguments are distinct). -/
theorem namedFor_eq_some_iff {params : List (String × Bool)} {named : List String}
    (hnn : named.Nodup) {i j : Nat} :
    namedFor params named i = some j ↔
      ∃ n, (params[i]?).map Prod.fst = some n ∧ named[j]? = some n := by
  unfold namedFor
  cases hp : params[i]? with
  | none => simp
  | some p =>
    simp only [Option.bind_some, Option.map_some, Option.some.injEq, exists_eq_left']
    exact ⟨firstIdx_some, firstIdx_of_nodup hnn⟩

theorem namedFor_eq_none_iff {params : List (String × Bool)} {named : List String} {i : Nat}
    (hi : i < params.length) :
    namedFor params named i = none ↔ ∀ n, (params[i]?).map Prod.fst = some n → n ∉ named := by
  unfold namedFor
  rw [List.getElem?_eq_getElem hi]
  simp [firstIdx_eq_none]

/-- `expectedSlot` in purely declarative terms. -/
theorem expectedSlot_spec {params : List (String × Bool)} {npos : Nat} {named : List String}
    (hnn : named.Nodup) {i : Nat} (hi : i < params.length) :
    (i < npos → expectedSlot params npos named i = .pos i) ∧
    (npos ≤ i → ∀ j : Nat, named[j]? = (params[i]?).map Prod.fst →
      expectedSlot params npos named i = .named j) ∧
    (npos ≤ i → (∀ j : Nat, named[j]? ≠ (params[i]?).map Prod.fst) →
      expectedSlot params npos named i = .dflt) := by
  refine ⟨fun h => by simp [expectedSlot, h], fun h j hj => ?_, fun h hno => ?_⟩
  · have : namedFor params named i = some j := by
      rw [namedFor_eq_some_iff hnn]
      rw [List.getElem?_eq_getElem hi] at hj ⊢
      exact ⟨_, rfl, hj⟩
    simp [expectedSlot, Nat.not_lt.mpr h, this]
  · have : namedFor params named i = none := by
      rw [namedFor_eq_none_iff hi]
      intro n hn hmem
      obtain ⟨j, hj⟩ := List.getElem?_of_mem hmem
      exact hno j (by rw [hj, hn])
    simp [expectedSlot, Nat.not_lt.mpr h, this]

theorem slotOf_eq_of_tmpSpec {l : List String} {t : List (Option Nat)}
    (hnn : l.Nodup) (hspec : TmpSpec params npos l t) (k : Nat) :
    slotOf t[k]? = (match namedFor params l (npos + k) with
      | some j => Slot.named j
      | none => Slot.dflt) := by
  cases hnf : namedFor params l (npos + k) with
  | some j =>
    obtain ⟨n, hn, hj⟩ := (namedFor_eq_some_iff hnn).mp hnf
    have := (hspec k j).mpr ⟨n, hj, hn⟩
    simp [this, slotOf]
  | none =>
    have : ∀ v, t[k]? ≠ some (some v) := by
      intro v hv
      obtain ⟨n, hj, hn⟩ := (hspec k v).mp hv
      have : namedFor params l (npos + k) = some v := (namedFor_eq_some_iff hnn).mpr ⟨n, hn, hj⟩
      rw [hnf] at this; cases this
    rcases ht : t[k]? with _ | _ | v
    · rfl
    · rfl
    · exact absurd ht (this v)

theorem covered_iff_of_tmpSpec {l : List String} {t : List (Option Nat)}
    (hspec : TmpSpec params npos l t) {k : Nat} (hk : npos + k < params.length) :
    Covered (params.drop npos) t k ↔
      ((∃ j : Nat, l[j]? = (params[npos + k]?).map Prod.fst) ∨
        (params[npos + k]?).map Prod.snd = some true) := by
  unfold Covered
  rw [List.getElem?_drop]
  apply or_congr _ Iff.rfl
  constructor
  · rintro ⟨v, hv⟩
    obtain ⟨n, hj, hn⟩ := (hspec k v).mp hv
    exact ⟨v, by rw [hj, hn]⟩
  · rintro ⟨j, hj⟩
    rw [List.getElem?_eq_getElem hk] at hj
    exact ⟨j, (hspec k j).mpr ⟨_, hj, by rw [List.getElem?_eq_getElem hk]; rfl⟩⟩

/-- the four success conditions (everything but the slots) -/
def BindOk (params : List (String × Bool)) (npos : Nat) (named : List String) : Prop :=
  npos ≤ params.length ∧ named.Nodup ∧
  (∀ n ∈ named, ∃ i, npos ≤ i ∧ i < params.length ∧ (params[i]?).map Prod.fst = some n) ∧
  (∀ i, npos ≤ i → i < params.length →
    (∃ j : Nat, named[j]? = (params[i]?).map Prod.fst) ∨ (params[i]?).map Prod.snd = some true)

theorem bindPlan_ok_imp (hnd : (params.map Prod.fst).Nodup) {named : List String}
    {slots : List Slot} (h : bindPlan params npos named = .ok slots) :
    BindOk params npos named ∧ slots = expectedSlots params npos named := by
  obtain ⟨hle, t, rest, ha, hf, rfl⟩ := (bindPlan_ok_cases _ _ _ _).mp h
  obtain ⟨hgood, htlen, hspec⟩ := assignNamed_init_ok hnd ha
  obtain ⟨hcov, hrlen, hrest⟩ := (fillRest_ok_iff _ _ _).mp hf
  rw [List.length_drop] at hcov hrlen hrest
  refine ⟨⟨hle, hgood.1, hgood.2, ?_⟩, ?_⟩
  · intro i h1 h2
    have := (covered_iff_of_tmpSpec hspec (k := i - npos) (by omega)).mp (hcov (i - npos) (by omega))
    rwa [show npos + (i - npos) = i by omega] at this
  · apply List.ext_getElem?
    intro i
    unfold expectedSlots
    by_cases hi : i < params.length
    · rw [List.getElem?_map, List.getElem?_range hi, Option.map_some]
      by_cases hin : i < npos
      · rw [List.getElem?_append_left (by simpa using hin)]
        simp [expectedSlot, hin]
      · rw [List.getElem?_append_right (by simp; omega)]
        simp only [List.length_map, List.length_range]
        rw [hrest (i - npos) (by omega), slotOf_eq_of_tmpSpec hgood.1 hspec]
        simp only [expectedSlot, hin, if_false, show npos + (i - npos) = i by omega]
    · rw [List.getElem?_eq_none (by simp; omega), List.getElem?_eq_none (by simp; omega)]

theorem bindPlan_ok_of (hnd : (params.map Prod.fst).Nodup) {named : List String}
    (h : BindOk params npos named) : ∃ slots, bindPlan params npos named = .ok slots := by
  obtain ⟨hle, hnn, hall, hcov⟩ := h
  obtain ⟨t, ha⟩ := assignNamed_init_ok_of hnd (npos := npos) ⟨hnn, hall⟩
  obtain ⟨_, htlen, hspec⟩ := assignNamed_init_ok hnd ha
  cases hf : fillRest (params.drop npos) t with
  | ok rest => exact ⟨_, (bindPlan_ok_cases _ _ _ _).mpr ⟨hle, t, rest, ha, hf, rfl⟩⟩
  | error e =>
    exfalso
    obtain ⟨k, n, hk, hfree, _, _⟩ := (fillRest_error_iff _ _ _).mp hf
    rw [List.getElem?_drop] at hk
    have hlt : npos + k < params.length := (List.getElem?_eq_some_iff.mp hk).1
    rcases hcov (npos + k) (by omega) hlt with ⟨j, hj⟩ | hd
    · rw [hk] at hj
      exact hfree j ((hspec k j).mpr ⟨n, hj, by rw [hk]; rfl⟩)
    · rw [hk] at hd; cases hd

/-- **bind_correct.**  A call binds successfully exactly when there is no excess positional
    argument, no repeated named argument, no named argument that is unknown or already bound
    positionally, and no parameter left without a value; and then parameter `i` is bound to the
    `i`-th positional argument, else to the named argument with its name, else to its default. -/
theorem bindPlan_ok_iff (params : List (String × Bool)) (npos : Nat) (named : List String)
    (hnd : (params.map Prod.fst).Nodup) (slots : List Slot) :
    bindPlan params npos named = .ok slots ↔
      npos ≤ params.length ∧ named.Nodup ∧
      (∀ n ∈ named, ∃ i, npos ≤ i ∧ i < params.length ∧ (params[i]?).map Prod.fst = some n) ∧
      (∀ i, npos ≤ i → i < params.length →
        (∃ j : Nat, named[j]? = (params[i]?).map Prod.fst) ∨ (params[i]?).map Prod.snd = some true) ∧
      slots = expectedSlots params npos named := by
  constructor
  · intro h
    obtain ⟨⟨h1, h2, h3, h4⟩, h5⟩ := bindPlan_ok_imp hnd h
    exact ⟨h1, h2, h3, h4, h5⟩
  · rintro ⟨h1, h2, h3, h4, rfl⟩
    obtain ⟨slots', hs⟩ := bindPlan_ok_of hnd (npos := npos) ⟨h1, h2, h3, h4⟩
    rw [hs, (bindPlan_ok_imp hnd hs).2]


/-! ### Errors and their priority -/

theorem stepFault_kind {t : List (Option Nat)} {n : String} {e : BindErr}
    (h : StepFault params npos t n e) : e = .unknownCallParam n ∨ e = .repeatedCallParam n := by
  rcases h with ⟨_, rfl⟩ | ⟨_, _, _, rfl⟩
  · exact .inl rfl
  · exact .inr rfl

/-- `tooManyCallArgs` is reported exactly when there are more positional arguments than
    parameters (and then regardless of the named arguments); it carries the parameter count. -/
theorem bindPlan_tooMany (params : List (String × Bool)) (npos : Nat) (named : List String) :
    (npos > params.length →
      bindPlan params npos named = .error (.tooManyCallArgs params.length)) ∧
    (∀ m, bindPlan params npos named = .error (.tooManyCallArgs m) →
      npos > params.length ∧ m = params.length) := by
  constructor
  · intro h; simp [bindPlan, h]
  · intro m h
    rcases (bindPlan_error_cases _ _ _ _).mp h with ⟨h1, h2⟩ | ⟨_, h2⟩ | ⟨_, t, _, h2⟩
    · cases h2; exact ⟨h1, rfl⟩
    · obtain ⟨_, _, _, _, _, _, hf⟩ := assignNamed_error h2
      rcases stepFault_kind hf with h | h <;> cases h
    · obtain ⟨_, _, _, _, h, _⟩ := (fillRest_error_iff _ _ _).mp h2
      cases h

theorem bindPlan_tooMany_iff (params : List (String × Bool)) (npos : Nat) (named : List String)
    (m : Nat) :
    bindPlan params npos named = .error (.tooManyCallArgs m) ↔
      npos > params.length ∧ m = params.length := by
  constructor
  · exact (bindPlan_tooMany params npos named).2 m
  · rintro ⟨h, rfl⟩; exact (bindPlan_tooMany params npos named).1 h

/-- The error comes from the named-argument stage iff the named arguments split as
    `pre ++ n :: post` with `pre` entirely acceptable and `n` faulty. -/
theorem bindPlan_named_error_iff (named : List String)
    (n : String) (e : BindErr) (hkind : e = .unknownCallParam n ∨ e = .repeatedCallParam n) :
    bindPlan params npos named = .error e ↔
      npos ≤ params.length ∧ ∃ pre post t, named = pre ++ n :: post ∧
        assignNamed params npos pre 0 (List.replicate (params.length - npos) none) = .ok t ∧
        StepFault params npos t n e := by
  rw [bindPlan_error_cases]
  constructor
  · rintro (⟨_, rfl⟩ | ⟨hle, h2⟩ | ⟨_, t, _, h2⟩)
    · rcases hkind with h | h <;> cases h
    · obtain ⟨pre, m, post, t, rfl, hok, hf⟩ := assignNamed_error h2
      have : m = n := by
        rcases stepFault_kind hf with h | h <;> rcases hkind with h' | h' <;>
          rw [h] at h' <;> cases h' <;> rfl
      subst this
      exact ⟨hle, pre, post, t, rfl, hok, hf⟩
    · obtain ⟨_, _, _, _, h, _⟩ := (fillRest_error_iff _ _ _).mp h2
      rcases hkind with h' | h' <;> rw [h] at h' <;> cases h'
  · rintro ⟨hle, pre, post, t, rfl, hok, hf⟩
    refine .inr (.inl ⟨hle, ?_⟩)
    rw [assignNamed_append, hok]
    exact assignNamed_fault hf _ _

/-- **Unknown parameter.**  `unknownCallParam n` is reported iff `n` is a named argument that is
    not a parameter name, and every named argument before it (in call order) is acceptable:
    distinct from the others before it and naming a parameter not bound positionally. -/
theorem bindPlan_error_unknown (params : List (String × Bool)) (npos : Nat) (named : List String)
    (hnd : (params.map Prod.fst).Nodup) (n : String) :
    bindPlan params npos named = .error (.unknownCallParam n) ↔
      npos ≤ params.length ∧ ∃ pre post, named = pre ++ n :: post ∧
        GoodNamed params npos pre ∧ n ∉ params.map Prod.fst := by
  rw [bindPlan_named_error_iff named n _ (.inl rfl)]
  apply and_congr Iff.rfl
  constructor
  · rintro ⟨pre, post, t, rfl, hok, hf⟩
    refine ⟨pre, post, rfl, (assignNamed_init_ok hnd hok).1, ?_⟩
    rcases hf with ⟨h, _⟩ | ⟨_, _, _, h⟩
    · exact paramIndex_eq_none.mp h
    · cases h
  · rintro ⟨pre, post, rfl, hgood, hn⟩
    obtain ⟨t, hok⟩ := assignNamed_init_ok_of hnd hgood
    exact ⟨pre, post, t, rfl, hok, .inl ⟨paramIndex_eq_none.mpr hn, rfl⟩⟩

/-- **Repeated parameter.**  `repeatedCallParam n` is reported iff `n` is a named argument that
    names a parameter already bound positionally or by an earlier named argument, and every named
    argument before it is acceptable. -/
theorem bindPlan_error_repeated (params : List (String × Bool)) (npos : Nat) (named : List String)
    (hnd : (params.map Prod.fst).Nodup) (n : String) :
    bindPlan params npos named = .error (.repeatedCallParam n) ↔
      npos ≤ params.length ∧ ∃ pre post, named = pre ++ n :: post ∧
        GoodNamed params npos pre ∧
        ((∃ i, i < npos ∧ (params[i]?).map Prod.fst = some n) ∨ n ∈ pre) := by
  rw [bindPlan_named_error_iff named n _ (.inr rfl)]
  apply and_congr Iff.rfl
  constructor
  · rintro ⟨pre, post, t, rfl, hok, hf⟩
    obtain ⟨hgood, _, hspec⟩ := assignNamed_init_ok hnd hok
    refine ⟨pre, post, rfl, hgood, ?_⟩
    rcases hf with ⟨_, h⟩ | ⟨pi, hpi, (hlt | ⟨v, hv⟩), _⟩
    · cases h
    · exact .inl ⟨pi, hlt, (paramIndex_some hpi).2⟩
    · by_cases hlt : pi < npos
      · exact .inl ⟨pi, hlt, (paramIndex_some hpi).2⟩
      · right
        obtain ⟨m, hm, hpm⟩ := (hspec _ _).mp hv
        rw [show npos + (pi - npos) = pi by omega, (paramIndex_some hpi).2] at hpm
        cases hpm
        exact List.mem_of_getElem? hm
  · rintro ⟨pre, post, rfl, hgood, hrep⟩
    obtain ⟨t, hok⟩ := assignNamed_init_ok_of hnd hgood
    obtain ⟨_, _, hspec⟩ := assignNamed_init_ok hnd hok
    refine ⟨pre, post, t, rfl, hok, .inr ?_⟩
    rcases hrep with ⟨i, hlt, hi⟩ | hmem
    · exact ⟨i, paramIndex_of_nodup hnd hi, .inl hlt, rfl⟩
    · obtain ⟨i, hle, _, hi⟩ := hgood.2 n hmem
      obtain ⟨v, hv⟩ := List.getElem?_of_mem hmem
      refine ⟨i, paramIndex_of_nodup hnd hi, .inr ⟨v, (hspec _ _).mpr ⟨n, hv, ?_⟩⟩, rfl⟩
      rw [show npos + (i - npos) = i by omega]; exact hi

/-- **Parameter not bound.**  `callParamNotBound n` is reported iff all named arguments are
    acceptable and `n` is the first parameter (in parameter order, after the positional ones) that
    has neither a named argument nor a default. -/
theorem bindPlan_error_notBound (params : List (String × Bool)) (npos : Nat) (named : List String)
    (hnd : (params.map Prod.fst).Nodup) (n : String) :
    bindPlan params npos named = .error (.callParamNotBound n) ↔
      npos ≤ params.length ∧ GoodNamed params npos named ∧
      ∃ i, npos ≤ i ∧ params[i]? = some (n, false) ∧ n ∉ named ∧
        ∀ i', npos ≤ i' → i' < i →
          (∃ j : Nat, named[j]? = (params[i']?).map Prod.fst) ∨
            (params[i']?).map Prod.snd = some true := by
  rw [bindPlan_error_cases]
  constructor
  · rintro (⟨_, h⟩ | ⟨_, h2⟩ | ⟨hle, t, hok, h2⟩)
    · cases h
    · obtain ⟨_, _, _, _, _, _, hf⟩ := assignNamed_error h2
      rcases stepFault_kind hf with h | h <;> cases h
    · obtain ⟨hgood, _, hspec⟩ := assignNamed_init_ok hnd hok
      obtain ⟨k, m, hk, hfree, he, hcov⟩ := (fillRest_error_iff _ _ _).mp h2
      cases he
      rw [List.getElem?_drop] at hk
      have hlt : npos + k < params.length := (List.getElem?_eq_some_iff.mp hk).1
      refine ⟨hle, hgood, npos + k, by omega, hk, ?_, ?_⟩
      · intro hmem
        obtain ⟨v, hv⟩ := List.getElem?_of_mem hmem
        exact hfree v ((hspec k v).mpr ⟨n, hv, by rw [hk]; rfl⟩)
      · intro i' h1 h2
        have := (covered_iff_of_tmpSpec hspec (k := i' - npos) (by omega)).mp
          (hcov (i' - npos) (by omega))
        rwa [show npos + (i' - npos) = i' by omega] at this
  · rintro ⟨hle, hgood, i, hle', hi, hnotin, hcov⟩
    obtain ⟨t, hok⟩ := assignNamed_init_ok_of hnd hgood
    obtain ⟨_, _, hspec⟩ := assignNamed_init_ok hnd hok
    have hlt : i < params.length := (List.getElem?_eq_some_iff.mp hi).1
    refine .inr (.inr ⟨hle, t, hok, (fillRest_error_iff _ _ _).mpr
      ⟨i - npos, n, ?_, ?_, rfl, ?_⟩⟩)
    · rw [List.getElem?_drop, show npos + (i - npos) = i by omega]; exact hi
    · intro v hv
      obtain ⟨m, hm, hpm⟩ := (hspec _ _).mp hv
      rw [show npos + (i - npos) = i by omega, hi] at hpm
      cases hpm
      exact hnotin (List.mem_of_getElem? hm)
    · intro k' hk'
      rw [covered_iff_of_tmpSpec hspec (by omega)]
      exact hcov (npos + k') (by omega) (by omega)

/-- Totality / priority summary: the outcome is decided in this order — excess positional
    arguments; the first faulty named argument; the first unbound parameter; success. -/
theorem bindPlan_priority (params : List (String × Bool)) (npos : Nat) (named : List String)
    (hnd : (params.map Prod.fst).Nodup) :
    (npos > params.length ∧
      bindPlan params npos named = .error (.tooManyCallArgs params.length)) ∨
    (npos ≤ params.length ∧ ¬ GoodNamed params npos named ∧
      ∃ pre n post, named = pre ++ n :: post ∧ GoodNamed params npos pre ∧
        ¬ GoodNamed params npos (pre ++ [n]) ∧
        (bindPlan params npos named = .error (.unknownCallParam n) ∨
         bindPlan params npos named = .error (.repeatedCallParam n))) ∨
    (npos ≤ params.length ∧ GoodNamed params npos named ∧
      ((∃ n, bindPlan params npos named = .error (.callParamNotBound n)) ∨
        bindPlan params npos named = .ok (expectedSlots params npos named))) := by
  by_cases hgt : npos > params.length
  · exact .inl ⟨hgt, (bindPlan_tooMany _ _ _).1 hgt⟩
  have hle : npos ≤ params.length := by omega
  right
  cases hb : bindPlan params npos named with
  | ok slots =>
    obtain ⟨_, h2, h3, _, rfl⟩ := (bindPlan_ok_iff _ _ _ hnd _).mp hb
    exact .inr ⟨hle, ⟨h2, h3⟩, .inr rfl⟩
  | error e =>
    rcases (bindPlan_error_cases _ _ _ _).mp hb with ⟨h1, _⟩ | ⟨_, h2⟩ | ⟨_, t, hok, h2⟩
    · omega
    · obtain ⟨pre, n, post, t, rfl, hok, hf⟩ := assignNamed_error h2
      have hgpre := (assignNamed_init_ok hnd hok).1
      have hbad : ∀ l, ¬ GoodNamed params npos (pre ++ n :: l) := by
        intro l hg
        obtain ⟨t', ht'⟩ := assignNamed_init_ok_of hnd hg
        rw [assignNamed_append, hok] at ht'
        simp only [] at ht'
        rw [assignNamed_fault hf] at ht'
        cases ht'
      refine .inl ⟨hle, hbad post, pre, n, post, rfl, hgpre, hbad [], ?_⟩
      rcases stepFault_kind hf with h | h <;> subst h
      · exact .inl rfl
      · exact .inr rfl
    · obtain ⟨hgood, _, _⟩ := assignNamed_init_ok hnd hok
      obtain ⟨_, n, _, _, he, _⟩ := (fillRest_error_iff _ _ _).mp h2
      exact .inr ⟨hle, hgood, .inl ⟨n, by rw [he]⟩⟩

/-! ### Non-vacuity -/

/-- `f(a, b, c=…)` called as `f(1, b=2)`: `a` positional, `b` named, `c` default. -/
example : bindPlan [("a", false), ("b", false), ("c", true)] 1 ["b"]
    = .ok [.pos 0, .named 0, .dflt] := by rfl
example : expectedSlots [("a", false), ("b", false), ("c", true)] 1 ["b"]
    = [.pos 0, .named 0, .dflt] := by rfl
example : ([("a", false), ("b", false), ("c", true)].map Prod.fst).Nodup := by decide
/-- the hypotheses of `bindPlan_ok_iff` / the success conditions are satisfiable -/
example : BindOk [("a", false), ("b", false), ("c", true)] 1 ["b"] :=
  (bindPlan_ok_imp (by decide) (by rfl : bindPlan _ 1 ["b"] = .ok [.pos 0, .named 0, .dflt])).1
/-- named arguments out of parameter order -/
example : bindPlan [("a", false), ("b", false), ("c", true)] 0 ["c", "b", "a"]
    = .ok [.named 2, .named 1, .named 0] := by rfl
example : bindPlan [("a", false), ("b", false), ("c", true)] 4 ["zz"]
    = .error (.tooManyCallArgs 3) := by rfl
example : bindPlan [("a", false), ("b", false), ("c", true)] 1 ["b", "zz", "a"]
    = .error (.unknownCallParam "zz") := by rfl
/-- names a positionally bound parameter; the later unknown name is not reported -/
example : bindPlan [("a", false), ("b", false), ("c", true)] 1 ["a", "zz"]
    = .error (.repeatedCallParam "a") := by rfl
/-- named twice -/
example : bindPlan [("a", false), ("b", false), ("c", true)] 1 ["c", "c"]
    = .error (.repeatedCallParam "c") := by rfl
/-- `b` has neither argument nor default -/
example : bindPlan [("a", false), ("b", false), ("c", true)] 1 ["c"]
    = .error (.callParamNotBound "b") := by rfl
/-- a named-argument fault takes priority over an unbound parameter -/
example : bindPlan [("a", false), ("b", false), ("c", true)] 1 ["zz"]
    = .error (.unknownCallParam "zz") := by rfl

end Rsj.Bind

#print axioms Rsj.Bind.bindPlan_tooMany
#print axioms Rsj.Bind.bindPlan_tooMany_iff
#print axioms Rsj.Bind.bindPlan_ok_iff
#print axioms Rsj.Bind.expectedSlot_spec
#print axioms Rsj.Bind.bindPlan_error_unknown
#print axioms Rsj.Bind.bindPlan_error_repeated
#print axioms Rsj.Bind.bindPlan_error_notBound
#print axioms Rsj.Bind.bindPlan_priority
