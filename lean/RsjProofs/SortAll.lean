/-
  Helper lemmas for C17 (part 5): the index instantiation (`sortIdx`), lawfulness of the
  driver's integer order, and small glue used by RsjProps/C17.lean.
-/
import RsjProofs.Sort
import RsjProofs.SortUniq
import RsjProofs.SortSets
import RsjProofs.SortSearch
import RsjProofs.SortMap
namespace Rsj.Sort

variable {α κ : Type} {O : KeyOrd κ}

/-- `do_std_sort` literally: `sorted = (0..n)` is sorted by `keys[i]`
    (`do_std_sort_finish` then maps `i ↦ orig_array[i]`). -/
def sortIdx (O : KeyOrd κ) (key : Nat → κ) (thr n : Nat) : Except Err (List Nat) :=
  sort O key thr (List.range n)

/-- `do_std_set` on indices. -/
def setIdx (O : KeyOrd κ) (key : Nat → κ) (thr n : Nat) : Except Err (List Nat) :=
  set O key thr (List.range n)

theorem posSorted_range (n : Nat) : PosSorted (fun i : Nat => i) (List.range n) := by
  unfold PosSorted
  exact List.pairwise_lt_range

/-- The driver's key order (integers under `compare` / `==`) satisfies the laws. -/
theorem intOrd_lawful : Lawful intOrd where
  swap a b := by simp only [intOrd]; exact (Int.compare_swap a b).symm
  le_trans a b c := by
    simp only [intOrd, Int.compare_ne_gt]; exact Int.le_trans
  eqv_iff a b := by simp only [intOrd, Int.compare_eq_eq, beq_iff_eq]

theorem posSorted_tagFrom : ∀ (ks : List Int) (base : Nat),
    PosSorted (fun p : Nat × Int => p.1) (tagFrom base ks) ∧
      ∀ p ∈ tagFrom base ks, base ≤ p.1 := by
  intro ks
  induction ks with
  | nil => intro base; exact ⟨.nil, fun p hp => by cases hp⟩
  | cons k ks ih =>
    intro base
    obtain ⟨h1, h2⟩ := ih (base + 1)
    refine ⟨List.pairwise_cons.mpr ⟨?_, h1⟩, ?_⟩
    · intro p hp; have := h2 p hp; simp only; omega
    · intro p hp
      rcases List.mem_cons.mp hp with rfl | hp
      · exact Nat.le_refl _
      · have := h2 p hp; omega

/-- Strictly sorted ⇒ sorted. -/
theorem StrictSorted.sorted {key : α → κ} {l : List α} (hs : StrictSorted O key l) :
    Sorted O key l :=
  List.Pairwise.imp (fun {a b} (hlt : O.cmp (key a) (key b) = .lt) => by rw [hlt]; simp) hs

theorem before_pairwise_sorted {key : α → κ} {pos : α → Nat} {l : List α}
    (hs : l.Pairwise (Before O key pos)) : Sorted O key l :=
  List.Pairwise.imp (fun hb => Before.le hb) hs

end Rsj.Sort
