import RsjProofs.EvalSafeSort
import RsjProofs.EvalPureTable
/-!
  C01 on the evaluator model: the generic pure builtin (`std_pure`, `builtinCall3`) keeps every identifier
  in range, and — because no entry of the table answers with a panic of its pure core
  (`pureSpec_safe`, RsjProofs/EvalPureTable.lean) — ends in no modelled panic of its own.
-/
open Std.Do
set_option mvcgen.warning false
namespace Rsj.Eval.Safe
open Rsj.Core Rsj.Eval Rsj.Eval.Scope

/-- the error of a pure builtin that is not a panic of its core is none of the excluded panics -/
theorem Good2_toErr {e : PErr} (h : e.NoPanic) : Good2 e.toErr := by
  cases e <;> first | exact h.elim | trivial

theorem stepSafe_error {x : Except PErr PureStep} {e : PErr} (h : StepSafe x) (hx : x = .error e) : e.NoPanic := by
  subst hx; exact h

theorem stepSafe_item {x : Except PErr PureStep} {i : Nat} {item : PArg → Except PErr Nat}
    {finish : List Nat → Except PErr PureOut} (h : StepSafe x) (hx : x = .ok (.elems i item finish)) : ItemSafe item := by
  subst hx; exact h.1

theorem stepSafe_finish {x : Except PErr PureStep} {i : Nat} {item : PArg → Except PErr Nat}
    {finish : List Nat → Except PErr PureOut} (h : StepSafe x) (hx : x = .ok (.elems i item finish)) : FinishSafe finish := by
  subst hx; exact h.2

theorem primVal_ok (p : Prim) (nt no nf : Nat) : ValOk nt no nf p.toValue := by
  cases p <;> trivial

/-- the invariant of a loop that collects forced values -/
def pvalsInv (s s1 : St) {β} : PostCond (β × List Value) PS :=
  ⟨fun (_, vals) st => ⌜Safe st ∧ Le s st ∧ SzLe s1 st ∧ ValsOk st vals⌝,
   fun e st => ⌜Safe st ∧ Good2 e ∧ SzLe s st⌝, fun _ => ⌜True⌝, ()⟩

/-- the invariant of the loop that collects checked bytes -/
def pbytesInv (s s1 : St) {β} : PostCond (β × List Nat) PS :=
  ⟨fun (_, bs) st => ⌜Safe st ∧ Le s st ∧ SzLe s1 st ∧ ∀ b ∈ bs, b < 256⌝,
   fun e st => ⌜Safe st ∧ Good2 e ∧ SzLe s st⌝, fun _ => ⌜True⌝, ()⟩

macro "vcprep4" : tactic => `(tactic|
  ((try intros); (try simp only [pvalsInv, pbytesInv] at *); vcprep3))

theorem ValsOk.nil (st : St) : ValsOk st [] := fun _ h => by cases h

theorem ValsOk.snocStr {a b : St} {vs : List Value} {str : String} (h : ValsOk a vs)
    (h1 : a.thunks.size ≤ b.thunks.size) (h2 : a.objs.size ≤ b.objs.size) (h3 : a.funcs.size ≤ b.funcs.size) :
    ValsOk b (vs ++ [.str str]) := h.snoc h1 h2 h3 trivial

theorem bytes_snoc {bs : List Nat} {b : Nat} (h : ∀ x ∈ bs, x < 256) (hb : b < 256) : ∀ x ∈ bs ++ [b], x < 256 := by
  intro x hx
  rcases List.mem_append.1 hx with hx | hx
  · exact h x hx
  · simp only [List.mem_singleton] at hx; subst hx; exact hb

theorem arr_items_ok {st : St} {vals : List Value} {i : Nat} {items : List TId} (h : ValsOk st vals)
    (hi : vals[i]? = some (.arr items)) : ∀ t ∈ items, t < st.thunks.size :=
  h _ (List.mem_of_getElem? hi)

theorem allocPrims_spec2 (s : St) (items : List Prim) (hS : Safe s) :
    ⦃fun st => ⌜st = s⌝⦄ allocPrims items ⦃Q2 s (fun out st => ∀ t ∈ out, t < st.thunks.size)⦄ := by
  have g3 := allocThunk_spec2
  qstart2
  unfold allocPrims
  mvcgen [g3]
  on_invs exact outInv s ‹St›
  all_goals clear g3
  all_goals vcprep4
  all_goals first
    | s3close
    | exact primVal_ok _ _ _ _

theorem pureOut_spec2 (s : St) (o : PureOut) (hS : Safe s) :
    ⦃fun st => ⌜st = s⌝⦄ pureOut o ⦃Q2 s (fun v st => ValOk st.thunks.size st.objs.size st.funcs.size v)⦄ := by
  have g3 := allocPrims_spec2
  qstart2
  unfold pureOut
  mvcgen [g3]
  all_goals clear g3
  all_goals vcprep4
  all_goals first
    | s3close
    | exact primVal_ok _ _ _ _
    | exact ⟨by assumption, ⟨⟨by omega, by omega, by omega, by omega⟩, Prog.refl _⟩, primVal_ok _ _ _ _⟩

section
variable (cfg : Cfg) (rec : Task → M Value) (hrec : RecOk2 rec)
include hrec

theorem forceAll_spec2 (s : St) (ts : List TId) (d1 : Nat) (hS : Safe s) (hts : ∀ t ∈ ts, t < s.thunks.size) :
    ⦃fun st => ⌜st = s⌝⦄ forceAll rec ts d1 ⦃Q2 s (fun vals st => ValsOk st vals)⦄ := by
  have hr := rec_spec2 rec hrec
  qstart2
  unfold forceAll
  mvcgen [hr]
  on_invs exact pvalsInv s ‹St›
  all_goals clear hr
  all_goals vcprep4
  all_goals first
    | s3close
    | exact ValsOk.nil _
    | (refine ⟨by assumption, ⟨⟨by omega, by omega, by omega, by omega⟩, by pchain⟩,
        ⟨by omega, by omega, by omega, by omega⟩, ?_⟩
       exact ValsOk.snoc (by assumption) (by omega) (by omega) (by omega) (by assumption))
    | (have hm := hts _ (mem_of_split (by assumption)); omega)

theorem coerceAll_spec2 (s : St) (vals : List Value) (d1 : Nat) (hS : Safe s) (hv : ValsOk s vals) :
    ⦃fun st => ⌜st = s⌝⦄ coerceAll rec vals d1 ⦃Q2 s (fun out st => ValsOk st out)⦄ := by
  have g7 := coerceToString_spec2 rec hrec
  qstart2
  unfold coerceAll
  mvcgen [g7]
  on_invs exact pvalsInv s ‹St›
  all_goals clear g7
  all_goals vcprep4
  all_goals first
    | s3close
    | exact ValsOk.nil _
    | (refine ⟨by assumption, ⟨⟨by omega, by omega, by omega, by omega⟩, by pchain⟩,
        ⟨by omega, by omega, by omega, by omega⟩, ?_⟩
       exact ValsOk.snocStr (by assumption) (by omega) (by omega) (by omega))
    | exact ValOk.mono (hv _ (by simp)) (by omega) (by omega) (by omega)

theorem forceBytes_spec2 (s : St) (items : List TId) (item : PArg → Except PErr Nat) (d1 : Nat) (hS : Safe s)
    (hits : ∀ t ∈ items, t < s.thunks.size) (hitem : ItemSafe item) :
    ⦃fun st => ⌜st = s⌝⦄ forceBytes rec items item d1 ⦃Q2 s (fun bs _ => ∀ b ∈ bs, b < 256)⦄ := by
  have hr := rec_spec2 rec hrec
  qstart2
  unfold forceBytes
  mvcgen [hr]
  on_invs exact pbytesInv s ‹St›
  all_goals clear hr
  all_goals vcprep4
  all_goals first
    | s3close
    | (intro b hb; cases hb)
    | (refine ⟨by assumption, ⟨⟨by omega, by omega, by omega, by omega⟩, by pchain⟩,
        ⟨by omega, by omega, by omega, by omega⟩, ?_⟩
       exact bytes_snoc (by assumption) ((hitem _).2 _ (by assumption)))
    | exact ⟨by assumption, Good2_toErr ((hitem _).1 _ (by assumption)), by omega, by omega, by omega, by omega⟩
    | (have hm := hits _ (mem_of_split (by assumption)); omega)

/-! #### `std.format` -/

omit hrec in
theorem fmtTakeW_spec2 (s : St) (spec : Option Format.FW) (items : List TId) (i : Nat) (hS : Safe s)
    (hits : ∀ t ∈ items, t < s.thunks.size) :
    ⦃fun st => ⌜st = s⌝⦄ fmtTakeW spec items i ⦃Q2 s (fun r st => ∀ t, r.1 = some t → t < st.thunks.size)⦄ := by
  qstart2
  unfold fmtTakeW
  mvcgen
  all_goals vcprep4
  all_goals first
    | s3close
    | exact ⟨by assumption, Good2_toErr True.intro, by omega, by omega, by omega, by omega⟩
    | (refine ⟨by assumption, ⟨⟨by omega, by omega, by omega, by omega⟩, Prog.refl _⟩, ?_⟩
       intro t ht
       first
         | (cases ht; exact hits _ (List.mem_of_getElem? (by assumption)))
         | cases ht)

theorem fmtForceOpt_spec2 (s : St) (t : Option TId) (d : Nat) (hS : Safe s) (ht : ∀ x, t = some x → x < s.thunks.size) :
    ⦃fun st => ⌜st = s⌝⦄ fmtForceOpt rec t d
      ⦃Q2 s (fun r st => ∀ v, r = some v → ValOk st.thunks.size st.objs.size st.funcs.size v)⦄ := by
  have hr := rec_spec2 rec hrec
  qstart2
  unfold fmtForceOpt
  mvcgen [hr]
  all_goals clear hr
  all_goals vcprep4
  all_goals first
    | s3close
    | exact ht _ rfl
    | (refine ⟨by assumption, ⟨⟨by omega, by omega, by omega, by omega⟩, by first | pchain | exact Prog.refl _⟩, ?_⟩
       intro v hv
       first
         | (cases hv; assumption)
         | cases hv)

theorem fmtItem_spec2 (s : St) (c : Format.Code) (v : Value) (d : Nat) (hS : Safe s)
    (hv : ValOk s.thunks.size s.objs.size s.funcs.size v) :
    ⦃fun st => ⌜st = s⌝⦄ fmtItem rec c v d ⦃Q2 s (fun _ _ => True)⦄ := by
  have g7 := coerceToString_spec2 rec hrec
  qstart2
  unfold fmtItem
  mvcgen [g7]
  all_goals clear g7
  all_goals vcprep4
  all_goals first
    | s3close

theorem fmtArrayCode_spec2 (s : St) (c : Format.Code) (items : List TId) (i d : Nat) (hS : Safe s)
    (hits : ∀ t ∈ items, t < s.thunks.size) :
    ⦃fun st => ⌜st = s⌝⦄ fmtArrayCode rec c items i d ⦃Q2 s (fun _ _ => True)⦄ := by
  have hr := rec_spec2 rec hrec
  have g0 := fmtTakeW_spec2
  have g1 := fmtForceOpt_spec2 rec hrec
  have g2 := fmtItem_spec2 rec hrec
  qstart2
  unfold fmtArrayCode
  mvcgen [hr, g0, g1, g2]
  all_goals clear hr g0 g1 g2
  all_goals vcprep4
  all_goals first
    | s3close
    | (intro t ht; have := hits t ht; omega)
    | (have := hits _ (List.mem_of_getElem? (by assumption)); omega)
    | exact ⟨by assumption, Good2_toErr True.intro, by omega, by omega, by omega, by omega⟩
    | exact ⟨by assumption, Good2_toErr (fmtPrecWidth_noPanic (by assumption)), by omega, by omega, by omega, by omega⟩
    | exact ⟨by assumption, Good2_toErr (fmtRender_noPanic (by simpa using ‹¬ (c.conv == Format.Conv.pct) = true›) (by assumption)),
        by omega, by omega, by omega, by omega⟩

theorem fmtArrayPart_spec2 (s : St) (p : Format.Part) (items : List TId) (i : Nat) (out : List Char) (d : Nat) (hS : Safe s)
    (hits : ∀ t ∈ items, t < s.thunks.size) :
    ⦃fun st => ⌜st = s⌝⦄ fmtArrayPart rec p items i out d ⦃Q2 s (fun _ _ => True)⦄ := by
  have g := fmtArrayCode_spec2 rec hrec
  qstart2
  cases p <;> (unfold fmtArrayPart; mvcgen [g]; all_goals (try clear g); all_goals vcprep4; all_goals first | s3close)

theorem fmtArray_spec2 (s : St) (parts : List Format.Part) (items : List TId) (d : Nat) (hS : Safe s)
    (hits : ∀ t ∈ items, t < s.thunks.size) :
    ⦃fun st => ⌜st = s⌝⦄ fmtArray rec parts items d
      ⦃Q2 s (fun v st => ValOk st.thunks.size st.objs.size st.funcs.size v)⦄ := by
  have g := fmtArrayPart_spec2 rec hrec
  qstart2
  unfold fmtArray
  mvcgen [g]
  on_invs exact loopInv s ‹St›
  all_goals clear g
  all_goals vcprep4
  all_goals first
    | s3close
    | (intro t ht; have := hits t ht; omega)
    | exact ⟨by assumption, Good2_toErr True.intro, by omega, by omega, by omega, by omega⟩

theorem fmtObjectCode_spec2 (s : St) (c : Format.Code) (o : OId) (d : Nat) (hS : Safe s) (ho : o < s.objs.size) :
    ⦃fun st => ⌜st = s⌝⦄ fmtObjectCode rec c o d ⦃Q2 s (fun _ _ => True)⦄ := by
  have hr := rec_spec2 rec hrec
  have g2 := fmtItem_spec2 rec hrec
  have g5 := fieldThunk_spec2
  qstart2
  unfold fmtObjectCode
  mvcgen [hr, g2, g5]
  all_goals clear hr g2 g5
  all_goals vcprep4
  all_goals first
    | s3close
    | exact ⟨by assumption, Good2_toErr True.intro, by omega, by omega, by omega, by omega⟩
    | exact ⟨by assumption, Good2_toErr (objWidthW_noPanic (by assumption)), by omega, by omega, by omega, by omega⟩
    | exact ⟨by assumption, Good2_toErr (objWidthP_noPanic (by assumption)), by omega, by omega, by omega, by omega⟩
    | exact ⟨by assumption, Good2_toErr (fmtRender_noPanic (by simpa using ‹¬ (c.conv == Format.Conv.pct) = true›) (by assumption)),
        by omega, by omega, by omega, by omega⟩

theorem fmtObjectPart_spec2 (s : St) (p : Format.Part) (o : OId) (out : List Char) (d : Nat) (hS : Safe s) (ho : o < s.objs.size) :
    ⦃fun st => ⌜st = s⌝⦄ fmtObjectPart rec p o out d ⦃Q2 s (fun _ _ => True)⦄ := by
  have g := fmtObjectCode_spec2 rec hrec
  qstart2
  cases p <;> (unfold fmtObjectPart; mvcgen [g]; all_goals (try clear g); all_goals vcprep4; all_goals first | s3close)

theorem fmtObject_spec2 (s : St) (parts : List Format.Part) (o : OId) (d : Nat) (hS : Safe s) (ho : o < s.objs.size) :
    ⦃fun st => ⌜st = s⌝⦄ fmtObject rec parts o d
      ⦃Q2 s (fun v st => ValOk st.thunks.size st.objs.size st.funcs.size v)⦄ := by
  have g := fmtObjectPart_spec2 rec hrec
  qstart2
  unfold fmtObject
  mvcgen [g]
  on_invs exact loopInv s ‹St›
  all_goals clear g
  all_goals vcprep4
  all_goals first
    | s3close

omit hrec in
theorem obj_ok {st : St} {vals : List Value} {i : Nat} {o : OId} (h : ValsOk st vals)
    (hi : vals[i]? = some (.obj o)) : o < st.objs.size :=
  h _ (List.mem_of_getElem? hi)

omit hrec in
theorem val_ok {st : St} {vals : List Value} {i : Nat} {v : Value} (h : ValsOk st vals)
    (hi : vals[i]? = some v) : ValOk st.thunks.size st.objs.size st.funcs.size v :=
  h _ (List.mem_of_getElem? hi)

theorem pureFinish_spec2 (s : St) (spec : PureSpec) (vals : List Value) (d1 : Nat) (hS : Safe s)
    (hv : ValsOk s vals) (hspec : SpecSafe spec) :
    ⦃fun st => ⌜st = s⌝⦄ pureFinish rec spec vals d1
      ⦃Q2 s (fun v st => ValOk st.thunks.size st.objs.size st.funcs.size v)⦄ := by
  have g1 := forceBytes_spec2 rec hrec
  have g2 := pureOut_spec2
  have g3 := fmtArray_spec2 rec hrec
  have g4 := fmtObject_spec2 rec hrec
  have g5 := allocThunk_spec2
  have hsafe := hspec (vals.map Value.view)
  qstart2
  unfold pureFinish
  mvcgen [g1, g2, g3, g4, g5]
  all_goals clear g1 g2 g3 g4 g5
  all_goals vcprep4
  all_goals first
    | s3close
    | exact arr_items_ok hv (by assumption) _ (by assumption)
    | exact obj_ok hv (by assumption)
    | exact val_ok hv (by assumption)
    | (simp only [TSRng]; exact val_ok hv (by assumption))
    | exact stepSafe_item hsafe (by assumption)
    | exact ⟨by assumption, Good2_toErr (stepSafe_error hsafe (by assumption)), by omega, by omega, by omega, by omega⟩
    | exact ⟨by assumption, Good2_toErr (stepSafe_finish hsafe (by assumption) _ (by assumption) _ (by assumption)),
        by omega, by omega, by omega, by omega⟩
    | (intro t ht; simp only [List.mem_singleton] at ht; subst ht; omega)

theorem binaryOp3_spec2 (s : St) (op : BinOp) (l r : Value) (d : Nat) (hs : Bool) (hS : Safe s)
    (hl : ValOk s.thunks.size s.objs.size s.funcs.size l) (hr' : ValOk s.thunks.size s.objs.size s.funcs.size r) :
    ⦃fun st => ⌜st = s⌝⦄ binaryOp3 cfg rec op l r d hs
      ⦃Q2 s (fun v st => ValOk st.thunks.size st.objs.size st.funcs.size v)⦄ := by
  have g0 := binaryOp_spec2 cfg rec hrec
  have g1 := pureFinish_spec2 rec hrec
  have g2 := checkDepth_spec2
  qstart2
  unfold binaryOp3
  mvcgen [g0, g1, g2]
  all_goals clear g0 g1 g2
  all_goals vcprep4
  all_goals first
    | s3close
    | exact spec_format_safe
    | (intro v hv; simp only [List.mem_cons, List.not_mem_nil, or_false] at hv; rcases hv with rfl | rfl <;> assumption)

/-- the generic pure builtin of a table entry: identifiers in range, no panic of its own -/
theorem std_pure_spec2 (s : St) (spec : PureSpec) (ts : List TId) (d1 : Nat) (hS : Safe s)
    (hts : ∀ t ∈ ts, t < s.thunks.size) (hspec : SpecSafe spec) :
    ⦃fun st => ⌜st = s⌝⦄ std_pure rec spec ts d1
      ⦃Q2 s (fun v st => ValOk st.thunks.size st.objs.size st.funcs.size v)⦄ := by
  have g1 := forceAll_spec2 rec hrec
  have g2 := coerceAll_spec2 rec hrec
  have g3 := pureFinish_spec2 rec hrec
  qstart2
  unfold std_pure
  mvcgen [g1, g2, g3]
  all_goals clear g1 g2 g3
  all_goals vcprep4
  all_goals first
    | s3close
    | exact hspec

theorem builtinCall3_spec2 (s : St) (b : Builtin) (ts : List TId) (d1 : Nat) (hS : Safe s)
    (hts : ∀ t ∈ ts, t < s.thunks.size) (har : builtinArityOk b ts.length) :
    ⦃fun st => ⌜st = s⌝⦄ builtinCall3 cfg rec b ts d1
      ⦃Q2 s (fun v st => ValOk st.thunks.size st.objs.size st.funcs.size v)⦄ := by
  unfold builtinCall3
  cases hb : pureBuiltin b with
  | none => exact builtinCall2_spec2 cfg rec hrec s b ts d1 hS hts har hb
  | some spec =>
    cases b <;> simp only [pureBuiltin] at hb <;> try cases hb
    rename_i p
    have hlen : ts.length = (pureSpec p).arity := by
      rcases har with h | ⟨h | h, _⟩
      · exact h
      · cases h
      · cases h
    simp only [hlen, if_true]
    exact std_pure_spec2 rec hrec s _ ts d1 hS hts (pureSpec_safe p)

end
end Rsj.Eval.Safe
