/-
  The text written by the YAML emitter model (`RsjModel/Yaml.lean`) as a list of
  lines: `manifestYaml … v = joinNl (valL … v)`, no line contains a line feed, and
  `linesOf` recovers the list.
-/
import RsjProofs.YamlRead
import RsjProofs.NumChars
namespace Rsj.Yaml
open Rsj.Json

/-- put `p` in front of the first line -/
def prependTo (p : Str) : List Str → List Str
  | [] => [p]
  | l :: ls => (p ++ l) :: ls

mutual
/-- the lines of `manifestYaml iaio qk d pA pO v`; the first element continues the
    current line -/
def valL (iaio qk : Bool) (d : Nat) (pA pO : Bool) : JVal → List Str
  | .null => [lead pA pO ++ sNull]
  | .bool true => [lead pA pO ++ sTrue]
  | .bool false => [lead pA pO ++ sFalse]
  | .num t => [lead pA pO ++ t]
  | .str s =>
    match stripSuffixNl s with
    | some body =>
      (lead pA pO ++ [124]) :: (linesOf body).map (fun l => rep (if pA || pO then d else d + 1) indent ++ l)
    | none => [lead pA pO ++ escape s]
  | .arr [] => [lead pA pO ++ [91, 93]]
  | .arr (x :: xs) =>
    (if pA || pO then [[]] else []) ++ seqL iaio qk (if pO && !iaio then d - 1 else d) (x :: xs)
  | .obj [] => [lead pA pO ++ [123, 125]]
  | .obj (kx :: xs) =>
    if pA then fieldsL iaio qk d [32] (kx :: xs)
    else if pO then [] :: fieldsL iaio qk d (rep d indent) (kx :: xs)
    else fieldsL iaio qk d (rep d indent) (kx :: xs)
/-- the lines of the items of an array at depth `d` -/
def seqL (iaio qk : Bool) (d : Nat) : List JVal → List Str
  | [] => []
  | x :: xs => prependTo (rep d indent ++ [45]) (valL iaio qk (d + 1) true false x) ++ seqL iaio qk d xs
/-- the lines of the fields of an object at depth `d`; the first line starts with
    `pre`, the others with the indentation -/
def fieldsL (iaio qk : Bool) (d : Nat) (pre : Str) : List (Str × JVal) → List Str
  | [] => []
  | (k, x) :: xs =>
    prependTo (pre ++ (yamlKey qk k ++ [58])) (valL iaio qk (d + 1) false true x) ++
      fieldsL iaio qk d (rep d indent) xs
end

/-! ### `joinNl` -/

theorem joinNl_cons (l : Str) (ls : List Str) : joinNl (l :: ls) = l ++ (nlAfter ls ++ joinNl ls) := by
  cases ls with
  | nil => simp [joinNl, nlAfter]
  | cons m ms => simp [joinNl, nlAfter]

theorem joinNl_prependTo (p : Str) (L : List Str) : joinNl (prependTo p L) = p ++ joinNl L := by
  cases L with
  | nil => simp [prependTo, joinNl]
  | cons l ls => rw [prependTo, joinNl_cons, joinNl_cons, List.append_assoc]

theorem nlAfter_append {α : Type} (A B : List α) (h : A ≠ []) : nlAfter (A ++ B) = [10] := by
  cases A with
  | nil => exact absurd rfl h
  | cons a A => rfl

theorem joinNl_append (A B : List Str) (h : A ≠ []) : joinNl (A ++ B) = joinNl A ++ (nlAfter B ++ joinNl B) := by
  induction A with
  | nil => exact absurd rfl h
  | cons a A ih =>
    cases A with
    | nil => rw [List.singleton_append, joinNl_cons]; simp [joinNl]
    | cons a' A' =>
      rw [List.cons_append, joinNl_cons, ih (by simp), joinNl_cons (l := a)]
      simp [nlAfter]

theorem prependTo_ne_nil (p : Str) (L : List Str) : prependTo p L ≠ [] := by
  cases L <;> simp [prependTo]

theorem prependTo_append (p q : Str) (L : List Str) : prependTo (p ++ q) L = prependTo p (prependTo q L) := by
  cases L <;> simp [prependTo]

theorem prependTo_app (p : Str) (A B : List Str) (h : A ≠ []) : prependTo p (A ++ B) = prependTo p A ++ B := by
  cases A with
  | nil => exact absurd rfl h
  | cons a A => rfl

/-- a prefix of the first line's prefix can be put in front afterwards -/
theorem fieldsL_pre (iaio qk : Bool) (d : Nat) (p q : Str) (kx : Str × JVal) (xs : List (Str × JVal)) :
    fieldsL iaio qk d (p ++ q) (kx :: xs) = prependTo p (fieldsL iaio qk d q (kx :: xs)) := by
  obtain ⟨k, x⟩ := kx
  rw [fieldsL, fieldsL, List.append_assoc, prependTo_append, prependTo_app _ _ _ (prependTo_ne_nil _ _)]

theorem seqL_ne_nil (iaio qk : Bool) (d : Nat) (x : JVal) (xs : List JVal) : seqL iaio qk d (x :: xs) ≠ [] := by
  rw [seqL]; intro h
  exact prependTo_ne_nil _ _ (List.append_eq_nil_iff.mp h).1

theorem fieldsL_ne_nil (iaio qk : Bool) (d : Nat) (pre : Str) (kx : Str × JVal) (xs : List (Str × JVal)) :
    fieldsL iaio qk d pre (kx :: xs) ≠ [] := by
  obtain ⟨k, x⟩ := kx
  rw [fieldsL]; intro h
  exact prependTo_ne_nil _ _ (List.append_eq_nil_iff.mp h).1

theorem nlAfter_seqL (iaio qk : Bool) (d : Nat) (xs : List JVal) : nlAfter (seqL iaio qk d xs) = nlAfter xs := by
  cases xs with
  | nil => simp [seqL, nlAfter]
  | cons x xs =>
    have := seqL_ne_nil iaio qk d x xs
    cases h : seqL iaio qk d (x :: xs) with
    | nil => exact absurd h this
    | cons _ _ => rfl

theorem nlAfter_fieldsL (iaio qk : Bool) (d : Nat) (pre : Str) (xs : List (Str × JVal)) :
    nlAfter (fieldsL iaio qk d pre xs) = nlAfter xs := by
  cases xs with
  | nil => simp [fieldsL, nlAfter]
  | cons x xs =>
    have := fieldsL_ne_nil iaio qk d pre x xs
    cases h : fieldsL iaio qk d pre (x :: xs) with
    | nil => exact absurd h this
    | cons _ _ => rfl

theorem blockLines_eq (sub : Nat) (ls : List Str) :
    blockLines sub ls = (ls.map (fun l => 10 :: (rep sub indent ++ l))).flatten := by
  induction ls with
  | nil => rfl
  | cons l ls ih => simp [blockLines, ih]

theorem joinNl_block (h : Str) (ls : List Str) (sub : Nat) :
    joinNl (h :: ls.map (fun l => rep sub indent ++ l)) = h ++ blockLines sub ls := by
  induction ls generalizing h with
  | nil => simp [joinNl, blockLines]
  | cons l ls ih =>
    rw [List.map_cons, joinNl_cons, nlAfter, blockLines, ih]
    simp

/-! ### the emitter writes exactly these lines -/

mutual
theorem manifestYaml_lines (iaio qk : Bool) (d : Nat) (pA pO : Bool) :
    (v : JVal) → manifestYaml iaio qk d pA pO v = joinNl (valL iaio qk d pA pO v)
  | .null => by simp [manifestYaml, valL, joinNl]
  | .bool true => by simp [manifestYaml, valL, joinNl]
  | .bool false => by simp [manifestYaml, valL, joinNl]
  | .num t => by simp [manifestYaml, valL, joinNl]
  | .str s => by
    rw [manifestYaml, valL, yamlString]
    cases stripSuffixNl s with
    | none => simp [joinNl]
    | some body =>
      simp only []
      rw [joinNl_block]
      simp
  | .arr [] => by simp [manifestYaml, valL, joinNl]
  | .arr (x :: xs) => by
    rw [manifestYaml, valL, yamlItems_lines iaio qk _ (x :: xs)]
    cases h : (pA || pO)
    · simp
    · have hne := seqL_ne_nil iaio qk (if pO && !iaio then d - 1 else d) x xs
      simp only [if_true, List.singleton_append]
      rw [joinNl_cons]
      cases hs : seqL iaio qk (if pO && !iaio then d - 1 else d) (x :: xs) with
      | nil => exact absurd hs hne
      | cons a b => simp [nlAfter]
  | .obj [] => by simp [manifestYaml, valL, joinNl]
  | .obj (kx :: xs) => by
    rw [manifestYaml, valL, yamlFields_lines iaio qk d pA (kx :: xs)]
    cases pA
    · cases pO
      · simp
      · have hne := fieldsL_ne_nil iaio qk d (rep d indent) kx xs
        simp only [Bool.false_eq_true, if_false, if_true]
        rw [joinNl_cons]
        cases hs : fieldsL iaio qk d (rep d indent) (kx :: xs) with
        | nil => exact absurd hs hne
        | cons a b => simp [nlAfter]
    · simp only [if_true]
      have := fieldsL_pre iaio qk d [32] [] kx xs
      rw [List.append_nil] at this
      rw [this, joinNl_prependTo]
theorem yamlItems_lines (iaio qk : Bool) (d : Nat) :
    (xs : List JVal) → yamlItems iaio qk d xs = joinNl (seqL iaio qk d xs)
  | [] => by simp [yamlItems, seqL, joinNl]
  | x :: xs => by
    rw [yamlItems, seqL, joinNl_append _ _ (prependTo_ne_nil _ _), joinNl_prependTo,
      manifestYaml_lines iaio qk (d + 1) true false x, yamlItems_lines iaio qk d xs, nlAfter_seqL]
    simp
theorem yamlFields_lines (iaio qk : Bool) (d : Nat) (skip : Bool) :
    (xs : List (Str × JVal)) →
      yamlFields iaio qk d skip xs = joinNl (fieldsL iaio qk d (if skip then [] else rep d indent) xs)
  | [] => by simp [yamlFields, fieldsL, joinNl]
  | (k, x) :: xs => by
    rw [yamlFields, fieldsL, joinNl_append _ _ (prependTo_ne_nil _ _), joinNl_prependTo,
      manifestYaml_lines iaio qk (d + 1) false true x]
    have := yamlFields_lines iaio qk d false xs
    simp only [Bool.false_eq_true, if_false] at this
    rw [this, nlAfter_fieldsL]
    cases skip <;> simp
end

end Rsj.Yaml
