import RsjProofs.EvalOnce
import RsjProofs.EvalEmbRewrite
/-!
  C04 on the evaluator model, rewrites at the root of a program, part 2: bookkeeping thunks of the
  rewritten program (reserved ids, the store order of RsjProofs/EvalOnce.lean), depth-shifted modes,
  and the rewrite `name` (`e ↦ local x = e; x`).
-/
set_option linter.unusedVariables false
set_option linter.unusedSectionVars false
namespace Rsj.Eval
open Rsj.Core

/-! ### general facts -/
section
variable [Mode]

/-- `ORel.bind` with access to the two intermediate outcomes -/
theorem ORel.bind' {α β γ δ : Type} {ρ : Emb} {ta tb : List String} {Q₁ : Emb → α → β → Prop}
    {Q : Emb → γ → δ → Prop} {x : M α} {y : M β} {f : α → M γ} {g : β → M δ} {a b : St}
    (h : ORel ρ ta tb Q₁ (x a) (y b))
    (h₂ : ∀ ρ' v w a' b', ρ ≤ ρ' → x a = some (.ok v, a') → y b = some (.ok w, b') → Sim ρ' ta tb a' b' →
      Q₁ ρ' v w → ORel ρ' ta tb Q (f v a') (g w b')) :
    ORel ρ ta tb Q ((x >>= f) a) ((y >>= g) b) := by
  rw [M_bind_app, M_bind_app]
  match hx : x a, h with
  | none, h =>
    rcases h with h | h
    · exact .inl h
    · rw [h]; exact .inr rfl
  | some (.ok v, a'), ⟨w, b', e, ρ', h1, h2, h3⟩ =>
    rw [e]
    exact ORel.weaken h1 (h₂ ρ' v w a' b' h1 hx e h2 h3)
  | some (.error e, a'), h =>
    rcases h with h | ⟨b', e', ρ', h1, h2⟩
    · exact .inl h
    · rw [e']; exact .inr ⟨b', rfl, ρ', h1, h2⟩

/-- a change of a reserved thunk of the right store keeps the stores related -/
theorem Sim.set_rsv {ρ : Emb} {ta tb : List String} {a b : St} (hs : Sim ρ ta tb a b) {t : Nat} (ht : t ∈ ρ.rsv)
    (x : TState) : Sim ρ ta tb a { b with thunks := b.thunks.setIfInBounds t x } where
  thunks := ⟨hs.thunks.inj, fun i k hik => by
    obtain ⟨u, v, h1, h2, h3⟩ := hs.thunks.cell i k hik
    have hne : k ≠ t := fun e => (hs.rsvok t ht).2 i (e ▸ hik)
    exact ⟨u, v, h1, by simpa [Array.getElem?_setIfInBounds, Ne.symm hne] using h2, h3⟩⟩
  envs := hs.envs
  objs := hs.objs
  funcs := hs.funcs
  traces := hs.traces
  wkcell := hs.wkcell
  rsvok := fun t' ht' => by simpa using hs.rsvok t' ht'

end

/-- the store order of RsjProofs/EvalOnce.lean: what any run does to a thunk in progress — nothing -/
theorem run_keeps_inProgress (cfg : Cfg) (n : Nat) (task : Task) (st st' : St) (r : Except Err Value)
    (h : run cfg n task st = some (r, st')) (t : Nat) (p : Pending)
    (ht : st.thunks[t]? = some (.inProgress p)) : st'.thunks[t]? = some (.inProgress p) := by
  have := sem_of_triple (fun st0 => run_spec cfg n task st0) st st (R_refl st)
  rw [h] at this
  obtain ⟨s', hs', hadv⟩ := (show R st st' from this).adv t _ ht
  simp only [Adv] at hadv
  rw [hs', hadv]

/-! ### administrative steps -/
section
variable [Mode]

/-- the expression is not a (parenthesised) literal or function: its thunk is created pending -/
def NotQuick (e : Expr) : Prop := (∀ ps b, stripParen e ≠ .func ps b) ∧ literalValue (stripParen e) = none

theorem newThunk_pending {e : Expr} (h : NotQuick e) (env : EId) :
    newThunk e env = allocThunk (.pending (.expr e env)) := by
  unfold newThunk
  split
  · rename_i ps b heq
    exact absurd heq (h.1 ps b)
  · split
    · rename_i v heq
      rw [h.2] at heq; cases heq
    · rfl

/-- `local x = dd; body` where `dd` is not quick: the store after the administrative steps -/
theorem run_eval_local1_pending (cfg : Cfg) (m : Nat) (x : String) (dd body : Expr) (hq : NotQuick dd) (env : EId)
    (d : Nat) (st : St) (cell : Env) (h : st.envs[env]? = some cell) :
    run cfg (m + 1) (.eval (wrapDL x dd body) env false d) st =
      run cfg m (.eval body st.envs.size false d)
        { st with
          deepest := max st.deepest d
          envs := (st.envs.push { parent := some env, vars := [], obj := cell.obj }).setIfInBounds st.envs.size
            { parent := some env, vars := [(x, st.thunks.size)], obj := cell.obj }
          thunks := st.thunks.push (.pending (.expr dd st.envs.size))
          runs := st.runs.push 0 } := by
  show stepN cfg (run cfg m) _ st = _
  unfold stepN wrapDL step
  simp only [Task.depth, bindsList, bindExpr]
  rw [M_bind_app, noteDepth_apply]
  simp only []
  rw [M_bind_app, getEnv_apply]
  simp only [h]
  rw [M_bind_app, allocEnv_apply]
  simp only []
  rw [M_bind_app, List.forIn_cons, M_bind_app, M_bind_app, newThunk_pending hq, allocThunk_apply]
  simp only [pure_app, List.forIn_nil, List.filter_nil, List.nil_append]
  have hlt : env < st.envs.size := by
    rcases Nat.lt_or_ge env st.envs.size with h' | h'
    · exact h'
    · simp [Array.getElem?_eq_none h'] at h
  rw [M_bind_app, getEnv_apply]
  simp only [Array.getElem?_push, Nat.ne_of_lt hlt, if_false, h]
  rw [M_bind_app, setEnv_apply]

theorem checkDepth_ok (cfg : Cfg) (d : Nat) (h : ¬ d > cfg.maxStack) (st : St) :
    checkDepth cfg d st = some (.ok ⟨⟩, st) := by
  unfold checkDepth
  rw [if_neg h]; rfl

/-- a variable bound to a pending thunk: the thunk is forced one level deeper -/
theorem run_eval_var_pending (cfg : Cfg) (m : Nat) (x : String) (env : EId) (tail : Bool) (d : Nat) (st : St)
    (t : TId) (p : Pending) (hv : lookupVar (st.envs.size + 1) st.envs env x = some t)
    (ht : st.thunks[t]? = some (.pending p)) (hd : ¬ d + 1 > cfg.maxStack) :
    run cfg (m + 2) (.eval (.var x) env tail d) st =
      (thunkBody cfg (run cfg m) p (d + 1) >>= fun v => finishThunk t v >>= fun _ => pure v)
        { st with deepest := max (max st.deepest d) (d + 1),
                  thunks := st.thunks.setIfInBounds t (.inProgress p),
                  runs := st.runs.modify t (· + 1) } := by
  show stepN cfg (run cfg (m + 1)) _ st = _
  unfold stepN step
  simp only [Task.depth]
  rw [M_bind_app, noteDepth_apply]
  simp only []
  rw [M_bind_app, getVar_apply]
  simp only [hv]
  have key : ∀ st1 : St, st1.thunks = st.thunks → st1.runs = st.runs → st1 = { st with deepest := st1.deepest } →
      (checkDepth cfg (d + 1) >>= fun _ => run cfg (m + 1) (.force t (d + 1))) st1 =
      (thunkBody cfg (run cfg m) p (d + 1) >>= fun v => finishThunk t v >>= fun _ => pure v)
        { st with deepest := max st1.deepest (d + 1),
                  thunks := st.thunks.setIfInBounds t (.inProgress p),
                  runs := st.runs.modify t (· + 1) } := by
    intro st1 h1 h2 h3
    rw [M_bind_app, checkDepth_ok cfg (d + 1) hd]
    simp only []
    rw [run_force_pending cfg m t (d + 1) st1 p (by rw [h1]; exact ht)]
    rw [h3]
  split
  · exact key _ rfl rfl rfl
  · unfold wantThunk
    rw [M_bind_app, getThunk_apply]
    simp only [ht]
    exact key _ rfl rfl rfl

end
end Rsj.Eval

/-! ### C04: naming the root expression with a local (`e ↦ local x = e; x`) -/
namespace Rsj.Eval
open Rsj.Core

/-- the comparison used for C04 with the right program `c` trace items deeper -/
@[reducible] def Mode.c04s (c : Nat) : Mode :=
  ⟨fun e => e = .stackOverflow ∨ e = .internal "variable not found", True, c, True⟩

@[reducible] def Mode.c041 : Mode := Mode.c04s 1

/-- related stores do not depend on the depth shift of the mode -/
theorem Sim.c04s {c c' : Nat} {ρ : Emb} {ta tb : List String} {a b : St}
    (h : @Sim (Mode.c04s c) ρ ta tb a b) : @Sim (Mode.c04s c') ρ ta tb a b := by
  have ht := @Sim.thunks (Mode.c04s c) _ _ _ _ _ h
  refine @Sim.mk (Mode.c04s c') ρ ta tb a b ⟨ht.inj, fun i k hik => ?_⟩
    (@Sim.envs (Mode.c04s c) _ _ _ _ _ h) (@Sim.objs (Mode.c04s c) _ _ _ _ _ h)
    (@Sim.funcs (Mode.c04s c) _ _ _ _ _ h) (@Sim.traces (Mode.c04s c) _ _ _ _ _ h)
    (@Sim.wkcell (Mode.c04s c) _ _ _ _ _ h) (@Sim.rsvok (Mode.c04s c) _ _ _ _ _ h)
  obtain ⟨u, v, h1, h2, h3⟩ := ht.cell i k hik
  refine ⟨u, v, h1, h2, ?_⟩
  cases h3 with
  | pending hp => exact @RTState.pending (Mode.c04s c') ρ _ _ hp
  | inProgress hp => exact @RTState.inProgress (Mode.c04s c') ρ _ _ hp
  | inProgressLoose hp => exact @RTState.inProgressLoose (Mode.c04s c') ρ _ _ trivial
  | done hv => exact @RTState.done (Mode.c04s c') ρ _ _ hv

theorem ORel.c04s {α β : Type} {c c' : Nat} {ρ : Emb} {ta tb : List String} {Q : Emb → α → β → Prop}
    {r : Option (Except Err α × St)} {r' : Option (Except Err β × St)}
    (h : @ORel (Mode.c04s c) α β ρ ta tb Q r r') : @ORel (Mode.c04s c') α β ρ ta tb Q r r' := by
  match r, h with
  | none, h => exact h
  | some (.ok v, a'), ⟨w, b', e, ρ', h1, h2, h3⟩ => exact ⟨w, b', e, ρ', h1, Sim.c04s h2, h3⟩
  | some (.error e, a'), h =>
    rcases h with h | ⟨b', e', ρ', h1, h2⟩
    · exact .inl h
    · exact .inr ⟨b', e', ρ', h1, Sim.c04s h2⟩

/-- deep evaluation and manifestation of related values (no depth shift) -/
theorem request_tail_rel (cfg cfg' : Cfg) (hms : cfg.maxStack ≤ cfg'.maxStack) (n n' : Nat) (hn : n ≤ n')
    {ρ : Emb} {v w : Value} (hvw : RVal ρ v w) :
    @MRel (Mode.c04s 0) _ _ ρ REq
      (do let _ ← run cfg n (.deep v 0)
          match ← run cfg n (.manifest v 0 true) with
          | .str s => pure s
          | _ => throw (.internal "manifest did not return a string"))
      (do let _ ← run cfg' n' (.deep w 0)
          match ← run cfg' n' (.manifest w 0 true) with
          | .str s => pure s
          | _ => throw (.internal "manifest did not return a string")) := by
  letI : Mode := Mode.c04s 0
  haveI : RCfg cfg cfg' := ⟨by show cfg.maxStack + 0 ≤ _; omega, fun h => absurd (.inl rfl) h⟩
  mbind (run_rel_le cfg cfg' n n' hn (.inr trivial) _ _ _ (.deep 0 hvw)) with u u' hu
  mbind (run_rel_le cfg cfg' n n' hn (.inr trivial) _ _ _ (.manifest 0 true hvw)) with s s' hs
  cases hs <;> first | exact MRel_throw rfl | exact MRel_pure rfl

section Name
attribute [local instance] Mode.c041

def embName (x : String) : Emb where
  tm := fun i => if i = 0 then some 0 else if i = 1 then some 1 else none
  em := fun i => if i = 0 then some 1 else none
  om := fun _ => none
  fm := fun _ => none
  wk := some ⟨x, 0, rootCell⟩
  rsv := [2]

theorem force_root_name (cfg cfg' : Cfg) [RCfg cfg cfg'] (k k' : Nat) (hk : k ≤ k') (x : String) (e : Expr)
    (hx : x ≠ "std") (hq : NotQuick e) :
    ORel (embName x) [] [] RVal (run cfg (k + 1) (.force 1 0) (freshStore e))
      (run cfg' (k' + 4) (.force 1 0) (freshStore (wrapDL x e (.var x)))) := by
  have hms : ¬ 0 + 1 > cfg'.maxStack := by
    have := (inferInstance : RCfg cfg cfg').le
    show ¬ 0 + 1 > cfg'.maxStack
    have h1 : cfg.maxStack + 1 ≤ cfg'.maxStack := this
    omega
  rw [run_force_pending cfg k 1 0 (freshStore e) (.expr e 0) rfl,
    run_force_pending cfg' (k' + 3) 1 0 (freshStore (wrapDL x e (.var x))) (.expr (wrapDL x e (.var x)) 0) rfl]
  simp only [thunkBody_expr]
  -- the stores of the right program during the administrative steps
  let e' := wrapDL x e (.var x)
  let B1 : St := { thunks := #[.done .null, .inProgress (.expr e' 0)], envs := #[rootCell], runs := #[0, 1] }
  let B2 : St := { thunks := #[.done .null, .inProgress (.expr e' 0), .pending (.expr e 1)]
                   envs := #[rootCell, { parent := some 0, vars := [(x, 2)], obj := none }], runs := #[0, 1, 0] }
  let B3 : St := { thunks := #[.done .null, .inProgress (.expr e' 0), .inProgress (.expr e 1)]
                   envs := #[rootCell, { parent := some 0, vars := [(x, 2)], obj := none }], runs := #[0, 1, 1],
                   deepest := 1 }
  have e1 : ({ freshStore e' with
      deepest := max (freshStore e').deepest 0,
      thunks := (freshStore e').thunks.setIfInBounds 1 (.inProgress (.expr e' 0)),
      runs := (freshStore e').runs.modify 1 (· + 1) } : St) = B1 := rfl
  have e2 : run cfg' (k' + 3) (.eval e' 0 false 0) B1 = run cfg' (k' + 2) (.eval (.var x) 1 false 0) B2 := by
    rw [run_eval_local1_pending cfg' (k' + 2) x e (.var x) hq 0 0 B1 rootCell rfl]
    rfl
  have e3 : run cfg' (k' + 2) (.eval (.var x) 1 false 0) B2 =
      (run cfg' k' (.eval e 1 false 1) >>= fun v => finishThunk 2 v >>= fun _ => pure v) B3 := by
    rw [run_eval_var_pending cfg' k' x 1 false 0 B2 2 (.expr e 1) (by simp [lookupVar, B2]) rfl hms]
    rfl
  have hright : ∀ G : Value → M Value,
      (run cfg' (k' + 3) (.eval e' 0 false 0) >>= G) B1 =
      (run cfg' k' (.eval e 1 false 1) >>= fun v => (finishThunk 2 v >>= fun _ => pure v) >>= G) B3 := by
    intro G
    rw [M_bind_app, e2, e3, ← M_bind_app, bind_assoc]
  rw [e1, hright]
  have he01 : RE (embName x) 0 1 := rfl
  refine ORel.bind' (run_rel_le cfg cfg' k k' hk (.inr trivial) (embName x) _ _
    (.eval e false 0 he01) [] [] _ B3 ?_) ?_
  · -- the stores after the administrative steps are related
    refine {
      thunks := ⟨fun i j k hi hj => ?_, fun i k hik => ?_⟩
      envs := ⟨fun i j k hi hj => ?_, fun i k hik => ?_⟩
      objs := ⟨fun i j k hi _ => (by cases hi), fun i k hik => (by cases hik)⟩
      funcs := ⟨fun i j k hi _ => (by cases hi), fun i k hik => (by cases hik)⟩
      traces := ⟨[], rfl, rfl⟩
      wkcell := fun w hw => ?_
      rsvok := fun t ht => ?_ }
    · simp only [embName] at hi hj
      split at hi <;> split at hj <;> (try split at hi) <;> (try split at hj) <;> simp_all <;> omega
    · simp only [embName] at hik
      split at hik
      · cases hik; subst_vars
        exact ⟨.done .null, .done .null, rfl, rfl, .done .null⟩
      · split at hik
        · cases hik; subst_vars
          exact ⟨.inProgress (.expr e 0), .inProgress (.expr e' 0), rfl, rfl, .inProgressLoose trivial⟩
        · cases hik
    · simp only [embName] at hi hj
      split at hi <;> split at hj <;> simp_all
    · simp only [embName] at hik
      split at hik
      · cases hik; subst_vars
        refine ⟨_, _, rfl, rfl, .inr ⟨⟨x, 0, rootCell⟩, 2, rfl, rfl, rfl, .none, ?_, rfl, ?_⟩⟩
        · exact ⟨.none, .cons ⟨rfl, rfl⟩ .nil, .none⟩
        · intro p hp
          simp [freshStore] at hp
          subst hp
          exact fun h => hx h.symm
      · cases hik
    · cases hw
      refine ⟨rfl, fun j => ?_, .inr rfl⟩
      simp only [embName]
      split <;> simp
    · simp only [embName, List.mem_singleton] at ht
      subst ht
      refine ⟨by show 2 < 3; omega, fun j => ?_⟩
      simp only [embName]
      split
      · simp
      · split <;> simp
  · -- after the value of `e`: the alias thunk and then the root thunk are finished
    intro ρ' v w a' b' hle hl hr hs hvw
    have h2 : b'.thunks[2]? = some (.inProgress (.expr e 1)) :=
      run_keeps_inProgress cfg' k' _ B3 b' _ hr 2 _ rfl
    have hrsv : 2 ∈ ρ'.rsv := by rw [hle.rsv]; simp [embName]
    have ht : RT ρ' 1 1 := hle.t 1 1 rfl
    rw [bind_assoc, M_bind_app (finishThunk 2 w), finishThunk_app, h2]
    simp only [pure_bind]
    exact (MRel_bind (finishThunk_rel ht hvw) (fun ρ'' hle' _ _ _ => MRel_pure (Mono.mono hle' hvw)))
      [] [] a' _ (hs.set_rsv hrsv (.done w))

theorem requestProg_root_name (cfg cfg' : Cfg) [RCfg cfg cfg'] (k k' : Nat) (hk : k ≤ k') (x : String) (e : Expr)
    (hx : x ≠ "std") (hq : NotQuick e) :
    ORel (embName x) [] [] REq (requestProg cfg (k + 1) 1 (freshStore e))
      (requestProg cfg' (k' + 4) 1 (freshStore (wrapDL x e (.var x)))) := by
  unfold requestProg
  refine ORel.bind' (force_root_name cfg cfg' k k' hk x e hx hq) ?_
  intro ρ' v w a' b' hle _ _ hs hvw
  have hms : cfg.maxStack ≤ cfg'.maxStack := by
    have h1 : cfg.maxStack + 1 ≤ cfg'.maxStack := (inferInstance : RCfg cfg cfg').le
    omega
  exact ORel.c04s (request_tail_rel cfg cfg' hms (k + 1) (k' + 4) (by omega) hvw [] [] a' b' (Sim.c04s hs))

end Name
/-- from related requests to equal program outcomes (answer text and trace output) -/
theorem evalP_eq_of_ORel {c : Nat} {ρ : Emb} {ms ms' fuel fuel' : Nat} {e e' : Expr}
    (h : @ORel (Mode.c04s c) _ _ ρ [] [] REq (requestProg ⟨ms⟩ fuel 1 (freshStore e))
      (requestProg ⟨ms'⟩ fuel' 1 (freshStore e')))
    (h1 : (evalP ms fuel e).1 ≠ "gas") (h2 : (evalP ms fuel e).1 ≠ showErr .stackOverflow)
    (h3 : (evalP ms fuel e).1 ≠ showErr (.internal "variable not found")) :
    evalP ms' fuel' e' = evalP ms fuel e := by
  rw [evalP_eq] at h1 h2 h3 ⊢
  rw [evalP_eq]
  match hl : requestProg ⟨ms⟩ fuel 1 (freshStore e), h with
  | none, _ => rw [hl] at h1; exact absurd rfl h1
  | some (.ok s, a'), ⟨w, b', e1, ρ', _, h5, h6⟩ =>
    obtain ⟨new, t1, t2⟩ := @Sim.traces (Mode.c04s c) _ _ _ _ _ h5
    cases h6
    rw [e1]
    simp only [t1, t2]
  | some (.error er, a'), h =>
    rw [hl] at h2 h3
    rcases h with h | ⟨b', e1, ρ', _, h5⟩
    · rcases h with h | h
      · subst h; exact absurd rfl h2
      · subst h; exact absurd rfl h3
    · obtain ⟨new, t1, t2⟩ := @Sim.traces (Mode.c04s c) _ _ _ _ _ h5
      rw [e1]
      simp only [t1, t2]

/-- **C04, naming the root expression** (`e ↦ local x = e; x`), for an `e` that is not a parenthesised
    literal or function -/
theorem name_root_notQuick (x : String) (e : Expr) (hx : x ≠ "std") (hq : NotQuick e) (ms fuel : Nat)
    (h1 : (evalP ms fuel e).1 ≠ "gas") (h2 : (evalP ms fuel e).1 ≠ showErr .stackOverflow)
    (h3 : (evalP ms fuel e).1 ≠ showErr (.internal "variable not found")) :
    ∀ ms' fuel', ms + 1 ≤ ms' → fuel + 3 ≤ fuel' → evalP ms' fuel' (wrapDL x e (.var x)) = evalP ms fuel e := by
  intro ms' fuel' hms hf
  cases fuel with
  | zero => exact absurd (by rw [evalP_eq]; rfl) h1
  | succ k =>
    obtain ⟨k', rfl⟩ : ∃ k', fuel' = k' + 4 := ⟨fuel' - 4, by omega⟩
    letI : Mode := Mode.c041
    haveI : RCfg ⟨ms⟩ ⟨ms'⟩ := ⟨hms, fun h => absurd (.inl rfl) h⟩
    exact evalP_eq_of_ORel (c := 1) (requestProg_root_name ⟨ms⟩ ⟨ms'⟩ k k' (by omega) x e hx hq) h1 h2 h3

/-! ### the limits: more fuel and a larger stack limit never change an outcome -/

/-- the identity embedding of the fresh store of a program into itself -/
def embFresh : Emb where
  tm := fun i => if i = 0 then some 0 else if i = 1 then some 1 else none
  em := fun i => if i = 0 then some 0 else none
  om := fun _ => none
  fm := fun _ => none

theorem sim_fresh_self (e : Expr) : @Sim (Mode.c04s 0) embFresh [] [] (freshStore e) (freshStore e) := by
  letI : Mode := Mode.c04s 0
  refine {
    thunks := ⟨fun i j k hi hj => ?_, fun i k hik => ?_⟩
    envs := ⟨fun i j k hi hj => ?_, fun i k hik => ?_⟩
    objs := ⟨fun i j k hi _ => (by cases hi), fun i k hik => (by cases hik)⟩
    funcs := ⟨fun i j k hi _ => (by cases hi), fun i k hik => (by cases hik)⟩
    traces := ⟨[], rfl, rfl⟩
    wkcell := fun w hw => (by cases hw)
    rsvok := fun t ht => (by cases ht) }
  · simp only [embFresh] at hi hj
    split at hi <;> split at hj <;> (try split at hi) <;> (try split at hj) <;> simp_all <;> omega
  · simp only [embFresh] at hik
    split at hik
    · cases hik; subst_vars
      exact ⟨.done .null, .done .null, rfl, rfl, .done .null⟩
    · split at hik
      · cases hik; subst_vars
        exact ⟨.pending (.expr e 0), .pending (.expr e 0), rfl, rfl, .pending (.expr e rfl)⟩
      · cases hik
  · simp only [embFresh] at hi hj
    split at hi <;> split at hj <;> simp_all
  · simp only [embFresh] at hik
    split at hik
    · cases hik; subst_vars
      exact ⟨_, _, rfl, rfl, .inl ⟨.none, .cons ⟨rfl, rfl⟩ .nil, .none⟩⟩
    · cases hik

/-- **Monotonicity in both limits.**  If a program has an outcome other than out-of-fuel, StackOverflow
    (and the panic "variable not found"), it has exactly this outcome — answer text and trace output — for
    every larger fuel and every larger stack limit. -/
theorem limits_monotone (e : Expr) (ms fuel : Nat)
    (h1 : (evalP ms fuel e).1 ≠ "gas") (h2 : (evalP ms fuel e).1 ≠ showErr .stackOverflow)
    (h3 : (evalP ms fuel e).1 ≠ showErr (.internal "variable not found")) :
    ∀ ms' fuel', ms ≤ ms' → fuel ≤ fuel' → evalP ms' fuel' e = evalP ms fuel e := by
  intro ms' fuel' hms hf
  letI : Mode := Mode.c04s 0
  haveI : RCfg ⟨ms⟩ ⟨ms'⟩ := ⟨by show ms + 0 ≤ ms'; omega, fun h => absurd (.inl rfl) h⟩
  have h := requestProg_rel_le (ρ := embFresh) rfl ⟨ms⟩ ⟨ms'⟩ hf (.inr trivial) (t := 1) (t' := 1) rfl
    [] [] _ _ (sim_fresh_self e)
  exact evalP_eq_of_ORel (c := 0) h h1 h2 h3

end Rsj.Eval
