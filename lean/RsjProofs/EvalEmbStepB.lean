import RsjProofs.EvalEmbStepA
/-!
  Store-embedding invariance of the evaluator, one theorem per branch of `step` (part B):
  the tasks `equals` and `compare`, and the expression forms `null true_ false_ num str paren self_
  dollar object objectComp array arrayComp field index slice` of the task `eval`.
-/
set_option linter.unusedVariables false
set_option linter.unusedSectionVars false
namespace Rsj.Eval
open Rsj.Core
variable [Mode]

private theorem ROpt.isNone_eq {α β : Type} {R : Emb → α → β → Prop} {ρ : Emb} {a : Option α} {b : Option β}
    (h : ROpt R ρ a b) : a.isNone = b.isNone := by
  cases h <;> rfl

section
variable {cfg cfg' : Cfg} [RCfg cfg cfg'] {rec rec' : Task → M Value} (hrec : RecRel rec rec')
include hrec

/-! ### the tasks `equals` and `compare` -/


theorem step_equals_rel {ρ : Emb} {a a' b b' : Value} (d : Nat) {d' : Nat} (ha : RVal ρ a a') (hb : RVal ρ b b') (hd : RDep d d' := by rdep) :
    MRel ρ RVal (step cfg rec (.equals a b d)) (step cfg' rec' (.equals a' b' d')) := by
  cases ha <;> cases hb <;> unfold step <;> mnorm <;> first | exact MRel_pure (.bool _) | exact MRel_throw rfl | skip
  · rename_i xs xs' hxs ys ys' hys
    rw [hxs.length_eq, hys.length_eq]
    split
    · exact MRel_pure (.bool _)
    · refine MRel_bind (Q₁ := RProd (ROpt RVal) RTrue) ?_ ?_
      · refine MRel_forIn (RProd RT RT) _ (RList.zip hxs hys) ⟨.none, trivial⟩ ?_
        intro ρ' hle p p' acc acc' _ _ hp hacc
        mbind (checkDepth_rel _ _) with u u' hu
        mbind (hrec _ _ _ (.force _ hp.1)) with xv xv' hxv
        mbind (hrec _ _ _ (.force _ hp.2)) with yv yv' hyv
        mbind (hrec _ _ _ (.equals _ hxv hyv)) with r r' hr
        cases hr <;> try simp only []
        all_goals first | exact MRel_pure (.done ⟨.some (.bool _), trivial⟩) | skip
        rename_i bb
        cases bb
        · exact MRel_pure (.done ⟨.some (.bool _), trivial⟩)
        · exact MRel_pure (.yield ⟨.none, trivial⟩)
      · mcont s s' hs
        gcases hs.1
        · exact MRel_pure (.bool _)
        · exact MRel_pure ‹_›
  · rename_i x x' hx y y' hy
    mbind (getObj_rel hx) with ox ox' hox
    mbind (getObj_rel hy) with oy oy' hoy
    rw [visibleFields_rel hox, visibleFields_rel hoy]
    split
    · exact MRel_pure (.bool _)
    · refine MRel_bind (Q₁ := RProd (ROpt RVal) REq) ?_ ?_
      · mfor (RProd (ROpt RVal) REq) with acc acc' hacc name hname
        · exact ⟨.none, rfl⟩
        · mbind (checkDepth_rel _ _) with u u' hu
          mjp (RArrow (@RTrue Unit Unit) (RArrow (@REq Bool) (RM (RStep (RProd (ROpt RVal) (@REq Bool))))))
          · mcont r r' hr
            mcont first first' hfirst
            cases hfirst
            show MRel _ _ _ _
            mbind (fieldThunk_rel 0 name hx) with xt xt' hxt
            cases hxt
            · exact MRel_throw rfl
            · rename_i xt xt' hxt
              simp only []
              mbind (fieldThunk_rel 0 name hy) with yt yt' hyt
              cases hyt
              · exact MRel_throw rfl
              · rename_i yt yt' hyt
                simp only []
                mbind (hrec _ _ _ (.force _ hxt)) with xv xv' hxv
                mbind (hrec _ _ _ (.force _ hyt)) with yv yv' hyv
                mbind (hrec _ _ _ (.equals _ hxv hyv)) with r r' hr
                cases hr <;> try simp only []
                all_goals first | exact MRel_pure (.done ⟨.some (.bool _), rfl⟩) | skip
                rename_i bb
                cases bb
                · exact MRel_pure (.done ⟨.some (.bool _), rfl⟩)
                · exact MRel_pure (.yield ⟨.none, rfl⟩)
          · intro jp jp' hjp
            have hs : acc.2 = acc'.2 := hacc.2
            rw [hs]
            split
            · mbind (hrec _ _ _ (.asserts _ hx)) with a1 a1' ha1
              mbind (hrec _ _ _ (.asserts _ hy)) with a2 a2' ha2
              exact (hjp _ (Emb.le_refl _) () () trivial).app rfl
            · exact (hjp _ (Emb.le_refl _) () () trivial).app rfl
      · mcont s s' hs
        gcases hs.1
        · exact MRel_pure (.bool _)
        · exact MRel_pure ‹_›


theorem step_compare_rel {ρ : Emb} {a a' b b' : Value} (d : Nat) {d' : Nat} (ha : RVal ρ a a') (hb : RVal ρ b b') (hd : RDep d d' := by rdep) :
    MRel ρ RVal (step cfg rec (.compare a b d)) (step cfg' rec' (.compare a' b' d')) := by
  cases ha <;> cases hb <;> unfold step <;> mnorm <;> first | exact MRel_throw rfl | skip
  · repeat' split
    all_goals first | exact MRel_pure (.num _) | exact MRel_throw rfl
  · refine MRel_pure ?_
    split <;> exact .num _
  · exact compareLists_rel hrec d ‹_› ‹_›

/-! ### `eval`: literals, parentheses, `self`, `$` -/


theorem step_eval_null_rel {ρ : Emb} {env env' : EId} (tail : Bool) {tail' : Bool} (d : Nat) {d' : Nat} (he : RE ρ env env') (hd : RDep d d' := by rdep) :
    MRel ρ RVal (step cfg rec (.eval .null env tail d)) (step cfg' rec' (.eval .null env' tail' d')) := by
  unfold step
  exact MRel_pure .null

theorem step_eval_true_rel {ρ : Emb} {env env' : EId} (tail : Bool) {tail' : Bool} (d : Nat) {d' : Nat} (he : RE ρ env env') (hd : RDep d d' := by rdep) :
    MRel ρ RVal (step cfg rec (.eval .true_ env tail d)) (step cfg' rec' (.eval .true_ env' tail' d')) := by
  unfold step
  exact MRel_pure (.bool _)

theorem step_eval_false_rel {ρ : Emb} {env env' : EId} (tail : Bool) {tail' : Bool} (d : Nat) {d' : Nat} (he : RE ρ env env') (hd : RDep d d' := by rdep) :
    MRel ρ RVal (step cfg rec (.eval .false_ env tail d)) (step cfg' rec' (.eval .false_ env' tail' d')) := by
  unfold step
  exact MRel_pure (.bool _)

theorem step_eval_num_rel {ρ : Emb} {env env' : EId} (f : Float) (tail : Bool) {tail' : Bool} (d : Nat) {d' : Nat} (he : RE ρ env env') (hd : RDep d d' := by rdep) :
    MRel ρ RVal (step cfg rec (.eval (.num f) env tail d)) (step cfg' rec' (.eval (.num f) env' tail' d')) := by
  unfold step
  mnorm
  mbind (checkNum_rel f) with u u' hu
  exact MRel_pure (.num _)

theorem step_eval_str_rel {ρ : Emb} {env env' : EId} (s : String) (tail : Bool) {tail' : Bool} (d : Nat) {d' : Nat} (he : RE ρ env env') (hd : RDep d d' := by rdep) :
    MRel ρ RVal (step cfg rec (.eval (.str s) env tail d)) (step cfg' rec' (.eval (.str s) env' tail' d')) := by
  unfold step
  exact MRel_pure (.str _)

theorem step_eval_paren_rel {ρ : Emb} {env env' : EId} (e : Expr) (tail : Bool) {tail' : Bool} (d : Nat) {d' : Nat} (he : RE ρ env env') (hd : RDep d d' := by rdep) :
    MRel ρ RVal (step cfg rec (.eval (.paren e) env tail d)) (step cfg' rec' (.eval (.paren e) env' tail' d')) := by
  unfold step
  exact hrec _ _ _ (.eval _ _ _ he)

theorem step_eval_self_rel {ρ : Emb} {env env' : EId} (tail : Bool) {tail' : Bool} (d : Nat) {d' : Nat} (he : RE ρ env env') (hd : RDep d d' := by rdep) :
    MRel ρ RVal (step cfg rec (.eval .self_ env tail d)) (step cfg' rec' (.eval .self_ env' tail' d')) := by
  unfold step
  mnorm
  mbind (getObjRef_rel he) with r r' hr
  exact MRel_pure (.obj hr.obj)

theorem step_eval_dollar_rel {ρ : Emb} {env env' : EId} (tail : Bool) {tail' : Bool} (d : Nat) {d' : Nat} (he : RE ρ env env') (hd : RDep d d' := by rdep) :
    MRel ρ RVal (step cfg rec (.eval .dollar env tail d)) (step cfg' rec' (.eval .dollar env' tail' d')) := by
  unfold step
  mnorm
  mbind (getObjRef_rel he) with r r' hr
  exact MRel_pure (.obj hr.top)

/-! ### `eval`: object and array literals and comprehensions -/



theorem step_eval_object_rel {ρ : Emb} {env env' : EId} (ms : Members) (tail : Bool) {tail' : Bool} (d : Nat) {d' : Nat} (he : RE ρ env env') (hd : RDep d d' := by rdep) :
    MRel ρ RVal (step cfg rec (.eval (.object ms) env tail d)) (step cfg' rec' (.eval (.object ms) env' tail' d')) := by
  unfold step
  mnorm
  mbind (getEnv_rel he) with s s' hs
  have hiso : s.obj.isNone = s'.obj.isNone := hs.obj.isNone_eq
  rw [hiso]
  refine MRel_bind (Q₁ := RLayer) ?_ ?_
  · mfor RLayer with layer layer' hlayer m hm
    · exact ⟨rfl, rfl, .some he, .none, .nil, rfl⟩
    · mbind (objectMember_rel hrec d m he hlayer) with l l' hl
      exact MRel_pure (.yield hl)
  · mcont layer layer' hlayer
    mbind (allocObj_rel ⟨.cons hlayer .nil, rfl, rfl⟩) with o o' ho
    exact MRel_pure (.obj ho)

theorem step_eval_array_rel {ρ : Emb} {env env' : EId} (items : Exprs) (tail : Bool) {tail' : Bool} (d : Nat) {d' : Nat} (he : RE ρ env env') (hd : RDep d d' := by rdep) :
    MRel ρ RVal (step cfg rec (.eval (.array items) env tail d)) (step cfg' rec' (.eval (.array items) env' tail' d')) := by
  unfold step
  mnorm
  refine MRel_bind (Q₁ := RList RT) ?_ ?_
  · mfor (RList RT) with acc acc' hacc it hit
    · exact .nil
    · mbind (newThunk_rel it he) with t t' ht
      exact MRel_pure (.yield (hacc.snoc ht))
  · mcont ts ts' hts
    exact MRel_pure (.arr hts)

theorem step_eval_arrayComp_rel {ρ : Emb} {env env' : EId} (body : Expr) (spec : Specs) (tail : Bool) {tail' : Bool} (d : Nat) {d' : Nat} (he : RE ρ env env') (hd : RDep d d' := by rdep) :
    MRel ρ RVal (step cfg rec (.eval (.arrayComp body spec) env tail d)) (step cfg' rec' (.eval (.arrayComp body spec) env' tail' d')) := by
  unfold step
  mnorm
  mbind (evalSpecs_rel hrec _ d he) with sets sets' hsets
  refine MRel_bind (Q₁ := RList RT) ?_ ?_
  · refine MRel_forIn RVars _ hsets .nil ?_
    intro ρ' hle vars vars' acc acc' _ _ hvars hacc
    lift_hyps hle
    mbind (newEnv_rel (.some he) hvars) with ienv ienv' hienv
    mbind (newThunk_rel body hienv) with t t' ht
    exact MRel_pure (.yield (hacc.snoc ht))
  · mcont ts ts' hts
    exact MRel_pure (.arr hts)

theorem step_eval_objectComp_rel {ρ : Emb} {env env' : EId} (locals : Binds) (name : Expr) (plus : Bool) (body : Expr) (spec : Specs)
    (tail : Bool) {tail' : Bool} (d : Nat) {d' : Nat} (he : RE ρ env env') (hd : RDep d d' := by rdep) :
    MRel ρ RVal (step cfg rec (.eval (.objectComp locals name plus body spec) env tail d))
      (step cfg' rec' (.eval (.objectComp locals name plus body spec) env' tail' d')) := by
  unfold step
  mnorm
  mbind (getEnv_rel he) with s s' hs
  have hiso : s.obj.isNone = s'.obj.isNone := hs.obj.isNone_eq
  rw [hiso]
  mbind (evalSpecs_rel hrec _ d he) with sets sets' hsets
  refine MRel_bind (Q₁ := RLayer) ?_ ?_
  · refine MRel_forIn RVars _ hsets ⟨rfl, rfl, .none, .none, .nil, rfl⟩ ?_
    intro ρ' hle vars vars' layer layer' _ _ hvars hlayer
    lift_hyps hle
    mbind (newEnv_rel (.some he) hvars) with outer outer' houter
    mbind (hrec _ _ _ (.eval name false d houter)) with nv nv' hnv
    cases hnv <;> simp only []
    all_goals first | exact MRel_throw rfl | skip
    · exact MRel_pure (.yield hlayer)
    · mbind (addField_rel _ plus .default body hlayer (.some houter)) with l l' hl
      exact MRel_pure (.yield hl)
  · mcont layer layer' hlayer
    mbind (allocObj_rel ⟨.cons hlayer .nil, rfl, rfl⟩) with o o' ho
    exact MRel_pure (.obj ho)

/-! ### `eval`: field access, indexing, slices -/


theorem step_eval_field_rel {ρ : Emb} {env env' : EId} (oe : Expr) (name : String) (tail : Bool) {tail' : Bool} (d : Nat) {d' : Nat} (he : RE ρ env env') (hd : RDep d d' := by rdep) :
    MRel ρ RVal (step cfg rec (.eval (.field oe name) env tail d)) (step cfg' rec' (.eval (.field oe name) env' tail' d')) := by
  unfold step
  mnorm
  mbind (hrec _ _ _ (.eval oe false d he)) with ov ov' hov
  cases hov <;> simp only []
  all_goals first | exact MRel_throw rfl | skip
  exact wantField_rel hrec name d ‹_›

theorem step_eval_index_rel {ρ : Emb} {env env' : EId} (oe ie : Expr) (tail : Bool) {tail' : Bool} (d : Nat) {d' : Nat} (he : RE ρ env env') (hd : RDep d d' := by rdep) :
    MRel ρ RVal (step cfg rec (.eval (.index oe ie) env tail d)) (step cfg' rec' (.eval (.index oe ie) env' tail' d')) := by
  unfold step
  mnorm
  mbind (hrec _ _ _ (.eval oe false d he)) with ov ov' hov
  mbind (hrec _ _ _ (.eval ie false d he)) with iv iv' hiv
  cases hov <;> cases hiv <;> simp only [] <;> first | exact MRel_throw rfl | skip
  · split
    · split
      · exact MRel_pure (.str _)
      · exact MRel_throw rfl
    · exact MRel_throw rfl
  · rename_i xs xs' hxs f
    split
    · rename_i i _
      gcases (hxs.getElem? i)
      · simp only []
        rw [hxs.length_eq]
        exact MRel_throw rfl
      · exact wantThunk_rel hrec d ‹_›
    · exact MRel_throw rfl
  · exact wantField_rel hrec _ d ‹_›

theorem step_eval_slice_rel {ρ : Emb} {env env' : EId} (oe : Expr) (a b c : OptExpr) (tail : Bool) {tail' : Bool} (d : Nat) {d' : Nat} (he : RE ρ env env') (hd : RDep d d' := by rdep) :
    MRel ρ RVal (step cfg rec (.eval (.slice oe a b c) env tail d)) (step cfg' rec' (.eval (.slice oe a b c) env' tail' d')) := by
  unfold step
  mnorm
  mbind (hrec _ _ _ (.eval oe false d he)) with ov ov' hov
  mbind (sliceArg_rel hrec d a he) with av av' hav
  mbind (sliceArg_rel hrec d b he) with bv bv' hbv
  mbind (sliceArg_rel hrec d c he) with cv cv' hcv
  mbind (sliceNum_rel hav) with af af' haf
  cases haf
  mbind (sliceNum_rel hbv) with bf bf' hbf
  cases hbf
  mbind (sliceNum_rel hcv) with cf cf' hcf
  cases hcf
  cases hov <;> simp only [] <;> first | exact MRel_throw rfl | skip
  · mbind (sliceRange_rel _ af bf cf) with r r' hr
    cases hr
    exact MRel_pure (.str _)
  · rename_i xs xs' hxs
    rw [hxs.length_eq]
    mbind (sliceRange_rel _ af bf cf) with r r' hr
    cases hr
    exact MRel_pure (.arr (stepBy_rel ((hxs.drop _).take _) _))

end
end Rsj.Eval
