/-
  C15 print/parse, part 4: forward lemmas for atoms and the alternatives of `State::Primary`
  used by the operator fragment.
-/
import RsjProofs.ParserRun3
namespace Rsj.Parser

section
variable {toks : List Token}

theorem pushIf_false (st : PState toks) (e : Expected) : st.pushIf false e = st := rfl

theorem eatSimple_miss_false {st : PState toks} {k : STok} (h : st.cur.kind ≠ .simple k) :
    eatSimple k false st = .ok (none, st) := eatSimple_miss false h

/-- the current token is not one of the nine atom tokens -/
def NotAtom (tk : TokKind) : Prop :=
  tk ≠ sim .Null ∧ tk ≠ sim .False_ ∧ tk ≠ sim .True_ ∧ tk ≠ sim .Self_ ∧ tk ≠ sim .Dollar ∧
    (∀ v, tk ≠ .string v) ∧ (∀ v, tk ≠ .textBlock v) ∧ (∀ v, tk ≠ .number v) ∧ (∀ v, tk ≠ .ident v)

theorem pms_miss {st : PState toks} (h : NotAtom st.cur.kind) :
    parseMaybeSimpleExpr st = .ok (none, st) := by
  obtain ⟨h1, h2, h3, h4, h5, h6, h7, h8, h9⟩ := h
  unfold parseMaybeSimpleExpr
  simp only [sim] at h1 h2 h3 h4 h5
  rw [eatSimple_miss_false h1]; simp only [bind, Except.bind]
  rw [eatSimple_miss_false h2]; simp only []
  rw [eatSimple_miss_false h3]; simp only []
  rw [eatSimple_miss_false h4]; simp only []
  rw [eatSimple_miss_false h5]; simp only []
  rw [eatString_miss false h6]; simp only [pushIf_false]
  rw [eatTextBlock_miss false h7]; simp only [pushIf_false]
  rw [eatNumber_miss false h8]; simp only [pushIf_false]
  rw [eatIdent_miss false h9]; simp only [pushIf_false]
  rfl

/-- the atoms of the fragment and the token each is printed as -/
inductive AtomTok : Expr → TokKind → Prop
  | null (sp) : AtomTok (.null sp) (sim .Null)
  | false_ (sp) : AtomTok (.bool false sp) (sim .False_)
  | true_ (sp) : AtomTok (.bool true sp) (sim .True_)
  | selfObj (sp) : AtomTok (.selfObj sp) (sim .Self_)
  | dollar (sp) : AtomTok (.dollar sp) (sim .Dollar)
  | str (s sp) : AtomTok (.str s sp) (.string s)
  | textBlock (s sp) : AtomTok (.textBlock s sp) (.textBlock s)
  | number (n sp) : AtomTok (.number n sp) (.number n)
  | ident (i sp) : AtomTok (.ident i sp) (.ident i.value)

theorem pms_hit {e : Expr} {tk b : TokKind} {ks : List TokKind} {st : PState toks} (ha : AtomTok e tk)
    (h : st.kinds = tk :: b :: ks) :
    ∃ e' st', parseMaybeSimpleExpr st = .ok (some e', st') ∧ e'.erase = e.erase ∧ st'.kinds = b :: ks := by
  have hc := (PState.kinds_cons h).1
  unfold parseMaybeSimpleExpr
  cases ha with
  | null sp =>
    obtain ⟨st', he, hk⟩ := eatSimple_hit false h
    exact ⟨.null st.cur.span, st', by rw [he]; rfl, rfl, hk⟩
  | false_ sp =>
    obtain ⟨st', he, hk⟩ := eatSimple_hit false h
    rw [eatSimple_miss_false (by rw [hc]; simp [sim])]; simp only [bind, Except.bind]
    exact ⟨.bool false st.cur.span, st', by rw [he]; rfl, rfl, hk⟩
  | true_ sp =>
    obtain ⟨st', he, hk⟩ := eatSimple_hit false h
    rw [eatSimple_miss_false (by rw [hc]; simp [sim])]; simp only [bind, Except.bind]
    rw [eatSimple_miss_false (by rw [hc]; simp [sim])]; simp only []
    exact ⟨.bool true st.cur.span, st', by rw [he]; rfl, rfl, hk⟩
  | selfObj sp =>
    obtain ⟨st', he, hk⟩ := eatSimple_hit false h
    rw [eatSimple_miss_false (by rw [hc]; simp [sim])]; simp only [bind, Except.bind]
    rw [eatSimple_miss_false (by rw [hc]; simp [sim])]; simp only []
    rw [eatSimple_miss_false (by rw [hc]; simp [sim])]; simp only []
    exact ⟨.selfObj st.cur.span, st', by rw [he]; rfl, rfl, hk⟩
  | dollar sp =>
    obtain ⟨st', he, hk⟩ := eatSimple_hit false h
    rw [eatSimple_miss_false (by rw [hc]; simp [sim])]; simp only [bind, Except.bind]
    rw [eatSimple_miss_false (by rw [hc]; simp [sim])]; simp only []
    rw [eatSimple_miss_false (by rw [hc]; simp [sim])]; simp only []
    rw [eatSimple_miss_false (by rw [hc]; simp [sim])]; simp only []
    exact ⟨.dollar st.cur.span, st', by rw [he]; rfl, rfl, hk⟩
  | str s sp =>
    obtain ⟨st', he, hk⟩ := eatString_hit false h
    rw [eatSimple_miss_false (by rw [hc]; simp)]; simp only [bind, Except.bind]
    rw [eatSimple_miss_false (by rw [hc]; simp)]; simp only []
    rw [eatSimple_miss_false (by rw [hc]; simp)]; simp only []
    rw [eatSimple_miss_false (by rw [hc]; simp)]; simp only []
    rw [eatSimple_miss_false (by rw [hc]; simp)]; simp only []
    exact ⟨.str s st.cur.span, st', by rw [he]; rfl, rfl, hk⟩
  | textBlock s sp =>
    obtain ⟨st', he, hk⟩ := eatTextBlock_hit false h
    rw [eatSimple_miss_false (by rw [hc]; simp)]; simp only [bind, Except.bind]
    rw [eatSimple_miss_false (by rw [hc]; simp)]; simp only []
    rw [eatSimple_miss_false (by rw [hc]; simp)]; simp only []
    rw [eatSimple_miss_false (by rw [hc]; simp)]; simp only []
    rw [eatSimple_miss_false (by rw [hc]; simp)]; simp only []
    rw [eatString_miss false (by rw [hc]; simp)]; simp only [pushIf_false]
    exact ⟨.textBlock s st.cur.span, st', by rw [he]; rfl, rfl, hk⟩
  | number n sp =>
    obtain ⟨st', he, hk⟩ := eatNumber_hit false h
    rw [eatSimple_miss_false (by rw [hc]; simp)]; simp only [bind, Except.bind]
    rw [eatSimple_miss_false (by rw [hc]; simp)]; simp only []
    rw [eatSimple_miss_false (by rw [hc]; simp)]; simp only []
    rw [eatSimple_miss_false (by rw [hc]; simp)]; simp only []
    rw [eatSimple_miss_false (by rw [hc]; simp)]; simp only []
    rw [eatString_miss false (by rw [hc]; simp)]; simp only [pushIf_false]
    rw [eatTextBlock_miss false (by rw [hc]; simp)]; simp only [pushIf_false]
    exact ⟨.number n st.cur.span, st', by rw [he]; rfl, rfl, hk⟩
  | ident i sp =>
    obtain ⟨st', he, hk⟩ := eatIdent_hit false h
    rw [eatSimple_miss_false (by rw [hc]; simp)]; simp only [bind, Except.bind]
    rw [eatSimple_miss_false (by rw [hc]; simp)]; simp only []
    rw [eatSimple_miss_false (by rw [hc]; simp)]; simp only []
    rw [eatSimple_miss_false (by rw [hc]; simp)]; simp only []
    rw [eatSimple_miss_false (by rw [hc]; simp)]; simp only []
    rw [eatString_miss false (by rw [hc]; simp)]; simp only [pushIf_false]
    rw [eatTextBlock_miss false (by rw [hc]; simp)]; simp only [pushIf_false]
    rw [eatNumber_miss false (by rw [hc]; simp)]; simp only [pushIf_false]
    refine ⟨.ident ⟨i.value, st.cur.span⟩ st.cur.span, st', by rw [he]; rfl, ?_, hk⟩
    simp [Expr.erase, Ident.erase]


variable (pe : PState toks → Except (Err toks) (Expr × PState toks))

theorem maybeParseAssert_miss {st : PState toks} (h : st.cur.kind ≠ .simple .Assert) :
    maybeParseAssert pe false st = .ok (none, st) := by
  unfold maybeParseAssert
  rw [eatSimple_miss_false h]; rfl

theorem primary_atom {e : Expr} {tk b : TokKind} {ks : List TokKind} {st : PState toks} (S : List StackItem)
    (ha : AtomTok e tk) (h : st.kinds = tk :: b :: ks) :
    ∃ e' st', e'.erase = e.erase ∧ st'.kinds = b :: ks ∧
      ∀ fuel, primaryStep pe fuel S st = .ok ((S, .parsed e'), st') := by
  obtain ⟨e', st', h1, h2, h3⟩ := pms_hit ha h
  refine ⟨e', st', h2, h3, fun fuel => ?_⟩
  unfold primaryStep
  rw [h1]; rfl

theorem primary_paren {b : TokKind} {ks : List TokKind} {st : PState toks} (S : List StackItem)
    (h : st.kinds = sim .LeftParen :: b :: ks) :
    ∃ st', st'.kinds = b :: ks ∧
      ∀ fuel, primaryStep pe fuel S st = .ok ((.paren st.cur.span :: S, initState), st') := by
  have hc := (PState.kinds_cons h).1
  obtain ⟨st', he, hk⟩ := eatSimple_hit false h
  refine ⟨st', hk, fun fuel => ?_⟩
  unfold primaryStep
  rw [pms_miss (by rw [hc]; simp [NotAtom, sim])]; simp only [bind, Except.bind]
  rw [eatSimple_miss_false (by rw [hc]; simp [sim])]; simp only []
  rw [eatSimple_miss_false (by rw [hc]; simp [sim])]; simp only []
  rw [eatSimple_miss_false (by rw [hc]; simp [sim])]; simp only []
  rw [eatSimple_miss_false (by rw [hc]; simp [sim])]; simp only []
  rw [eatSimple_miss_false (by rw [hc]; simp [sim])]; simp only []
  rw [eatSimple_miss_false (by rw [hc]; simp [sim])]; simp only []
  rw [maybeParseAssert_miss pe (by rw [hc]; simp [sim])]; simp only []
  rw [eatSimple_miss_false (by rw [hc]; simp [sim])]; simp only []
  rw [eatSimple_miss_false (by rw [hc]; simp [sim])]; simp only []
  rw [eatSimple_miss_false (by rw [hc]; simp [sim])]; simp only []
  rw [eatSimple_miss_false (by rw [hc]; simp [sim])]; simp only []
  rw [he]; rfl

theorem primary_superField {v : String} {b : TokKind} {ks : List TokKind} {st : PState toks} (S : List StackItem)
    (h : st.kinds = sim .Super :: sim .Dot :: .ident v :: b :: ks) :
    ∃ e' st', e'.erase = Expr.superField Span.zero ⟨v, Span.zero⟩ Span.zero ∧ st'.kinds = b :: ks ∧
      ∀ fuel, primaryStep pe fuel S st = .ok ((S, .parsed e'), st') := by
  have hc := (PState.kinds_cons h).1
  obtain ⟨st1, he1, hk1⟩ := eatSimple_hit false h
  obtain ⟨st2, he2, hk2⟩ := eatSimple_hit true hk1
  obtain ⟨st3, he3, hk3⟩ := expectIdent_hit true hk2
  refine ⟨.superField st.cur.span ⟨v, st2.cur.span⟩ (surround st.cur.span st2.cur.span), st3, ?_, hk3, fun fuel => ?_⟩
  rotate_left
  · unfold primaryStep
    rw [pms_miss (by rw [hc]; simp [NotAtom, sim])]; simp only [bind, Except.bind]
    rw [eatSimple_miss_false (by rw [hc]; simp [sim])]; simp only []
    rw [eatSimple_miss_false (by rw [hc]; simp [sim])]; simp only []
    rw [he1]; simp only []
    rw [he2]; simp only []
    rw [he3]; rfl
  · rfl

theorem primary_superIndex {b : TokKind} {X ks : List TokKind} {st : PState toks} (S : List StackItem)
    (h : st.kinds = sim .Super :: sim .LeftBracket :: X) (hX : X ≠ [])
    (hpe : ∀ st2 : PState toks, st2.kinds = X → ∃ i' st3, pe st2 = .ok (i', st3) ∧
      st3.kinds = sim .RightBracket :: b :: ks ∧ i'.erase = ie) :
    ∃ e' st', e'.erase = Expr.superIndex Span.zero ie Span.zero ∧ st'.kinds = b :: ks ∧
      ∀ fuel, primaryStep pe fuel S st = .ok ((S, .parsed e'), st') := by
  have hc := (PState.kinds_cons h).1
  obtain ⟨x, X', rfl⟩ : ∃ x X', X = x :: X' := by
    cases X with
    | nil => exact absurd rfl hX
    | cons x X' => exact ⟨x, X', rfl⟩
  obtain ⟨st1, he1, hk1⟩ := eatSimple_hit false h
  have hc1 := (PState.kinds_cons hk1).1
  have hmiss : eatSimple .Dot true st1 = .ok (none, st1.pushIf true (.simple .Dot)) :=
    eatSimple_miss true (by rw [hc1]; simp [sim])
  obtain ⟨st2, he2, hk2⟩ := eatSimple_hit (st := st1.pushIf true (.simple .Dot)) true
    (by rw [kinds_pushIf]; exact hk1)
  obtain ⟨i', st3, hp, hk3, hie⟩ := hpe st2 hk2
  obtain ⟨st4, he4, hk4⟩ := expectSimple_hit true hk3
  refine ⟨.superIndex st.cur.span i' (surround st.cur.span st3.cur.span), st4, ?_, hk4, fun fuel => ?_⟩
  rotate_left
  · unfold primaryStep
    rw [pms_miss (by rw [hc]; simp [NotAtom, sim])]; simp only [bind, Except.bind]
    rw [eatSimple_miss_false (by rw [hc]; simp [sim])]; simp only []
    rw [eatSimple_miss_false (by rw [hc]; simp [sim])]; simp only []
    rw [he1]; simp only []
    rw [hmiss]; simp only []
    rw [he2]; simp only []
    rw [hp]; simp only []
    rw [he4]; rfl
  · simp only [Expr.erase, hie]


omit pe in
theorem unaryOps_split (op : UnaryOp) : ∃ pre post, unaryOps = pre ++ (op.tok, op) :: post ∧
    ∀ x ∈ pre, x.1 ≠ op.tok := by
  cases op
  · exact ⟨[(.Plus, .Plus)], [(.Tilde, .BitwiseNot), (.Exclam, .LogicNot)], rfl, by decide⟩
  · exact ⟨[], [(.Minus, .Minus), (.Tilde, .BitwiseNot), (.Exclam, .LogicNot)], rfl, by decide⟩
  · exact ⟨[(.Plus, .Plus), (.Minus, .Minus)], [(.Exclam, .LogicNot)], rfl, by decide⟩
  · exact ⟨[(.Plus, .Plus), (.Minus, .Minus), (.Tilde, .BitwiseNot)], [], rfl, by decide⟩

omit pe in
theorem unaryStep_hit (op : UnaryOp) {b : TokKind} {ks : List TokKind} {st : PState toks} (S : List StackItem)
    (h : st.kinds = sim op.tok :: b :: ks) :
    ∃ st', unaryStep S st = .ok ((.unary op st.cur.span :: S, .unary), st') ∧ st'.kinds = b :: ks := by
  obtain ⟨pre, post, hsplit, hpre⟩ := unaryOps_split op
  obtain ⟨st', he, hk⟩ := eatFirst_hit false pre op.tok op post st b ks hpre h
  refine ⟨st', ?_, hk⟩
  unfold unaryStep
  rw [hsplit, he]; rfl

omit pe in
theorem unaryStep_miss {st : PState toks} (S : List StackItem) (h : PrimStart st.cur.kind) :
    ∃ st', unaryStep S st = .ok ((.suffix :: S, .primary), st') ∧ st'.kinds = st.kinds := by
  obtain ⟨st', he, hk, _, _⟩ := eatFirst_miss false unaryOps st (by
    intro x hx
    have : x.1 = .Plus ∨ x.1 = .Minus ∨ x.1 = .Tilde ∨ x.1 = .Exclam := by
      simp only [unaryOps, List.mem_cons, List.mem_nil_iff, or_false] at hx
      rcases hx with rfl | rfl | rfl | rfl <;> simp
    intro hc
    rw [hc] at h
    simp only [PrimStart] at h
    rcases this with h' | h' | h' | h' <;> rw [h'] at h <;> simp at h)
  refine ⟨st', ?_, hk⟩
  unfold unaryStep
  rw [he]; rfl

omit pe in
theorem peek0 {st : PState toks} {a : TokKind} {ks : List TokKind} (k : STok) (h : st.kinds = a :: ks) :
    peekSimple k 0 st = decide (a = .simple k) := by
  unfold peekSimple
  rw [(PState.kinds_cons h).1]

omit pe in
theorem peek1 {st : PState toks} {a b : TokKind} {ks : List TokKind} (k : STok) (h : st.kinds = a :: b :: ks) :
    peekSimple k 1 st = decide (b = .simple k) := by
  have hr := (PState.kinds_cons h).2
  unfold peekSimple
  cases hrem : st.rem with
  | nil => rw [hrem] at hr; cases hr
  | cons c r =>
    rw [hrem] at hr
    simp only [List.map_cons, List.cons.injEq] at hr
    simp [hr.1]

omit pe in
theorem binOp_split (op : BinaryOp) : ∃ k tok pre post, op.info = some (k, tok) ∧
    k.ops = pre ++ (tok, op) :: post ∧ ∀ x ∈ pre, x.1 ≠ tok := by
  cases op
  case Add => exact ⟨.Add, .Plus, [], _, rfl, rfl, by decide⟩
  case Sub => exact ⟨.Add, .Minus, [(.Plus, .Add)], [], rfl, rfl, by decide⟩
  case Mul => exact ⟨.Mul, .Asterisk, [], _, rfl, rfl, by decide⟩
  case Div => exact ⟨.Mul, .Slash, [(.Asterisk, .Mul)], _, rfl, rfl, by decide⟩
  case Rem => exact ⟨.Mul, .Percent, [(.Asterisk, .Mul), (.Slash, .Div)], [], rfl, rfl, by decide⟩
  case Shl => exact ⟨.Shift, .LtLt, [], _, rfl, rfl, by decide⟩
  case Shr => exact ⟨.Shift, .GtGt, [(.LtLt, .Shl)], [], rfl, rfl, by decide⟩
  case Lt => exact ⟨.OrdCmp, .Lt, [], _, rfl, rfl, by decide⟩
  case Le => exact ⟨.OrdCmp, .LtEq, [(.Lt, .Lt)], _, rfl, rfl, by decide⟩
  case Gt => exact ⟨.OrdCmp, .Gt, [(.Lt, .Lt), (.LtEq, .Le)], _, rfl, rfl, by decide⟩
  case Ge => exact ⟨.OrdCmp, .GtEq, [(.Lt, .Lt), (.LtEq, .Le), (.Gt, .Gt)], _, rfl, rfl, by decide⟩
  case In => exact ⟨.OrdCmp, .In, [(.Lt, .Lt), (.LtEq, .Le), (.Gt, .Gt), (.GtEq, .Ge)], [], rfl, rfl, by decide⟩
  case Eq => exact ⟨.EqCmp, .EqEq, [], _, rfl, rfl, by decide⟩
  case Ne => exact ⟨.EqCmp, .ExclamEq, [(.EqEq, .Eq)], [], rfl, rfl, by decide⟩
  case BitwiseAnd => exact ⟨.BitwiseAnd, .Amp, [], [], rfl, rfl, by decide⟩
  case BitwiseOr => exact ⟨.BitwiseOr, .Pipe, [], [], rfl, rfl, by decide⟩
  case BitwiseXor => exact ⟨.BitwiseXor, .Hat, [], [], rfl, rfl, by decide⟩
  case LogicAnd => exact ⟨.LogicAnd, .AmpAmp, [], [], rfl, rfl, by decide⟩
  case LogicOr => exact ⟨.LogicOr, .PipePipe, [], [], rfl, rfl, by decide⟩


omit pe in
/-- an ordinary binary operator is taken (the `in super` special case does not apply) -/
theorem binaryRhs_hit {op : BinaryOp} {k : BinKind} {tok : STok} {pre post : List (STok × BinaryOp)}
    (hops : k.ops = pre ++ (tok, op) :: post) (hpre : ∀ x ∈ pre, x.1 ≠ tok)
    {b : TokKind} {ks : List TokKind} {st : PState toks} (lhs : Expr) (S : List StackItem)
    (h : st.kinds = sim tok :: b :: ks)
    (hg : tok = .In → (b ≠ sim .Super ∨ ∃ r, ks = sim .Dot :: r ∨ ks = sim .LeftBracket :: r)) :
    ∃ st', binaryRhsStep k lhs S st = .ok ((.binaryRhs k lhs op :: S, nextStateOf k), st') ∧
      st'.kinds = b :: ks := by
  obtain ⟨st', he, hk⟩ := eatFirst_hit false pre tok op post st b ks hpre h
  refine ⟨st', ?_, hk⟩
  unfold binaryRhsStep
  rw [hops, he]
  simp only [bind, Except.bind]
  rw [if_neg]
  · rfl
  · rintro ⟨_, htok, hp0, hp1⟩
    rcases hg htok with hb | ⟨r, hr | hr⟩
    · rw [peek0 inSuperHead hk] at hp0
      simp only [decide_eq_true_eq] at hp0
      exact hb hp0
    · rw [hr] at hk
      simp only [inSuperExclude, List.all_cons, List.all_nil, Bool.and_true, Bool.and_eq_true,
        Bool.not_eq_true'] at hp1
      rw [peek1 .Dot hk] at hp1
      simp [sim] at hp1
    · rw [hr] at hk
      simp only [inSuperExclude, List.all_cons, List.all_nil, Bool.and_true, Bool.and_eq_true,
        Bool.not_eq_true'] at hp1
      rw [peek1 .LeftBracket hk] at hp1
      simp [sim] at hp1

omit pe in
/-- `lhs in super` -/
theorem binaryRhs_inSuper {b : TokKind} {ks : List TokKind} {st : PState toks} (lhs : Expr) (S : List StackItem)
    (h : st.kinds = sim .In :: sim .Super :: b :: ks) (hb1 : b ≠ sim .Dot) (hb2 : b ≠ sim .LeftBracket) :
    ∃ e' st', binaryRhsStep inSuperKind lhs S st = .ok ((S, .binaryRhs inSuperKind e'), st') ∧
      e'.erase = .inSuper lhs.erase Span.zero Span.zero ∧ st'.kinds = b :: ks := by
  obtain ⟨st1, he, hk⟩ := eatFirst_hit false
    [(.Lt, .Lt), (.LtEq, .Le), (.Gt, .Gt), (.GtEq, .Ge)] .In BinaryOp.In [] st _ _ (by decide) h
  obtain ⟨st2, he2, hk2⟩ := eatSimple_hit (k := .Super) true hk
  refine ⟨.inSuper lhs st1.cur.span (surround lhs.span st1.cur.span), st2, ?_, rfl, hk2⟩
  unfold binaryRhsStep
  have hops : inSuperKind.ops = [(.Lt, .Lt), (.LtEq, .Le), (.Gt, .Gt), (.GtEq, .Ge)] ++ (.In, BinaryOp.In) :: [] := rfl
  rw [hops, he]
  simp only [bind, Except.bind]
  rw [if_pos]
  · have : inSuperHead = .Super := rfl
    rw [this, he2]; rfl
  · refine ⟨trivial, trivial, ?_, ?_⟩
    · rw [peek0 inSuperHead hk]; simp [inSuperHead, sim]
    · simp only [inSuperExclude, List.all_cons, List.all_nil, Bool.and_true, Bool.and_eq_true,
        Bool.not_eq_true']
      rw [peek1 .Dot hk, peek1 .LeftBracket hk]
      simp only [decide_eq_false_iff_not]
      exact ⟨hb1, hb2⟩

end
end Rsj.Parser
