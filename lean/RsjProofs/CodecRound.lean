/-
  Helper lemmas for C20 (radix): arithmetic of `roundNE` (round to 53 significant
  bits, ties to even) and the sticky-bit argument of `parse_num_radix`.
-/
import RsjModel.Codec
namespace Rsj.Codec

/-- `roundNE` once the position of the leading bit is known. -/
theorem roundNE_of_log2 {n lw : Nat} (hlo : 2 ^ lw ≤ n) (hhi : n < 2 ^ (lw + 1)) (h53 : 53 ≤ lw) :
    roundNE n =
      (if n % 2 ^ (lw - 52) > 2 ^ (lw - 53) ∨ (n % 2 ^ (lw - 52) = 2 ^ (lw - 53) ∧ n / 2 ^ (lw - 52) % 2 = 1)
        then n / 2 ^ (lw - 52) + 1 else n / 2 ^ (lw - 52)) * 2 ^ (lw - 52) := by
  have hn : n ≠ 0 := by
    have : 0 < 2 ^ lw := Nat.two_pow_pos lw
    omega
  have hl : n.log2 = lw := (Nat.log2_eq_iff hn).mpr ⟨hlo, hhi⟩
  unfold roundNE
  simp only [hl]
  have e1 : lw + 1 - 53 = lw - 52 := by omega
  have e2 : lw - 52 - 1 = lw - 53 := by omega
  rw [if_neg (by omega), e1, e2]

theorem roundNE_small {n : Nat} (h : n < 2 ^ 53) : roundNE n = n := by
  unfold roundNE
  simp only
  by_cases hn : n = 0
  · subst hn; simp [Nat.log2]
  · have : n.log2 < 53 := (Nat.log2_lt hn).mpr h
    rw [if_pos (by omega)]

/-- `W ||| 1` sets the lowest bit. -/
theorem or_one_eq (W : Nat) : W ||| 1 = if W % 2 = 0 then W + 1 else W := by
  have h1 : (1 : Nat) < 2 ^ 1 := by decide
  have key : ∀ x : Nat, x <<< 1 ||| 1 = x <<< 1 + 1 := fun x => (Nat.shiftLeft_add_eq_or_of_lt h1 x).symm
  have hw : W = (W / 2) <<< 1 + W % 2 := by rw [Nat.shiftLeft_eq]; omega
  split
  · next he =>
    have : W = (W / 2) <<< 1 := by omega
    rw [this, key]
  · next ho =>
    have : W = (W / 2) <<< 1 ||| 1 := by rw [key]; omega
    rw [this, Nat.or_assoc, Nat.or_self]

/-- The rounding decision is the same for `rw * P + T` against `half * P` and
    for `rw` with its lowest bit forced to 1 (when `T ≠ 0`) against `half`. -/
theorem roundUp_sticky {rw half T P q : Nat} (hT : T < P) (heven : half % 2 = 0) :
    (rw * P + T > half * P ∨ (rw * P + T = half * P ∧ q % 2 = 1)) ↔
      ((if T = 0 then rw else if rw % 2 = 0 then rw + 1 else rw) > half ∨
        ((if T = 0 then rw else if rw % 2 = 0 then rw + 1 else rw) = half ∧ q % 2 = 1)) := by
  have hP : 0 < P := by omega
  rcases Nat.lt_trichotomy rw half with hlt | heq | hgt
  · -- rw < half
    have h1 : (rw + 1) * P ≤ half * P := Nat.mul_le_mul_right P hlt
    have h2 : (rw + 1) * P = rw * P + P := by rw [Nat.add_mul, Nat.one_mul]
    by_cases h0 : T = 0
    · simp only [h0, if_true]; omega
    · by_cases he : rw % 2 = 0
      · simp only [h0, he, if_true, if_false]; omega
      · simp only [h0, he, if_false]; omega
  · subst heq
    by_cases h0 : T = 0
    · subst h0; simp
    · simp only [h0, heven, if_true, if_false]; omega
  · have h1 : (half + 1) * P ≤ rw * P := Nat.mul_le_mul_right P hgt
    have h2 : (half + 1) * P = half * P + P := by rw [Nat.add_mul, Nat.one_mul]
    by_cases h0 : T = 0
    · simp only [h0, if_true]; omega
    · by_cases he : rw % 2 = 0
      · simp only [h0, he, if_true, if_false]; omega
      · simp only [h0, he, if_false]; omega

theorem two_pow_pos (k : Nat) : 0 < 2 ^ k := Nat.two_pow_pos k

/-- **Sticky-bit lemma.** If `W` has at least 55 significant bits, the digits
    below `W` (`T < 2^j`) influence the rounding of `W * 2^j + T` only through
    "is `T` zero", and that information can be stored in bit 0 of `W`. -/
theorem roundNE_sticky {W j T lw : Nat} (hlo : 2 ^ lw ≤ W) (hhi : W < 2 ^ (lw + 1)) (h54 : 54 ≤ lw)
    (hT : T < 2 ^ j) :
    roundNE (W * 2 ^ j + T) = roundNE (if T = 0 then W else W ||| 1) * 2 ^ j := by
  -- notation
  have hPpos : 0 < 2 ^ j := two_pow_pos j
  have hSpos : 0 < 2 ^ (lw - 52) := two_pow_pos _
  -- W' and its bounds
  have hW' : (if T = 0 then W else W ||| 1) = if T = 0 then W else if W % 2 = 0 then W + 1 else W := by
    split
    · rfl
    · exact or_one_eq W
  rw [hW']
  have hpow_even : 2 ^ (lw + 1) % 2 = 0 := by rw [Nat.pow_succ]; omega
  have hlo' : 2 ^ lw ≤ (if T = 0 then W else if W % 2 = 0 then W + 1 else W) := by
    split
    · exact hlo
    · split <;> omega
  have hhi' : (if T = 0 then W else if W % 2 = 0 then W + 1 else W) < 2 ^ (lw + 1) := by
    split
    · exact hhi
    · split <;> omega
  rw [roundNE_of_log2 hlo' hhi' (by omega)]
  -- the big number
  have hnlo : 2 ^ (lw + j) ≤ W * 2 ^ j + T := by
    rw [Nat.pow_add]
    have := Nat.mul_le_mul_right (2 ^ j) hlo
    omega
  have hnhi : W * 2 ^ j + T < 2 ^ (lw + j + 1) := by
    have e : lw + j + 1 = (lw + 1) + j := by omega
    rw [e, Nat.pow_add]
    have : (W + 1) * 2 ^ j ≤ 2 ^ (lw + 1) * 2 ^ j := Nat.mul_le_mul_right _ hhi
    rw [Nat.add_mul, Nat.one_mul] at this
    omega
  rw [roundNE_of_log2 hnlo hnhi (by omega)]
  have es : lw + j - 52 = (lw - 52) + j := by omega
  have eh : lw + j - 53 = (lw - 53) + j := by omega
  rw [es, eh, Nat.pow_add, Nat.pow_add (n := j)]
  -- decompose W = q * S + rw
  generalize hS : 2 ^ (lw - 52) = S at *
  generalize hP : 2 ^ j = P at *
  have hhalf : 2 ^ (lw - 53) * 2 = S := by
    rw [← hS, ← Nat.pow_succ]; congr 1; omega
  have hhalf_even : 2 ^ (lw - 53) % 2 = 0 := by
    have e : lw - 53 = (lw - 54) + 1 := by omega
    rw [e, Nat.pow_succ]; omega
  generalize hH : 2 ^ (lw - 53) = half at *
  have hSeven : S % 2 = 0 := by omega
  -- quotient / remainder of the big number
  have hWdm := Nat.div_add_mod W S
  have hrw : W % S < S := Nat.mod_lt _ hSpos
  have hbig : W * P + T = (S * P) * (W / S) + (W % S * P + T) := by
    have : W * P = (S * (W / S) + W % S) * P := by rw [hWdm]
    rw [this, Nat.add_mul, Nat.mul_assoc, Nat.mul_assoc, Nat.mul_comm (W / S) P]
    omega
  have hsmall : W % S * P + T < S * P := by
    have h1 : (W % S + 1) * P ≤ S * P := Nat.mul_le_mul_right P hrw
    rw [Nat.add_mul, Nat.one_mul] at h1
    omega
  have hSP : 0 < S * P := Nat.mul_pos hSpos hPpos
  have hq : (W * P + T) / (S * P) = W / S := by
    rw [hbig, Nat.mul_add_div hSP, Nat.div_eq_of_lt hsmall, Nat.add_zero]
  have hr : (W * P + T) % (S * P) = W % S * P + T := by
    rw [hbig, Nat.mul_add_mod, Nat.mod_eq_of_lt hsmall]
  rw [hq, hr]
  -- quotient / remainder of W'
  have hq' : (if T = 0 then W else if W % 2 = 0 then W + 1 else W) / S = W / S := by
    split
    · rfl
    · split
      · next he =>
        have hre : W % S % 2 = 0 := by
          have := Nat.mod_mod_of_dvd W (show 2 ∣ S from Nat.dvd_of_mod_eq_zero hSeven)
          omega
        have hlt : W % S + 1 < S := by omega
        have : W + 1 = S * (W / S) + (W % S + 1) := by omega
        rw [this, Nat.mul_add_div hSpos, Nat.div_eq_of_lt hlt, Nat.add_zero]
      · rfl
  have hr' : (if T = 0 then W else if W % 2 = 0 then W + 1 else W) % S =
      if T = 0 then W % S else if W % S % 2 = 0 then W % S + 1 else W % S := by
    have hre : W % S % 2 = W % 2 := Nat.mod_mod_of_dvd W (show 2 ∣ S from Nat.dvd_of_mod_eq_zero hSeven)
    split
    · rfl
    · split
      · next he =>
        have hlt : W % S + 1 < S := by omega
        have : W + 1 = S * (W / S) + (W % S + 1) := by omega
        rw [if_pos (by omega), this, Nat.mul_add_mod, Nat.mod_eq_of_lt hlt]
      · next ho => rw [if_neg (by omega)]
  rw [hq', hr']
  have key := roundUp_sticky (rw := W % S) (half := half) (T := T) (P := P) (q := W / S) hT hhalf_even
  by_cases hc : (W % S * P + T > half * P ∨ (W % S * P + T = half * P ∧ W / S % 2 = 1))
  · rw [if_pos hc, if_pos (key.mp hc), Nat.mul_assoc]
  · rw [if_neg hc, if_neg (fun h => hc (key.mpr h)), Nat.mul_assoc]

theorem roundNE_le_pow {n lw : Nat} (hlo : 2 ^ lw ≤ n) (hhi : n < 2 ^ (lw + 1)) (h53 : 53 ≤ lw) :
    roundNE n ≤ 2 ^ (lw + 1) := by
  rw [roundNE_of_log2 hlo hhi h53]
  have hS : 0 < 2 ^ (lw - 52) := two_pow_pos _
  have e : 2 ^ (lw + 1) = 2 ^ 53 * 2 ^ (lw - 52) := by rw [← Nat.pow_add]; congr 1; omega
  have hq : n / 2 ^ (lw - 52) < 2 ^ 53 := by
    rw [Nat.div_lt_iff_lt_mul hS, ← e]; exact hhi
  rw [e]
  apply Nat.mul_le_mul_right
  split <;> omega

theorem maxFinite_ge : 2 ^ 128 ≤ maxFinite := by
  unfold maxFinite
  have h1 : (2 : Nat) ^ 52 ≤ 2 ^ 53 - 1 := by
    have : (2 : Nat) ^ 53 = 2 ^ 52 * 2 := by rw [← Nat.pow_succ]
    have := two_pow_pos 52
    omega
  have h2 : (2 : Nat) ^ 52 * 2 ^ 971 ≤ (2 ^ 53 - 1) * 2 ^ 971 := Nat.mul_le_mul_right _ h1
  have h3 : (2 : Nat) ^ 128 ≤ 2 ^ 52 * 2 ^ 971 := by
    rw [← Nat.pow_add]; exact Nat.pow_le_pow_right (by omega) (by omega)
  omega

/-- A `u128` always converts to a finite double. -/
theorem roundNE_u128 {n : Nat} (h : n < 2 ^ 128) : roundNE n ≤ maxFinite := by
  by_cases hs : n < 2 ^ 53
  · rw [roundNE_small hs]; exact Nat.le_trans (Nat.le_of_lt h) maxFinite_ge
  · have hn : n ≠ 0 := by
      have := two_pow_pos 53
      omega
    have hlo : 2 ^ n.log2 ≤ n := Nat.log2_self_le hn
    have hhi : n < 2 ^ (n.log2 + 1) := Nat.lt_log2_self
    have h53 : 53 ≤ n.log2 := (Nat.le_log2 hn).mpr (by omega)
    have hl : n.log2 < 128 := (Nat.log2_lt hn).mpr h
    have := roundNE_le_pow hlo hhi h53
    have h4 : (2 : Nat) ^ (n.log2 + 1) ≤ 2 ^ 128 := Nat.pow_le_pow_right (by omega) (by omega)
    exact Nat.le_trans this (Nat.le_trans h4 maxFinite_ge)

/-- `roundNE n` is the double nearest to `n`, ties to even: with `S = 2^(log2 n - 52)`
    the spacing of doubles around `n` (n ≥ 2^53), the result is a multiple `m * S` with
    `m ≤ 2^53`, it is within `S / 2` of `n`, and in case of a tie `m` is even. -/
theorem roundNE_nearest {n : Nat} (h : 2 ^ 53 ≤ n) :
    ∃ m, roundNE n = m * 2 ^ (n.log2 - 52) ∧ m ≤ 2 ^ 53 ∧
      2 * (roundNE n - n) ≤ 2 ^ (n.log2 - 52) ∧ 2 * (n - roundNE n) ≤ 2 ^ (n.log2 - 52) ∧
      ((2 * (roundNE n - n) = 2 ^ (n.log2 - 52) ∨ 2 * (n - roundNE n) = 2 ^ (n.log2 - 52)) → m % 2 = 0) := by
  have hn : n ≠ 0 := by have := two_pow_pos 53; omega
  have hlo : 2 ^ n.log2 ≤ n := Nat.log2_self_le hn
  have hhi : n < 2 ^ (n.log2 + 1) := Nat.lt_log2_self
  have h53 : 53 ≤ n.log2 := (Nat.le_log2 hn).mpr h
  rw [roundNE_of_log2 hlo hhi h53]
  generalize n.log2 = lw at *
  have hSpos : 0 < 2 ^ (lw - 52) := two_pow_pos _
  have e : 2 ^ (lw + 1) = 2 ^ 53 * 2 ^ (lw - 52) := by rw [← Nat.pow_add]; congr 1; omega
  have hq : n / 2 ^ (lw - 52) < 2 ^ 53 := by
    rw [Nat.div_lt_iff_lt_mul hSpos, ← e]; exact hhi
  have hhalf : 2 ^ (lw - 53) * 2 = 2 ^ (lw - 52) := by
    rw [← Nat.pow_succ]; congr 1; omega
  have hdm := Nat.div_add_mod n (2 ^ (lw - 52))
  have hrem : n % 2 ^ (lw - 52) < 2 ^ (lw - 52) := Nat.mod_lt _ hSpos
  generalize 2 ^ (lw - 52) = S at *
  generalize 2 ^ (lw - 53) = half at *
  generalize n / S = q at *
  generalize n % S = rem at *
  have hSq : S * q = q * S := Nat.mul_comm _ _
  by_cases hc : rem > half ∨ (rem = half ∧ q % 2 = 1)
  · rw [if_pos hc]
    refine ⟨q + 1, rfl, by omega, ?_⟩
    have e2 : (q + 1) * S = q * S + S := by rw [Nat.add_mul, Nat.one_mul]
    rw [e2]
    refine ⟨by omega, by omega, ?_⟩
    intro ht
    omega
  · rw [if_neg hc]
    refine ⟨q, rfl, by omega, by omega, by omega, ?_⟩
    intro ht
    omega

end Rsj.Codec
