/-
  Memoisation consistency of the thunk machine (C11): the invariant
  `Justified`, its preservation by every run, and the replay lemma.
-/
import RsjProofs.Thunk
namespace Rsj.Thunk

/-! ### Memoisation consistency -/

/-- Replaying computation `p` on store `s` reads only thunks that are done in
    `s` and have rank below `b`, and returns `v`. -/
def Reads (s : St) (rk : Nat → Nat) (b : Nat) : Prog → Val → Prop
  | .ret x, v => x = v
  | .fail _, _ => False
  | .trace _ k, v => Reads s rk b k v
  | .force w k, v => ∃ vw, s.st w = some (.done vw) ∧ rk w < b ∧ Reads s rk b (k vw) v

/-- **Memoisation consistency**: every memoised value is what the thunk's own
    computation returns when replayed on the store, reading only memoised
    values that were justified earlier (`rk` orders the justifications, which
    rules out a value that justifies itself through a cycle). -/
def Justified (c : Code) (s : St) : Prop :=
  ∃ rk : Nat → Nat, ∀ u v, s.st u = some (.done v) → Reads s rk (rk u) (c u) v

theorem Reads.mono {s s' : St} {rk rk' : Nat → Nat} {b b' : Nat}
    (hs : ∀ w vw, s.st w = some (.done vw) → s'.st w = some (.done vw) ∧ rk' w = rk w)
    (hb : b ≤ b') : ∀ {p : Prog} {v : Val}, Reads s rk b p v → Reads s' rk' b' p v := by
  intro p
  induction p with
  | ret x => intro v h; exact h
  | fail e => intro v h; exact h
  | trace m k ih => intro v h; exact ih h
  | force w k ih =>
    intro v h
    obtain ⟨vw, h1, h2, h3⟩ := h
    obtain ⟨h1', hr⟩ := hs w vw h1
    exact ⟨vw, h1', by rw [hr]; omega, ih vw h3⟩

theorem Justified.congr {c : Code} {s s' : St}
    (h : ∀ u v, s'.st u = some (.done v) ↔ s.st u = some (.done v)) (hj : Justified c s) :
    Justified c s' := by
  obtain ⟨rk, hrk⟩ := hj
  refine ⟨rk, fun u v hu => ?_⟩
  exact (hrk u v ((h u v).mp hu)).mono (fun w vw hw => ⟨(h w vw).mpr hw, rfl⟩) (Nat.le_refl _)

theorem Justified.emit {c : Code} {s : St} (m : Nat) (hj : Justified c s) : Justified c (s.emit m) :=
  hj.congr (fun _ _ => by simp)

theorem Justified.mark {c : Code} {s : St} {t : Nat} (ht : s.st t = some .pending)
    (hj : Justified c s) : Justified c (mark s t) := by
  refine hj.congr (fun u v => ?_)
  by_cases h : t = u
  · subst h; rw [st_mark_self (by rw [ht]; simp), ht]; simp
  · rw [st_mark_ne h]

theorem Justified.restore {c : Code} {s : St} (hj : Justified c s) : Justified c (restore s) := by
  refine hj.congr (fun u v => ?_)
  rw [st_restore]
  rcases st_cases s u with h | h | h | ⟨w, h⟩ <;> rw [h] <;> simp [unmark]

def maxBelow (rk : Nat → Nat) : Nat → Nat
  | 0 => 0
  | n + 1 => max (maxBelow rk n) (rk n)

theorem le_maxBelow (rk : Nat → Nat) : ∀ n w, w < n → rk w ≤ maxBelow rk n := by
  intro n
  induction n with
  | zero => intro w h; omega
  | succ n ih =>
    intro w h
    unfold maxBelow
    by_cases hw : w = n
    · subst hw; omega
    · have := ih w (by omega); omega

/-- A successful run can be replayed on its final store. -/
theorem runProg_reads {f : Nat → St → Res} (hm : ∀ t s, Mono s (f t s).2)
    (hd : ∀ t s v s1, f t s = (.ok v, s1) → s1.st t = some (.done v)) :
    ∀ p s v s', runProg f p s = (.ok v, s') → ∀ rk B,
      (∀ w vw, s'.st w = some (.done vw) → rk w < B) → Reads s' rk B p v := by
  intro p
  induction p with
  | ret x => intro s v s' h rk B _; cases h; rfl
  | fail e => intro s v s' h; cases h
  | trace m k ih => intro s v s' h; exact ih _ v s' h
  | force w k ih =>
    intro s v s' h rk B hB
    rcases res_cases (f w s) with ⟨vw, s1, e⟩ | ⟨e', s1, e⟩
    · rw [runProg_force_ok e] at h
      have m2 : Mono s1 s' := by have := runProg_mono hm (k vw) s1; rwa [h] at this
      have hw := m2.done (hd w s vw s1 e)
      exact ⟨vw, hw, hB w vw hw, ih vw s1 v s' h rk B hB⟩
    · rw [runProg_force_error e] at h; cases h

theorem runProg_justified {c : Code} {f : Nat → St → Res}
    (hf : ∀ t s, Justified c s → Justified c (f t s).2) :
    ∀ p s, Justified c s → Justified c (runProg f p s).2 := by
  intro p
  induction p with
  | ret x => intro s h; exact h
  | fail e => intro s h; exact h
  | trace m k ih => intro s h; exact ih _ (h.emit m)
  | force w k ih =>
    intro s h
    rcases res_cases (f w s) with ⟨vw, s1, e⟩ | ⟨e', s1, e⟩
    · rw [runProg_force_ok e]
      have := hf w s h; rw [e] at this
      exact ih vw s1 this
    · rw [runProg_force_error e]
      have := hf w s h; rw [e] at this
      exact this

/-- `force` preserves memoisation consistency, whatever the outcome. -/
theorem force_justified (c : Code) : ∀ h t s, Justified c s → Justified c (force c h t s).2 := by
  intro h
  induction h with
  | zero =>
    intro t s hj
    rcases st_cases s t with h | h | h | ⟨v, h⟩
    · rw [force_none h]; exact hj
    · rw [force_zero_pending h]; exact hj
    · rw [force_zero_inProgress h]; exact hj
    · rw [force_done h]; exact hj
  | succ n ih =>
    intro t s hj
    rcases st_cases s t with h | h | h | ⟨v, h⟩
    · rw [force_none h]; exact hj
    · have hj2 := runProg_justified ih (c t) (mark s t) (hj.mark h)
      rcases force_pending_cases (code := c) (n := n) h with ⟨v, s2, e, h2, e2⟩ | ⟨e', s2, e, h2, e2⟩
      · rw [e2]; rw [e] at hj2
        obtain ⟨rk, hrk⟩ := hj2
        let B := maxBelow rk s2.states.length + 1
        have hB : ∀ w vw, s2.st w = some (.done vw) → rk w < B := fun w vw hw => by
          have := le_maxBelow rk _ w (st_some_lt hw); omega
        have hrd := runProg_reads (force_mono_st c n) (fun _ _ _ _ => force_ok_done) _ _ _ _ e rk B hB
        refine ⟨fun x => if x = t then B else rk x, fun u v' hu => ?_⟩
        have hmono : ∀ w vw, s2.st w = some (.done vw) →
            (s2.setState t (.done v)).st w = some (.done vw) ∧
            (fun x => if x = t then B else rk x) w = rk w := by
          intro w vw hw
          have hne : t ≠ w := by intro he; subst he; rw [h2] at hw; cases hw
          exact ⟨by rw [st_setState_ne hne]; exact hw, by simp [Ne.symm hne]⟩
        by_cases hut : t = u
        · subst hut
          rw [st_setState_self (by rw [h2]; simp)] at hu
          cases hu
          simp only [if_true]
          exact hrd.mono hmono (Nat.le_refl _)
        · rw [st_setState_ne hut] at hu
          simp only [if_neg (Ne.symm hut)]
          exact (hrk u v' hu).mono hmono (Nat.le_refl _)
      · rw [e2]; rw [e] at hj2; exact hj2
    · rw [force_succ_inProgress h]; exact hj
    · rw [force_done h]; exact hj

/-- `s'` extends `s` by memoised values taken from `m`. -/
def Ext (s s' m : St) : Prop :=
  s'.states.length = s.states.length ∧
  ∀ x, s'.st x = s.st x ∨
    (s.st x = some .pending ∧ ∃ vx, s'.st x = some (.done vx) ∧ m.st x = some (.done vx))

theorem Ext.refl (s m : St) : Ext s s m := ⟨rfl, fun _ => .inl rfl⟩

theorem Ext.trans {a b c m : St} (h1 : Ext a b m) (h2 : Ext b c m) : Ext a c m := by
  refine ⟨h2.1.trans h1.1, fun x => ?_⟩
  rcases h2.2 x with e2 | ⟨p2, vx, d2, m2⟩
  · rcases h1.2 x with e1 | ⟨p1, vx, d1, m1⟩
    · exact .inl (e2.trans e1)
    · exact .inr ⟨p1, vx, by rw [e2]; exact d1, m1⟩
  · rcases h1.2 x with e1 | ⟨p1, vx', d1, m1⟩
    · exact .inr ⟨by rw [← e1]; exact p2, vx, d2, m2⟩
    · rw [d1] at p2; cases p2

/-- Below rank `b`, everything memoised in `m` is memoised with the same value
    or still pending in `s`. -/
def LeB (s m : St) (rk : Nat → Nat) (b : Nat) : Prop :=
  ∀ w vw, m.st w = some (.done vw) → rk w < b →
    s.st w = some (.done vw) ∨ s.st w = some .pending

theorem LeB.ext {s s' m : St} {rk : Nat → Nat} {b : Nat} (h : LeB s m rk b) (he : Ext s s' m) :
    LeB s' m rk b := by
  intro w vw hw hr
  rcases he.2 w with e | ⟨_, vx, d, mx⟩
  · rw [e]; exact h w vw hw hr
  · rw [hw] at mx; cases mx; exact .inl d

/-- **Replay lemma.** A memoised value of `m` that is justified is recomputed
    by the machine, with enough headroom, on any store that is less evaluated
    than `m`; the run only memoises values that `m` has too. -/
theorem replay {c : Code} {m : St} {rk : Nat → Nat}
    (hj : ∀ u v, m.st u = some (.done v) → Reads m rk (rk u) (c u) v) :
    ∀ b p v s, Reads m rk b p v → LeB s m rk b →
      ∃ H, ∀ h, H ≤ h → ∃ s', runProg (force c h) p s = (.ok v, s') ∧ Ext s s' m := by
  intro b
  induction b using Nat.strongRecOn with
  | ind b ihb =>
    intro p
    induction p with
    | ret x =>
      intro v s hr _
      cases hr
      exact ⟨0, fun h _ => ⟨s, rfl, Ext.refl s m⟩⟩
    | fail e => intro v s hr; cases hr
    | trace tm k ih =>
      intro v s hr hle
      obtain ⟨H, hH⟩ := ih v (s.emit tm) hr (fun w vw hw hb => hle w vw hw hb)
      refine ⟨H, fun h hh => ?_⟩
      obtain ⟨s', e, he⟩ := hH h hh
      exact ⟨s', e, he.1, he.2⟩
    | force w k ih =>
      intro v s hr hle
      obtain ⟨vw, hmw, hrw, hk⟩ := hr
      -- first: the force of `w`
      have hforce : ∃ H1, ∀ h, H1 ≤ h → ∃ s1, force c h w s = (.ok vw, s1) ∧ Ext s s1 m := by
        rcases hle w vw hmw hrw with hd | hp
        · exact ⟨0, fun h _ => ⟨s, force_done hd, Ext.refl s m⟩⟩
        · have hle' : LeB (mark s w) m rk (rk w) := by
            intro x vx hx hrx
            have hne : w ≠ x := by intro he; subst he; omega
            rw [st_mark_ne hne]
            exact hle x vx hx (by omega)
          obtain ⟨H', hH'⟩ := ihb (rk w) hrw (c w) vw (mark s w) (hj w vw hmw) hle'
          refine ⟨H' + 1, fun h hh => ?_⟩
          obtain ⟨n, rfl⟩ : ∃ n, h = n + 1 := ⟨h - 1, by omega⟩
          obtain ⟨s2, e, he⟩ := hH' n (by omega)
          have h2 : s2.st w = some .inProgress := by
            have hmk : (mark s w).st w = some .inProgress := st_mark_self (by rw [hp]; simp)
            rcases he.2 w with e' | ⟨p', _⟩
            · rw [e', hmk]
            · rw [hmk] at p'; cases p'
          refine ⟨s2.setState w (.done vw), by rw [force_succ_pending hp, e]; rfl, ?_, fun x => ?_⟩
          · simpa using he.1
          · by_cases hx : w = x
            · subst hx
              exact .inr ⟨hp, vw, st_setState_self (by rw [h2]; simp), hmw⟩
            · rw [st_setState_ne hx]
              rcases he.2 x with e' | ⟨p', d'⟩
              · exact .inl (by rw [e', st_mark_ne hx])
              · exact .inr ⟨by rw [← st_mark_ne hx]; exact p', d'⟩
      obtain ⟨H1, hH1⟩ := hforce
      -- the store after the force does not depend on the headroom (monotonicity)
      obtain ⟨s1, e1, he1⟩ := hH1 H1 (Nat.le_refl _)
      obtain ⟨H2, hH2⟩ := ih vw v s1 hk (hle.ext he1)
      refine ⟨max H1 H2, fun h hh => ?_⟩
      have e1' : force c h w s = (.ok vw, s1) := force_mono_le e1 (by simp) (by omega)
      obtain ⟨s', e2, he2⟩ := hH2 h (by omega)
      exact ⟨s', by rw [runProg_force_ok e1']; exact e2, he1.trans he2⟩

end Rsj.Thunk
