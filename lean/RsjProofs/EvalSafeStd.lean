import RsjProofs.EvalSafeHelpers2
/-!
  C01 on the evaluator model: the builtins added after `std.makeArray` keep every identifier in
  range; the sorted indices of `std.sort` are in range.
-/
open Std.Do
set_option mvcgen.warning false
namespace Rsj.Eval.Safe
open Rsj.Core Rsj.Eval Rsj.Eval.Scope

/-- a prepared application: the environment exists, the body is shaped -/
def CallRng (ne : Nat) (c : Expr × EId) : Prop := c.2 < ne ∧ CoreShaped c.1

theorem CallRng.mono {ne ne' : Nat} {c : Expr × EId} (h : CallRng ne c) (h1 : ne ≤ ne') : CallRng ne' c :=
  ⟨Nat.lt_of_lt_of_le h.1 h1, h.2⟩

/-- the invariant of a loop that collects prepared applications -/
def callsInv2 (s s1 : St) {β} : PostCond (β × List (Expr × EId)) PS :=
  ⟨fun (_, calls) st => ⌜Safe st ∧ Le s st ∧ SzLe s1 st ∧ ∀ c ∈ calls, CallRng st.envs.size c⌝,
   fun e st => ⌜Safe st ∧ Good2 e ∧ SzLe s st⌝, fun _ => ⌜True⌝, ()⟩

/-- the invariant of a loop with an accumulated value -/
def valInv (s s1 : St) {β} : PostCond (β × Value) PS :=
  ⟨fun (_, acc) st => ⌜Safe st ∧ Le s st ∧ SzLe s1 st ∧ ValOk st.thunks.size st.objs.size st.funcs.size acc⌝,
   fun e st => ⌜Safe st ∧ Good2 e ∧ SzLe s st⌝, fun _ => ⌜True⌝, ()⟩

/-- the invariant of a loop that may return a value early -/
def retInv (s s1 : St) {β} : PostCond (β × (Option Value × Unit)) PS :=
  ⟨fun (_, r) st => ⌜Safe st ∧ Le s st ∧ SzLe s1 st ∧
      ∀ v, r.1 = some v → ValOk st.thunks.size st.objs.size st.funcs.size v⌝,
   fun e st => ⌜Safe st ∧ Good2 e ∧ SzLe s st⌝, fun _ => ⌜True⌝, ()⟩

/-- the invariant of the loop of `std.join` on arrays -/
def joinInvB (s s1 : St) {β} : PostCond (β × (List TId × Bool)) PS :=
  ⟨fun (_, r) st => ⌜Safe st ∧ Le s st ∧ SzLe s1 st ∧ ∀ t ∈ r.1, t < st.thunks.size⌝,
   fun e st => ⌜Safe st ∧ Good2 e ∧ SzLe s st⌝, fun _ => ⌜True⌝, ()⟩

/-- the invariant of the loop of `std.mapWithKey` -/
def fieldsInv (s s1 : St) {β} : PostCond (β × List Field) PS :=
  ⟨fun (_, fields) st => ⌜Safe st ∧ Le s st ∧ SzLe s1 st ∧ ∀ f ∈ fields, FieldRng st.thunks.size st.envs.size f⌝,
   fun e st => ⌜Safe st ∧ Good2 e ∧ SzLe s st⌝, fun _ => ⌜True⌝, ()⟩

/-- values in range -/
def ValsOk (st : St) (vs : List Value) : Prop :=
  ∀ v ∈ vs, ValOk st.thunks.size st.objs.size st.funcs.size v

theorem ValsOk.mono {a b : St} {vs : List Value} (h : ValsOk a vs) (h1 : a.thunks.size ≤ b.thunks.size)
    (h2 : a.objs.size ≤ b.objs.size) (h3 : a.funcs.size ≤ b.funcs.size) : ValsOk b vs :=
  fun v hv => (h v hv).mono h1 h2 h3

theorem ValsOk.snoc {a b : St} {vs : List Value} {v : Value} (h : ValsOk a vs) (h1 : a.thunks.size ≤ b.thunks.size)
    (h2 : a.objs.size ≤ b.objs.size) (h3 : a.funcs.size ≤ b.funcs.size)
    (hv : ValOk b.thunks.size b.objs.size b.funcs.size v) : ValsOk b (vs ++ [v]) := by
  intro x hx
  rcases List.mem_append.1 hx with hx | hx
  · exact (h x hx).mono h1 h2 h3
  · simp only [List.mem_singleton] at hx; subst hx; exact hv

theorem ValsOk.get {a b : St} {vs : List Value} {v : Value} {i : Nat} (h : ValsOk a vs) (hi : vs[i]? = some v)
    (h1 : a.thunks.size ≤ b.thunks.size) (h2 : a.objs.size ≤ b.objs.size) (h3 : a.funcs.size ≤ b.funcs.size) :
    ValOk b.thunks.size b.objs.size b.funcs.size v :=
  (h v (List.mem_of_getElem? hi)).mono h1 h2 h3

/-- the invariant of the loops of `std_sortKeys` that collect the keys -/
def keysInv (s s1 : St) {α} {l : List α} : PostCond (List.Cursor l × List Value) PS :=
  ⟨fun (cur, keys) st => ⌜Safe st ∧ Le s st ∧ SzLe s1 st ∧ keys.length = cur.prefix.length ∧ ValsOk st keys⌝,
   fun e st => ⌜Safe st ∧ Good2 e ∧ SzLe s st⌝, fun _ => ⌜True⌝, ()⟩

/-- the invariant of the loop of `std_sortKeys` that prepares the applications -/
def callsLenInv (s s1 : St) {α} {l : List α} : PostCond (List.Cursor l × List (Expr × EId)) PS :=
  ⟨fun (cur, calls) st => ⌜Safe st ∧ Le s st ∧ SzLe s1 st ∧ calls.length = cur.prefix.length ∧
      ∀ c ∈ calls, CallRng st.envs.size c⌝,
   fun e st => ⌜Safe st ∧ Good2 e ∧ SzLe s st⌝, fun _ => ⌜True⌝, ()⟩

/-- the invariant of the partition loop of `std_qsort` -/
def partInv (s s1 : St) (n : Nat) {β} : PostCond (β × (List Nat × List Nat)) PS :=
  ⟨fun (_, r) st => ⌜Safe st ∧ Le s st ∧ SzLe s1 st ∧ (∀ i ∈ r.1, i < n) ∧ ∀ i ∈ r.2, i < n⌝,
   fun e st => ⌜Safe st ∧ Good2 e ∧ SzLe s st⌝, fun _ => ⌜True⌝, ()⟩

/-- the invariant of the last loop of `std_sortSet` -/
def uniqInv (s s1 : St) {β} : PostCond (β × (List TId × Option Value)) PS :=
  ⟨fun (_, r) st => ⌜Safe st ∧ Le s st ∧ SzLe s1 st ∧ (∀ t ∈ r.1, t < st.thunks.size) ∧
      ∀ v, r.2 = some v → ValOk st.thunks.size st.objs.size st.funcs.size v⌝,
   fun e st => ⌜Safe st ∧ Good2 e ∧ SzLe s st⌝, fun _ => ⌜True⌝, ()⟩

/-- normal form of a verification condition, with the invariants of this file -/
macro "vcprep3" : tactic => `(tactic|
  ((try intros); (try simp only [callsInv2, valInv, retInv, joinInvB, fieldsInv, keysInv, callsLenInv, partInv, uniqInv] at *); vcprep2))

theorem mem_zip_zipIdx_split_left {α β} {l1 : List α} {l2 : List β} {pref suff : List ((α × β) × Nat)}
    {cur : (α × β) × Nat} (h : (l1.zip l2).zipIdx = pref ++ cur :: suff) : cur.1.1 ∈ l1 :=
  (List.of_mem_zip (a := cur.1.1) (b := cur.1.2) (mem_zipIdx_split h)).1

theorem mem_head_eq {α} {l rest : List α} {x : α} (h : l = x :: rest) : x ∈ l := by
  rw [h]; simp

theorem mem_tail_split {α} {l pref suff : List α} {x cur : α} (h : l = x :: (pref ++ cur :: suff)) : cur ∈ l := by
  rw [h]; simp

open Lean Elab Tactic Meta in
/-- for every `l = pref ++ cur :: suff` of a loop in the context, add the membership of `cur` -/
elab "mem_sat" : tactic => withMainContext do
  let lctx ← getLCtx
  let mut newFacts : Array Lean.Expr := #[]
  for d in lctx do
    if d.isImplementationDetail then continue
    let ty ← instantiateMVars d.type
    let some (_, _, rhs) := ty.eq? | continue
    unless rhs.isAppOf ``HAppend.hAppend || rhs.isAppOf ``List.cons do continue
    for lem in [``Rsj.Eval.Scope.zipIdx_split, ``Rsj.Eval.Safe.mem_head_eq, ``Rsj.Eval.Safe.mem_tail_split, ``Rsj.Eval.Scope.mem_of_split, ``Rsj.Eval.Scope.mem_zipIdx_split,
        ``Rsj.Eval.Scope.mem_zip_zipIdx_split, ``Rsj.Eval.Safe.mem_zip_zipIdx_split_left] do
      try
        let pf ← mkAppM lem #[d.toExpr]
        newFacts := newFacts.push pf
      catch _ => pure ()
  let mut g ← getMainGoal
  for pf in newFacts do
    let ty ← inferType pf
    let (_, g') ← (← g.assert `hmem ty pf).intro1
    g := g'
  replaceMainGoal [g]

/-- membership facts of the loops, then `grind` -/
macro "lclose" : tactic => `(tactic|
  (mem_sat; (try simp +zetaDelta only [TaskOk2, ResKind, CallRng, List.mem_reverse] at *); safe_grind))

/-- lengths of lists -/
macro "lenTac" : tactic => `(tactic|
  ((try simp +zetaDelta only [List.length_append, List.length_cons, List.length_nil, List.length_zipIdx,
      List.length_reverse, List.length_range] at *); omega))

/-- closers of this file -/
macro "s3close" : tactic => `(tactic| first
  | s2close
  | (refine ⟨by assumption, ⟨⟨by omega, by omega, by omega, by omega⟩, by pchain⟩,
      ⟨by omega, by omega, by omega, by omega⟩, ?_⟩; lclose)
  | (refine ⟨by assumption, ⟨⟨by omega, by omega, by omega, by omega⟩, by pchain⟩, ?_⟩; lclose)
  | lclose)

theorem calls_cons2 {ne ne' : Nat} {calls : List (Expr × EId)} {c : Expr × EId}
    (h : ∀ c ∈ calls, CallRng ne c) (h1 : ne ≤ ne') (hc : CallRng ne' c) :
    ∀ x ∈ c :: calls, CallRng ne' x := by
  intro x hx
  rcases List.mem_cons.1 hx with rfl | hx
  · exact hc
  · exact (h x hx).mono h1

theorem std_bindCall_spec2 (s : St) (f : FId) (args : List TId) (hS : Safe s) (hf : f < s.funcs.size)
    (hargs : ∀ t ∈ args, t < s.thunks.size) :
    ⦃fun st => ⌜st = s⌝⦄ std_bindCall f args ⦃Q2 s (fun r st => CallRng st.envs.size r)⦄ := by
  have h5 := getFunc_spec2
  have h6 := bindThunkArgs_spec2
  have h7 := newEnv_spec2
  qstart2
  unfold std_bindCall
  mvcgen [h5, h6, h7]
  all_goals clear h5 h6 h7
  all_goals vcprep2
  all_goals first
    | s2close
    | exact zip_rng (by assumption)
    | exact zip_rng (by assumption) _ (by assumption)
    | (have hf := Safe.funcs (by assumption) _ _ (by assumption); exact hf.mono (by omega))
    | (have hf := Safe.funcs (by assumption) _ _ (by assumption)
       exact ⟨by assumption, by s2close, by assumption, hf.2.1⟩)

section
variable (cfg : Cfg) (rec : Task → M Value) (hrec : RecOk2 rec)
include hrec

set_option hygiene false in
/-- a builtin: verification conditions with the specs of the helpers, the invariants, the closers -/
macro "bstd2" : tactic => `(tactic|
  (have g1 := std_bindCall_spec2
   have g2 := checkDepth_spec2
   have g3 := allocThunk_spec2
   have g4 := getObj_spec2
   have g5 := fieldThunk_spec2
   have g6 := recStr_spec2 rec hrec
   have g7 := coerceToString_spec2 rec hrec
   have g8 := allocObj_spec2
   have hr := rec_spec2 rec hrec
   qstart2
   mvcgen [g1, g2, g3, g4, g5, g6, g7, g8, hr]
   on_invs first | exact callsInv2 s ‹St› | exact outInv s ‹St› | exact valInv s ‹St› | exact retInv s ‹St› | exact joinInvB s ‹St› | exact fieldsInv s ‹St› | exact loopInv s ‹St›
   all_goals (try clear g1 g2 g3 g4 g5 g6 g7 g8 hr)
   all_goals vcprep3
   all_goals first
     | s3close))

theorem std_foldl_spec2 (s : St) (t0 t1 t2 : TId) (d1 : Nat) (hS : Safe s) (h0 : t0 < s.thunks.size)
    (h1' : t1 < s.thunks.size) (h2' : t2 < s.thunks.size) :
    ⦃fun st => ⌜st = s⌝⦄ std_foldl cfg rec t0 t1 t2 d1
      ⦃Q2 s (fun v st => ValOk st.thunks.size st.objs.size st.funcs.size v)⦄ := by
  unfold std_foldl; bstd2

theorem std_join_spec2 (s : St) (t0 t1 : TId) (d1 : Nat) (hS : Safe s) (h0 : t0 < s.thunks.size)
    (h1' : t1 < s.thunks.size) :
    ⦃fun st => ⌜st = s⌝⦄ std_join rec t0 t1 d1
      ⦃Q2 s (fun v st => ValOk st.thunks.size st.objs.size st.funcs.size v)⦄ := by
  unfold std_join; bstd2

theorem std_member_spec2 (s : St) (t0 t1 : TId) (d1 : Nat) (hS : Safe s) (h0 : t0 < s.thunks.size)
    (h1' : t1 < s.thunks.size) :
    ⦃fun st => ⌜st = s⌝⦄ std_member rec t0 t1 d1
      ⦃Q2 s (fun v st => ValOk st.thunks.size st.objs.size st.funcs.size v)⦄ := by
  unfold std_member; bstd2

theorem std_filter_spec2 (s : St) (t0 t1 : TId) (d1 : Nat) (hS : Safe s) (h0 : t0 < s.thunks.size)
    (h1' : t1 < s.thunks.size) :
    ⦃fun st => ⌜st = s⌝⦄ std_filter cfg rec t0 t1 d1
      ⦃Q2 s (fun v st => ValOk st.thunks.size st.objs.size st.funcs.size v)⦄ := by
  unfold std_filter; bstd2

theorem std_foldr_spec2 (s : St) (t0 t1 t2 : TId) (d1 : Nat) (hS : Safe s) (h0' : t0 < s.thunks.size) (h1' : t1 < s.thunks.size) (h2' : t2 < s.thunks.size) :
    ⦃fun st => ⌜st = s⌝⦄ std_foldr cfg rec t0 t1 t2 d1
      ⦃Q2 s (fun v st => ValOk st.thunks.size st.objs.size st.funcs.size v)⦄ := by
  unfold std_foldr; bstd2

set_option maxHeartbeats 1000000 in
theorem std_flatMap_spec2 (s : St) (t0 t1 : TId) (d1 : Nat) (hS : Safe s) (h0' : t0 < s.thunks.size) (h1' : t1 < s.thunks.size) :
    ⦃fun st => ⌜st = s⌝⦄ std_flatMap cfg rec t0 t1 d1
      ⦃Q2 s (fun v st => ValOk st.thunks.size st.objs.size st.funcs.size v)⦄ := by
  unfold std_flatMap; bstd2

theorem std_mapWithIndex_spec2 (s : St) (t0 t1 : TId) (d1 : Nat) (hS : Safe s) (h0' : t0 < s.thunks.size) (h1' : t1 < s.thunks.size) :
    ⦃fun st => ⌜st = s⌝⦄ std_mapWithIndex rec t0 t1 d1
      ⦃Q2 s (fun v st => ValOk st.thunks.size st.objs.size st.funcs.size v)⦄ := by
  unfold std_mapWithIndex; bstd2

set_option maxHeartbeats 1000000 in
theorem std_filterMap_spec2 (s : St) (t0 t1 t2 : TId) (d1 : Nat) (hS : Safe s) (h0' : t0 < s.thunks.size) (h1' : t1 < s.thunks.size) (h2' : t2 < s.thunks.size) :
    ⦃fun st => ⌜st = s⌝⦄ std_filterMap cfg rec t0 t1 t2 d1
      ⦃Q2 s (fun v st => ValOk st.thunks.size st.objs.size st.funcs.size v)⦄ := by
  unfold std_filterMap; bstd2

set_option maxRecDepth 4096 in
theorem std_range_spec2 (s : St) (t0 t1 : TId) (d1 : Nat) (hS : Safe s) (h0' : t0 < s.thunks.size) (h1' : t1 < s.thunks.size) :
    ⦃fun st => ⌜st = s⌝⦄ std_range rec t0 t1 d1
      ⦃Q2 s (fun v st => ValOk st.thunks.size st.objs.size st.funcs.size v)⦄ := by
  unfold std_range; bstd2

theorem std_count_spec2 (s : St) (t0 t1 : TId) (d1 : Nat) (hS : Safe s) (h0' : t0 < s.thunks.size) (h1' : t1 < s.thunks.size) :
    ⦃fun st => ⌜st = s⌝⦄ std_count rec t0 t1 d1
      ⦃Q2 s (fun v st => ValOk st.thunks.size st.objs.size st.funcs.size v)⦄ := by
  unfold std_count; bstd2

theorem std_all_spec2 (s : St) (t : TId) (d1 : Nat) (hS : Safe s) (h0' : t < s.thunks.size) :
    ⦃fun st => ⌜st = s⌝⦄ std_all rec t d1
      ⦃Q2 s (fun v st => ValOk st.thunks.size st.objs.size st.funcs.size v)⦄ := by
  unfold std_all; bstd2

theorem std_any_spec2 (s : St) (t : TId) (d1 : Nat) (hS : Safe s) (h0' : t < s.thunks.size) :
    ⦃fun st => ⌜st = s⌝⦄ std_any rec t d1
      ⦃Q2 s (fun v st => ValOk st.thunks.size st.objs.size st.funcs.size v)⦄ := by
  unfold std_any; bstd2

theorem std_equals_spec2 (s : St) (t0 t1 : TId) (d1 : Nat) (hS : Safe s) (h0' : t0 < s.thunks.size) (h1' : t1 < s.thunks.size) :
    ⦃fun st => ⌜st = s⌝⦄ std_equals rec t0 t1 d1
      ⦃Q2 s (fun v st => ValOk st.thunks.size st.objs.size st.funcs.size v)⦄ := by
  unfold std_equals; bstd2

theorem std_compare_spec2 (s : St) (t0 t1 : TId) (d1 : Nat) (hS : Safe s) (h0' : t0 < s.thunks.size) (h1' : t1 < s.thunks.size) :
    ⦃fun st => ⌜st = s⌝⦄ std_compare rec t0 t1 d1
      ⦃Q2 s (fun v st => ValOk st.thunks.size st.objs.size st.funcs.size v)⦄ := by
  unfold std_compare; bstd2

theorem std_primitiveEquals_spec2 (s : St) (t0 t1 : TId) (d1 : Nat) (hS : Safe s) (h0' : t0 < s.thunks.size) (h1' : t1 < s.thunks.size) :
    ⦃fun st => ⌜st = s⌝⦄ std_primitiveEquals rec t0 t1 d1
      ⦃Q2 s (fun v st => ValOk st.thunks.size st.objs.size st.funcs.size v)⦄ := by
  unfold std_primitiveEquals; bstd2

theorem std_assertEqual_spec2 (s : St) (t0 t1 : TId) (d1 : Nat) (hS : Safe s) (h0' : t0 < s.thunks.size) (h1' : t1 < s.thunks.size) :
    ⦃fun st => ⌜st = s⌝⦄ std_assertEqual rec t0 t1 d1
      ⦃Q2 s (fun v st => ValOk st.thunks.size st.objs.size st.funcs.size v)⦄ := by
  unfold std_assertEqual; bstd2

theorem std_toString_spec2 (s : St) (t : TId) (d1 : Nat) (hS : Safe s) (h0' : t < s.thunks.size) :
    ⦃fun st => ⌜st = s⌝⦄ std_toString rec t d1
      ⦃Q2 s (fun v st => ValOk st.thunks.size st.objs.size st.funcs.size v)⦄ := by
  unfold std_toString; bstd2

set_option maxHeartbeats 1000000 in
theorem std_mapWithKey_spec2 (s : St) (t0 t1 : TId) (d1 : Nat) (hS : Safe s) (h0' : t0 < s.thunks.size)
    (h1' : t1 < s.thunks.size) :
    ⦃fun st => ⌜st = s⌝⦄ std_mapWithKey rec t0 t1 d1
      ⦃Q2 s (fun v st => ValOk st.thunks.size st.objs.size st.funcs.size v)⦄ := by
  unfold std_mapWithKey; bstd2

end
end Rsj.Eval.Safe
