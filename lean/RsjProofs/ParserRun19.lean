/-
  C15 print/parse, part 19: the second fragment `Frag2` — every node is well-formed in the sense
  of `NodeWF` — as the inductive predicate `Br2` over the direct subexpressions of a node
  (`skids`: parsed by the same loop; `pkids`: parsed by a recursive call of `parse_expr`);
  shape of printed positions; from "all bracketed subexpressions are handled" to the structured
  hypotheses of the machine lemmas.
-/
import RsjProofs.ParserRun18
namespace Rsj.Parser

/-! ### direct subexpressions -/

def optL : Option Expr → List Expr
  | none => []
  | some x => [x]

def paramsExprs (ps : List Param) : List Expr := ps.flatMap (fun p => optL p.dflt)
def Bind.exprs (b : Bind) : List Expr := paramsExprs b.params ++ [b.value]
def bindsExprs (bs : List Bind) : List Expr := bs.flatMap Bind.exprs
def Assert.exprs (a : Assert) : List Expr := a.cond :: optL a.msg
def FieldName.exprs : FieldName → List Expr
  | .expr e _ => [e]
  | _ => []
def Field.exprs : Field → List Expr
  | .value n _ _ e => n.exprs ++ [e]
  | .func n ps _ _ e => n.exprs ++ paramsExprs ps ++ [e]
def Member.exprs : Member → List Expr
  | .local_ b => b.exprs
  | .assert_ a => a.exprs
  | .field f => f.exprs
def ObjInside.exprs : ObjInside → List Expr
  | .members ms => ms.flatMap Member.exprs
  | .comp l1 n _ body l2 spec => bindsExprs l1 ++ [n, body] ++ bindsExprs l2 ++ spec.map CompSpec.expr

/-- subexpressions parsed by the same loop of `parse_expr` (operands, postfix bases, parenthesised
    expressions, array items) -/
def skids : Expr → List Expr
  | .paren e _ => [e]
  | .unary _ e _ => [e]
  | .binary l _ r _ => [l, r]
  | .inSuper e _ _ => [e]
  | .field e _ _ => [e]
  | .index e _ _ => [e]
  | .slice e _ _ _ _ => [e]
  | .call f _ _ _ => [f]
  | .objExt e _ _ _ => [e]
  | .array items _ => items
  | .arrayComp e _ _ => [e]
  | _ => []

/-- subexpressions parsed by a recursive call of `parse_expr` -/
def pkids : Expr → List Expr
  | .superIndex _ i _ => [i]
  | .index _ i _ => [i]
  | .slice _ i1 i2 i3 _ => optL i1 ++ optL i2 ++ optL i3
  | .call _ args _ _ => args.map Arg.expr
  | .objExt _ o _ _ => o.exprs
  | .object o _ => o.exprs
  | .arrayComp _ spec _ => spec.map CompSpec.expr
  | .local_ binds body _ => bindsExprs binds ++ [body]
  | .ite_ c t e _ => c :: t :: optL e
  | .func ps body _ => paramsExprs ps ++ [body]
  | .assert_ a body _ => a.exprs ++ [body]
  | .import_ e _ => [e]
  | .importStr e _ => [e]
  | .importBin e _ => [e]
  | .error_ e _ => [e]
  | _ => []

/-! ### well-formed nodes -/

/-- a bind without a parameter list has no parameters (`params: None` in the Rust AST) -/
def BindWF (b : Bind) : Prop := b.hasParams = false → b.params = []
/-- a comprehension begins with a `for` -/
def SpecWF (spec : List CompSpec) : Prop := ∃ v inner rest, spec = .for_ v inner :: rest
def MemberWF : Member → Prop
  | .local_ b => BindWF b
  | _ => True
def ObjWF : ObjInside → Prop
  | .members ms => ∀ m ∈ ms, MemberWF m
  | .comp l1 _ _ _ l2 spec => (∀ b ∈ l1, BindWF b) ∧ (∀ b ∈ l2, BindWF b) ∧ SpecWF spec

/-- what the parser guarantees of a single node, beyond its type: `local` has at least one
    bind, binds without parameter list have no parameters, comprehensions begin with `for` -/
def NodeWF : Expr → Prop
  | .local_ binds _ _ => binds ≠ [] ∧ ∀ b ∈ binds, BindWF b
  | .object o _ => ObjWF o
  | .objExt _ o _ _ => ObjWF o
  | .arrayComp _ spec _ => SpecWF spec
  | _ => True

/-- trees all of whose nodes are well-formed and all of whose `pkids` satisfy `Q` -/
inductive Br2 (Q : Expr → Prop) : Expr → Prop
  | mk (e : Expr) : NodeWF e → (∀ x ∈ skids e, Br2 Q x) → (∀ x ∈ pkids e, Br2 Q x) →
      (∀ x ∈ pkids e, Q x) → Br2 Q e

/-- **The second fragment**: every node is well-formed (`NodeWF`).  No restriction on the
    syntactic forms: atoms, parentheses, operators, `in super`, `super.f`, `super[i]`, field
    access, indexing, slices, calls, object extension, object literals (fields with
    identifier / string / computed names, `:` `::` `:::` and `+` variants, methods, locals,
    asserts), object comprehensions, arrays, array comprehensions, `local`, `if`, `function`,
    `assert`, `import`, `importstr`, `importbin`, `error`. -/
def Frag2 (e : Expr) : Prop := Br2 (fun _ => True) e

theorem Br2.imp {Q Q' : Expr → Prop} (hq : ∀ i, Q i → Q' i) {e : Expr} (h : Br2 Q e) : Br2 Q' e := by
  induction h with
  | mk e hwf _ _ hq0 ih1 ih2 => exact .mk e hwf ih1 ih2 (fun x hx => hq x (hq0 x hx))

/-! ### shape of printed positions -/

theorem ShapeW.simple {W : TokFn} (h : ∀ lvl o el, ∃ k rest, W lvl o el = sim k :: rest ∧
    exprStartB (sim k) = true ∧ k ≠ .Super ∧ k ≠ .Plus ∧ k ≠ .Minus ∧ k ≠ .Tilde ∧ k ≠ .Exclam) : ShapeW W := by
  refine ⟨fun lvl o el => ?_, fun o el => ?_⟩
  · obtain ⟨k, rest, hW, h1, h2, _⟩ := h lvl o el
    rw [hW]; exact headOK2_simple h1 h2
  · obtain ⟨k, rest, hW, _, _, h3, h4, h5, h6⟩ := h suffixPrec o el
    exact ⟨sim k, rest, hW, by simp [NotUnaryTok, sim, h3, h4, h5, h6]⟩

theorem ShapeW.single {W : TokFn} {tk : TokKind} (hW : ∀ lvl o el, W lvl o el = [tk])
    (h : (∃ v, tk = .string v) ∨ (∃ v, tk = .textBlock v) ∨ (∃ v, tk = .number v) ∨ (∃ v, tk = .ident v)) :
    ShapeW W := by
  refine ⟨fun lvl o el => ?_, fun o el => ⟨tk, [], hW _ _ _, ?_⟩⟩
  · rw [hW]
    refine ⟨?_, ?_, ?_⟩
    · rcases h with ⟨v, rfl⟩ | ⟨v, rfl⟩ | ⟨v, rfl⟩ | ⟨v, rfl⟩ <;> rfl
    · intro hs; rcases h with ⟨v, rfl⟩ | ⟨v, rfl⟩ | ⟨v, rfl⟩ | ⟨v, rfl⟩ <;> simp [sim] at hs
    · intro v b r2 _ hb; cases hb
  · rcases h with ⟨v, rfl⟩ | ⟨v, rfl⟩ | ⟨v, rfl⟩ | ⟨v, rfl⟩ <;> simp [NotUnaryTok, sim]

theorem ShapeW.super {W : TokFn} (h : ∀ lvl o el, ∃ r2, W lvl o el = sim .Super :: sim .Dot :: r2 ∨
    W lvl o el = sim .Super :: sim .LeftBracket :: r2) : ShapeW W := by
  refine ⟨fun lvl o el => ?_, fun o el => ?_⟩
  · obtain ⟨r2, hW | hW⟩ := h lvl o el <;> rw [hW]
    · refine ⟨rfl, fun _ => ⟨r2, Or.inl rfl⟩, fun v b r h => ?_⟩
      simp [sim] at h
    · refine ⟨rfl, fun _ => ⟨r2, Or.inr rfl⟩, fun v b r h => ?_⟩
      simp [sim] at h
  · obtain ⟨r2, hW | hW⟩ := h suffixPrec o el
    · exact ⟨_, _, hW, by simp [NotUnaryTok, sim]⟩
    · exact ⟨_, _, hW, by simp [NotUnaryTok, sim]⟩

/-- a subexpression position has the shape of the node (or is parenthesised) -/
theorem shape_sub (full : Bool) (t : Expr) (h : ShapeW (pr full t)) : ShapeW (sub full t) := by
  cases full with
  | false =>
    have : sub false t = pr false t := by funext lvl o el; exact sub_false t lvl o el
    rw [this]; exact h
  | true =>
    exact ShapeW.simple (fun lvl o el => ⟨.LeftParen, pr true t 0 false false ++ [sim .RightParen],
      by simp [sub, parens_eq], by decide, by decide, by decide, by decide, by decide, by decide⟩)

/-- operator forms: parenthesised above level `q`, below `L … ++ tok :: …` -/
theorem ShapeW.open_ {W L : TokFn} (q : Nat) (hq : q < suffixPrec) {z : TokKind} (hz : z ≠ sim .Eq)
    (hW : ∀ lvl o el, (∃ ts, W lvl o el = parens ts) ∨ (lvl ≤ q ∧ ∃ l o' el' m, W lvl o el = L l o' el' ++ z :: m))
    (hL : ShapeW L) : ShapeW W := by
  refine ⟨fun lvl o el => ?_, fun o el => ?_⟩
  · rcases hW lvl o el with ⟨ts, h⟩ | ⟨_, l, o', el', m, h⟩ <;> rw [h]
    · exact headOK2_parens ts
    · exact (hL.head l o' el').append hz m
  · rcases hW suffixPrec o el with ⟨ts, h⟩ | ⟨hle, _⟩
    · exact ⟨_, _, by rw [h, parens_eq], notUnary_lparen⟩
    · omega

/-- postfix forms -/
theorem ShapeW.suffix {W X : TokFn} {z : TokKind} {Z' : Toks} (hz : z ≠ sim .Eq)
    (hW : ∀ lvl o el, W lvl o el = X suffixPrec true false ++ z :: Z') (hX : ShapeW X) : ShapeW W := by
  refine ⟨fun lvl o el => ?_, fun o el => ?_⟩
  · rw [hW]; exact (hX.head suffixPrec true false).append hz Z'
  · obtain ⟨a, l, hal, hnu⟩ := hX.prim true false
    exact ⟨a, l ++ z :: Z', by rw [hW, hal]; rfl, hnu⟩

/-- prefix forms: `( … )` or a keyword -/
theorem ShapeW.prefix_ {W : TokFn} {k : STok} (hk : exprStartB (sim k) = true) (h2 : k ≠ .Super) (h3 : k ≠ .Plus)
    (h4 : k ≠ .Minus) (h5 : k ≠ .Tilde) (h6 : k ≠ .Exclam)
    (hW : ∀ lvl o el, (∃ ts, W lvl o el = parens ts) ∨ (∃ rest, W lvl o el = sim k :: rest)) : ShapeW W := by
  refine ShapeW.simple (fun lvl o el => ?_)
  rcases hW lvl o el with ⟨ts, h⟩ | ⟨rest, h⟩
  · exact ⟨.LeftParen, _, by rw [h, parens_eq], by decide, by decide, by decide, by decide, by decide, by decide⟩
  · exact ⟨k, rest, h, hk, h2, h3, h4, h5, h6⟩

/-! ### from membership in `pkids` to the structured hypotheses -/

section
variable {toks : List Token} (pe : PState toks → Except (Err toks) (Expr × PState toks)) (R : Nat)

theorem paramsOK_of {full : Bool} {ps : List Param} (h : ∀ x ∈ paramsExprs ps, PCh pe R full x) :
    ∀ p ∈ ps, ∀ d, p.dflt = some d → PCh pe R full d := by
  intro p hp d hd
  apply h
  unfold paramsExprs
  rw [List.mem_flatMap]
  exact ⟨p, hp, by rw [hd]; simp [optL]⟩

theorem bindOK_of {full : Bool} {b : Bind} (hwf : BindWF b) (h : ∀ x ∈ b.exprs, PCh pe R full x) :
    BindOK pe R full b :=
  ⟨hwf, paramsOK_of pe R (fun x hx => h x (by simp [Bind.exprs, hx])), h _ (by simp [Bind.exprs])⟩

theorem bindsOK_of {full : Bool} {bs : List Bind} (hwf : ∀ b ∈ bs, BindWF b)
    (h : ∀ x ∈ bindsExprs bs, PCh pe R full x) : ∀ b ∈ bs, BindOK pe R full b := by
  intro b hb
  refine bindOK_of pe R (hwf b hb) (fun x hx => h x ?_)
  unfold bindsExprs
  rw [List.mem_flatMap]
  exact ⟨b, hb, hx⟩

theorem assertOK_of {full : Bool} {a : Assert} (h : ∀ x ∈ a.exprs, PCh pe R full x) : AssertOK pe R full a :=
  ⟨h _ (by simp [Assert.exprs]), fun m hm => h m (by simp [Assert.exprs, hm, optL])⟩

theorem fieldNameOK_of {full : Bool} {n : FieldName} (h : ∀ x ∈ n.exprs, PCh pe R full x) :
    FieldNameOK pe R full n := by
  intro e sp hn
  subst hn
  exact h e (by simp [FieldName.exprs])

theorem fieldOK_of {full : Bool} {f : Field} (h : ∀ x ∈ f.exprs, PCh pe R full x) : FieldOK pe R full f := by
  cases f with
  | value n plus vis e =>
    exact ⟨fieldNameOK_of pe R (fun x hx => h x (by simp [Field.exprs, hx])), h e (by simp [Field.exprs])⟩
  | func n ps sp vis e =>
    exact ⟨fieldNameOK_of pe R (fun x hx => h x (by simp [Field.exprs, hx])),
      paramsOK_of pe R (fun x hx => h x (by simp [Field.exprs, hx])), h e (by simp [Field.exprs])⟩

theorem memberOK_of {full : Bool} {m : Member} (hwf : MemberWF m) (h : ∀ x ∈ m.exprs, PCh pe R full x) :
    MemberOK pe R full m := by
  cases m with
  | local_ b => exact bindOK_of pe R hwf h
  | assert_ a => exact assertOK_of pe R h
  | field f => exact fieldOK_of pe R h

theorem specsOK_of {full : Bool} {spec : List CompSpec} (hwf : SpecWF spec)
    (h : ∀ x ∈ spec.map CompSpec.expr, PCh pe R full x) : SpecsOK pe R full spec :=
  ⟨hwf, fun s hs => h _ (List.mem_map.mpr ⟨s, hs, rfl⟩)⟩

theorem objOK_of {full : Bool} {o : ObjInside} (hwf : ObjWF o) (h : ∀ x ∈ o.exprs, PCh pe R full x) :
    ObjOK pe R full o := by
  cases o with
  | members ms =>
    intro m hm
    refine memberOK_of pe R (hwf m hm) (fun x hx => h x ?_)
    simp only [ObjInside.exprs, List.mem_flatMap]
    exact ⟨m, hm, hx⟩
  | comp l1 n plus body l2 spec =>
    obtain ⟨w1, w2, w3⟩ := hwf
    refine ⟨bindsOK_of pe R w1 (fun x hx => h x (by simp [ObjInside.exprs, hx])),
      h n (by simp [ObjInside.exprs]), h body (by simp [ObjInside.exprs]),
      bindsOK_of pe R w2 (fun x hx => h x (by simp [ObjInside.exprs, hx])),
      specsOK_of pe R w3 (fun x hx => h x ?_)⟩
    simp only [ObjInside.exprs, List.mem_append]
    exact Or.inr hx

end
end Rsj.Parser
