/-
  Phase "Mark" (`phase2`), phase "Sweep" (`sweep`) and the assembled specification of `collect`.
-/
import RsjProofs.GcPhase1
namespace Rsj.Gc

/-- Invariant of the loop `for obj in objs.iter()` of the phase "Mark";
    `js` = ids of the objects not yet examined. -/
structure Inv2 (G H : Heap) (js : List Nat) : Prop where
  core : Core G H
  viewsDone : ∀ o ∈ H, o.views > 0 → o.mark = true
  sandwich : ∀ o ∈ H, unmarkedIn H o.id ≤ o.visits ∧ o.visits ≤ inDeg H o.id
  extDone : ∀ o ∈ H, o.id ∉ js → o.ext > 0 → o.mark = true

theorem Inv2.ofInv1 {G H : Heap} (h : Inv1 G H []) : Inv2 G H (ids H) := by
  have hc := h.core; have hs := h.sandwich
  simp only [List.append_nil] at hc hs
  exact ⟨hc, h.viewsDone, hs, fun o ho hn => absurd (mem_ids_of_mem ho) hn⟩

/-- **Key lemma.** For an object that is still unmarked, every live handle to it has been
    counted: `visits = ` number of in-heap handles, i.e. `weak_count - visits = ext`. -/
theorem Inv2.visits_eq {G H : Heap} {js : List Nat} (h : Inv2 G H js) {o : Obj} (ho : o ∈ H)
    (hm : o.mark = false) : o.visits = inDeg H o.id := by
  have hsplit := inDeg_filter_split H (fun x => !x.mark) o.id
  have hzero : inDeg (H.filter (fun x => !(!x.mark))) o.id = 0 := by
    apply inDeg_eq_zero
    intro m hmem hj
    obtain ⟨hmH, hmk⟩ := List.mem_filter.mp hmem
    have hmk' : m.mark = true := by simpa using hmk
    have := h.core.closed m hmH hmk' o.id hj o ho rfl
    rw [hm] at this; cases this
  have := h.sandwich o ho
  unfold unmarkedIn at this
  omega

/-- The root test of phase 2 selects exactly the unmarked objects with an outside handle. -/
theorem Inv2.root_test {G H : Heap} {js : List Nat} (h : Inv2 G H js) {o : Obj} (ho : o ∈ H)
    (hm : o.mark = false) : weakCount H o > o.visits ↔ o.ext > 0 := by
  have := h.visits_eq ho hm
  unfold weakCount; omega

theorem Inv2.step {G H : Heap} {j : Nat} {js : List Nat} (h : Inv2 G H (j :: js)) :
    Inv2 G (match find H j with
      | some o =>
        if !o.mark && weakCount H o > o.visits then setMarks (markFrom H j) H else H
      | none => H) js := by
  cases hf : find H j with
  | none =>
    simp only
    refine ⟨h.core, h.viewsDone, h.sandwich, ?_⟩
    intro o ho hn he
    refine h.extDone o ho ?_ he
    intro hc
    rcases List.mem_cons.mp hc with hc | hc
    · exact (find_none.mp hf) (hc ▸ mem_ids_of_mem ho)
    · exact hn hc
  | some o =>
    obtain ⟨ho, hid⟩ := find_some hf
    simp only
    by_cases hcond : (!o.mark && decide (weakCount H o > o.visits)) = true
    · rw [if_pos hcond]
      have hm : o.mark = false := by
        simp only [Bool.and_eq_true, Bool.not_eq_true', decide_eq_true_eq] at hcond; exact hcond.1
      have hwk : weakCount H o > o.visits := by
        simp only [Bool.and_eq_true, Bool.not_eq_true', decide_eq_true_eq] at hcond; exact hcond.2
      have hext : o.ext > 0 := (h.root_test ho hm).mp hwk
      have hreach : Reach G o.id := by
        have := Reach.root (H := G) (h.core.orig o ho) (Or.inr (by simpa using hext))
        simpa using this
      obtain ⟨hcore, hx⟩ := h.core.mark ho hreach
      rw [hid] at hcore hx
      generalize markFrom H j = R at hcore hx ⊢
      refine ⟨hcore, ?_, ?_, ?_⟩
      · intro o' ho' hv
        obtain ⟨o0, h0, rfl⟩ := mem_setMarks.mp ho'
        rw [markObj_mark]; left
        exact h.viewsDone o0 h0 (by simpa using hv)
      · intro o' ho'
        obtain ⟨o0, h0, rfl⟩ := mem_setMarks.mp ho'
        have := h.sandwich o0 h0
        have hle := unmarkedIn_setMarks_le R H o0.id
        rw [inDeg_setMarks]
        simp only [markObj_id, markObj_visits]
        omega
      · intro o' ho' hn he
        obtain ⟨o0, h0, rfl⟩ := mem_setMarks.mp ho'
        rw [markObj_id] at hn
        rw [markObj_mark]
        by_cases hj : o0.id = j
        · right; rw [hj]; exact hx
        · left
          refine h.extDone o0 h0 ?_ (by simpa using he)
          intro hc
          rcases List.mem_cons.mp hc with hc | hc
          · exact hj hc
          · exact hn hc
    · rw [if_neg hcond]
      refine ⟨h.core, h.viewsDone, h.sandwich, ?_⟩
      intro o0 h0 hn he
      by_cases hj : o0.id = j
      · have : o0 = o := h.core.wf.eq_of_id h0 ho (by rw [hj, hid])
        subst this
        cases hm : o0.mark with
        | true => rfl
        | false =>
          exfalso
          apply hcond
          have := (h.root_test h0 hm).mpr he
          simp [hm, this]
      · refine h.extDone o0 h0 ?_ he
        intro hc
        rcases List.mem_cons.mp hc with hc | hc
        · exact hj hc
        · exact hn hc

theorem phase2_inv {G : Heap} (js : List Nat) (H : Heap) (h : Inv2 G H js) :
    Inv2 G (phase2 js H) [] := by
  induction js generalizing H with
  | nil => simpa [phase2] using h
  | cons j js ih =>
    have hs := h.step
    unfold phase2
    cases hf : find H j with
    | none => rw [hf] at hs; exact ih _ hs
    | some o =>
      rw [hf] at hs
      simp only at hs ⊢
      by_cases hcond : (!o.mark && decide (weakCount H o > o.visits)) = true
      · rw [if_pos hcond] at hs ⊢; exact ih _ hs
      · rw [if_neg hcond] at hs ⊢; exact ih _ hs

/-- After phase 2 every reachable object is present and marked. -/
theorem Inv2.complete {G H : Heap} (hG : WF G) (h : Inv2 G H []) {j : Nat} (hr : Reach G j) :
    ∃ o' ∈ H, o'.id = j ∧ o'.mark = true := by
  induction hr with
  | @root o ho hroot =>
    have hin : o.id ∈ ids H := by
      apply Classical.byContradiction
      intro hn; exact (h.core.dead o ho hn).1 hroot
    obtain ⟨o', ho', hid⟩ := mem_ids.mp hin
    have heq : resetObj o' = o := h.core.orig_eq hG ho' ho hid
    refine ⟨o', ho', hid, ?_⟩
    rcases hroot with hv | he
    · exact h.viewsDone o' ho' (by rw [← heq] at hv; simpa using hv)
    · exact h.extDone o' ho' (by simp) (by rw [← heq] at he; simpa using he)
  | @step o j ho _ hj hjG ih =>
    obtain ⟨o', ho', hid, hmk⟩ := ih
    have heq : resetObj o' = o := h.core.orig_eq hG ho' ho hid
    obtain ⟨p, hp, hpid⟩ := mem_ids.mp hjG
    have hin : j ∈ ids H := by
      apply Classical.byContradiction
      intro hn
      have := (h.core.dead p hp (by rw [hpid]; exact hn)).2 o ho (by rw [hpid]; exact hj)
      exact this (hid ▸ mem_ids_of_mem ho')
    obtain ⟨p', hp', hpid'⟩ := mem_ids.mp hin
    have hj' : j ∈ o'.edges := by rw [← heq] at hj; simpa using hj
    exact ⟨p', hp', hpid', h.core.closed o' ho' hmk j hj' p' hp' hpid'⟩

/-! ### Sweep -/

theorem sweep_perm (n : Nat) (done todo : Heap) (hn : todo.length ≤ n) :
    (sweep n done todo).Perm (done ++ (todo.filter (·.mark)).map resetObj) := by
  induction n generalizing done todo with
  | zero =>
    have : todo = [] := List.eq_nil_of_length_eq_zero (by omega)
    subst this; simp [sweep]
  | succ n ih =>
    cases todo with
    | nil => simp [sweep]
    | cons cur rest =>
      have hn' : rest.length ≤ n := by simp only [List.length_cons] at hn; omega
      simp only [sweep]
      by_cases hm : cur.mark = true
      · rw [if_pos hm]
        have := ih (done ++ [resetObj cur]) rest hn'
        simpa [List.filter_cons, hm] using this
      · rw [if_neg hm]
        have hr := rotate_perm rest
        have := ih done (rotate rest) (by rw [hr.length_eq]; exact hn')
        have hm' : cur.mark = false := by simpa using hm
        simp only [List.filter_cons, hm', Bool.false_eq_true, if_false]
        exact this.trans (((hr.filter _).map _).append_left done)

/-- Members of `collect G`: the marked objects after phase 2, reset. -/
theorem mem_collect {G : Heap} {o : Obj} :
    o ∈ collect G ↔
      ∃ o' ∈ phase2 (ids (phase1 G.length [] G 0)) (phase1 G.length [] G 0),
        o'.mark = true ∧ resetObj o' = o := by
  unfold collect
  simp only
  rw [(sweep_perm _ [] _ (Nat.le_refl _)).mem_iff]
  simp only [List.nil_append, List.mem_map, List.mem_filter]
  constructor
  · rintro ⟨o', ⟨h1, h2⟩, h3⟩; exact ⟨o', h1, h2, h3⟩
  · rintro ⟨o', h1, h2, h3⟩; exact ⟨o', ⟨h1, h2⟩, h3⟩

theorem collect_inv2 {G : Heap} (hG : WF G) (hc : Clean G) :
    Inv2 G (phase2 (ids (phase1 G.length [] G 0)) (phase1 G.length [] G 0)) [] :=
  phase2_inv _ _ (Inv2.ofInv1 (phase1_inv hG G.length [] G 0 (Inv1.init hG hc) (Nat.le_refl _)))

/-- **Exactness of `collect`** (both inclusions). -/
theorem collect_exact {G : Heap} (hG : WF G) (hc : Clean G) (o : Obj) :
    o ∈ collect G ↔ o ∈ G ∧ Reach G o.id := by
  have h := collect_inv2 hG hc
  rw [mem_collect]
  constructor
  · rintro ⟨o', ho', hmk, rfl⟩
    exact ⟨h.core.orig o' ho', by simpa using h.core.sound o' ho' hmk⟩
  · rintro ⟨ho, hr⟩
    obtain ⟨o', ho', hid, hmk⟩ := h.complete hG hr
    exact ⟨o', ho', hmk, h.core.orig_eq hG ho' ho hid⟩

theorem ids_map_resetObj (L : Heap) : ids (L.map resetObj) = ids L := by
  simp [ids, List.map_map, Function.comp_def]

theorem sweep_wf (H : Heap) (hw : WF H) : WF (sweep H.length [] H) := by
  refine WF.perm (sweep_perm _ [] _ (Nat.le_refl _)).symm ?_
  simp only [List.nil_append]
  unfold WF; rw [ids_map_resetObj]
  exact WF.sublist List.filter_sublist hw

theorem collect_wf {G : Heap} (hG : WF G) (hc : Clean G) : WF (collect G) :=
  sweep_wf _ (collect_inv2 hG hc).core.wf

theorem collect_clean (G : Heap) : Clean (collect G) := by
  intro o ho
  obtain ⟨o', _, _, rfl⟩ := mem_collect.mp ho
  exact ⟨rfl, rfl⟩

end Rsj.Gc
