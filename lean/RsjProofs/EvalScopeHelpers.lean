import RsjProofs.EvalScopeBlocks
/-!
  C09, run-time half: the helper functions of the evaluator (`want_thunk`, `want_field`,
  `do_binary_op`, the builtins, …) keep the store invariant whenever the recursive calls do.
-/
open Std.Do
set_option mvcgen.warning false
namespace Rsj.Eval.Scope
open Rsj.Core Rsj.Eval Rsj.Analyze

/-- the value expression of a field member -/
def memberValue : Members → Option Expr
  | .fieldFix _ _ _ ps ve _ => some (bindExpr ps ve)
  | .fieldDyn _ _ _ ps ve _ => some (bindExpr ps ve)
  | _ => none

theorem MemberOk_value {outer inner : AEnv} {m : Members} {v : Expr} (h : MemberOk outer inner m)
    (hv : memberValue m = some v) : WS v inner := by
  cases m with
  | fieldFix _ _ _ ps ve _ => simp only [memberValue, Option.some.injEq] at hv; subst hv; exact h
  | fieldDyn _ _ _ ps ve _ => simp only [memberValue, Option.some.injEq] at hv; subst hv; exact h.2
  | nil => cases hv
  | local_ => cases hv
  | assert_ => cases hv

/-- what `objectMember` does to the layer under construction: fields without an environment of
    their own are appended, whose expression (if kept) is the value expression of the member -/
def AddedFields (m : Members) (layer r : Layer) : Prop :=
  ∃ fs : List Field, r = { layer with fields := layer.fields ++ fs } ∧
    ∀ f ∈ fs, f.baseEnv = none ∧ (∀ ep, f.expr = some ep → memberValue m = some ep.1) ∧
      (f.thunk = none → f.expr.isSome = true)

theorem AddedFields.refl (m : Members) (layer : Layer) : AddedFields m layer layer :=
  ⟨[], by simp, by simp⟩

theorem AddedFields.of_added {m : Members} {v : Expr} {layer r : Layer} (hv : memberValue m = some v)
    (h : AddedField v none layer r) : AddedFields m layer r := by
  obtain ⟨f, h1, h2, h3, h4⟩ := h
  refine ⟨[f], h1, ?_⟩
  intro g hg
  simp only [List.mem_singleton] at hg
  subst hg
  exact ⟨h2, fun ep hep => by rw [h3 ep hep]; exact hv, h4⟩

section
variable (cfg : Cfg) (rec : Task → M Value) (hrec : RecOk rec)
include hrec

theorem rec_spec (t : Task) (s : St) (hI : Inv s) (hT : TaskOk s.envs t) :
    ⦃fun st => ⌜st = s⌝⦄ rec t ⦃Q s (fun _ _ => True)⦄ := hrec t s hI hT

theorem recStr_spec (s : St) (t : Task) (hI : Inv s) (hT : TaskOk s.envs t) :
    ⦃fun st => ⌜st = s⌝⦄ recStr rec t ⦃Q s (fun _ _ => True)⦄ := by
  have hr := rec_spec rec hrec
  qstart
  unfold recStr
  mvcgen [hr]
  all_goals clear hr
  all_goals vcprep
  all_goals first | sclose

theorem wantThunk_spec (s : St) (t : TId) (d : Nat) (hI : Inv s) :
    ⦃fun st => ⌜st = s⌝⦄ wantThunk cfg rec t d ⦃Q s (fun _ _ => True)⦄ := by
  have h1 := getThunk_spec
  have h2 := checkDepth_spec
  have hr := rec_spec rec hrec
  qstart
  unfold wantThunk
  mvcgen [h1, h2, hr]
  all_goals clear h1 h2 hr
  all_goals vcprep
  all_goals first | sclose

theorem coerceToString_spec (s : St) (v : Value) (d : Nat) (hI : Inv s) :
    ⦃fun st => ⌜st = s⌝⦄ coerceToString rec v d ⦃Q s (fun _ _ => True)⦄ := by
  have h1 := recStr_spec rec hrec
  qstart
  unfold coerceToString
  mvcgen [h1]
  all_goals clear h1
  all_goals vcprep
  all_goals first | sclose

theorem wantField_spec (s : St) (o : OId) (name : String) (d : Nat) (hI : Inv s) :
    ⦃fun st => ⌜st = s⌝⦄ wantField cfg rec o name d ⦃Q s (fun _ _ => True)⦄ := by
  have h1 := getObj_spec
  have h2 := checkDepth_spec
  have h3 := fieldThunk_spec
  have h4 := wantThunk_spec cfg rec hrec
  have hr := rec_spec rec hrec
  qstart
  unfold wantField
  mvcgen [h1, h2, h3, h4, hr]
  all_goals clear h1 h2 h3 h4 hr
  all_goals vcprep
  all_goals first | sclose

theorem wantSuperField_spec (s : St) (env : EId) (name : String) (d : Nat) (hI : Inv s)
    (ho : IsObjEnv s.envs env) :
    ⦃fun st => ⌜st = s⌝⦄ wantSuperField cfg rec env name d ⦃Q s (fun _ _ => True)⦄ := by
  have h1 := getObj_spec
  have h2 := getObjRef_spec
  have h3 := fieldThunk_spec
  have h4 := wantThunk_spec cfg rec hrec
  qstart
  unfold wantSuperField
  mvcgen [h1, h2, h3, h4]
  all_goals clear h1 h2 h3 h4
  all_goals vcprep
  all_goals first | sclose

theorem binaryOp_spec (s : St) (op : BinOp) (l r : Value) (d : Nat) (hs : Bool) (hI : Inv s) :
    ⦃fun st => ⌜st = s⌝⦄ binaryOp cfg rec op l r d hs ⦃Q s (fun _ _ => True)⦄ := by
  have h1 := getObj_spec
  have h2 := checkDepth_spec
  have h3 := checkNum_spec
  have h4 := safeInt_spec
  have h5 := allocObj_spec
  have h6 := coerceToString_spec rec hrec
  qstart
  unfold binaryOp
  mvcgen [h1, h2, h3, h4, h5, h6]
  all_goals clear h1 h2 h3 h4 h5 h6
  all_goals vcprep
  all_goals first
    | sclose
    | exact ⟨layers_extendObject' (by assumption) (hI.g.objs _ _ (by assumption)) (hI.g.objs _ _ (by assumption)),
        shape_extendObject' (by assumption) (hI.shape _ _ (by assumption)) (hI.shape _ _ (by assumption))⟩

theorem sliceArg_spec (s : St) (env : EId) (d : Nat) (x : OptExpr) (hI : Inv s)
    (hT : ∀ e, x = .some e → TaskOk s.envs (.eval e env false d)) :
    ⦃fun st => ⌜st = s⌝⦄ sliceArg rec env d x ⦃Q s (fun _ _ => True)⦄ := by
  have hr := rec_spec rec hrec
  qstart
  cases x <;> (unfold sliceArg; mvcgen [hr]; all_goals clear hr; all_goals vcprep)
  all_goals first | sclose | exact hT _ rfl

theorem std_length_spec (s : St) (t : TId) (d1 : Nat) (hI : Inv s) :
    ⦃fun st => ⌜st = s⌝⦄ std_length rec t d1 ⦃Q s (fun _ _ => True)⦄ := by
  have h1 := getObj_spec
  have h2 := getFunc_spec
  have hr := rec_spec rec hrec
  qstart
  unfold std_length
  mvcgen [h1, h2, hr]
  all_goals clear h1 h2 hr
  all_goals vcprep
  all_goals first | sclose

theorem std_type_spec (s : St) (t : TId) (d1 : Nat) (hI : Inv s) :
    ⦃fun st => ⌜st = s⌝⦄ std_type rec t d1 ⦃Q s (fun _ _ => True)⦄ := by
  have hr := rec_spec rec hrec
  qstart
  unfold std_type
  mvcgen [hr]
  all_goals clear hr
  all_goals vcprep
  all_goals first | sclose

theorem std_trace_spec (s : St) (t0 t1 : TId) (d1 : Nat) (hI : Inv s) :
    ⦃fun st => ⌜st = s⌝⦄ std_trace rec t0 t1 d1 ⦃Q s (fun _ _ => True)⦄ := by
  have h1 := pushTrace_spec
  have hr := rec_spec rec hrec
  qstart
  unfold std_trace
  mvcgen [h1, hr]
  all_goals clear h1 hr
  all_goals vcprep
  all_goals first | sclose

theorem std_objectHasEx_spec (s : St) (t0 t1 t2 : TId) (d1 : Nat) (hI : Inv s) :
    ⦃fun st => ⌜st = s⌝⦄ std_objectHasEx rec t0 t1 t2 d1 ⦃Q s (fun _ _ => True)⦄ := by
  have h1 := getObj_spec
  have hr := rec_spec rec hrec
  qstart
  unfold std_objectHasEx
  mvcgen [h1, hr]
  all_goals clear h1 hr
  all_goals vcprep
  all_goals first | sclose

theorem std_objectFieldsEx_spec (s : St) (t0 t1 : TId) (d1 : Nat) (hI : Inv s) :
    ⦃fun st => ⌜st = s⌝⦄ std_objectFieldsEx rec t0 t1 d1 ⦃Q s (fun _ _ => True)⦄ := by
  have h1 := getObj_spec
  have h2 := allocThunk_spec
  have hr := rec_spec rec hrec
  qstart
  unfold std_objectFieldsEx
  mvcgen [h1, h2, hr]
  assign_invs (Qg s (fun _ _ => True))
  all_goals clear h1 h2 hr
  all_goals vcprep
  all_goals first | sclose

theorem std_map_spec (s : St) (t0 t1 : TId) (d1 : Nat) (hI : Inv s) :
    ⦃fun st => ⌜st = s⌝⦄ std_map rec t0 t1 d1 ⦃Q s (fun _ _ => True)⦄ := by
  have h2 := allocThunk_spec
  have hr := rec_spec rec hrec
  qstart
  unfold std_map
  mvcgen [h2, hr]
  assign_invs (Qg s (fun _ _ => True))
  all_goals clear h2 hr
  all_goals vcprep
  all_goals first | sclose

set_option maxRecDepth 4096 in
theorem std_makeArray_spec (s : St) (t0 t1 : TId) (d1 : Nat) (hI : Inv s) :
    ⦃fun st => ⌜st = s⌝⦄ std_makeArray rec t0 t1 d1 ⦃Q s (fun _ _ => True)⦄ := by
  have h1 := getFunc_spec
  have h2 := allocThunk_spec
  have hr := rec_spec rec hrec
  qstart
  unfold std_makeArray
  mvcgen [h1, h2, hr]
  assign_invs (Qg s (fun _ _ => True))
  all_goals clear h1 h2 hr
  all_goals vcprep
  all_goals first | sclose

theorem builtinCall_spec (s : St) (b : Builtin) (ts : List TId) (d1 : Nat) (hI : Inv s) :
    ⦃fun st => ⌜st = s⌝⦄ builtinCall rec b ts d1 ⦃Q s (fun _ _ => True)⦄ := by
  have g0 := std_length_spec rec hrec
  have g1 := std_type_spec rec hrec
  have g2 := std_trace_spec rec hrec
  have g3 := std_objectHasEx_spec rec hrec
  have g4 := std_objectFieldsEx_spec rec hrec
  have g5 := std_map_spec rec hrec
  have g6 := std_makeArray_spec rec hrec
  qstart
  unfold builtinCall
  mvcgen [g0, g1, g2, g3, g4, g5, g6]
  all_goals clear g0 g1 g2 g3 g4 g5 g6
  all_goals vcprep
  all_goals first | sclose

theorem compareLists_spec (s : St) (d : Nat) (xs ys : List TId) (hI : Inv s) :
    ⦃fun st => ⌜st = s⌝⦄ compareLists cfg rec d xs ys ⦃Q s (fun _ _ => True)⦄ := by
  have h2 := checkDepth_spec
  have hr := rec_spec rec hrec
  induction xs generalizing ys s with
  | nil =>
    qstart
    cases ys <;> (unfold compareLists; mvcgen; all_goals vcprep; all_goals sclose)
  | cons x xs ih =>
    cases ys with
    | nil => qstart; unfold compareLists; mvcgen; all_goals vcprep; all_goals sclose
    | cons y ys =>
      have ih' := fun s hI => ih s ys hI
      qstart
      unfold compareLists
      mvcgen [h2, hr, ih']
      all_goals clear h2 hr ih' ih
      all_goals vcprep
      all_goals first | sclose

theorem objectMember_spec (s : St) (env : EId) (d : Nat) (layer : Layer) (m : Members) (hI : Inv s)
    (hT : ∀ ne p v ps ve rest, m = .fieldDyn ne p v ps ve rest → TaskOk s.envs (.eval ne env false d)) :
    ⦃fun st => ⌜st = s⌝⦄ objectMember rec env d layer m ⦃Q s (fun r _ => AddedFields m layer r)⦄ := by
  have h1 := addField_spec
  have hr := rec_spec rec hrec
  qstart
  cases m <;> (unfold objectMember; mvcgen [h1, hr]; all_goals clear h1 hr; all_goals vcprep)
  all_goals first
    | sclose
    | exact hT _ _ _ _ _ _ rfl
    | exact ⟨by schain, by assumption, AddedFields.refl _ _⟩
    | exact ⟨by assumption, by schain, AddedFields.refl _ _⟩
    | exact ⟨by assumption, by schain, AddedFields.of_added rfl (by assumption)⟩
   

end
end Rsj.Eval.Scope
