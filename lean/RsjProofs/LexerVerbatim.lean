/-
  Whole verbatim strings: raw byte segments and doubled delimiters.
-/
import RsjProofs.LexerQuoted
namespace Rsj.Lexer
open Rsj.Utf8

/-! ### Whole verbatim strings: raw segments and doubled delimiters -/

inductive VSeg where
  | raw (bs : List Nat)
  | dd              -- a doubled delimiter

def vsegBytes (delim : Nat) : List VSeg → List Nat
  | [] => []
  | .raw bs :: rest => bs ++ vsegBytes delim rest
  | .dd :: rest => delim :: delim :: vsegBytes delim rest

def VSegsWF (delim : Nat) : List VSeg → Prop
  | [] => True
  | .raw bs :: rest => IsBytes bs ∧ (∀ b ∈ bs, b ≠ delim) ∧
      (match rest with | .raw _ :: _ => False | _ => True) ∧ VSegsWF delim rest
  | .dd :: rest => VSegsWF delim rest

inductive VSegsValue (delim : Nat) : List VSeg → List Nat → Prop
  | nil : VSegsValue delim [] []
  | raw {bs o : List Nat} {rest : List VSeg} {out : List Nat} :
      Lossy bs o → VSegsValue delim rest out → VSegsValue delim (.raw bs :: rest) (o ++ out)
  | dd {rest : List VSeg} {out : List Nat} :
      VSegsValue delim rest out → VSegsValue delim (.dd :: rest) (delim :: out)

theorem verbatimLoop_raw (start delim : Nat) (hd : delim < 128) (tail : List Nat) :
    ∀ (f : Nat) (body : List Nat) (p : Nat) (str : List Nat), IsBytes body →
      (∀ b ∈ body, b ≠ delim) → body.length < f →
      ∃ out f', Lossy body out ∧ f' ≤ f ∧ f ≤ f' + body.length ∧
        verbatimLoop start delim f ⟨p, body ++ delim :: tail⟩ str =
          verbatimLoop start delim f' ⟨p + body.length, delim :: tail⟩ (out.reverse ++ str) := by
  intro f
  induction f with
  | zero => intro body p str _ _ h; omega
  | succ f ih =>
    intro body p str hb hne hf
    cases body with
    | nil => exact ⟨[], f + 1, Lossy.nil, by omega, by simp, by simp⟩
    | cons b t =>
      have hb1 := hne b (by simp)
      obtain ⟨n, r, hn, hstep, cr, hcr, hea⟩ := eatAnyChar_plain (p := p) (tail := tail) hb hd
      obtain ⟨out, f', hl, hf1, hf2, hq⟩ := ih (t.drop n) (p + 1 + n) (cr.orRepl :: str)
        (hb.tail.drop n) (fun y hy => hne y (List.mem_cons_of_mem _ (List.mem_of_mem_drop hy)))
        (by simp only [List.length_drop, List.length_cons] at hf ⊢; omega)
      refine ⟨r.getD 0xFFFD :: out, f', Lossy.step (by simp) hstep (by simpa using hl), by omega,
        by simp only [List.length_drop, List.length_cons] at hf2 ⊢; omega, ?_⟩
      have e1 : Cur.eatByte ⟨p, (b :: t) ++ delim :: tail⟩ delim = none := by simp [Cur.eatByte, hb1]
      conv => lhs; unfold verbatimLoop
      simp only [e1, hea]
      rw [hq, hcr]
      simp only [List.reverse_cons, List.append_assoc, List.singleton_append, List.length_drop,
        List.length_cons]
      congr 2
      omega

theorem vsegBytes_head (delim : Nat) (rest : List VSeg) (tail : List Nat)
    (h : match rest with | .raw _ :: _ => False | _ => True) :
    ∃ tl, vsegBytes delim rest ++ delim :: tail = delim :: tl := by
  cases rest with
  | nil => exact ⟨tail, rfl⟩
  | cons s r =>
    cases s with
    | raw bs => exact absurd h (by simp)
    | dd => exact ⟨delim :: (vsegBytes delim r ++ delim :: tail), by simp [vsegBytes]⟩

theorem verbatimLoop_segs (start delim : Nat) (hd : delim < 128) (tail : List Nat)
    (htl : ∀ t', tail ≠ delim :: t') :
    ∀ (segs : List VSeg) (f p : Nat) (str : List Nat), VSegsWF delim segs →
      (vsegBytes delim segs).length < f →
      ∃ out, VSegsValue delim segs out ∧
        verbatimLoop start delim f ⟨p, vsegBytes delim segs ++ delim :: tail⟩ str =
          .tok (.string (str.reverse ++ out)) ⟨p + (vsegBytes delim segs).length + 1, tail⟩ := by
  intro segs
  induction segs with
  | nil =>
    intro f p str _ hf
    obtain ⟨out, _, hq⟩ := verbatimLoop_plain start delim hd tail htl f [] p str
      (by intro b hb; cases hb) (by intro b hb; cases hb) (by simpa [vsegBytes] using hf)
    cases ‹Lossy [] out› with
    | nil => exact ⟨[], VSegsValue.nil, by simpa [vsegBytes] using hq⟩
    | step hne _ _ => exact absurd rfl hne
  | cons s rest ih =>
    intro f p str hwf hf
    cases s with
    | raw bs =>
      obtain ⟨hb, hne, hadj, hwf'⟩ := hwf
      obtain ⟨tl, htl'⟩ := vsegBytes_head delim rest tail hadj
      simp only [vsegBytes, List.length_append] at hf
      obtain ⟨o, f', hl, hf1, hf2, hq⟩ := verbatimLoop_raw start delim hd tl f bs p str hb hne
        (by omega)
      obtain ⟨out, hv, hq2⟩ := ih f' (p + bs.length) (o.reverse ++ str) hwf' (by omega)
      refine ⟨o ++ out, VSegsValue.raw hl hv, ?_⟩
      simp only [vsegBytes, List.append_assoc]
      rw [htl', hq, ← htl', hq2]
      simp only [List.reverse_append, List.reverse_reverse, List.append_assoc, List.length_append]
      congr 2
      omega
    | dd =>
      simp only [vsegBytes, List.length_cons] at hf
      obtain ⟨f, rfl⟩ : ∃ f', f = f' + 1 := ⟨f - 1, by omega⟩
      obtain ⟨out, hv, hq2⟩ := ih f (p + 2) (delim :: str) hwf (by omega)
      refine ⟨delim :: out, VSegsValue.dd hv, ?_⟩
      conv => lhs; unfold verbatimLoop
      simp only [vsegBytes, List.cons_append, Cur.eatByte, if_true]
      rw [hq2]
      simp only [List.reverse_cons, List.append_assoc, List.singleton_append, List.length_cons]
      congr 2
      omega

/-- A verbatim string lexes to its body with doubled delimiters halved. -/
theorem nextToken_verbatim (p delim : Nat) (hd : delim = 34 ∨ delim = 39) (segs : List VSeg)
    (tail : List Nat) (htl : ∀ t', tail ≠ delim :: t') (hwf : VSegsWF delim segs) :
    ∃ out, VSegsValue delim segs out ∧
      nextToken ⟨p, 64 :: delim :: (vsegBytes delim segs ++ delim :: tail)⟩ =
        .tok (.string out) ⟨p + (vsegBytes delim segs).length + 3, tail⟩ := by
  obtain ⟨out, hv, hq⟩ := verbatimLoop_segs p delim (by omega) tail htl segs
    ((vsegBytes delim segs ++ delim :: tail).length + 1) (p + 2) [] hwf (by simp; omega)
  refine ⟨out, hv, ?_⟩
  simp only [List.reverse_nil, List.nil_append] at hq
  rw [nextToken_at p _ delim hd]
  unfold lexVerbatimString
  simp only
  rw [hq]
  congr 2
  omega

end Rsj.Lexer
