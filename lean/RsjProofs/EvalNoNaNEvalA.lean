import RsjProofs.EvalNoNaNTasks
/-!
  "partial_cmp of NaN": `step` on the evaluation of an expression, the simple cases.
-/
open Std.Do
set_option mvcgen.warning false
namespace Rsj.Eval.NoNaN
open Rsj.Core Rsj.Eval Rsj.Eval.Scope

section
variable (F : FloatNaNFacts) (hp : PureNaNFree) (cfg : Cfg) (rec : Task → M Value) (hrec : RecOk3 rec)
include F hp hrec

set_option maxHeartbeats 2000000 in
theorem eval_null_nn  (env : EId) (tail : Bool) (d : Nat) :
    ⦃fun st => ⌜NN st⌝⦄ step cfg rec (.eval (.null) env tail d) ⦃Q3 VNN⦄ := by
  have hT : True := trivial
  have hr := rec_nn F rec hrec
  have hb := builtinCall3_nn F cfg rec hrec hp
  have hc := binaryOp3_nn F cfg rec hrec
  have ho := ord_nn F
  scase

set_option maxHeartbeats 2000000 in
theorem eval_true_nn  (env : EId) (tail : Bool) (d : Nat) :
    ⦃fun st => ⌜NN st⌝⦄ step cfg rec (.eval (.true_) env tail d) ⦃Q3 VNN⦄ := by
  have hT : True := trivial
  have hr := rec_nn F rec hrec
  have hb := builtinCall3_nn F cfg rec hrec hp
  have hc := binaryOp3_nn F cfg rec hrec
  have ho := ord_nn F
  scase

set_option maxHeartbeats 2000000 in
theorem eval_false_nn  (env : EId) (tail : Bool) (d : Nat) :
    ⦃fun st => ⌜NN st⌝⦄ step cfg rec (.eval (.false_) env tail d) ⦃Q3 VNN⦄ := by
  have hT : True := trivial
  have hr := rec_nn F rec hrec
  have hb := builtinCall3_nn F cfg rec hrec hp
  have hc := binaryOp3_nn F cfg rec hrec
  have ho := ord_nn F
  scase

set_option maxHeartbeats 2000000 in
theorem eval_self_nn  (env : EId) (tail : Bool) (d : Nat) :
    ⦃fun st => ⌜NN st⌝⦄ step cfg rec (.eval (.self_) env tail d) ⦃Q3 VNN⦄ := by
  have hT : True := trivial
  have hr := rec_nn F rec hrec
  have hb := builtinCall3_nn F cfg rec hrec hp
  have hc := binaryOp3_nn F cfg rec hrec
  have ho := ord_nn F
  scase

set_option maxHeartbeats 2000000 in
theorem eval_dollar_nn  (env : EId) (tail : Bool) (d : Nat) :
    ⦃fun st => ⌜NN st⌝⦄ step cfg rec (.eval (.dollar) env tail d) ⦃Q3 VNN⦄ := by
  have hT : True := trivial
  have hr := rec_nn F rec hrec
  have hb := builtinCall3_nn F cfg rec hrec hp
  have hc := binaryOp3_nn F cfg rec hrec
  have ho := ord_nn F
  scase

set_option maxHeartbeats 2000000 in
theorem eval_str_nn (s : String) (env : EId) (tail : Bool) (d : Nat) :
    ⦃fun st => ⌜NN st⌝⦄ step cfg rec (.eval (.str s) env tail d) ⦃Q3 VNN⦄ := by
  have hT : True := trivial
  have hr := rec_nn F rec hrec
  have hb := builtinCall3_nn F cfg rec hrec hp
  have hc := binaryOp3_nn F cfg rec hrec
  have ho := ord_nn F
  scase

set_option maxHeartbeats 2000000 in
theorem eval_num_nn (f : Float) (env : EId) (tail : Bool) (d : Nat) :
    ⦃fun st => ⌜NN st⌝⦄ step cfg rec (.eval (.num f) env tail d) ⦃Q3 VNN⦄ := by
  have hT : True := trivial
  have hr := rec_nn F rec hrec
  have hb := builtinCall3_nn F cfg rec hrec hp
  have hc := binaryOp3_nn F cfg rec hrec
  have ho := ord_nn F
  scase

set_option maxHeartbeats 2000000 in
theorem eval_paren_nn (e : Expr) (env : EId) (tail : Bool) (d : Nat) :
    ⦃fun st => ⌜NN st⌝⦄ step cfg rec (.eval (.paren e) env tail d) ⦃Q3 VNN⦄ := by
  have hT : True := trivial
  have hr := rec_nn F rec hrec
  have hb := builtinCall3_nn F cfg rec hrec hp
  have hc := binaryOp3_nn F cfg rec hrec
  have ho := ord_nn F
  scase

set_option maxHeartbeats 2000000 in
theorem eval_field_nn (e : Expr) (n : String) (env : EId) (tail : Bool) (d : Nat) :
    ⦃fun st => ⌜NN st⌝⦄ step cfg rec (.eval (.field e n) env tail d) ⦃Q3 VNN⦄ := by
  have hT : True := trivial
  have hr := rec_nn F rec hrec
  have hb := builtinCall3_nn F cfg rec hrec hp
  have hc := binaryOp3_nn F cfg rec hrec
  have ho := ord_nn F
  scase

set_option maxHeartbeats 2000000 in
theorem eval_index_nn (e i : Expr) (env : EId) (tail : Bool) (d : Nat) :
    ⦃fun st => ⌜NN st⌝⦄ step cfg rec (.eval (.index e i) env tail d) ⦃Q3 VNN⦄ := by
  have hT : True := trivial
  have hr := rec_nn F rec hrec
  have hb := builtinCall3_nn F cfg rec hrec hp
  have hc := binaryOp3_nn F cfg rec hrec
  have ho := ord_nn F
  scase

set_option maxHeartbeats 2000000 in
theorem eval_slice_nn (e : Expr) (a b c : OptExpr) (env : EId) (tail : Bool) (d : Nat) :
    ⦃fun st => ⌜NN st⌝⦄ step cfg rec (.eval (.slice e a b c) env tail d) ⦃Q3 VNN⦄ := by
  have hT : True := trivial
  have hr := rec_nn F rec hrec
  have hb := builtinCall3_nn F cfg rec hrec hp
  have hc := binaryOp3_nn F cfg rec hrec
  have ho := ord_nn F
  scase

end
end Rsj.Eval.NoNaN
