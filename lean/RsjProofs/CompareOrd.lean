/-
  Helper lemmas for C08, ordering part: laws of `cmpCps`, `lexCompare`,
  and the link between `lexCompare` and `structEq`.
-/
import RsjProofs.Compare
set_option linter.unusedSectionVars false
namespace Rsj.Compare

/-! ### code point lists -/

theorem cmpCps_swap : ∀ a b : List Nat, cmpCps b a = (cmpCps a b).swap
  | [], [] => rfl
  | [], _ :: _ => rfl
  | _ :: _, [] => rfl
  | x :: xs, y :: ys => by
    simp only [cmpCps]
    by_cases h1 : x < y
    · have : ¬ y < x := by omega
      simp [h1, this]
    · by_cases h2 : y < x
      · simp [h1, h2]
      · simp [h1, h2, cmpCps_swap xs ys]

theorem cmpCps_eq_iff : ∀ a b : List Nat, cmpCps a b = .eq ↔ a = b
  | [], [] => by simp [cmpCps]
  | [], _ :: _ => by simp [cmpCps]
  | _ :: _, [] => by simp [cmpCps]
  | x :: xs, y :: ys => by
    simp only [cmpCps]
    by_cases h1 : x < y
    · simp [h1]; omega
    · by_cases h2 : y < x
      · simp [h1, h2]; omega
      · have : x = y := by omega
        simp [this, cmpCps_eq_iff xs ys]

theorem cmpCps_then : ∀ a b c : List Nat, cmpCps a b ≠ .gt → cmpCps b c ≠ .gt →
    cmpCps a c = (cmpCps a b).then (cmpCps b c)
  | [], [], c, _, _ => by simp [cmpCps, Ordering.then]
  | [], _ :: _, [], _, h => by simp [cmpCps] at h
  | [], _ :: _, _ :: _, _, _ => by simp [cmpCps, Ordering.then]
  | _ :: _, [], _, h, _ => by simp [cmpCps] at h
  | _ :: _, _ :: _, [], _, h => by simp [cmpCps] at h
  | x :: xs, y :: ys, z :: zs, h1, h2 => by
    simp only [cmpCps] at h1 h2 ⊢
    by_cases hxy : x < y
    · by_cases hyz : y < z
      · simp [hxy, Ordering.then, show x < z by omega]
      · by_cases hzy : z < y
        · simp [hyz, hzy] at h2
        · have : y = z := by omega
          subst this
          simp [hxy, Ordering.then]
    · by_cases hyx : y < x
      · simp [hxy, hyx] at h1
      · have : x = y := by omega
        subst this
        simp only [hxy, if_false] at h1 ⊢
        by_cases hyz : x < z
        · simp [hyz, Ordering.then]
          cases h : cmpCps xs ys <;> simp_all
        · by_cases hzy : z < x
          · simp [hyz, hzy] at h2
          · simp only [hyz, hzy, if_false] at h2 ⊢
            exact cmpCps_then xs ys zs h1 h2

section
variable {ν : Type} [DecidableEq ν] [NumOrd ν]

theorem numCmp_then [LawfulNumOrd ν] (a b c : ν) (h1 : NumOrd.cmp a b ≠ .gt)
    (h2 : NumOrd.cmp b c ≠ .gt) : NumOrd.cmp a c = (NumOrd.cmp a b).then (NumOrd.cmp b c) := by
  cases hab : NumOrd.cmp a b with
  | gt => exact absurd hab h1
  | eq =>
    have := (LawfulNumOrd.cmp_eq_iff a b).mp hab
    subst this; simp [Ordering.then]
  | lt =>
    cases hbc : NumOrd.cmp b c with
    | gt => exact absurd hbc h2
    | eq =>
      have := (LawfulNumOrd.cmp_eq_iff b c).mp hbc
      subst this; simp [Ordering.then, hab]
    | lt => simp [Ordering.then, LawfulNumOrd.cmp_lt_trans a b c hab hbc]

/-! ### swap -/

theorem cmpThunks_swap {xs : List (Thunk ν)}
    (ih : ∀ v, Thunk.val v ∈ xs → ∀ b o, lexCompare v b = .ok o → lexCompare b v = .ok o.swap) :
    ∀ ys o, cmpThunks xs ys = .ok o → cmpThunks ys xs = .ok o.swap := by
  induction xs with
  | nil =>
    intro ys o h
    cases ys <;> simp [cmpThunks] at h ⊢ <;> subst h <;> rfl
  | cons x xs ihx =>
    intro ys o h
    cases ys with
    | nil => simp [cmpThunks] at h ⊢; subst h; rfl
    | cons y ys =>
      cases x with
      | fail e => simp [cmpThunks] at h
      | val a =>
        cases y with
        | fail e => simp [cmpThunks] at h
        | val b =>
          simp only [cmpThunks] at h ⊢
          cases hab : lexCompare a b with
          | error e => rw [hab] at h; cases h
          | ok o' =>
            rw [ih a (List.mem_cons_self ..) b o' hab]
            rw [hab] at h
            cases o' with
            | eq => exact ihx (fun v hv => ih v (List.mem_cons_of_mem _ hv)) ys o h
            | lt => cases h; rfl
            | gt => cases h; rfl

theorem lexCompare_swap [LawfulNumOrd ν] (a : Value ν) :
    ∀ b o, lexCompare a b = .ok o → lexCompare b a = .ok o.swap := by
  induction a using Value.induct' with
  | null => intro b o h; cases b <;> simp [lexCompare] at h
  | bool x => intro b o h; cases b <;> simp [lexCompare] at h
  | func => intro b o h; cases b <;> simp [lexCompare] at h
  | obj fs _ => intro b o h; cases b <;> simp [lexCompare] at h
  | num x =>
    intro b o h
    cases b <;> simp [lexCompare] at h
    subst h; simp [lexCompare, LawfulNumOrd.cmp_swap x]
  | str x =>
    intro b o h
    cases b <;> simp [lexCompare] at h
    subst h; simp [lexCompare, cmpCps_swap x]
  | arr xs ih =>
    intro b o h
    cases b with
    | arr ys => simp only [lexCompare] at h ⊢; exact cmpThunks_swap ih ys o h
    | _ => simp [lexCompare] at h

/-! ### transitivity (`a ≤ b`, `b ≤ c` compose with `Ordering.then`) -/

theorem cmpThunks_then {xs : List (Thunk ν)}
    (ih : ∀ v, Thunk.val v ∈ xs → ∀ b c o1 o2, lexCompare v b = .ok o1 → lexCompare b c = .ok o2 →
      o1 ≠ .gt → o2 ≠ .gt → lexCompare v c = .ok (o1.then o2)) :
    ∀ ys zs o1 o2, cmpThunks xs ys = .ok o1 → cmpThunks ys zs = .ok o2 → o1 ≠ .gt → o2 ≠ .gt →
      cmpThunks xs zs = .ok (o1.then o2) := by
  induction xs with
  | nil =>
    intro ys zs o1 o2 h1 h2 n1 n2
    cases ys with
    | nil => simp [cmpThunks] at h1; subst h1; simpa [Ordering.then] using h2
    | cons y ys =>
      simp [cmpThunks] at h1; subst h1
      cases zs with
      | nil =>
        simp [cmpThunks] at h2
        exact absurd h2.symm n2
      | cons z zs => simp [cmpThunks, Ordering.then]
  | cons x xs ihx =>
    intro ys zs o1 o2 h1 h2 n1 n2
    cases ys with
    | nil => simp [cmpThunks] at h1; exact absurd h1.symm n1
    | cons y ys =>
      cases x with
      | fail e => simp [cmpThunks] at h1
      | val a =>
        cases y with
        | fail e => simp [cmpThunks] at h1
        | val b =>
          cases zs with
          | nil => simp [cmpThunks] at h2; exact absurd h2.symm n2
          | cons z zs =>
            cases z with
            | fail e => simp [cmpThunks] at h2
            | val c =>
              simp only [cmpThunks] at h1 h2 ⊢
              cases hab : lexCompare a b with
              | error e => rw [hab] at h1; cases h1
              | ok p1 =>
                cases hbc : lexCompare b c with
                | error e => rw [hbc] at h2; cases h2
                | ok p2 =>
                  rw [hab] at h1; rw [hbc] at h2
                  have hp1 : p1 ≠ .gt := by
                    intro hp; subst hp; cases h1; exact n1 rfl
                  have hp2 : p2 ≠ .gt := by
                    intro hp; subst hp; cases h2; exact n2 rfl
                  rw [ih a (List.mem_cons_self ..) b c p1 p2 hab hbc hp1 hp2]
                  cases p1 with
                  | gt => exact absurd rfl hp1
                  | lt =>
                    cases h1
                    cases p2 <;> simp [Ordering.then]
                  | eq =>
                    cases p2 with
                    | gt => exact absurd rfl hp2
                    | lt =>
                      cases h2
                      simp only [Ordering.then]
                      cases o1 <;> simp_all
                    | eq =>
                      simp only [Ordering.then]
                      exact ihx (fun v hv => ih v (List.mem_cons_of_mem _ hv)) ys zs o1 o2 h1 h2 n1 n2

theorem lexCompare_then [LawfulNumOrd ν] (a : Value ν) :
    ∀ b c o1 o2, lexCompare a b = .ok o1 → lexCompare b c = .ok o2 → o1 ≠ .gt → o2 ≠ .gt →
      lexCompare a c = .ok (o1.then o2) := by
  induction a using Value.induct' with
  | null => intro b c o1 o2 h; cases b <;> simp [lexCompare] at h
  | bool x => intro b c o1 o2 h; cases b <;> simp [lexCompare] at h
  | func => intro b c o1 o2 h; cases b <;> simp [lexCompare] at h
  | obj fs _ => intro b c o1 o2 h; cases b <;> simp [lexCompare] at h
  | num x =>
    intro b c o1 o2 h1 h2 n1 n2
    cases b <;> simp [lexCompare] at h1
    cases c <;> simp [lexCompare] at h2
    subst h1 h2
    simp only [lexCompare]
    rw [numCmp_then _ _ _ n1 n2]
  | str x =>
    intro b c o1 o2 h1 h2 n1 n2
    cases b <;> simp [lexCompare] at h1
    cases c <;> simp [lexCompare] at h2
    subst h1 h2
    simp only [lexCompare]
    rw [cmpCps_then _ _ _ n1 n2]
  | arr xs ih =>
    intro b c o1 o2 h1 h2 n1 n2
    cases b with
    | arr ys =>
      cases c with
      | arr zs =>
        simp only [lexCompare] at h1 h2 ⊢
        exact cmpThunks_then ih ys zs o1 o2 h1 h2 n1 n2
      | _ => simp [lexCompare] at h2
    | _ => simp [lexCompare] at h1

/-! ### ordering versus equality -/

theorem cmpThunks_eqList {xs : List (Thunk ν)}
    (ih : ∀ v, Thunk.val v ∈ xs → ∀ b o, lexCompare v b = .ok o → structEq v b = .ok (o == .eq)) :
    ∀ ys o, cmpThunks xs ys = .ok o →
      (o = .eq → xs.length = ys.length ∧ eqList xs ys = .ok true) ∧
      (o ≠ .eq → xs.length ≠ ys.length ∨ eqList xs ys = .ok false) := by
  induction xs with
  | nil =>
    intro ys o h
    cases ys with
    | nil => simp [cmpThunks] at h; subst h; simp [eqList]
    | cons y ys => simp [cmpThunks] at h; subst h; simp
  | cons x xs ihx =>
    intro ys o h
    cases ys with
    | nil => simp [cmpThunks] at h; subst h; simp
    | cons y ys =>
      cases x with
      | fail e => simp [cmpThunks] at h
      | val a =>
        cases y with
        | fail e => simp [cmpThunks] at h
        | val b =>
          simp only [cmpThunks] at h
          cases hab : lexCompare a b with
          | error e => rw [hab] at h; cases h
          | ok p =>
            have hs := ih a (List.mem_cons_self ..) b p hab
            rw [hab] at h
            simp only [eqList, hs, List.length_cons]
            cases p with
            | eq =>
              have := ihx (fun v hv => ih v (List.mem_cons_of_mem _ hv)) ys o h
              simp only [beq_self_eq_true]
              constructor
              · intro ho; have := this.1 ho; exact ⟨by omega, this.2⟩
              · intro ho; rcases this.2 ho with h' | h'
                · left; omega
                · right; exact h'
            | lt => cases h; simp
            | gt => cases h; simp

/-- Whenever two values have an order, `==` answers exactly "the order is `Equal`". -/
theorem lexCompare_structEq [LawfulNumOrd ν] (a : Value ν) :
    ∀ b o, lexCompare a b = .ok o → structEq a b = .ok (o == .eq) := by
  induction a using Value.induct' with
  | null => intro b o h; cases b <;> simp [lexCompare] at h
  | bool x => intro b o h; cases b <;> simp [lexCompare] at h
  | func => intro b o h; cases b <;> simp [lexCompare] at h
  | obj fs _ => intro b o h; cases b <;> simp [lexCompare] at h
  | num x =>
    intro b o h
    cases b <;> simp [lexCompare] at h
    rename_i y
    subst h
    simp only [structEq]
    by_cases hxy : x = y
    · simp [hxy, (LawfulNumOrd.cmp_eq_iff y y).mpr rfl]
    · have : NumOrd.cmp x y ≠ .eq := fun h => hxy ((LawfulNumOrd.cmp_eq_iff x y).mp h)
      simp [hxy, this]
  | str x =>
    intro b o h
    cases b <;> simp [lexCompare] at h
    rename_i y
    subst h
    simp only [structEq]
    by_cases hxy : x = y
    · simp [hxy, (cmpCps_eq_iff y y).mpr rfl]
    · have : cmpCps x y ≠ .eq := fun h => hxy ((cmpCps_eq_iff x y).mp h)
      simp [hxy, this]
  | arr xs ih =>
    intro b o h
    cases b with
    | arr ys =>
      simp only [lexCompare] at h
      have := cmpThunks_eqList ih ys o h
      rw [structEq_arr]
      by_cases ho : o = .eq
      · have := this.1 ho
        rw [if_pos this.1, this.2, ho]; rfl
      · have hb : (o == Ordering.eq) = false := by cases o <;> simp_all
        rw [hb]
        rcases this.2 ho with h' | h'
        · rw [if_neg h']
        · split
          · exact h'
          · rfl
    | _ => simp [lexCompare] at h

/-! ### values that have an order: numbers, strings, arrays of these -/

/-- The homogeneous sorts on which the order is total. -/
inductive VSort where
  | num
  | str
  | arr (elem : VSort)

inductive HasSort : VSort → Value ν → Prop
  | num (n : ν) : HasSort .num (.num n)
  | str (s : List Nat) : HasSort .str (.str s)
  | arr (s : VSort) (xs : List (Thunk ν)) : (∀ e, Thunk.fail e ∉ xs) →
      (∀ v, Thunk.val v ∈ xs → HasSort s v) → HasSort (.arr s) (.arr xs)

omit [DecidableEq ν] in
theorem cmpThunks_total {s : VSort} {xs : List (Thunk ν)} (hx : ∀ e, Thunk.fail e ∉ xs)
    (ih : ∀ v, Thunk.val v ∈ xs → ∀ b, HasSort s b → ∃ o, lexCompare v b = .ok o) :
    ∀ ys, (∀ e, Thunk.fail e ∉ ys) → (∀ v, Thunk.val v ∈ ys → HasSort s v) →
      ∃ o, cmpThunks xs ys = .ok o := by
  induction xs with
  | nil => intro ys _ _; cases ys <;> simp [cmpThunks]
  | cons x xs ihx =>
    intro ys hy hs
    cases ys with
    | nil => simp [cmpThunks]
    | cons y ys =>
      cases x with
      | fail e => exact absurd (List.mem_cons_self ..) (hx e)
      | val a =>
        cases y with
        | fail e => exact absurd (List.mem_cons_self ..) (hy e)
        | val b =>
          simp only [cmpThunks]
          obtain ⟨p, hp⟩ := ih a (List.mem_cons_self ..) b (hs b (List.mem_cons_self ..))
          rw [hp]
          cases p with
          | lt => exact ⟨_, rfl⟩
          | gt => exact ⟨_, rfl⟩
          | eq =>
            exact ihx (fun e he => hx e (List.mem_cons_of_mem _ he))
              (fun v hv => ih v (List.mem_cons_of_mem _ hv)) ys
              (fun e he => hy e (List.mem_cons_of_mem _ he))
              (fun v hv => hs v (List.mem_cons_of_mem _ hv))

omit [DecidableEq ν] in
theorem lexCompare_total {s : VSort} {a : Value ν} (ha : HasSort s a) :
    ∀ b, HasSort s b → ∃ o, lexCompare a b = .ok o := by
  induction ha with
  | num n => intro b hb; cases hb; exact ⟨_, rfl⟩
  | str x => intro b hb; cases hb; exact ⟨_, rfl⟩
  | arr s xs hx _ ih =>
    intro b hb
    cases hb with
    | arr _ ys hy hs =>
      simp only [lexCompare]
      exact cmpThunks_total hx ih ys hy hs

end

end Rsj.Compare
