/-
  Helper lemmas about the model of the command-line tool (`RsjModel/Cli.lean`):
  `split_once('=')`, the `--ext-*` / `--tla-*` loops, the binding of top-level
  arguments, `value_to_repr` and the `-m` loop.
-/
import RsjModel.Cli
namespace Rsj.Cli
open Rsj.Import (pathJoin)

/-! ### `split_once('=')` -/

theorem splitOnceEq_append (k v : List Char) (hk : '=' ∉ k) :
    splitOnceEq (k ++ '=' :: v) = some (k, v) := by
  induction k with
  | nil => simp [splitOnceEq]
  | cons c cs ih =>
    have hc : c ≠ '=' := by intro h; exact hk (by simp [h])
    have hcs : '=' ∉ cs := fun h => hk (List.mem_cons_of_mem _ h)
    simp [splitOnceEq, hc, ih hcs]

theorem splitOnceEq_none (l : List Char) (h : '=' ∉ l) : splitOnceEq l = none := by
  induction l with
  | nil => rfl
  | cons c cs ih =>
    have hc : c ≠ '=' := by intro e; exact h (by simp [e])
    have hcs : '=' ∉ cs := fun m => h (List.mem_cons_of_mem _ m)
    simp [splitOnceEq, hc, ih hcs]

theorem splitOnceEq_some {l k v : List Char} (h : splitOnceEq l = some (k, v)) :
    l = k ++ '=' :: v ∧ '=' ∉ k := by
  induction l generalizing k with
  | nil => simp [splitOnceEq] at h
  | cons c cs ih =>
    unfold splitOnceEq at h
    by_cases hc : c = '='
    · simp only [hc, if_true] at h
      cases h
      exact ⟨by simp [hc], by simp⟩
    · simp only [hc, if_false] at h
      cases hs : splitOnceEq cs with
      | none => simp [hs] at h
      | some p =>
        obtain ⟨a, b⟩ := p
        simp only [hs] at h
        cases h
        obtain ⟨h1, h2⟩ := ih hs
        refine ⟨by simp [h1], ?_⟩
        intro hm
        rcases List.mem_cons.mp hm with e | e
        · exact hc e.symm
        · exact h2 e

/-! ### The external-variable and TLA loops -/

/-- An item whose thunk constructor succeeded. -/
def lift (e : String × ThunkSrc) : String × Option ThunkSrc := (e.1, some e.2)

theorem hasName_eq_false {env : List (String × ThunkSrc)} {v : String} :
    hasName env v = false ↔ v ∉ env.map (·.1) := by
  unfold hasName
  rw [Bool.eq_false_iff]
  constructor
  · intro h hm
    apply h
    rw [List.any_eq_true]
    obtain ⟨e, he, hv⟩ := List.mem_map.mp hm
    exact ⟨e, he, by simp [hv]⟩
  · intro h ha
    rw [List.any_eq_true] at ha
    obtain ⟨e, he, hv⟩ := ha
    exact h (List.mem_map.mpr ⟨e, he, by simpa using hv⟩)

theorem hasName_eq_true {env : List (String × ThunkSrc)} {v : String} :
    hasName env v = true ↔ v ∈ env.map (·.1) := by
  cases h : hasName env v with
  | true => simp only [true_iff]; exact Classical.byContradiction (fun hn => by
      have := hasName_eq_false.mpr hn; rw [h] at this; cases this)
  | false => simp only [Bool.false_eq_true, false_iff]; exact hasName_eq_false.mp h

/-- The `--ext-*` loops succeed exactly when every constructor succeeded and every
    name is new; the resulting environment lists the definitions in order. -/
theorem extLoop_spec (items : List (String × Option ThunkSrc)) (env r : List (String × ThunkSrc)) :
    extLoop items env = some r ↔
      ∃ ext, items = ext.map lift ∧ r = env ++ ext ∧
        (∀ e ∈ ext, e.1 ∉ env.map (·.1)) ∧ (ext.map (·.1)).Nodup := by
  induction items generalizing env with
  | nil =>
    simp only [extLoop]
    constructor
    · intro h; cases h
      exact ⟨[], rfl, by simp, by simp, List.nodup_nil⟩
    · rintro ⟨ext, h1, h2, -, -⟩
      have : ext = [] := by cases ext with
        | nil => rfl
        | cons a b => simp at h1
      subst this; simp [h2]
  | cons it rest ih =>
    obtain ⟨v, t⟩ := it
    unfold extLoop
    cases hn : hasName env v with
    | true =>
      simp only [if_true]
      constructor
      · intro h; cases h
      · rintro ⟨ext, h1, -, h3, -⟩
        cases ext with
        | nil => simp at h1
        | cons e ext' =>
          simp only [List.map_cons, List.cons.injEq, lift] at h1
          have hv : e.1 = v := by have := h1.1; simp only [Prod.mk.injEq] at this; exact this.1.symm
          have := h3 e (by simp)
          rw [hv] at this
          exact absurd (hasName_eq_true.mp hn) this
    | false =>
      simp only [Bool.false_eq_true, if_false]
      have hv' := hasName_eq_false.mp hn
      cases t with
      | none =>
        simp only
        constructor
        · intro h; cases h
        · rintro ⟨ext, h1, -, -, -⟩
          cases ext with
          | nil => simp at h1
          | cons e ext' => simp [lift] at h1
      | some th =>
        simp only
        rw [ih]
        constructor
        · rintro ⟨ext', h1, h2, h3, h4⟩
          refine ⟨(v, th) :: ext', by simp [lift, h1], by simp [h2], ?_, ?_⟩
          · intro e he
            rcases List.mem_cons.mp he with rfl | he'
            · exact hv'
            · intro hm; exact h3 e he' (by simp only [List.map_append, List.mem_append]; exact Or.inl hm)
          · simp only [List.map_cons, List.nodup_cons]
            refine ⟨?_, h4⟩
            intro hm
            obtain ⟨e, he, hev⟩ := List.mem_map.mp hm
            exact h3 e he (by simp [hev])
        · rintro ⟨ext, h1, h2, h3, h4⟩
          cases ext with
          | nil => simp at h1
          | cons e ext' =>
            simp only [List.map_cons, List.cons.injEq, lift, Prod.mk.injEq, Option.some.injEq] at h1
            obtain ⟨⟨hv1, ht1⟩, hrest⟩ := h1
            have he : e = (v, th) := by cases e; simp_all
            subst he
            simp only [List.map_cons, List.nodup_cons] at h4
            refine ⟨ext', hrest, by simp [h2], ?_, h4.2⟩
            intro e' he' hm
            simp only [List.map_append, List.map_cons, List.map_nil, List.mem_append, List.mem_singleton] at hm
            rcases hm with hm | hm
            · exact h3 e' (List.mem_cons_of_mem _ he') hm
            · exact h4.1 (List.mem_map.mpr ⟨e', he', hm⟩)

/-- The `--tla-*` loops succeed exactly when every constructor succeeded (repeated
    names only set the message flag). -/
theorem tlaLoop_env (items : List (String × Option ThunkSrc)) (env : List (String × ThunkSrc)) (d : Bool)
    (r : List (String × ThunkSrc)) :
    (∃ d', tlaLoop items env d = some (r, d')) ↔ ∃ tla, items = tla.map lift ∧ r = env ++ tla := by
  induction items generalizing env d with
  | nil =>
    simp only [tlaLoop]
    constructor
    · rintro ⟨d', h⟩; cases h; exact ⟨[], rfl, by simp⟩
    · rintro ⟨tla, h1, h2⟩
      have : tla = [] := by cases tla with
        | nil => rfl
        | cons a b => simp at h1
      subst this; exact ⟨d, by simp [h2]⟩
  | cons it rest ih =>
    obtain ⟨v, t⟩ := it
    unfold tlaLoop
    cases t with
    | none =>
      simp only
      constructor
      · rintro ⟨d', h⟩; cases h
      · rintro ⟨tla, h1, -⟩
        cases tla with
        | nil => simp at h1
        | cons e tla' => simp [lift] at h1
    | some th =>
      simp only
      rw [ih]
      constructor
      · rintro ⟨tla', h1, h2⟩
        exact ⟨(v, th) :: tla', by simp [lift, h1], by simp [h2]⟩
      · rintro ⟨tla, h1, h2⟩
        cases tla with
        | nil => simp at h1
        | cons e tla' =>
          simp only [List.map_cons, List.cons.injEq, lift, Prod.mk.injEq, Option.some.injEq] at h1
          obtain ⟨⟨hv1, ht1⟩, hrest⟩ := h1
          have he : e = (v, th) := by cases e; simp_all
          subst he
          exact ⟨tla', hrest, by simp [h2]⟩

/-- The message flag: set iff it was set before or some name repeats an earlier one. -/
theorem tlaLoop_flag (items : List (String × Option ThunkSrc)) (env : List (String × ThunkSrc)) (d : Bool)
    (r : List (String × ThunkSrc)) (d' : Bool) (h : tlaLoop items env d = some (r, d'))
    (hnd : (r.map (·.1)).Nodup) : d' = d := by
  induction items generalizing env d with
  | nil => simp only [tlaLoop] at h; cases h; rfl
  | cons it rest ih =>
    obtain ⟨v, t⟩ := it
    unfold tlaLoop at h
    cases t with
    | none => simp at h
    | some th =>
      simp only at h
      have hr := ih _ _ h
      obtain ⟨tla, -, h2⟩ := (tlaLoop_env rest (env ++ [(v, th)]) (d || hasName env v) r).mp ⟨d', h⟩
      rw [hr]
      cases hn : hasName env v with
      | false => simp
      | true =>
        exfalso
        have hm := hasName_eq_true.mp hn
        rw [h2] at hnd
        simp only [List.map_append, List.map_cons, List.map_nil, List.append_assoc] at hnd
        have := (List.nodup_append.mp hnd).2.2 v hm v (by simp)
        exact this rfl

/-! ### Binding top-level arguments -/

theorem bindNamed_spec (params : List (String × Bool)) (names bound r : List String) :
    bindNamed params names bound = .ok r ↔
      (∀ n ∈ names, hasParam params n = true) ∧ (∀ n ∈ names, n ∉ bound) ∧ names.Nodup ∧
        r = bound ++ names := by
  induction names generalizing bound with
  | nil =>
    simp only [bindNamed]
    constructor
    · intro h; cases h; simp
    · rintro ⟨-, -, -, h⟩; simp [h]
  | cons n rest ih =>
    unfold bindNamed
    cases hp : hasParam params n with
    | false =>
      simp only [Bool.not_false, if_true]
      constructor
      · intro h; cases h
      · rintro ⟨h1, -⟩
        have := h1 n (by simp)
        rw [hp] at this; cases this
    | true =>
      simp only [Bool.not_true, Bool.false_eq_true, if_false]
      by_cases hb : bound.contains n = true
      · simp only [hb, if_true]
        constructor
        · intro h; cases h
        · rintro ⟨-, h2, -⟩
          exact absurd (List.contains_iff_mem.mp hb) (h2 n (by simp))
      · rw [if_neg hb]
        have hb' : n ∉ bound := fun m => hb (List.contains_iff_mem.mpr m)
        rw [ih]
        constructor
        · rintro ⟨h1, h2, h3, h4⟩
          refine ⟨?_, ?_, ?_, by simp [h4]⟩
          · intro m hm
            rcases List.mem_cons.mp hm with rfl | hm'
            · exact hp
            · exact h1 m hm'
          · intro m hm
            rcases List.mem_cons.mp hm with rfl | hm'
            · exact hb'
            · intro hmb; exact h2 m hm' (by simp [hmb])
          · rw [List.nodup_cons]
            exact ⟨fun hm => h2 n hm (by simp), h3⟩
        · rintro ⟨h1, h2, h3, h4⟩
          rw [List.nodup_cons] at h3
          refine ⟨fun m hm => h1 m (List.mem_cons_of_mem _ hm), ?_, h3.2, by simp [h4]⟩
          intro m hm hmb
          simp only [List.mem_append, List.mem_singleton] at hmb
          rcases hmb with hmb | rfl
          · exact h2 m (List.mem_cons_of_mem _ hm) hmb
          · exact h3.1 hm

theorem firstUnbound_none (bound : List String) (params : List (String × Bool)) :
    firstUnbound bound params = none ↔ ∀ p ∈ params, p.2 = false → p.1 ∈ bound := by
  induction params with
  | nil => simp [firstUnbound]
  | cons p rest ih =>
    obtain ⟨n, d⟩ := p
    unfold firstUnbound
    cases d with
    | true =>
      simp only [Bool.not_true, Bool.false_and, Bool.false_eq_true, if_false, ih]
      constructor
      · intro h q hq
        rcases List.mem_cons.mp hq with rfl | hq'
        · intro hd; cases hd
        · exact h q hq'
      · intro h q hq; exact h q (List.mem_cons_of_mem _ hq)
    | false =>
      by_cases hb : bound.contains n = true
      · simp only [Bool.not_false, hb, Bool.not_true, Bool.and_false, Bool.false_eq_true, if_false, ih]
        constructor
        · intro h q hq
          rcases List.mem_cons.mp hq with rfl | hq'
          · intro _; exact List.contains_iff_mem.mp hb
          · exact h q hq'
        · intro h q hq; exact h q (List.mem_cons_of_mem _ hq)
      · have hb2 : bound.contains n = false := by simpa using hb
        simp only [Bool.not_false, hb2, Bool.and_self, if_true]
        constructor
        · intro h; cases h
        · intro h
          exact absurd (List.contains_iff_mem.mpr (h (n, false) (by simp) rfl)) hb

/-- The binding rule: no positional arguments, `names` as named arguments. -/
def BindSpec (params : List (String × Bool)) (names : List String) : Prop :=
  (∀ n ∈ names, ∃ p ∈ params, p.1 = n) ∧ names.Nodup ∧ (∀ p ∈ params, p.2 = false → p.1 ∈ names)

theorem hasParam_eq_true {params : List (String × Bool)} {n : String} :
    hasParam params n = true ↔ ∃ p ∈ params, p.1 = n := by
  unfold hasParam
  rw [List.any_eq_true]
  constructor
  · rintro ⟨p, hp, h⟩; exact ⟨p, hp, by simpa using h⟩
  · rintro ⟨p, hp, h⟩; exact ⟨p, hp, by simp [h]⟩

theorem bind_ok_iff (params : List (String × Bool)) (names : List String) :
    bind params names = .ok () ↔ BindSpec params names := by
  unfold bind BindSpec
  cases hb : bindNamed params names [] with
  | error e =>
    simp only
    constructor
    · intro h; cases h
    · rintro ⟨h1, h2, -⟩
      have : bindNamed params names [] = .ok ([] ++ names) :=
        (bindNamed_spec params names [] _).mpr
          ⟨fun n hn => hasParam_eq_true.mpr (h1 n hn), by simp, h2, rfl⟩
      rw [hb] at this; cases this
  | ok bound =>
    obtain ⟨h1, -, h3, h4⟩ := (bindNamed_spec params names [] bound).mp hb
    simp only [List.nil_append] at h4
    subst h4
    simp only
    cases hf : firstUnbound bound params with
    | some n =>
      simp only
      constructor
      · intro h; cases h
      · rintro ⟨-, -, h⟩
        have := (firstUnbound_none bound params).mpr h
        rw [hf] at this; cases this
    | none =>
      simp only [true_iff]
      exact ⟨fun n hn => hasParam_eq_true.mp (h1 n hn), h3, (firstUnbound_none bound params).mp hf⟩

/-! ### `value_to_repr` -/

theorem manifestItems_spec (w : World) (items : List Value) (ms : List String) :
    manifestItems w items = some ms ↔ items.map w.manifest = ms.map some := by
  induction items generalizing ms with
  | nil =>
    simp only [manifestItems, List.map_nil]
    constructor
    · intro h; cases h; rfl
    · intro h
      cases ms with
      | nil => rfl
      | cons a b => simp at h
  | cons v rest ih =>
    unfold manifestItems
    cases hm : w.manifest v with
    | none =>
      simp only [List.map_cons, hm]
      constructor
      · intro h; cases h
      · intro h
        cases ms with
        | nil => simp at h
        | cons a b => simp at h
    | some s =>
      simp only [List.map_cons, hm]
      cases hr : manifestItems w rest with
      | none =>
        simp only
        constructor
        · intro h; cases h
        · intro h
          cases ms with
          | nil => simp at h
          | cons a b =>
            simp only [List.map_cons, List.cons.injEq] at h
            have := (ih b).mpr h.2
            rw [hr] at this; cases this
      | some ss =>
        simp only [Option.some.injEq]
        have hss := (ih ss).mp hr
        constructor
        · intro h; subst h; simp [hss]
        · intro h
          cases ms with
          | nil => simp at h
          | cons a b =>
            simp only [List.map_cons, List.cons.injEq, Option.some.injEq] at h
            have : manifestItems w rest = some b := (ih b).mpr h.2
            rw [hr] at this
            cases this
            rw [h.1]

/-- The documents of a YAML stream, right-nested: `"---\n" ++ m₁ ++ "\n" ++ (… ++ "")`. -/
def yamlDocs : List String → String
  | [] => ""
  | m :: rest => "---\n" ++ m ++ "\n" ++ yamlDocs rest

theorem yamlBody_eq (ms : List String) (acc : String) : yamlBody ms acc = acc ++ yamlDocs ms := by
  induction ms generalizing acc with
  | nil => simp [yamlBody, yamlDocs]
  | cons m rest ih =>
    simp only [yamlBody, yamlDocs, ih, String.append_assoc]

/-! ### The `-m` loop -/

/-- One line per path. -/
def pathLines : List String → String
  | [] => ""
  | p :: rest => p ++ "\n" ++ pathLines rest

/-- The file a field is written to, when its manifestation and the write succeed. -/
def fieldFile (args : Args) (w : World) (dir : String) (f : String × Value) : Option (String × String) :=
  match valueToRepr args w f.2 with
  | some r => if w.writeFile (pathJoin dir f.1) r then some (pathJoin dir f.1, r) else none
  | none => none

theorem multiLoop_ok (args : Args) (w : World) (dir : String) (fields : List (String × Value))
    (files files' : List (String × String)) (pl pl' : String) :
    multiLoop args w dir fields files pl = (files', some pl') ↔
      ∃ fs, fields.map (fieldFile args w dir) = fs.map some ∧ files' = files ++ fs ∧
        pl' = pl ++ pathLines (fs.map (·.1)) := by
  induction fields generalizing files pl with
  | nil =>
    simp only [multiLoop, List.map_nil]
    constructor
    · intro h; cases h; exact ⟨[], rfl, by simp, by simp [pathLines]⟩
    · rintro ⟨fs, h1, h2, h3⟩
      have : fs = [] := by cases fs with
        | nil => rfl
        | cons a b => simp at h1
      subst this
      simp [h2, h3, pathLines]
  | cons f rest ih =>
    obtain ⟨name, v⟩ := f
    unfold multiLoop
    simp only [List.map_cons, fieldFile]
    cases hr : valueToRepr args w v with
    | none =>
      simp only
      constructor
      · intro h; cases h
      · rintro ⟨fs, h1, -, -⟩
        cases fs with
        | nil => simp at h1
        | cons a b => simp at h1
    | some r =>
      simp only
      cases hw : w.writeFile (pathJoin dir name) r with
      | false =>
        simp only [Bool.false_eq_true, if_false]
        constructor
        · intro h; cases h
        · rintro ⟨fs, h1, -, -⟩
          cases fs with
          | nil => simp at h1
          | cons a b => simp at h1
      | true =>
        simp only [if_true]
        rw [ih]
        constructor
        · rintro ⟨fs, h1, h2, h3⟩
          refine ⟨(pathJoin dir name, r) :: fs, by simp [h1], by simp [h2], ?_⟩
          simp only [h3, List.map_cons, pathLines, String.append_assoc]
        · rintro ⟨fs, h1, h2, h3⟩
          cases fs with
          | nil => simp at h1
          | cons a b =>
            simp only [List.map_cons, List.cons.injEq, Option.some.injEq] at h1
            obtain ⟨ha, hb⟩ := h1
            subst ha
            refine ⟨b, hb, by simp [h2], ?_⟩
            simp only [h3, List.map_cons, pathLines, String.append_assoc]

/-- After a failure the files on disk are exactly those of the fields before the failing one. -/
theorem multiLoop_fail (args : Args) (w : World) (dir : String) (fields : List (String × Value))
    (files files' : List (String × String)) (pl : String)
    (h : multiLoop args w dir fields files pl = (files', none)) :
    ∃ k fs, k < fields.length ∧ (fields.take k).map (fieldFile args w dir) = fs.map some ∧
      files' = files ++ fs ∧ (fields.map (fieldFile args w dir))[k]? = some none := by
  induction fields generalizing files pl with
  | nil => simp [multiLoop] at h
  | cons f rest ih =>
    obtain ⟨name, v⟩ := f
    unfold multiLoop at h
    cases hr : valueToRepr args w v with
    | none =>
      simp only [hr] at h
      cases h
      exact ⟨0, [], by simp, by simp, by simp, by simp [fieldFile, hr]⟩
    | some r =>
      simp only [hr] at h
      cases hw : w.writeFile (pathJoin dir name) r with
      | false =>
        simp only [hw, Bool.false_eq_true, if_false] at h
        cases h
        exact ⟨0, [], by simp, by simp, by simp, by simp [fieldFile, hr, hw]⟩
      | true =>
        simp only [hw, if_true] at h
        obtain ⟨k, fs, hk, h1, h2, h3⟩ := ih _ _ h
        refine ⟨k + 1, (pathJoin dir name, r) :: fs, by simp; omega, ?_, by simp [h2], ?_⟩
        · simp [List.take_succ_cons, fieldFile, hr, hw, h1]
        · simpa using h3

end Rsj.Cli
