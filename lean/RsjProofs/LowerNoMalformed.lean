import RsjProofs.Lower
import RsjProofs.ParserRun23
/-!
  On parser output the lowering has no error but `unsupported`.  Payload decoding is total (nothing
  produces `badPayload`), and the `malformed` guard (a comprehension whose clauses do not start with
  `for`) is unreachable on parser output: every tree the parser produces is in `Frag2`
  (`parse_ok_frag2` / `C15_parser_output_well_formed`), whose `NodeWF` says that comprehension
  clauses start with `for`; and on a `Frag2` tree no call of the lowering answers `malformed`.
-/
namespace Rsj.Lower
open Rsj.Parser (Frag2 Br2 NodeWF SpecWF ObjWF skids pkids optL paramsExprs bindsExprs)

/-- the only error is `unsupported` (neither `malformed` nor `badPayload`) -/
def NM {α : Type} (x : R α) : Prop := ∀ e, x = .error e → ∃ m, e = .unsupported m

theorem NM.ok {α : Type} (a : α) : NM (.ok a : R α) := fun _ h => by cases h
theorem NM.pure {α : Type} (a : α) : NM (Pure.pure a : R α) := fun _ h => by cases h
theorem NM.unsupported {α : Type} (m : String) : NM (.error (.unsupported m) : R α) :=
  fun _ h => by cases h; exact ⟨m, rfl⟩

theorem NM.bind {α β : Type} {x : R α} {f : α → R β} (hx : NM x) (hf : ∀ a, NM (f a)) : NM (x >>= f) := by
  intro e h
  cases x with
  | error e' => cases h; exact hx _ rfl
  | ok a => exact hf a e h

theorem NM.decStr (h : String) : NM (decStr h) := NM.ok _

theorem NM.decNum (p : String) : NM (decNum p) := NM.ok _

theorem NM.builtinOf (n : String) (args : List Parser.Arg) (ts : Bool) : NM (builtinOf n args ts) := by
  unfold Lower.builtinOf
  apply NM.bind (NM.decStr _)
  intro name
  split
  · exact NM.unsupported _
  · split
    · exact NM.unsupported _
    · split
      · exact NM.unsupported _
      · split
        · exact NM.unsupported _
        · exact NM.ok _

theorem Br2.wf {Q : Parser.Expr → Prop} {e : Parser.Expr} (h : Br2 Q e) : NodeWF e := by
  cases h with | mk _ hwf _ _ _ => exact hwf
theorem Br2.skid {Q : Parser.Expr → Prop} {e x : Parser.Expr} (h : Br2 Q e) (hx : x ∈ skids e) : Br2 Q x := by
  cases h with | mk _ _ hs _ _ => exact hs x hx
theorem Br2.pkid {Q : Parser.Expr → Prop} {e x : Parser.Expr} (h : Br2 Q e) (hx : x ∈ pkids e) : Br2 Q x := by
  cases h with | mk _ _ _ hp _ => exact hp x hx

theorem specWF_head {spec : List Parser.CompSpec} (h : SpecWF spec) : specsHeadFor spec = true := by
  obtain ⟨v, inner, rest, rfl⟩ := h
  rfl

/-- discharge `NM` goals built from binds of the recursive calls `ids` (universally quantified facts) -/
syntax "nm" (ppSpace ident)* : tactic
macro_rules
  | `(tactic| nm $ids*) => do
    let alts ← ids.mapM fun i => `(tacticSeq| first | exact $i _ _ | exact $i _)
    `(tactic| repeat' (first
      | exact NM.pure _ | exact NM.ok _ | exact NM.decStr _ | exact NM.decNum _ | exact NM.builtinOf _ _ _
      | exact NM.unsupported _
      | (first $[| $alts]* | fail)
      | apply NM.bind
      | intro _))

variable (libs : List (String × String))

mutual
  theorem nm_E : ∀ (e : Parser.Expr) (lib tail : Bool), Frag2 e → NM (lowerE libs e lib tail)
    | .null _, _, _, _ => by rw [lowerE]; nm
    | .bool b _, _, _, _ => by rw [lowerE]; nm
    | .selfObj _, _, _, _ => by rw [lowerE]; nm
    | .dollar _, _, _, _ => by rw [lowerE]; nm
    | .str s _, _, _, _ => by rw [lowerE]; nm
    | .textBlock s _, _, _, _ => by rw [lowerE]; nm
    | .number n _, _, _, _ => by rw [lowerE]; nm
    | .paren e _, lib, _, h => by
      rw [lowerE]
      have i1 := fun l t => nm_E e l t (Br2.skid h (by simp [skids]))
      nm i1
    | .object o _, lib, _, h => by
      rw [lowerE]
      exact nm_Obj o lib (Br2.wf h) (fun x hx => Br2.pkid h (by simpa [pkids] using hx))
    | .array items _, lib, _, h => by
      rw [lowerE]
      have i1 := fun l => nm_Exprs items l (fun x hx => Br2.skid h (by simpa [skids] using hx))
      nm i1
    | .arrayComp e spec _, lib, _, h => by
      rw [lowerE]
      have hh : specsHeadFor spec = true := specWF_head (Br2.wf h)
      simp only [hh, Bool.not_true, Bool.false_eq_true, if_false]
      have i1 := fun l t => nm_E e l t (Br2.skid h (by simp [skids]))
      have i2 := fun l => nm_Specs spec l (fun x hx => Br2.pkid h (by simpa [pkids] using hx))
      nm i1 i2
    | .field e name _, lib, _, h => by
      rw [lowerE]
      have i1 := fun l t => nm_E e l t (Br2.skid h (by simp [skids]))
      nm i1
    | .index e i _, lib, _, h => by
      rw [lowerE]
      have i1 := fun l t => nm_E e l t (Br2.skid h (by simp [skids]))
      have i2 := fun l t => nm_E i l t (Br2.pkid h (by simp [pkids]))
      nm i1 i2
    | .slice e a b c _, lib, _, h => by
      rw [lowerE]
      have i1 := fun l t => nm_E e l t (Br2.skid h (by simp [skids]))
      have i2 := fun l t => nm_Opt a l t (fun x hx => Br2.pkid h (by simp [pkids]; exact .inl hx))
      have i3 := fun l t => nm_Opt b l t (fun x hx => Br2.pkid h (by simp [pkids]; exact .inr (.inl hx)))
      have i4 := fun l t => nm_Opt c l t (fun x hx => Br2.pkid h (by simp [pkids]; exact .inr (.inr hx)))
      nm i1 i2 i3 i4
    | .superField _ name _, _, _, _ => by rw [lowerE]; nm
    | .superIndex _ i _, lib, _, h => by
      rw [lowerE]
      have i1 := fun l t => nm_E i l t (Br2.pkid h (by simp [pkids]))
      nm i1
    | .call f args ts _, lib, tail, h => by
      rw [lowerE]
      have i1 := fun l t => nm_E f l t (Br2.skid h (by simp [skids]))
      have i2 := fun l => nm_Args args l (fun x hx => Br2.pkid h (by simpa [pkids] using hx))
      have i3 := fun l => nm_ArgExprs args l (fun x hx => Br2.pkid h (by simpa [pkids] using hx))
      split <;> nm i1 i2 i3
    | .ident id _, lib, _, _ => by
      rw [lowerE]
      split <;> nm
    | .local_ binds body _, lib, tail, h => by
      rw [lowerE]
      have i1 := fun l => nm_Binds binds l (fun x hx => Br2.pkid h (by simp [pkids]; exact .inl hx))
      have i2 := fun l t => nm_E body l t (Br2.pkid h (by simp [pkids]))
      nm i1 i2
    | .ite_ c t e _, lib, tail, h => by
      rw [lowerE]
      have i1 := fun l t' => nm_E c l t' (Br2.pkid h (by simp [pkids]))
      have i2 := fun l t' => nm_E t l t' (Br2.pkid h (by simp [pkids]))
      have i3 := fun l t' => nm_Opt e l t' (fun x hx => Br2.pkid h (by simp [pkids]; exact .inr (.inr hx)))
      nm i1 i2 i3
    | .binary l op r _, lib, _, h => by
      rw [lowerE]
      have i1 := fun lb t => nm_E l lb t (Br2.skid h (by simp [skids]))
      have i2 := fun lb t => nm_E r lb t (Br2.skid h (by simp [skids]))
      nm i1 i2
    | .unary op e _, lib, _, h => by
      rw [lowerE]
      have i1 := fun l t => nm_E e l t (Br2.skid h (by simp [skids]))
      nm i1
    | .objExt e o _ _, lib, _, h => by
      rw [lowerE]
      have i1 := fun l t => nm_E e l t (Br2.skid h (by simp [skids]))
      have i2 := fun l => nm_Obj o l (Br2.wf h) (fun x hx => Br2.pkid h (by simpa [pkids] using hx))
      nm i1 i2
    | .func params body _, lib, _, h => by
      rw [lowerE]
      have i1 := fun l => nm_Params params l (fun x hx => Br2.pkid h (by simp [pkids]; exact .inl hx))
      have i2 := fun l t => nm_E body l t (Br2.pkid h (by simp [pkids]))
      nm i1 i2
    | .assert_ (.mk _ cond msg) body _, lib, tail, h => by
      rw [lowerE]
      have i1 := fun l t => nm_E cond l t (Br2.pkid h (by simp [pkids, Parser.Assert.exprs, Parser.Assert.cond]))
      have i2 := fun l t => nm_Opt msg l t (fun x hx => Br2.pkid h (by
        simp [pkids, Parser.Assert.exprs, Parser.Assert.msg]; exact .inr (.inl hx)))
      have i3 := fun l t => nm_E body l t (Br2.pkid h (by simp [pkids]))
      nm i1 i2 i3
    | .import_ e _, lib, _, h => by
      rw [lowerE]
      have i1 := fun l t => nm_E e l t (Br2.pkid h (by simp [pkids]))
      split <;> nm i1
    | .importStr e _, lib, _, h => by
      rw [lowerE]
      have i1 := fun l t => nm_E e l t (Br2.pkid h (by simp [pkids]))
      split <;> nm i1
    | .importBin e _, lib, _, h => by
      rw [lowerE]
      have i1 := fun l t => nm_E e l t (Br2.pkid h (by simp [pkids]))
      split <;> nm i1
    | .error_ e _, lib, _, h => by
      rw [lowerE]
      have i1 := fun l t => nm_E e l t (Br2.pkid h (by simp [pkids]))
      nm i1
    | .inSuper e _ _, lib, _, h => by
      rw [lowerE]
      have i1 := fun l t => nm_E e l t (Br2.skid h (by simp [skids]))
      nm i1
  theorem nm_Opt : ∀ (o : Option Parser.Expr) (lib tail : Bool), (∀ x ∈ optL o, Frag2 x) → NM (lowerOpt libs o lib tail)
    | none, _, _, _ => by rw [lowerOpt]; nm
    | some e, lib, tail, h => by
      rw [lowerOpt]
      have i1 := fun l t => nm_E e l t (h e (by simp [optL]))
      nm i1
  theorem nm_Exprs : ∀ (es : List Parser.Expr) (lib : Bool), (∀ x ∈ es, Frag2 x) → NM (lowerExprs libs es lib)
    | [], _, _ => by rw [lowerExprs]; nm
    | e :: es, lib, h => by
      rw [lowerExprs]
      have i1 := fun l t => nm_E e l t (h e (by simp))
      have i2 := fun l => nm_Exprs es l (fun x hx => h x (by simp [hx]))
      nm i1 i2
  theorem nm_Args : ∀ (as : List Parser.Arg) (lib : Bool), (∀ x ∈ as.map Parser.Arg.expr, Frag2 x) →
      NM (lowerArgs libs as lib)
    | [], _, _ => by rw [lowerArgs]; nm
    | .positional e :: rest, lib, h => by
      rw [lowerArgs]
      have i1 := fun l t => nm_E e l t (h e (by simp [Parser.Arg.expr]))
      have i2 := fun l => nm_Args rest l (fun x hx => h x (by simp at hx ⊢; exact .inr hx))
      nm i1 i2
    | .named nm' e :: rest, lib, h => by
      rw [lowerArgs]
      have i1 := fun l t => nm_E e l t (h e (by simp [Parser.Arg.expr]))
      have i2 := fun l => nm_Args rest l (fun x hx => h x (by simp at hx ⊢; exact .inr hx))
      nm i1 i2
  theorem nm_ArgExprs : ∀ (as : List Parser.Arg) (lib : Bool), (∀ x ∈ as.map Parser.Arg.expr, Frag2 x) →
      NM (lowerArgExprs libs as lib)
    | [], _, _ => by rw [lowerArgExprs]; nm
    | .positional e :: rest, lib, h => by
      rw [lowerArgExprs]
      have i1 := fun l t => nm_E e l t (h e (by simp [Parser.Arg.expr]))
      have i2 := fun l => nm_ArgExprs rest l (fun x hx => h x (by simp at hx ⊢; exact .inr hx))
      nm i1 i2
    | .named nm' e :: rest, lib, h => by
      rw [lowerArgExprs]
      have i1 := fun l t => nm_E e l t (h e (by simp [Parser.Arg.expr]))
      have i2 := fun l => nm_ArgExprs rest l (fun x hx => h x (by simp at hx ⊢; exact .inr hx))
      nm i1 i2
  theorem nm_Params : ∀ (ps : List Parser.Param) (lib : Bool), (∀ x ∈ paramsExprs ps, Frag2 x) →
      NM (lowerParams libs ps lib)
    | [], _, _ => by rw [lowerParams]; nm
    | .mk name d :: rest, lib, h => by
      rw [lowerParams]
      have i1 := fun l t => nm_Opt d l t (fun x hx => h x (by
        simp [paramsExprs, Parser.Param.dflt]; exact .inl hx))
      have i2 := fun l => nm_Params rest l (fun x hx => h x (by
        simp only [paramsExprs, List.flatMap_cons, List.mem_append] at hx ⊢; exact .inr hx))
      nm i1 i2
  theorem nm_Binds : ∀ (bs : List Parser.Bind) (lib : Bool), (∀ x ∈ bindsExprs bs, Frag2 x) →
      NM (lowerBinds libs bs lib)
    | [], _, _ => by rw [lowerBinds]; nm
    | .mk name hasParams params _ value :: rest, lib, h => by
      rw [lowerBinds]
      have i1 := fun l => nm_Params params l (fun x hx => h x (by
        simp only [bindsExprs, List.flatMap_cons, Parser.Bind.exprs, Parser.Bind.params, List.mem_append]
        exact .inl (.inl hx)))
      have i2 := fun l t => nm_E value l t (h value (by
        simp [bindsExprs, Parser.Bind.exprs, Parser.Bind.value]))
      have i3 := fun l => nm_Binds rest l (fun x hx => h x (by
        simp only [bindsExprs, List.flatMap_cons, List.mem_append] at hx ⊢; exact .inr hx))
      apply NM.bind (NM.decStr _)
      intro n
      split <;> nm i1 i2 i3
  theorem nm_Specs : ∀ (ss : List Parser.CompSpec) (lib : Bool), (∀ x ∈ ss.map Parser.CompSpec.expr, Frag2 x) →
      NM (lowerSpecs libs ss lib)
    | [], _, _ => by rw [lowerSpecs]; nm
    | .for_ v inner :: rest, lib, h => by
      rw [lowerSpecs]
      have i1 := fun l t => nm_E inner l t (h inner (by simp [Parser.CompSpec.expr]))
      have i2 := fun l => nm_Specs rest l (fun x hx => h x (by simp at hx ⊢; exact .inr hx))
      nm i1 i2
    | .if_ c :: rest, lib, h => by
      rw [lowerSpecs]
      have i1 := fun l t => nm_E c l t (h c (by simp [Parser.CompSpec.expr]))
      have i2 := fun l => nm_Specs rest l (fun x hx => h x (by simp at hx ⊢; exact .inr hx))
      nm i1 i2
  theorem nm_Obj : ∀ (o : Parser.ObjInside) (lib : Bool), ObjWF o → (∀ x ∈ o.exprs, Frag2 x) →
      NM (lowerObj libs o lib)
    | .members ms, lib, _, h => by
      rw [lowerObj]
      have i1 := fun a b => nm_Members ms a b (fun x hx => h x (by simpa [Parser.ObjInside.exprs] using hx))
      nm i1
    | .comp l1 name plus body l2 spec, lib, hw, h => by
      rw [lowerObj]
      have hh : specsHeadFor spec = true := specWF_head hw.2.2
      simp only [hh, Bool.not_true, Bool.false_eq_true, if_false]
      have i1 := fun l => nm_Specs spec l (fun x hx => h x (by
        simp only [Parser.ObjInside.exprs, List.mem_append]; exact .inr hx))
      have i2 := fun l => nm_Binds l1 l (fun x hx => h x (by
        simp only [Parser.ObjInside.exprs, List.mem_append]; exact .inl (.inl (.inl hx))))
      have i3 := fun l => nm_Binds l2 l (fun x hx => h x (by
        simp only [Parser.ObjInside.exprs, List.mem_append]; exact .inl (.inr hx)))
      have i4 := fun l t => nm_E name l t (h name (by simp [Parser.ObjInside.exprs]))
      have i5 := fun l t => nm_E body l t (h body (by simp [Parser.ObjInside.exprs]))
      nm i1 i2 i3 i4 i5
  theorem nm_Members : ∀ (ms : List Parser.Member) (outer inner : Bool),
      (∀ x ∈ ms.flatMap Parser.Member.exprs, Frag2 x) → NM (lowerMembers libs ms outer inner)
    | [], _, _, _ => by rw [lowerMembers]; nm
    | .local_ (.mk name hasParams params _ value) :: rest, outer, inner, h => by
      rw [lowerMembers]
      have i1 := fun l => nm_Params params l (fun x hx => h x (by
        simp only [List.flatMap_cons, Parser.Member.exprs, Parser.Bind.exprs, Parser.Bind.params, List.mem_append]
        exact .inl (.inl hx)))
      have i2 := fun l t => nm_E value l t (h value (by
        simp [Parser.Member.exprs, Parser.Bind.exprs, Parser.Bind.value]))
      have i3 := fun a b => nm_Members rest a b (fun x hx => h x (by
        simp only [List.flatMap_cons, List.mem_append]; exact .inr hx))
      apply NM.bind (NM.decStr _)
      intro n
      split <;> nm i1 i2 i3
    | .assert_ (.mk _ cond msg) :: rest, outer, inner, h => by
      rw [lowerMembers]
      have i1 := fun l t => nm_E cond l t (h cond (by
        simp [Parser.Member.exprs, Parser.Assert.exprs, Parser.Assert.cond]))
      have i2 := fun l t => nm_Opt msg l t (fun x hx => h x (by
        simp only [List.flatMap_cons, Parser.Member.exprs, Parser.Assert.exprs, Parser.Assert.msg, List.mem_append,
          List.mem_cons]
        exact .inl (.inr hx)))
      have i3 := fun a b => nm_Members rest a b (fun x hx => h x (by
        simp only [List.flatMap_cons, List.mem_append]; exact .inr hx))
      nm i1 i2 i3
    | .field (.value fname plus v e) :: rest, outer, inner, h => by
      rw [lowerMembers]
      have i1 := fun l t => nm_E e l t (h e (by simp [Parser.Member.exprs, Parser.Field.exprs]))
      have i2 := fun l => nm_FieldName fname l (fun x hx => h x (by
        simp only [List.flatMap_cons, Parser.Member.exprs, Parser.Field.exprs, List.mem_append]
        exact .inl (.inl hx)))
      have i3 := fun a b => nm_Members rest a b (fun x hx => h x (by
        simp only [List.flatMap_cons, List.mem_append]; exact .inr hx))
      nm i1 i2 i3
    | .field (.func fname params _ v e) :: rest, outer, inner, h => by
      rw [lowerMembers]
      have i1 := fun l t => nm_E e l t (h e (by simp [Parser.Member.exprs, Parser.Field.exprs]))
      have i2 := fun l => nm_FieldName fname l (fun x hx => h x (by
        simp only [List.flatMap_cons, Parser.Member.exprs, Parser.Field.exprs, List.mem_append]
        exact .inl (.inl (.inl hx))))
      have i3 := fun a b => nm_Members rest a b (fun x hx => h x (by
        simp only [List.flatMap_cons, List.mem_append]; exact .inr hx))
      have i4 := fun l => nm_Params params l (fun x hx => h x (by
        simp only [List.flatMap_cons, Parser.Member.exprs, Parser.Field.exprs, List.mem_append]
        exact .inl (.inl (.inr hx))))
      nm i1 i2 i3 i4
  theorem nm_FieldName : ∀ (f : Parser.FieldName) (outer : Bool), (∀ x ∈ f.exprs, Frag2 x) →
      NM (lowerFieldName libs f outer)
    | .ident i, _, _ => by rw [lowerFieldName]; nm
    | .str s _, _, _ => by rw [lowerFieldName]; nm
    | .expr ne _, outer, h => by
      rw [lowerFieldName]
      have i1 := fun l t => nm_E ne l t (h ne (by simp [Parser.FieldName.exprs]))
      nm i1
end

/-- **On parser output the lowering answers a program or `unsupported`**: the `malformed` guard is
    unreachable (comprehensions of parser output start with `for`), and nothing produces `badPayload`
    (payload decoding is total). -/
theorem lowerWith_parse_only_unsupported {toks : List Parser.Token} {ast : Parser.Expr}
    (h : Parser.parse toks = .ok ast) {e : LowerErr} (he : lowerWith libs ast = .error e) :
    ∃ m, e = .unsupported m :=
  nm_E libs ast true false (Parser.parse_ok_frag2 h) e he

theorem lowerWith_parse_not_malformed {toks : List Parser.Token} {ast : Parser.Expr}
    (h : Parser.parse toks = .ok ast) (w : String) : lowerWith libs ast ≠ .error (.malformed w) := by
  intro he
  obtain ⟨m, hm⟩ := lowerWith_parse_only_unsupported libs h he
  cases hm

theorem lowerWith_parse_not_badPayload {toks : List Parser.Token} {ast : Parser.Expr}
    (h : Parser.parse toks = .ok ast) (w : String) : lowerWith libs ast ≠ .error (.badPayload w) := by
  intro he
  obtain ⟨m, hm⟩ := lowerWith_parse_only_unsupported libs h he
  cases hm

end Rsj.Lower
