/-
  Object algebra of the evaluator model (`RsjModel/Eval.lean`, section "Objects"),
  part 1: the field-order fold.

  `Eval.fieldsOrder` is a left fold over all fields of all layers, top layer
  first.  Here it is characterised without reference to any other model:

  * the result is strictly sorted by `<` on the field name (`fieldsOrder_sorted`);
  * the visibility it records for a name is `resolveVis` of the sequence of
    visibilities of that name met from the top down (`lookupVis_fieldsOrder`):
    the first non-default one, `default` if there are only defaults, absent if
    the name does not occur.

  No well-formedness assumption is needed for these two facts (a layer that
  lists a name twice is treated by the fold as if the second occurrence lived
  one layer further down).
-/
import RsjModel.Eval
set_option linter.unusedSimpArgs false
namespace Rsj.Eval
open Rsj.Core

/-! ### `<` on `String` is a strict linear order -/

theorem str_lt_of_not_lt_of_ne {a b : String} (h1 : ¬ a < b) (h2 : a ≠ b) : b < a := by
  rcases Decidable.em (b < a) with h | h
  · exact h
  · exact absurd (String.le_antisymm (String.not_lt.mp h) (String.not_lt.mp h1)) h2

/-- Two lists that are strictly increasing for an asymmetric relation and have
    the same elements are equal. -/
theorem eq_of_pairwise_of_mem_iff {α : Type} (r : α → α → Prop)
    (hasym : ∀ a b, r a b → r b a → False) :
    ∀ l1 l2 : List α, l1.Pairwise r → l2.Pairwise r → (∀ x, x ∈ l1 ↔ x ∈ l2) → l1 = l2 := by
  intro l1
  induction l1 with
  | nil =>
    intro l2 _ _ h
    cases l2 with
    | nil => rfl
    | cons b u => exact absurd ((h b).mpr (by simp)) (by simp)
  | cons a t ih =>
    intro l2 h1 h2 h
    cases l2 with
    | nil => exact absurd ((h a).mp (by simp)) (by simp)
    | cons b u =>
      rw [List.pairwise_cons] at h1 h2
      have hab : a = b := by
        rcases List.mem_cons.mp ((h a).mp (by simp)) with e | ha
        · exact e
        · rcases List.mem_cons.mp ((h b).mpr (by simp)) with e | hb
          · exact e.symm
          · exact (hasym a b (h1.1 b hb) (h2.1 a ha)).elim
      subst hab
      congr 1
      apply ih u h1.2 h2.2
      intro x
      constructor
      · intro hx
        rcases List.mem_cons.mp ((h x).mp (List.mem_cons_of_mem _ hx)) with e | hx'
        · subst e; exact (hasym x x (h1.1 x hx) (h1.1 x hx)).elim
        · exact hx'
      · intro hx
        rcases List.mem_cons.mp ((h x).mpr (List.mem_cons_of_mem _ hx)) with e | hx'
        · subst e; exact (hasym x x (h2.1 x hx) (h2.1 x hx)).elim
        · exact hx'

/-! ### Specification vocabulary -/

/-- all fields of all layers, top layer first, each layer in its own order -/
def allFields (o : Obj) : List Field := o.layers.flatMap (fun l => l.fields)

/-- the visibilities of the fields called `n` among `fs`, in order -/
def visOf (fs : List Field) (n : String) : List Vis :=
  (fs.filter (fun f => f.name == n)).map (fun f => f.vis)

/-- the visibilities declared for the name `n`, met from the top layer down -/
def visSeq (o : Obj) (n : String) : List Vis := visOf (allFields o) n

def firstNonDefault : List Vis → Option Vis
  | [] => none
  | .default :: r => firstNonDefault r
  | v :: _ => some v

/-- the visibility rule: absent if the name is never met, otherwise the first
    non-default visibility met, otherwise `default` -/
def resolveVis (w : List Vis) : Option Vis :=
  match w with
  | [] => none
  | _ => some ((firstNonDefault w).getD .default)

/-- the visibility a list of `(name, visibility)` pairs records for `n` -/
def lookupVis (acc : List (String × Vis)) (n : String) : Option Vis :=
  (acc.find? (fun p => p.1 == n)).map (fun p => p.2)

/-- strictly increasing field names -/
def KeySorted (l : List (String × Vis)) : Prop := l.Pairwise (fun p q => p.1 < q.1)

/-- one more occurrence (visibility `w`) of a name whose visibility so far is `old` -/
def mergeStep (old : Option Vis) (w : Vis) : Vis :=
  match old with
  | none => w
  | some .default => w
  | some d => d

/-- visibility of a name in `a + b` from its visibilities in `a` and in `b` -/
def mergeVis (va vb : Option Vis) : Option Vis :=
  match vb with
  | none => va
  | some .default => some (va.getD .default)
  | some v => some v

/-! ### `resolveVis` -/

theorem firstNonDefault_ne_default (w : List Vis) : firstNonDefault w ≠ some .default := by
  induction w with
  | nil => simp [firstNonDefault]
  | cons v w ih => cases v <;> simp [firstNonDefault, ih]

theorem firstNonDefault_append (w1 w2 : List Vis) :
    firstNonDefault (w1 ++ w2) = (firstNonDefault w1).orElse (fun _ => firstNonDefault w2) := by
  induction w1 with
  | nil => simp [firstNonDefault]
  | cons v w ih => cases v <;> simp [firstNonDefault, ih]

theorem resolveVis_eq_none (w : List Vis) : resolveVis w = none ↔ w = [] := by
  cases w <;> simp [resolveVis]

theorem resolveVis_append (w1 w2 : List Vis) :
    resolveVis (w2 ++ w1) = mergeVis (resolveVis w1) (resolveVis w2) := by
  cases w2 with
  | nil => simp [resolveVis, mergeVis]
  | cons x w2 =>
    have hnd := firstNonDefault_ne_default (x :: w2)
    simp only [List.cons_append, resolveVis, mergeVis]
    rw [← List.cons_append, firstNonDefault_append]
    cases hf : firstNonDefault (x :: w2) with
    | some y =>
      cases y with
      | default => rw [hf] at hnd; exact absurd rfl hnd
      | hidden => simp
      | force => simp
    | none =>
      simp only [Option.orElse_none, Option.getD_none]
      cases w1 with
      | nil => simp [firstNonDefault]
      | cons z w1 => simp

theorem resolveVis_single (w : Vis) : resolveVis [w] = some w := by
  cases w <;> simp [resolveVis, firstNonDefault]

theorem resolveVis_snoc (s : List Vis) (w : Vis) :
    resolveVis (s ++ [w]) = some (mergeStep (resolveVis s) w) := by
  rw [resolveVis_append, resolveVis_single]
  cases s with
  | nil => cases w <;> simp [resolveVis, mergeVis, mergeStep]
  | cons x s =>
    have hnd := firstNonDefault_ne_default (x :: s)
    simp only [resolveVis]
    cases hf : firstNonDefault (x :: s) with
    | none => cases w <;> simp [mergeVis, mergeStep]
    | some y =>
      cases y with
      | default => rw [hf] at hnd; exact absurd rfl hnd
      | hidden => cases w <;> simp [mergeVis, mergeStep]
      | force => cases w <;> simp [mergeVis, mergeStep]

/-! ### `insertSorted` and the replacement map -/

theorem mem_insertSorted (n : String) (v : Vis) (l : List (String × Vis)) (x : String × Vis) :
    x ∈ insertSorted n v l ↔ x = (n, v) ∨ x ∈ l := by
  induction l with
  | nil => simp [insertSorted]
  | cons p t ih =>
    obtain ⟨m, w⟩ := p
    simp only [insertSorted]
    split
    · simp
    · simp only [List.mem_cons, ih]
      constructor
      · rintro (h | h | h) <;> simp [h]
      · rintro (h | h | h) <;> simp [h]

theorem keySorted_insertSorted (n : String) (v : Vis) (l : List (String × Vis))
    (hs : KeySorted l) (hn : ∀ p ∈ l, p.1 ≠ n) : KeySorted (insertSorted n v l) := by
  induction l with
  | nil => simp [insertSorted, KeySorted]
  | cons p t ih =>
    obtain ⟨m, w⟩ := p
    unfold KeySorted at hs ih ⊢
    rw [List.pairwise_cons] at hs
    simp only [insertSorted]
    split
    · next hlt =>
      rw [List.pairwise_cons]
      refine ⟨?_, List.pairwise_cons.mpr hs⟩
      intro q hq
      rcases List.mem_cons.mp hq with e | hq
      · subst e; exact hlt
      · exact String.lt_trans hlt (hs.1 q hq)
    · next hnlt =>
      have hmn : m < n := str_lt_of_not_lt_of_ne hnlt (fun e => hn (m, w) (by simp) e.symm)
      rw [List.pairwise_cons]
      refine ⟨?_, ih hs.2 (fun p hp => hn p (List.mem_cons_of_mem _ hp))⟩
      intro q hq
      rcases (mem_insertSorted n v t q).mp hq with e | hq
      · subst e; exact hmn
      · exact hs.1 q hq

theorem lookupVis_insertSorted (k : String) (w : Vis) (l : List (String × Vis)) (n : String)
    (hk : lookupVis l k = none) :
    lookupVis (insertSorted k w l) n = if n = k then some w else lookupVis l n := by
  induction l with
  | nil =>
    by_cases h : n = k
    · subst h; simp [insertSorted, lookupVis]
    · have : (k == n) = false := by simp [Ne.symm h]
      simp [insertSorted, lookupVis, this, h]
  | cons p t ih =>
    obtain ⟨m, x⟩ := p
    have hmk : (m == k) = false := by
      cases hb : (m == k) with
      | false => rfl
      | true => simp [lookupVis, List.find?, hb] at hk
    have hk' : lookupVis t k = none := by
      simpa [lookupVis, List.find?, hmk] using hk
    simp only [insertSorted]
    split
    · by_cases h : n = k
      · subst h; simp [lookupVis]
      · have : (k == n) = false := by simp [Ne.symm h]
        simp [lookupVis, List.find?, this, h]
    · by_cases h : n = k
      · subst h
        have := ih hk'
        simp only [if_true] at this ⊢
        simp only [lookupVis, List.find?, hmk] at this ⊢
        exact this
      · have := ih hk'
        simp only [h, if_false] at this ⊢
        simp only [lookupVis, List.find?] at this ⊢
        cases hb : (m == n) with
        | true => simp
        | false => simpa using this

theorem lookupVis_replace (k : String) (w : Vis) (l : List (String × Vis)) (n : String) :
    lookupVis (l.map (fun p => if p.1 == k then (p.1, w) else p)) n =
      if n = k then (lookupVis l k).map (fun _ => w) else lookupVis l n := by
  induction l with
  | nil => by_cases h : n = k <;> simp [lookupVis, h]
  | cons p t ih =>
    obtain ⟨m, x⟩ := p
    simp only [List.map_cons]
    by_cases hmk : m = k
    · subst hmk
      by_cases h : n = m
      · subst h; simp [lookupVis]
      · have : (m == n) = false := by simp [Ne.symm h]
        simp only [lookupVis, List.find?, beq_self_eq_true, if_true, this, h, if_false] at ih ⊢
        exact ih
    · have hb : (m == k) = false := by simp [hmk]
      by_cases h : n = k
      · subst h
        simp only [lookupVis, List.find?, hb, if_true] at ih ⊢
        simp only [Bool.false_eq_true, if_false, hb]
        exact ih
      · simp only [lookupVis, List.find?, hb, h, if_false, Bool.false_eq_true] at ih ⊢
        cases hmn : (m == n) with
        | true => simp
        | false => simpa using ih

theorem keySorted_replace (k : String) (w : Vis) (l : List (String × Vis)) (hs : KeySorted l) :
    KeySorted (l.map (fun p => if p.1 == k then (p.1, w) else p)) := by
  unfold KeySorted at *
  rw [List.pairwise_map]
  refine hs.imp ?_
  intro a b hab
  by_cases ha : a.1 == k <;> by_cases hb : b.1 == k <;> simp [ha, hb, hab]

theorem lookupVis_none_iff (l : List (String × Vis)) (n : String) :
    lookupVis l n = none ↔ ∀ p ∈ l, p.1 ≠ n := by
  simp [lookupVis, List.find?_eq_none]

theorem lookupVis_some_mem {l : List (String × Vis)} {n : String} {v : Vis}
    (h : lookupVis l n = some v) : (n, v) ∈ l := by
  unfold lookupVis at h
  cases hf : l.find? (fun p => p.1 == n) with
  | none => rw [hf] at h; simp at h
  | some p =>
    rw [hf] at h
    simp only [Option.map_some, Option.some.injEq] at h
    have hm := List.mem_of_find?_eq_some hf
    have hp := List.find?_some hf
    simp only [beq_iff_eq] at hp
    obtain ⟨a, b⟩ := p
    simp only at hp h
    subst hp; subst h; exact hm

/-- in a key-sorted list, membership is lookup -/
theorem mem_iff_lookupVis {l : List (String × Vis)} (hs : KeySorted l) (n : String) (v : Vis) :
    (n, v) ∈ l ↔ lookupVis l n = some v := by
  refine ⟨?_, lookupVis_some_mem⟩
  induction l with
  | nil => simp
  | cons p t ih =>
    obtain ⟨m, x⟩ := p
    unfold KeySorted at hs ih
    rw [List.pairwise_cons] at hs
    intro hm
    rcases List.mem_cons.mp hm with e | hm
    · cases e; simp [lookupVis]
    · have hlt : m < n := hs.1 (n, v) hm
      have : (m == n) = false := by
        simp only [beq_eq_false_iff_ne, ne_eq]
        intro e; subst e; exact String.lt_irrefl _ hlt
      have := ih hs.2 hm
      simp only [lookupVis, List.find?] at this ⊢
      rename_i hne
      simp only [hne]
      exact this

/-! ### The fold -/

/-- the step of `get_fields_order` for one field -/
def foStep (acc : List (String × Vis)) (f : Field) : List (String × Vis) :=
  match acc.find? (fun p => p.1 == f.name) with
  | none => insertSorted f.name f.vis acc
  | some (_, .default) => acc.map (fun p => if p.1 == f.name then (p.1, f.vis) else p)
  | some _ => acc

theorem fieldsOrder_eq (o : Obj) : fieldsOrder o = (allFields o).foldl foStep [] := by
  unfold fieldsOrder allFields
  generalize ([] : List (String × Vis)) = acc
  induction o.layers generalizing acc with
  | nil => rfl
  | cons l ls ih =>
    rw [List.foldl_cons, List.flatMap_cons, List.foldl_append, ih]
    rfl

theorem foStep_keySorted (acc : List (String × Vis)) (f : Field) (hs : KeySorted acc) :
    KeySorted (foStep acc f) := by
  unfold foStep
  split
  · next hnone =>
    apply keySorted_insertSorted _ _ _ hs
    intro p hp
    have := List.find?_eq_none.mp hnone p hp
    simpa using this
  · exact keySorted_replace _ _ _ hs
  · exact hs

theorem foStep_lookupVis (acc : List (String × Vis)) (f : Field) (n : String) :
    lookupVis (foStep acc f) n =
      if n = f.name then some (mergeStep (lookupVis acc f.name) f.vis) else lookupVis acc n := by
  unfold foStep
  split
  · next hnone =>
    have hk : lookupVis acc f.name = none := by simp [lookupVis, hnone]
    rw [lookupVis_insertSorted _ _ _ _ hk, hk]
    simp [mergeStep]
  · next k hsome =>
    have hk : lookupVis acc f.name = some .default := by simp [lookupVis, hsome]
    rw [lookupVis_replace, hk]
    simp [mergeStep]
  · next x hnd hsome =>
    -- `x` is the found pair, with a non-default visibility
    obtain ⟨k, d⟩ := x
    have hk : lookupVis acc f.name = some d := by simp [lookupVis, hsome]
    have hd : d ≠ .default := fun e => hnd k (by rw [e])
    by_cases h : n = f.name
    · subst h
      rw [hk]
      cases d <;> simp_all [mergeStep]
    · simp [h]

theorem visOf_snoc (fs : List Field) (f : Field) (n : String) :
    visOf (fs ++ [f]) n = visOf fs n ++ (if n = f.name then [f.vis] else []) := by
  unfold visOf
  rw [List.filter_append, List.map_append]
  by_cases h : n = f.name
  · subst h; simp
  · have : (f.name == n) = false := by simp [Ne.symm h]
    simp [List.filter, this, h]

/-- invariant of the fold: after the fields `pre`, the accumulator is sorted and
    records exactly `resolveVis` of what was met -/
def FoInv (pre : List Field) (acc : List (String × Vis)) : Prop :=
  KeySorted acc ∧ ∀ n, lookupVis acc n = resolveVis (visOf pre n)

theorem foInv_step {pre : List Field} {acc : List (String × Vis)} (f : Field) (h : FoInv pre acc) :
    FoInv (pre ++ [f]) (foStep acc f) := by
  refine ⟨foStep_keySorted acc f h.1, ?_⟩
  intro n
  rw [foStep_lookupVis, visOf_snoc]
  by_cases hn : n = f.name
  · subst hn
    simp only [if_true]
    rw [resolveVis_snoc, h.2]
  · simp only [hn, if_false, List.append_nil]
    exact h.2 n

theorem foInv_foldl (fs : List Field) : ∀ (pre : List Field) (acc : List (String × Vis)),
    FoInv pre acc → FoInv (pre ++ fs) (fs.foldl foStep acc) := by
  induction fs with
  | nil => intro pre acc h; simpa using h
  | cons f fs ih =>
    intro pre acc h
    have := ih (pre ++ [f]) (foStep acc f) (foInv_step f h)
    simpa [List.append_assoc] using this

theorem foInv_fieldsOrder (o : Obj) : FoInv (allFields o) (fieldsOrder o) := by
  rw [fieldsOrder_eq]
  have := foInv_foldl (allFields o) [] [] ⟨by simp [KeySorted], by intro n; simp [lookupVis, visOf, resolveVis]⟩
  simpa using this

/-- `get_fields_order` lists the names in strictly increasing order -/
theorem fieldsOrder_sorted (o : Obj) : KeySorted (fieldsOrder o) := (foInv_fieldsOrder o).1

/-- the recorded visibility follows the visibility rule -/
theorem lookupVis_fieldsOrder (o : Obj) (n : String) :
    lookupVis (fieldsOrder o) n = resolveVis (visSeq o n) := (foInv_fieldsOrder o).2 n

theorem mem_fieldsOrder (o : Obj) (n : String) (v : Vis) :
    (n, v) ∈ fieldsOrder o ↔ resolveVis (visSeq o n) = some v := by
  rw [mem_iff_lookupVis (fieldsOrder_sorted o), lookupVis_fieldsOrder]

/-- `fieldsOrder` depends only on the names and visibilities of the fields, in order -/
theorem fieldsOrder_congr {o o' : Obj} (h : ∀ n, visSeq o' n = visSeq o n) :
    fieldsOrder o' = fieldsOrder o := by
  apply eq_of_pairwise_of_mem_iff (fun p q : String × Vis => p.1 < q.1)
    (fun a b h1 h2 => String.lt_asymm h1 h2) _ _ (fieldsOrder_sorted o') (fieldsOrder_sorted o)
  intro x
  obtain ⟨n, v⟩ := x
  rw [mem_fieldsOrder, mem_fieldsOrder, h]

end Rsj.Eval
