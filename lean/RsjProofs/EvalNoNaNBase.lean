import RsjProofs.EvalSafeRun
/-!
  C01 on the evaluator model, the last message ("partial_cmp of NaN"): no number stored in a
  finished thunk is a NaN (`NN`).  A value is NaN-free (`VNN`) when it is not a NaN number — arrays,
  objects and functions hold identifiers, not values, so this is a property of the value alone.
  Triples: `⦃NN⦄ x ⦃NN ∧ p result | error: not the NaN panic⦄`.
-/
open Std.Do
set_option mvcgen.warning false
namespace Rsj.Eval.NoNaN
open Rsj.Core Rsj.Eval Rsj.Eval.Scope

/-- what is needed of Lean's opaque `Float` (all theorems of IEEE 754 binary64) -/
structure FloatNaNFacts : Prop where
  /-- `partial_cmp` of two numbers that are not NaN is defined -/
  tri : ∀ x y : Float, x.isNaN = false → y.isNaN = false → x < y ∨ (x == y) = true ∨ x > y
  finite : ∀ x : Float, x.isFinite = true → x.isNaN = false
  neg : ∀ x : Float, x.isNaN = false → (-x).isNaN = false
  ofNat : ∀ n : Nat, (Float.ofNat n).isNaN = false
  ofInt : ∀ i : Int, (Float.ofInt i).isNaN = false
  ofScientific : ∀ (m : Nat) (s : Bool) (e : Nat), (OfScientific.ofScientific m s e : Float).isNaN = false
  floor : ∀ x : Float, x.isNaN = false → x.floor.isNaN = false
  ceil : ∀ x : Float, x.isNaN = false → x.ceil.isNaN = false

def VNN : Value → Prop
  | .num f => f.isNaN = false
  | _ => True

def TSNN : TState → Prop
  | .done v => VNN v
  | _ => True

/-- no finished thunk holds a NaN -/
def NN (st : St) : Prop := ∀ (t : Nat) (x : TState), st.thunks[t]? = some x → TSNN x

/-- the error is not the comparison of a NaN -/
def Good3 : Err → Prop
  | .internal m => m ≠ "partial_cmp of NaN"
  | _ => True

def Q3 {α} (p : α → Prop) : PostCond α PS :=
  ⟨fun a st => ⌜NN st ∧ p a⌝, fun e _ => ⌜Good3 e⌝, fun _ => ⌜True⌝, ()⟩

/-- loop invariants: the store, and a property of the loop state -/
def inv3 {β σ} (p : σ → Prop) : PostCond (β × σ) PS :=
  ⟨fun (_, x) st => ⌜NN st ∧ p x⌝, fun e _ => ⌜Good3 e⌝, fun _ => ⌜True⌝, ()⟩

macro "vcp" : tactic => `(tactic|
  ((try intros);
   (try simp only [Q3, inv3, SPred.down_pure] at *);
   destruct_hyps;
   (try subst_vars)))

theorem NN.thunks_eq {a b : St} (h : NN a) (he : b.thunks = a.thunks) : NN b := by
  intro t x hx; rw [he] at hx; exact h t x hx

theorem NN.push {s : St} (h : NN s) {x : TState} (hx : TSNN x) (runs : Array Nat) :
    NN { s with thunks := s.thunks.push x, runs := runs } := by
  intro t y hy
  rcases getElem?_push_cases hy with hy | ⟨_, rfl⟩
  · exact h t y hy
  · exact hx

theorem NN.set {s : St} (h : NN s) {x : TState} (t : Nat) (hx : TSNN x) (runs : Array Nat) :
    NN { s with thunks := s.thunks.setIfInBounds t x, runs := runs } := by
  intro u y hy
  rcases getElem?_set_cases hy with hy | ⟨_, rfl⟩
  · exact h u y hy
  · exact hx

theorem NN_empty : NN {} := fun t x h => by simp at h

syntax "nclose" : tactic
macro_rules
  | `(tactic| nclose) => `(tactic| first
    | assumption
    | trivial
    | (simp [Good3]; done)
    | exact NN.thunks_eq (by assumption) rfl
    | (refine ⟨?_, ?_⟩ <;> nclose)
    | (intro _; nclose))

/-- a function that does not write the thunk table -/
macro "nnprim" : tactic => `(tactic| (mvcgen; all_goals vcp; all_goals nclose))

@[spec] theorem allocThunk_nn (x : TState) (hx : TSNN x) :
    ⦃fun st => ⌜NN st⌝⦄ allocThunk x ⦃Q3 (fun _ => True)⦄ := by
  unfold allocThunk; mvcgen; vcp
  exact ⟨NN.push (by assumption) hx _, trivial⟩

@[spec] theorem allocEnv_nn (e : Env) : ⦃fun st => ⌜NN st⌝⦄ allocEnv e ⦃Q3 (fun _ => True)⦄ := by
  unfold allocEnv; nnprim
@[spec] theorem allocObj_nn (e : Obj) : ⦃fun st => ⌜NN st⌝⦄ allocObj e ⦃Q3 (fun _ => True)⦄ := by
  unfold allocObj; nnprim
@[spec] theorem allocFunc_nn (e : Func) : ⦃fun st => ⌜NN st⌝⦄ allocFunc e ⦃Q3 (fun _ => True)⦄ := by
  unfold allocFunc; nnprim
@[spec] theorem getEnv_nn (e : EId) : ⦃fun st => ⌜NN st⌝⦄ getEnv e ⦃Q3 (fun _ => True)⦄ := by
  unfold getEnv; nnprim
@[spec] theorem setEnv_nn (e : EId) (v : Env) : ⦃fun st => ⌜NN st⌝⦄ setEnv e v ⦃Q3 (fun _ => True)⦄ := by
  unfold setEnv; nnprim
@[spec] theorem getObj_nn (e : OId) : ⦃fun st => ⌜NN st⌝⦄ getObj e ⦃Q3 (fun _ => True)⦄ := by
  unfold getObj; nnprim
@[spec] theorem setObj_nn (e : OId) (v : Obj) : ⦃fun st => ⌜NN st⌝⦄ setObj e v ⦃Q3 (fun _ => True)⦄ := by
  unfold setObj; nnprim
@[spec] theorem noteDepth_nn (d : Nat) : ⦃fun st => ⌜NN st⌝⦄ noteDepth d ⦃Q3 (fun _ => True)⦄ := by
  unfold noteDepth; nnprim
@[spec] theorem pushTrace_nn (m : String) : ⦃fun st => ⌜NN st⌝⦄ pushTrace m ⦃Q3 (fun _ => True)⦄ := by
  unfold pushTrace; nnprim
@[spec] theorem getFunc_nn (f : FId) : ⦃fun st => ⌜NN st⌝⦄ getFunc f ⦃Q3 (fun _ => True)⦄ := by
  unfold getFunc; nnprim
@[spec] theorem getVar_nn (e : EId) (n : String) : ⦃fun st => ⌜NN st⌝⦄ getVar e n ⦃Q3 (fun _ => True)⦄ := by
  unfold getVar; nnprim
@[spec] theorem checkDepth_nn (cfg : Cfg) (d : Nat) : ⦃fun st => ⌜NN st⌝⦄ checkDepth cfg d ⦃Q3 (fun _ => True)⦄ := by
  unfold checkDepth; nnprim
@[spec] theorem safeInt_nn (f : Float) : ⦃fun st => ⌜NN st⌝⦄ safeInt f ⦃Q3 (fun _ => True)⦄ := by
  unfold safeInt; nnprim
@[spec] theorem numText_nn (f : Float) : ⦃fun st => ⌜NN st⌝⦄ numText f ⦃Q3 (fun _ => True)⦄ := by
  unfold numText; nnprim
@[spec] theorem sliceNum_nn (v : Value) : ⦃fun st => ⌜NN st⌝⦄ sliceNum v ⦃Q3 (fun _ => True)⦄ := by
  unfold sliceNum; nnprim

@[spec] theorem checkNum_nn (f : Float) :
    ⦃fun st => ⌜NN st⌝⦄ checkNum f ⦃Q3 (fun _ => f.isNaN = false)⦄ := by
  unfold checkNum; mvcgen; all_goals vcp
  all_goals first | nclose | (refine ⟨by assumption, ?_⟩; simp_all)

@[spec] theorem getThunk_nn (t : TId) : ⦃fun st => ⌜NN st⌝⦄ getThunk t ⦃Q3 (fun r => TSNN r)⦄ := by
  unfold getThunk; mvcgen; all_goals vcp
  all_goals first | nclose | exact ⟨by assumption, (by assumption : NN _) _ _ (by assumption)⟩

@[spec] theorem switchState_nn (t : TId) : ⦃fun st => ⌜NN st⌝⦄ switchState t ⦃Q3 (fun r => TSNN r)⦄ := by
  unfold switchState; mvcgen; all_goals vcp
  all_goals first
    | nclose
    | exact ⟨NN.set (x := .inProgress _) (by assumption) _ trivial _, trivial⟩
    | exact ⟨by assumption, (by assumption : NN _) _ _ (by assumption)⟩

@[spec] theorem finishThunk_nn (t : TId) (v : Value) (hv : VNN v) :
    ⦃fun st => ⌜NN st⌝⦄ finishThunk t v ⦃Q3 (fun _ => True)⦄ := by
  unfold finishThunk; mvcgen; all_goals vcp
  all_goals first
    | nclose
    | exact ⟨NN.set (x := .done v) (by assumption) _ hv _, trivial⟩

@[spec] theorem newEnv_nn (p : Option EId) (vars : List (String × TId)) :
    ⦃fun st => ⌜NN st⌝⦄ newEnv p vars ⦃Q3 (fun _ => True)⦄ := by
  unfold newEnv; nnprim
@[spec] theorem getObjRef_nn (e : EId) : ⦃fun st => ⌜NN st⌝⦄ getObjRef e ⦃Q3 (fun _ => True)⦄ := by
  unfold getObjRef; nnprim

end Rsj.Eval.NoNaN
