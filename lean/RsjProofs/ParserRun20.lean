/-
  C15 print/parse, part 20: all machine statements for one node from those of its direct
  subexpressions, for every syntactic form and both printing modes.
-/
import RsjProofs.ParserRun19
namespace Rsj.Parser

section
variable {toks : List Token} (pe : PState toks → Except (Err toks) (Expr × PState toks)) (R : Nat)

/-- a position that is the same head at every level -/
theorem const_allW {W : TokFn} {H : Toks} {te : Expr} (hW : ∀ lvl o el, W lvl o el = H)
    (hd : HDtok pe R H te (fun _ => True)) (hhead : ∃ a l, H = a :: l ∧ NotUnaryTok a) : AllW pe R W te := by
  have hs : ∀ o el, SufForm pe R W te o el := fun o el =>
    SufForm.of_head pe R (C := fun _ => True) (by rw [hW]; exact hd) (fun _ _ => trivial)
  have hc : ∀ o el, L10W pe R W te o el ∧ ∀ p, LQW pe R W te p o el := fun o el =>
    closedW pe R (fun lvl => by rw [hW, hW]) (by rw [hW]; exact hhead) (hs o el)
  exact ⟨hs, fun o el => (hc o el).1, fun p o el => (hc o el).2 p⟩

/-- the postfix form `.f` -/
theorem field_step2 (v : String) (xe : Expr) :
    SLtok pe R [sim .Dot, .ident v] xe (.field xe ⟨v, .zero⟩ .zero) := by
  intro lhs st y Y hl hk _ _
  obtain ⟨sp1, sp2, st2, hk2, hstep⟩ := suffix_field pe lhs (st := st) (v := v) (b := y) (ks := Y) (by rw [hk]; rfl)
  refine ⟨.field lhs ⟨v, sp1⟩ sp2, st2, by simp [Expr.erase, hl, Ident.erase], hk2, fun f hf => ?_⟩
  obtain ⟨f', rfl⟩ : ∃ f', f = f' + 1 := ⟨f - 1, by omega⟩
  refine ⟨f', ?_, hstep f'⟩
  rw [hk2]; rw [hk] at hf; simp at hf ⊢; omega

/-- what is known of the subexpressions parsed in the same loop -/
abbrev SK (full : Bool) (x : Expr) : Prop := ShapeW (sub full x) ∧ AllW pe R (sub full x) x.erase

omit pe R in
theorem notUnary_simple {k : STok} (h3 : k ≠ .Plus) (h4 : k ≠ .Minus) (h5 : k ≠ .Tilde) (h6 : k ≠ .Exclam) :
    NotUnaryTok (sim k) := by simp [NotUnaryTok, sim, h3, h4, h5, h6]

/-! ### atoms, `super`, parentheses -/

theorem node_atom {full : Bool} {t : Expr} {tk : TokKind} (ha : AtomTok t tk) :
    ShapeW (pr full t) ∧ AllW pe R (pr full t) t.erase := by
  have hW : ∀ lvl o el, pr full t lvl o el = [tk] := by
    intro lvl o el; cases ha <;> simp [pr]
  have hnu : NotUnaryTok tk := by cases ha <;> simp [NotUnaryTok, sim]
  refine ⟨?_, const_allW pe R hW (atom_headW pe R ha) ⟨tk, [], rfl, hnu⟩⟩
  cases ha with
  | null sp => exact ShapeW.simple (fun l o e => ⟨.Null, [], hW l o e, by decide, by decide, by decide, by decide, by decide, by decide⟩)
  | false_ sp => exact ShapeW.simple (fun l o e => ⟨.False_, [], hW l o e, by decide, by decide, by decide, by decide, by decide, by decide⟩)
  | true_ sp => exact ShapeW.simple (fun l o e => ⟨.True_, [], hW l o e, by decide, by decide, by decide, by decide, by decide, by decide⟩)
  | selfObj sp => exact ShapeW.simple (fun l o e => ⟨.Self_, [], hW l o e, by decide, by decide, by decide, by decide, by decide, by decide⟩)
  | dollar sp => exact ShapeW.simple (fun l o e => ⟨.Dollar, [], hW l o e, by decide, by decide, by decide, by decide, by decide, by decide⟩)
  | str s sp => exact ShapeW.single hW (Or.inl ⟨_, rfl⟩)
  | textBlock s sp => exact ShapeW.single hW (Or.inr (Or.inl ⟨_, rfl⟩))
  | number n sp => exact ShapeW.single hW (Or.inr (Or.inr (Or.inl ⟨_, rfl⟩)))
  | ident i sp => exact ShapeW.single hW (Or.inr (Or.inr (Or.inr ⟨_, rfl⟩)))

theorem node_superField (full : Bool) (ssp : Span) (name : Ident) (sp : Span) :
    ShapeW (pr full (.superField ssp name sp)) ∧
      AllW pe R (pr full (.superField ssp name sp)) (Expr.superField ssp name sp).erase := by
  have hW : ∀ lvl o el, pr full (.superField ssp name sp) lvl o el = [sim .Super, sim .Dot, .ident name.value] := by
    intro lvl o el; simp [pr]
  refine ⟨ShapeW.super (fun l o e => ⟨[.ident name.value], Or.inl (hW l o e)⟩), ?_⟩
  have : (Expr.superField ssp name sp).erase = .superField .zero ⟨name.value, .zero⟩ .zero := by
    simp [Expr.erase, Ident.erase]
  rw [this]
  exact const_allW pe R hW (superField_head pe R name.value) ⟨_, _, rfl, by simp [NotUnaryTok, sim]⟩

theorem node_superIndex {full : Bool} (ssp : Span) {i : Expr} (sp : Span) (hi : PCh pe R full i) :
    ShapeW (pr full (.superIndex ssp i sp)) ∧
      AllW pe R (pr full (.superIndex ssp i sp)) (Expr.superIndex ssp i sp).erase := by
  have hW : ∀ lvl o el, pr full (.superIndex ssp i sp) lvl o el =
      sim .Super :: sim .LeftBracket :: (sub full i 0 false false ++ [sim .RightBracket]) := by
    intro lvl o el; simp [pr]
  refine ⟨ShapeW.super (fun l o e => ⟨_, Or.inr (hW l o e)⟩), ?_⟩
  exact const_allW pe R hW (superIndex_head pe R hi) ⟨_, _, rfl, by simp [NotUnaryTok, sim]⟩

theorem node_paren {full : Bool} {e : Expr} (sp : Span) (he : SK pe R full e) :
    ShapeW (pr full (.paren e sp)) ∧ AllW pe R (pr full (.paren e sp)) (Expr.paren e sp).erase := by
  have hW : ∀ lvl o el, pr full (.paren e sp) lvl o el = parens (sub full e 0 false false) := by
    intro lvl o el; simp [pr]
  refine ⟨ShapeW.simple (fun l o el => ⟨.LeftParen, sub full e 0 false false ++ [sim .RightParen],
    by rw [hW, parens_eq], by decide, by decide, by decide, by decide, by decide, by decide⟩), ?_⟩
  exact paren_allW pe R (Wi := sub full e) hW (he.2.lq initKind false false)

/-! ### operators -/

theorem node_unary {full : Bool} {e : Expr} (op : UnaryOp) (sp : Span) (he : SK pe R full e) :
    ShapeW (pr full (.unary op e sp)) ∧ AllW pe R (pr full (.unary op e sp)) (Expr.unary op e sp).erase := by
  have hW : ∀ lvl o el, pr full (.unary op e sp) lvl o el =
      if unaryPrec < lvl then parens (sim op.tok :: sub full e unaryPrec false false)
      else sim op.tok :: sub full e unaryPrec o el := by
    intro lvl o el; rw [pr]
  refine ⟨?_, unary_allW pe R op hW he.2.l10⟩
  refine ⟨fun lvl o el => ?_, fun o el => ⟨_, _, by rw [hW, if_pos (by decide), parens_eq], notUnary_lparen⟩⟩
  rw [hW]
  split
  · exact headOK2_parens _
  · rcases unaryTok_mem op with h | h | h | h <;> rw [h] <;> exact headOK2_simple (by decide) (by decide)

omit pe R in
theorem shape_rhs {W : TokFn} (h : ShapeW W) : ∀ lvl o el, ∃ a m, W lvl o el = a :: m ∧
    (a = sim .Super → ∃ r2, m = sim .Dot :: r2 ∨ m = sim .LeftBracket :: r2) := by
  intro lvl o el
  obtain ⟨a, m, h1, _, h3⟩ := (h.head lvl o el).cons
  exact ⟨a, m, h1, h3⟩

theorem node_binary {full : Bool} {l r : Expr} (op : BinaryOp) (sp : Span) (hl : SK pe R full l)
    (hr : SK pe R full r) :
    ShapeW (pr full (.binary l op r sp)) ∧
      AllW pe R (pr full (.binary l op r sp)) (Expr.binary l op r sp).erase := by
  have hW : ∀ lvl o el, pr full (.binary l op r sp) lvl o el =
      if op.prec < lvl then
        parens (sub full l op.prec true false ++ sim op.tok :: sub full r (op.prec + 1) false false)
      else sub full l op.prec true false ++ sim op.tok :: sub full r (op.prec + 1) o el := by
    intro lvl o el; rw [pr]
  refine ⟨?_, binary_allW pe R op hW (fun p => hl.2.lq p true false) hr.2.lq hr.2.l10 (shape_rhs hr.1)⟩
  have hp : op.prec < suffixPrec := by cases op <;> decide
  refine ShapeW.open_ (L := sub full l) op.prec hp (binTok_ne_eq op) (fun lvl o el => ?_) hl.1
  rw [hW]
  split
  · exact Or.inl ⟨_, rfl⟩
  · exact Or.inr ⟨by omega, _, _, _, _, rfl⟩

theorem node_inSuper {full : Bool} {e : Expr} (ssp sp : Span) (he : SK pe R full e) :
    ShapeW (pr full (.inSuper e ssp sp)) ∧
      AllW pe R (pr full (.inSuper e ssp sp)) (Expr.inSuper e ssp sp).erase := by
  have hW : ∀ lvl o el, pr full (.inSuper e ssp sp) lvl o el =
      if inSuperKind.prec < lvl then parens (sub full e inSuperKind.prec true false ++ [sim .In, sim inSuperHead])
      else sub full e inSuperKind.prec true false ++ [sim .In, sim inSuperHead] := by
    intro lvl o el; rw [pr]
  refine ⟨?_, inSuper_allW pe R hW (fun p => he.2.lq p true false)⟩
  refine ShapeW.open_ (L := sub full e) (z := sim .In) inSuperKind.prec (by decide) (by decide) (fun lvl o el => ?_) he.1
  rw [hW]
  split
  · exact Or.inl ⟨_, rfl⟩
  · exact Or.inr ⟨by omega, _, _, _, _, rfl⟩

/-! ### postfix forms -/

theorem node_suffix {full : Bool} {t e : Expr} {te : Expr} {z : TokKind} {Z' : Toks}
    (hW : ∀ lvl o el, pr full t lvl o el = sub full e suffixPrec true false ++ z :: Z')
    (hz0 : z ≠ sim .Eq) (hz1 : z ≠ sim .Tailstrict) (hz2 : z ≠ sim .Else) (he : SK pe R full e)
    (step : SLtok pe R (z :: Z') e.erase te) : ShapeW (pr full t) ∧ AllW pe R (pr full t) te :=
  ⟨ShapeW.suffix hz0 hW he.1,
    suffix_allW pe R hW hz1 hz2 (he.2.suf true false) (he.1.prim true false) step⟩

/-! ### heads that are closed by a bracket -/

theorem node_object {full : Bool} {o : ObjInside} (sp : Span) (ho : ObjOK pe R full o) :
    ShapeW (pr full (.object o sp)) ∧ AllW pe R (pr full (.object o sp)) (Expr.object o sp).erase := by
  have hW : ∀ lvl o' el, pr full (.object o sp) lvl o' el = objToks full o := by
    intro lvl o' el; rw [pr]; rfl
  exact ⟨ShapeW.simple (fun l o' el => ⟨.LeftBrace, _, hW l o' el, by decide, by decide, by decide, by decide,
    by decide, by decide⟩),
    const_allW pe R hW (object_head pe R ho) ⟨_, _, rfl, by simp [NotUnaryTok, sim]⟩⟩

theorem node_array {full : Bool} {items : List Expr} (sp : Span) (hi : ∀ x ∈ items, SK pe R full x) :
    ShapeW (pr full (.array items sp)) ∧ AllW pe R (pr full (.array items sp)) (Expr.array items sp).erase := by
  have hW : ∀ lvl o el, pr full (.array items sp) lvl o el = arrToks full items := by
    intro lvl o el; rw [pr]; rfl
  exact ⟨ShapeW.simple (fun l o el => ⟨.LeftBracket, _, hW l o el, by decide, by decide, by decide, by decide,
    by decide, by decide⟩),
    const_allW pe R hW (array_head pe R items (fun x hx => ⟨(hi x hx).2.lq initKind false false,
      (hi x hx).1.head 0 false false⟩)) ⟨_, _, rfl, by simp [NotUnaryTok, sim]⟩⟩

theorem node_arrayComp {full : Bool} {e : Expr} {spec : List CompSpec} (sp : Span) (he : SK pe R full e)
    (hspec : SpecsOK pe R full spec) :
    ShapeW (pr full (.arrayComp e spec sp)) ∧
      AllW pe R (pr full (.arrayComp e spec sp)) (Expr.arrayComp e spec sp).erase := by
  have hW : ∀ lvl o el, pr full (.arrayComp e spec sp) lvl o el = arrCompToks full e spec := by
    intro lvl o el; rw [pr]; simp [arrCompToks]
  exact ⟨ShapeW.simple (fun l o el => ⟨.LeftBracket, _, hW l o el, by decide, by decide, by decide, by decide,
    by decide, by decide⟩),
    const_allW pe R hW (arrayComp_head pe R ⟨he.2.lq initKind false false, he.1.head 0 false false⟩ hspec)
      ⟨_, _, rfl, by simp [NotUnaryTok, sim]⟩⟩

/-! ### prefix forms -/

theorem node_prefix {full : Bool} {t te : Expr} {k : STok} (par : Bool → Bool → Bool) (B : Bool → Toks)
    (hW : ∀ lvl o el, pr full t lvl o el = if par o el then parens (B false) else B el)
    (hpar0 : par false false = false) (hparo : ∀ o el, par o el = false → o = false)
    (hk : exprStartB (sim k) = true) (h2 : k ≠ .Super) (h3 : k ≠ .Plus) (h4 : k ≠ .Minus) (h5 : k ≠ .Tilde)
    (h6 : k ≠ .Exclam) (hB : ∀ el, ∃ rest, B el = sim k :: rest)
    (hd : ∀ el, par false el = false → HDtok pe R (B el) te (FollowOK false el)) :
    ShapeW (pr full t) ∧ AllW pe R (pr full t) te := by
  refine ⟨ShapeW.prefix_ hk h2 h3 h4 h5 h6 (fun lvl o el => ?_),
    prefixW pe R par B hW hpar0 hparo (fun el => ?_) hd⟩
  · rw [hW]
    split
    · exact Or.inl ⟨_, rfl⟩
    · exact Or.inr (hB el)
  · obtain ⟨rest, h⟩ := hB el
    exact ⟨sim k, rest, h, notUnary_simple h3 h4 h5 h6⟩

end
end Rsj.Parser
