/-
  PROOFS about the specification `RsjProofs/TomlSem.lean` (meaning of a TOML document of
  the writer's sub-language as a fold over its statements):

  * `execAll_append`        executing `a ++ b` is executing `a`, then `b`;
  * `docValue_tableStmts`   the statements the writer emits for a root table with pairwise
                            distinct keys (at every depth) denote that table, fields in the
                            order `normT` (plain fields first, then sub-tables, recursively);
  * `execAll_tableStmts`    the same for a table at any place `p` of the document that is
                            still empty (`Ctx p C`: `C` plugs the fields of the table at `p`
                            into the root table);
  * `normT_equiv`           `normT` only reorders fields (`JEquiv`);
  * `docValue_tableStmts_equiv`  the two together.

  Method: every statement is a functional update at a path.  A context `C` for the path
  `p` (`Ctx`) turns `modAt g p (C acc)` into `(g acc).map C`; a `[p.k]` header or a
  `[[p.k]]` header extends the context (`ctx_tbl`, `ctx_arr`: the new table is the value
  of the LAST field `k`, resp. the LAST item of the array there).  The two loops of a
  table (`plain_exec`, `subs_exec`/`arr_exec`) append `embP fs`, then `embS fs` to the
  fields found, provided the keys still to come are fresh; `toJF (embP fs ++ embS fs)`
  is `normT fs`.
-/
import RsjProofs.TomlSem
namespace Rsj.Toml
open Rsj.Json (Str JVal)

theorem execAll_append (a b : List Stmt) (r : Fields) :
    execAll (a ++ b) r = (execAll a r).bind (execAll b) := by
  induction a generalizing r with
  | nil => simp [execAll]
  | cons s ss ih =>
    simp only [List.cons_append, execAll]
    cases h : exec s r with
    | none => simp
    | some r' => simp [ih]

theorem modAt_snoc (g : Fields → Option Fields) (p : List Str) (k : Str) :
    modAt g (p ++ [k]) = modAt (modField k (into g)) p := by
  induction p with
  | nil => simp [modAt]
  | cons k' p ih => simp only [List.cons_append, modAt, ih]

theorem hasKeyT_append (k : Str) (a b : Fields) : hasKeyT k (a ++ b) = (hasKeyT k a || hasKeyT k b) := by
  induction a with
  | nil => simp [hasKeyT]
  | cons x xs ih => obtain ⟨k', v⟩ := x; simp [hasKeyT, ih, Bool.or_assoc]

theorem modField_snoc (k : Str) (g : TVal → Option TVal) (acc : Fields) (v : TVal)
    (h : hasKeyT k acc = false) : modField k g (acc ++ [(k, v)]) = (g v).map (fun v' => acc ++ [(k, v')]) := by
  induction acc with
  | nil => simp [modField]
  | cons x xs ih =>
    obtain ⟨k', w⟩ := x
    simp only [hasKeyT, Bool.or_eq_false_iff, beq_eq_false_iff_ne] at h
    simp only [List.cons_append, modField, if_neg h.1, ih h.2]
    cases g v <;> simp

theorem modLast_snoc (g : TVal → Option TVal) (items : List TVal) (x : TVal) :
    modLast g (items ++ [x]) = (g x).map (fun x' => items ++ [x']) := by
  induction items with
  | nil => simp [modLast]
  | cons y ys ih =>
    cases ys with
    | nil => simp [modLast]; cases g x <;> simp
    | cons z zs =>
      simp only [List.cons_append, modLast] at ih ⊢
      rw [ih]; cases g x <;> simp

/-- `C` plugs the fields of the table at path `p` into a root table -/
def Ctx (p : List Str) (C : Fields → Fields) : Prop :=
  ∀ (g : Fields → Option Fields) (acc : Fields), modAt g p (C acc) = (g acc).map C

theorem ctx_root : Ctx [] (fun fs => fs) := by
  intro g acc; simp [modAt]

theorem ctx_tbl {p : List Str} {C : Fields → Fields} (hC : Ctx p C) (k : Str) (acc : Fields)
    (hk : hasKeyT k acc = false) : Ctx (p ++ [k]) (fun sub => C (acc ++ [(k, .tbl sub)])) := by
  intro g sub
  rw [modAt_snoc, hC, modField_snoc k _ _ _ hk]
  simp only [into]
  cases g sub <;> simp

theorem ctx_arr {p : List Str} {C : Fields → Fields} (hC : Ctx p C) (k : Str) (acc : Fields) (done : List TVal)
    (hk : hasKeyT k acc = false) :
    Ctx (p ++ [k]) (fun sub => C (acc ++ [(k, .arr (done ++ [.tbl sub]))])) := by
  intro g sub
  rw [modAt_snoc, hC, modField_snoc k _ _ _ hk]
  simp only [into, modLast_snoc, inTbl]
  cases g sub <;> simp

/-! ## keys -/

def plainKeys : List (Str × JVal) → List Str
  | [] => []
  | (k, v) :: rest => if isSubTable v then plainKeys rest else k :: plainKeys rest

def subKeys : List (Str × JVal) → List Str
  | [] => []
  | (k, v) :: rest => if isSubTable v then k :: subKeys rest else subKeys rest

/-- the plain fields as the document builds them -/
def embP : List (Str × JVal) → Fields
  | [] => []
  | (k, v) :: rest => if isSubTable v then embP rest else (k, .leaf v) :: embP rest

mutual
/-- the sub-table fields as the document builds them -/
def embS : List (Str × JVal) → Fields
  | [] => []
  | (k, v) :: rest =>
    if isSubTable v then
      (match v with
        | .obj sub => (k, .tbl (embP sub ++ embS sub))
        | .arr items => (k, .arr (embA items))
        | _ => (k, .leaf v)) :: embS rest
    else embS rest
def embA : List JVal → List TVal
  | [] => []
  | .obj sub :: rest => .tbl (embP sub ++ embS sub) :: embA rest
  | _ :: rest => embA rest
end

theorem mem_plainKeys {k : Str} : ∀ {fs : List (Str × JVal)}, k ∈ plainKeys fs → k ∈ fs.map Prod.fst
  | [], h => by simp [plainKeys] at h
  | (k', v) :: rest, h => by
    simp only [plainKeys] at h
    split at h
    · exact List.mem_cons_of_mem _ (mem_plainKeys h)
    · rcases List.mem_cons.1 h with h | h
      · simp [h]
      · exact List.mem_cons_of_mem _ (mem_plainKeys h)

theorem mem_subKeys {k : Str} : ∀ {fs : List (Str × JVal)}, k ∈ subKeys fs → k ∈ fs.map Prod.fst
  | [], h => by simp [subKeys] at h
  | (k', v) :: rest, h => by
    simp only [subKeys] at h
    split at h
    · rcases List.mem_cons.1 h with h | h
      · simp [h]
      · exact List.mem_cons_of_mem _ (mem_subKeys h)
    · exact List.mem_cons_of_mem _ (mem_subKeys h)

theorem hasKeyT_embP {k : Str} : ∀ {fs : List (Str × JVal)}, hasKeyT k (embP fs) = true → k ∈ plainKeys fs
  | [], h => by simp [embP, hasKeyT] at h
  | (k', v) :: rest, h => by
    simp only [embP, plainKeys] at h ⊢
    split at h
    · rename_i hv; simp only [hv, if_true]; exact hasKeyT_embP h
    · rename_i hv
      simp only [hv]
      simp only [hasKeyT, Bool.or_eq_true, beq_iff_eq] at h
      rcases h with h | h
      · simp [h]
      · exact List.mem_cons_of_mem _ (hasKeyT_embP h)

theorem plainKeys_nodup : ∀ {fs : List (Str × JVal)}, (fs.map Prod.fst).Nodup → (plainKeys fs).Nodup
  | [], _ => by simp [plainKeys]
  | (k', v) :: rest, h => by
    simp only [List.map_cons, List.nodup_cons] at h
    simp only [plainKeys]
    split
    · exact plainKeys_nodup h.2
    · exact List.nodup_cons.2 ⟨fun hm => h.1 (mem_plainKeys hm), plainKeys_nodup h.2⟩

theorem subKeys_nodup : ∀ {fs : List (Str × JVal)}, (fs.map Prod.fst).Nodup → (subKeys fs).Nodup
  | [], _ => by simp [subKeys]
  | (k', v) :: rest, h => by
    simp only [List.map_cons, List.nodup_cons] at h
    simp only [subKeys]
    split
    · exact List.nodup_cons.2 ⟨fun hm => h.1 (mem_subKeys hm), subKeys_nodup h.2⟩
    · exact subKeys_nodup h.2

theorem subKeys_not_plain : ∀ {fs : List (Str × JVal)}, (fs.map Prod.fst).Nodup →
    ∀ k, k ∈ subKeys fs → k ∈ plainKeys fs → False
  | [], _, k, h, _ => by simp [subKeys] at h
  | (k', v) :: rest, h, k, hs, hp => by
    simp only [List.map_cons, List.nodup_cons] at h
    simp only [subKeys, plainKeys] at hs hp
    cases hv : isSubTable v
    · simp only [hv, Bool.false_eq_true, if_false] at hs hp
      rcases List.mem_cons.1 hp with hp | hp
      · exact h.1 (hp ▸ mem_subKeys hs)
      · exact subKeys_not_plain h.2 k hs hp
    · simp only [hv, if_true] at hs hp
      rcases List.mem_cons.1 hs with hs | hs
      · exact h.1 (hs ▸ mem_plainKeys hp)
      · exact subKeys_not_plain h.2 k hs hp

theorem subKeys_fresh_embP {fs : List (Str × JVal)} (h : (fs.map Prod.fst).Nodup) :
    ∀ k, k ∈ subKeys fs → hasKeyT k (embP fs) = false := by
  intro k hk
  cases hh : hasKeyT k (embP fs) with
  | false => rfl
  | true => exact (subKeys_not_plain h k hk (hasKeyT_embP hh)).elim

/-! ## the first loop -/

theorem plain_exec {p : List Str} {C : Fields → Fields} (hC : Ctx p C) :
    ∀ (fs : List (Str × JVal)) (acc : Fields), (plainKeys fs).Nodup →
      (∀ k, k ∈ plainKeys fs → hasKeyT k acc = false) →
      execAll (plainStmts p fs) (C acc) = some (C (acc ++ embP fs))
  | [], acc, _, _ => by simp [plainStmts, embP, execAll]
  | (k, v) :: rest, acc, hn, hf => by
    simp only [plainStmts, embP, plainKeys] at hn hf ⊢
    cases hv : isSubTable v
    case true =>
      simp only [hv, if_true] at hn hf ⊢
      exact plain_exec hC rest acc hn hf
    case false =>
      simp only [hv, Bool.false_eq_true, if_false] at hn hf ⊢
      have hk : hasKeyT k acc = false := hf k (List.mem_cons_self ..)
      have hn' := List.nodup_cons.1 hn
      simp only [execAll, exec, hC (addKv k v) acc, addKv, hk, Bool.false_eq_true, if_false,
        Option.map_some, Option.bind_some]
      rw [plain_exec hC rest (acc ++ [(k, TVal.leaf v)]) hn'.2]
      · simp
      · intro k' hk'
        have h1 := hf k' (List.mem_cons_of_mem _ hk')
        have h2 : k ≠ k' := fun e => hn'.1 (e ▸ hk')
        simp [hasKeyT_append, hasKeyT, h1, h2]

/-- the two loops of a table that starts empty -/
theorem table_fill {q : List Str} {C : Fields → Fields} (hC : Ctx q C) (sub : List (Str × JVal))
    (hn : (sub.map Prod.fst).Nodup)
    (hsub : ∀ acc, (∀ k, k ∈ subKeys sub → hasKeyT k acc = false) →
      execAll (subStmts q sub) (C acc) = some (C (acc ++ embS sub))) :
    execAll (plainStmts q sub ++ subStmts q sub) (C []) = some (C (embP sub ++ embS sub)) := by
  rw [execAll_append, plain_exec hC sub [] (plainKeys_nodup hn) (fun _ _ => rfl)]
  simp only [List.nil_append, Option.bind_some]
  exact hsub _ (subKeys_fresh_embP hn)

/-- the fields while the items of the array of tables `k` are added -/
def arrSt (acc : Fields) (k : Str) : List TVal → Fields
  | [] => acc
  | x :: xs => acc ++ [(k, .arr (x :: xs))]

theorem arrSt_snoc (acc : Fields) (k : Str) (done : List TVal) (x : TVal) :
    arrSt acc k (done ++ [x]) = acc ++ [(k, .arr (done ++ [x]))] := by
  cases done <;> simp [arrSt]

theorem addArrItem_arrSt (acc : Fields) (k : Str) (done : List TVal) (hk : hasKeyT k acc = false) :
    addArrItem k (arrSt acc k done) = some (acc ++ [(k, .arr (done ++ [.tbl []]))]) := by
  cases done with
  | nil => simp [arrSt, addArrItem, hk]
  | cons x xs =>
    have : hasKeyT k (acc ++ [(k, TVal.arr (x :: xs))]) = true := by simp [hasKeyT_append, hasKeyT]
    simp only [arrSt, addArrItem, this, if_true, modField_snoc k _ _ _ hk, appendItem]
    simp


theorem embA_ne_nil {items : List JVal} (h : isSubTable (.arr items) = true) : embA items ≠ [] := by
  cases items with
  | nil => simp [isSubTable] at h
  | cons x xs =>
    cases x <;> simp [isSubTable, isObj] at h
    simp [embA]

theorem arrSt_of_ne_nil (acc : Fields) (k : Str) {l : List TVal} (h : l ≠ []) :
    arrSt acc k l = acc ++ [(k, .arr l)] := by
  cases l with
  | nil => exact absurd rfl h
  | cons x xs => rfl

/-! ## the second loop -/

mutual
theorem subs_exec : (fs : List (Str × JVal)) → (p : List Str) → (C : Fields → Fields) → (acc : Fields) →
    Ctx p C → DistinctF fs → (subKeys fs).Nodup → (∀ k, k ∈ subKeys fs → hasKeyT k acc = false) →
    execAll (subStmts p fs) (C acc) = some (C (acc ++ embS fs))
  | [], p, C, acc, _, _, _, _ => by simp [subStmts, embS, execAll]
  | (k, .obj sub) :: rest, p, C, acc, hC, hD, hn, hf => by
    simp only [subStmts, embS, subKeys, isSubTable, if_true, DistinctF, Distinct] at hD hn hf ⊢
    have hk : hasKeyT k acc = false := hf k (List.mem_cons_self ..)
    have hn' := List.nodup_cons.1 hn
    have hC' := ctx_tbl hC k acc hk
    have hfill := table_fill hC' sub hD.1.2
      (fun acc' hf' => subs_exec sub (p ++ [k]) _ acc' hC' hD.1.1 (subKeys_nodup hD.1.2) hf')
    simp only [List.cons_append, execAll, exec, hC (addTable k) acc, addTable, hk, Bool.false_eq_true,
      if_false, Option.map_some, Option.bind_some]
    rw [execAll_append, hfill, Option.bind_some,
      subs_exec rest p C (acc ++ [(k, TVal.tbl (embP sub ++ embS sub))]) hC hD.2 hn'.2]
    · simp
    · intro k' hk'
      have h1 := hf k' (List.mem_cons_of_mem _ hk')
      have h2 : k ≠ k' := fun e => hn'.1 (e ▸ hk')
      simp [hasKeyT_append, hasKeyT, h1, h2]
  | (k, .arr items) :: rest, p, C, acc, hC, hD, hn, hf => by
    simp only [subStmts, embS, subKeys, DistinctF, Distinct] at hD hn hf ⊢
    cases hs : isSubTable (.arr items)
    case false =>
      simp only [hs, Bool.false_eq_true, if_false] at hn hf ⊢
      exact subs_exec rest p C acc hC hD.2 hn hf
    case true =>
      simp only [hs, if_true] at hn hf ⊢
      have hk : hasKeyT k acc = false := hf k (List.mem_cons_self ..)
      have hn' := List.nodup_cons.1 hn
      have ha : execAll (arrStmts p k items) (C acc) = some (C (acc ++ [(k, TVal.arr (embA items))])) := by
        have h0 := arr_exec items p C acc k [] hC hD.1 hk
        rw [List.nil_append, arrSt_of_ne_nil acc k (embA_ne_nil hs)] at h0
        exact h0
      rw [execAll_append, ha, Option.bind_some,
        subs_exec rest p C (acc ++ [(k, TVal.arr (embA items))]) hC hD.2 hn'.2]
      · simp
      · intro k' hk'
        have h1 := hf k' (List.mem_cons_of_mem _ hk')
        have h2 : k ≠ k' := fun e => hn'.1 (e ▸ hk')
        simp [hasKeyT_append, hasKeyT, h1, h2]
  | (k, .null) :: rest, p, C, acc, hC, hD, hn, hf => by
    simp only [subStmts, embS, subKeys, isSubTable, Bool.false_eq_true, if_false, DistinctF] at hD hn hf ⊢
    exact subs_exec rest p C acc hC hD.2 hn hf
  | (k, .bool _) :: rest, p, C, acc, hC, hD, hn, hf => by
    simp only [subStmts, embS, subKeys, isSubTable, Bool.false_eq_true, if_false, DistinctF] at hD hn hf ⊢
    exact subs_exec rest p C acc hC hD.2 hn hf
  | (k, .num _) :: rest, p, C, acc, hC, hD, hn, hf => by
    simp only [subStmts, embS, subKeys, isSubTable, Bool.false_eq_true, if_false, DistinctF] at hD hn hf ⊢
    exact subs_exec rest p C acc hC hD.2 hn hf
  | (k, .str _) :: rest, p, C, acc, hC, hD, hn, hf => by
    simp only [subStmts, embS, subKeys, isSubTable, Bool.false_eq_true, if_false, DistinctF] at hD hn hf ⊢
    exact subs_exec rest p C acc hC hD.2 hn hf
theorem arr_exec : (items : List JVal) → (p : List Str) → (C : Fields → Fields) → (acc : Fields) →
    (k : Str) → (done : List TVal) → Ctx p C → DistinctL items → hasKeyT k acc = false →
    execAll (arrStmts p k items) (C (arrSt acc k done)) = some (C (arrSt acc k (done ++ embA items)))
  | [], p, C, acc, k, done, _, _, _ => by simp [arrStmts, embA, execAll]
  | .obj sub :: rest, p, C, acc, k, done, hC, hD, hk => by
    simp only [arrStmts, embA, DistinctL, Distinct] at hD ⊢
    have hC' := ctx_arr hC k acc done hk
    have hfill := table_fill hC' sub hD.1.2
      (fun acc' hf' => subs_exec sub (p ++ [k]) _ acc' hC' hD.1.1 (subKeys_nodup hD.1.2) hf')
    simp only [List.cons_append, execAll, exec, hC (addArrItem k) (arrSt acc k done),
      addArrItem_arrSt acc k done hk, Option.map_some, Option.bind_some]
    rw [execAll_append, hfill, Option.bind_some, ← arrSt_snoc,
      arr_exec rest p C acc k (done ++ [TVal.tbl (embP sub ++ embS sub)]) hC hD.2 hk]
    simp
  | .null :: rest, p, C, acc, k, done, hC, hD, hk => by
    simp only [arrStmts, embA, DistinctL] at hD ⊢; exact arr_exec rest p C acc k done hC hD.2 hk
  | .bool _ :: rest, p, C, acc, k, done, hC, hD, hk => by
    simp only [arrStmts, embA, DistinctL] at hD ⊢; exact arr_exec rest p C acc k done hC hD.2 hk
  | .num _ :: rest, p, C, acc, k, done, hC, hD, hk => by
    simp only [arrStmts, embA, DistinctL] at hD ⊢; exact arr_exec rest p C acc k done hC hD.2 hk
  | .str _ :: rest, p, C, acc, k, done, hC, hD, hk => by
    simp only [arrStmts, embA, DistinctL] at hD ⊢; exact arr_exec rest p C acc k done hC hD.2 hk
  | .arr _ :: rest, p, C, acc, k, done, hC, hD, hk => by
    simp only [arrStmts, embA, DistinctL] at hD ⊢; exact arr_exec rest p C acc k done hC hD.2 hk
end


/-! ## the value built -/

theorem toJF_append : ∀ (a b : Fields), toJF (a ++ b) = toJF a ++ toJF b
  | [], b => by simp [toJF]
  | (k, v) :: rest, b => by simp only [List.cons_append, toJF, toJF_append rest b]

theorem toJF_embP : ∀ (fs : List (Str × JVal)), toJF (embP fs) = plainN fs
  | [] => by simp [embP, toJF, plainN]
  | (k, v) :: rest => by
    simp only [embP, plainN]
    split
    · exact toJF_embP rest
    · simp only [toJF, toJ, toJF_embP rest]

theorem all_isObj_of_sub {items : List JVal} (h : isSubTable (.arr items) = true) : items.all isObj = true := by
  simp only [isSubTable, Bool.and_eq_true] at h; exact h.2

mutual
theorem toJF_embS : (fs : List (Str × JVal)) → toJF (embS fs) = subsN fs
  | [] => by simp [embS, toJF, subsN]
  | (k, .obj sub) :: rest => by
    simp only [embS, subsN, isSubTable, if_true, toJF, toJ, toJF_append, toJF_embP, toJF_embS sub,
      toJF_embS rest]
  | (k, .arr items) :: rest => by
    simp only [embS, subsN]
    cases hs : isSubTable (.arr items)
    case false =>
      simp only [Bool.false_eq_true, if_false]; exact toJF_embS rest
    case true =>
      simp only [if_true, toJF, toJ, toJL_embA items (all_isObj_of_sub hs), toJF_embS rest]
  | (k, .null) :: rest => by
    simp only [embS, subsN, isSubTable, Bool.false_eq_true, if_false]; exact toJF_embS rest
  | (k, .bool _) :: rest => by
    simp only [embS, subsN, isSubTable, Bool.false_eq_true, if_false]; exact toJF_embS rest
  | (k, .num _) :: rest => by
    simp only [embS, subsN, isSubTable, Bool.false_eq_true, if_false]; exact toJF_embS rest
  | (k, .str _) :: rest => by
    simp only [embS, subsN, isSubTable, Bool.false_eq_true, if_false]; exact toJF_embS rest
theorem toJL_embA : (items : List JVal) → items.all isObj = true → toJL (embA items) = arrN items
  | [], _ => by simp [embA, toJL, arrN]
  | .obj sub :: rest, h => by
    have hr : rest.all isObj = true := by
      simp only [List.all_cons, Bool.and_eq_true] at h; exact h.2
    simp only [embA, arrN, toJL, toJ, toJF_append, toJF_embP, toJF_embS sub, toJL_embA rest hr]
  | .null :: _, h => by simp [isObj] at h
  | .bool _ :: _, h => by simp [isObj] at h
  | .num _ :: _, h => by simp [isObj] at h
  | .str _ :: _, h => by simp [isObj] at h
  | .arr _ :: _, h => by simp [isObj] at h
end

/-- the statements of a table that starts empty, at any place of the document -/
theorem execAll_tableStmts {p : List Str} {C : Fields → Fields} (hC : Ctx p C) (fs : List (Str × JVal))
    (h : Distinct (.obj fs)) :
    execAll (tableStmts p fs) (C []) = some (C (embP fs ++ embS fs)) := by
  simp only [Distinct] at h
  exact table_fill hC fs h.2
    (fun acc hf => subs_exec fs p C acc hC h.1 (subKeys_nodup h.2) hf)

theorem toJF_emb (fs : List (Str × JVal)) : toJF (embP fs ++ embS fs) = normT fs := by
  rw [toJF_append, toJF_embP, toJF_embS, normT]

/-- executing the statements the writer emits for the root table rebuilds the table -/
theorem docValue_tableStmts (fs : List (Str × JVal)) (h : Distinct (.obj fs)) :
    docValue (tableStmts [] fs) = some (.obj (normT fs)) := by
  have := execAll_tableStmts ctx_root fs h
  simp only [docValue, this, Option.map_some, toJF_emb]

/-! ## `normT` only reorders fields -/

/-- the sub-table fields, in order, as they are -/
def subF : List (Str × JVal) → List (Str × JVal)
  | [] => []
  | (k, v) :: rest => if isSubTable v then (k, v) :: subF rest else subF rest

theorem perm_plain_sub : ∀ (fs : List (Str × JVal)), fs.Perm (plainN fs ++ subF fs)
  | [] => by simp [plainN, subF]
  | (k, v) :: rest => by
    simp only [plainN, subF]
    split
    · exact ((perm_plain_sub rest).cons (k, v)).trans List.perm_middle.symm
    · exact (perm_plain_sub rest).cons (k, v)

theorem JEquivF_refl : ∀ (fs : List (Str × JVal)), JEquivF fs fs
  | [] => .nil
  | (_, v) :: rest => .cons (.refl v) (JEquivF_refl rest)

theorem JEquivF_append {a b c : List (Str × JVal)} (h : JEquivF b c) : JEquivF (a ++ b) (a ++ c) := by
  induction a with
  | nil => exact h
  | cons x xs ih => obtain ⟨k, v⟩ := x; exact .cons (.refl v) ih

mutual
theorem subF_equiv : (fs : List (Str × JVal)) → JEquivF (subF fs) (subsN fs)
  | [] => by simp only [subF, subsN]; exact .nil
  | (k, .obj sub) :: rest => by
    simp only [subF, subsN, isSubTable, if_true]
    exact .cons (.obj (perm_plain_sub sub) (JEquivF_append (subF_equiv sub))) (subF_equiv rest)
  | (k, .arr items) :: rest => by
    simp only [subF, subsN]
    cases hs : isSubTable (.arr items)
    case false =>
      simp only [Bool.false_eq_true, if_false]; exact subF_equiv rest
    case true =>
      simp only [if_true]
      exact .cons (.arr (arrN_equiv items)) (subF_equiv rest)
  | (k, .null) :: rest => by
    simp only [subF, subsN, isSubTable, Bool.false_eq_true, if_false]; exact subF_equiv rest
  | (k, .bool _) :: rest => by
    simp only [subF, subsN, isSubTable, Bool.false_eq_true, if_false]; exact subF_equiv rest
  | (k, .num _) :: rest => by
    simp only [subF, subsN, isSubTable, Bool.false_eq_true, if_false]; exact subF_equiv rest
  | (k, .str _) :: rest => by
    simp only [subF, subsN, isSubTable, Bool.false_eq_true, if_false]; exact subF_equiv rest
theorem arrN_equiv : (items : List JVal) → JEquivL items (arrN items)
  | [] => by simp only [arrN]; exact .nil
  | .obj sub :: rest => by
    simp only [arrN]
    exact .cons (.obj (perm_plain_sub sub) (JEquivF_append (subF_equiv sub))) (arrN_equiv rest)
  | .null :: rest => by simp only [arrN]; exact .cons (.refl _) (arrN_equiv rest)
  | .bool _ :: rest => by simp only [arrN]; exact .cons (.refl _) (arrN_equiv rest)
  | .num _ :: rest => by simp only [arrN]; exact .cons (.refl _) (arrN_equiv rest)
  | .str _ :: rest => by simp only [arrN]; exact .cons (.refl _) (arrN_equiv rest)
  | .arr _ :: rest => by simp only [arrN]; exact .cons (.refl _) (arrN_equiv rest)
end

/-- `normT` only changes the order of fields (at every depth) -/
theorem normT_equiv (fs : List (Str × JVal)) : JEquiv (.obj fs) (.obj (normT fs)) :=
  .obj (perm_plain_sub fs) (JEquivF_append (subF_equiv fs))

/-- the document the writer emits for a table with distinct keys denotes that table,
    up to the order of fields -/
theorem docValue_tableStmts_equiv (fs : List (Str × JVal)) (h : Distinct (.obj fs)) :
    ∃ v, docValue (tableStmts [] fs) = some v ∧ JEquiv (.obj fs) v :=
  ⟨_, docValue_tableStmts fs h, normT_equiv fs⟩

end Rsj.Toml

#print axioms Rsj.Toml.docValue_tableStmts
#print axioms Rsj.Toml.normT_equiv
#print axioms Rsj.Toml.execAll_append
#print axioms Rsj.Toml.docValue_tableStmts_equiv
