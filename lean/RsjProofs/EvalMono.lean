import RsjModel.Eval
/-!
  Monotonicity of one evaluator level in the recursive-call function, for the
  flat order on `Option` (`none` = out of fuel).  Everything is discharged by
  the compositional `monotonicity` tactic of `Lean.Order`.
-/
namespace Rsj.Eval
open Rsj.Core Lean.Order

variable {γ : Type} [PartialOrder γ]

/-- close goals `monotone fun x => f x task` -/
macro "mono_rec" h:ident : tactic =>
  `(tactic| first
    | exact monotone_apply _ _ $h
    | apply monotone_const)

macro "mono_all" h:ident : tactic =>
  `(tactic| (repeat' (first | monotonicity | (apply monotone_apply; exact $h) | apply monotone_const)))

@[partial_fixpoint_monotone]
theorem monotone_recStr (f : γ → Task → M Value) (t : Task) (hmono : monotone f) :
    monotone (fun x => recStr (f x) t) := by
  unfold recStr
  mono_all hmono

@[partial_fixpoint_monotone]
theorem monotone_wantThunk (cfg : Cfg) (f : γ → Task → M Value) (t : TId) (d : Nat) (hmono : monotone f) :
    monotone (fun x => wantThunk cfg (f x) t d) := by
  unfold wantThunk
  mono_all hmono

@[partial_fixpoint_monotone]
theorem monotone_wantField (cfg : Cfg) (f : γ → Task → M Value) (o : OId) (n : String) (d : Nat)
    (hmono : monotone f) : monotone (fun x => wantField cfg (f x) o n d) := by
  unfold wantField
  mono_all hmono

@[partial_fixpoint_monotone]
theorem monotone_wantSuperField (cfg : Cfg) (f : γ → Task → M Value) (e : EId) (n : String) (d : Nat)
    (hmono : monotone f) : monotone (fun x => wantSuperField cfg (f x) e n d) := by
  unfold wantSuperField
  mono_all hmono

@[partial_fixpoint_monotone]
theorem monotone_coerceToString (f : γ → Task → M Value) (v : Value) (d : Nat)
    (hmono : monotone f) : monotone (fun x => coerceToString (f x) v d) := by
  unfold coerceToString
  mono_all hmono

@[partial_fixpoint_monotone]
theorem monotone_evalSpecs (f : γ → Task → M Value) (specs : List (Option String × Expr)) (env : EId) (d : Nat)
    (hmono : monotone f) : monotone (fun x => evalSpecs (f x) specs env d) := by
  unfold evalSpecs
  mono_all hmono

@[partial_fixpoint_monotone]
theorem monotone_binaryOp (cfg : Cfg) (f : γ → Task → M Value) (op : BinOp) (l r : Value) (d : Nat) (hs : Bool)
    (hmono : monotone f) : monotone (fun x => binaryOp cfg (f x) op l r d hs) := by
  unfold binaryOp
  mono_all hmono

@[partial_fixpoint_monotone]
theorem monotone_compareLists (cfg : Cfg) (f : γ → Task → M Value) (d : Nat) (xs ys : List TId)
    (hmono : monotone f) : monotone (fun x => compareLists cfg (f x) d xs ys) := by
  induction xs generalizing ys with
  | nil => cases ys <;> (unfold compareLists; apply monotone_const)
  | cons x xs ih =>
    cases ys with
    | nil => unfold compareLists; apply monotone_const
    | cons y ys =>
      unfold compareLists
      mono_all hmono
      all_goals exact ih ys

@[partial_fixpoint_monotone]
theorem monotone_objectMember (f : γ → Task → M Value) (env : EId) (d : Nat) (layer : Layer) (m : Members)
    (hmono : monotone f) : monotone (fun x => objectMember (f x) env d layer m) := by
  unfold objectMember
  mono_all hmono

@[partial_fixpoint_monotone]
theorem monotone_sliceArg (f : γ → Task → M Value) (env : EId) (d : Nat) (x : OptExpr)
    (hmono : monotone f) : monotone (fun y => sliceArg (f y) env d x) := by
  unfold sliceArg
  mono_all hmono

@[partial_fixpoint_monotone]
theorem monotone_std_length (f : γ → Task → M Value) (t : TId) (d1 : Nat)
    (hmono : monotone f) : monotone (fun x => std_length (f x) t d1) := by
  unfold std_length
  mono_all hmono

@[partial_fixpoint_monotone]
theorem monotone_std_type (f : γ → Task → M Value) (t : TId) (d1 : Nat)
    (hmono : monotone f) : monotone (fun x => std_type (f x) t d1) := by
  unfold std_type
  mono_all hmono

@[partial_fixpoint_monotone]
theorem monotone_std_trace (f : γ → Task → M Value) (t0 t1 : TId) (d1 : Nat)
    (hmono : monotone f) : monotone (fun x => std_trace (f x) t0 t1 d1) := by
  unfold std_trace
  mono_all hmono

@[partial_fixpoint_monotone]
theorem monotone_std_objectHasEx (f : γ → Task → M Value) (t0 t1 t2 : TId) (d1 : Nat)
    (hmono : monotone f) : monotone (fun x => std_objectHasEx (f x) t0 t1 t2 d1) := by
  unfold std_objectHasEx
  mono_all hmono

@[partial_fixpoint_monotone]
theorem monotone_std_objectFieldsEx (f : γ → Task → M Value) (t0 t1 : TId) (d1 : Nat)
    (hmono : monotone f) : monotone (fun x => std_objectFieldsEx (f x) t0 t1 d1) := by
  unfold std_objectFieldsEx
  mono_all hmono

@[partial_fixpoint_monotone]
theorem monotone_std_map (f : γ → Task → M Value) (t0 t1 : TId) (d1 : Nat)
    (hmono : monotone f) : monotone (fun x => std_map (f x) t0 t1 d1) := by
  unfold std_map
  mono_all hmono

@[partial_fixpoint_monotone]
theorem monotone_std_makeArray (f : γ → Task → M Value) (t0 t1 : TId) (d1 : Nat)
    (hmono : monotone f) : monotone (fun x => std_makeArray (f x) t0 t1 d1) := by
  unfold std_makeArray
  mono_all hmono

@[partial_fixpoint_monotone]
theorem monotone_builtinCall (f : γ → Task → M Value) (b : Builtin) (ts : List TId) (d1 : Nat)
    (hmono : monotone f) : monotone (fun x => builtinCall (f x) b ts d1) := by
  unfold builtinCall
  mono_all hmono

@[partial_fixpoint_monotone]
theorem monotone_std_filter (cfg : Cfg) (f : γ → Task → M Value) (t0 t1 : TId) (d1 : Nat)
    (hmono : monotone f) : monotone (fun x => std_filter cfg (f x) t0 t1 d1) := by
  unfold std_filter
  mono_all hmono

@[partial_fixpoint_monotone]
theorem monotone_std_foldl (cfg : Cfg) (f : γ → Task → M Value) (t0 t1 t2 : TId) (d1 : Nat)
    (hmono : monotone f) : monotone (fun x => std_foldl cfg (f x) t0 t1 t2 d1) := by
  unfold std_foldl
  mono_all hmono

@[partial_fixpoint_monotone]
theorem monotone_std_foldr (cfg : Cfg) (f : γ → Task → M Value) (t0 t1 t2 : TId) (d1 : Nat)
    (hmono : monotone f) : monotone (fun x => std_foldr cfg (f x) t0 t1 t2 d1) := by
  unfold std_foldr
  mono_all hmono

@[partial_fixpoint_monotone]
theorem monotone_std_flatMap (cfg : Cfg) (f : γ → Task → M Value) (t0 t1 : TId) (d1 : Nat)
    (hmono : monotone f) : monotone (fun x => std_flatMap cfg (f x) t0 t1 d1) := by
  unfold std_flatMap
  mono_all hmono

@[partial_fixpoint_monotone]
theorem monotone_std_mapWithIndex (f : γ → Task → M Value) (t0 t1 : TId) (d1 : Nat)
    (hmono : monotone f) : monotone (fun x => std_mapWithIndex (f x) t0 t1 d1) := by
  unfold std_mapWithIndex
  mono_all hmono

@[partial_fixpoint_monotone]
theorem monotone_std_mapWithKey (f : γ → Task → M Value) (t0 t1 : TId) (d1 : Nat)
    (hmono : monotone f) : monotone (fun x => std_mapWithKey (f x) t0 t1 d1) := by
  unfold std_mapWithKey
  mono_all hmono

@[partial_fixpoint_monotone]
theorem monotone_std_filterMap (cfg : Cfg) (f : γ → Task → M Value) (t0 t1 t2 : TId) (d1 : Nat)
    (hmono : monotone f) : monotone (fun x => std_filterMap cfg (f x) t0 t1 t2 d1) := by
  unfold std_filterMap
  mono_all hmono

@[partial_fixpoint_monotone]
theorem monotone_std_join (f : γ → Task → M Value) (t0 t1 : TId) (d1 : Nat)
    (hmono : monotone f) : monotone (fun x => std_join (f x) t0 t1 d1) := by
  unfold std_join
  mono_all hmono

@[partial_fixpoint_monotone]
theorem monotone_std_range (f : γ → Task → M Value) (t0 t1 : TId) (d1 : Nat)
    (hmono : monotone f) : monotone (fun x => std_range (f x) t0 t1 d1) := by
  unfold std_range
  mono_all hmono

@[partial_fixpoint_monotone]
theorem monotone_std_member (f : γ → Task → M Value) (t0 t1 : TId) (d1 : Nat)
    (hmono : monotone f) : monotone (fun x => std_member (f x) t0 t1 d1) := by
  unfold std_member
  mono_all hmono

@[partial_fixpoint_monotone]
theorem monotone_std_count (f : γ → Task → M Value) (t0 t1 : TId) (d1 : Nat)
    (hmono : monotone f) : monotone (fun x => std_count (f x) t0 t1 d1) := by
  unfold std_count
  mono_all hmono

@[partial_fixpoint_monotone]
theorem monotone_std_all (f : γ → Task → M Value) (t : TId) (d1 : Nat)
    (hmono : monotone f) : monotone (fun x => std_all (f x) t d1) := by
  unfold std_all
  mono_all hmono

@[partial_fixpoint_monotone]
theorem monotone_std_any (f : γ → Task → M Value) (t : TId) (d1 : Nat)
    (hmono : monotone f) : monotone (fun x => std_any (f x) t d1) := by
  unfold std_any
  mono_all hmono

@[partial_fixpoint_monotone]
theorem monotone_std_equals (f : γ → Task → M Value) (t0 t1 : TId) (d1 : Nat)
    (hmono : monotone f) : monotone (fun x => std_equals (f x) t0 t1 d1) := by
  unfold std_equals
  mono_all hmono

@[partial_fixpoint_monotone]
theorem monotone_std_compare (f : γ → Task → M Value) (t0 t1 : TId) (d1 : Nat)
    (hmono : monotone f) : monotone (fun x => std_compare (f x) t0 t1 d1) := by
  unfold std_compare
  mono_all hmono

@[partial_fixpoint_monotone]
theorem monotone_std_primitiveEquals (f : γ → Task → M Value) (t0 t1 : TId) (d1 : Nat)
    (hmono : monotone f) : monotone (fun x => std_primitiveEquals (f x) t0 t1 d1) := by
  unfold std_primitiveEquals
  mono_all hmono

@[partial_fixpoint_monotone]
theorem monotone_std_assertEqual (f : γ → Task → M Value) (t0 t1 : TId) (d1 : Nat)
    (hmono : monotone f) : monotone (fun x => std_assertEqual (f x) t0 t1 d1) := by
  unfold std_assertEqual
  mono_all hmono

@[partial_fixpoint_monotone]
theorem monotone_std_toString (f : γ → Task → M Value) (t : TId) (d1 : Nat)
    (hmono : monotone f) : monotone (fun x => std_toString (f x) t d1) := by
  unfold std_toString
  mono_all hmono

@[partial_fixpoint_monotone]
theorem monotone_std_sortKeys (cfg : Cfg) (f : γ → Task → M Value) (kf : Option FId) (items : List TId) (d1 : Nat)
    (hmono : monotone f) : monotone (fun x => std_sortKeys cfg (f x) kf items d1) := by
  unfold std_sortKeys
  mono_all hmono

@[partial_fixpoint_monotone]
theorem monotone_std_qsort (f : γ → Task → M Value) (keys : List Value) (d1 : Nat) (fuel : Nat) (xs : List Nat)
    (hmono : monotone f) : monotone (fun x => std_qsort (f x) keys d1 fuel xs) := by
  induction fuel generalizing xs with
  | zero => unfold std_qsort; apply monotone_const
  | succ k ih =>
    cases xs with
    | nil => unfold std_qsort; apply monotone_const
    | cons p rest =>
      cases rest with
      | nil => unfold std_qsort; apply monotone_const
      | cons q rest =>
        unfold std_qsort
        mono_all hmono
        all_goals exact ih _

@[partial_fixpoint_monotone]
theorem monotone_std_sortSet (cfg : Cfg) (f : γ → Task → M Value) (u : Bool) (t0 : TId) (t1 : Option TId) (d1 : Nat)
    (hmono : monotone f) : monotone (fun x => std_sortSet cfg (f x) u t0 t1 d1) := by
  unfold std_sortSet
  mono_all hmono

@[partial_fixpoint_monotone]
theorem monotone_builtinCall2 (cfg : Cfg) (f : γ → Task → M Value) (b : Builtin) (ts : List TId) (d1 : Nat)
    (hmono : monotone f) : monotone (fun x => builtinCall2 cfg (f x) b ts d1) := by
  unfold builtinCall2
  mono_all hmono

@[partial_fixpoint_monotone]
theorem monotone_forceAll (f : γ → Task → M Value) (ts : List TId) (d1 : Nat)
    (hmono : monotone f) : monotone (fun x => forceAll (f x) ts d1) := by
  unfold forceAll
  mono_all hmono

@[partial_fixpoint_monotone]
theorem monotone_coerceAll (f : γ → Task → M Value) (vals : List Value) (d1 : Nat)
    (hmono : monotone f) : monotone (fun x => coerceAll (f x) vals d1) := by
  unfold coerceAll
  mono_all hmono

@[partial_fixpoint_monotone]
theorem monotone_forceBytes (f : γ → Task → M Value) (items : List TId) (item : PArg → Except PErr Nat) (d1 : Nat)
    (hmono : monotone f) : monotone (fun x => forceBytes (f x) items item d1) := by
  unfold forceBytes
  mono_all hmono

@[partial_fixpoint_monotone]
theorem monotone_fmtForceOpt (f : γ → Task → M Value) (t : Option TId) (d : Nat)
    (hmono : monotone f) : monotone (fun x => fmtForceOpt (f x) t d) := by
  unfold fmtForceOpt
  mono_all hmono

@[partial_fixpoint_monotone]
theorem monotone_fmtItem (f : γ → Task → M Value) (c : Format.Code) (v : Value) (d : Nat)
    (hmono : monotone f) : monotone (fun x => fmtItem (f x) c v d) := by
  unfold fmtItem
  mono_all hmono

@[partial_fixpoint_monotone]
theorem monotone_fmtArrayCode (f : γ → Task → M Value) (c : Format.Code) (items : List TId) (i d : Nat)
    (hmono : monotone f) : monotone (fun x => fmtArrayCode (f x) c items i d) := by
  unfold fmtArrayCode
  mono_all hmono

@[partial_fixpoint_monotone]
theorem monotone_fmtArrayPart (f : γ → Task → M Value) (p : Format.Part) (items : List TId) (i : Nat) (out : List Char) (d : Nat)
    (hmono : monotone f) : monotone (fun x => fmtArrayPart (f x) p items i out d) := by
  unfold fmtArrayPart
  mono_all hmono

@[partial_fixpoint_monotone]
theorem monotone_fmtArray (f : γ → Task → M Value) (parts : List Format.Part) (items : List TId) (d : Nat)
    (hmono : monotone f) : monotone (fun x => fmtArray (f x) parts items d) := by
  unfold fmtArray
  mono_all hmono

@[partial_fixpoint_monotone]
theorem monotone_fmtObjectCode (f : γ → Task → M Value) (c : Format.Code) (o : OId) (d : Nat)
    (hmono : monotone f) : monotone (fun x => fmtObjectCode (f x) c o d) := by
  unfold fmtObjectCode
  mono_all hmono

@[partial_fixpoint_monotone]
theorem monotone_fmtObjectPart (f : γ → Task → M Value) (p : Format.Part) (o : OId) (out : List Char) (d : Nat)
    (hmono : monotone f) : monotone (fun x => fmtObjectPart (f x) p o out d) := by
  unfold fmtObjectPart
  mono_all hmono

@[partial_fixpoint_monotone]
theorem monotone_fmtObject (f : γ → Task → M Value) (parts : List Format.Part) (o : OId) (d : Nat)
    (hmono : monotone f) : monotone (fun x => fmtObject (f x) parts o d) := by
  unfold fmtObject
  mono_all hmono

@[partial_fixpoint_monotone]
theorem monotone_pureFinish (f : γ → Task → M Value) (spec : PureSpec) (vals : List Value) (d1 : Nat)
    (hmono : monotone f) : monotone (fun x => pureFinish (f x) spec vals d1) := by
  unfold pureFinish
  mono_all hmono

/-- the generic pure builtin: the recursive-call function is used to force thunks only -/
@[partial_fixpoint_monotone]
theorem monotone_std_pure (f : γ → Task → M Value) (spec : PureSpec) (ts : List TId) (d1 : Nat)
    (hmono : monotone f) : monotone (fun x => std_pure (f x) spec ts d1) := by
  unfold std_pure
  mono_all hmono

@[partial_fixpoint_monotone]
theorem monotone_binaryOp3 (cfg : Cfg) (f : γ → Task → M Value) (op : BinOp) (l r : Value) (d : Nat) (hs : Bool)
    (hmono : monotone f) : monotone (fun x => binaryOp3 cfg (f x) op l r d hs) := by
  unfold binaryOp3
  mono_all hmono

@[partial_fixpoint_monotone]
theorem monotone_builtinCall3 (cfg : Cfg) (f : γ → Task → M Value) (b : Builtin) (ts : List TId) (d1 : Nat)
    (hmono : monotone f) : monotone (fun x => builtinCall3 cfg (f x) b ts d1) := by
  unfold builtinCall3
  mono_all hmono

@[partial_fixpoint_monotone]
theorem monotone_thunkBody (cfg : Cfg) (f : γ → Task → M Value) (p : Pending) (d : Nat)
    (hmono : monotone f) : monotone (fun x => thunkBody cfg (f x) p d) := by
  unfold thunkBody
  mono_all hmono

theorem monotone_step (cfg : Cfg) (f : γ → Task → M Value) (t : Task)
    (hmono : monotone f) : monotone (fun x => step cfg (f x) t) := by
  unfold step
  mono_all hmono

theorem monotone_stepN (cfg : Cfg) (f : γ → Task → M Value) (t : Task)
    (hmono : monotone f) : monotone (fun x => stepN cfg (f x) t) := by
  have := monotone_step cfg f t hmono
  unfold stepN
  mono_all hmono
  all_goals exact this

end Rsj.Eval
