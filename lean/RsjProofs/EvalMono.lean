import RsjModel.Eval
/-!
  Monotonicity of one evaluator level in the recursive-call function, for the
  flat order on `Option` (`none` = out of fuel).  Everything is discharged by
  the compositional `monotonicity` tactic of `Lean.Order`.
-/
namespace Rsj.Eval
open Rsj.Core Lean.Order

variable {γ : Type} [PartialOrder γ]

/-- close goals `monotone fun x => f x task` -/
macro "mono_rec" h:ident : tactic =>
  `(tactic| first
    | exact monotone_apply _ _ $h
    | apply monotone_const)

macro "mono_all" h:ident : tactic =>
  `(tactic| (repeat' (first | monotonicity | (apply monotone_apply; exact $h) | apply monotone_const)))

@[partial_fixpoint_monotone]
theorem monotone_recStr (f : γ → Task → M Value) (t : Task) (hmono : monotone f) :
    monotone (fun x => recStr (f x) t) := by
  unfold recStr
  mono_all hmono

@[partial_fixpoint_monotone]
theorem monotone_wantThunk (cfg : Cfg) (f : γ → Task → M Value) (t : TId) (d : Nat) (hmono : monotone f) :
    monotone (fun x => wantThunk cfg (f x) t d) := by
  unfold wantThunk
  mono_all hmono

@[partial_fixpoint_monotone]
theorem monotone_wantField (cfg : Cfg) (f : γ → Task → M Value) (o : OId) (n : String) (d : Nat)
    (hmono : monotone f) : monotone (fun x => wantField cfg (f x) o n d) := by
  unfold wantField
  mono_all hmono

@[partial_fixpoint_monotone]
theorem monotone_wantSuperField (cfg : Cfg) (f : γ → Task → M Value) (e : EId) (n : String) (d : Nat)
    (hmono : monotone f) : monotone (fun x => wantSuperField cfg (f x) e n d) := by
  unfold wantSuperField
  mono_all hmono

@[partial_fixpoint_monotone]
theorem monotone_coerceToString (f : γ → Task → M Value) (v : Value) (d : Nat)
    (hmono : monotone f) : monotone (fun x => coerceToString (f x) v d) := by
  unfold coerceToString
  mono_all hmono

@[partial_fixpoint_monotone]
theorem monotone_evalSpecs (f : γ → Task → M Value) (specs : List (Option String × Expr)) (env : EId) (d : Nat)
    (hmono : monotone f) : monotone (fun x => evalSpecs (f x) specs env d) := by
  unfold evalSpecs
  mono_all hmono

@[partial_fixpoint_monotone]
theorem monotone_binaryOp (cfg : Cfg) (f : γ → Task → M Value) (op : BinOp) (l r : Value) (d : Nat) (hs : Bool)
    (hmono : monotone f) : monotone (fun x => binaryOp cfg (f x) op l r d hs) := by
  unfold binaryOp
  mono_all hmono

@[partial_fixpoint_monotone]
theorem monotone_compareLists (cfg : Cfg) (f : γ → Task → M Value) (d : Nat) (xs ys : List TId)
    (hmono : monotone f) : monotone (fun x => compareLists cfg (f x) d xs ys) := by
  induction xs generalizing ys with
  | nil => cases ys <;> (unfold compareLists; apply monotone_const)
  | cons x xs ih =>
    cases ys with
    | nil => unfold compareLists; apply monotone_const
    | cons y ys =>
      unfold compareLists
      mono_all hmono
      all_goals exact ih ys

theorem monotone_step (cfg : Cfg) (f : γ → Task → M Value) (t : Task)
    (hmono : monotone f) : monotone (fun x => step cfg (f x) t) := by
  unfold step
  mono_all hmono

end Rsj.Eval
