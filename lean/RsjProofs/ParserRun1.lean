/-
  C15 print/parse, part 1: forward ("this call succeeds with this result") lemmas for the
  token-eating primitives, in terms of the kinds of the remaining tokens.
-/
import RsjModel.Parser
namespace Rsj.Parser
variable {toks : List Token}

/-- kinds of the remaining tokens (current token first) -/
def PState.kinds (st : PState toks) : List TokKind := (st.cur :: st.rem).map (·.kind)

theorem PState.kinds_cons {st : PState toks} {a : TokKind} {ks : List TokKind} (h : st.kinds = a :: ks) :
    st.cur.kind = a ∧ st.rem.map (·.kind) = ks := by
  unfold PState.kinds at h
  simp only [List.map_cons, List.cons.injEq] at h
  exact h

theorem kinds_pushIf (st : PState toks) (add : Bool) (e : Expected) : (st.pushIf add e).kinds = st.kinds := by
  unfold PState.pushIf PState.push; split <;> rfl

theorem kinds_push (st : PState toks) (e : Expected) : (st.push e).kinds = st.kinds := rfl

/-- `next_token` when at least one more token follows -/
theorem advance_ok {st : PState toks} {a b : TokKind} {ks : List TokKind} (h : st.kinds = a :: b :: ks) :
    ∃ st', st.advance = .ok st' ∧ st'.kinds = b :: ks := by
  obtain ⟨_, hr⟩ := PState.kinds_cons h
  unfold PState.advance
  split
  · next hnil => rw [hnil] at hr; cases hr
  · next c r hcr =>
    refine ⟨_, rfl, ?_⟩
    unfold PState.kinds
    simp only
    rw [hcr] at hr
    exact hr

theorem eatSimple_hit {st : PState toks} {k : STok} {b : TokKind} {ks : List TokKind} (add : Bool)
    (h : st.kinds = .simple k :: b :: ks) :
    ∃ st', eatSimple k add st = .ok (some st.cur.span, st') ∧ st'.kinds = b :: ks := by
  obtain ⟨st', ha, hk⟩ := advance_ok h
  refine ⟨st', ?_, hk⟩
  unfold eatSimple
  rw [if_pos (PState.kinds_cons h).1, ha]
  rfl

theorem eatSimple_miss {st : PState toks} {k : STok} (add : Bool) (h : st.cur.kind ≠ .simple k) :
    eatSimple k add st = .ok (none, st.pushIf add (.simple k)) := by
  unfold eatSimple
  rw [if_neg h]

theorem expectSimple_hit {st : PState toks} {k : STok} {b : TokKind} {ks : List TokKind} (add : Bool)
    (h : st.kinds = .simple k :: b :: ks) :
    ∃ st', expectSimple k add st = .ok (st.cur.span, st') ∧ st'.kinds = b :: ks := by
  obtain ⟨st', he, hk⟩ := eatSimple_hit add h
  refine ⟨st', ?_, hk⟩
  unfold expectSimple
  rw [he]; rfl

theorem eatIdent_hit {st : PState toks} {v : String} {b : TokKind} {ks : List TokKind} (add : Bool)
    (h : st.kinds = .ident v :: b :: ks) :
    ∃ st', eatIdent add st = .ok (some ⟨v, st.cur.span⟩, st') ∧ st'.kinds = b :: ks := by
  obtain ⟨st', ha, hk⟩ := advance_ok h
  refine ⟨st', ?_, hk⟩
  unfold eatIdent
  rw [(PState.kinds_cons h).1]
  simp only [ha]
  rfl

theorem eatIdent_miss {st : PState toks} (add : Bool) (h : ∀ v, st.cur.kind ≠ .ident v) :
    eatIdent add st = .ok (none, st.pushIf add .ident) := by
  unfold eatIdent
  split
  · next v hv => exact absurd hv (h v)
  · rfl

theorem expectIdent_hit {st : PState toks} {v : String} {b : TokKind} {ks : List TokKind} (add : Bool)
    (h : st.kinds = .ident v :: b :: ks) :
    ∃ st', expectIdent add st = .ok (⟨v, st.cur.span⟩, st') ∧ st'.kinds = b :: ks := by
  obtain ⟨st', he, hk⟩ := eatIdent_hit add h
  refine ⟨st', ?_, hk⟩
  unfold expectIdent
  rw [he]; rfl

theorem eatString_hit {st : PState toks} {v : String} {b : TokKind} {ks : List TokKind} (add : Bool)
    (h : st.kinds = .string v :: b :: ks) :
    ∃ st', eatString add st = .ok (some (v, st.cur.span), st') ∧ st'.kinds = b :: ks := by
  obtain ⟨st', ha, hk⟩ := advance_ok h
  refine ⟨st', ?_, hk⟩
  unfold eatString
  rw [(PState.kinds_cons h).1]
  simp only [ha]
  rfl

theorem eatString_miss {st : PState toks} (add : Bool) (h : ∀ v, st.cur.kind ≠ .string v) :
    eatString add st = .ok (none, st.pushIf add .string) := by
  unfold eatString
  split
  · next v hv => exact absurd hv (h v)
  · rfl

theorem eatTextBlock_hit {st : PState toks} {v : String} {b : TokKind} {ks : List TokKind} (add : Bool)
    (h : st.kinds = .textBlock v :: b :: ks) :
    ∃ st', eatTextBlock add st = .ok (some (v, st.cur.span), st') ∧ st'.kinds = b :: ks := by
  obtain ⟨st', ha, hk⟩ := advance_ok h
  refine ⟨st', ?_, hk⟩
  unfold eatTextBlock
  rw [(PState.kinds_cons h).1]
  simp only [ha]
  rfl

theorem eatTextBlock_miss {st : PState toks} (add : Bool) (h : ∀ v, st.cur.kind ≠ .textBlock v) :
    eatTextBlock add st = .ok (none, st.pushIf add .textBlock) := by
  unfold eatTextBlock
  split
  · next v hv => exact absurd hv (h v)
  · rfl

theorem eatNumber_hit {st : PState toks} {v : String} {b : TokKind} {ks : List TokKind} (add : Bool)
    (h : st.kinds = .number v :: b :: ks) :
    ∃ st', eatNumber add st = .ok (some (v, st.cur.span), st') ∧ st'.kinds = b :: ks := by
  obtain ⟨st', ha, hk⟩ := advance_ok h
  refine ⟨st', ?_, hk⟩
  unfold eatNumber
  rw [(PState.kinds_cons h).1]
  simp only [ha]
  rfl

theorem eatNumber_miss {st : PState toks} (add : Bool) (h : ∀ v, st.cur.kind ≠ .number v) :
    eatNumber add st = .ok (none, st.pushIf add .number) := by
  unfold eatNumber
  split
  · next v hv => exact absurd hv (h v)
  · rfl

/-- `eatFirst` finds nothing -/
theorem eatFirst_miss {α : Type} (add : Bool) : ∀ (l : List (STok × α)) (st : PState toks),
    (∀ x ∈ l, st.cur.kind ≠ .simple x.1) →
    ∃ st', eatFirst add l st = .ok (none, st') ∧ st'.kinds = st.kinds ∧ st'.cur = st.cur ∧ st'.rem = st.rem
  | [], st, _ => ⟨st, rfl, rfl, rfl, rfl⟩
  | (k, a) :: rest, st, h => by
    have hk : st.cur.kind ≠ .simple k := h (k, a) (by simp)
    obtain ⟨st', he, hks, hc, hr⟩ := eatFirst_miss add rest (st.pushIf add (.simple k))
      (by
        intro x hx
        have : (st.pushIf add (.simple k)).cur = st.cur := by
          unfold PState.pushIf PState.push; split <;> rfl
        rw [this]; exact h x (by simp [hx]))
    refine ⟨st', ?_, ?_, ?_, ?_⟩
    · unfold eatFirst
      rw [eatSimple_miss add hk]
      exact he
    · rw [hks, kinds_pushIf]
    · rw [hc]; unfold PState.pushIf PState.push; split <;> rfl
    · rw [hr]; unfold PState.pushIf PState.push; split <;> rfl

/-- `eatFirst` takes the first entry whose token matches -/
theorem eatFirst_hit {α : Type} (add : Bool) : ∀ (pre : List (STok × α)) (k : STok) (a : α) (post : List (STok × α))
    (st : PState toks) (b : TokKind) (ks : List TokKind),
    (∀ x ∈ pre, x.1 ≠ k) → st.kinds = .simple k :: b :: ks →
    ∃ st', eatFirst add (pre ++ (k, a) :: post) st = .ok (some (k, a, st.cur.span), st') ∧ st'.kinds = b :: ks
  | [], k, a, post, st, b, ks, _, h => by
    obtain ⟨st', he, hk⟩ := eatSimple_hit add h
    refine ⟨st', ?_, hk⟩
    simp only [List.nil_append]
    unfold eatFirst
    rw [he]; rfl
  | (k', a') :: pre, k, a, post, st, b, ks, hpre, h => by
    have hne : st.cur.kind ≠ .simple k' := by
      rw [(PState.kinds_cons h).1]
      intro hc
      injection hc with hc
      exact hpre (k', a') (by simp) hc.symm
    have hcur : (st.pushIf add (.simple k')).cur = st.cur := by
      unfold PState.pushIf PState.push; split <;> rfl
    obtain ⟨st', he, hk⟩ := eatFirst_hit add pre k a post (st.pushIf add (.simple k')) b ks
      (fun x hx => hpre x (by simp [hx])) (by rw [kinds_pushIf]; exact h)
    refine ⟨st', ?_, hk⟩
    simp only [List.cons_append]
    unfold eatFirst
    rw [eatSimple_miss add hne]
    simp only [bind, Except.bind]
    rw [hcur] at he
    exact he

end Rsj.Parser
