/-
  Acceptance direction for string literals: `lex_quoted_string` and
  `lex_verbatim_string` only succeed on bodies of the well-formed shapes
  `SegsWF` / `VSegsWF` (inversion of the scanner loops), hence every `String`
  token carries the value of the literal it spans.
-/
import RsjProofs.LexerVerbatim
import RsjProofs.LexerAcceptKinds
import RsjProofs.LexerAcceptEsc
set_option linter.unusedSimpArgs false
namespace Rsj.Lexer
open Rsj.Utf8

/-- The continuation bytes `decode_cont_char` consumes are never ASCII. -/
theorem decodeCont_take_ge {b : Nat} {t : List Nat} {n : Nat}
    (h : (∃ c, decodeCont b t = .chr n c) ∨ decodeCont b t = .bad n) :
    ∀ y ∈ t.take n, 128 ≤ y := by
  intro y hy
  obtain ⟨i, hi, rfl⟩ := List.getElem_of_mem hy
  rw [List.getElem_take]
  rw [List.length_take] at hi
  have hi1 : i < n := by omega
  have hi2 : i < t.length := by omega
  apply Decidable.byContradiction
  intro hlt
  have hx : t[i] < 128 := by omega
  have hsplit : t = t.take i ++ t[i] :: t.drop (i + 1) := by
    rw [List.getElem_cons_drop, List.take_append_drop]
  have hlen : (t.take i).length ≤ i := by simp [List.length_take]; omega
  rw [hsplit, decodeCont_append_ascii b (t.take i) hx] at h
  rcases h with ⟨c, h⟩ | h
  · have := decodeCont_chr_le h; omega
  · have := decodeCont_bad_le h; omega

theorem eatAnyChar_inv {p : Nat} {rest : List Nat} {r : CharRes} {c1 : Cur}
    (h : eatAnyChar ⟨p, rest⟩ = .some r c1) :
    ∃ b t n, rest = b :: t ∧ n ≤ t.length ∧ c1 = ⟨p + 1 + n, t.drop n⟩ ∧ ∀ y ∈ t.take n, 128 ≤ y := by
  cases rest with
  | nil => simp [eatAnyChar, Cur.eatAnyByte] at h
  | cons b t =>
    simp only [eatAnyChar, Cur.eatAnyByte, eatContAnyChar] at h
    cases hd : decodeCont b t with
    | chr n c =>
      rw [hd] at h
      simp only [ContChar.some.injEq, AnyChar.some.injEq] at h
      exact ⟨b, t, n, rfl, decodeCont_chr_le hd, h.2.symm, decodeCont_take_ge (Or.inl ⟨c, hd⟩)⟩
    | bad n =>
      rw [hd] at h
      simp only [ContChar.some.injEq, AnyChar.some.injEq] at h
      exact ⟨b, t, n, rfl, decodeCont_bad_le hd, h.2.symm, decodeCont_take_ge (Or.inr hd)⟩
    | panic => rw [hd] at h; simp at h

theorem eatByte_none_cons {p b d : Nat} {t : List Nat} (h : Cur.eatByte ⟨p, b :: t⟩ d = none) : b ≠ d := by
  intro hbd
  simp [Cur.eatByte, hbd] at h

/-- Put a chunk of raw bytes in front of a body, merging with a leading raw segment. -/
def consRaw (ch : List Nat) : List Seg → List Seg
  | .raw bs :: rest => .raw (ch ++ bs) :: rest
  | segs => .raw ch :: segs

theorem segBytes_consRaw (ch : List Nat) (segs : List Seg) :
    segBytes (consRaw ch segs) = ch ++ segBytes segs := by
  cases segs with
  | nil => simp [consRaw, segBytes]
  | cons s rest => cases s <;> simp [consRaw, segBytes]

theorem SegsWF_consRaw {delim : Nat} {ch : List Nat} {segs : List Seg} (hb : IsBytes ch)
    (hne : ∀ b ∈ ch, b ≠ delim ∧ b ≠ 92) (h : SegsWF delim segs) : SegsWF delim (consRaw ch segs) := by
  cases segs with
  | nil => exact ⟨hb, hne, trivial, trivial⟩
  | cons s rest =>
    cases s with
    | raw bs =>
      obtain ⟨h1, h2, h3, h4⟩ := h
      refine ⟨?_, ?_, h3, h4⟩
      · intro b hbm
        rcases List.mem_append.mp hbm with hbm | hbm
        · exact hb b hbm
        · exact h1 b hbm
      · intro b hbm
        rcases List.mem_append.mp hbm with hbm | hbm
        · exact hne b hbm
        · exact h2 b hbm
    | esc bytes chr => exact ⟨hb, hne, trivial, h⟩

theorem IsBytes.of_append_right {a b : List Nat} (h : IsBytes (a ++ b)) : IsBytes b :=
  fun x hx => h x (List.mem_append_right _ hx)

theorem IsBytes.of_append_left {a b : List Nat} (h : IsBytes (a ++ b)) : IsBytes a :=
  fun x hx => h x (List.mem_append_left _ hx)

/-- **Acceptance, quoted strings.** Whenever the loop of `lex_quoted_string`
    returns a token, the bytes it consumed are a well-formed body followed by
    the closing delimiter. -/
theorem quotedLoop_inv (start delim : Nat) (hd : delim = 34 ∨ delim = 39) :
    ∀ (f p : Nat) (r str out : List Nat) (c' : Cur), IsBytes r →
      quotedLoop start delim f ⟨p, r⟩ str = .tok (.string out) c' →
      ∃ segs, SegsWF delim segs ∧ r = segBytes segs ++ delim :: c'.rest ∧
        c'.pos = p + (segBytes segs).length + 1 := by
  intro f
  induction f with
  | zero => intro p r str out c' _ h; simp [quotedLoop] at h
  | succ f ih =>
    intro p r str out c' hb h
    unfold quotedLoop at h
    split at h
    · next c1 he =>
      obtain ⟨u, rfl, rfl⟩ := eatByte_inv he
      simp only [Res.tok.injEq] at h
      obtain ⟨_, rfl⟩ := h
      exact ⟨[], trivial, by simp [segBytes], by simp [segBytes]⟩
    next hnd =>
    split at h
    · next c1 he =>
      obtain ⟨u, rfl, rfl⟩ := eatByte_inv he
      split at h
      · next chr c2 hes =>
        obtain ⟨bytes, hspec, hu, hp⟩ := lexEscape_inv hes
        obtain ⟨p2, r2⟩ := c2
        simp only at hu hp
        subst hu hp
        obtain ⟨segs, hwf, hr, hpos⟩ := ih _ _ _ _ _ (IsBytes.of_append_right (IsBytes.tail hb)) h
        refine ⟨.esc bytes chr :: segs, ⟨hspec, hwf⟩, ?_, ?_⟩
        · simp only [segBytes, List.cons_append, List.append_assoc]
          rw [← hr]
        · rw [hpos]; simp only [segBytes, List.length_cons, List.length_append]; omega
      · cases h
      · cases h
    next hn92 =>
    split at h
    · cases h
    · cases h
    next cr c1 hea =>
    obtain ⟨b, t, n, rfl, hn, rfl, hge⟩ := eatAnyChar_inv hea
    have hbd := eatByte_none_cons hnd
    have hb92 := eatByte_none_cons hn92
    obtain ⟨segs, hwf, hr, hpos⟩ := ih _ _ _ _ _ (hb.tail.drop n) h
    refine ⟨consRaw (b :: t.take n) segs, SegsWF_consRaw ?_ ?_ hwf, ?_, ?_⟩
    · intro y hy
      rcases List.mem_cons.mp hy with rfl | hy
      · exact hb _ (by simp)
      · exact hb y (List.mem_cons_of_mem _ (List.mem_of_mem_take hy))
    · intro y hy
      rcases List.mem_cons.mp hy with rfl | hy
      · exact ⟨hbd, hb92⟩
      · have := hge y hy
        rcases hd with rfl | rfl <;> omega
    · rw [segBytes_consRaw, List.cons_append, List.cons_append, List.append_assoc, ← hr, List.take_append_drop]
    · rw [hpos, segBytes_consRaw]
      simp only [List.length_append, List.length_cons, List.length_take]
      omega

/-- Put a chunk of raw bytes in front of a verbatim body, merging with a leading raw segment. -/
def consVRaw (ch : List Nat) : List VSeg → List VSeg
  | .raw bs :: rest => .raw (ch ++ bs) :: rest
  | segs => .raw ch :: segs

theorem vsegBytes_consVRaw (delim : Nat) (ch : List Nat) (segs : List VSeg) :
    vsegBytes delim (consVRaw ch segs) = ch ++ vsegBytes delim segs := by
  cases segs with
  | nil => simp [consVRaw, vsegBytes]
  | cons s rest => cases s <;> simp [consVRaw, vsegBytes]

theorem VSegsWF_consVRaw {delim : Nat} {ch : List Nat} {segs : List VSeg} (hb : IsBytes ch)
    (hne : ∀ b ∈ ch, b ≠ delim) (h : VSegsWF delim segs) : VSegsWF delim (consVRaw ch segs) := by
  cases segs with
  | nil => exact ⟨hb, hne, trivial, trivial⟩
  | cons s rest =>
    cases s with
    | raw bs =>
      obtain ⟨h1, h2, h3, h4⟩ := h
      refine ⟨?_, ?_, h3, h4⟩
      · intro b hbm
        rcases List.mem_append.mp hbm with hbm | hbm
        · exact hb b hbm
        · exact h1 b hbm
      · intro b hbm
        rcases List.mem_append.mp hbm with hbm | hbm
        · exact hne b hbm
        · exact h2 b hbm
    | dd => exact ⟨hb, hne, trivial, h⟩

theorem eatByte_none_tail {p d : Nat} {u : List Nat} (h : Cur.eatByte ⟨p, u⟩ d = none) :
    ∀ t', u ≠ d :: t' := by
  intro t' hu
  subst hu
  simp [Cur.eatByte] at h

/-- **Acceptance, verbatim strings.** Whenever the loop of `lex_verbatim_string`
    returns a token, the bytes it consumed are a well-formed verbatim body
    followed by a closing delimiter that is not itself doubled. -/
theorem verbatimLoop_inv (start delim : Nat) (hd : delim = 34 ∨ delim = 39) :
    ∀ (f p : Nat) (r str out : List Nat) (c' : Cur), IsBytes r →
      verbatimLoop start delim f ⟨p, r⟩ str = .tok (.string out) c' →
      ∃ segs, VSegsWF delim segs ∧ r = vsegBytes delim segs ++ delim :: c'.rest ∧
        c'.pos = p + (vsegBytes delim segs).length + 1 ∧ ∀ t', c'.rest ≠ delim :: t' := by
  intro f
  induction f with
  | zero => intro p r str out c' _ h; simp [verbatimLoop] at h
  | succ f ih =>
    intro p r str out c' hb h
    unfold verbatimLoop at h
    split at h
    · next c1 he =>
      obtain ⟨u, rfl, rfl⟩ := eatByte_inv he
      split at h
      · next c2 he2 =>
        obtain ⟨u2, rfl, rfl⟩ := eatByte_inv he2
        obtain ⟨segs, hwf, hr, hpos, htl⟩ := ih _ _ _ _ _ (IsBytes.tail (IsBytes.tail hb)) h
        refine ⟨.dd :: segs, hwf, ?_, ?_, htl⟩
        · simp only [vsegBytes, List.cons_append]
          rw [← hr]
        · rw [hpos]; simp only [vsegBytes, List.length_cons]; omega
      · next hn2 =>
        simp only [Res.tok.injEq] at h
        obtain ⟨_, rfl⟩ := h
        exact ⟨[], trivial, by simp [vsegBytes], by simp [vsegBytes], eatByte_none_tail hn2⟩
    next hnd =>
    split at h
    · cases h
    · cases h
    next cr c1 hea =>
    obtain ⟨b, t, n, rfl, hn, rfl, hge⟩ := eatAnyChar_inv hea
    have hbd := eatByte_none_cons hnd
    obtain ⟨segs, hwf, hr, hpos, htl⟩ := ih _ _ _ _ _ (hb.tail.drop n) h
    refine ⟨consVRaw (b :: t.take n) segs, VSegsWF_consVRaw ?_ ?_ hwf, ?_, ?_, htl⟩
    · intro y hy
      rcases List.mem_cons.mp hy with rfl | hy
      · exact hb _ (by simp)
      · exact hb y (List.mem_cons_of_mem _ (List.mem_of_mem_take hy))
    · intro y hy
      rcases List.mem_cons.mp hy with rfl | hy
      · exact hbd
      · have := hge y hy
        rcases hd with rfl | rfl <;> omega
    · rw [vsegBytes_consVRaw, List.cons_append, List.cons_append, List.append_assoc, ← hr,
        List.take_append_drop]
    · rw [hpos, vsegBytes_consVRaw]
      simp only [List.length_append, List.length_cons, List.length_take]
      omega

/-- **String tokens, token-driven direction.** On byte input, every `String`
    token `next_token` returns spans a quoted literal with a well-formed body
    (`SegsWF`) or a verbatim literal with a well-formed body (`VSegsWF`), and its
    payload is the value of that body. -/
theorem nextToken_string_value {c c' : Cur} {out : List Nat} (hb : IsBytes c.rest)
    (h : nextToken c = .tok (.string out) c') :
    (∃ delim segs, (delim = 34 ∨ delim = 39) ∧ SegsWF delim segs ∧ SegsValue segs out ∧
        c.rest.take (c'.pos - c.pos) = delim :: (segBytes segs ++ [delim])) ∨
    (∃ delim segs, (delim = 34 ∨ delim = 39) ∧ VSegsWF delim segs ∧ VSegsValue delim segs out ∧
        c.rest.take (c'.pos - c.pos) = 64 :: delim :: (vsegBytes delim segs ++ [delim])) := by
  obtain ⟨p, r⟩ := c
  simp only at hb
  rcases nextToken_string_inv h with ⟨delim, t, hd, hr, hq⟩ | ⟨delim, t, hd, hr, hq⟩
  · left
    simp only at hr
    subst hr
    unfold lexQuotedString at hq
    obtain ⟨segs, hwf, ht, hpos⟩ := quotedLoop_inv p delim hd _ _ _ _ _ _ (IsBytes.tail hb) hq
    obtain ⟨out', hv, hn⟩ := nextToken_quoted p delim hd segs c'.rest hwf
    rw [← ht, h] at hn
    simp only [Res.tok.injEq, Kind.string.injEq] at hn
    obtain ⟨rfl, _⟩ := hn
    refine ⟨delim, segs, hd, hwf, hv, ?_⟩
    rw [hpos, ht]
    have : p + 1 + (segBytes segs).length + 1 - p = (segBytes segs).length + 1 + 1 := by omega
    rw [this, List.take_succ_cons]
    congr 1
    have e : segBytes segs ++ delim :: c'.rest = (segBytes segs ++ [delim]) ++ c'.rest := by simp
    rw [e, List.take_left' (by simp)]
  · right
    simp only at hr
    subst hr
    unfold lexVerbatimString at hq
    obtain ⟨segs, hwf, ht, hpos, htl⟩ :=
      verbatimLoop_inv p delim hd _ _ _ _ _ _ (IsBytes.tail (IsBytes.tail hb)) hq
    obtain ⟨out', hv, hn⟩ := nextToken_verbatim p delim hd segs c'.rest htl hwf
    rw [← ht, h] at hn
    simp only [Res.tok.injEq, Kind.string.injEq] at hn
    obtain ⟨rfl, _⟩ := hn
    refine ⟨delim, segs, hd, hwf, hv, ?_⟩
    rw [hpos, ht]
    have : p + 2 + (vsegBytes delim segs).length + 1 - p = (vsegBytes delim segs).length + 1 + 1 + 1 := by
      omega
    rw [this, List.take_succ_cons, List.take_succ_cons]
    congr 2
    have e : vsegBytes delim segs ++ delim :: c'.rest = (vsegBytes delim segs ++ [delim]) ++ c'.rest := by
      simp
    rw [e, List.take_left' (by simp)]

/-! ### Why the byte hypothesis is needed -/

theorem hexFromDigit_byte {b d : Nat} (h : hexFromDigit b = some d) : b < 256 := by
  unfold hexFromDigit at h
  repeat' split at h
  all_goals first | omega | cases h

theorem Hex4.isBytes {bs : List Nat} {v : Nat} (h : Hex4 bs v) : IsBytes bs := by
  obtain ⟨b0, b1, b2, b3, d0, d1, d2, d3, rfl, h0, h1, h2, h3, _⟩ := h
  have := hexFromDigit_byte h0; have := hexFromDigit_byte h1
  have := hexFromDigit_byte h2; have := hexFromDigit_byte h3
  intro b hb
  simp only [List.mem_cons, List.mem_nil_iff, or_false] at hb
  omega

theorem EscSpec.isBytes {bytes : List Nat} {chr : Nat} (h : EscSpec bytes chr) : IsBytes bytes := by
  rcases h with ⟨x, rfl, hx⟩ | ⟨hex, rfl, hh, _⟩ | ⟨hex1, hex2, hi, lo, rfl, h1, h2, _⟩
  · intro b hb
    simp only [List.mem_cons, List.mem_nil_iff, or_false] at hb
    subst hb
    simp only [simpleEscapes, List.mem_cons, Prod.mk.injEq, List.mem_nil_iff, or_false] at hx
    omega
  · intro b hb
    rcases List.mem_cons.mp hb with rfl | hb
    · omega
    · exact hh.isBytes b hb
  · intro b hb
    have i1 := h1.isBytes
    have i2 := h2.isBytes
    simp only [List.mem_cons, List.mem_append] at hb
    rcases hb with rfl | hb | rfl | rfl | hb
    · omega
    · exact i1 b hb
    · omega
    · omega
    · exact i2 b hb

/-- The source bytes of a well-formed quoted body are bytes. -/
theorem SegsWF.isBytes {delim : Nat} : ∀ {segs : List Seg}, SegsWF delim segs → IsBytes (segBytes segs)
  | [], _ => by intro b hb; simp [segBytes] at hb
  | .raw bs :: rest, h => by
    obtain ⟨h1, _, _, h4⟩ := h
    intro b hb
    simp only [segBytes, List.mem_append] at hb
    rcases hb with hb | hb
    · exact h1 b hb
    · exact SegsWF.isBytes h4 b hb
  | .esc bytes chr :: rest, h => by
    obtain ⟨h1, h2⟩ := h
    intro b hb
    simp only [segBytes, List.mem_cons, List.mem_append] at hb
    rcases hb with rfl | hb | hb
    · omega
    · exact h1.isBytes b hb
    · exact SegsWF.isBytes h2 b hb

/-- A quoted literal containing the non-byte `300`: the model decodes it to
    U+FFFD, but no `SegsWF` body has `300` among its source bytes. -/
theorem string_token_nonbyte :
    nextToken ⟨0, [34, 300, 34]⟩ = .tok (.string [0xFFFD]) ⟨3, []⟩ ∧
    ¬ ((∃ delim segs, (delim = 34 ∨ delim = 39) ∧ SegsWF delim segs ∧ SegsValue segs [0xFFFD] ∧
        ([34, 300, 34] : List Nat).take (3 - 0) = delim :: (segBytes segs ++ [delim])) ∨
      (∃ delim segs, (delim = 34 ∨ delim = 39) ∧ VSegsWF delim segs ∧ VSegsValue delim segs [0xFFFD] ∧
        ([34, 300, 34] : List Nat).take (3 - 0) = 64 :: delim :: (vsegBytes delim segs ++ [delim]))) := by
  refine ⟨by decide, ?_⟩
  rintro (⟨delim, segs, _, hwf, _, he⟩ | ⟨delim, segs, _, _, _, he⟩)
  · simp only [Nat.sub_zero, List.take_succ_cons, List.take_zero, List.cons.injEq] at he
    obtain ⟨_, he⟩ := he
    have hm : 300 ∈ segBytes segs ++ [delim] := by rw [← he]; simp
    rcases List.mem_append.mp hm with hm | hm
    · have := hwf.isBytes 300 hm; omega
    · simp only [List.mem_cons, List.mem_nil_iff, or_false] at hm
      omega
  · simp at he

end Rsj.Lexer
