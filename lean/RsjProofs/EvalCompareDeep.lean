/-
  C08 on the evaluator model, part 9: `Evald` against the task `deep` (`run (.deep v 0)` is what
  the evaluator runs on a result before manifesting it).  On a value that is `Evald`, `deep` finds
  nothing left to do: it returns the value and leaves the store unchanged (no thunk forced, no
  assertion run, no field thunk created) — `Evald` is at least as strong as what `deep` works
  towards.  (The converse — a successful `deep` establishes `Evald` — needs the monotone evolution
  of the store under arbitrary evaluation and is stated, unproved, in RsjProps/C08Eval.lean.)
-/
import RsjProofs.EvalCompareTotal
set_option linter.unusedSectionVars false
set_option linter.unusedVariables false
namespace Rsj.Eval.Cmp
open Rsj.Core Rsj.Eval

/-- does the element / field value need a visit? -/
def deepNeed (t : TId) : M Bool := do
  match ← getThunk t with
  | .done (.arr _) => pure true
  | .done (.obj _) => pure true
  | .done _ => pure false
  | _ => pure true

/-- the loop of `deep` over the elements of an array (same `do` block as the arm of `step`) -/
def deepArrLoop (cfg : Cfg) (rec : Task → M Value) (d : Nat) (v : Value) (items : List TId) : M Value := do
  for t in items do
    let need ← match ← getThunk t with
      | .done (.arr _) => pure true
      | .done (.obj _) => pure true
      | .done _ => pure false
      | _ => pure true
    if need then
      checkDepth cfg (d + 1)
      let iv ← rec (.force t (d + 1))
      let _ ← rec (.deep iv (d + 1))
  pure v

theorem step_deep_arr (cfg : Cfg) (rec : Task → M Value) (items : List TId) (d : Nat) :
    step cfg rec (.deep (.arr items) d) = deepArrLoop cfg rec d (.arr items) items := rfl

theorem deepArrLoop_nil (cfg : Cfg) (rec : Task → M Value) (d : Nat) (v : Value) :
    deepArrLoop cfg rec d v [] = pure v := rfl

theorem deepArrLoop_cons (cfg : Cfg) (rec : Task → M Value) (d : Nat) (v : Value) (t : TId)
    (items : List TId) :
    deepArrLoop cfg rec d v (t :: items) = (do
      let need ← deepNeed t
      if need then
        checkDepth cfg (d + 1)
        let iv ← rec (.force t (d + 1))
        let _ ← rec (.deep iv (d + 1))
        deepArrLoop cfg rec d v items
      else deepArrLoop cfg rec d v items) := by
  simp only [deepArrLoop, deepNeed, List.forIn_cons, bind_assoc]
  refine bind_congr fun s => ?_
  split <;> simp

/-- the loop of `deep` over the visible fields of an object -/
def deepObjLoop (cfg : Cfg) (rec : Task → M Value) (d : Nat) (v : Value) (o : OId)
    (names : List String) : M Value := do
  for name in names do
    let some t ← fieldThunk o 0 name | throw (.internal "visible field without thunk")
    let need ← match ← getThunk t with
      | .done (.arr _) => pure true
      | .done (.obj _) => pure true
      | .done _ => pure false
      | _ => pure true
    if need then
      checkDepth cfg (d + 1)
      let fv ← rec (.force t (d + 1))
      let _ ← rec (.deep fv (d + 1))
  pure v

theorem step_deep_obj (cfg : Cfg) (rec : Task → M Value) (o : OId) (d : Nat) :
    step cfg rec (.deep (.obj o) d) = (do
      let _ ← rec (.asserts o d)
      deepObjLoop cfg rec d (.obj o) o (visibleFields (← getObj o))) := rfl

theorem deepObjLoop_nil (cfg : Cfg) (rec : Task → M Value) (d : Nat) (v : Value) (o : OId) :
    deepObjLoop cfg rec d v o [] = pure v := rfl

theorem deepObjLoop_cons (cfg : Cfg) (rec : Task → M Value) (d : Nat) (v : Value) (o : OId)
    (name : String) (names : List String) :
    deepObjLoop cfg rec d v o (name :: names) = (do
      let some t ← fieldThunk o 0 name | throw (.internal "visible field without thunk")
      let need ← deepNeed t
      if need then
        checkDepth cfg (d + 1)
        let iv ← rec (.force t (d + 1))
        let _ ← rec (.deep iv (d + 1))
        deepObjLoop cfg rec d v o names
      else deepObjLoop cfg rec d v o names) := by
  simp only [deepObjLoop, deepNeed, List.forIn_cons, bind_assoc]
  refine bind_congr fun s => ?_
  cases s with
  | none => simp
  | some t =>
    simp only [bind_assoc]
    refine bind_congr fun s => ?_
    split <;> simp

theorem step_deep_flat (cfg : Cfg) (rec : Task → M Value) (v : Value) (d : Nat)
    (h : match v with | .arr _ => False | .obj _ => False | _ => True) :
    step cfg rec (.deep v d) = pure v := by
  cases v <;> first | rfl | exact h.elim

/-- the test on an evaluated thunk: only arrays and objects are visited -/
def needOf : Value → Bool
  | .arr _ => true
  | .obj _ => true
  | _ => false

theorem Ret_deepNeed {st : St} {t : TId} {w : Value} (h : st.thunks[t]? = some (.done w)) :
    Ret (deepNeed t) st (.ok (needOf w)) := by
  unfold deepNeed
  refine Ret.bind_ok (Ret_getThunk h) ?_
  cases w <;> exact Ret.pure _ _

/-- what the recursive calls must do, for values of height `H` -/
structure RecDeep (cfg : Cfg) (rec : Task → M Value) (st : St) (H : Nat) : Prop where
  force : 0 < H → ∀ t v d, st.thunks[t]? = some (.done v) → Ret (rec (.force t d)) st (.ok v)
  asserts : 0 < H → ∀ o ob d, st.objs[o]? = some ob → ob.assertsChecked = true →
    Ret (rec (.asserts o d)) st (.ok .null)
  deep : ∀ h, H = h + 1 → ∀ v d, Evald st h v → d + h ≤ cfg.maxStack → Ret (rec (.deep v d)) st (.ok v)

/-- one visit of an evaluated element / field value: nothing to do -/
theorem deepVisit_ret {cfg : Cfg} {rec : Task → M Value} {st : St} {h : Nat}
    (R : RecDeep cfg rec st (h + 1)) (d : Nat) (hd : d + (h + 1) ≤ cfg.maxStack) {t : TId} {w : Value}
    (hw : st.thunks[t]? = some (.done w)) (ew : Evald st h w) {k : M Value} {r : Except Err Value}
    (hk : Ret k st r) :
    Ret (do
      let need ← deepNeed t
      if need then
        checkDepth cfg (d + 1)
        let iv ← rec (.force t (d + 1))
        let _ ← rec (.deep iv (d + 1))
        k
      else k) st r := by
  refine Ret.bind_ok (Ret_deepNeed hw) ?_
  have visit : Ret (do
        checkDepth cfg (d + 1)
        let iv ← rec (.force t (d + 1))
        let _ ← rec (.deep iv (d + 1))
        k) st r := by
    refine Ret.bind_ok (Ret_checkDepth (by omega)) ?_
    refine Ret.bind_ok (R.force (Nat.succ_pos _) t w _ hw) ?_
    exact Ret.bind_ok (R.deep h rfl w (d + 1) ew (by omega)) hk
  cases w <;> first | exact hk | exact visit

theorem deepArrLoop_ret {cfg : Cfg} {rec : Task → M Value} {st : St} {h : Nat}
    (R : RecDeep cfg rec st (h + 1)) (d : Nat) (hd : d + (h + 1) ≤ cfg.maxStack) (v : Value) :
    ∀ items : List TId, (∀ t ∈ items, ∃ w, st.thunks[t]? = some (.done w) ∧ Evald st h w) →
      Ret (deepArrLoop cfg rec d v items) st (.ok v) := by
  intro items
  induction items with
  | nil => intro _; rw [deepArrLoop_nil]; exact Ret.pure _ _
  | cons t items ih =>
    intro hi
    obtain ⟨w, hw, ew⟩ := hi t (List.mem_cons_self ..)
    rw [deepArrLoop_cons]
    exact deepVisit_ret R d hd hw ew (ih (fun t ht => hi t (List.mem_cons_of_mem _ ht)))

theorem deepObjLoop_ret {cfg : Cfg} {rec : Task → M Value} {st : St} {h : Nat}
    (R : RecDeep cfg rec st (h + 1)) (d : Nat) (hd : d + (h + 1) ≤ cfg.maxStack) (v : Value)
    {o : OId} {ob : Obj} (ho : st.objs[o]? = some ob) :
    ∀ names : List String,
      (∀ name ∈ names, ∃ li f t w, findField ob 0 name = some (li, f) ∧ f.thunk = some t ∧
        st.thunks[t]? = some (.done w) ∧ Evald st h w) →
      Ret (deepObjLoop cfg rec d v o names) st (.ok v) := by
  intro names
  induction names with
  | nil => intro _; rw [deepObjLoop_nil]; exact Ret.pure _ _
  | cons name names ih =>
    intro hi
    obtain ⟨li, f, t, w, a1, a2, a3, a4⟩ := hi name (List.mem_cons_self ..)
    rw [deepObjLoop_cons]
    refine Ret.bind_ok (Ret_fieldThunk ho a1 a2) ?_
    exact deepVisit_ret R d hd a3 a4 (ih (fun n hn => hi n (List.mem_cons_of_mem _ hn)))

theorem step_deep_ret {cfg : Cfg} {rec : Task → M Value} {st : St} {H : Nat} (R : RecDeep cfg rec st H)
    (v : Value) (d : Nat) (hv : Evald st H v) (hd : d + H ≤ cfg.maxStack) :
    Ret (step cfg rec (.deep v d)) st (.ok v) := by
  cases v with
  | arr items =>
    obtain ⟨h, rfl, hi⟩ := Evald_arr hv
    rw [step_deep_arr]
    exact deepArrLoop_ret R d hd _ items hi
  | obj o =>
    obtain ⟨h, rfl, ob, ho, hc, hf⟩ := Evald_obj hv
    rw [step_deep_obj]
    refine Ret.bind_ok (R.asserts (Nat.succ_pos _) o ob d ho hc) ?_
    refine Ret.bind_ok (Ret_getObj ho) ?_
    exact deepObjLoop_ret R d hd _ ho _ hf
  | _ => rw [step_deep_flat _ _ _ _ trivial]; exact Ret.pure _ _

/-- **`deep` on an evaluated value is a no-op**: it returns the value, and the store is unchanged
    (up to the ghost depth counter). -/
theorem run_deep_ret (cfg : Cfg) (st : St) : ∀ (h n : Nat), h + 1 ≤ n → ∀ (v : Value) (d : Nat),
    Evald st h v → d + h ≤ cfg.maxStack → Ret (run cfg n (.deep v d)) st (.ok v) := by
  intro h
  induction h with
  | zero =>
    intro n hn v d hv hd
    obtain ⟨n, rfl⟩ : ∃ m, n = m + 1 := ⟨n - 1, by omega⟩
    rw [run_succ]
    refine Ret.bind_ok (Ret_noteDepth _ _) ?_
    refine step_deep_ret ⟨?_, ?_, ?_⟩ v d hv hd
    · intro h0; omega
    · intro h0; omega
    · intro h' e; omega
  | succ h ih =>
    intro n hn v d hv hd
    obtain ⟨n, rfl⟩ : ∃ m, n = m + 1 := ⟨n - 1, by omega⟩
    obtain ⟨n, rfl⟩ : ∃ m, n = m + 1 := ⟨n - 1, by omega⟩
    rw [run_succ]
    refine Ret.bind_ok (Ret_noteDepth _ _) ?_
    refine step_deep_ret ⟨?_, ?_, ?_⟩ v d hv hd
    · intro _ t v d' ht; exact run_force_done cfg n d' ht
    · intro _ o ob d' ho hc; exact run_asserts_checked cfg n d' ho hc
    · intro h' e v' d' hv' hd'
      have e3 : h = h' := by omega
      subst e3
      exact ih (n + 1) (by omega) v' d' hv' hd'

end Rsj.Eval.Cmp
