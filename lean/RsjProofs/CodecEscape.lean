/-
  Helper lemmas for C20 (escapers): un-escapers written from the target grammars
  (POSIX shell word, `$$`, XML character data, RFC 8259 string) and the proofs
  that they invert `std.escapeString*`.
-/
import RsjModel.Codec
namespace Rsj.Codec

/-! ### `$$` -/

/-- Reads text in which `$$` stands for `$`; a lone `$` is an error. -/
def unDollars : List Nat → Option (List Nat)
  | [] => some []
  | c :: cs =>
    if c = 36 then
      match cs with
      | d :: ds => if d = 36 then (unDollars ds).map (36 :: ·) else none
      | [] => none
    else (unDollars cs).map (c :: ·)

theorem unDollars_ne {c : Nat} (cs : List Nat) (h : c ≠ 36) :
    unDollars (c :: cs) = (unDollars cs).map (c :: ·) := by
  rw [unDollars.eq_def]; dsimp only; rw [if_neg h]

theorem unDollars_dd (cs : List Nat) : unDollars (36 :: 36 :: cs) = (unDollars cs).map (36 :: ·) := by
  rw [unDollars.eq_def]; dsimp only; rw [if_pos rfl, if_pos rfl]

theorem unDollars_esc (s : List Nat) : unDollars (escDollars s) = some s := by
  induction s with
  | nil => rfl
  | cons c s ih =>
    have e : escDollars (c :: s) = (if c = 36 then [36, 36] else [c]) ++ escDollars s := by
      simp [escDollars]
    rw [e]
    by_cases h : c = 36
    · subst h
      rw [if_pos rfl, List.cons_append, List.cons_append, List.nil_append, unDollars_dd, ih]; rfl
    · rw [if_neg h, List.cons_append, List.nil_append, unDollars_ne _ h, ih]; rfl

/-! ### POSIX shell word (sh(1) "Quoting") -/

inductive ShMode where
  | plain | single | double

/-- Characters that end a word or start an expansion when unquoted. -/
def shSpecial (c : Nat) : Bool :=
  c = 32 || c = 9 || c = 10 || c = 36 || c = 96 || c = 38 || c = 59 || c = 60 || c = 62 || c = 40 || c = 41 ||
  c = 124 || c = 42 || c = 63 || c = 91 || c = 35 || c = 126 || c = 61 || c = 37 || c = 33 || c = 123 || c = 125

/-- Removes the quoting of one shell word made of `'…'`, `"…"`, `\\x` and plain
    characters; `none` if the text is not a single fully-quoted word without
    expansions (unterminated quote, unquoted blank or metacharacter, `$`/backquote
    inside double quotes). -/
def shUnquote : ShMode → List Nat → Option (List Nat)
  | .plain, [] => some []
  | .plain, c :: cs =>
    if c = 39 then shUnquote .single cs
    else if c = 34 then shUnquote .double cs
    else if c = 92 then
      match cs with
      | d :: ds => if d = 10 then shUnquote .plain ds else (shUnquote .plain ds).map (d :: ·)
      | [] => none
    else if shSpecial c then none
    else (shUnquote .plain cs).map (c :: ·)
  | .single, [] => none
  | .single, c :: cs =>
    if c = 39 then shUnquote .plain cs else (shUnquote .single cs).map (c :: ·)
  | .double, [] => none
  | .double, c :: cs =>
    if c = 34 then shUnquote .plain cs
    else if c = 92 then
      match cs with
      | d :: ds =>
        if d = 36 ∨ d = 96 ∨ d = 34 ∨ d = 92 then (shUnquote .double ds).map (d :: ·)
        else if d = 10 then shUnquote .double ds
        else (shUnquote .double ds).map (fun r => 92 :: d :: r)
      | [] => none
    else if c = 36 ∨ c = 96 then none
    else (shUnquote .double cs).map (c :: ·)

def bashBody (s : List Nat) : List Nat := s.flatMap (fun c => if c = 39 then [39, 34, 39, 34, 39] else [c])

theorem sh_single_quote (cs : List Nat) : shUnquote .single (39 :: cs) = shUnquote .plain cs := by
  rw [shUnquote.eq_def]; dsimp only; rw [if_pos rfl]
theorem sh_single_ne {c : Nat} (cs : List Nat) (h : c ≠ 39) :
    shUnquote .single (c :: cs) = (shUnquote .single cs).map (c :: ·) := by
  rw [shUnquote.eq_def]; dsimp only; rw [if_neg h]
theorem sh_plain_single (cs : List Nat) : shUnquote .plain (39 :: cs) = shUnquote .single cs := by
  rw [shUnquote.eq_def]; dsimp only; rw [if_pos rfl]
theorem sh_plain_double (cs : List Nat) : shUnquote .plain (34 :: cs) = shUnquote .double cs := by
  rw [shUnquote.eq_def]; dsimp only; rw [if_neg (by decide), if_pos rfl]
theorem sh_double_quote (cs : List Nat) : shUnquote .double (34 :: cs) = shUnquote .plain cs := by
  rw [shUnquote.eq_def]; dsimp only; rw [if_pos rfl]
theorem sh_double_apos (cs : List Nat) :
    shUnquote .double (39 :: cs) = (shUnquote .double cs).map (39 :: ·) := by
  rw [shUnquote.eq_def]; dsimp only; rw [if_neg (by decide), if_neg (by decide), if_neg (by decide)]

theorem shUnquote_body (s : List Nat) : shUnquote .single (bashBody s ++ [39]) = some s := by
  induction s with
  | nil =>
    show shUnquote .single [39] = some []
    rw [sh_single_quote]; rfl
  | cons c s ih =>
    have e : bashBody (c :: s) = (if c = 39 then [39, 34, 39, 34, 39] else [c]) ++ bashBody s := by
      simp [bashBody]
    rw [e]
    by_cases h : c = 39
    · subst h
      rw [if_pos rfl]
      simp only [List.cons_append, List.nil_append]
      rw [sh_single_quote, sh_plain_double, sh_double_apos, sh_double_quote, sh_plain_single, ih]; rfl
    · rw [if_neg h]
      simp only [List.cons_append, List.nil_append]
      rw [sh_single_ne _ h, ih]; rfl

theorem shUnquote_esc (s : List Nat) : shUnquote .plain (escBash s) = some s := by
  have : escBash s = 39 :: (bashBody s ++ [39]) := by simp [escBash, bashBody]
  rw [this, sh_plain_single, shUnquote_body]

/-! ### XML character data with the five predefined entities -/

/-- Reads XML text: `&lt; &gt; &amp; &quot; &apos;` are the only references; raw
    `<`, `>`, `"`, `'` and any other `&…` are errors. -/
def unXml : List Nat → Option (List Nat)
  | [] => some []
  | c :: cs =>
    if c = 38 then
      match cs with
      | 108 :: 116 :: 59 :: r => (unXml r).map (60 :: ·)
      | 103 :: 116 :: 59 :: r => (unXml r).map (62 :: ·)
      | 97 :: 109 :: 112 :: 59 :: r => (unXml r).map (38 :: ·)
      | 113 :: 117 :: 111 :: 116 :: 59 :: r => (unXml r).map (34 :: ·)
      | 97 :: 112 :: 111 :: 115 :: 59 :: r => (unXml r).map (39 :: ·)
      | _ => none
    else if c = 60 ∨ c = 62 ∨ c = 34 ∨ c = 39 then none
    else (unXml cs).map (c :: ·)

theorem unXml_plain {c : Nat} (cs : List Nat) (h : c ≠ 38) (h' : ¬ (c = 60 ∨ c = 62 ∨ c = 34 ∨ c = 39)) :
    unXml (c :: cs) = (unXml cs).map (c :: ·) := by
  rw [unXml.eq_def]; dsimp only; rw [if_neg h, if_neg h']

theorem unXml_lt (r : List Nat) : unXml (38 :: 108 :: 116 :: 59 :: r) = (unXml r).map (60 :: ·) := by
  rw [unXml.eq_def]; dsimp only; rw [if_pos rfl]; simp
theorem unXml_gt (r : List Nat) : unXml (38 :: 103 :: 116 :: 59 :: r) = (unXml r).map (62 :: ·) := by
  rw [unXml.eq_def]; dsimp only; rw [if_pos rfl]; simp
theorem unXml_amp (r : List Nat) : unXml (38 :: 97 :: 109 :: 112 :: 59 :: r) = (unXml r).map (38 :: ·) := by
  rw [unXml.eq_def]; dsimp only; rw [if_pos rfl]; simp
theorem unXml_quot (r : List Nat) :
    unXml (38 :: 113 :: 117 :: 111 :: 116 :: 59 :: r) = (unXml r).map (34 :: ·) := by
  rw [unXml.eq_def]; dsimp only; rw [if_pos rfl]; simp
theorem unXml_apos (r : List Nat) :
    unXml (38 :: 97 :: 112 :: 111 :: 115 :: 59 :: r) = (unXml r).map (39 :: ·) := by
  rw [unXml.eq_def]; dsimp only; rw [if_pos rfl]; simp

theorem unXml_esc (s : List Nat) : unXml (escXml s) = some s := by
  induction s with
  | nil => rfl
  | cons c s ih =>
    have e : escXml (c :: s) = escXmlChar c ++ escXml s := by simp [escXml]
    rw [e]
    unfold escXmlChar
    by_cases h1 : c = 60
    · subst h1; rw [if_pos rfl]; simp only [List.cons_append, List.nil_append]; rw [unXml_lt, ih]; rfl
    · by_cases h2 : c = 62
      · subst h2; rw [if_neg (by decide), if_pos rfl]; simp only [List.cons_append, List.nil_append]
        rw [unXml_gt, ih]; rfl
      · by_cases h3 : c = 38
        · subst h3; rw [if_neg (by decide), if_neg (by decide), if_pos rfl]
          simp only [List.cons_append, List.nil_append]
          rw [unXml_amp, ih]; rfl
        · by_cases h4 : c = 34
          · subst h4; rw [if_neg (by decide), if_neg (by decide), if_neg (by decide), if_pos rfl]
            simp only [List.cons_append, List.nil_append]
            rw [unXml_quot, ih]; rfl
          · by_cases h5 : c = 39
            · subst h5
              rw [if_neg (by decide), if_neg (by decide), if_neg (by decide), if_neg (by decide), if_pos rfl]
              simp only [List.cons_append, List.nil_append]
              rw [unXml_apos, ih]; rfl
            · rw [if_neg h1, if_neg h2, if_neg h3, if_neg h4, if_neg h5]
              simp only [List.cons_append, List.nil_append]
              rw [unXml_plain _ h3 (by omega), ih]; rfl

/-! ### RFC 8259 string literal -/

def hexVal? (c : Nat) : Option Nat :=
  if 48 ≤ c ∧ c ≤ 57 then some (c - 48)
  else if 97 ≤ c ∧ c ≤ 102 then some (c - 87)
  else if 65 ≤ c ∧ c ≤ 70 then some (c - 55)
  else none

/-- The two-character escapes of RFC 8259 section 7. -/
def simpleEscape (e : Nat) : Option Nat :=
  if e = 34 then some 34 else if e = 92 then some 92 else if e = 47 then some 47
  else if e = 98 then some 8 else if e = 102 then some 12 else if e = 110 then some 10
  else if e = 114 then some 13 else if e = 116 then some 9 else none

/-- Reads the rest of a JSON string after the opening quote; the closing quote must
    be the last character.  `\uXXXX` escapes that are surrogate code units are not
    interpreted (`none`): the escaper never produces them. -/
def unJsonBody : List Nat → Option (List Nat)
  | [] => none
  | c :: cs =>
    if c = 34 then (if cs = [] then some [] else none)
    else if c = 92 then
      match cs with
      | 117 :: h1 :: h2 :: h3 :: h4 :: r =>
        match hexVal? h1, hexVal? h2, hexVal? h3, hexVal? h4 with
        | some a, some b, some c', some d =>
          if 0xD800 ≤ a * 4096 + b * 256 + c' * 16 + d ∧ a * 4096 + b * 256 + c' * 16 + d ≤ 0xDFFF then none
          else (unJsonBody r).map ((a * 4096 + b * 256 + c' * 16 + d) :: ·)
        | _, _, _, _ => none
      | e :: r =>
        match simpleEscape e with
        | some v => (unJsonBody r).map (v :: ·)
        | none => none
      | [] => none
    else if c < 0x20 then none
    else (unJsonBody cs).map (c :: ·)

/-- Reads a JSON string literal. -/
def unJson : List Nat → Option (List Nat)
  | 34 :: body => unJsonBody body
  | _ => none

theorem hexVal_hexDig : ∀ d, d < 16 → hexVal? (hexDig d) = some d := by decide

theorem unJsonBody_plain {c : Nat} (cs : List Nat) (h1 : c ≠ 34) (h2 : c ≠ 92) (h3 : ¬ c < 0x20) :
    unJsonBody (c :: cs) = (unJsonBody cs).map (c :: ·) := by
  rw [unJsonBody.eq_def]; dsimp only; rw [if_neg h1, if_neg h2, if_neg h3]

theorem unJsonBody_simple {e v : Nat} (r : List Nat) (he : e ≠ 117) (hv : simpleEscape e = some v) :
    unJsonBody (92 :: e :: r) = (unJsonBody r).map (v :: ·) := by
  rw [unJsonBody.eq_def]; dsimp only; rw [if_neg (by decide), if_pos rfl]
  split
  · next heq => simp only [List.cons.injEq] at heq; exact absurd heq.1 he
  · next heq => simp only [List.cons.injEq] at heq; obtain ⟨rfl, rfl⟩ := heq; rw [hv]
  · next heq => cases heq

theorem unJsonBody_u {a b c d : Nat} (r : List Nat) (ha : a < 16) (hb : b < 16) (hc : c < 16) (hd : d < 16)
    (hns : ¬ (0xD800 ≤ a * 4096 + b * 256 + c * 16 + d ∧ a * 4096 + b * 256 + c * 16 + d ≤ 0xDFFF)) :
    unJsonBody (92 :: 117 :: hexDig a :: hexDig b :: hexDig c :: hexDig d :: r) =
      (unJsonBody r).map ((a * 4096 + b * 256 + c * 16 + d) :: ·) := by
  rw [unJsonBody.eq_def]; dsimp only; rw [if_neg (by decide), if_pos rfl]
  simp only [hexVal_hexDig _ ha, hexVal_hexDig _ hb, hexVal_hexDig _ hc, hexVal_hexDig _ hd]
  rw [if_neg hns]

theorem unJsonBody_end : unJsonBody [34] = some [] := by
  rw [unJsonBody.eq_def]; dsimp only; rw [if_pos rfl, if_pos rfl]

theorem unJsonBody_esc (s : List Nat) : unJsonBody (s.flatMap escJsonChar ++ [34]) = some s := by
  induction s with
  | nil => exact unJsonBody_end
  | cons c s ih =>
    rw [List.flatMap_cons, List.append_assoc]
    have simple : ∀ e, e ≠ 117 → simpleEscape e = some c → escJsonChar c = [92, e] →
        unJsonBody (escJsonChar c ++ (s.flatMap escJsonChar ++ [34])) = some (c :: s) := by
      intro e he hv hx
      rw [hx]
      simp only [List.cons_append, List.nil_append]
      rw [unJsonBody_simple _ he hv, ih]; rfl
    by_cases h8 : c = 8
    · subst h8; exact simple 98 (by decide) (by decide) (by decide)
    by_cases h9 : c = 9
    · subst h9; exact simple 116 (by decide) (by decide) (by decide)
    by_cases h10 : c = 10
    · subst h10; exact simple 110 (by decide) (by decide) (by decide)
    by_cases h12 : c = 12
    · subst h12; exact simple 102 (by decide) (by decide) (by decide)
    by_cases h13 : c = 13
    · subst h13; exact simple 114 (by decide) (by decide) (by decide)
    by_cases h34 : c = 34
    · subst h34; exact simple 34 (by decide) (by decide) (by decide)
    by_cases h92 : c = 92
    · subst h92; exact simple 92 (by decide) (by decide) (by decide)
    have hx : escJsonChar c = if c ≤ 0x1F ∨ (0x7F ≤ c ∧ c ≤ 0x9F) then
        [92, 117, hexDig (c / 4096 % 16), hexDig (c / 256 % 16), hexDig (c / 16 % 16), hexDig (c % 16)]
        else [c] := by
      unfold escJsonChar
      rw [if_neg h8, if_neg h9, if_neg h10, if_neg h12, if_neg h13, if_neg h34, if_neg h92]
    rw [hx]
    by_cases hctl : c ≤ 0x1F ∨ (0x7F ≤ c ∧ c ≤ 0x9F)
    · rw [if_pos hctl]
      simp only [List.cons_append, List.nil_append]
      rw [unJsonBody_u _ (by omega) (by omega) (by omega) (by omega) (by omega), ih]
      have : c / 4096 % 16 * 4096 + c / 256 % 16 * 256 + c / 16 % 16 * 16 + c % 16 = c := by omega
      rw [this]; rfl
    · rw [if_neg hctl]
      simp only [List.cons_append, List.nil_append]
      rw [unJsonBody_plain _ h34 h92 (by omega), ih]; rfl

theorem unJson_esc (s : List Nat) : unJson (escJson s) = some s := by
  have : escJson s = 34 :: (s.flatMap escJsonChar ++ [34]) := by simp [escJson]
  rw [this]
  show unJsonBody _ = _
  exact unJsonBody_esc s

/-! ### `hash_to_hex_string` -/

/-- Reads pairs of hex digits. -/
def unHex : List Nat → Option (List Nat)
  | [] => some []
  | [_] => none
  | h :: l :: r =>
    match hexVal? h, hexVal? l, unHex r with
    | some a, some b, some bs => some ((a * 16 + b) :: bs)
    | _, _, _ => none

theorem hexDig_lower : ∀ d, d < 16 → (48 ≤ hexDig d ∧ hexDig d ≤ 57) ∨ (97 ≤ hexDig d ∧ hexDig d ≤ 102) := by
  decide

theorem unHex_hexString (bs : List Nat) (h : ∀ b ∈ bs, b < 256) : unHex (hexString bs) = some bs := by
  induction bs with
  | nil => rfl
  | cons b bs ih =>
    have hb : b < 256 := h b (by simp)
    have e : hexString (b :: bs) = hexDig (b / 16) :: hexDig (b % 16) :: hexString bs := by
      simp [hexString]
    rw [e, unHex, hexVal_hexDig _ (by omega), hexVal_hexDig _ (by omega),
      ih (fun x hx => h x (by simp [hx]))]
    simp only [List.cons.injEq, Option.some.injEq, and_true]
    omega

theorem hexString_length (bs : List Nat) : (hexString bs).length = 2 * bs.length := by
  induction bs with
  | nil => rfl
  | cons b bs ih =>
    have e : hexString (b :: bs) = hexDig (b / 16) :: hexDig (b % 16) :: hexString bs := by
      simp [hexString]
    rw [e]; simp only [List.length_cons, ih]; omega

theorem hexString_lower (bs : List Nat) (h : ∀ b ∈ bs, b < 256) :
    ∀ c ∈ hexString bs, (48 ≤ c ∧ c ≤ 57) ∨ (97 ≤ c ∧ c ≤ 102) := by
  induction bs with
  | nil => intro c hc; simp [hexString] at hc
  | cons b bs ih =>
    have hb : b < 256 := h b (by simp)
    have e : hexString (b :: bs) = hexDig (b / 16) :: hexDig (b % 16) :: hexString bs := by
      simp [hexString]
    rw [e]
    intro c hc
    simp only [List.mem_cons] at hc
    rcases hc with rfl | rfl | hc
    · exact hexDig_lower _ (by omega)
    · exact hexDig_lower _ (by omega)
    · exact ih (fun x hx => h x (by simp [hx])) c hc

end Rsj.Codec
