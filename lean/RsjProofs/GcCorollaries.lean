/-
  Consequences of `collect_exact`: idempotence, return to baseline, empty heap without roots.
-/
import RsjProofs.GcPhase2
namespace Rsj.Gc

theorem nodup_of_map_nodup {α β : Type} (f : α → β) {l : List α} (h : (l.map f).Nodup) : l.Nodup := by
  induction l with
  | nil => exact List.nodup_nil
  | cons a l ih =>
    rw [List.map_cons, List.nodup_cons] at h
    rw [List.nodup_cons]
    exact ⟨fun hm => h.1 (List.mem_map_of_mem hm), ih h.2⟩

theorem WF.nodup {H : Heap} (hw : WF H) : H.Nodup :=
  nodup_of_map_nodup (fun o : Obj => o.id) (by unfold WF ids at hw; exact hw)

theorem reach_collect {G : Heap} (hG : WF G) (hc : Clean G) (j : Nat) :
    Reach (collect G) j ↔ Reach G j := by
  constructor
  · intro h
    induction h with
    | @root o ho hroot => exact Reach.root ((collect_exact hG hc o).mp ho).1 hroot
    | @step o j ho _ hj hjc ih =>
      obtain ⟨p, hp, hpid⟩ := mem_ids.mp hjc
      exact Reach.step ((collect_exact hG hc o).mp ho).1 ih hj
        (mem_ids.mpr ⟨p, ((collect_exact hG hc p).mp hp).1, hpid⟩)
  · intro h
    induction h with
    | @root o ho hroot =>
      exact Reach.root ((collect_exact hG hc o).mpr ⟨ho, Reach.root ho hroot⟩) hroot
    | @step o j ho hr hj hjG ih =>
      obtain ⟨p, hp, hpid⟩ := mem_ids.mp hjG
      have hrj : Reach G j := Reach.step ho hr hj hjG
      have hpc : p ∈ collect G := (collect_exact hG hc p).mpr ⟨hp, by rw [hpid]; exact hrj⟩
      exact Reach.step ((collect_exact hG hc o).mpr ⟨ho, hr⟩) ih hj (mem_ids.mpr ⟨p, hpc, hpid⟩)

theorem collect_idempotent {G : Heap} (hG : WF G) (hc : Clean G) :
    (∀ o, o ∈ collect (collect G) ↔ o ∈ collect G) ∧
    (collect (collect G)).length = (collect G).length := by
  have hw1 := collect_wf hG hc
  have hc1 := collect_clean G
  have hmem : ∀ o, o ∈ collect (collect G) ↔ o ∈ collect G := by
    intro o
    rw [collect_exact hw1 hc1 o]
    constructor
    · exact fun h => h.1
    · intro h
      exact ⟨h, (reach_collect hG hc o.id).mpr ((collect_exact hG hc o).mp h).2⟩
  refine ⟨hmem, ?_⟩
  have hw2 := collect_wf hw1 hc1
  exact ((List.perm_ext_iff_of_nodup hw2.nodup hw1.nodup).mpr hmem).length_eq

theorem collect_no_roots {G : Heap} (hG : WF G) (hc : Clean G)
    (h : ∀ o ∈ G, o.ext = 0 ∧ o.views = 0) : collect G = [] := by
  have hno : ∀ j, ¬ Reach G j := by
    intro j hr
    induction hr with
    | @root o ho hroot =>
      have := h o ho
      unfold IsRoot at hroot; omega
    | step _ _ _ _ ih => exact ih
  apply List.eq_nil_iff_forall_not_mem.mpr
  intro o ho
  exact hno _ ((collect_exact hG hc o).mp ho).2

theorem reach_mono_append {B N : Heap} {j : Nat} (h : Reach B j) : Reach (B ++ N) j := by
  induction h with
  | root ho hroot => exact Reach.root (List.mem_append_left _ ho) hroot
  | step ho _ hj hjB ih =>
    exact Reach.step (List.mem_append_left _ ho) ih hj
      (by rw [ids_append]; exact List.mem_append_left _ hjB)

theorem baseline_returns {B N : Heap} (hG : WF (B ++ N)) (hc : Clean (B ++ N))
    (hlive : ∀ o ∈ B, Reach B o.id)
    (hdropped : ∀ o ∈ N, ¬ IsRoot o)
    (hnolink : ∀ o ∈ B, ∀ j ∈ o.edges, j ∉ ids N) :
    (∀ o, o ∈ collect (B ++ N) ↔ o ∈ B) ∧ (collect (B ++ N)).length = B.length := by
  have hdisj : ∀ a ∈ ids B, ∀ b ∈ ids N, a ≠ b := by
    have := hG; unfold WF at this; rw [ids_append, List.nodup_append] at this; exact this.2.2
  have hinB : ∀ o ∈ B ++ N, o.id ∈ ids B → o ∈ B := by
    intro o ho hid
    rcases List.mem_append.mp ho with h | h
    · exact h
    · exact absurd rfl (hdisj _ hid _ (mem_ids_of_mem h))
  have hreachB : ∀ j, Reach (B ++ N) j → j ∈ ids B := by
    intro j hr
    induction hr with
    | @root o ho hroot =>
      rcases List.mem_append.mp ho with h | h
      · exact mem_ids_of_mem h
      · exact absurd hroot (hdropped o h)
    | @step o j ho _ hj hjG ih =>
      have hoB : o ∈ B := hinB o ho ih
      rw [ids_append] at hjG
      rcases List.mem_append.mp hjG with h | h
      · exact h
      · exact absurd h (hnolink o hoB j hj)
  have hmem : ∀ o, o ∈ collect (B ++ N) ↔ o ∈ B := by
    intro o
    rw [collect_exact hG hc o]
    constructor
    · rintro ⟨ho, hr⟩; exact hinB o ho (hreachB _ hr)
    · intro ho; exact ⟨List.mem_append_left _ ho, reach_mono_append (hlive o ho)⟩
  refine ⟨hmem, ?_⟩
  have hB : B.Nodup := (WF.sublist (List.sublist_append_left B N) hG).nodup
  exact ((List.perm_ext_iff_of_nodup (collect_wf hG hc).nodup hB).mpr hmem).length_eq

/-- Example heap for the non-vacuity checks in `RsjProps/C03.lean`: a live 2-cycle (one outside
    handle) with a garbage 2-cycle hanging on it. -/
def exampleHeap : Heap :=
  [{ id := 0, edges := [1], views := 0, ext := 1, visits := 0, mark := false },
   { id := 1, edges := [0], views := 0, ext := 0, visits := 0, mark := false },
   { id := 2, edges := [3], views := 0, ext := 0, visits := 0, mark := false },
   { id := 3, edges := [2, 0], views := 0, ext := 0, visits := 0, mark := false }]

end Rsj.Gc
