import RsjProofs.EvalScopeHoare
import RsjProofs.EvalScopeObj
/-!
  C09, run-time half: the object primitives (`init_object_env`, `get_object_layer_env`,
  `find_object_field_thunk`, `add_object_field`).
-/
open Std.Do
set_option mvcgen.warning false
namespace Rsj.Eval.Scope
open Rsj.Core Rsj.Eval Rsj.Analyze

/-! ### `init_object_env` -/

/-- `init_object_env` once the layer and the base environment have been read -/
def initRest (o : OId) (layerI : Nat) (baseEnv : EId) (layer : Layer) (base : Env) : M EId := do
  let env ← allocEnv { parent := some baseEnv, vars := [], obj := base.obj }
  let mut vars : List (String × TId) := []
  for (n, e) in layer.locals do
    let t ← newThunk e env
    vars := vars ++ [(n, t)]
  let top ← if layer.isTop then pure o else
    match base.obj with
    | some r => pure r.top
    | none => throw (.internal "get_top_object on an environment without object")
  setEnv env { parent := some baseEnv, vars := vars, obj := some { obj := o, layer := layerI, top := top } }
  pure env

theorem initObjectEnv_eq (o : OId) (li : Nat) (b : EId) : initObjectEnv o li b = (do
    let ob ← getObj o
    let some layer := ob.layers[li]? | throw (.internal "bad layer index")
    let base ← getEnv b
    initRest o li b layer base) := by
  unfold initObjectEnv initRest; rfl

theorem initRest_close {s st : St} {b : EId} {base : Env} {layer : Layer} {Γb : AEnv}
    {vars : List (String × TId)} (oref : ObjRef)
    (hI : Inv s) (hb : s.envs[b]? = some base) (hΓb : EnvOk s.envs b Γb)
    (hext : Ext s.envs.size (fun e => WS e (objEnv Γb (layer.locals.map Prod.fst)))
      { s with envs := s.envs.push { parent := some b, vars := [], obj := base.obj } } st)
    (hvars : vars.map Prod.fst = layer.locals.map Prod.fst) :
    S s { st with envs := st.envs.setIfInBounds s.envs.size { parent := some b, vars := vars, obj := some oref } } ∧
    Inv { st with envs := st.envs.setIfInBounds s.envs.size { parent := some b, vars := vars, obj := some oref } } ∧
    ∀ Γb', EnvOk (st.envs.setIfInBounds s.envs.size { parent := some b, vars := vars, obj := some oref }) b Γb' →
      EnvOk (st.envs.setIfInBounds s.envs.size { parent := some b, vars := vars, obj := some oref }) s.envs.size
        (objEnv Γb' (layer.locals.map Prod.fst)) := by
  have hv : ∀ (fin : Env) (n : String), n ∈ (({ parent := some b, vars := [], obj := base.obj } : Env).vars).map Prod.fst → n ∈ fin.vars.map Prod.fst :=
    fun _ n hn => by simp at hn
  have hp : ({ parent := some b, vars := [], obj := base.obj } : Env).parent = none ∨
      ({ parent := some b, vars := [], obj := base.obj } : Env).parent =
        ({ parent := some b, vars := vars, obj := some oref } : Env).parent := .inr rfl
  have ho : ({ parent := some b, vars := [], obj := base.obj } : Env).obj.isSome = true →
      ({ parent := some b, vars := vars, obj := some oref } : Env).obj.isSome = true := fun _ => rfl
  have hchild : ∀ Γb', EnvOk (st.envs.setIfInBounds s.envs.size { parent := some b, vars := vars, obj := some oref }) b Γb' →
      EnvOk (st.envs.setIfInBounds s.envs.size { parent := some b, vars := vars, obj := some oref }) s.envs.size
        (objEnv Γb' (layer.locals.map Prod.fst)) := by
    intro Γb' hk
    refine envOk_objChild (block_getElem hext) rfl rfl hk ?_
    intro n hn
    rw [has_objEnv] at hn
    rw [hvars]
    exact hn
  obtain ⟨h1, h2⟩ := close_block hext (hv _) hp ho hI (by intro p hp'; cases hp'; exact lt_size_of_getElem? hb)
    (fun e he => he) (hchild Γb (block_envOk hext (hv _) hp ho hΓb))
  exact ⟨h1, h2, hchild⟩

theorem initRest_spec (s : St) (o : OId) (li : Nat) (b : EId) (layer : Layer) (base : Env) (hI : Inv s)
    (hb : s.envs[b]? = some base) (hinit : InitOk (EnvOk s.envs) layer b (fun _ => True)) :
    ⦃fun st => ⌜st = s⌝⦄ initRest o li b layer base
      ⦃Q s (fun r st => ∀ Γb, EnvOk st.envs b Γb → EnvOk st.envs r (objEnv Γb (layer.locals.map Prod.fst)))⦄ := by
  obtain ⟨Γb, hΓb, htop, hloc, _⟩ := hinit
  have h1 := allocEnv_exact
  have h2 := setEnv_exact
  have h3 := newThunk_ext (fun e => WS e (objEnv Γb (layer.locals.map Prod.fst)))
  unfold initRest
  mvcgen [h1, h2, h3]
  case inv1 =>
    exact ⟨fun (cur, vars) st => ⌜Ext s.envs.size (fun e => WS e (objEnv Γb (layer.locals.map Prod.fst)))
        { s with envs := s.envs.push { parent := some b, vars := [], obj := base.obj } } st ∧
        vars.map Prod.fst = cur.prefix.map Prod.fst⌝,
      fun e _ => ⌜Good e ∧ ¬ NonPanic e⌝, fun _ => ⌜True⌝, ()⟩
  all_goals clear h1 h2 h3
  all_goals vcprep
  · exact hloc _ (by rw [‹layer.locals = _›]; simp)
  · exact ⟨by xchain, by simp [*]⟩
  · sclose
  · exact ⟨Ext.refl _ _ _, rfl⟩
  · exact initRest_close _ hI hb hΓb (by assumption) (by assumption)
  · exact initRest_close _ hI hb hΓb (by assumption) (by assumption)
  · exfalso
    obtain ⟨env, g1, g2⟩ := (htop (by simpa using ‹¬layer.isTop = true›)).obj rfl
    rw [hb] at g1; cases g1
    simp_all
  · econds
    sclose

/-- `init_object_env`: the new environment has the object view of its base -/
theorem initObjectEnv_spec (s : St) (o : OId) (li : Nat) (b : EId) (hI : Inv s)
    (hpre : ∀ ob layer, s.objs[o]? = some ob → ob.layers[li]? = some layer →
      InitOk (EnvOk s.envs) layer b (fun _ => True))
    (hli : ∀ ob, s.objs[o]? = some ob → ∃ layer, ob.layers[li]? = some layer) :
    ⦃fun st => ⌜st = s⌝⦄ initObjectEnv o li b
      ⦃Q s (fun r st => ∀ ob layer, s.objs[o]? = some ob → ob.layers[li]? = some layer →
        ∀ Γb, EnvOk st.envs b Γb → EnvOk st.envs r (objEnv Γb (layer.locals.map Prod.fst)))⦄ := by
  have h1 := getObj_spec
  have h2 := getEnv_spec
  have h3 := initRest_spec
  rw [initObjectEnv_eq]
  mvcgen [h1, h2, h3]
  all_goals clear h1 h2 h3
  all_goals vcprep
  all_goals first
    | sclose
    | (refine ⟨by assumption, by assumption, ?_⟩
       intro ob layer h1 h2
       grind)
    | exact hpre _ _ (by assumption) (by assumption)
    | (obtain ⟨Γb, hk, _⟩ := hpre _ _ (by assumption) (by assumption); exact hk.inRange)
    | (exfalso
       obtain ⟨layer, hl⟩ := hli _ (by assumption)
       rename_i hn
       exact hn layer hl)

/-! ### `get_object_layer_env` -/

theorem mem_of_getElem? {α} {l : List α} {i : Nat} {x : α} (h : l[i]? = some x) : x ∈ l :=
  List.mem_of_getElem? h

theorem layerEnv_close {s s1 : St} {o li : Nat} {ob ob1 : Obj} {layer : Layer} {b e : EId}
    (hS : S s s1) (hI : Inv s)
    (hob : s.objs[o]? = some ob) (hl : ob.layers[li]? = some layer) (hbase : layer.baseEnv = some b)
    (hob1 : s1.objs[o]? = some ob1)
    (henv : ∀ ob layer, s.objs[o]? = some ob → ob.layers[li]? = some layer →
      ∀ Γb, EnvOk s1.envs b Γb → EnvOk s1.envs e (objEnv Γb (layer.locals.map Prod.fst)))
    (hI1 : Inv s1) :
    (∀ l ∈ ({ ob1 with layers := ob1.layers.set li { layer with env := some e } } : Obj).layers,
      LayerOk (EnvOk s1.envs) l ∧ LayerShape l) ∧
    (∀ old, s1.objs[o]? = some old →
      ({ ob1 with layers := ob1.layers.set li { layer with env := some e } } : Obj).layers.map staticLayer =
        old.layers.map staticLayer) ∧
    (ob1.layers.set li { layer with env := some e })[li]? = some { layer with env := some e } := by
  obtain ⟨ob1', g1, g2⟩ := hS.objs o ob hob
  rw [hob1] at g1; cases g1
  obtain ⟨y', hy1, hy2⟩ := getElem?_of_map_static g2 hl
  have L1 : LayerOk (EnvOk s1.envs) layer :=
    (hI.g.objs o ob hob layer (mem_of_getElem? hl)).mono hS.env
  have Lnew : LayerOk (EnvOk s1.envs) { layer with env := some e } := by
    refine ⟨L1.1, L1.2.1, ?_⟩
    intro e' he'
    cases he'
    obtain ⟨Γb, k1, k2, k3, k4⟩ := L1.1 b hbase
    exact ⟨_, henv ob layer hob hl Γb k1, rfl, k4⟩
  refine ⟨?_, ?_, ?_⟩
  · intro l hl'
    rcases List.mem_or_eq_of_mem_set hl' with h | rfl
    · exact ⟨hI1.g.objs o ob1 hob1 l h, hI1.shape o ob1 hob1 l h⟩
    · exact ⟨Lnew, (hI.shape o ob hob layer (mem_of_getElem? hl)).setEnv _⟩
  · intro old hold
    rw [hob1] at hold; cases hold
    exact map_static_set hy1 (hy2 ▸ rfl)
  · have hlt : li < ob1.layers.length := by
      rcases Nat.lt_or_ge li ob1.layers.length with h | h
      · exact h
      · simp [List.getElem?_eq_none h] at hy1
    simp [hlt]

/-- `get_object_layer_env`: afterwards the layer carries the environment that is returned -/
theorem layerEnv_spec (s : St) (o : OId) (li : Nat) (hI : Inv s)
    (hli : ∀ ob, s.objs[o]? = some ob → ∃ layer, ob.layers[li]? = some layer)
    (hbase : ∀ ob layer, s.objs[o]? = some ob → ob.layers[li]? = some layer → layer.env = none →
      layer.baseEnv.isSome = true) :
    ⦃fun st => ⌜st = s⌝⦄ layerEnv o li
      ⦃Q s (fun r st => ∃ ob layer, st.objs[o]? = some ob ∧ ob.layers[li]? = some layer ∧ layer.env = some r)⦄ := by
  have h1 := getObj_spec
  have h3 := initObjectEnv_spec
  have h4 := setObj_spec
  unfold layerEnv
  mvcgen [h1, h3, h4]
  all_goals clear h1 h3 h4
  all_goals vcprep
  all_goals first
    | sclose
    | exact ⟨S.refl _, hI, _, _, by assumption, by assumption, by assumption⟩
    | (rename_i ob layer ho hl hr
       rw [hr] at ho; cases ho
       rename_i r layer0 hl0 _ _ _ _
       rw [hl0] at hl; cases hl
       exact ((hI.g.objs o _ hr _ (mem_of_getElem? hl0)).1 _ (by assumption)).weaken (fun _ _ => trivial))
    | (rename_i ob ho hr
       rw [hr] at ho; cases ho
       exact ⟨_, by assumption⟩)
    | exact (layerEnv_close (by assumption) hI (by assumption) (by assumption) (by assumption) (by assumption)
        (by assumption) (by assumption)).1 _ (by assumption)
    | exact (layerEnv_close (by assumption) hI (by assumption) (by assumption) (by assumption) (by assumption)
        (by assumption) (by assumption)).2.1 _ (by assumption)
    | (rename_i hset _ _ _ _ _
       have hc := (layerEnv_close (by assumption) hI (by assumption) (by assumption) (by assumption) (by assumption)
         (by assumption) (by assumption)).2.2
       exact ⟨by schain, by assumption, _, _, hset _ (by assumption), hc, rfl⟩)
    | (exfalso
       obtain ⟨layer, hl⟩ := hli _ (by assumption)
       rename_i hn
       exact hn layer hl)
    | (exfalso
       have := hbase _ _ (by assumption) (by assumption) (by assumption)
       rename_i hn
       obtain ⟨b, hb⟩ := Option.isSome_iff_exists.1 this
       exact hn b hb)

/-! ### `find_object_field_thunk` -/

/-- the environment made by `init_object_env` for a field with a base environment of its own
    types the field's expression -/
theorem fieldThunk_typing_base {s s1 : St} {o li : Nat} {ob : Obj} {start : Nat} {name : String} {f : Field}
    {b env : EId} {e : Expr} {plus : Bool}
    (hfind : findField ob start name = some (li, f)) (hob : s.objs[o]? = some ob) (hS : S s s1) (hI : Inv s)
    (hb : f.baseEnv = some b) (he : f.expr = some (e, plus))
    (henv : ∀ ob layer, s.objs[o]? = some ob → ob.layers[li]? = some layer →
      ∀ Γb, EnvOk s1.envs b Γb → EnvOk s1.envs env (objEnv Γb (layer.locals.map Prod.fst))) :
    TStateOk (EnvOk s1.envs) (.pending (.plus e name env)) ∧ TStateOk (EnvOk s1.envs) (.pending (.expr e env)) := by
  obtain ⟨layer, hl, hf⟩ := findField_some hfind
  obtain ⟨Γb, k1, _, _, k4⟩ := (hI.g.objs o ob hob layer (mem_of_getElem? hl)).2.1 f hf b hb
  exact ⟨⟨_, henv ob layer hob hl Γb (hS.env _ _ k1), rfl, k4 (e, plus) he⟩,
    ⟨_, henv ob layer hob hl Γb (hS.env _ _ k1), k4 (e, plus) he⟩⟩

theorem fieldThunk_pre_base {s : St} {o li : Nat} {ob : Obj} {start : Nat} {name : String} {f : Field}
    {b : EId} (hfind : findField ob start name = some (li, f)) (hob : s.objs[o]? = some ob) (hI : Inv s)
    (hb : f.baseEnv = some b) {ob' : Obj} {layer' : Layer} (h2 : ob'.layers[li]? = some layer')
    (h1 : s.objs[o]? = some ob') : InitOk (EnvOk s.envs) layer' b (fun _ => True) := by
  rw [hob] at h1; cases h1
  obtain ⟨layer, hl, hf⟩ := findField_some hfind
  obtain rfl : layer = layer' := by rw [hl] at h2; exact Option.some.inj h2
  exact ((hI.g.objs o ob hob layer (mem_of_getElem? hl)).2.1 f hf b hb).weaken (fun _ _ => trivial)

/-- the layer environment types the expression of a field without a base environment of its own -/
theorem fieldThunk_typing_layer {s s1 : St} {o li : Nat} {ob : Obj} {start : Nat} {name : String} {f : Field}
    {env : EId} {e : Expr} {plus : Bool}
    (hfind : findField ob start name = some (li, f)) (hob : s.objs[o]? = some ob) (hS : S s s1)
    (hb : f.baseEnv = none) (he : f.expr = some (e, plus)) (hI1 : Inv s1)
    (hpost : ∃ ob1 layer1, s1.objs[o]? = some ob1 ∧ ob1.layers[li]? = some layer1 ∧ layer1.env = some env) :
    TStateOk (EnvOk s1.envs) (.pending (.plus e name env)) ∧ TStateOk (EnvOk s1.envs) (.pending (.expr e env)) := by
  obtain ⟨layer, hl, hf⟩ := findField_some hfind
  obtain ⟨ob1, layer1, g1, g2, g3⟩ := hpost
  obtain ⟨ob1', k1, k2⟩ := hS.objs o ob hob
  rw [g1] at k1; cases k1
  obtain ⟨y', hy1, hy2⟩ := getElem?_of_map_static k2 hl
  rw [g2] at hy1; cases hy1
  obtain ⟨Γ, m1, m2, m3⟩ := (hI1.g.objs o ob1 g1 layer1 (mem_of_getElem? g2)).2.2 env g3
  obtain ⟨_, _, _, _, h5⟩ := staticLayer_eq hy2
  obtain ⟨f1, hf1, q1, q2⟩ := field_twin h5.symm hf
  exact ⟨⟨Γ, m1, m2, m3.2 f1 hf1 (q1 ▸ hb) (e, plus) (q2 ▸ he)⟩, ⟨Γ, m1, m3.2 f1 hf1 (q1 ▸ hb) (e, plus) (q2 ▸ he)⟩⟩

/-- caching a thunk in a field keeps the object well scoped and its static part -/
theorem fieldThunk_close {s2 : St} {o li : Nat} {ob2 : Obj} {layer2 : Layer}
    (hl2 : ob2.layers[li]? = some layer2) (hob2 : s2.objs[o]? = some ob2) (hI2 : Inv s2) (g : Field → Field)
    (hg : ∀ f, staticField (g f) = staticField f)
    (hg2 : ∀ f, (g f).baseEnv = f.baseEnv ∧ (g f).expr = f.expr ∧ ((g f).thunk = none → f.thunk = none)) :
    (∀ l ∈ ({ ob2 with layers := ob2.layers.set li { layer2 with fields := layer2.fields.map g } } : Obj).layers,
      LayerOk (EnvOk s2.envs) l ∧ LayerShape l) ∧
    (∀ old, s2.objs[o]? = some old →
      ({ ob2 with layers := ob2.layers.set li { layer2 with fields := layer2.fields.map g } } : Obj).layers.map
        staticLayer = old.layers.map staticLayer) := by
  have hst : staticLayer { layer2 with fields := layer2.fields.map g } = staticLayer layer2 := by
    simp only [staticLayer, List.map_map]
    congr 1
    apply List.map_congr_left
    intro f _
    exact hg f
  refine ⟨?_, ?_⟩
  · intro l hl'
    rcases List.mem_or_eq_of_mem_set hl' with h | rfl
    · exact ⟨hI2.g.objs o ob2 hob2 l h, hI2.shape o ob2 hob2 l h⟩
    · exact ⟨LayerOk_of_static hst (fun e he => he) (hI2.g.objs o ob2 hob2 layer2 (mem_of_getElem? hl2)),
        (hI2.shape o ob2 hob2 layer2 (mem_of_getElem? hl2)).mapFields g hg2⟩
  · intro old hold
    rw [hob2] at hold; cases hold
    exact map_static_set hl2 hst

theorem fieldThunk_close_mem {s2 : St} {o li : Nat} {ob2 : Obj} {layer2 : Layer} {g : Field → Field}
    {l : Layer} (hmem : l ∈ ob2.layers.set li { layer2 with fields := layer2.fields.map g })
    (hl2 : ob2.layers[li]? = some layer2) (hob2 : s2.objs[o]? = some ob2) (hI2 : Inv s2)
    (hg : ∀ f, staticField (g f) = staticField f)
    (hg2 : ∀ f, (g f).baseEnv = f.baseEnv ∧ (g f).expr = f.expr ∧ ((g f).thunk = none → f.thunk = none)) :
    LayerOk (EnvOk s2.envs) l ∧ LayerShape l :=
  (fieldThunk_close hl2 hob2 hI2 g hg hg2).1 l hmem

theorem fieldThunk_close_static {s2 : St} {o li : Nat} {ob2 : Obj} {layer2 : Layer}
    (hl2 : ob2.layers[li]? = some layer2) (hob2 : s2.objs[o]? = some ob2) (hI2 : Inv s2) {g : Field → Field}
    {old : Obj} (hold : s2.objs[o]? = some old)
    (hg : ∀ f, staticField (g f) = staticField f) :
    (ob2.layers.set li { layer2 with fields := layer2.fields.map g }).map staticLayer =
      old.layers.map staticLayer := by
  have hst : staticLayer { layer2 with fields := layer2.fields.map g } = staticLayer layer2 := by
    simp only [staticLayer, List.map_map]
    congr 1
    apply List.map_congr_left
    intro f _
    exact hg f
  rw [hob2] at hold; cases hold
  exact map_static_set hl2 hst

/-- the layer index returned by `find_field` is valid, also in later stores -/
theorem fieldThunk_li {s s2 : St} {o li : Nat} {ob ob2 : Obj} {start : Nat} {name : String} {f : Field}
    (hfind : findField ob start name = some (li, f)) (hob : s.objs[o]? = some ob) (hS : S s s2)
    (hob2 : s2.objs[o]? = some ob2) : ∃ layer, ob2.layers[li]? = some layer := by
  obtain ⟨layer, hl, _⟩ := findField_some hfind
  obtain ⟨ob', k1, k2⟩ := hS.objs o ob hob
  rw [hob2] at k1; cases k1
  obtain ⟨y', hy1, _⟩ := getElem?_of_map_static k2 hl
  exact ⟨y', hy1⟩

theorem fieldThunk_li_false {s s2 : St} {o li : Nat} {ob ob2 : Obj} {start : Nat} {name : String} {f : Field}
    (hfind : findField ob start name = some (li, f))
    (hn : ∀ layer, ob2.layers[li]? = some layer → False) (hob2 : s2.objs[o]? = some ob2)
    (hob : s.objs[o]? = some ob) (hS : S s s2) : False := by
  obtain ⟨l, hl⟩ := fieldThunk_li hfind hob hS hob2
  exact hn l hl

/-- a field without an environment of its own sits in a layer with a base environment -/
theorem fieldThunk_base {s : St} {o li : Nat} {ob : Obj} {start : Nat} {name : String} {f : Field}
    (hfind : findField ob start name = some (li, f)) (hob : s.objs[o]? = some ob) (hI : Inv s)
    (hb : f.baseEnv = none) {ep : Expr × Bool} (he : f.expr = some ep) {ob' : Obj} {layer' : Layer}
    (h2 : ob'.layers[li]? = some layer') (h1 : s.objs[o]? = some ob') : layer'.baseEnv.isSome = true := by
  rw [hob] at h1; cases h1
  obtain ⟨layer, hl, hf⟩ := findField_some hfind
  obtain rfl : layer = layer' := by rw [hl] at h2; exact Option.some.inj h2
  exact (hI.shape o ob hob layer (mem_of_getElem? hl)).fieldBase f hf hb (by rw [he]; rfl)

/-- a field without thunk has an expression -/
theorem fieldThunk_expr {s : St} {o li : Nat} {ob : Obj} {start : Nat} {name : String} {f : Field}
    (hfind : findField ob start name = some (li, f)) (hob : s.objs[o]? = some ob) (hI : Inv s)
    (ht : f.thunk = none) : ∃ ep, f.expr = some ep := by
  obtain ⟨layer, hl, hf⟩ := findField_some hfind
  exact Option.isSome_iff_exists.1 ((hI.shape o ob hob layer (mem_of_getElem? hl)).fieldExpr f hf ht)

theorem fieldThunk_spec (s : St) (o : OId) (start : Nat) (name : String) (hI : Inv s) :
    ⦃fun st => ⌜st = s⌝⦄ fieldThunk o start name
      ⦃Q s (fun r _ => ∀ ob, s.objs[o]? = some ob → (findField ob start name).isSome = true →
        r.isSome = true)⦄ := by
  have h1 := getObj_spec
  have h2 := initObjectEnv_spec
  have h3 := layerEnv_spec
  have h4 := setObj_spec
  have h5 := allocThunk_spec
  unfold fieldThunk
  mvcgen [h1, h2, h3, h4, h5]
  all_goals clear h1 h2 h3 h4 h5
  all_goals vcprep
  all_goals first
    | sclose
    | exact fieldThunk_pre_base (by assumption) (by assumption) hI (by assumption) (by assumption) (by assumption)
    | exact (fieldThunk_typing_base (by assumption) (by assumption) (by assumption) hI
          (by assumption) (by assumption) (by assumption)).1
    | exact (fieldThunk_typing_base (by assumption) (by assumption) (by assumption) hI
          (by assumption) (by assumption) (by assumption)).2
    | exact (fieldThunk_typing_layer (by assumption) (by assumption) (by assumption)
          (by assumption) (by assumption) (by assumption) ⟨_, _, by assumption, by assumption, by assumption⟩).1
    | exact (fieldThunk_typing_layer (by assumption) (by assumption) (by assumption)
          (by assumption) (by assumption) (by assumption) ⟨_, _, by assumption, by assumption, by assumption⟩).2
    | exact fieldThunk_close_mem (by assumption) (by assumption) (by assumption) (by assumption)
        (by intro f; simp only [staticField]; split <;> rfl)
        (by intro f; split <;> simp)
    | exact fieldThunk_close_static (by assumption) (by assumption) (by assumption) (by assumption)
        (by intro f; simp only [staticField]; split <;> rfl)
    | (refine ⟨by schain, by assumption, fun _ _ _ => rfl⟩)
    | (refine ⟨S.refl _, hI, ?_⟩
       intro ob hob hs
       grind)
    | exact fieldThunk_li (by assumption) (by assumption) (S.refl _) (by assumption)
    | exact fieldThunk_base (by assumption) (by assumption) hI (by assumption) (by assumption) (by assumption)
        (by assumption)
    | (exfalso
       obtain ⟨ep, hep⟩ := fieldThunk_expr (by assumption) (by assumption) hI (by assumption)
       rename_i hn
       exact hn ep.1 ep.2 hep)
    | (exfalso
       exact fieldThunk_li_false (by assumption) (by assumption) (by assumption) (by assumption) (by schain))

/-! ### `add_object_field` -/

/-- what `addField` appends: a field with the given base environment whose expression, if it keeps
    one, is the given one -/
def AddedField (value : Expr) (baseEnv : Option EId) (layer r : Layer) : Prop :=
  ∃ f : Field, r = { layer with fields := layer.fields ++ [f] } ∧ f.baseEnv = baseEnv ∧
    (∀ ep, f.expr = some ep → ep.1 = value) ∧ (f.thunk = none → f.expr.isSome = true)

theorem addField_spec (s : St) (layer : Layer) (name : String) (plus : Bool) (vis : Vis) (value : Expr)
    (baseEnv : Option EId) (hI : Inv s) :
    ⦃fun st => ⌜st = s⌝⦄ addField layer name plus vis value baseEnv
      ⦃Q s (fun r _ => AddedField value baseEnv layer r)⦄ := by
  have h5 := allocThunk_spec
  unfold addField
  mvcgen [h5]
  all_goals clear h5
  all_goals vcprep
  all_goals first
    | sclose
    | exact ⟨S.refl _, hI, _, rfl, rfl, (by intro ep h; cases h; rfl), fun _ => rfl⟩
    | exact ⟨S.refl _, hI, _, rfl, rfl, (by intro ep h; cases h), fun h => by cases h⟩
    | exact ⟨by schain, by assumption, _, rfl, rfl, (by intro ep h; cases h), fun h => by cases h⟩

end Rsj.Eval.Scope
