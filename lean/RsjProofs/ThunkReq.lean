/-
  Request-level lemmas for C04: run counters, irrelevance of unused thunks,
  trace frame, alias and dead thunks, the emitted-trace equations.
-/
import RsjProofs.ThunkSim
import RsjProofs.ThunkAlias
import RsjProofs.ThunkHistory
namespace Rsj.Thunk

/-- The run counter of thunk `u` as a number. -/
def St.runsOf (s : St) (u : Nat) : Nat := (s.rn u).getD 0

/-- Replace the computation of thunk `t`. -/
def Code.set (c : Code) (t : Nat) (p : Prog) : Code := fun u => if u = t then p else c u

theorem agreeExcept_set (c : Code) (t : Nat) (p : Prog) : AgreeExcept c (c.set t p) t := by
  intro u hu; simp [Code.set, hu]

/-- One request: every run counter grows by at most one, and only for a thunk
    that was pending. -/
theorem evalReq_runs (c : Code) (limit t : Nat) (s : St) (u : Nat) :
    (evalReq c limit t s).2.rn u = s.rn u ∨
      (s.st u = some .pending ∧ (evalReq c limit t s).2.rn u = (s.rn u).map (· + 1)) := by
  have hm := force_mono_st c limit t s
  have key : (force c limit t s).2.rn u = s.rn u ∨
      (s.st u = some .pending ∧ (force c limit t s).2.rn u = (s.rn u).map (· + 1)) := by
    by_cases hu : s.st u = some .pending
    · rcases hm.pend u hu with ⟨_, r⟩ | ⟨_, r⟩
      · exact .inl r
      · exact .inr ⟨hu, r⟩
    · exact .inl (hm.frozen u hu).2
  unfold evalReq
  rcases res_cases (force c limit t s) with ⟨v, s1, e⟩ | ⟨e', s1, e⟩ <;> rw [e] at key ⊢ <;> exact key

theorem evalReq_unused {c c' : Code} {t k limit u : Nat} {s : St} (hc : AgreeExcept c c' t)
    (h1 : s.rn t = some k) (h2 : (evalReq c limit u s).2.rn t = some k) :
    evalReq c' limit u s = evalReq c limit u s := by
  unfold evalReq at *
  rcases res_cases (force c limit u s) with ⟨v, s1, e⟩ | ⟨e', s1, e⟩
  · rw [e] at h2 ⊢
    rw [force_unused hc limit u s _ _ e h1 h2]
  · rw [e] at h2 ⊢
    rw [force_unused hc limit u s _ _ e h1 (by simpa using h2)]

theorem restore_retrace (s : St) (l : List Nat) : restore (s.retrace l) = (restore s).retrace l := rfl

theorem evalReq_frame (c : Code) (limit t : Nat) (s : St) :
    ∃ d, (evalReq c limit t s).2.traces = s.traces ++ d ∧
      ∀ l, evalReq c limit t (s.retrace l) =
        ((evalReq c limit t s).1, (evalReq c limit t s).2.retrace (l ++ d)) := by
  unfold evalReq
  rcases res_cases (force c limit t s) with ⟨v, s1, e⟩ | ⟨e', s1, e⟩
  · obtain ⟨d, hd, hl⟩ := force_frame c limit t s _ _ e
    exact ⟨d, by rw [e]; exact hd, fun l => by rw [hl l, e]; rfl⟩
  · obtain ⟨d, hd, hl⟩ := force_frame c limit t s _ _ e
    exact ⟨d, by rw [e]; exact hd, fun l => by rw [hl l, e]; rfl⟩

theorem restore_extend (s : St) (x : TState) (r : Nat) :
    restore (s.extend x r) = (restore s).extend (unmark x) r := by
  simp [restore, St.extend]

theorem Ali.restore {t n : Nat} {s sp : St} (h : Ali t n s sp) : Ali t n (restore s) (restore sp) := by
  obtain ⟨x, r, e, hx⟩ := h.ex
  subst e
  refine ⟨by simpa using h.len, h.wf, unmark x, r, restore_extend s x r, ?_⟩
  rcases hx with hx | ⟨hx, _⟩ | ⟨v, hx, h2⟩
  · subst hx; exact .inl rfl
  · subst hx; exact .inl rfl
  · subst hx; exact .inr (.inr ⟨v, rfl, by rw [st_restore, h2]; rfl⟩)

theorem evalReq_alias {c c' : Code} {t n : Nat} (ht : t < n) (hcn : c' n = .force t .ret)
    (hred : ∀ u, u ≠ n → Redir t n (c u) (c' u)) {limit u : Nat} {s sp : St} (hu : u ≠ n)
    (ha : Ali t n s sp) (hq : sp.st n ≠ some .inProgress)
    (hr : (evalReq c limit u s).1 ≠ .error .stackOverflow) :
    ∀ l, limit + 1 ≤ l → (evalReq c' l u sp).1 = (evalReq c limit u s).1 ∧
      Ali t n (evalReq c limit u s).2 (evalReq c' l u sp).2 := by
  unfold evalReq at *
  obtain ⟨hfs, _⟩ := alias_sim ht hcn hred limit
  have hh : HR n sp limit (limit + 1) := ⟨fun h => absurd h hq, fun _ => rfl⟩
  intro l hl
  rcases res_cases (force c limit u s) with ⟨v, s1, e⟩ | ⟨e', s1, e⟩
  · obtain ⟨sp', f, ha'⟩ := hfs u s sp _ _ _ hu ha hh e (by simp)
    rw [force_mono_le f (by simp) hl, e]; exact ⟨rfl, ha'⟩
  · rw [e] at hr
    have hne : (Except.error e' : Outcome) ≠ .error .stackOverflow := by simpa using hr
    obtain ⟨sp', f, ha'⟩ := hfs u s sp _ _ _ hu ha hh e hne
    rw [force_mono_le f hne hl, e]; exact ⟨rfl, ha'.restore⟩

theorem evalReq_dead {c c' : Code} {n : Nat} (hc : ∀ u, u ≠ n → c' u = c u)
    (hno : ∀ u, u ≠ n → NoRef n (c u)) {limit u : Nat} {s : St} {x : TState} (r0 : Nat) (hu : u ≠ n)
    (hx : x ≠ .inProgress) (h1 : s.states.length = n) (h2 : s.runs.length = n) :
    evalReq c' limit u (s.extend x r0) =
      ((evalReq c limit u s).1, (evalReq c limit u s).2.extend x r0) := by
  unfold evalReq
  rcases res_cases (force c limit u s) with ⟨v, s1, e⟩ | ⟨e', s1, e⟩
  · rw [force_dead hc hno limit u s _ _ hu h1 h2 e, e]; rfl
  · rw [force_dead hc hno limit u s _ _ hu h1 h2 e, e]
    simp only [settle_error, restore_extend]
    have : unmark x = x := by cases x <;> simp_all [unmark]
    rw [this]

/-! ### Run counters over a history -/

/-- number of failed requests in a list of outcomes -/
def fails : List (Option Outcome) → Nat
  | [] => 0
  | some (.error _) :: r => fails r + 1
  | _ :: r => fails r

/-- Quiescent store in which no thunk was started more than `k + 1` times and
    no pending thunk more than `k` times. -/
structure RunsBound (s : St) (k : Nat) : Prop where
  quiet : Quiet s
  all : ∀ u, s.runsOf u ≤ k + 1
  pend : ∀ u, s.st u = some .pending → s.runsOf u ≤ k

theorem RunsBound.init (n : Nat) : RunsBound (init n) 0 := by
  have h0 : ∀ u, (Thunk.init n).runsOf u = 0 := by
    intro u; unfold St.runsOf; rw [rn_init]; split <;> rfl
  refine ⟨fun u h => ?_, fun u => by rw [h0]; omega, fun u _ => by rw [h0]; omega⟩
  rw [st_init] at h; split at h <;> cases h

theorem runsOf_map_le (o : Option Nat) : (o.map (· + 1)).getD 0 ≤ o.getD 0 + 1 := by
  cases o <;> simp

theorem evalReq_runsBound {c : Code} {limit t k : Nat} {s : St} (hb : RunsBound s k) :
    RunsBound (evalReq c limit t s).2 (k + fails [some (evalReq c limit t s).1]) := by
  have hm := force_mono_st c limit t s
  have hc := force_clean c limit t s
  unfold evalReq
  rcases res_cases (force c limit t s) with ⟨v, s1, e⟩ | ⟨e', s1, e⟩
  · rw [e] at hm hc ⊢
    have hcl := hc v rfl
    simp only [settle_ok, fails, Nat.add_zero]
    refine ⟨fun u hu => hb.quiet u (hcl u hu), fun u => ?_, fun u hu => ?_⟩
    · by_cases hp : s.st u = some .pending
      · rcases hm.pend u hp with ⟨_, r⟩ | ⟨_, r⟩
        · unfold St.runsOf; rw [r]; have := hb.all u; unfold St.runsOf at this; exact this
        · have := hb.pend u hp
          unfold St.runsOf at this ⊢; rw [r]
          have := runsOf_map_le (s.rn u); omega
      · unfold St.runsOf; rw [(hm.frozen u hp).2]; have := hb.all u; unfold St.runsOf at this; exact this
    · by_cases hp : s.st u = some .pending
      · rcases hm.pend u hp with ⟨_, r⟩ | ⟨q, _⟩
        · unfold St.runsOf; rw [r]; have := hb.pend u hp; unfold St.runsOf at this; exact this
        · rcases q with q | ⟨w, q⟩ <;> rw [q] at hu <;> cases hu
      · rw [(hm.frozen u hp).1] at hu; exact absurd hu hp
  · rw [e] at hm ⊢
    simp only [settle_error, fails, Nat.zero_add]
    have hall : ∀ u, s1.runsOf u ≤ k + 1 := by
      intro u
      by_cases hp : s.st u = some .pending
      · rcases hm.pend u hp with ⟨_, r⟩ | ⟨_, r⟩
        · unfold St.runsOf; rw [r]; have := hb.all u; unfold St.runsOf at this; exact this
        · have := hb.pend u hp
          unfold St.runsOf at this ⊢; rw [r]
          have := runsOf_map_le (s.rn u); omega
      · unfold St.runsOf; rw [(hm.frozen u hp).2]; have := hb.all u; unfold St.runsOf at this; exact this
    refine ⟨Quiet.restore s1, fun u => ?_, fun u _ => ?_⟩
    · have := hall u; unfold St.runsOf at this ⊢; rw [rn_restore]; omega
    · have := hall u; unfold St.runsOf at this ⊢; rw [rn_restore]; omega

theorem fails_append (a b : List (Option Outcome)) : fails (a ++ b) = fails a + fails b := by
  induction a with
  | nil => simp [fails]
  | cons x xs ih =>
    rcases x with _ | (_ | _) <;> simp [fails, ih] <;> omega

theorem runHistory_runsBound {c : Code} {limit : Nat} : ∀ (qs : List Req) {s : St} {k : Nat},
    RunsBound s k →
    RunsBound (runHistory c limit qs s).2 (k + fails (runHistory c limit qs s).1) := by
  intro qs
  induction qs with
  | nil => intro s k h; exact h
  | cons q qs ih =>
    intro s k h
    cases q with
    | gc =>
      have := ih (s := s) (k := k) h
      simpa [runHistory, runReq, fails] using this
    | eval t =>
      have h1 := evalReq_runsBound (c := c) (limit := limit) (t := t) h
      have h2 := ih h1
      have e : runHistory c limit (.eval t :: qs) s =
          (some (evalReq c limit t s).1 :: (runHistory c limit qs (evalReq c limit t s).2).1,
           (runHistory c limit qs (evalReq c limit t s).2).2) := rfl
      rw [e]
      have e2 : fails (some (evalReq c limit t s).1 :: (runHistory c limit qs (evalReq c limit t s).2).1) =
          fails [some (evalReq c limit t s).1] + fails (runHistory c limit qs (evalReq c limit t s).2).1 := by
        rw [← fails_append]; rfl
      rw [e2, ← Nat.add_assoc]
      exact h2

/-- The trace messages a run appended to the log. -/
def newTraces (s : St) (r : Res) : List Nat := r.2.traces.drop s.traces.length

theorem newTraces_eq {s : St} {r : Res} {d : List Nat} (h : r.2.traces = s.traces ++ d) :
    newTraces s r = d := by
  unfold newTraces; rw [h]; exact List.drop_left

theorem newTraces_spec {s : St} {r : Res} (hm : Mono s r.2) : r.2.traces = s.traces ++ newTraces s r := by
  obtain ⟨d, hd⟩ := hm.tr
  rw [newTraces_eq hd, hd]

theorem newTraces_self (s : St) (o : Outcome) : newTraces s (o, s) = [] :=
  newTraces_eq (by simp)

theorem newTraces_trace {f : Nat → St → Res} (hm : ∀ u s, Mono s (f u s).2) (m : Nat) (k : Prog) (s : St) :
    newTraces s (runProg f (.trace m k) s) = m :: newTraces (s.emit m) (runProg f k (s.emit m)) := by
  rw [runProg_trace]
  have h := newTraces_spec (runProg_mono hm k (s.emit m))
  exact newTraces_eq (by rw [h]; simp)

theorem newTraces_force_ok {f : Nat → St → Res} (hm : ∀ u s, Mono s (f u s).2) {t : Nat}
    {k : Val → Prog} {s s1 : St} {v : Val} (hf : f t s = (.ok v, s1)) :
    newTraces s (runProg f (.force t k) s) =
      newTraces s (f t s) ++ newTraces s1 (runProg f (k v) s1) := by
  rw [runProg_force_ok hf]
  have h1 := newTraces_spec (hm t s)
  have h2 := newTraces_spec (runProg_mono hm (k v) s1)
  rw [hf] at h1
  exact newTraces_eq (by rw [h2]; simp only at h1; rw [h1, hf, List.append_assoc])

theorem newTraces_force_error {f : Nat → St → Res} {t : Nat}
    {k : Val → Prog} {s s1 : St} {e : Err} (hf : f t s = (.error e, s1)) :
    newTraces s (runProg f (.force t k) s) = newTraces s (f t s) := by
  rw [runProg_force_error hf, hf]

theorem newTraces_pending {c : Code} {h t : Nat} {s : St} (hs : s.st t = some .pending) :
    newTraces s (force c (h + 1) t s) =
      newTraces (mark s t) (runProg (force c h) (c t) (mark s t)) := by
  rw [force_succ_pending hs]
  rcases res_cases (runProg (force c h) (c t) (mark s t)) with ⟨v, s2, e⟩ | ⟨e', s2, e⟩ <;>
    rw [e] <;> rfl

end Rsj.Thunk
