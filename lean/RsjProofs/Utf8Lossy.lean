/-
  Lossy decoding of whole byte strings (`Lossy` = repeated `DecodeStep`), the
  proof that the model decoder computes it, and the locality lemma used for
  string bodies (the decoder never reads past an ASCII byte).
-/
import RsjProofs.Utf8Spec
namespace Rsj.Utf8

/-- Lossy decoding of a whole byte string: repeat `DecodeStep` to the end. -/
inductive Lossy : List Nat → List Nat → Prop
  | nil : Lossy [] []
  | step {bs : List Nat} {n : Nat} {r : Option Nat} {out : List Nat} :
      bs ≠ [] → DecodeStep bs n r → Lossy (bs.drop n) out → Lossy bs (r.getD 0xFFFD :: out)

theorem Lossy.unique {bs out out' : List Nat} (h : Lossy bs out) (h' : Lossy bs out') : out = out' := by
  induction h generalizing out' with
  | nil => cases h' with
    | nil => rfl
    | step hne _ _ => exact absurd rfl hne
  | step hne hs _ ih =>
    cases h' with
    | nil => exact absurd rfl hne
    | step _ hs' hl' =>
      obtain ⟨rfl, rfl⟩ := hs.unique hs'
      rw [ih hl']

set_option maxRecDepth 4000 in
theorem ascii_not_cont : ∀ x, x < 128 → x &&& 192 ≠ 128 := by decide

set_option linter.unusedSimpArgs false in
/-- `decode_cont_char` never looks past an ASCII byte: appending one (and anything
    after it) to the continuation bytes does not change the result. -/
theorem decodeCont_append_ascii (b : Nat) (t : List Nat) {x : Nat} (hx : x < 128) (tail : List Nat) :
    decodeCont b (t ++ x :: tail) = decodeCont b t := by
  have hx1 := ascii_not_cont x hx
  have h0 : (0 : Nat) &&& 192 ≠ 128 := by decide
  have hk3 : ∀ b0, ok3 b0 x = false := by
    intro b0; cases h : ok3 b0 x with
    | false => rfl
    | true => rw [ok3_iff] at h; omega
  have hk4 : ∀ b0, ok4 b0 x = false := by
    intro b0; cases h : ok4 b0 x with
    | false => rfl
    | true => rw [ok4_iff] at h; omega
  have hz3 : ∀ b0, ok3 b0 0 = false := by
    intro b0; cases h : ok3 b0 0 with
    | false => rfl
    | true => rw [ok3_iff] at h; omega
  have hz4 : ∀ b0, ok4 b0 0 = false := by
    intro b0; cases h : ok4 b0 0 with
    | false => rfl
    | true => rw [ok4_iff] at h; omega
  rcases t with _ | ⟨t0, _ | ⟨t1, _ | ⟨t2, t3⟩⟩⟩
  · simp [decodeCont, safeGet, hx1, h0, hk3, hk4, hz3, hz4]
  · simp [decodeCont, safeGet, hx1, h0, hk3, hk4, hz3, hz4]
  · simp [decodeCont, safeGet, hx1, h0, hk3, hk4, hz3, hz4]
  · simp [decodeCont, safeGet]

theorem IsBytes.drop {l : List Nat} (h : IsBytes l) (n : Nat) : IsBytes (l.drop n) :=
  fun b hb => h b (List.mem_of_mem_drop hb)

theorem IsBytes.tail {b : Nat} {l : List Nat} (h : IsBytes (b :: l)) : IsBytes l :=
  fun x hx => h x (List.mem_cons_of_mem _ hx)

/-- The model's whole-string lossy decoder computes the specification `Lossy`. -/
theorem lossyAux_spec (f : Nat) (bs : List Nat) (hb : IsBytes bs) (hf : bs.length ≤ f) :
    ∃ out, lossyAux f bs = some out ∧ Lossy bs out := by
  induction f generalizing bs with
  | zero =>
    have : bs = [] := List.length_eq_zero_iff.mp (by omega)
    subst this
    exact ⟨[], by simp [lossyAux], Lossy.nil⟩
  | succ f ih =>
    cases bs with
    | nil => exact ⟨[], by simp [lossyAux], Lossy.nil⟩
    | cons b t =>
      have hs := decodeCont_spec hb
      unfold lossyAux
      simp only [List.length_cons] at hf
      cases hd : decodeCont b t with
      | chr n c =>
        rw [hd] at hs
        have hn := decodeCont_chr_le hd
        obtain ⟨out, ho, hl⟩ := ih (t.drop n) (hb.tail.drop n) (by simp only [List.length_drop]; omega)
        refine ⟨c :: out, by simp [ho], ?_⟩
        exact Lossy.step (r := some c) (by simp) hs (by simpa using hl)
      | bad n =>
        rw [hd] at hs
        have hn := decodeCont_bad_le hd
        obtain ⟨out, ho, hl⟩ := ih (t.drop n) (hb.tail.drop n) (by simp only [List.length_drop]; omega)
        refine ⟨0xFFFD :: out, by simp [ho], ?_⟩
        exact Lossy.step (r := none) (by simp) hs (by simpa using hl)
      | panic => rw [hd] at hs; exact absurd hs (by simp)

theorem lossyModel_spec (bs : List Nat) (hb : IsBytes bs) :
    ∃ out, lossyModel bs = some out ∧ Lossy bs out :=
  lossyAux_spec bs.length bs hb (Nat.le_refl _)

end Rsj.Utf8
