import RsjProofs.EvalNoNaNStep
/-!
  "partial_cmp of NaN": `step` on the tasks other than the evaluation of an expression — in
  particular the `compare` task itself: on operands that are not NaN the panic is not reached.
-/
open Std.Do
set_option mvcgen.warning false
namespace Rsj.Eval.NoNaN
open Rsj.Core Rsj.Eval Rsj.Eval.Scope

theorem ord_vnn (F : FloatNaNFacts) (c : Ordering) :
    VNN (match c with | .lt => Value.num (-1.0) | .eq => Value.num 0.0 | .gt => Value.num 1.0) := by
  cases c
  · exact F.neg _ (F.ofScientific _ _ _)
  · exact F.ofScientific _ _ _
  · exact F.ofScientific _ _ _

section
variable (F : FloatNaNFacts) (hp : PureNaNFree) (cfg : Cfg) (rec : Task → M Value) (hrec : RecOk3 rec)
include F hp hrec

set_option hygiene false in
macro "scase" : tactic => `(tactic|
  (unfold step
   mvcgen [hr, hb, hc]
   on_invs first
     | exact inv3 (σ := Option Value × Unit) (fun r => ∀ v, r.1 = some v → VNN v)
     | exact inv3 (σ := Option Value × Bool) (fun r => ∀ v, r.1 = some v → VNN v)
     | exact inv3 (fun _ => True)
   all_goals (try clear hr hb hc)
   all_goals vcp
   all_goals first
     | oclose
     | exact ⟨by assumption, ho.1⟩
     | exact ⟨by assumption, ho.2.1⟩
     | exact ⟨by assumption, ho.2.2⟩
     | exact ⟨by assumption, F.neg _ (by assumption)⟩
     | exact ⟨by assumption, intToFloat_nn F _⟩
     | exact hp
     | exact hT
     | (refine ⟨by assumption, ?_⟩; intro v hv; cases hv; trivial)
     | (refine ⟨by assumption, ?_⟩; intro v hv; simp at hv)
     | exact ⟨by assumption, (by assumption : ∀ v, _ = some v → VNN v) _ (by assumption)⟩
     | exact (by assumption : ∀ v, _ = some v → VNN v) _ (by assumption)
     ))

set_option maxHeartbeats 2000000 in
theorem step_force_nn (t : TId) (d : Nat) (hT : TaskNN (.force t d)) :
    ⦃fun st => ⌜NN st⌝⦄ step cfg rec (.force t d) ⦃Q3 VNN⦄ := by
  have hr := rec_nn F rec hrec
  have hb := builtinCall3_nn F cfg rec hrec hp
  have hc := binaryOp3_nn F cfg rec hrec
  have ho := ord_nn F
  scase

set_option maxHeartbeats 2000000 in
theorem step_asserts_nn (o : OId) (d : Nat) (hT : TaskNN (.asserts o d)) :
    ⦃fun st => ⌜NN st⌝⦄ step cfg rec (.asserts o d) ⦃Q3 VNN⦄ := by
  have hr := rec_nn F rec hrec
  have hb := builtinCall3_nn F cfg rec hrec hp
  have hc := binaryOp3_nn F cfg rec hrec
  have ho := ord_nn F
  scase

set_option maxHeartbeats 2000000 in
theorem step_deep_nn (v : Value) (d : Nat) (hT : TaskNN (.deep v d)) :
    ⦃fun st => ⌜NN st⌝⦄ step cfg rec (.deep v d) ⦃Q3 VNN⦄ := by
  have hr := rec_nn F rec hrec
  have hb := builtinCall3_nn F cfg rec hrec hp
  have hc := binaryOp3_nn F cfg rec hrec
  have ho := ord_nn F
  scase

set_option maxHeartbeats 2000000 in
theorem step_manifest_nn (v : Value) (d : Nat) (c : Bool) (hT : TaskNN (.manifest v d c)) :
    ⦃fun st => ⌜NN st⌝⦄ step cfg rec (.manifest v d c) ⦃Q3 VNN⦄ := by
  have hr := rec_nn F rec hrec
  have hb := builtinCall3_nn F cfg rec hrec hp
  have hc := binaryOp3_nn F cfg rec hrec
  have ho := ord_nn F
  scase

set_option maxHeartbeats 2000000 in
theorem step_equals_nn (a b : Value) (d : Nat) (hT : TaskNN (.equals a b d)) :
    ⦃fun st => ⌜NN st⌝⦄ step cfg rec (.equals a b d) ⦃Q3 VNN⦄ := by
  have hr := rec_nn F rec hrec
  have hb := builtinCall3_nn F cfg rec hrec hp
  have hc := binaryOp3_nn F cfg rec hrec
  have ho := ord_nn F
  scase

set_option maxHeartbeats 2000000 in
theorem step_compare_nn (a b : Value) (d : Nat) (hT : TaskNN (.compare a b d)) :
    ⦃fun st => ⌜NN st⌝⦄ step cfg rec (.compare a b d) ⦃Q3 VNN⦄ := by
  have hc := compareLists_nn F cfg rec hrec
  unfold step
  mvcgen [hc]
  all_goals (try clear hc)
  all_goals vcp
  all_goals first
    | assumption
    | exact ⟨by assumption, ord_vnn F _⟩
    | (simp [Good3]; done)
    | (exfalso
       rcases F.tri _ _ hT.1 hT.2 with h | h | h <;> contradiction)
    | oclose

end
end Rsj.Eval.NoNaN
