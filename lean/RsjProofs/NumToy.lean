/-
  A small lawful float algebra (bounded integers with an overflow value) used for the
  non-vacuity examples of RsjProps/C06.lean: the laws `Lawful` are satisfiable and the gate
  matters (a fold over finite values can overflow in the middle).
-/
import RsjProofs.Num
namespace Rsj.Num

inductive Toy where
  | fin (i : Int)
  | inf
  | nan
deriving DecidableEq, Repr

def toyMk (i : Int) : Toy := if -1000 ≤ i ∧ i ≤ 1000 then .fin i else .inf

def toyBin (f : Int → Int → Int) : Toy → Toy → Toy
  | .fin a, .fin b => toyMk (f a b)
  | .nan, _ => .nan
  | _, .nan => .nan
  | _, _ => .inf

def toyAlg : FloatAlg Toy where
  add := toyBin (· + ·)
  sub := toyBin (· - ·)
  mul := toyBin (· * ·)
  div := fun a b => match a, b with
    | .fin a, .fin b => if b = 0 then .nan else .fin (a / b)
    | _, _ => .nan
  rem := fun a b => match a, b with
    | .fin a, .fin b => if b = 0 then .nan else .fin (a % b)
    | _, _ => .nan
  neg := fun a => match a with | .fin a => .fin (-a) | x => x
  floor := id
  ceil := id
  sqrt := fun _ => .nan
  exp := fun _ => .inf
  log := fun _ => .nan
  log2 := fun _ => .nan
  log10 := fun _ => .nan
  sin := fun _ => .fin 0
  cos := fun _ => .fin 1
  tan := fun _ => .fin 0
  asin := fun _ => .nan
  acos := fun _ => .nan
  atan := fun _ => .fin 0
  pow := fun _ _ => .inf
  atan2 := fun _ _ => .fin 0
  hypot := toyBin (fun a b => a.natAbs + b.natAbs)
  toRadians := id
  toDegrees := toyBin (· * ·) (.fin 57)
  mantissa := id
  exponent := fun _ => 0
  ofInt := .fin
  ofDec := fun neg n e => toyMk ((if neg then -1 else 1) * (n : Int) * 10 ^ e.toNat)
  toInt := fun a => match a with | .fin a => a | _ => 0
  lt := fun a b => match a, b with | .fin a, .fin b => decide (a < b) | _, _ => false
  partialCmp := fun a b => match a, b with
    | .fin a, .fin b => some (compare a b)
    | .nan, _ => none
    | _, .nan => none
    | .inf, .inf => some .eq
    | .inf, _ => some .gt
    | _, .inf => some .lt
  eqZero := fun a => a == .fin 0
  signNeg := fun a => match a with | .fin a => decide (a < 0) | _ => false
  isNaN := fun a => a == .nan
  isInf := fun a => a == .inf
  pi := .fin 3

theorem toy_fin_of_finite {x : Toy} (h : Finite toyAlg x) : ∃ i, x = .fin i := by
  cases x with
  | fin i => exact ⟨i, rfl⟩
  | inf => exact absurd h.2 (by decide)
  | nan => exact absurd h.1 (by decide)

theorem toy_lawful : Lawful toyAlg where
  neg_finite := by
    intro x hx; obtain ⟨i, rfl⟩ := toy_fin_of_finite hx; exact ⟨rfl, rfl⟩
  floor_finite := fun _ h => h
  ceil_finite := fun _ h => h
  mantissa_finite := fun _ h => h
  exponent_i16 := by
    intro x
    show (-32768 : Int) ≤ 0 ∧ (0 : Int) ≤ 32767
    omega
  ofInt_finite := fun _ _ _ => ⟨rfl, rfl⟩
  div_count_finite := by
    intro x n hx h1 _
    obtain ⟨i, rfl⟩ := toy_fin_of_finite hx
    show Finite toyAlg (if (n : Int) = 0 then Toy.nan else Toy.fin (i / n))
    have : (n : Int) ≠ 0 := by omega
    rw [if_neg this]; exact ⟨rfl, rfl⟩
  pi_finite := ⟨rfl, rfl⟩
  partialCmp_some := by
    intro x y hx hy
    cases x <;> cases y <;> first | rfl | exact absurd hx (by decide) | exact absurd hy (by decide)

deriving instance DecidableEq for Except

end Rsj.Num
