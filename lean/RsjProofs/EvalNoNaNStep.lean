import RsjProofs.EvalNoNaNStd
/-!
  "partial_cmp of NaN": sorting, all builtins, `step`, every fuel, requests and programs.
-/
open Std.Do
set_option mvcgen.warning false
namespace Rsj.Eval.NoNaN
open Rsj.Core Rsj.Eval Rsj.Eval.Scope

theorem ord_nn (F : FloatNaNFacts) :
    (0.0 : Float).isNaN = false ∧ (1.0 : Float).isNaN = false ∧ (-1.0 : Float).isNaN = false :=
  ⟨F.ofScientific _ _ _, F.ofScientific _ _ _, F.neg _ (F.ofScientific _ _ _)⟩

section
variable (F : FloatNaNFacts) (cfg : Cfg) (rec : Task → M Value) (hrec : RecOk3 rec)
include F hrec

@[spec] theorem std_sortKeys_nn (kf : Option FId) (items : List TId) (d1 : Nat) :
    ⦃fun st => ⌜NN st⌝⦄ std_sortKeys cfg rec kf items d1 ⦃Q3 (fun ks => ∀ k ∈ ks, VNN k)⦄ := by
  unfold std_sortKeys; nnb

@[spec] theorem std_qsort_nn (keys : List Value) (d1 fuel : Nat) (xs : List Nat) (hk : ∀ k ∈ keys, VNN k) :
    ⦃fun st => ⌜NN st⌝⦄ std_qsort rec keys d1 fuel xs ⦃Q3 (fun _ => True)⦄ := by
  have hr := rec_nn F rec hrec
  induction fuel generalizing xs with
  | zero => unfold std_qsort; mvcgen; all_goals vcp; all_goals oclose
  | succ fuel ih =>
    match xs with
    | [] => unfold std_qsort; mvcgen; all_goals vcp; all_goals oclose
    | [x] => unfold std_qsort; mvcgen; all_goals vcp; all_goals oclose
    | pivot :: y :: rest =>
      unfold std_qsort
      mvcgen [hr, ih]
      on_invs exact inv3 (fun _ => True)
      all_goals (try clear hr ih)
      all_goals vcp
      all_goals first
        | oclose
        | exact ⟨hk _ (List.mem_of_getElem? (by assumption)), hk _ (List.mem_of_getElem? (by assumption))⟩

@[spec] theorem std_sortSet_nn (uniq : Bool) (t0 : TId) (t1 : Option TId) (d1 : Nat) :
    ⦃fun st => ⌜NN st⌝⦄ std_sortSet cfg rec uniq t0 t1 d1 ⦃Q3 VNN⦄ := by
  have h1 := std_sortKeys_nn F cfg rec hrec
  have h2 := std_qsort_nn F rec hrec
  have hr := rec_nn F rec hrec
  unfold std_sortSet
  mvcgen [h1, h2, hr]
  on_invs exact inv3 (fun _ => True)
  all_goals (try clear h1 h2 hr)
  all_goals vcp
  all_goals first
    | oclose
    | exact (by assumption : ∀ k ∈ _, VNN k) _ (by assumption)

@[spec] theorem builtinCall_nn (b : Builtin) (ts : List TId) (d1 : Nat) :
    ⦃fun st => ⌜NN st⌝⦄ builtinCall rec b ts d1 ⦃Q3 VNN⦄ := by
  unfold builtinCall; mvcgen; all_goals vcp; all_goals oclose

@[spec] theorem builtinCall2_nn (b : Builtin) (ts : List TId) (d1 : Nat) :
    ⦃fun st => ⌜NN st⌝⦄ builtinCall2 cfg rec b ts d1 ⦃Q3 VNN⦄ := by
  unfold builtinCall2; mvcgen; all_goals vcp; all_goals oclose

@[spec] theorem builtinCall3_nn (hp : PureNaNFree) (b : Builtin) (ts : List TId) (d1 : Nat) :
    ⦃fun st => ⌜NN st⌝⦄ builtinCall3 cfg rec b ts d1 ⦃Q3 VNN⦄ := by
  unfold builtinCall3; mvcgen; all_goals vcp
  all_goals first
    | oclose
    | (have hsp := (by assumption : pureBuiltin _ = some _)
       unfold pureBuiltin at hsp
       split at hsp <;> cases hsp
       exact hp _)

@[spec] theorem thunkBody_nn (p : Pending) (d : Nat) :
    ⦃fun st => ⌜NN st⌝⦄ thunkBody cfg rec p d ⦃Q3 VNN⦄ := by
  have hr := rec_nn F rec hrec
  cases p <;> (unfold thunkBody; mvcgen [hr]; all_goals (try clear hr); all_goals vcp; all_goals oclose)

@[spec] theorem compareLists_nn (d : Nat) (xs ys : List TId) :
    ⦃fun st => ⌜NN st⌝⦄ compareLists cfg rec d xs ys ⦃Q3 VNN⦄ := by
  have hr := rec_nn F rec hrec
  have ho := ord_nn F
  induction xs generalizing ys with
  | nil =>
    cases ys <;> (unfold compareLists; mvcgen; all_goals vcp)
    all_goals first | oclose | exact ⟨by assumption, ho.1⟩ | exact ⟨by assumption, ho.2.2⟩
  | cons x xs ih =>
    cases ys with
    | nil => unfold compareLists; mvcgen; all_goals vcp; all_goals first | oclose | exact ⟨by assumption, ho.2.1⟩
    | cons y ys =>
      unfold compareLists
      mvcgen [hr, ih]
      all_goals (try clear hr ih)
      all_goals vcp
      all_goals oclose

end
end Rsj.Eval.NoNaN
