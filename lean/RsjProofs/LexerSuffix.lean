/-
  The cursor returned with each token is the start cursor advanced over the same
  input (`rest = input.drop pos` is an invariant), so every token of
  `lex_to_eof` is the result of `next_token` at its own start offset.
-/
import RsjProofs.Lexer
namespace Rsj.Lexer

/-- `c'` is `c` advanced: same underlying input, later position. -/
def Suf (c c' : Cur) : Prop := c.pos ≤ c'.pos ∧ c'.rest = c.rest.drop (c'.pos - c.pos)

theorem Suf.refl (c : Cur) : Suf c c := ⟨Nat.le_refl _, by simp⟩

theorem Suf.trans {a b c : Cur} (h1 : Suf a b) (h2 : Suf b c) : Suf a c := by
  refine ⟨Nat.le_trans h1.1 h2.1, ?_⟩
  rw [h2.2, h1.2, List.drop_drop]
  congr 1
  have := h1.1; have := h2.1
  omega

theorem Suf.step {c : Cur} {x : Nat} {t : List Nat} (h : c.rest = x :: t) : Suf c ⟨c.pos + 1, t⟩ := by
  refine ⟨by simp, ?_⟩
  simp [h]

theorem Suf.adv (c : Cur) (n : Nat) : Suf c ⟨c.pos + n, c.rest.drop n⟩ := by
  refine ⟨by simp, ?_⟩
  simp

namespace Cur

theorem eatByte_suf {c c' : Cur} {b : Nat} (h : c.eatByte b = some c') : Suf c c' := by
  unfold eatByte at h
  split at h
  · next x t hr =>
    split at h
    · cases h; exact Suf.step hr
    · cases h
  · cases h

theorem eatMapByte_suf {α : Type} {c c' : Cur} {f : Nat → Option α} {r : α}
    (h : c.eatMapByte f = some (r, c')) : Suf c c' := by
  unfold eatMapByte at h
  split at h
  · next x t hr =>
    split at h
    · cases h; exact Suf.step hr
    · cases h
  · cases h

theorem eatAnyByte_suf {c c' : Cur} {b : Nat} (h : c.eatAnyByte = some (b, c')) : Suf c c' := by
  unfold eatAnyByte at h
  split at h
  · next x t hr => cases h; exact Suf.step hr
  · cases h

theorem eatSlice_suf {c c' : Cur} {s : List Nat} (h : c.eatSlice s = some c') : Suf c c' := by
  unfold eatSlice at h
  split at h
  · cases h; exact Suf.adv c s.length
  · cases h

theorem eatByteB_suf (c : Cur) (b : Nat) : Suf c (c.eatByteB b).2 := by
  unfold eatByteB
  split
  · next c' h => exact eatByte_suf h
  · exact Suf.refl c

theorem eatWhileAux_suf (p : Nat → Bool) (pos : Nat) (rest : List Nat) :
    Suf ⟨pos, rest⟩ (eatWhileAux p pos rest) := by
  induction rest generalizing pos with
  | nil => simp [eatWhileAux]; exact Suf.refl _
  | cons x t ih =>
    unfold eatWhileAux
    split
    · exact Suf.trans (Suf.step (c := ⟨pos, x :: t⟩) rfl) (ih (pos + 1))
    · exact Suf.refl _

theorem eatWhile_suf (c : Cur) (p : Nat → Bool) : Suf c (c.eatWhile p) :=
  eatWhileAux_suf p c.pos c.rest

end Cur

theorem eatContAnyChar_suf {c c' : Cur} {b : Nat} {r : CharRes}
    (h : eatContAnyChar c b = .some r c') : Suf c c' := by
  unfold eatContAnyChar at h
  split at h
  · cases h; exact Suf.adv c _
  · cases h; exact Suf.adv c _
  · cases h

theorem eatAnyChar_suf {c c' : Cur} {r : CharRes} (h : eatAnyChar c = .some r c') : Suf c c' := by
  unfold eatAnyChar at h
  split at h
  · cases h
  · next b c1 hb =>
    split at h
    · cases h
    · next r' c2 hc => cases h; exact Suf.trans (Cur.eatAnyByte_suf hb) (eatContAnyChar_suf hc)

/-- The cursor returned with a token is the start cursor advanced. -/
def SufRes (c : Cur) : Res → Prop
  | .tok _ c' => Suf c c'
  | _ => True

theorem slComment_suf (pos : Nat) (rest : List Nat) : Suf ⟨pos, rest⟩ (slComment pos rest) := by
  induction rest generalizing pos with
  | nil => simp [slComment]; exact Suf.refl _
  | cons x t ih =>
    unfold slComment
    split
    · exact Suf.step (c := ⟨pos, x :: t⟩) rfl
    · exact Suf.trans (Suf.step (c := ⟨pos, x :: t⟩) rfl) (ih (pos + 1))

theorem mlComment_suf (start pos : Nat) (rest : List Nat) :
    SufRes ⟨pos, rest⟩ (mlComment start pos rest) := by
  induction rest generalizing pos with
  | nil => simp [mlComment, SufRes]
  | cons x t ih =>
    unfold mlComment
    split
    · next t' =>
      simp only [SufRes]
      have := Suf.adv ⟨pos, 42 :: 47 :: t'⟩ 2
      simpa using this
    · have h := ih (pos + 1)
      cases hr : mlComment start (pos + 1) t with
      | tok k c' =>
        rw [hr] at h
        exact Suf.trans (Suf.step (c := ⟨pos, x :: t⟩) rfl) h
      | err _ _ _ => trivial
      | panic _ => trivial
      | fuel => trivial

theorem opLoop_suf (base sure : Cur) (pos : Nat) (rest : List Nat) (hs : Suf base sure)
    (hp : Suf base ⟨pos, rest⟩) : Suf base (opLoop sure pos rest) := by
  induction rest generalizing sure pos with
  | nil => simpa [opLoop] using hs
  | cons x t ih =>
    have hn : Suf base ⟨pos + 1, t⟩ := Suf.trans hp (Suf.step (c := ⟨pos, x :: t⟩) rfl)
    unfold opLoop
    split
    · exact hs
    split
    · exact ih ⟨pos + 1, t⟩ (pos + 1) hn hn
    split
    · exact ih sure (pos + 1) hs hn
    · exact hs

theorem lexOperator_suf (start c : Cur) (h : Suf start c) : SufRes start (lexOperator start c) := by
  have := opLoop_suf start c c.pos c.rest h h
  unfold lexOperator
  simp only
  split
  · exact this
  · split
    · exact this
    · trivial

theorem lexIdent_suf (start c : Cur) (h : Suf start c) : SufRes start (lexIdent start c) := by
  have := Suf.trans h (Cur.eatWhile_suf c isIdentCont)
  unfold lexIdent
  simp only
  split
  · exact this
  · split
    · exact this
    · trivial

def NumSuf (c : Cur) : NumRes → Prop
  | .done _ c' => Suf c c'
  | .err _ _ _ => True

theorem NumSuf.trans {a b : Cur} {r : NumRes} (h1 : Suf a b) (h2 : NumSuf b r) : NumSuf a r := by
  cases r with
  | done acc c' => exact Suf.trans h1 h2
  | err _ _ _ => trivial

theorem numLoop_suf (st : NState) (acc : NumAcc) (pos : Nat) (rest : List Nat) :
    NumSuf ⟨pos, rest⟩ (numLoop st acc pos rest) := by
  induction rest generalizing st acc pos with
  | nil =>
    unfold numLoop
    cases st <;> simp only [] <;> (try split) <;> first | trivial | exact Suf.refl _
  | cons x t ih =>
    have hstep : Suf ⟨pos, x :: t⟩ ⟨pos + 1, t⟩ := Suf.step (c := ⟨pos, x :: t⟩) rfl
    unfold numLoop
    cases st <;> simp only [] <;> repeat' split
    all_goals first
      | exact NumSuf.trans hstep (ih _ _ _)
      | trivial
      | exact Suf.refl _

theorem lexNumber_suf (start c : Cur) (chr0 : Nat) (h : Suf start c) :
    SufRes start (lexNumber start c chr0) := by
  unfold lexNumber
  simp only
  have := numLoop_suf (.intDigits false)
    { leadingZero := chr0 == 48, digits := [chr0], implicitExp := 0,
      explicitExp := some 0, explicitExpSign := false } c.pos c.rest
  split
  · trivial
  · next acc c' hn =>
    rw [hn] at this
    split
    · trivial
    · exact Suf.trans h this

theorem eatCodeunit_suf (c : Cur) : Suf c (eatCodeunit c).2 := by
  unfold eatCodeunit
  split
  · exact Suf.refl c
  next d0 c1 h1 =>
  have e1 := Cur.eatMapByte_suf h1
  split
  · exact e1
  next d1 c2 h2 =>
  have e2 := Suf.trans e1 (Cur.eatMapByte_suf h2)
  split
  · exact e2
  next d2 c3 h3 =>
  have e3 := Suf.trans e2 (Cur.eatMapByte_suf h3)
  split
  · exact e3
  next d3 c4 h4 =>
  exact Suf.trans e3 (Cur.eatMapByte_suf h4)

def EscSuf (c : Cur) : EscRes → Prop
  | .push _ c' => Suf c c'
  | _ => True

theorem lexUnicodeEscape_suf (es : Nat) (c : Cur) : EscSuf c (lexUnicodeEscape es c) := by
  unfold lexUnicodeEscape
  have k1 := eatCodeunit_suf c
  split
  · trivial
  · next cu1 c1 h1 =>
    rw [h1] at k1; simp only at k1
    split
    · next c2 h2 =>
      have e2 : Suf c1 c2 := by
        split at h2
        · exact Cur.eatSlice_suf h2
        · cases h2
      have k2 := eatCodeunit_suf c2
      split
      · trivial
      · next cu2 c3 h3 =>
        rw [h3] at k2; simp only at k2
        split
        · exact Suf.trans k1 (Suf.trans e2 k2)
        · trivial
    · split
      · exact k1
      · trivial

theorem lexEscape_suf (start : Nat) (c : Cur) : EscSuf c (lexEscape start c) := by
  unfold lexEscape
  simp only
  split
  · next chr c1 h1 => exact Cur.eatMapByte_suf h1
  · split
    · next c1 h1 =>
      have := lexUnicodeEscape_suf (c.pos - 1) c1
      cases hr : lexUnicodeEscape (c.pos - 1) c1 with
      | push chr c' => rw [hr] at this; exact Suf.trans (Cur.eatByte_suf h1) this
      | err _ _ _ => trivial
      | panic => trivial
    · split <;> trivial

theorem SufRes.trans {a b : Cur} {r : Res} (h1 : Suf a b) (h2 : SufRes b r) : SufRes a r := by
  cases r with
  | tok k c' => exact Suf.trans h1 h2
  | err _ _ _ => trivial
  | panic _ => trivial
  | fuel => trivial

theorem quotedLoop_suf (start delim f : Nat) (c : Cur) (str : List Nat) :
    SufRes c (quotedLoop start delim f c str) := by
  induction f generalizing c str with
  | zero => simp [quotedLoop, SufRes]
  | succ f ih =>
    unfold quotedLoop
    split
    · next c1 h1 => exact Cur.eatByte_suf h1
    · split
      · next c1 h1 =>
        have k := lexEscape_suf start c1
        split
        · next chr c2 h2 =>
          rw [h2] at k
          exact SufRes.trans (Suf.trans (Cur.eatByte_suf h1) k) (ih _ _)
        · trivial
        · trivial
      · split
        · trivial
        · trivial
        · next r c1 h1 => exact SufRes.trans (eatAnyChar_suf h1) (ih _ _)

theorem verbatimLoop_suf (start delim f : Nat) (c : Cur) (str : List Nat) :
    SufRes c (verbatimLoop start delim f c str) := by
  induction f generalizing c str with
  | zero => simp [verbatimLoop, SufRes]
  | succ f ih =>
    unfold verbatimLoop
    split
    · next c1 h1 =>
      split
      · next c2 h2 =>
        exact SufRes.trans (Suf.trans (Cur.eatByte_suf h1) (Cur.eatByte_suf h2)) (ih _ _)
      · exact Cur.eatByte_suf h1
    · split
      · trivial
      · trivial
      · next r c1 h1 => exact SufRes.trans (eatAnyChar_suf h1) (ih _ _)

def TbFirstSuf (c : Cur) : TbFirst → Prop
  | .found _ c' _ => Suf c c'
  | _ => True

theorem tbFirst_suf (f : Nat) (c : Cur) (str : List Nat) : TbFirstSuf c (tbFirst f c str) := by
  induction f generalizing c str with
  | zero => simp [tbFirst, TbFirstSuf]
  | succ f ih =>
    unfold tbFirst
    simp only
    have k1 := Cur.eatWhile_suf c isSpTab
    have k2 := Suf.trans k1 (Cur.eatByteB_suf (c.eatWhile isSpTab) 13)
    split
    · split
      · next c3 h3 =>
        have k3 := Suf.trans k2 (Cur.eatByte_suf h3)
        have := ih c3 (10 :: if ((c.eatWhile isSpTab).eatByteB 13).1 = true then 13 :: str else str)
        cases hr : tbFirst f c3 (10 :: if ((c.eatWhile isSpTab).eatByteB 13).1 = true then 13 :: str else str) with
        | found pfx c' s' => rw [hr] at this; exact Suf.trans k3 this
        | err _ _ _ => trivial
        | fuel => trivial
      · trivial
    · exact k2

theorem tbEmptyLines_suf (pos : Nat) (rest str : List Nat) :
    Suf ⟨pos, rest⟩ (tbEmptyLines pos rest str).1 := by
  fun_induction tbEmptyLines pos rest str with
  | case1 => exact Suf.refl _
  | case2 pos t str ih => exact Suf.trans (Suf.step (c := ⟨pos, 10 :: t⟩) rfl) ih
  | case3 pos str t' h ih =>
    have := Suf.adv ⟨pos, 13 :: 10 :: t'⟩ 2
    exact Suf.trans (by simpa using this) ih
  | case4 => exact Suf.refl _

theorem tbLoop_suf (start : Nat) (pfx : List Nat) (strip : Bool) (f : Nat) (c : Cur)
    (str : List Nat) : SufRes c (tbLoop start pfx strip f c str) := by
  induction f generalizing c str with
  | zero => simp [tbLoop, SufRes]
  | succ f ih =>
    unfold tbLoop
    split
    · next c1 h1 =>
      have e1 := Cur.eatByte_suf h1
      have k := Suf.trans e1 (tbEmptyLines_suf c1.pos c1.rest (10 :: str))
      generalize tbEmptyLines c1.pos c1.rest (10 :: str) = m at k
      simp only
      split
      · next c3 h3 => exact SufRes.trans (Suf.trans k (Cur.eatSlice_suf h3)) (ih _ _)
      · have k3 := Suf.trans k (Cur.eatWhile_suf m.1 isSpTab)
        split
        · next c4 h4 =>
          have k4 := Suf.trans k3 (Cur.eatSlice_suf h4)
          split
          · split
            · exact k4
            · trivial
          · exact k4
        · trivial
    · split
      · trivial
      · trivial
      · next r c1 h1 => exact SufRes.trans (eatAnyChar_suf h1) (ih _ _)

theorem lexTextBlock_suf (start c : Cur) (h : Suf start c) : SufRes start (lexTextBlock start c) := by
  unfold lexTextBlock
  simp only
  have k1 := Suf.trans h (Cur.eatByteB_suf c 45)
  generalize c.eatByteB 45 = m at k1
  have k2 := Suf.trans k1 (Cur.eatWhile_suf m.2 isSpTabCr)
  split
  · trivial
  · next c3 h3 =>
    have k3 := Suf.trans k2 (Cur.eatByte_suf h3)
    have k4 := tbFirst_suf (c3.rest.length + 1) c3 []
    split
    · trivial
    · trivial
    · next pfx c4 str hf =>
      rw [hf] at k4
      exact SufRes.trans (Suf.trans k3 k4) (tbLoop_suf _ _ _ _ _ _)

theorem nextToken_suf (c : Cur) : SufRes c (nextToken c) := by
  unfold nextToken
  split
  · exact Suf.refl c
  next x t hr =>
  have h1 : Suf c ⟨c.pos + 1, t⟩ := Suf.step hr
  simp only
  split
  · exact h1
  split
  · split
    · next c2 h2 =>
      exact Suf.trans (Suf.trans h1 (Cur.eatByte_suf h2)) (slComment_suf c2.pos c2.rest)
    · split
      · next c2 h2 =>
        exact SufRes.trans (Suf.trans h1 (Cur.eatByte_suf h2)) (mlComment_suf c.pos c2.pos c2.rest)
      · exact lexOperator_suf c _ h1
  split
  · split
    · next c2 h2 => exact lexTextBlock_suf c c2 (Suf.trans h1 (Cur.eatSlice_suf h2))
    · exact lexOperator_suf c _ h1
  split
  · exact lexOperator_suf c _ h1
  split
  · exact Suf.trans h1 (Cur.eatWhile_suf _ isWs)
  split
  · exact Suf.trans h1 (slComment_suf _ _)
  split
  · exact lexNumber_suf c _ x h1
  split
  · exact lexIdent_suf c _ h1
  split
  · split
    · next c2 h2 =>
      exact SufRes.trans (Suf.trans h1 (Cur.eatByte_suf h2)) (verbatimLoop_suf _ _ _ _ _)
    · split
      · next c2 h2 =>
        exact SufRes.trans (Suf.trans h1 (Cur.eatByte_suf h2)) (verbatimLoop_suf _ _ _ _ _)
      · trivial
  split
  · exact SufRes.trans h1 (quotedLoop_suf _ _ _ _ _)
  split
  · exact SufRes.trans h1 (quotedLoop_suf _ _ _ _ _)
  · split <;> trivial

/-- Token `t` is what `next_token` returns at offset `t.start` of `input`. -/
def Orig (input : List Nat) (t : Token) : Prop :=
  nextToken ⟨t.start, input.drop t.start⟩ = .tok t.kind ⟨t.stop, input.drop t.stop⟩

theorem lexLoop_orig (input : List Nat) (flag : Bool) (f : Nat) (c : Cur) (acc toks : List Token)
    (hc : c.rest = input.drop c.pos) (hacc : ∀ t ∈ acc, Orig input t)
    (h : lexLoop flag f c acc = .ok toks) : ∀ t ∈ toks, Orig input t := by
  induction f generalizing c acc with
  | zero => simp [lexLoop] at h
  | succ f ih =>
    unfold lexLoop at h
    have hs := nextToken_suf c
    split at h
    · cases h
    · cases h
    · cases h
    · next k c' hn =>
      rw [hn] at hs
      simp only [SufRes] at hs
      have hc' : c'.rest = input.drop c'.pos := by
        rw [hs.2, hc, List.drop_drop]
        congr 1
        have := hs.1
        omega
      have ho : Orig input ⟨k, c.pos, c'.pos⟩ := by
        unfold Orig
        simp only
        rw [← hc, ← hc']
        exact hn
      have hacc' : ∀ t ∈ (if (flag || !isTrivia k) = true then (⟨k, c.pos, c'.pos⟩ : Token) :: acc else acc),
          Orig input t := by
        intro t ht
        split at ht
        · simp only [List.mem_cons] at ht
          rcases ht with rfl | ht
          · exact ho
          · exact hacc t ht
        · exact hacc t ht
      simp only at h
      by_cases hk : k = .eof
      · rw [if_pos hk] at h
        cases h
        intro t ht
        exact hacc' t (by simpa using ht)
      · rw [if_neg hk] at h
        exact ih c' _ hc' hacc' h

end Rsj.Lexer
