import RsjProofs.EvalScopeHistory
/-!
  C01 on the evaluator model: the shape of core expressions that the front end guarantees and
  the analyzer does not check (`CoreShaped`), and what it gives for the lists the evaluator
  iterates over.
-/
namespace Rsj.Eval
open Rsj.Core

/-- number of arguments of a builtin (`std.sort`, `std.set`: with `keyF`) -/
def builtinArity : Builtin → Nat
  | .length | .type_ | .all | .any | .toString => 1
  | .trace | .objectFieldsEx | .map | .makeArray | .filter | .flatMap | .mapWithIndex | .mapWithKey | .join
  | .range | .member | .count | .equals | .compare | .primitiveEquals | .assertEqual | .sort | .set => 2
  | .objectHasEx | .foldl | .foldr | .filterMap => 3
  | .pure p => (pureSpec p).arity

/-- `n` arguments are right for the builtin: `std.sort` and `std.set` also come without `keyF` -/
def builtinArityOk (b : Builtin) (n : Nat) : Prop :=
  n = builtinArity b ∨ ((b = .sort ∨ b = .set) ∧ n = 1)

def exprsLength : Exprs → Nat
  | .nil => 0
  | .cons _ rest => exprsLength rest + 1

def specsStartWithFor : Specs → Prop
  | .for_ _ _ _ => True
  | _ => False

mutual
  /-- what the parser and the desugaring guarantee and the analyzer does not check: builtins are
      applied to the right number of arguments, comprehensions start with a `for` clause -/
  def CoreShaped : Expr → Prop
    | .null | .true_ | .false_ | .self_ | .dollar | .str _ | .num _ | .superField _ | .var _
    | .importLit _ | .importTextBlock _ => True
    | .paren e | .field e _ | .unary _ e | .error_ e | .inSuper e | .superIndex e | .importComputed _ e =>
      CoreShaped e
    | .object ms => CoreShapedMembers ms
    | .objectComp locals name _ body spec =>
      CoreShapedBinds locals ∧ CoreShaped name ∧ CoreShaped body ∧ specsStartWithFor spec ∧ CoreShapedSpecs spec
    | .array items => CoreShapedExprs items
    | .arrayComp body spec => CoreShaped body ∧ specsStartWithFor spec ∧ CoreShapedSpecs spec
    | .index e i => CoreShaped e ∧ CoreShaped i
    | .slice e a b c => CoreShaped e ∧ CoreShapedOpt a ∧ CoreShapedOpt b ∧ CoreShapedOpt c
    | .call callee args _ => CoreShaped callee ∧ CoreShapedArgs args
    | .local_ bs body => CoreShapedBinds bs ∧ CoreShaped body
    | .if_ c t e => CoreShaped c ∧ CoreShaped t ∧ CoreShapedOpt e
    | .binary _ a b => CoreShaped a ∧ CoreShaped b
    | .objExt e ms => CoreShaped e ∧ CoreShapedMembers ms
    | .func ps body => CoreShapedParams ps ∧ CoreShaped body
    | .assert_ c m inner => CoreShaped c ∧ CoreShapedOpt m ∧ CoreShaped inner
    | .builtin b args => builtinArityOk b (exprsLength args) ∧ CoreShapedExprs args
  def CoreShapedOpt : OptExpr → Prop
    | .none => True
    | .some e => CoreShaped e
  def CoreShapedExprs : Exprs → Prop
    | .nil => True
    | .cons e rest => CoreShaped e ∧ CoreShapedExprs rest
  def CoreShapedArgs : Args → Prop
    | .nil => True
    | .pos e rest => CoreShaped e ∧ CoreShapedArgs rest
    | .named _ e rest => CoreShaped e ∧ CoreShapedArgs rest
  def CoreShapedBinds : Binds → Prop
    | .nil => True
    | .cons _ ps e rest => CoreShapedOptParams ps ∧ CoreShaped e ∧ CoreShapedBinds rest
  def CoreShapedOptParams : OptParams → Prop
    | .none => True
    | .some ps => CoreShapedParams ps
  def CoreShapedParams : Params → Prop
    | .nil => True
    | .cons _ d rest => CoreShapedOpt d ∧ CoreShapedParams rest
  def CoreShapedMembers : Members → Prop
    | .nil => True
    | .local_ _ ps e rest => CoreShapedOptParams ps ∧ CoreShaped e ∧ CoreShapedMembers rest
    | .assert_ c m rest => CoreShaped c ∧ CoreShapedOpt m ∧ CoreShapedMembers rest
    | .fieldFix _ _ _ ps e rest => CoreShapedOptParams ps ∧ CoreShaped e ∧ CoreShapedMembers rest
    | .fieldDyn n _ _ ps e rest => CoreShaped n ∧ CoreShapedOptParams ps ∧ CoreShaped e ∧ CoreShapedMembers rest
  def CoreShapedSpecs : Specs → Prop
    | .nil => True
    | .for_ _ e rest => CoreShaped e ∧ CoreShapedSpecs rest
    | .if_ c rest => CoreShaped c ∧ CoreShapedSpecs rest
end

namespace Safe

theorem CoreShaped_stripParen (e : Expr) (h : CoreShaped e) : CoreShaped (stripParen e) := by
  fun_induction stripParen e with
  | case1 e ih => exact ih (by simpa [CoreShaped] using h)
  | case2 e hne => exact h

theorem CoreShapedParams_mem : ∀ (ps : Params), CoreShapedParams ps → ∀ p ∈ paramsList ps, CoreShapedOpt p.2
  | .nil, _ => by simp [paramsList]
  | .cons n d rest, h => by
    simp only [CoreShapedParams] at h
    intro p hp
    simp only [paramsList, List.mem_cons] at hp
    rcases hp with rfl | hp
    · exact h.1
    · exact CoreShapedParams_mem rest h.2 p hp

theorem CoreShaped_bindExpr {ps : OptParams} {e : Expr} (h1 : CoreShapedOptParams ps) (h2 : CoreShaped e) :
    CoreShaped (bindExpr ps e) := by
  cases ps with
  | none => exact h2
  | some ps => simp only [bindExpr, CoreShaped]; exact ⟨by simpa [CoreShapedOptParams] using h1, h2⟩

theorem CoreShapedBinds_mem : ∀ (bs : Binds), CoreShapedBinds bs → ∀ p ∈ bindsList bs, CoreShaped p.2
  | .nil, _ => by simp [bindsList]
  | .cons n ps e rest, h => by
    simp only [CoreShapedBinds] at h
    intro p hp
    simp only [bindsList, List.mem_cons] at hp
    rcases hp with rfl | hp
    · exact CoreShaped_bindExpr h.1 h.2.1
    · exact CoreShapedBinds_mem rest h.2.2 p hp

theorem CoreShapedExprs_mem : ∀ (es : Exprs), CoreShapedExprs es → ∀ e ∈ exprsList es, CoreShaped e
  | .nil, _ => by simp [exprsList]
  | .cons e rest, h => by
    simp only [CoreShapedExprs] at h
    intro p hp
    simp only [exprsList, List.mem_cons] at hp
    rcases hp with rfl | hp
    · exact h.1
    · exact CoreShapedExprs_mem rest h.2 p hp

theorem exprsLength_eq : ∀ (es : Exprs), (exprsList es).length = exprsLength es
  | .nil => rfl
  | .cons e rest => by simp [exprsList, exprsLength, exprsLength_eq rest]

theorem CoreShapedArgs_mem : ∀ (as : Args), CoreShapedArgs as → ∀ p ∈ argsSplit as, CoreShaped p.2
  | .nil, _ => by simp [argsSplit]
  | .pos e rest, h => by
    simp only [CoreShapedArgs] at h
    intro p hp
    simp only [argsSplit, List.mem_cons] at hp
    rcases hp with rfl | hp
    · exact h.1
    · exact CoreShapedArgs_mem rest h.2 p hp
  | .named n e rest, h => by
    simp only [CoreShapedArgs] at h
    intro p hp
    simp only [argsSplit, List.mem_cons] at hp
    rcases hp with rfl | hp
    · exact h.1
    · exact CoreShapedArgs_mem rest h.2 p hp

/-- what `objectMember` needs of one member -/
def MemberShaped : Members → Prop
  | .fieldFix _ _ _ ps ve _ => CoreShaped (bindExpr ps ve)
  | .fieldDyn ne _ _ ps ve _ => CoreShaped ne ∧ CoreShaped (bindExpr ps ve)
  | _ => True

theorem CoreShapedMembers_mem : ∀ (ms : Members), CoreShapedMembers ms →
    (∀ p ∈ memberLocals ms, CoreShaped p.2) ∧
    (∀ a ∈ memberAsserts ms, CoreShaped a.1 ∧ CoreShapedOpt a.2) ∧
    (∀ m ∈ membersList ms, MemberShaped m)
  | .nil, _ => by simp [memberLocals, memberAsserts, membersList]
  | .local_ n ps e rest, h => by
    simp only [CoreShapedMembers] at h
    obtain ⟨h1, h2, h3⟩ := CoreShapedMembers_mem rest h.2.2
    simp only [memberLocals, memberAsserts, membersList, List.mem_cons, forall_eq_or_imp]
    exact ⟨⟨CoreShaped_bindExpr h.1 h.2.1, h1⟩, h2, trivial, h3⟩
  | .assert_ c m rest, h => by
    simp only [CoreShapedMembers] at h
    obtain ⟨h1, h2, h3⟩ := CoreShapedMembers_mem rest h.2.2
    simp only [memberLocals, memberAsserts, membersList, List.mem_cons, forall_eq_or_imp]
    exact ⟨h1, ⟨⟨h.1, h.2.1⟩, h2⟩, trivial, h3⟩
  | .fieldFix n p v ps e rest, h => by
    simp only [CoreShapedMembers] at h
    obtain ⟨h1, h2, h3⟩ := CoreShapedMembers_mem rest h.2.2
    simp only [memberLocals, memberAsserts, membersList, List.mem_cons, forall_eq_or_imp]
    exact ⟨h1, h2, CoreShaped_bindExpr h.1 h.2.1, h3⟩
  | .fieldDyn ne p v ps e rest, h => by
    simp only [CoreShapedMembers] at h
    obtain ⟨h1, h2, h3⟩ := CoreShapedMembers_mem rest h.2.2.2
    simp only [memberLocals, memberAsserts, membersList, List.mem_cons, forall_eq_or_imp]
    exact ⟨h1, h2, ⟨h.1, CoreShaped_bindExpr h.2.1 h.2.2.1⟩, h3⟩

theorem CoreShapedSpecs_mem : ∀ (sp : Specs), CoreShapedSpecs sp → ∀ p ∈ specsList sp, CoreShaped p.2
  | .nil, _ => by simp [specsList]
  | .for_ v e rest, h => by
    simp only [CoreShapedSpecs] at h
    intro p hp
    simp only [specsList, List.mem_cons] at hp
    rcases hp with rfl | hp
    · exact h.1
    · exact CoreShapedSpecs_mem rest h.2 p hp
  | .if_ c rest, h => by
    simp only [CoreShapedSpecs] at h
    intro p hp
    simp only [specsList, List.mem_cons] at hp
    rcases hp with rfl | hp
    · exact h.1
    · exact CoreShapedSpecs_mem rest h.2 p hp

theorem specsStartWithFor_list {sp : Specs} (h : specsStartWithFor sp) :
    ∃ v e rest, specsList sp = (some v, e) :: rest := by
  cases sp with
  | for_ v e rest => exact ⟨v, e, specsList rest, rfl⟩
  | nil => cases h
  | if_ => cases h

end Safe
end Rsj.Eval
