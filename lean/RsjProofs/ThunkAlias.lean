/-
  C04 alias transparency: the simulation between a store and the same store
  with an alias thunk `n ↦ force t; return` to which uses of `t` are redirected.
-/
import RsjProofs.ThunkExt
namespace Rsj.Thunk

/-- `p'` is `p` with some uses of thunk `t` redirected to thunk `t'`
    (no other use of `t'` occurs). -/
inductive Redir (t t' : Nat) : Prog → Prog → Prop
  | ret (v : Val) : Redir t t' (.ret v) (.ret v)
  | fail (e : Nat) : Redir t t' (.fail e) (.fail e)
  | trace (m : Nat) {k k' : Prog} : Redir t t' k k' → Redir t t' (.trace m k) (.trace m k')
  | force (u : Nat) {k k' : Val → Prog} : u ≠ t' → (∀ v, Redir t t' (k v) (k' v)) →
      Redir t t' (.force u k) (.force u k')
  | alias {k k' : Val → Prog} : (∀ v, Redir t t' (k v) (k' v)) →
      Redir t t' (.force t k) (.force t' k')

/-- Admissible states of the alias thunk relative to its target `t`. -/
def AliX (t : Nat) (s : St) (x : TState) : Prop :=
  x = .pending ∨ (x = .inProgress ∧ s.st t = some .inProgress) ∨
    ∃ v, x = .done v ∧ s.st t = some (.done v)

/-- `sp` is the store `s` (with `n` thunks) plus the alias thunk at index `n`. -/
structure Ali (t n : Nat) (s sp : St) : Prop where
  len : s.states.length = n
  wf : s.runs.length = n
  ex : ∃ x r, sp = s.extend x r ∧ AliX t s x

theorem AliX.of_st_eq {t : Nat} {s s' : St} {x : TState} (h : AliX t s x) (e : s'.st t = s.st t) :
    AliX t s' x := by
  unfold AliX at *; rw [e]; exact h

theorem Ali.emit {t n : Nat} {s sp : St} (h : Ali t n s sp) (m : Nat) : Ali t n (s.emit m) (sp.emit m) := by
  obtain ⟨x, r, e, hx⟩ := h.ex
  exact ⟨h.len, h.wf, x, r, by rw [e]; rfl, hx.of_st_eq rfl⟩

theorem Mono.ali_len {s s' : St} {n : Nat} (hm : Mono s s') (h1 : s.states.length = n)
    (h2 : s.runs.length = n) : s'.states.length = n ∧ s'.runs.length = n :=
  ⟨hm.len.trans h1, hm.rlen.trans h2⟩

section
variable {c c' : Code} {t n : Nat}

theorem Ali.st_ne {s sp : St} (ha : Ali t n s sp) {u : Nat} (hu : u ≠ n) : sp.st u = s.st u := by
  obtain ⟨x, r, e, _⟩ := ha.ex
  subst e
  rcases Nat.lt_or_ge u n with h | h
  · exact st_extend_lt x r (by rw [ha.len]; exact h)
  · rw [st_extend_gt x r (by rw [ha.len]; omega)]
    unfold St.st
    rw [List.getElem?_eq_none (by rw [ha.len]; exact h)]

theorem Ali.mark {s sp : St} (ha : Ali t n s sp) {u : Nat} (hu : s.st u = some .pending) :
    Ali t n (mark s u) (mark sp u) := by
  obtain ⟨x, r, e, hx⟩ := ha.ex
  subst e
  have hlt := st_some_lt hu
  refine ⟨by simpa using ha.len, by simpa using ha.wf, x, r,
    extend_mark_lt x r hlt (by rw [ha.wf, ← ha.len]; exact hlt), ?_⟩
  by_cases hut : u = t
  · subst hut
    rcases hx with hx | ⟨_, h2⟩ | ⟨v, _, h2⟩
    · exact .inl hx
    · rw [hu] at h2; cases h2
    · rw [hu] at h2; cases h2
  · exact hx.of_st_eq (st_mark_ne hut)

/-- `set_done` on an original thunk `u ≠ t`. -/
theorem Ali.setDone_ne {s sp : St} (ha : Ali t n s sp) {u : Nat} {v : Val}
    (hu : s.st u = some .inProgress) (hut : u ≠ t) :
    Ali t n (s.setState u (.done v)) (sp.setState u (.done v)) := by
  obtain ⟨x, r, e, hx⟩ := ha.ex
  subst e
  exact ⟨by simpa using ha.len, ha.wf, x, r, extend_setState_lt x r _ (st_some_lt hu),
    hx.of_st_eq (st_setState_ne hut)⟩

/-- `set_done` on `t` itself while the alias is not in progress. -/
theorem Ali.setDone_t {s sp : St} (ha : Ali t n s sp) {v : Val}
    (hu : s.st t = some .inProgress) (hx : sp.st n ≠ some .inProgress) :
    Ali t n (s.setState t (.done v)) (sp.setState t (.done v)) := by
  obtain ⟨x, r, e, hax⟩ := ha.ex
  subst e
  refine ⟨by simpa using ha.len, ha.wf, x, r, extend_setState_lt x r _ (st_some_lt hu), ?_⟩
  rcases hax with h | ⟨h, _⟩ | ⟨w, _, h2⟩
  · exact .inl h
  · subst h
    rw [← ha.len, st_extend_new] at hx
    exact absurd rfl hx
  · rw [hu] at h2; cases h2


/-- The headroom `H` of the run with the alias against the headroom `h` of the
    original run: one more level, except below the alias itself (while it is in
    progress the level it costs has been paid). -/
def HR (n : Nat) (sp : St) (h H : Nat) : Prop :=
  (sp.st n = some .inProgress → H = h) ∧ (sp.st n ≠ some .inProgress → H = h + 1)

theorem HR.congr {sp sp' : St} {h H : Nat} (hr : HR n sp h H)
    (e : sp'.st n = some .inProgress ↔ sp.st n = some .inProgress) : HR n sp' h H :=
  ⟨fun h1 => hr.1 (e.mp h1), fun h1 => hr.2 (fun h2 => h1 (e.mpr h2))⟩

/-- The alias thunk is in progress after a successful force iff it was before. -/
theorem busy_iff_of_ok {H u : Nat} {sp sp' : St} {v : Val} (f : force c' H u sp = (.ok v, sp')) :
    sp'.st n = some .inProgress ↔ sp.st n = some .inProgress := by
  have hm := force_mono_st c' H u sp
  have hc := force_clean c' H u sp
  rw [f] at hm hc
  exact ⟨hc v rfl n, hm.inProgress⟩

/-- The simulation statement for forcing an original thunk with headroom `h`. -/
def FS (c c' : Code) (t n h : Nat) : Prop :=
  ∀ u s sp r s' H, u ≠ n → Ali t n s sp → HR n sp h H → force c h u s = (r, s') →
    r ≠ .error .stackOverflow → ∃ sp', force c' H u sp = (r, sp') ∧ Ali t n s' sp'

/-- ... and for a use of `t` that was redirected to the alias `n`. -/
def AS (c c' : Code) (t n h : Nat) : Prop :=
  ∀ s sp r s' H, Ali t n s sp → HR n sp h H → force c h t s = (r, s') →
    r ≠ .error .stackOverflow → ∃ sp', force c' H n sp = (r, sp') ∧ Ali t n s' sp'

theorem runProg_alias {h : Nat} (hfs : FS c c' t n h) (has : AS c c' t n h) :
    ∀ p p', Redir t n p p' → ∀ s sp r s' H, Ali t n s sp → HR n sp h H →
      runProg (force c h) p s = (r, s') → r ≠ .error .stackOverflow →
      ∃ sp', runProg (force c' H) p' sp = (r, sp') ∧ Ali t n s' sp' := by
  intro p p' hred
  induction hred with
  | ret v => intro s sp r s' H ha _ e _; cases e; exact ⟨sp, rfl, ha⟩
  | fail e => intro s sp r s' H ha _ e _; cases e; exact ⟨sp, rfl, ha⟩
  | trace m _ ih => intro s sp r s' H ha hh e hr; exact ih _ _ r s' H (ha.emit m) hh e hr
  | @force u k k' hu _ ih =>
    intro s sp r s' H ha hh e hr
    rcases res_cases (force c h u s) with ⟨v, s1, e1⟩ | ⟨e', s1, e1⟩
    · rw [runProg_force_ok e1] at e
      obtain ⟨sp1, f1, ha1⟩ := hfs u s sp _ s1 H hu ha hh e1 (by simp)
      obtain ⟨sp', f2, ha2⟩ := ih v s1 sp1 r s' H ha1 (hh.congr (busy_iff_of_ok f1)) e hr
      exact ⟨sp', by rw [runProg_force_ok f1]; exact f2, ha2⟩
    · rw [runProg_force_error e1] at e
      cases e
      obtain ⟨sp1, f1, ha1⟩ := hfs u s sp _ _ H hu ha hh e1 hr
      exact ⟨sp1, by rw [runProg_force_error f1], ha1⟩
  | @alias k k' _ ih =>
    intro s sp r s' H ha hh e hr
    rcases res_cases (force c h t s) with ⟨v, s1, e1⟩ | ⟨e', s1, e1⟩
    · rw [runProg_force_ok e1] at e
      obtain ⟨sp1, f1, ha1⟩ := has s sp _ s1 H ha hh e1 (by simp)
      obtain ⟨sp', f2, ha2⟩ := ih v s1 sp1 r s' H ha1 (hh.congr (busy_iff_of_ok f1)) e hr
      exact ⟨sp', by rw [runProg_force_ok f1]; exact f2, ha2⟩
    · rw [runProg_force_error e1] at e
      cases e
      obtain ⟨sp1, f1, ha1⟩ := has s sp _ _ H ha hh e1 hr
      exact ⟨sp1, by rw [runProg_force_error f1], ha1⟩

/-- **Alias simulation.** With one more level of headroom (none below the alias
    itself) the run on the store with the alias thunk mirrors the original run. -/
theorem alias_sim (ht : t < n) (hcn : c' n = .force t .ret)
    (hred : ∀ u, u ≠ n → Redir t n (c u) (c' u)) :
    ∀ h, FS c c' t n h ∧ AS c c' t n h := by
  have htn : t ≠ n := by omega
  intro h
  induction h with
  | zero =>
    refine ⟨?_, ?_⟩
    · intro u s sp r s' H hu ha _ hf hr
      have hst := ha.st_ne hu
      rcases st_cases s u with h | h | h | ⟨v, h⟩
      · rw [force_none h] at hf; cases hf
        exact ⟨sp, force_none (by rw [hst, h]), ha⟩
      · rw [force_zero_pending h] at hf; cases hf; exact absurd rfl hr
      · rw [force_zero_inProgress h] at hf; cases hf; exact absurd rfl hr
      · rw [force_done h] at hf; cases hf
        exact ⟨sp, force_done (by rw [hst, h]), ha⟩
    · intro s sp r s' H ha hh hf hr
      rcases st_cases s t with h | h | h | ⟨v, h⟩
      · have := st_none_ge h; rw [ha.len] at this; omega
      · rw [force_zero_pending h] at hf; cases hf; exact absurd rfl hr
      · rw [force_zero_inProgress h] at hf; cases hf; exact absurd rfl hr
      · rw [force_done h] at hf; cases hf
        obtain ⟨x, r0, e, hx⟩ := ha.ex
        subst e
        have hnew : ∀ y q, (s.extend y q).st n = some y := fun y q => by
          rw [← ha.len]; exact st_extend_new _ _ _
        rcases hx with hx | ⟨_, h2⟩ | ⟨w, hx, h2⟩
        · subst hx
          have hH : H = 1 := hh.2 (by rw [hnew]; simp)
          subst hH
          have hmk : mark (s.extend .pending r0) n = s.extend .inProgress (r0 + 1) := by
            rw [← ha.len]; exact extend_mark_new _ _ (by rw [ha.wf, ha.len])
          have hft : force c' 0 t (s.extend .inProgress (r0 + 1)) = (.ok v, s.extend .inProgress (r0 + 1)) :=
            force_done (by rw [st_extend_lt _ _ (by rw [ha.len]; exact ht)]; exact h)
          refine ⟨s.extend (.done v) (r0 + 1), ?_, ha.len, ha.wf, _, _, rfl, .inr (.inr ⟨v, rfl, h⟩)⟩
          rw [force_succ_pending (hnew _ _), hcn, hmk, runProg_force_ok hft]
          simp only [runProg_ret, finish_ok]
          rw [← ha.len, extend_setState_new]
        · rw [h] at h2; cases h2
        · rw [h] at h2; cases h2
          subst hx
          exact ⟨_, force_done (hnew _ _), ha⟩
  | succ m ih =>
    obtain ⟨ihf, iha⟩ := ih
    have hrun := runProg_alias ihf iha
    refine ⟨?_, ?_⟩
    · intro u s sp r s' H hu ha hh hf hr
      have hst := ha.st_ne hu
      rcases st_cases s u with h | h | h | ⟨v, h⟩
      · rw [force_none h] at hf; cases hf
        exact ⟨sp, force_none (by rw [hst, h]), ha⟩
      · have hsp : sp.st u = some .pending := by rw [hst, h]
        -- the headroom of the body on the new side
        obtain ⟨H0, rfl, hh0⟩ : ∃ H0, H = H0 + 1 ∧ HR n (mark sp u) m H0 := by
          by_cases hb : sp.st n = some .inProgress
          · exact ⟨m, hh.1 hb, fun _ => rfl, fun h1 => absurd (by rw [st_mark_ne hu]; exact hb) h1⟩
          · exact ⟨m + 1, hh.2 hb, fun h1 => absurd (by rw [← st_mark_ne hu]; exact h1) hb, fun _ => rfl⟩
        rcases force_pending_cases (code := c) (n := m) h with ⟨v, s2, e, h2, e2⟩ | ⟨e', s2, e, h2, e2⟩
        · rw [e2] at hf; cases hf
          obtain ⟨sp2, f2, ha2⟩ := hrun _ _ (hred u hu) _ _ _ _ H0 (ha.mark h) hh0 e (by simp)
          refine ⟨sp2.setState u (.done v), by rw [force_succ_pending hsp, f2]; rfl, ?_⟩
          by_cases hut : u = t
          · subst hut
            refine ha2.setDone_t h2 (fun hx => ?_)
            -- the new run succeeded, so the alias was in progress before already
            have hcl := runProg_clean (force_clean c' H0) (c' u) (mark sp u)
            rw [f2] at hcl
            have := hcl v rfl n hx
            rw [st_mark_ne hu] at this
            obtain ⟨x, r0, e0, hx0⟩ := ha.ex
            subst e0
            rw [← ha.len, st_extend_new] at this
            cases this
            rcases hx0 with hx0 | ⟨_, h3⟩ | ⟨w, hx0, _⟩
            · cases hx0
            · rw [h] at h3; cases h3
            · cases hx0
          · exact ha2.setDone_ne h2 hut
        · rw [e2] at hf; cases hf
          obtain ⟨sp2, f2, ha2⟩ := hrun _ _ (hred u hu) _ _ _ _ H0 (ha.mark h) hh0 e hr
          exact ⟨sp2, by rw [force_succ_pending hsp, f2]; rfl, ha2⟩
      · rw [force_succ_inProgress h] at hf; cases hf
        obtain ⟨H0, rfl⟩ : ∃ H0, H = H0 + 1 := by
          by_cases hb : sp.st n = some .inProgress
          · exact ⟨m, hh.1 hb⟩
          · exact ⟨m + 1, hh.2 hb⟩
        exact ⟨sp, force_succ_inProgress (by rw [hst, h]), ha⟩
      · rw [force_done h] at hf; cases hf
        exact ⟨sp, force_done (by rw [hst, h]), ha⟩
    · intro s sp r s' H ha hh hf hr
      obtain ⟨x, r0, e0, hx⟩ := ha.ex
      subst e0
      have hnew : ∀ y q, (s.extend y q).st n = some y := fun y q => by
        rw [← ha.len]; exact st_extend_new _ _ _
      rcases hx with hx | ⟨hx, h2⟩ | ⟨w, hx, h2⟩
      · -- the alias is pending: it is marked, and forces `t`
        subst hx
        have hH : H = m + 2 := hh.2 (by rw [hnew]; simp)
        subst hH
        have hp := hnew .pending r0
        have hmk : mark (s.extend .pending r0) n = s.extend .inProgress (r0 + 1) := by
          rw [← ha.len]; exact extend_mark_new _ _ (by rw [ha.wf, ha.len])
        have hstt : (s.extend .inProgress (r0 + 1)).st t = s.st t :=
          st_extend_lt _ _ (by rw [ha.len]; exact ht)
        rcases st_cases s t with h | h | h | ⟨v, h⟩
        · have := st_none_ge h; rw [ha.len] at this; omega
        · -- `t` pending: its computation runs below the alias, with the same headroom
          have hlt := st_some_lt h
          have hmk2 : mark (s.extend .inProgress (r0 + 1)) t = (mark s t).extend .inProgress (r0 + 1) :=
            extend_mark_lt _ _ hlt (by rw [ha.wf, ← ha.len]; exact hlt)
          have ha1 : Ali t n (mark s t) (mark (s.extend .inProgress (r0 + 1)) t) :=
            ⟨by simpa using ha.len, by simpa using ha.wf, .inProgress, r0 + 1, hmk2,
              .inr (.inl ⟨rfl, st_mark_self (by rw [h]; simp)⟩)⟩
          have hh1 : HR n (mark (s.extend .inProgress (r0 + 1)) t) m m := by
            have : (mark (s.extend .inProgress (r0 + 1)) t).st n = some .inProgress := by
              rw [st_mark_ne htn]; exact hnew _ _
            exact ⟨fun _ => rfl, fun h1 => absurd this h1⟩
          rcases force_pending_cases (code := c) (n := m) h with ⟨v, s2, e, h2, e2⟩ | ⟨e', s2, e, h2, e2⟩
          · rw [e2] at hf; cases hf
            obtain ⟨sp2, f2, ha2⟩ := hrun _ _ (hred t htn) _ _ _ _ m ha1 hh1 e (by simp)
            obtain ⟨x2, r2, e2', _⟩ := ha2.ex
            subst e2'
            have hft : force c' (m + 1) t (s.extend .inProgress (r0 + 1)) =
                (.ok v, (s2.setState t (.done v)).extend x2 r2) := by
              rw [force_succ_pending (by rw [hstt, h]), f2]
              simp only [finish_ok]
              rw [extend_setState_lt _ _ _ (st_some_lt h2)]
            refine ⟨(s2.setState t (.done v)).extend (.done v) r2, ?_, by simpa using ha2.len, ha2.wf,
              _, _, rfl, .inr (.inr ⟨v, rfl, st_setState_self (by rw [h2]; simp)⟩)⟩
            rw [force_succ_pending hp, hcn, hmk, runProg_force_ok hft]
            simp only [runProg_ret, finish_ok]
            have : n = (s2.setState t (.done v)).states.length := by simpa using ha2.len.symm
            rw [this, extend_setState_new]
          · rw [e2] at hf; cases hf
            obtain ⟨sp2, f2, ha2⟩ := hrun _ _ (hred t htn) _ _ _ _ m ha1 hh1 e hr
            have hft : force c' (m + 1) t (s.extend .inProgress (r0 + 1)) = (.error e', sp2) := by
              rw [force_succ_pending (by rw [hstt, h]), f2]; rfl
            refine ⟨sp2, ?_, ha2⟩
            rw [force_succ_pending hp, hcn, hmk, runProg_force_error hft]; rfl
        · -- `t` in progress: infinite recursion on both sides
          rw [force_succ_inProgress h] at hf; cases hf
          have hft : force c' (m + 1) t (s.extend .inProgress (r0 + 1)) =
              (.error .infiniteRecursion, s.extend .inProgress (r0 + 1)) :=
            force_succ_inProgress (by rw [hstt, h])
          refine ⟨s.extend .inProgress (r0 + 1), ?_, ha.len, ha.wf, _, _, rfl, .inr (.inl ⟨rfl, h⟩)⟩
          rw [force_succ_pending hp, hcn, hmk, runProg_force_error hft]; rfl
        · -- `t` done: the alias copies the value
          rw [force_done h] at hf; cases hf
          have hft : force c' (m + 1) t (s.extend .inProgress (r0 + 1)) =
              (.ok v, s.extend .inProgress (r0 + 1)) :=
            force_done (by rw [hstt, h])
          refine ⟨s.extend (.done v) (r0 + 1), ?_, ha.len, ha.wf, _, _, rfl, .inr (.inr ⟨v, rfl, h⟩)⟩
          rw [force_succ_pending hp, hcn, hmk, runProg_force_ok hft]
          simp only [runProg_ret, finish_ok]
          rw [← ha.len, extend_setState_new]
      · subst hx
        have hH : H = m + 1 := hh.1 (hnew _ _)
        subst hH
        rw [force_succ_inProgress h2] at hf; cases hf
        exact ⟨_, force_succ_inProgress (hnew _ _), ha⟩
      · subst hx
        rw [force_done h2] at hf; cases hf
        exact ⟨_, force_done (hnew _ _), ha⟩

end
end Rsj.Thunk
