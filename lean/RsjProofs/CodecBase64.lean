/-
  Helper lemmas for C20 (base64): `encode_base64` / `decode_base64` of
  `RsjModel/Codec.lean`.
-/
import RsjModel.Codec
namespace Rsj.Codec

deriving instance DecidableEq for Except

/-- The alphabet character of a 6-bit index (proof-side name for `encmap[i]`). -/
def encChar (i : Nat) : Nat := (encIdx i).getD 0

theorem encIdx_eq : ∀ i, i < 64 → encIdx i = some (encChar i) := by decide
theorem chr_encChar : ∀ i, i < 64 → chrToIndex (encChar i) = .ok i := by decide
theorem encChar_ne_pad : ∀ i, i < 64 → encChar i ≠ PAD := by decide
theorem encChar_mem : ∀ i, i < 64 → encChar i ∈ encMap := by decide
theorem out0_eq : ∀ i0, i0 < 64 → ∀ i1, i1 < 64 → out0 i0 i1 = i0 * 4 + i1 / 16 := by decide
theorem out1_eq : ∀ i0, i0 < 64 → ∀ i1, i1 < 64 → out1 i0 i1 = i0 % 16 * 16 + i1 / 4 := by decide
theorem out2_eq : ∀ i0, i0 < 64 → ∀ i1, i1 < 64 → out2 i0 i1 = i0 % 4 * 64 + i1 := by decide

theorem and3 (b : Nat) : b &&& 3 = b % 4 := Nat.and_two_pow_sub_one_eq_mod b 2
theorem and15 (b : Nat) : b &&& 15 = b % 16 := Nat.and_two_pow_sub_one_eq_mod b 4
theorem and63 (b : Nat) : b &&& 63 = b % 64 := Nat.and_two_pow_sub_one_eq_mod b 6

theorem idx0_eq (b0 : Nat) : b0 >>> 2 = b0 / 4 := Nat.shiftRight_eq_div_pow b0 2

theorem idx1_eq (b0 b1 : Nat) (h1 : b1 < 256) :
    ((b0 &&& 3) <<< 4) ||| (b1 >>> 4) = b0 % 4 * 16 + b1 / 16 := by
  rw [and3, Nat.shiftRight_eq_div_pow, ← Nat.shiftLeft_add_eq_or_of_lt (by omega), Nat.shiftLeft_eq]

theorem idx1'_eq (b0 : Nat) : (b0 &&& 3) <<< 4 = b0 % 4 * 16 := by
  rw [and3, Nat.shiftLeft_eq]

theorem idx2_eq (b1 b2 : Nat) (h2 : b2 < 256) :
    ((b1 &&& 15) <<< 2) ||| (b2 >>> 6) = b1 % 16 * 4 + b2 / 64 := by
  rw [and15, Nat.shiftRight_eq_div_pow, ← Nat.shiftLeft_add_eq_or_of_lt (by omega), Nat.shiftLeft_eq]

theorem idx2'_eq (b1 : Nat) : (b1 &&& 15) <<< 2 = b1 % 16 * 4 := by
  rw [and15, Nat.shiftLeft_eq]

/-- Arithmetic form of `encode_base64` (RFC 4648 section 4). -/
def encSpec : List Nat → List Nat
  | [] => []
  | [b0] => [encChar (b0 / 4), encChar (b0 % 4 * 16), PAD, PAD]
  | [b0, b1] => [encChar (b0 / 4), encChar (b0 % 4 * 16 + b1 / 16), encChar (b1 % 16 * 4), PAD]
  | b0 :: b1 :: b2 :: rest =>
    encChar (b0 / 4) :: encChar (b0 % 4 * 16 + b1 / 16) :: encChar (b1 % 16 * 4 + b2 / 64) ::
      encChar (b2 % 64) :: encSpec rest

/-- The coded indexing never leaves the table for bytes; the result is `encSpec`. -/
theorem encode_eq_spec (bs : List Nat) (h : ∀ b ∈ bs, b < 256) : encode bs = some (encSpec bs) := by
  fun_induction encSpec bs with
  | case1 => rfl
  | case2 b0 =>
    have h0 : b0 < 256 := h b0 (by simp)
    unfold encode
    rw [idx0_eq, idx1'_eq, encIdx_eq _ (by omega), encIdx_eq _ (by omega)]
    rfl
  | case3 b0 b1 =>
    have h0 : b0 < 256 := h b0 (by simp)
    have h1 : b1 < 256 := h b1 (by simp)
    unfold encode
    rw [idx0_eq, idx1_eq _ _ h1, idx2'_eq, encIdx_eq _ (by omega), encIdx_eq _ (by omega),
      encIdx_eq _ (by omega)]
    rfl
  | case4 b0 b1 b2 rest ih =>
    have h0 : b0 < 256 := h b0 (by simp)
    have h1 : b1 < 256 := h b1 (by simp)
    have h2 : b2 < 256 := h b2 (by simp)
    have hr : ∀ b ∈ rest, b < 256 := fun b hb => h b (by simp [hb])
    unfold encode
    rw [idx0_eq, idx1_eq _ _ h1, idx2_eq _ _ h2, and63, encIdx_eq _ (by omega), encIdx_eq _ (by omega),
      encIdx_eq _ (by omega), encIdx_eq _ (by omega), ih hr]
    rfl

theorem decodeFull_enc {b0 b1 b2 : Nat} (h0 : b0 < 256) (h1 : b1 < 256) (h2 : b2 < 256) :
    decodeFull (encChar (b0 / 4)) (encChar (b0 % 4 * 16 + b1 / 16)) (encChar (b1 % 16 * 4 + b2 / 64))
      (encChar (b2 % 64)) = .ok [b0, b1, b2] := by
  unfold decodeFull
  rw [chr_encChar _ (by omega), chr_encChar _ (by omega), chr_encChar _ (by omega), chr_encChar _ (by omega)]
  simp only [bind, Except.bind, pure, Except.pure]
  rw [out0_eq _ (by omega) _ (by omega), out1_eq _ (by omega) _ (by omega), out2_eq _ (by omega) _ (by omega)]
  congr 2
  · omega
  · congr 1
    · omega
    · congr 1; omega

theorem decodeLast_enc3 {b0 b1 b2 : Nat} (h0 : b0 < 256) (h1 : b1 < 256) (h2 : b2 < 256) :
    decodeLast (encChar (b0 / 4)) (encChar (b0 % 4 * 16 + b1 / 16)) (encChar (b1 % 16 * 4 + b2 / 64))
      (encChar (b2 % 64)) = .ok [b0, b1, b2] := by
  unfold decodeLast
  rw [chr_encChar _ (by omega), chr_encChar _ (by omega)]
  simp only [bind, Except.bind, pure, Except.pure]
  have n3 : encChar (b2 % 64) ≠ PAD := encChar_ne_pad _ (by omega)
  rw [if_neg (by intro h; exact n3 h.2), if_neg n3]
  rw [chr_encChar _ (by omega), chr_encChar _ (by omega)]
  simp only
  rw [out0_eq _ (by omega) _ (by omega), out1_eq _ (by omega) _ (by omega), out2_eq _ (by omega) _ (by omega)]
  congr 2
  · omega
  · congr 1
    · omega
    · congr 1; omega

theorem decodeLast_enc2 {b0 b1 : Nat} (h0 : b0 < 256) (h1 : b1 < 256) :
    decodeLast (encChar (b0 / 4)) (encChar (b0 % 4 * 16 + b1 / 16)) (encChar (b1 % 16 * 4)) PAD
      = .ok [b0, b1] := by
  unfold decodeLast
  rw [chr_encChar _ (by omega), chr_encChar _ (by omega)]
  simp only [bind, Except.bind, pure, Except.pure]
  have n2 : encChar (b1 % 16 * 4) ≠ PAD := encChar_ne_pad _ (by omega)
  rw [if_neg (by intro h; exact n2 h.1)]
  simp only [↓reduceIte]
  rw [chr_encChar _ (by omega)]
  simp only
  rw [out0_eq _ (by omega) _ (by omega), out1_eq _ (by omega) _ (by omega)]
  congr 2
  · omega
  · congr 1; omega

theorem decodeLast_enc1 {b0 : Nat} (h0 : b0 < 256) :
    decodeLast (encChar (b0 / 4)) (encChar (b0 % 4 * 16)) PAD PAD = .ok [b0] := by
  unfold decodeLast
  rw [chr_encChar _ (by omega), chr_encChar _ (by omega)]
  simp only [bind, Except.bind, pure, Except.pure]
  simp only [and_self, ↓reduceIte]
  rw [out0_eq _ (by omega) _ (by omega)]
  congr 2
  omega

theorem encSpec_eq_nil {bs : List Nat} (h : encSpec bs = []) : bs = [] := by
  fun_cases encSpec bs <;> simp_all [encSpec]

theorem decodeChunks_spec (bs : List Nat) (h : ∀ b ∈ bs, b < 256) :
    decodeChunks (encSpec bs) = .ok bs := by
  fun_induction encSpec bs with
  | case1 => rfl
  | case2 b0 =>
    have h0 : b0 < 256 := h b0 (by simp)
    unfold decodeChunks
    exact decodeLast_enc1 h0
  | case3 b0 b1 =>
    have h0 : b0 < 256 := h b0 (by simp)
    have h1 : b1 < 256 := h b1 (by simp)
    unfold decodeChunks
    exact decodeLast_enc2 h0 h1
  | case4 b0 b1 b2 rest ih =>
    have h0 : b0 < 256 := h b0 (by simp)
    have h1 : b1 < 256 := h b1 (by simp)
    have h2 : b2 < 256 := h b2 (by simp)
    have hr : ∀ b ∈ rest, b < 256 := fun b hb => h b (by simp [hb])
    cases hrest : encSpec rest with
    | nil =>
      have := encSpec_eq_nil hrest
      subst this
      unfold decodeChunks
      exact decodeLast_enc3 h0 h1 h2
    | cons r0 rs =>
      unfold decodeChunks
      rw [decodeFull_enc h0 h1 h2, ← hrest, ih hr]
      rfl

theorem encSpec_length (bs : List Nat) : (encSpec bs).length = 4 * ((bs.length + 2) / 3) := by
  fun_induction encSpec bs with
  | case1 => rfl
  | case2 => simp
  | case3 => simp
  | case4 b0 b1 b2 rest ih =>
    simp only [List.length_cons, ih]
    omega

/-! ### Canonical form of the encoder's output -/

def padCount (n : Nat) : Nat := (3 - n % 3) % 3

theorem encSpec_canonical (bs : List Nat) (h : ∀ b ∈ bs, b < 256) :
    ∃ body, encSpec bs = body ++ List.replicate (padCount bs.length) PAD ∧ ∀ c ∈ body, c ∈ encMap := by
  fun_induction encSpec bs with
  | case1 => exact ⟨[], rfl, by simp⟩
  | case2 b0 =>
    have h0 : b0 < 256 := h b0 (by simp)
    refine ⟨[encChar (b0 / 4), encChar (b0 % 4 * 16)], rfl, ?_⟩
    intro c hc
    simp only [List.mem_cons, List.not_mem_nil, or_false] at hc
    rcases hc with rfl | rfl
    · exact encChar_mem _ (by omega)
    · exact encChar_mem _ (by omega)
  | case3 b0 b1 =>
    have h0 : b0 < 256 := h b0 (by simp)
    have h1 : b1 < 256 := h b1 (by simp)
    refine ⟨[encChar (b0 / 4), encChar (b0 % 4 * 16 + b1 / 16), encChar (b1 % 16 * 4)], rfl, ?_⟩
    intro c hc
    simp only [List.mem_cons, List.not_mem_nil, or_false] at hc
    rcases hc with rfl | rfl | rfl
    · exact encChar_mem _ (by omega)
    · exact encChar_mem _ (by omega)
    · exact encChar_mem _ (by omega)
  | case4 b0 b1 b2 rest ih =>
    have h0 : b0 < 256 := h b0 (by simp)
    have h1 : b1 < 256 := h b1 (by simp)
    have h2 : b2 < 256 := h b2 (by simp)
    have hr : ∀ b ∈ rest, b < 256 := fun b hb => h b (by simp [hb])
    obtain ⟨body, hb, hm⟩ := ih hr
    refine ⟨encChar (b0 / 4) :: encChar (b0 % 4 * 16 + b1 / 16) :: encChar (b1 % 16 * 4 + b2 / 64) ::
      encChar (b2 % 64) :: body, ?_, ?_⟩
    · rw [hb]
      have : padCount (b0 :: b1 :: b2 :: rest).length = padCount rest.length := by
        unfold padCount; simp only [List.length_cons]; omega
      rw [this]; rfl
    · intro c hc
      simp only [List.mem_cons] at hc
      rcases hc with rfl | rfl | rfl | rfl | hc
      · exact encChar_mem _ (by omega)
      · exact encChar_mem _ (by omega)
      · exact encChar_mem _ (by omega)
      · exact encChar_mem _ (by omega)
      · exact hm c hc

/-! ### The decoder accepts exactly the RFC 4648 section 4 strings -/

/-- RFC 4648 section 4: quadruples of alphabet characters, the last one possibly
    `xx==` or `xxx=`. -/
inductive B64Form : List Nat → Prop
  | nil : B64Form []
  | pad2 {a b : Nat} : a ∈ encMap → b ∈ encMap → B64Form [a, b, PAD, PAD]
  | pad1 {a b c : Nat} : a ∈ encMap → b ∈ encMap → c ∈ encMap → B64Form [a, b, c, PAD]
  | quad {a b c d : Nat} {rest : List Nat} : a ∈ encMap → b ∈ encMap → c ∈ encMap → d ∈ encMap →
      B64Form rest → B64Form (a :: b :: c :: d :: rest)

theorem alpha_small : ∀ c ∈ encMap, c < 128 := by decide
theorem alpha_ok_small : ∀ c, c < 128 → c ∈ encMap → (chrToIndex c).toOption.isSome = true := by decide
theorem ok_alpha_small : ∀ c, c < 128 → (chrToIndex c).toOption.isSome = true → c ∈ encMap := by decide
theorem pad_not_alpha : PAD ∉ encMap := by decide

theorem alpha_ok {c : Nat} (h : c ∈ encMap) : ∃ i, chrToIndex c = .ok i := by
  have := alpha_ok_small c (alpha_small c h) h
  cases hc : chrToIndex c with
  | ok i => exact ⟨i, rfl⟩
  | error e => rw [hc] at this; cases this

theorem ok_alpha {c i : Nat} (h : chrToIndex c = .ok i) : c ∈ encMap := by
  by_cases hs : c < 128
  · exact ok_alpha_small c hs (by rw [h]; rfl)
  · exfalso
    unfold chrToIndex at h
    repeat (split at h; omega)
    cases h

theorem bind_ok {ε α β : Type} {x : Except ε α} {f : α → Except ε β} {b : β}
    (h : (x >>= f) = .ok b) : ∃ a, x = .ok a ∧ f a = .ok b := by
  cases x with
  | error e => cases h
  | ok a => exact ⟨a, rfl, h⟩

theorem decodeFull_ok {c0 c1 c2 c3 : Nat} {bs : List Nat} (h : decodeFull c0 c1 c2 c3 = .ok bs) :
    c0 ∈ encMap ∧ c1 ∈ encMap ∧ c2 ∈ encMap ∧ c3 ∈ encMap := by
  unfold decodeFull at h
  obtain ⟨i0, h0, h⟩ := bind_ok h
  obtain ⟨i1, h1, h⟩ := bind_ok h
  obtain ⟨i2, h2, h⟩ := bind_ok h
  obtain ⟨i3, h3, h⟩ := bind_ok h
  exact ⟨ok_alpha h0, ok_alpha h1, ok_alpha h2, ok_alpha h3⟩

theorem decodeLast_ok {c0 c1 c2 c3 : Nat} {bs : List Nat} (h : decodeLast c0 c1 c2 c3 = .ok bs) :
    B64Form [c0, c1, c2, c3] := by
  unfold decodeLast at h
  obtain ⟨i0, h0, ha⟩ := bind_ok h
  obtain ⟨i1, h1, hb⟩ := bind_ok ha
  clear h ha
  split at hb
  · next hp => obtain ⟨rfl, rfl⟩ := hp; exact .pad2 (ok_alpha h0) (ok_alpha h1)
  · split at hb
    · next hp =>
      obtain ⟨i2, h2, hc⟩ := bind_ok hb
      rw [hp]
      exact .pad1 (ok_alpha h0) (ok_alpha h1) (ok_alpha h2)
    · obtain ⟨i2, h2, hc⟩ := bind_ok hb
      obtain ⟨i3, h3, hd⟩ := bind_ok hc
      exact .quad (ok_alpha h0) (ok_alpha h1) (ok_alpha h2) (ok_alpha h3) .nil

theorem decodeChunks_ok (cs : List Nat) : ∀ {bs : List Nat}, decodeChunks cs = .ok bs → B64Form cs := by
  fun_induction decodeChunks cs with
  | case1 => intro _ _; exact .nil
  | case2 c0 c1 c2 c3 => intro bs h; exact decodeLast_ok h
  | case3 c0 c1 c2 c3 rest hne ih =>
    intro bs h
    obtain ⟨a, ha, h⟩ := bind_ok h
    obtain ⟨b, hb, h⟩ := bind_ok h
    obtain ⟨m0, m1, m2, m3⟩ := decodeFull_ok ha
    exact .quad m0 m1 m2 m3 (ih hb)
  | case4 => intro _ h; cases h

theorem decodeLast_alpha {a b c d : Nat} (ha : a ∈ encMap) (hb : b ∈ encMap) (hc : c ∈ encMap)
    (hd : d ∈ encMap) : ∃ bs, decodeLast a b c d = .ok bs := by
  obtain ⟨i0, h0⟩ := alpha_ok ha
  obtain ⟨i1, h1⟩ := alpha_ok hb
  obtain ⟨i2, h2⟩ := alpha_ok hc
  obtain ⟨i3, h3⟩ := alpha_ok hd
  have nd : d ≠ PAD := fun h => pad_not_alpha (h ▸ hd)
  unfold decodeLast
  rw [h0, h1]
  simp only [bind, Except.bind, pure, Except.pure]
  rw [if_neg (fun h => nd h.2), if_neg nd, h2, h3]
  exact ⟨_, rfl⟩

theorem form_decodeChunks {cs : List Nat} (h : B64Form cs) : ∃ bs, decodeChunks cs = .ok bs := by
  induction h with
  | nil => exact ⟨[], rfl⟩
  | @pad2 a b ha hb =>
    obtain ⟨i0, h0⟩ := alpha_ok ha
    obtain ⟨i1, h1⟩ := alpha_ok hb
    unfold decodeChunks decodeLast
    rw [h0, h1]
    simp only [bind, Except.bind, pure, Except.pure, and_self, ↓reduceIte]
    exact ⟨_, rfl⟩
  | @pad1 a b c ha hb hc =>
    obtain ⟨i0, h0⟩ := alpha_ok ha
    obtain ⟨i1, h1⟩ := alpha_ok hb
    obtain ⟨i2, h2⟩ := alpha_ok hc
    have nc : c ≠ PAD := fun h => pad_not_alpha (h ▸ hc)
    unfold decodeChunks decodeLast
    rw [h0, h1]
    simp only [bind, Except.bind, pure, Except.pure]
    rw [if_neg (fun h => nc h.1)]
    simp only [↓reduceIte]
    rw [h2]
    exact ⟨_, rfl⟩
  | @quad a b c d rest ha hb hc hd hr ih =>
    obtain ⟨bs, hbs⟩ := ih
    cases rest with
    | nil =>
      unfold decodeChunks
      exact decodeLast_alpha ha hb hc hd
    | cons r0 rs =>
      obtain ⟨i0, h0⟩ := alpha_ok ha
      obtain ⟨i1, h1⟩ := alpha_ok hb
      obtain ⟨i2, h2⟩ := alpha_ok hc
      obtain ⟨i3, h3⟩ := alpha_ok hd
      unfold decodeChunks decodeFull
      rw [h0, h1, h2, h3, hbs]
      exact ⟨_, rfl⟩

theorem form_length {cs : List Nat} (h : B64Form cs) : cs.length % 4 = 0 := by
  induction h with
  | nil => rfl
  | pad2 => simp
  | pad1 => simp
  | quad _ _ _ _ _ ih => simp only [List.length_cons]; omega

theorem form_chars {cs : List Nat} (h : B64Form cs) : ∀ c ∈ cs, c ∈ encMap ∨ c = PAD := by
  induction h with
  | nil => intro c hc; cases hc
  | pad2 ha hb => intro c hc; simp only [List.mem_cons, List.not_mem_nil, or_false] at hc; grind
  | pad1 ha hb hc' => intro c hc; simp only [List.mem_cons, List.not_mem_nil, or_false] at hc; grind
  | quad ha hb hc' hd _ ih => intro c hc; simp only [List.mem_cons] at hc; grind

end Rsj.Codec
