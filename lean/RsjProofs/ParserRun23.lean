/-
  C15 print/parse, part 23: every tree the parser produces is in the second fragment — part 2:
  postfix forms, the explicit-stack machine, `parse_expr`, `parse_root_expr`.
-/
import RsjProofs.ParserRun22
import RsjProofs.ParserSpans3
namespace Rsj.Parser
variable {toks : List Token}

/-! ### building `Frag2` nodes -/

theorem F2.leaf {e : Expr} (hwf : NodeWF e) (hs : skids e = []) (hp : pkids e = []) : Frag2 e :=
  Frag2.mk' e hwf (by rw [hs]; intro x hx; cases hx) (by rw [hp]; intro x hx; cases hx)

theorem F2.paren {e : Expr} (sp : Span) (h : Frag2 e) : Frag2 (.paren e sp) :=
  Frag2.mk' _ trivial (by intro x hx; simp only [skids, List.mem_singleton] at hx; rw [hx]; exact h)
    (by intro x hx; cases hx)

theorem F2.unary {e : Expr} (op : UnaryOp) (sp : Span) (h : Frag2 e) : Frag2 (.unary op e sp) :=
  Frag2.mk' _ trivial (by intro x hx; simp only [skids, List.mem_singleton] at hx; rw [hx]; exact h)
    (by intro x hx; cases hx)

theorem F2.binary {l r : Expr} (op : BinaryOp) (sp : Span) (hl : Frag2 l) (hr : Frag2 r) :
    Frag2 (.binary l op r sp) :=
  Frag2.mk' _ trivial (by
    intro x hx
    simp only [skids, List.mem_cons, List.mem_nil_iff, or_false] at hx
    rcases hx with rfl | rfl <;> assumption) (by intro x hx; cases hx)

theorem F2.inSuper {e : Expr} (ssp sp : Span) (h : Frag2 e) : Frag2 (.inSuper e ssp sp) :=
  Frag2.mk' _ trivial (by intro x hx; simp only [skids, List.mem_singleton] at hx; rw [hx]; exact h)
    (by intro x hx; cases hx)

theorem F2.field {e : Expr} (n : Ident) (sp : Span) (h : Frag2 e) : Frag2 (.field e n sp) :=
  Frag2.mk' _ trivial (by intro x hx; simp only [skids, List.mem_singleton] at hx; rw [hx]; exact h)
    (by intro x hx; cases hx)

theorem F2.index {e i : Expr} (sp : Span) (h : Frag2 e) (hi : Frag2 i) : Frag2 (.index e i sp) :=
  Frag2.mk' _ trivial (by intro x hx; simp only [skids, List.mem_singleton] at hx; rw [hx]; exact h)
    (by intro x hx; simp only [pkids, List.mem_singleton] at hx; rw [hx]; exact hi)

theorem F2.slice {e : Expr} {i1 i2 i3 : Option Expr} (sp : Span) (h : Frag2 e) (h1 : GOpt i1) (h2 : GOpt i2)
    (h3 : GOpt i3) : Frag2 (.slice e i1 i2 i3 sp) :=
  Frag2.mk' _ trivial (by intro x hx; simp only [skids, List.mem_singleton] at hx; rw [hx]; exact h)
    (by
      intro x hx
      simp only [pkids, List.mem_append] at hx
      rcases hx with (hx | hx) | hx
      · exact h1 x hx
      · exact h2 x hx
      · exact h3 x hx)

theorem F2.call {f : Expr} {args : List Arg} (ts : Bool) (sp : Span) (h : Frag2 f) (ha : GArgs args) :
    Frag2 (.call f args ts sp) :=
  Frag2.mk' _ trivial (by intro x hx; simp only [skids, List.mem_singleton] at hx; rw [hx]; exact h)
    (by
      intro x hx
      simp only [pkids, List.mem_map] at hx
      obtain ⟨a, ha', rfl⟩ := hx
      exact ha a ha')

theorem F2.objExt {e : Expr} {o : ObjInside} (osp sp : Span) (h : Frag2 e) (ho : GObj o) :
    Frag2 (.objExt e o osp sp) :=
  Frag2.mk' _ ho.1 (by intro x hx; simp only [skids, List.mem_singleton] at hx; rw [hx]; exact h)
    (fun x hx => ho.2 x hx)

theorem F2.object {o : ObjInside} (sp : Span) (ho : GObj o) : Frag2 (.object o sp) :=
  Frag2.mk' _ ho.1 (by intro x hx; cases hx) (fun x hx => ho.2 x hx)

theorem F2.array {items : List Expr} (sp : Span) (h : GExprs items) : Frag2 (.array items sp) :=
  Frag2.mk' _ trivial (fun x hx => h x hx) (by intro x hx; cases hx)

theorem F2.arrayComp {e : Expr} {spec : List CompSpec} (sp : Span) (h : Frag2 e) (hw : SpecWF spec)
    (hs : GSpecs spec) : Frag2 (.arrayComp e spec sp) :=
  Frag2.mk' _ hw (by intro x hx; simp only [skids, List.mem_singleton] at hx; rw [hx]; exact h)
    (by
      intro x hx
      simp only [pkids, List.mem_map] at hx
      obtain ⟨s, hs', rfl⟩ := hx
      exact hs s hs')

theorem F2.superIndex {i : Expr} (ssp sp : Span) (hi : Frag2 i) : Frag2 (.superIndex ssp i sp) :=
  Frag2.mk' _ trivial (by intro x hx; cases hx)
    (by intro x hx; simp only [pkids, List.mem_singleton] at hx; rw [hx]; exact hi)

theorem F2.local_ {binds : List Bind} {body : Expr} (sp : Span) (hne : binds ≠ []) (hb : GBinds binds)
    (h : Frag2 body) : Frag2 (.local_ binds body sp) :=
  Frag2.mk' _ ⟨hne, fun b hb' => (hb b hb').1⟩ (by intro x hx; cases hx)
    (by
      intro x hx
      simp only [pkids, bindsExprs, List.mem_append, List.mem_flatMap, List.mem_singleton] at hx
      rcases hx with ⟨b, hb', hxb⟩ | rfl
      · exact (hb b hb').2 x hxb
      · exact h)

theorem F2.ite {c t : Expr} {e : Option Expr} (sp : Span) (hc : Frag2 c) (ht : Frag2 t) (he : GOpt e) :
    Frag2 (.ite_ c t e sp) :=
  Frag2.mk' _ trivial (by intro x hx; cases hx)
    (by
      intro x hx
      simp only [pkids, List.mem_cons] at hx
      rcases hx with rfl | rfl | hx
      · exact hc
      · exact ht
      · exact he x hx)

theorem F2.func {ps : List Param} {body : Expr} (sp : Span) (hp : GParams ps) (h : Frag2 body) :
    Frag2 (.func ps body sp) :=
  Frag2.mk' _ trivial (by intro x hx; cases hx)
    (by
      intro x hx
      simp only [pkids, List.mem_append, List.mem_singleton] at hx
      rcases hx with hx | rfl
      · exact hp x hx
      · exact h)

theorem F2.assert {a : Assert} {body : Expr} (sp : Span) (ha : GAssert a) (h : Frag2 body) :
    Frag2 (.assert_ a body sp) :=
  Frag2.mk' _ trivial (by intro x hx; cases hx)
    (by
      intro x hx
      simp only [pkids, List.mem_append, List.mem_singleton] at hx
      rcases hx with hx | rfl
      · exact ha x hx
      · exact h)

theorem F2.import_ {e : Expr} (sp : Span) (h : Frag2 e) : Frag2 (.import_ e sp) :=
  Frag2.mk' _ trivial (by intro x hx; cases hx)
    (by intro x hx; simp only [pkids, List.mem_singleton] at hx; rw [hx]; exact h)
theorem F2.importStr {e : Expr} (sp : Span) (h : Frag2 e) : Frag2 (.importStr e sp) :=
  Frag2.mk' _ trivial (by intro x hx; cases hx)
    (by intro x hx; simp only [pkids, List.mem_singleton] at hx; rw [hx]; exact h)
theorem F2.importBin {e : Expr} (sp : Span) (h : Frag2 e) : Frag2 (.importBin e sp) :=
  Frag2.mk' _ trivial (by intro x hx; cases hx)
    (by intro x hx; simp only [pkids, List.mem_singleton] at hx; rw [hx]; exact h)
theorem F2.error_ {e : Expr} (sp : Span) (h : Frag2 e) : Frag2 (.error_ e sp) :=
  Frag2.mk' _ trivial (by intro x hx; cases hx)
    (by intro x hx; simp only [pkids, List.mem_singleton] at hx; rw [hx]; exact h)

/-! ### postfix forms -/

section
variable {pe : PState toks → Except (Err toks) (Expr × PState toks)} (hpe : PeG pe)
include hpe

theorem g_sliceLast (st : PState toks) : Ok (sliceLast pe st) (fun r _ => GOpt r.1) := by
  unfold sliceLast
  refine Ok.bind (Ok.triv _) ?_
  intro rb st1 _
  cases rb with
  | some endSp => exact Ok.pure GOpt.none
  | none =>
    dsimp only
    refine Ok.bind (hpe st1) ?_
    intro i3 st2 h2
    dsimp only
    refine Ok.bind (Ok.triv _) ?_
    intro endSp st3 _
    exact Ok.pure (GOpt.some h2)

theorem g_sliceAfterColon (st : PState toks) :
    Ok (sliceAfterColon pe st) (fun r _ => GOpt r.1 ∧ GOpt r.2.1) := by
  unfold sliceAfterColon
  refine Ok.bind (Ok.triv _) ?_
  intro rb st1 _
  cases rb with
  | some endSp => exact Ok.pure ⟨GOpt.none, GOpt.none⟩
  | none =>
    dsimp only
    refine Ok.bind (Ok.triv _) ?_
    intro c st2 _
    cases c with
    | some _ =>
      dsimp only
      refine Ok.bind (g_sliceLast hpe st2) ?_
      intro r st3 h3
      obtain ⟨i3, endSp⟩ := r
      exact Ok.pure ⟨GOpt.none, h3⟩
    | none =>
      dsimp only
      refine Ok.bind (hpe st2) ?_
      intro i2 st3 h3
      dsimp only
      refine Ok.bind (Ok.triv _) ?_
      intro rb2 st4 _
      cases rb2 with
      | some endSp => exact Ok.pure ⟨GOpt.some h3, GOpt.none⟩
      | none =>
        dsimp only
        refine Ok.bind (Ok.triv _) ?_
        intro c2 st5 _
        cases c2 with
        | none => exact Ok.error
        | some _ =>
          dsimp only
          refine Ok.bind (g_sliceLast hpe st5) ?_
          intro r st6 h6
          obtain ⟨i3, endSp⟩ := r
          exact Ok.pure ⟨GOpt.some h3, h6⟩

theorem g_parseIndexExpr (lhs : Expr) (st : PState toks) (hl : Frag2 lhs) :
    Ok (parseIndexExpr pe lhs st) (fun e _ => Frag2 e) := by
  unfold parseIndexExpr
  refine Ok.bind (Ok.triv _) ?_
  intro c st1 _
  cases c with
  | some _ =>
    dsimp only
    refine Ok.bind (g_sliceAfterColon hpe st1) ?_
    intro r st2 h2
    obtain ⟨i2, i3, endSp⟩ := r
    exact Ok.pure (F2.slice _ hl GOpt.none h2.1 h2.2)
  | none =>
    dsimp only
    refine Ok.bind (Ok.triv _) ?_
    intro cc st2 _
    cases cc with
    | some _ =>
      dsimp only
      refine Ok.bind (g_sliceLast hpe st2) ?_
      intro r st3 h3
      obtain ⟨i3, endSp⟩ := r
      exact Ok.pure (F2.slice _ hl GOpt.none GOpt.none h3)
    | none =>
      dsimp only
      refine Ok.bind (hpe st2) ?_
      intro i1 st3 h3
      dsimp only
      refine Ok.bind (Ok.triv _) ?_
      intro rb st4 _
      cases rb with
      | some endSp => exact Ok.pure (F2.index _ hl h3)
      | none =>
        dsimp only
        refine Ok.bind (Ok.triv _) ?_
        intro c2 st5 _
        cases c2 with
        | some _ =>
          dsimp only
          refine Ok.bind (g_sliceAfterColon hpe st5) ?_
          intro r st6 h6
          obtain ⟨i2, i3, endSp⟩ := r
          exact Ok.pure (F2.slice _ hl (GOpt.some h3) h6.1 h6.2)
        | none =>
          dsimp only
          refine Ok.bind (Ok.triv _) ?_
          intro cc2 st6 _
          cases cc2 with
          | none => exact Ok.error
          | some _ =>
            dsimp only
            refine Ok.bind (g_sliceLast hpe st6) ?_
            intro r st7 h7
            obtain ⟨i3, endSp⟩ := r
            exact Ok.pure (F2.slice _ hl (GOpt.some h3) GOpt.none h7)

theorem g_parseSuffixExpr : ∀ (fuel : Nat) (lhs : Expr) (st : PState toks), Frag2 lhs →
    Ok (parseSuffixExpr pe fuel lhs st) (fun e _ => Frag2 e) := by
  intro fuel
  induction fuel with
  | zero => intro lhs st _; exact Ok.error
  | succ fuel ih =>
    intro lhs st hl
    unfold parseSuffixExpr
    refine Ok.bind (Ok.triv _) ?_
    intro dot st1 _
    cases dot with
    | some _ =>
      dsimp only
      refine Ok.bind (Ok.triv _) ?_
      intro name st2 _
      dsimp only
      exact ih _ st2 (F2.field _ _ hl)
    | none =>
      dsimp only
      refine Ok.bind (Ok.triv _) ?_
      intro lb st2 _
      cases lb with
      | some _ =>
        dsimp only
        refine Ok.bind (g_parseIndexExpr hpe lhs st2 hl) ?_
        intro e st3 h3
        dsimp only
        exact ih e st3 h3
      | none =>
        dsimp only
        refine Ok.bind (Ok.triv _) ?_
        intro lp st3 _
        cases lp with
        | some _ =>
          dsimp only
          refine Ok.bind (Ok.triv _) ?_
          intro rp st4 _
          dsimp only
          refine Ok.bind (P := fun r _ => GArgs r.1) ?_ ?_
          · cases rp with
            | some endSp => exact Ok.pure (by intro x hx; cases hx)
            | none => exact g_parseArgs hpe fuel st4
          · intro r st5 h5
            obtain ⟨args, endSp⟩ := r
            dsimp only at h5 ⊢
            refine Ok.bind (Ok.triv _) ?_
            intro ts st6 _
            dsimp only
            exact ih _ st6 (F2.call _ _ hl h5)
        | none =>
          dsimp only
          refine Ok.bind (Ok.triv _) ?_
          intro lbr st4 _
          cases lbr with
          | none => exact Ok.pure hl
          | some objStart =>
            dsimp only
            refine Ok.bind (g_parseObjInside hpe fuel st4) ?_
            intro r st5 h5
            obtain ⟨o, objEnd⟩ := r
            dsimp only at h5 ⊢
            exact ih _ st5 (F2.objExt _ _ hl h5)

theorem g_bindsLoop : ∀ (fuel : Nat) (acc : List Bind) (st : PState toks), GBinds acc → acc ≠ [] →
    Ok (bindsLoop pe fuel acc st) (fun r _ => GBinds r ∧ r ≠ []) := by
  intro fuel
  induction fuel with
  | zero => intro acc st _ _; exact Ok.error
  | succ fuel ih =>
    intro acc st hacc hne
    unfold bindsLoop
    refine Ok.bind (Ok.triv _) ?_
    intro c st1 _
    cases c with
    | none => exact Ok.pure ⟨hacc, hne⟩
    | some _ =>
      dsimp only
      refine Ok.bind (g_parseBind hpe fuel st1) ?_
      intro b st2 h2
      dsimp only
      exact ih _ st2 (hacc.append h2) (by simp)

end

/-! ### the machine -/

omit toks in
theorem g_parseMaybeSimpleExpr {toks : List Token} (st : PState toks) :
    Ok (parseMaybeSimpleExpr st) (fun r _ => ∀ e, r = some e → Frag2 e) := by
  unfold parseMaybeSimpleExpr
  refine Ok.bind (Ok.triv _) ?_
  intro r st1 _
  cases r with
  | some sp => exact Ok.pure (fun e h => by cases h; exact F2.leaf trivial rfl rfl)
  | none =>
  dsimp only
  refine Ok.bind (Ok.triv _) ?_
  intro r st2 _
  cases r with
  | some sp => exact Ok.pure (fun e h => by cases h; exact F2.leaf trivial rfl rfl)
  | none =>
  dsimp only
  refine Ok.bind (Ok.triv _) ?_
  intro r st3 _
  cases r with
  | some sp => exact Ok.pure (fun e h => by cases h; exact F2.leaf trivial rfl rfl)
  | none =>
  dsimp only
  refine Ok.bind (Ok.triv _) ?_
  intro r st4 _
  cases r with
  | some sp => exact Ok.pure (fun e h => by cases h; exact F2.leaf trivial rfl rfl)
  | none =>
  dsimp only
  refine Ok.bind (Ok.triv _) ?_
  intro r st5 _
  cases r with
  | some sp => exact Ok.pure (fun e h => by cases h; exact F2.leaf trivial rfl rfl)
  | none =>
  dsimp only
  refine Ok.bind (Ok.triv _) ?_
  intro r st6 _
  cases r with
  | some p => obtain ⟨s, sp⟩ := p; exact Ok.pure (fun e h => by cases h; exact F2.leaf trivial rfl rfl)
  | none =>
  dsimp only
  refine Ok.bind (Ok.triv _) ?_
  intro r st7 _
  cases r with
  | some p => obtain ⟨s, sp⟩ := p; exact Ok.pure (fun e h => by cases h; exact F2.leaf trivial rfl rfl)
  | none =>
  dsimp only
  refine Ok.bind (Ok.triv _) ?_
  intro r st8 _
  cases r with
  | some p => obtain ⟨s, sp⟩ := p; exact Ok.pure (fun e h => by cases h; exact F2.leaf trivial rfl rfl)
  | none =>
  dsimp only
  refine Ok.bind (Ok.triv _) ?_
  intro r st9 _
  cases r with
  | some i => exact Ok.pure (fun e h => by cases h; exact F2.leaf trivial rfl rfl)
  | none => exact Ok.pure (fun e h => by cases h)

/-- the trees stored on the stack are in the fragment -/
def StackG : List StackItem → Prop
  | [] => True
  | .binaryRhs _ lhs _ :: r => Frag2 lhs ∧ StackG r
  | .arrayItemN _ items :: r => GExprs items ∧ StackG r
  | .binaryLhs _ :: r => StackG r
  | .unary _ _ :: r => StackG r
  | .suffix :: r => StackG r
  | .arrayItem0 _ :: r => StackG r
  | .paren _ :: r => StackG r

def StateG : State → Prop
  | .parsed e => Frag2 e
  | .binaryRhs _ lhs => Frag2 lhs
  | _ => True

def StepG (r : List StackItem × State) : Prop := StackG r.1 ∧ StateG r.2

theorem stateG_next (k : BinKind) : StateG (nextStateOf k) := by
  unfold nextStateOf
  cases k.nextState <;> trivial

theorem g_unaryStep (stack : List StackItem) (st : PState toks) (h : StackG stack) :
    Ok (unaryStep stack st) (fun r _ => StepG r) := by
  unfold unaryStep
  refine Ok.bind (Ok.triv _) ?_
  intro r st1 _
  cases r with
  | some p =>
    obtain ⟨t, op, opSp⟩ := p
    exact Ok.pure ⟨h, trivial⟩
  | none => exact Ok.pure ⟨h, trivial⟩

theorem g_binaryRhsStep (k : BinKind) (lhs : Expr) (stack : List StackItem) (st : PState toks)
    (h : StackG stack) (hl : Frag2 lhs) : Ok (binaryRhsStep k lhs stack st) (fun r _ => StepG r) := by
  unfold binaryRhsStep
  refine Ok.bind (Ok.triv _) ?_
  intro r st1 _
  cases r with
  | none => exact Ok.pure ⟨h, hl⟩
  | some p =>
    obtain ⟨tok, op, sp⟩ := p
    dsimp only
    split
    · refine Ok.bind (Ok.triv _) ?_
      intro s st2 _
      cases s with
      | none => exact Ok.error
      | some superSp => exact Ok.pure ⟨h, F2.inSuper _ _ hl⟩
    · exact Ok.pure ⟨⟨hl, h⟩, stateG_next k⟩

section
variable {pe : PState toks → Except (Err toks) (Expr × PState toks)} (hpe : PeG pe)
include hpe

theorem g_parsedStep (fuel : Nat) (e : Expr) (item : StackItem) (stack : List StackItem) (st : PState toks)
    (h : StackG (item :: stack)) (he : Frag2 e) :
    Ok (parsedStep pe fuel e item stack st) (fun r _ => StepG r) := by
  cases item with
  | binaryLhs k => exact Ok.pure ⟨h, he⟩
  | binaryRhs k lhs op => exact Ok.pure ⟨h.2, F2.binary _ _ h.1 he⟩
  | unary op opSp => exact Ok.pure ⟨h, F2.unary _ _ he⟩
  | suffix =>
    unfold parsedStep
    refine Ok.bind (g_parseSuffixExpr hpe fuel e st he) ?_
    intro e' st1 h1
    exact Ok.pure ⟨h, h1⟩
  | paren startSp =>
    unfold parsedStep
    refine Ok.bind (Ok.triv _) ?_
    intro endSp st1 _
    exact Ok.pure ⟨h, F2.paren _ he⟩
  | arrayItem0 startSp =>
    unfold parsedStep
    refine Ok.bind (Ok.triv _) ?_
    intro comma st1 _
    dsimp only
    refine Ok.bind (g_maybeParseCompSpec hpe fuel st1) ?_
    intro cs st2 h5
    cases cs with
    | some spec =>
      dsimp only
      refine Ok.bind (Ok.triv _) ?_
      intro endSp st3 _
      exact Ok.pure ⟨h, F2.arrayComp _ he (h5 spec rfl).1 (h5 spec rfl).2⟩
    | none =>
      dsimp only
      refine Ok.bind (Ok.triv _) ?_
      intro rb st3 _
      have h1 : GExprs [e] := by intro x hx; simp only [List.mem_singleton] at hx; rw [hx]; exact he
      cases rb with
      | some endSp => exact Ok.pure ⟨h, F2.array _ h1⟩
      | none =>
        dsimp only
        split
        · exact Ok.pure ⟨⟨h1, h⟩, trivial⟩
        · exact Ok.error
  | arrayItemN startSp items =>
    unfold parsedStep
    dsimp only
    have h1 : GExprs (items ++ [e]) := h.1.append he
    refine Ok.bind (Ok.triv _) ?_
    intro comma st1 _
    dsimp only
    refine Ok.bind (Ok.triv _) ?_
    intro rb st2 _
    cases rb with
    | some endSp => exact Ok.pure ⟨h.2, F2.array _ h1⟩
    | none =>
      dsimp only
      split
      · exact Ok.pure ⟨⟨h1, h.2⟩, trivial⟩
      · exact Ok.error

theorem g_primaryStep (fuel : Nat) (stack : List StackItem) (st : PState toks) (h : StackG stack) :
    Ok (primaryStep pe fuel stack st) (fun r _ => StepG r) := by
  have kw : ∀ (mk : Expr → Span → Expr) (st2 : PState toks) (startSp : Span),
      (∀ e sp, Frag2 e → Frag2 (mk e sp)) →
      Ok (do
        let (e, st) ← pe st2
        pure ((stack, State.parsed (mk e (surround startSp e.span))), st))
        (fun r _ => StepG r) := by
    intro mk st2 startSp hmk
    refine Ok.bind (hpe st2) ?_
    intro e st3 h3
    exact Ok.pure ⟨h, hmk _ _ h3⟩
  unfold primaryStep
  refine Ok.bind (g_parseMaybeSimpleExpr st) ?_
  intro se st1 h1
  cases se with
  | some e => exact Ok.pure ⟨h, h1 e rfl⟩
  | none =>
  dsimp only
  refine Ok.bind (Ok.triv _) ?_
  intro r st2 _
  cases r with
  | some startSp =>
    dsimp only
    refine Ok.bind (g_parseObjInside hpe fuel st2) ?_
    intro r st3 h3
    obtain ⟨o, endSp⟩ := r
    exact Ok.pure ⟨h, F2.object _ h3⟩
  | none =>
  dsimp only
  refine Ok.bind (Ok.triv _) ?_
  intro r st3 _
  cases r with
  | some startSp =>
    dsimp only
    refine Ok.bind (Ok.triv _) ?_
    intro rb st4 _
    cases rb with
    | some endSp => exact Ok.pure ⟨h, F2.array _ (by intro x hx; cases hx)⟩
    | none => exact Ok.pure ⟨h, trivial⟩
  | none =>
  dsimp only
  refine Ok.bind (Ok.triv _) ?_
  intro r st4 _
  cases r with
  | some superSp =>
    dsimp only
    refine Ok.bind (Ok.triv _) ?_
    intro dot st5 _
    cases dot with
    | some _ =>
      dsimp only
      refine Ok.bind (Ok.triv _) ?_
      intro name st6 _
      exact Ok.pure ⟨h, F2.leaf trivial rfl rfl⟩
    | none =>
      dsimp only
      refine Ok.bind (Ok.triv _) ?_
      intro lb st6 _
      cases lb with
      | none => exact Ok.error
      | some _ =>
        dsimp only
        refine Ok.bind (hpe st6) ?_
        intro i st7 h7
        dsimp only
        refine Ok.bind (Ok.triv _) ?_
        intro endSp st8 _
        exact Ok.pure ⟨h, F2.superIndex _ _ h7⟩
  | none =>
  dsimp only
  refine Ok.bind (Ok.triv _) ?_
  intro r st5 _
  cases r with
  | some startSp =>
    dsimp only
    refine Ok.bind (g_parseBind hpe fuel st5) ?_
    intro b0 st6 h6
    dsimp only
    refine Ok.bind (g_bindsLoop hpe fuel [b0] st6 (by
      intro b hb; simp only [List.mem_singleton] at hb; rw [hb]; exact h6) (by simp)) ?_
    intro binds st7 h7
    dsimp only
    refine Ok.bind (Ok.triv _) ?_
    intro _ st8 _
    dsimp only
    refine Ok.bind (hpe st8) ?_
    intro inner st9 h9
    exact Ok.pure ⟨h, F2.local_ _ h7.2 h7.1 h9⟩
  | none =>
  dsimp only
  refine Ok.bind (Ok.triv _) ?_
  intro r st6 _
  cases r with
  | some ifSp =>
    dsimp only
    refine Ok.bind (hpe st6) ?_
    intro cond st7 h7
    dsimp only
    refine Ok.bind (Ok.triv _) ?_
    intro _ st8 _
    dsimp only
    refine Ok.bind (hpe st8) ?_
    intro thenB st9 h9
    dsimp only
    refine Ok.bind (Ok.triv _) ?_
    intro el st10 _
    cases el with
    | some _ =>
      dsimp only
      refine Ok.bind (hpe st10) ?_
      intro elseB st11 h11
      exact Ok.pure ⟨h, F2.ite _ h7 h9 (GOpt.some h11)⟩
    | none => exact Ok.pure ⟨h, F2.ite _ h7 h9 GOpt.none⟩
  | none =>
  dsimp only
  refine Ok.bind (Ok.triv _) ?_
  intro r st7 _
  cases r with
  | some startSp =>
    dsimp only
    refine Ok.bind (Ok.triv _) ?_
    intro _ st8 _
    dsimp only
    refine Ok.bind (g_parseParams hpe fuel st8) ?_
    intro r st9 h9
    obtain ⟨params, endSp⟩ := r
    dsimp only
    refine Ok.bind (hpe st9) ?_
    intro body st10 h10
    exact Ok.pure ⟨h, F2.func _ h9 h10⟩
  | none =>
  dsimp only
  refine Ok.bind (g_maybeParseAssert hpe false st7) ?_
  intro r st8 h8
  cases r with
  | some p =>
    obtain ⟨startSp, a⟩ := p
    dsimp only
    refine Ok.bind (Ok.triv _) ?_
    intro _ st9 _
    dsimp only
    refine Ok.bind (hpe st9) ?_
    intro inner st10 h10
    exact Ok.pure ⟨h, F2.assert _ (h8 (startSp, a) rfl) h10⟩
  | none =>
  dsimp only
  refine Ok.bind (Ok.triv _) ?_
  intro r st9 _
  cases r with
  | some startSp => exact kw Expr.import_ st9 startSp (fun _ sp he => F2.import_ sp he)
  | none =>
  dsimp only
  refine Ok.bind (Ok.triv _) ?_
  intro r st10 _
  cases r with
  | some startSp => exact kw Expr.importStr st10 startSp (fun _ sp he => F2.importStr sp he)
  | none =>
  dsimp only
  refine Ok.bind (Ok.triv _) ?_
  intro r st11 _
  cases r with
  | some startSp => exact kw Expr.importBin st11 startSp (fun _ sp he => F2.importBin sp he)
  | none =>
  dsimp only
  refine Ok.bind (Ok.triv _) ?_
  intro r st12 _
  cases r with
  | some startSp => exact kw Expr.error_ st12 startSp (fun _ sp he => F2.error_ sp he)
  | none =>
  dsimp only
  refine Ok.bind (Ok.triv _) ?_
  intro r st13 _
  cases r with
  | some startSp => exact Ok.pure ⟨h, trivial⟩
  | none => exact Ok.error

theorem g_exprLoop : ∀ (fuel : Nat) (stack : List StackItem) (state : State) (st : PState toks),
    StackG stack → StateG state → Ok (exprLoop pe fuel stack state st) (fun e _ => Frag2 e) := by
  intro fuel
  induction fuel with
  | zero => intro stack state st _ _; exact Ok.error
  | succ fuel ih =>
    intro stack state st hs hst
    have next : ∀ (m : Except (Err toks) ((List StackItem × State) × PState toks)),
        Ok m (fun r _ => StepG r) →
        Ok (do
          let ((stack, state), st) ← m
          exprLoop pe fuel stack state st) (fun e _ => Frag2 e) := by
      intro m hm
      refine Ok.bind hm ?_
      intro r st1 h1
      obtain ⟨stack', state'⟩ := r
      exact ih stack' state' st1 h1.1 h1.2
    unfold exprLoop
    cases state with
    | parsed e =>
      cases stack with
      | nil => exact Ok.pure hst
      | cons item stack => exact next _ (g_parsedStep hpe fuel e item stack st hs hst)
    | binary k => exact ih (.binaryLhs k :: stack) (nextStateOf k) st hs (stateG_next k)
    | binaryRhs k lhs => exact next _ (g_binaryRhsStep k lhs stack st hs hst)
    | unary => exact next _ (g_unaryStep stack st hs)
    | primary => exact next _ (g_primaryStep hpe fuel stack st hs)

omit hpe in
theorem g_parseExprF : ∀ fuel : Nat, PeG (toks := toks) (parseExprF fuel) := by
  intro fuel
  induction fuel with
  | zero => intro st; exact Ok.error
  | succ fuel ih =>
    intro st
    unfold parseExprF
    exact g_exprLoop ih fuel [] initState st trivial trivial

end

/-- **Every tree the parser produces is in the second fragment.** -/
theorem parse_ok_frag2 {toks : List Token} {e : Expr} (h : parse toks = .ok e) : Frag2 e := by
  unfold parse parseWithFuel at h
  split at h
  · cases h
  · next t r =>
    dsimp only at h
    split at h
    · next e' hroot =>
      cases h
      obtain ⟨st1, hp, _, _⟩ := parseRootF_ok hroot
      exact g_parseExprF _ _ _ _ hp
    · cases h
    · cases h

end Rsj.Parser
