/-
  The two models of the YAML emitter are the same functions:

  * `Rsj.Json.manifestYamlDoc` / `Rsj.Json.manifestYamlStream`  (`RsjModel/Json.lean`)
  * `Rsj.Yaml.manifestYamlDoc` / `Rsj.Yaml.manifestYamlStream`  (`RsjModel/Yaml.lean`)

  Main results: `manifestYamlDoc_eq_json`, `manifestYamlStream_eq_json`.
-/
import RsjModel.Yaml
namespace Rsj.Yaml
open Rsj.Json (Str JVal escape isSafeYamlPlain rep sNull sTrue sFalse)

/-! ## `strip_suffix('\n')` -/

theorem stripSuffixNl_snoc (b : Str) (c : Nat) :
    stripSuffixNl (b ++ [c]) = if c = 10 then some b else none := by
  induction b with
  | nil => simp [stripSuffixNl]
  | cons x b ih =>
    cases b with
    | nil =>
      show stripSuffixNl (x :: [c]) = _
      rw [stripSuffixNl]
      have h := ih
      simp only [List.nil_append] at h
      rw [h]
      split <;> simp
    | cons y b =>
      show stripSuffixNl (x :: y :: (b ++ [c])) = _
      rw [stripSuffixNl]
      have h : stripSuffixNl (y :: (b ++ [c])) = if c = 10 then some (y :: b) else none := ih
      rw [h]
      split <;> simp

theorem json_stripSuffixNl_snoc (b : Str) (c : Nat) :
    Rsj.Json.stripSuffixNl (b ++ [c]) = if c = 10 then some b else none := by
  unfold Rsj.Json.stripSuffixNl
  rw [List.reverse_append]
  show (match c :: b.reverse with
    | 10 :: r => some r.reverse
    | _ => none) = _
  by_cases h : c = 10
  · subst h
    simp
  · rw [if_neg h]
    split
    · rename_i r heq
      injection heq with h1 _
      exact absurd h1 h
    · rfl

theorem stripSuffixNl_eq_json (s : Str) :
    Rsj.Json.stripSuffixNl s = stripSuffixNl s := by
  rcases List.eq_nil_or_concat s with h | ⟨b, c, h⟩
  · subst h
    rfl
  · subst h
    rw [List.concat_eq_append, json_stripSuffixNl_snoc, stripSuffixNl_snoc]

/-- characterisation of the new `stripSuffixNl` -/
theorem stripSuffixNl_eq_some_iff (s b : Str) :
    stripSuffixNl s = some b ↔ s = b ++ [10] := by
  constructor
  · intro h
    rcases List.eq_nil_or_concat s with hs | ⟨b', c, hs⟩
    · subst hs
      simp [stripSuffixNl] at h
    · subst hs
      rw [List.concat_eq_append] at h ⊢
      rw [stripSuffixNl_snoc] at h
      by_cases hc : c = 10
      · subst hc
        simp at h
        subst h
        rfl
      · simp [hc] at h
  · intro h
    subst h
    simp [stripSuffixNl_snoc]

/-! ## `split('\n')` -/

theorem json_splitNl_eq (cur s : Str) :
    Rsj.Json.splitNl cur s = (cur.reverse ++ (splitNl s).1) :: (splitNl s).2 := by
  induction s generalizing cur with
  | nil => simp [Rsj.Json.splitNl, splitNl]
  | cons c r ih =>
    simp only [Rsj.Json.splitNl, splitNl]
    by_cases h : c = 10
    · simp [h, ih]
    · simp [h, ih]

theorem json_splitNl_nil (s : Str) : Rsj.Json.splitNl [] s = linesOf s := by
  rw [json_splitNl_eq]
  simp [linesOf]

/-! ## the block-scalar lines -/

theorem flatten_map_eq_blockLines (sub : Nat) (ls : List Str) :
    ((ls.map (fun line => 10 :: (rep sub Rsj.Json.yamlIndent ++ line))).flatten)
      = blockLines sub ls := by
  induction ls with
  | nil => rfl
  | cons l ls ih =>
    simp only [List.map_cons, List.flatten_cons, blockLines, ih]
    simp [indent, Rsj.Json.yamlIndent]

theorem yamlString_eq_json (s : Str) (depth : Nat) (pArr pObj : Bool) :
    yamlString s depth pArr pObj = Rsj.Json.yamlString s depth (pArr || pObj) := by
  unfold yamlString Rsj.Json.yamlString
  rw [stripSuffixNl_eq_json]
  cases stripSuffixNl s with
  | none => rfl
  | some body =>
    simp only [json_splitNl_nil, flatten_map_eq_blockLines]

theorem yamlKey_eq_json (qk : Bool) (k : Str) : yamlKey qk k = Rsj.Json.yamlKey qk k := rfl

theorem nlAfter_eq_json {α : Type} (xs : List α) : nlAfter xs = Rsj.Json.nlAfter xs := by
  cases xs <;> rfl

theorem lead_eq (pArr pObj : Bool) : lead pArr pObj = (if pArr || pObj then [32] else []) := rfl

theorem indent_eq_json : indent = Rsj.Json.yamlIndent := rfl

/-! ## the mutual recursion -/

mutual
theorem manifestYaml_eq_json (iaio qk : Bool) (depth : Nat) (pArr pObj : Bool) :
    (v : JVal) → manifestYaml iaio qk depth pArr pObj v
      = Rsj.Json.manifestYaml iaio qk depth pArr pObj v
  | .null => by simp only [manifestYaml, Rsj.Json.manifestYaml, lead_eq]
  | .bool true => by simp only [manifestYaml, Rsj.Json.manifestYaml, lead_eq]
  | .bool false => by simp only [manifestYaml, Rsj.Json.manifestYaml, lead_eq]
  | .num t => by simp only [manifestYaml, Rsj.Json.manifestYaml, lead_eq]
  | .str s => by
    simp only [manifestYaml, Rsj.Json.manifestYaml, lead_eq, yamlString_eq_json]
  | .arr [] => by simp only [manifestYaml, Rsj.Json.manifestYaml, lead_eq]
  | .arr (x :: xs) => by
    simp only [manifestYaml, Rsj.Json.manifestYaml]
    rw [yamlItems_eq_json iaio qk _ (x :: xs)]
  | .obj [] => by simp only [manifestYaml, Rsj.Json.manifestYaml, lead_eq]
  | .obj (kx :: xs) => by
    simp only [manifestYaml, Rsj.Json.manifestYaml]
    rw [yamlFields_eq_json iaio qk depth pArr (kx :: xs)]
theorem yamlItems_eq_json (iaio qk : Bool) (depth : Nat) :
    (xs : List JVal) → yamlItems iaio qk depth xs = Rsj.Json.yamlItems iaio qk depth xs
  | [] => by simp only [yamlItems, Rsj.Json.yamlItems]
  | x :: xs => by
    simp only [yamlItems, Rsj.Json.yamlItems]
    rw [manifestYaml_eq_json iaio qk (depth + 1) true false x,
      yamlItems_eq_json iaio qk depth xs, nlAfter_eq_json, indent_eq_json]
theorem yamlFields_eq_json (iaio qk : Bool) (depth : Nat) (skipIndent : Bool) :
    (xs : List (Str × JVal)) → yamlFields iaio qk depth skipIndent xs
      = Rsj.Json.yamlFields iaio qk depth skipIndent xs
  | [] => by simp only [yamlFields, Rsj.Json.yamlFields]
  | (k, x) :: xs => by
    simp only [yamlFields, Rsj.Json.yamlFields]
    rw [manifestYaml_eq_json iaio qk (depth + 1) false true x,
      yamlFields_eq_json iaio qk depth false xs, nlAfter_eq_json, indent_eq_json,
      yamlKey_eq_json]
end

/-! ## documents and streams -/

theorem manifestYamlDoc_eq_json (iaio qk : Bool) (v : Rsj.Json.JVal) :
    Rsj.Yaml.manifestYamlDoc iaio qk v = Rsj.Json.manifestYamlDoc iaio qk v := by
  unfold Rsj.Yaml.manifestYamlDoc Rsj.Json.manifestYamlDoc
  exact manifestYaml_eq_json iaio qk 0 false false v

theorem streamDocs_eq_json (iaio qk : Bool) :
    (docs : List JVal) → streamDocs iaio qk docs = Rsj.Json.yamlStreamDocs iaio qk docs
  | [] => by simp only [streamDocs, Rsj.Json.yamlStreamDocs]
  | [x] => by simp only [streamDocs, Rsj.Json.yamlStreamDocs, manifestYamlDoc_eq_json]
  | x :: y :: r => by
    simp only [streamDocs, Rsj.Json.yamlStreamDocs, manifestYamlDoc_eq_json]
    rw [streamDocs_eq_json iaio qk (y :: r)]

theorem manifestYamlStream_eq_json (iaio cde qk : Bool) (docs : List Rsj.Json.JVal) :
    Rsj.Yaml.manifestYamlStream iaio cde qk docs = Rsj.Json.manifestYamlStream iaio cde qk docs := by
  unfold Rsj.Yaml.manifestYamlStream Rsj.Json.manifestYamlStream
  rw [streamDocs_eq_json]

end Rsj.Yaml

#print axioms Rsj.Yaml.manifestYamlDoc_eq_json
#print axioms Rsj.Yaml.manifestYamlStream_eq_json
