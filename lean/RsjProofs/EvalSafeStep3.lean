import RsjProofs.EvalSafeStep2
/-!
  C01 on the evaluator model: `step` on the tasks other than the evaluation of an expression keeps
  every identifier in range; `set_done` always finds its thunk in progress; `manifest`, `equals`
  and `compare` return a string, a boolean, a number.
-/
open Std.Do
set_option mvcgen.warning false
namespace Rsj.Eval.Safe
open Rsj.Core Rsj.Eval Rsj.Eval.Scope

/-- forcing thunk `t`: the thunks in progress before stay in progress (`t` was pending) -/
theorem prog_force {s s1 s2 s3 : St} {t : Nat} {p : Pending} (h0 : s.thunks[t]? = some (.pending p))
    (h1 : Prog s s1) (h2 : Prog s1 s2) (h3 : ProgEx t s2 s3) : Prog s s3 := by
  intro u q hu
  have hut : u ≠ t := by rintro rfl; rw [h0] at hu; cases hu
  exact h3 u q hut (h2 u q (h1 u q hu))

/-- the invariant of a loop that may return a boolean early -/
def retBoolInv (s s1 : St) {β} : PostCond (β × (Option Value × Unit)) PS :=
  ⟨fun (_, r) st => ⌜Safe st ∧ Le s st ∧ SzLe s1 st ∧ ∀ v, r.1 = some v → ∃ b, v = .bool b⌝,
   fun e st => ⌜Safe st ∧ Good2 e ∧ SzLe s st⌝, fun _ => ⌜True⌝, ()⟩

theorem assert_shaped {s : St} {o : Nat} {ob : Obj} {pref suff : List (Nat × Layer)} {cur : Nat × Layer}
    {p2 s2 : List (Expr × OptExpr)} {a : Expr × OptExpr} (hS : Safe s) (hob : s.objs[o]? = some ob)
    (h1 : ob.layers.zipIdx.map (fun p => (p.2, p.1)) = pref ++ cur :: suff)
    (h2 : cur.2.asserts = p2 ++ a :: s2) : CoreShaped a.1 ∧ ∀ e, a.2 = .some e → CoreShaped e := by
  have hl := Safe.layer hS hob (zipIdx_split h1)
  have := hl.2.2.2.1 a (mem_of_split h2)
  refine ⟨this.1, fun e he => ?_⟩
  have h3 := this.2
  rw [he] at h3
  simpa only [CoreShapedOpt] using h3

theorem zip_split_left {α β} {l1 : List α} {l2 : List β} {pref suff : List (α × β)} {cur : α × β}
    (h : l1.zip l2 = pref ++ cur :: suff) : cur.1 ∈ l1 :=
  (List.of_mem_zip (a := cur.1) (b := cur.2) (mem_of_split h)).1

theorem zip_split_right {α β} {l1 : List α} {l2 : List β} {pref suff : List (α × β)} {cur : α × β}
    (h : l1.zip l2 = pref ++ cur :: suff) : cur.2 ∈ l2 :=
  (List.of_mem_zip (a := cur.1) (b := cur.2) (mem_of_split h)).2

def retBoolInv2 (s s1 : St) {β} : PostCond (β × (Option Value × Bool)) PS :=
  ⟨fun (_, r) st => ⌜Safe st ∧ Le s st ∧ SzLe s1 st ∧ ∀ v, r.1 = some v → ∃ b, v = .bool b⌝,
   fun e st => ⌜Safe st ∧ Good2 e ∧ SzLe s st⌝, fun _ => ⌜True⌝, ()⟩

macro "vcprep4" : tactic => `(tactic|
  ((try intros); (try simp only [retBoolInv, retBoolInv2] at *); vcprep3))

section
variable (cfg : Cfg) (rec : Task → M Value) (hrec : RecOk2 rec)
include hrec

theorem step_force2 (s : St) (t : TId) (d : Nat) (hS : Safe s) (ht : t < s.thunks.size) :
    ⦃fun st => ⌜st = s⌝⦄ step cfg rec (.force t d)
      ⦃Q2 s (fun v st => ValOk st.thunks.size st.objs.size st.funcs.size v)⦄ := by
  have h1 := switchState_spec2
  have h2 := thunkBody_spec2 cfg rec hrec
  have h3 := finishThunk_spec2
  qstart2
  unfold step
  mvcgen [h1, h2, h3]
  all_goals clear h1 h2 h3
  all_goals vcprep2
  all_goals first
    | s2close
    | (have hp := (by assumption : ∀ p, TState.pending _ = TState.pending p → _) _ rfl
       exact ⟨_, (by assumption : Prog _ _) _ _ hp.2.1⟩)
    | (have hp := (by assumption : ∀ p, TState.pending _ = TState.pending p → _) _ rfl
       exact ⟨by assumption, ⟨⟨by omega, by omega, by omega, by omega⟩,
         prog_force hp.2.2 (by assumption) (by assumption) (by assumption)⟩, by s2close⟩)

theorem step_asserts2 (s : St) (o : OId) (d : Nat) (hS : Safe s) (ho : o < s.objs.size) :
    ⦃fun st => ⌜st = s⌝⦄ step cfg rec (.asserts o d)
      ⦃Q2 s (fun v st => ValOk st.thunks.size st.objs.size st.funcs.size v)⦄ := by
  have h1 := getObj_spec2
  have h2 := setObj_spec2
  have h3 := layerEnv_spec2
  have h4 := coerceToString_spec2 rec hrec
  have hr := rec_spec2 rec hrec
  qstart2
  unfold step
  mvcgen [h1, h2, h3, h4, hr]
  on_invs exact loopInv s ‹St›
  all_goals clear h1 h2 h3 h4 hr
  all_goals vcprep3
  all_goals first
    | s3close
    | exact Safe.objs (by assumption) _ _ (by assumption) _ (by assumption)
    | (simp only [TaskOk2, EId]
       refine ⟨by omega, ?_⟩
       have h9 := assert_shaped hS (by assumption) (by assumption) (by assumption)
       exact h9.2 _ (by assumption))

set_option hygiene false in
macro "wcase" : tactic => `(tactic|
  (unfold step
   mvcgen [g1, g2, g3, g4, g5, h1, h8, hr]
   on_invs first | exact retBoolInv s ‹St› | exact retBoolInv2 s ‹St› | exact loopInv s ‹St›
   all_goals clear g1 g2 g3 g4 g5 h1 h8 hr
   all_goals vcprep4
   all_goals first
     | s3close
     | (have hm1 := zip_split_left (by assumption); have hm2 := zip_split_right (by assumption); lclose)))

set_option maxHeartbeats 2000000 in
theorem step_deep2 (s : St) (v : Value) (d : Nat) (hS : Safe s) (hT : TaskOk2 s (.deep v d)) :
    ⦃fun st => ⌜st = s⌝⦄ step cfg rec (.deep v d)
      ⦃Q2 s (fun v st => ValOk st.thunks.size st.objs.size st.funcs.size v ∧ ResKind (.deep v d) v)⦄ := by
  have g1 := getThunk_spec2
  have g2 := checkDepth_spec2
  have g3 := fieldThunk_spec2
  have g4 := getObj_spec2
  have g5 := numText_spec2
  have h1 := recStr_spec2 rec hrec
  have h8 := compareLists_spec2 cfg rec hrec
  have hr := rec_spec2 rec hrec
  qstart2
  wcase

set_option maxHeartbeats 2000000 in
theorem step_manifest2 (s : St) (v : Value) (d : Nat) (c : Bool) (hS : Safe s) (hT : TaskOk2 s (.manifest v d c)) :
    ⦃fun st => ⌜st = s⌝⦄ step cfg rec (.manifest v d c)
      ⦃Q2 s (fun v st => ValOk st.thunks.size st.objs.size st.funcs.size v ∧ ResKind (.manifest v d c) v)⦄ := by
  have g1 := getThunk_spec2
  have g2 := checkDepth_spec2
  have g3 := fieldThunk_spec2
  have g4 := getObj_spec2
  have g5 := numText_spec2
  have h1 := recStr_spec2 rec hrec
  have h8 := compareLists_spec2 cfg rec hrec
  have hr := rec_spec2 rec hrec
  qstart2
  wcase

end
end Rsj.Eval.Safe
