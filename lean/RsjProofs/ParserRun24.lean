/-
  C15 print/parse, part 24: the operator fragment `Frag` is contained in the second fragment.
-/
import RsjProofs.ParserRun23
namespace Rsj.Parser

/-- the operator fragment is part of the second fragment -/
theorem Frag.frag2 {e : Expr} (h : Frag e) : Frag2 e := by
  induction h with
  | null sp => exact F2.leaf trivial rfl rfl
  | bool b sp => exact F2.leaf trivial rfl rfl
  | selfObj sp => exact F2.leaf trivial rfl rfl
  | dollar sp => exact F2.leaf trivial rfl rfl
  | str s sp => exact F2.leaf trivial rfl rfl
  | textBlock s sp => exact F2.leaf trivial rfl rfl
  | number n sp => exact F2.leaf trivial rfl rfl
  | ident i sp => exact F2.leaf trivial rfl rfl
  | superField ssp name sp => exact F2.leaf trivial rfl rfl
  | superIndex ssp sp _ ih => exact F2.superIndex _ _ ih
  | paren sp _ ih => exact F2.paren _ ih
  | unary op sp _ ih => exact F2.unary _ _ ih
  | binary op sp _ _ ihl ihr => exact F2.binary _ _ ihl ihr
  | field name sp _ ih => exact F2.field _ _ ih
  | index sp _ _ ihe ihi => exact F2.index _ ihe ihi
  | inSuper ssp sp _ ih => exact F2.inSuper _ _ ih
  | call args ts sp _ _ ihf iha => exact F2.call _ _ ihf iha

end Rsj.Parser
