/-
  "Every file is evaluated at most once" for the whole-run evaluator of the
  import model (`runRoot` / `evalThunk` in `RsjModel/Import.lean`).

  The invariant carried through `evalThunk`'s fold: every traced id belongs to a
  thunk that is held by the session cache and is memoised or on the stack
  (`Good`).  Distinct cached thunks live at distinct real locations
  (`SInv` + `resolve_file_lookup`), so — when files at distinct locations carry
  distinct ids (`DistinctIds`) — a thunk that is neither memoised nor on the
  stack has an id that was not traced before.
-/
import RsjProofs.Import
namespace Rsj.Import

/-! ### Path resolution ends at the node stored at the returned location -/

theorem walkSeg_file (fs : FS) (todo : List String) :
    ∀ (cur real : List String) (b : List Nat) (r : Bool),
      fs.walkSeg cur todo = .done (.ok (real, .file b r)) → fs.lookup real = some (.file b r) := by
  induction todo with
  | nil => intro cur real b r h; simp [FS.walkSeg] at h
  | cons c rest ih =>
    intro cur real b r h
    unfold FS.walkSeg at h
    split at h
    · exact ih _ _ _ _ h
    · split at h
      · exact ih _ _ _ _ h
      · split at h
        · cases h
        · exact ih _ _ _ _ h
        · next b' r' hl =>
          split at h
          · cases h; exact hl
          · cases h
        · cases h

theorem walk_file (fs : FS) (fuel : Nat) :
    ∀ (cur todo real : List String) (b : List Nat) (r : Bool),
      fs.walk fuel cur todo = .ok (real, .file b r) → fs.lookup real = some (.file b r) := by
  induction fuel with
  | zero =>
    intro cur todo real b r h
    unfold FS.walk at h
    split at h
    · next res hs => subst h; exact walkSeg_file fs todo cur real b r hs
    · cases h
  | succ n ih =>
    intro cur todo real b r h
    unfold FS.walk at h
    split at h
    · next res hs => subst h; exact walkSeg_file fs todo cur real b r hs
    · exact ih _ _ _ _ _ h

theorem resolve_file_lookup (fs : FS) (p : String) (real : List String) (b : List Nat) (r : Bool)
    (h : fs.resolve p = .ok (real, .file b r)) : fs.lookup real = some (.file b r) := by
  unfold FS.resolve at h
  split at h
  · cases h
  · exact walk_file fs _ _ _ _ _ _ h

/-- A successful `fs::read` reads the readable file stored at the canonical location. -/
theorem read_ok_canon (fs : FS) (p c : String) (d : List Nat)
    (hr : fs.read p = .ok d) (hc : fs.canonicalize p = .ok c) :
    ∃ real, c = renderSegs true real ∧ fs.lookup real = some (.file d true) := by
  unfold FS.read at hr
  unfold FS.canonicalize at hc
  cases hres : fs.resolve p with
  | error e => rw [hres] at hr; cases hr
  | ok v =>
    obtain ⟨real, node⟩ := v
    rw [hres] at hr hc
    simp only [Except.ok.injEq] at hc
    cases node with
    | dir => cases hr
    | link t => cases hr
    | file b r =>
      cases r with
      | false => cases hr
      | true =>
        simp only [Except.ok.injEq] at hr
        subst hr
        exact ⟨real, hc.symm, resolve_file_lookup fs p real b true hres⟩

/-! ### `evalThunk`, unfolded once, with the fold's step function named -/

/-- The bytes a source was loaded from (as computed inside `evalThunk`). -/
def srcData (fs : FS) (src : Source) : List Nat :=
  match src.realPath with
  | some p => (match fs.read p with | .ok d => d | .error _ => [])
  | none => []

/-- The step function of `evalThunk`'s fold, with the recursive call abstracted
    (`rec stack st t'` = `evalThunk fs progs fuel stack st t'`). -/
def stepF (fs : FS) (progs : List (List Nat × Prog))
    (rec : List Nat → EvalState → Nat → EvalState × Except EvalErr Val)
    (t : Nat) (stack : List Nat) (src : Source)
    (acc : EvalState × Except EvalErr (List Val) × Nat) (op : Kind × String) :
    EvalState × Except EvalErr (List Val) × Nat :=
  match acc with
  | (st1, .error e, i) => (st1, .error e, i)
  | (st1, .ok vals, i) =>
    match op.1 with
    | .code =>
      match doImport fs (fun d => (progOf progs d).isSome) st1.session t op.2 with
      | (s2, .error e) => ({ st1 with session := s2 }, .error (.imp e src.reprPath i), i + 1)
      | (s2, .ok t') =>
        match rec (t :: stack) { st1 with session := s2 } t' with
        | (st2, .error e) => (st2, .error e, i + 1)
        | (st2, .ok v) => (st2, .ok (vals ++ [v]), i + 1)
    | .str =>
      match doImportStr fs st1.session t op.2 with
      | .err e => (st1, .error (.imp e src.reprPath i), i + 1)
      | .panic => (st1, .error .panic, i + 1)
      | .ok cs => (st1, .ok (vals ++ [.str cs]), i + 1)
    | .bin =>
      match doImportBin fs st1.session t op.2 with
      | .error e => (st1, .error (.imp e src.reprPath i), i + 1)
      | .ok bs => (st1, .ok (vals ++ [.bin bs]), i + 1)

theorem evalThunk_zero (fs : FS) (progs : List (List Nat × Prog)) (stack : List Nat) (st : EvalState) (t : Nat) :
    evalThunk fs progs 0 stack st t = (st, .error .fuel) := rfl

theorem evalThunk_succ (fs : FS) (progs : List (List Nat × Prog)) (fuel : Nat) (stack : List Nat)
    (st : EvalState) (t : Nat) :
    evalThunk fs progs (fuel + 1) stack st t =
      match memoGet st.memo t with
      | some v => (st, .ok v)
      | none =>
        if stack.contains t then (st, .error .cycle)
        else
          match st.session.sources[t]? with
          | none => (st, .error .panic)
          | some src =>
            match progOf progs (srcData fs src) with
            | none => (st, .error .panic)
            | some prog =>
              match prog.ops.foldl (stepF fs progs (evalThunk fs progs fuel) t stack src)
                  ({ st with traces := st.traces ++ [prog.id] }, .ok [], 0) with
              | (st3, .error e, _) => (st3, .error e)
              | (st3, .ok vals, _) =>
                ({ st3 with memo := (t, Val.node prog.id src.reprPath vals) :: st3.memo },
                  .ok (Val.node prog.id src.reprPath vals)) := rfl

/-! ### The session invariant: cached thunks sit at their canonical location -/

/-- Files at distinct real locations that are "node" files carry distinct ids. -/
def DistinctIds (fs : FS) (progs : List (List Nat × Prog)) : Prop :=
  ∀ (loc1 loc2 : List String) (b1 b2 : List Nat) (p1 p2 : Prog),
    fs.lookup loc1 = some (.file b1 true) → fs.lookup loc2 = some (.file b2 true) →
    progOf progs b1 = some p1 → progOf progs b2 = some p2 → p1.id = p2.id → loc1 = loc2

/-- Every cache entry `c ↦ t`: source `t` exists, was read successfully from a path
    whose canonical form is `c`. -/
def SInv (fs : FS) (s : Session) : Prop :=
  ∀ c t, cacheGet s.cache c = some t →
    ∃ src p d, s.sources[t]? = some src ∧ src.realPath = some p ∧
      fs.canonicalize p = .ok c ∧ fs.read p = .ok d

/-- Thunk `t` is held by the cache (only such thunks are ever handed to the evaluator). -/
def Cached (s : Session) (t : Nat) : Prop := ∃ c, cacheGet s.cache c = some t

/-- The session only grows. -/
def Ext (s s' : Session) : Prop :=
  (∀ c t, cacheGet s.cache c = some t → cacheGet s'.cache c = some t) ∧
  (∀ (i : Nat) (src : Source), s.sources[i]? = some src → s'.sources[i]? = some src)

/-- The id thunk `t` traces when evaluated. -/
def tid (fs : FS) (progs : List (List Nat × Prog)) (s : Session) (t : Nat) : Option String :=
  match s.sources[t]? with
  | none => none
  | some src => (progOf progs (srcData fs src)).map (·.id)

theorem Ext.refl (s : Session) : Ext s s := ⟨fun _ _ h => h, fun _ _ h => h⟩

theorem Ext.cached {s s' : Session} (h : Ext s s') {t : Nat} (hc : Cached s t) : Cached s' t := by
  obtain ⟨c, hc⟩ := hc
  exact ⟨c, h.1 c t hc⟩

theorem Ext.tid {fs : FS} {progs : List (List Nat × Prog)} {s s' : Session} (h : Ext s s') {t : Nat} {id : String}
    (ht : tid fs progs s t = some id) : tid fs progs s' t = some id := by
  unfold Rsj.Import.tid at ht ⊢
  cases hs : s.sources[t]? with
  | none => rw [hs] at ht; cases ht
  | some src => rw [hs] at ht; rw [h.2 t src hs]; exact ht

theorem sinv_ofJpaths (fs : FS) (jl : List String) : SInv fs (Session.ofJpaths jl) := by
  intro c t h
  simp [Session.ofJpaths, cacheGet] at h

theorem loadRealFile_sinv (fs : FS) (parses : List Nat → Bool) (s : Session) (path : String)
    (h : SInv fs s) : SInv fs (loadRealFile fs parses s path).1 := by
  unfold loadRealFile
  split
  · exact h
  · exact h
  · next norm hc =>
    split
    · exact h
    · next hmiss =>
      split
      · exact h
      · next data hr =>
        simp only
        split
        · intro c t hg
          simp only [cacheGet_cons] at hg
          by_cases hcn : norm = c
          · simp only [hcn, if_true, Option.some.injEq] at hg
            subst hg
            subst hcn
            refine ⟨{ reprPath := path, realPath := some path }, path, data, ?_, rfl, hc, hr⟩
            simp
          · simp only [hcn, if_false] at hg
            obtain ⟨src, p, d, h1, h2, h3, h4⟩ := h c t hg
            have hi : t < s.sources.length := (List.getElem?_eq_some_iff.mp h1).1
            refine ⟨src, p, d, ?_, h2, h3, h4⟩
            simp only
            rw [List.getElem?_append_left hi]; exact h1
        · intro c t hg
          obtain ⟨src, p, d, h1, h2, h3, h4⟩ := h c t hg
          have hi : t < s.sources.length := (List.getElem?_eq_some_iff.mp h1).1
          refine ⟨src, p, d, ?_, h2, h3, h4⟩
          simp only
          rw [List.getElem?_append_left hi]; exact h1

theorem loadRealFile_sources_ext (fs : FS) (parses : List Nat → Bool) (s : Session) (path : String)
    {i : Nat} {src : Source} (h : s.sources[i]? = some src) :
    (loadRealFile fs parses s path).1.sources[i]? = some src := by
  have hi : i < s.sources.length := (List.getElem?_eq_some_iff.mp h).1
  unfold loadRealFile
  split
  · exact h
  · exact h
  · split
    · exact h
    · split
      · exact h
      · simp only
        split
        · simp only; rw [List.getElem?_append_left hi]; exact h
        · simp only; rw [List.getElem?_append_left hi]; exact h

theorem loadRealFile_ext (fs : FS) (parses : List Nat → Bool) (s : Session) (path : String) :
    Ext s (loadRealFile fs parses s path).1 :=
  ⟨fun _ _ h => loadRealFile_cache_mono fs parses s path h,
   fun _ _ h => loadRealFile_sources_ext fs parses s path h⟩

theorem doImport_sinv (fs : FS) (parses : List Nat → Bool) (s : Session) (fromSrc : Nat) (path : String)
    (h : SInv fs s) : SInv fs (doImport fs parses s fromSrc path).1 := by
  unfold doImport
  split
  · exact h
  · exact loadRealFile_sinv _ _ _ _ h

theorem doImport_ext (fs : FS) (parses : List Nat → Bool) (s : Session) (fromSrc : Nat) (path : String) :
    Ext s (doImport fs parses s fromSrc path).1 := by
  unfold doImport
  split
  · exact Ext.refl s
  · exact loadRealFile_ext _ _ _ _

theorem loadRealFile_ok_cached (fs : FS) (parses : List Nat → Bool) (s : Session) (path : String) {t : Nat}
    (h : (loadRealFile fs parses s path).2 = .ok t) : Cached (loadRealFile fs parses s path).1 t := by
  obtain ⟨c, _, hg⟩ := loadRealFile_ok fs parses s path h
  exact ⟨c, hg⟩

theorem doImport_ok_cached (fs : FS) (parses : List Nat → Bool) (s : Session) (fromSrc : Nat) (path : String)
    {t : Nat} (h : (doImport fs parses s fromSrc path).2 = .ok t) :
    Cached (doImport fs parses s fromSrc path).1 t := by
  unfold doImport at h ⊢
  split at h
  · cases h
  · exact loadRealFile_ok_cached _ _ _ _ h

/-- Two cached thunks that trace the same id are the same thunk. -/
theorem tid_inj {fs : FS} {progs : List (List Nat × Prog)} (hA : DistinctIds fs progs) {s : Session}
    (hs : SInv fs s) {t1 t2 : Nat} {id : String} (h1 : Cached s t1) (h2 : Cached s t2)
    (e1 : tid fs progs s t1 = some id) (e2 : tid fs progs s t2 = some id) : t1 = t2 := by
  obtain ⟨c1, hc1⟩ := h1
  obtain ⟨c2, hc2⟩ := h2
  obtain ⟨src1, p1, d1, hs1, hp1, hk1, hr1⟩ := hs c1 t1 hc1
  obtain ⟨src2, p2, d2, hs2, hp2, hk2, hr2⟩ := hs c2 t2 hc2
  have hd1 : srcData fs src1 = d1 := by simp [srcData, hp1, hr1]
  have hd2 : srcData fs src2 = d2 := by simp [srcData, hp2, hr2]
  unfold tid at e1 e2
  rw [hs1] at e1
  rw [hs2] at e2
  simp only [hd1, hd2, Option.map_eq_some_iff] at e1 e2
  obtain ⟨pr1, hpr1, hid1⟩ := e1
  obtain ⟨pr2, hpr2, hid2⟩ := e2
  obtain ⟨real1, hc1', hl1⟩ := read_ok_canon fs p1 c1 d1 hr1 hk1
  obtain ⟨real2, hc2', hl2⟩ := read_ok_canon fs p2 c2 d2 hr2 hk2
  have : real1 = real2 := hA real1 real2 d1 d2 pr1 pr2 hl1 hl2 hpr1 hpr2 (hid1.trans hid2.symm)
  subst this
  have hcc : c1 = c2 := hc1'.trans hc2'.symm
  subst hcc
  rw [hc1] at hc2
  exact Option.some.inj hc2

/-! ### The evaluator invariant -/

/-- Every traced id belongs to a cached thunk that is memoised or on the stack;
    no id has been traced twice. -/
def Good (fs : FS) (progs : List (List Nat × Prog)) (st : EvalState) (stack : List Nat) : Prop :=
  SInv fs st.session ∧ st.traces.Nodup ∧
  ∀ id ∈ st.traces, ∃ t, Cached st.session t ∧ tid fs progs st.session t = some id ∧
    (memoGet st.memo t ≠ none ∨ t ∈ stack)

/-- What the invariant proof needs from a (recursive) evaluation. -/
def RecOK (fs : FS) (progs : List (List Nat × Prog))
    (rec : List Nat → EvalState → Nat → EvalState × Except EvalErr Val) : Prop :=
  ∀ stack st t, Good fs progs st stack → Cached st.session t →
    (rec stack st t).1.traces.Nodup ∧
    ∀ v, (rec stack st t).2 = .ok v → Good fs progs (rec stack st t).1 stack

/-- The fold's accumulator is fine: no id traced twice, and `Good` unless failed. -/
def AccOK (fs : FS) (progs : List (List Nat × Prog)) (stk : List Nat)
    (acc : EvalState × Except EvalErr (List Val) × Nat) : Prop :=
  acc.1.traces.Nodup ∧ ∀ vals, acc.2.1 = .ok vals → Good fs progs acc.1 stk

theorem good_session {fs : FS} {progs : List (List Nat × Prog)} {st : EvalState} {stk : List Nat} {s2 : Session}
    (h : Good fs progs st stk) (hs : SInv fs s2) (he : Ext st.session s2) :
    Good fs progs { st with session := s2 } stk := by
  obtain ⟨_, h2, h3⟩ := h
  refine ⟨hs, h2, ?_⟩
  intro id hid
  obtain ⟨t, a, b, c⟩ := h3 id hid
  exact ⟨t, he.cached a, he.tid b, c⟩

theorem stepF_ok {fs : FS} {progs : List (List Nat × Prog)}
    {rec : List Nat → EvalState → Nat → EvalState × Except EvalErr Val} (hrec : RecOK fs progs rec)
    (t : Nat) (stack : List Nat) (src : Source)
    (acc : EvalState × Except EvalErr (List Val) × Nat) (op : Kind × String)
    (h : AccOK fs progs (t :: stack) acc) : AccOK fs progs (t :: stack) (stepF fs progs rec t stack src acc op) := by
  obtain ⟨st1, r, i⟩ := acc
  cases r with
  | error e => exact h
  | ok vals =>
    have hg : Good fs progs st1 (t :: stack) := h.2 vals rfl
    unfold stepF
    simp only
    split
    · -- code
      cases hd : doImport fs (fun d => (progOf progs d).isSome) st1.session t op.2 with
      | mk s2 r2 =>
        have hs2 : s2 = (doImport fs (fun d => (progOf progs d).isSome) st1.session t op.2).1 := by rw [hd]
        have hg2 : Good fs progs { st1 with session := s2 } (t :: stack) :=
          good_session hg (hs2 ▸ doImport_sinv _ _ _ _ _ hg.1) (hs2 ▸ doImport_ext _ _ _ _ _)
        cases r2 with
        | error e => exact ⟨hg.2.1, fun _ hv => by cases hv⟩
        | ok t' =>
          have hc : Cached s2 t' := by
            have := doImport_ok_cached fs (fun d => (progOf progs d).isSome) st1.session t op.2 (t := t')
              (by rw [hd])
            rw [hd] at this; exact this
          have hr := hrec (t :: stack) { st1 with session := s2 } t' hg2 hc
          simp only
          cases hres : rec (t :: stack) { st1 with session := s2 } t' with
          | mk st2 r3 =>
            rw [hres] at hr
            cases r3 with
            | error e => exact ⟨hr.1, fun _ hv => by cases hv⟩
            | ok v => exact ⟨hr.1, fun _ _ => hr.2 v rfl⟩
    · -- str
      split
      · exact ⟨hg.2.1, fun _ hv => by cases hv⟩
      · exact ⟨hg.2.1, fun _ hv => by cases hv⟩
      · exact ⟨hg.2.1, fun _ _ => hg⟩
    · -- bin
      split
      · exact ⟨hg.2.1, fun _ hv => by cases hv⟩
      · exact ⟨hg.2.1, fun _ _ => hg⟩

theorem foldl_stepF_ok {fs : FS} {progs : List (List Nat × Prog)}
    {rec : List Nat → EvalState → Nat → EvalState × Except EvalErr Val} (hrec : RecOK fs progs rec)
    (t : Nat) (stack : List Nat) (src : Source) (ops : List (Kind × String)) :
    ∀ acc, AccOK fs progs (t :: stack) acc →
      AccOK fs progs (t :: stack) (ops.foldl (stepF fs progs rec t stack src) acc) := by
  induction ops with
  | nil => intro acc h; exact h
  | cons op rest ih => intro acc h; exact ih _ (stepF_ok hrec t stack src acc op h)

theorem memoGet_cons (k : Nat) (v : Val) (rest : List (Nat × Val)) (t : Nat) :
    memoGet ((k, v) :: rest) t = if k = t then some v else memoGet rest t := rfl

/-- **The invariant induction**: `evalThunk` never traces an id twice and keeps `Good`. -/
theorem evalThunk_ok {fs : FS} {progs : List (List Nat × Prog)} (hA : DistinctIds fs progs) (fuel : Nat) :
    RecOK fs progs (evalThunk fs progs fuel) := by
  induction fuel with
  | zero =>
    intro stack st t hg _
    rw [evalThunk_zero]
    exact ⟨hg.2.1, fun _ hv => by cases hv⟩
  | succ fuel ih =>
    intro stack st t hg hc
    rw [evalThunk_succ]
    split
    · exact ⟨hg.2.1, fun _ _ => hg⟩
    · next hmemo =>
      split
      · exact ⟨hg.2.1, fun _ hv => by cases hv⟩
      · next hstack =>
        split
        · exact ⟨hg.2.1, fun _ hv => by cases hv⟩
        · next src hsrc =>
          split
          · exact ⟨hg.2.1, fun _ hv => by cases hv⟩
          · next prog hprog =>
            have htid : tid fs progs st.session t = some prog.id := by
              unfold tid; rw [hsrc]; simp only [hprog, Option.map_some]
            have hnotin : prog.id ∉ st.traces := by
              intro hin
              obtain ⟨t', a, b, c⟩ := hg.2.2 prog.id hin
              have : t' = t := tid_inj hA hg.1 a hc b htid
              subst this
              rcases c with c | c
              · exact c hmemo
              · exact hstack (by simpa using c)
            have hacc0 : AccOK fs progs (t :: stack)
                (({ st with traces := st.traces ++ [prog.id] } : EvalState),
                  (.ok [] : Except EvalErr (List Val)), 0) := by
              have hnd : (st.traces ++ [prog.id]).Nodup := by
                rw [List.nodup_append]
                refine ⟨hg.2.1, by simp, ?_⟩
                intro a ha b hb
                simp only [List.mem_singleton] at hb
                subst hb
                intro hab; subst hab; exact hnotin ha
              refine ⟨hnd, fun _ _ => ⟨hg.1, hnd, ?_⟩⟩
              intro id hid
              simp only [List.mem_append, List.mem_singleton] at hid
              rcases hid with hid | hid
              · obtain ⟨t', a, b, c⟩ := hg.2.2 id hid
                refine ⟨t', a, b, ?_⟩
                rcases c with c | c
                · exact Or.inl c
                · exact Or.inr (List.mem_cons_of_mem _ c)
              · subst hid
                exact ⟨t, hc, htid, Or.inr (by simp)⟩
            have hfold := foldl_stepF_ok ih t stack src prog.ops _ hacc0
            cases hres : prog.ops.foldl (stepF fs progs (evalThunk fs progs fuel) t stack src)
                (({ st with traces := st.traces ++ [prog.id] } : EvalState),
                  (.ok [] : Except EvalErr (List Val)), 0) with
            | mk st3 rest =>
              obtain ⟨r, i⟩ := rest
              rw [hres] at hfold
              cases r with
              | error e => exact ⟨hfold.1, fun _ hv => by cases hv⟩
              | ok vals =>
                have hg3 : Good fs progs st3 (t :: stack) := hfold.2 vals rfl
                refine ⟨hfold.1, fun _ _ => ⟨hg3.1, hg3.2.1, ?_⟩⟩
                intro id hid
                obtain ⟨t', a, b, c⟩ := hg3.2.2 id hid
                refine ⟨t', a, b, ?_⟩
                simp only [memoGet_cons]
                by_cases htt : t = t'
                · left; simp [htt]
                · rcases c with c | c
                  · left; simp only [htt, if_false]; exact c
                  · right
                    rcases List.mem_cons.mp c with c | c
                    · exact absurd c.symm htt
                    · exact c

/-- The whole run: no id is traced twice. -/
theorem runRoot_traces_nodup (fs : FS) (progs : List (List Nat × Prog)) (jl : List String) (root : String)
    (hA : DistinctIds fs progs) : (runRoot fs progs jl root).1.traces.Nodup := by
  unfold runRoot
  simp only
  cases hl : loadRealFile fs (fun d => (progOf progs d).isSome) (Session.ofJpaths jl) root with
  | mk s1 r =>
    cases r with
    | error e => exact List.nodup_nil
    | ok t =>
      simp only
      have hs1 : s1 = (loadRealFile fs (fun d => (progOf progs d).isSome) (Session.ofJpaths jl) root).1 := by
        rw [hl]
      have hsinv : SInv fs s1 := hs1 ▸ loadRealFile_sinv _ _ _ _ (sinv_ofJpaths fs jl)
      have hc : Cached s1 t := by
        have := loadRealFile_ok_cached fs (fun d => (progOf progs d).isSome) (Session.ofJpaths jl) root (t := t)
          (by rw [hl])
        rw [hl] at this; exact this
      have hg : Good fs progs { session := s1, memo := [], traces := [] } [] :=
        ⟨hsinv, List.nodup_nil, fun _ h => by cases h⟩
      exact (evalThunk_ok hA _ [] _ t hg hc).1

/-! ### Sufficient conditions for `DistinctIds` -/

theorem progOf_mem {progs : List (List Nat × Prog)} {b : List Nat} {p : Prog} (h : progOf progs b = some p) :
    (b, p) ∈ progs := by
  induction progs with
  | nil => cases h
  | cons e rest ih =>
    obtain ⟨d, q⟩ := e
    unfold progOf at h
    split at h
    · next hd => cases h; subst hd; exact List.mem_cons_self
    · exact List.mem_cons_of_mem _ (ih h)

theorem nodup_map_inj {α β : Type} (f : α → β) : ∀ (l : List α), (l.map f).Nodup →
    ∀ x y, x ∈ l → y ∈ l → f x = f y → x = y := by
  intro l
  induction l with
  | nil => intro _ x y hx; cases hx
  | cons a rest ih =>
    intro hn x y hx hy hxy
    simp only [List.map_cons, List.nodup_cons, List.mem_map, not_exists, not_and] at hn
    rcases List.mem_cons.mp hx with hxa | hxr <;> rcases List.mem_cons.mp hy with hya | hyr
    · rw [hxa, hya]
    · rw [hxa] at hxy; exact absurd hxy.symm (hn.1 y hyr)
    · rw [hya] at hxy; exact absurd hxy (hn.1 x hxr)
    · exact ih hn.2 x y hxr hyr hxy

/-- The ids listed in `progs` are pairwise distinct and "node" files at distinct
    locations have distinct bytes ⇒ files at distinct locations carry distinct ids. -/
theorem distinctIds_of_nodup {fs : FS} {progs : List (List Nat × Prog)}
    (hid : (progs.map (fun p => p.2.id)).Nodup)
    (hbytes : ∀ (loc1 loc2 : List String) (b : List Nat), fs.lookup loc1 = some (.file b true) →
      fs.lookup loc2 = some (.file b true) → (progOf progs b).isSome → loc1 = loc2) :
    DistinctIds fs progs := by
  intro loc1 loc2 b1 b2 p1 p2 h1 h2 e1 e2 hpp
  have := nodup_map_inj (fun p : List Nat × Prog => p.2.id) progs hid _ _ (progOf_mem e1) (progOf_mem e2) hpp
  cases this
  exact hbytes loc1 loc2 b1 h1 h2 (by rw [e1]; rfl)

theorem lookup_file_mem {fs : FS} {loc : List String} {b : List Nat} {r : Bool}
    (h : fs.lookup loc = some (.file b r)) : (loc, Node.file b r) ∈ fs.entries := by
  unfold FS.lookup at h
  split at h
  · cases h
  · cases hf : fs.entries.find? (fun e => e.1 = loc) with
    | none => rw [hf] at h; cases h
    | some e =>
      rw [hf] at h
      simp only [Option.map_some, Option.some.injEq] at h
      have hm := List.mem_of_find?_eq_some hf
      have hp := List.find?_some hf
      simp only [decide_eq_true_eq] at hp
      obtain ⟨l, n⟩ := e
      simp only at h hp
      subst h; subst hp
      exact hm

/-- Executable sufficient check of `DistinctIds` over the entries of a concrete tree. -/
def distinctIdsB (fs : FS) (progs : List (List Nat × Prog)) : Bool :=
  fs.entries.all fun e1 => fs.entries.all fun e2 =>
    match e1.2, e2.2 with
    | .file b1 true, .file b2 true =>
      match progOf progs b1, progOf progs b2 with
      | some p1, some p2 => decide (p1.id = p2.id → e1.1 = e2.1)
      | _, _ => true
    | _, _ => true

theorem distinctIds_of_check {fs : FS} {progs : List (List Nat × Prog)} (h : distinctIdsB fs progs = true) :
    DistinctIds fs progs := by
  intro loc1 loc2 b1 b2 p1 p2 h1 h2 e1 e2 hpp
  unfold distinctIdsB at h
  rw [List.all_eq_true] at h
  have := h _ (lookup_file_mem h1)
  rw [List.all_eq_true] at this
  have := this _ (lookup_file_mem h2)
  simp only [e1, e2, decide_eq_true_eq] at this
  exact this hpp

end Rsj.Import
