/-
  Helper lemmas for C19: the shape of every numeric field
  (sign / prefix, zero padding, digits) and what the flags do to it.
-/
import RsjProofs.FormatHost
namespace Rsj.Format

/-- A numeric field: `pre` (sign, then `0x`/`0X`), zero padding, `body` (digits).
    The number of zeros is what `decorate_digits` / `render_int` / `render_hex` compute
    from the minimum digit count `md` and the minimum character count `mc`. -/
def Decorated (pre body : List Char) (mc md : Nat) (s : List Char) : Prop :=
  s = pre ++ List.replicate (max (md - body.length) (mc - (pre.length + body.length))) '0' ++ body

theorem Decorated.length {pre body s : List Char} {mc md : Nat} (h : Decorated pre body mc md s) :
    s.length = max mc (pre.length + max md body.length) := by
  rw [h]; simp only [List.length_append, List.length_replicate]; omega

/-- `zp` of `do_std_format_code` -/
def zpOf (c : Code) (fw : Nat) : Nat := if c.flags.zero && !c.flags.left then fw else 0
/-- `iprec` -/
def iprecOf (c : Code) (prec : Nat) : Nat := if c.prec.isSome then prec else 0
/-- `fpprec` -/
def fpprecOf (c : Code) (prec : Nat) : Nat := if c.prec.isSome then prec else 6

def isIntConv : Conv → Bool
  | .dec | .oct | .hexL | .hexU => true
  | _ => false

def isFloatConv : Conv → Bool
  | .expL | .expU | .fltL | .fltU | .gL | .gU => true
  | _ => false

/-- the `#` prefix that is kept outside the digit count (`0x` / `0X`; the octal `0`
    is part of the digits) -/
def prefixOf (c : Code) : List Char :=
  match c.conv with
  | .hexL => hexPrefix c.flags.alt false
  | .hexU => hexPrefix c.flags.alt true
  | _ => []

theorem absBits_absBits (b : Nat) : absBits (absBits b) = absBits b := by
  unfold absBits; exact Nat.mod_mod _ _

theorem truncAbs_absBits (b : Nat) : truncAbs (absBits b) = truncAbs b := by
  have h1 : absBits b % TWO52 = b % TWO52 := by
    unfold absBits
    exact Nat.mod_mod_of_dvd b (by decide : TWO52 ∣ TWO63)
  unfold truncAbs
  rw [absBits_absBits, h1]

theorem renderFloatDef_shape {h : Host} {b prec zp : Nat} {pl bl ep tz : Bool} {s : List Char}
    (hs : renderFloatDef h b prec zp pl bl ep tz = .ok s) :
    ∃ body, Decorated (signStr (isNegFlt b) pl bl) body zp 0 s := by
  unfold renderFloatDef at hs
  simp only at hs
  split at hs
  · cases hs
  · cases hs; exact ⟨_, rfl⟩

theorem renderFloatExp_shape {h : Host} {b prec zp : Nat} {pl bl ep tz up : Bool} {s : List Char}
    (hs : renderFloatExp h b prec zp pl bl ep tz up = .ok s) :
    ∃ body, Decorated (signStr (isNegFlt b) pl bl) body zp 0 s := by
  unfold renderFloatExp at hs
  simp only at hs
  split at hs
  · cases hs
  · split at hs
    · cases hs
    · split at hs
      · cases hs
      · cases hs; exact ⟨_, rfl⟩

theorem renderFloatG_shape {h : Host} {b fpprec zp : Nat} {pl bl alt up : Bool} {s : List Char}
    (hs : renderFloatG h b fpprec zp pl bl alt up = .ok s) :
    ∃ body, Decorated (signStr (isNegFlt b) pl bl) body zp 0 s := by
  unfold renderFloatG at hs
  split at hs
  · cases hs
  · split at hs
    · exact renderFloatExp_shape hs
    · split at hs
      · cases hs
      · exact renderFloatDef_shape hs

theorem needNum_ok {k : Char} {v : Val} {b : Nat} (h : needNum k v = .ok b) : v = .num b := by
  unfold needNum at h
  split at h
  · cases h; rfl
  · cases h

/-- Integer conversions: sign of the truncated value, `0x` prefix outside the digit
    count, at least `precision` digits, zero padding to the width if `0` without `-`. -/
theorem renderCode_int_shape {h : Host} {c : Code} {fw prec : Nat} {v : Val} {s : List Char}
    (hc : isIntConv c.conv = true) (hs : renderCode h c fw prec v = .ok s) :
    ∃ b body, v = .num b ∧
      Decorated (signStr (isNegInt b) c.flags.plus c.flags.blank ++ prefixOf c) body
        (zpOf c fw) (iprecOf c prec) s ∧
      (c.conv = .dec → displayInt h (absBits b) = .ok body) ∧
      (c.conv = .oct → body = octDigits (truncAbs b) (if c.flags.alt then ['0'] else [])) ∧
      (c.conv = .hexL → body = hexDigits (truncAbs b) false) ∧
      (c.conv = .hexU → body = hexDigits (truncAbs b) true) := by
  unfold renderCode at hs
  simp only at hs
  split at hs <;> (try (simp [isIntConv, *] at hc; done))
  · next hconv =>
    split at hs
    · cases hs
    · next b hb =>
      split at hs
      · cases hs
      · next ds hds =>
        cases hs
        refine ⟨b, ds, needNum_ok hb, ?_, fun _ => hds, ?_, ?_, ?_⟩
        · unfold Decorated prefixOf zpOf iprecOf; rw [hconv, decorate_eq]; simp
        all_goals (intro h'; rw [hconv] at h'; cases h')
  · next hconv =>
    split at hs
    · cases hs
    · next b hb =>
      cases hs
      refine ⟨b, _, needNum_ok hb, ?_, ?_, fun _ => rfl, ?_, ?_⟩
      · unfold Decorated prefixOf zpOf iprecOf; rw [hconv, renderInt_eq]; simp
      all_goals (intro h'; rw [hconv] at h'; cases h')
  · next hconv =>
    split at hs
    · cases hs
    · next b hb =>
      cases hs
      refine ⟨b, _, needNum_ok hb, ?_, ?_, ?_, fun _ => rfl, ?_⟩
      · unfold Decorated prefixOf zpOf iprecOf; rw [hconv, renderHex_eq]
      all_goals (intro h'; rw [hconv] at h'; cases h')
  · next hconv =>
    split at hs
    · cases hs
    · next b hb =>
      cases hs
      refine ⟨b, _, needNum_ok hb, ?_, ?_, ?_, ?_, fun _ => rfl⟩
      · unfold Decorated prefixOf zpOf iprecOf; rw [hconv, renderHex_eq]
      all_goals (intro h'; rw [hconv] at h'; cases h')

theorem float_wrap {v : Val} {b zp : Nat} {pl bl : Bool} {s : List Char} (hv : v = .num b)
    (h : ∃ body, Decorated (signStr (isNegFlt b) pl bl) body zp 0 s) :
    ∃ b body, v = .num b ∧ Decorated (signStr (isNegFlt b) pl bl) body zp 0 s := by
  obtain ⟨body, hb⟩ := h; exact ⟨b, body, hv, hb⟩

/-- Floating conversions: sign of the value itself (negative zero: none), no minimum
    digit count, zero padding to the width if `0` without `-`. -/
theorem renderCode_float_shape {h : Host} {c : Code} {fw prec : Nat} {v : Val} {s : List Char}
    (hc : isFloatConv c.conv = true) (hs : renderCode h c fw prec v = .ok s) :
    ∃ b body, v = .num b ∧
      Decorated (signStr (isNegFlt b) c.flags.plus c.flags.blank) body (zpOf c fw) 0 s := by
  unfold renderCode at hs
  simp only at hs
  split at hs <;> (try (simp [isFloatConv, *] at hc; done))
  all_goals
    split at hs
    · cases hs
    · next b hb =>
      first
        | exact float_wrap (needNum_ok hb) (renderFloatExp_shape hs)
        | exact float_wrap (needNum_ok hb) (renderFloatDef_shape hs)
        | exact float_wrap (needNum_ok hb) (renderFloatG_shape hs)

end Rsj.Format
