/-
  Helper lemmas for C19: resolved (`*`) widths, host-independence of the machines,
  the `%%` directive.
-/
import RsjProofs.FormatFlags
import RsjProofs.FormatParse
namespace Rsj.Format

/-- The width a directive is rendered with in array mode: none = 0, inline, or the
    `*` argument (a number whose truncation fits `u32`). -/
def resolvedWidth (c : Code) (arr : List Val) (i : Nat) : Option Nat :=
  match c.fw with
  | none => some 0
  | some (.inline n) => some n
  | some .ext =>
    match arr[i]? with
    | some (.num b) => tryU32 b
    | _ => none

theorem evalWidth_val_ok {v : Val} {n : Nat} (h : evalWidth (.val v) = .ok n) :
    ∃ b, v = .num b ∧ tryU32 b = some n := by
  unfold evalWidth at h
  split at h
  · next heq => cases heq
  · next heq => cases heq
  · next b heq =>
    cases heq
    split at h
    · next m hm => cases h; exact ⟨b, rfl, hm⟩
    · cases h
  · cases h

/-- A rendered field is padded to its resolved width; the unpadded text is `%` for `%%`
    and the rendering of the consumed item otherwise. -/
theorem stepArray_field {h : Host} {c : Code} {arr : List Val} {i : Nat} {s : List Char} {i' : Nat}
    (hs : stepArray h c arr i = .ok (s, i')) :
    ∃ fw r, resolvedWidth c arr i = some fw ∧ s = padField c.flags.left fw r ∧
      (c.conv = .pct → r = ['%']) ∧
      (c.conv ≠ .pct → ∃ prec item, renderCode h c fw prec item = .ok r) := by
  unfold stepArray at hs
  split at hs
  · cases hs
  · next fwT i1 h1 =>
    obtain ⟨_, _, inl1, non1, ext1⟩ := takeW_ok h1
    split at hs
    · cases hs
    · split at hs
      · cases hs
      · next prec hp =>
        split at hs
        · cases hs
        · next fw hfw =>
          have hres : resolvedWidth c arr i = some fw := by
            unfold resolvedWidth
            split
            · next hn => rw [hn] at hfw; simp at hfw; cases hfw; rfl
            · next n hn =>
              rw [hn] at hfw
              simp only [Option.isSome_some, if_true] at hfw
              rw [inl1 n hn, evalWidth_inline] at hfw
              cases hfw; rfl
            · next hn =>
              rw [hn] at hfw
              simp only [Option.isSome_some, if_true] at hfw
              obtain ⟨v, hv, rfl⟩ := ext1 hn
              obtain ⟨b, rfl, hb⟩ := evalWidth_val_ok hfw
              rw [hv]; exact hb
          split at hs
          · next hpct =>
            cases hs
            exact ⟨fw, ['%'], hres, rfl, fun _ => rfl, fun hne => absurd hpct hne⟩
          · next hpct =>
            split at hs
            · cases hs
            · next item hitem =>
              split at hs
              · cases hs
              · next r hr =>
                cases hs
                exact ⟨fw, r, hres, rfl, fun hp' => absurd hp' hpct, fun _ => ⟨prec, item, hr⟩⟩

theorem stepObject_field {h : Host} {c : Code} {o : List (List Char × Val)} {s : List Char}
    (hs : stepObject h c o = .ok s) :
    ∃ r, s = padField c.flags.left (inlineWidth c) r ∧
      (c.conv = .pct → r = ['%']) ∧
      (c.conv ≠ .pct → ∃ prec item, renderCode h c (inlineWidth c) prec item = .ok r) := by
  unfold stepObject at hs
  split at hs
  · cases hs
  · next fw hfw =>
    have hw : inlineWidth c = fw := objWidth_ok hfw
    split at hs
    · cases hs
    · next prec hprec =>
      split at hs
      · next hpct =>
        cases hs; rw [hw]
        exact ⟨['%'], rfl, fun _ => rfl, fun hne => absurd hpct hne⟩
      · next hpct =>
        split at hs
        · cases hs
        · split at hs
          · cases hs
          · next item _ =>
            split at hs
            · cases hs
            · next r hr =>
              cases hs; rw [hw]
              exact ⟨r, rfl, fun hp' => absurd hp' hpct, fun _ => ⟨prec, item, hr⟩⟩

/-! ## Host independence of the machines -/

section agree
variable {h h' : Host} (A : HostAgree h h')
include A

theorem stepArray_agree (c : Code) (arr : List Val) (i : Nat) :
    stepArray h c arr i = stepArray h' c arr i := by
  unfold stepArray
  simp only [renderCode_agree A]

theorem fmtArrayGo_agree (arr : List Val) (parts : List Part) (i : Nat) (acc : List Char) :
    fmtArrayGo h arr parts i acc = fmtArrayGo h' arr parts i acc := by
  induction parts generalizing i acc with
  | nil => rfl
  | cons p ps ih =>
    cases p with
    | lit s => unfold fmtArrayGo; exact ih _ _
    | code c =>
      unfold fmtArrayGo
      rw [stepArray_agree A]
      split
      · rfl
      · exact ih _ _

theorem stepObject_agree (c : Code) (o : List (List Char × Val)) :
    stepObject h c o = stepObject h' c o := by
  unfold stepObject
  simp only [renderCode_agree A]

theorem fmtObjectGo_agree (o : List (List Char × Val)) (parts : List Part) (acc : List Char) :
    fmtObjectGo h o parts acc = fmtObjectGo h' o parts acc := by
  induction parts generalizing acc with
  | nil => rfl
  | cons p ps ih =>
    cases p with
    | lit s => unfold fmtObjectGo; exact ih _
    | code c =>
      unfold fmtObjectGo
      rw [stepObject_agree A]
      split
      · rfl
      · exact ih _

theorem format_agree (f : Val) (vals : Vals) : format h f vals = format h' f vals := by
  unfold format
  split
  · split
    · rfl
    · split
      · exact fmtArrayGo_agree A _ _ _ _
      · exact fmtObjectGo_agree A _ _ _
      · exact fmtArrayGo_agree A _ _ _ _
  · rfl

end agree

/-! ## `%%` -/

/-- the code `%%` parses to -/
def pctCode : Code :=
  { mkey := none, flags := {}, fw := none, prec := none, lenMod := none, conv := .pct }

theorem parseCode_pct (rest : List Char) : parseCode ('%' :: rest) = .ok (pctCode, rest) := by
  simp [parseCode, parseMkey, parseFlags, parseWidth, takeDigits, isDigit, parsePrec,
    parseLenMod, parseConv, convOf, pctCode]

theorem stepArray_pct (h : Host) (arr : List Val) (i : Nat) :
    stepArray h pctCode arr i = .ok (['%'], i) := by
  simp [stepArray, takeW, pctCode, usesPrec, padField]

theorem stepObject_pct (h : Host) (o : List (List Char × Val)) :
    stepObject h pctCode o = .ok ['%'] := by
  simp [stepObject, objWidth, pctCode, padField]

end Rsj.Format
