/-
  C15 print/parse, part 10: full parenthesisation on the fragment.
-/
import RsjProofs.ParserRun9
namespace Rsj.Parser

mutual
  /-- wrap every subexpression in a `Paren` node -/
  def fullParen : Expr → Expr
    | .paren e sp => .paren (.paren (fullParen e) .zero) sp
    | .unary op e sp => .unary op (.paren (fullParen e) .zero) sp
    | .binary l op r sp => .binary (.paren (fullParen l) .zero) op (.paren (fullParen r) .zero) sp
    | .field e n sp => .field (.paren (fullParen e) .zero) n sp
    | .index e i sp => .index (.paren (fullParen e) .zero) (.paren (fullParen i) .zero) sp
    | .inSuper e ssp sp => .inSuper (.paren (fullParen e) .zero) ssp sp
    | .superIndex ssp i sp => .superIndex ssp (.paren (fullParen i) .zero) sp
    | .call f args ts sp => .call (.paren (fullParen f) .zero) (fullParenArgs args) ts sp
    | e => e
  def fullParenArgs : List Arg → List Arg
    | [] => []
    | .positional e :: as => .positional (.paren (fullParen e) .zero) :: fullParenArgs as
    | .named n e :: as => .named n (.paren (fullParen e) .zero) :: fullParenArgs as
end

theorem fullParenArgs_frag : ∀ (args : List Arg), (∀ a ∈ args, Frag (fullParen a.expr)) →
    ∀ a ∈ fullParenArgs args, Frag a.expr
  | [], _, a, ha => by simp [fullParenArgs] at ha
  | .positional e :: as, h, a, ha => by
    simp only [fullParenArgs, List.mem_cons] at ha
    rcases ha with rfl | ha
    · exact .paren _ (h (.positional e) (by simp))
    · exact fullParenArgs_frag as (fun x hx => h x (by simp [hx])) a ha
  | .named n e :: as, h, a, ha => by
    simp only [fullParenArgs, List.mem_cons] at ha
    rcases ha with rfl | ha
    · exact .paren _ (h (.named n e) (by simp))
    · exact fullParenArgs_frag as (fun x hx => h x (by simp [hx])) a ha

theorem fullParen_frag {e : Expr} (h : Frag e) : Frag (fullParen e) := by
  induction h with
  | null sp => exact .null sp
  | bool b sp => exact .bool b sp
  | selfObj sp => exact .selfObj sp
  | dollar sp => exact .dollar sp
  | str s sp => exact .str s sp
  | textBlock s sp => exact .textBlock s sp
  | number n sp => exact .number n sp
  | ident i sp => exact .ident i sp
  | superField ssp name sp => exact .superField ssp name sp
  | superIndex ssp sp _ ih => exact .superIndex ssp sp (.paren _ ih)
  | paren sp _ ih => exact .paren sp (.paren _ ih)
  | unary op sp _ ih => exact .unary op sp (.paren _ ih)
  | binary op sp _ _ ihl ihr => exact .binary op sp (.paren _ ihl) (.paren _ ihr)
  | field name sp _ ih => exact .field name sp (.paren _ ih)
  | index sp _ _ ihe ihi => exact .index sp (.paren _ ihe) (.paren _ ihi)
  | inSuper ssp sp _ ih => exact .inSuper ssp sp (.paren _ ih)
  | call args ts sp _ _ ihf iha =>
    exact .call _ ts sp (.paren _ ihf) (fullParenArgs_frag args iha)

theorem fullParenArgs_erase : ∀ (args : List Arg), (∀ a ∈ args, (fullParen a.expr).erase = a.expr.erase) →
    eraseArgs (fullParenArgs args) = eraseArgs args
  | [], _ => rfl
  | .positional e :: as, h => by
    have h1 := h (.positional e) (by simp)
    simp only [Arg.expr] at h1
    simp [fullParenArgs, eraseArgs, Arg.erase, Expr.erase, h1,
      fullParenArgs_erase as (fun x hx => h x (by simp [hx]))]
  | .named n e :: as, h => by
    have h1 := h (.named n e) (by simp)
    simp only [Arg.expr] at h1
    simp [fullParenArgs, eraseArgs, Arg.erase, Expr.erase, h1,
      fullParenArgs_erase as (fun x hx => h x (by simp [hx]))]

theorem fullParen_erase {e : Expr} (h : Frag e) : (fullParen e).erase = e.erase := by
  induction h with
  | superIndex ssp sp _ ih => simp [fullParen, Expr.erase, ih]
  | paren sp _ ih => simp [fullParen, Expr.erase, ih]
  | unary op sp _ ih => simp [fullParen, Expr.erase, ih]
  | binary op sp _ _ ihl ihr => simp [fullParen, Expr.erase, ihl, ihr]
  | field name sp _ ih => simp [fullParen, Expr.erase, ih]
  | index sp _ _ ihe ihi => simp [fullParen, Expr.erase, ihe, ihi]
  | inSuper ssp sp _ ih => simp [fullParen, Expr.erase, ih]
  | call args ts sp _ _ ihf iha => simp [fullParen, Expr.erase, ihf, fullParenArgs_erase args iha]
  | _ => rfl

theorem prArgs_full : ∀ (args : List Arg),
    (∀ a ∈ args, pr true a.expr 0 false false = pr false (fullParen a.expr) 0 false false) →
    prArgs true args = prArgs false (fullParenArgs args)
  | [], _ => by simp [prArgs, fullParenArgs]
  | [.positional e], h => by
    have h1 := h (.positional e) (by simp)
    simp only [Arg.expr] at h1
    simp [prArgs, prArg, fullParenArgs, sub, pr, h1]
  | [.named n e], h => by
    have h1 := h (.named n e) (by simp)
    simp only [Arg.expr] at h1
    simp [prArgs, prArg, fullParenArgs, sub, pr, h1]
  | .positional e :: b :: rest, h => by
    have h1 := h (.positional e) (by simp)
    simp only [Arg.expr] at h1
    have h2 := prArgs_full (b :: rest) (fun x hx => h x (by simp [hx]))
    cases b <;> simp [prArgs, prArg, fullParenArgs, sub, pr, h1] at h2 ⊢ <;> exact h2
  | .named n e :: b :: rest, h => by
    have h1 := h (.named n e) (by simp)
    simp only [Arg.expr] at h1
    have h2 := prArgs_full (b :: rest) (fun x hx => h x (by simp [hx]))
    cases b <;> simp [prArgs, prArg, fullParenArgs, sub, pr, h1] at h2 ⊢ <;> exact h2

/-- printing with every subexpression parenthesised = minimal printing of the tree with explicit
    `Paren` nodes around every subexpression -/
theorem printFull_eq {e : Expr} (h : Frag e) : printFull e = printMin (fullParen e) := by
  unfold printFull printMin
  induction h with
  | null | bool | selfObj | dollar | str | textBlock | number | ident | superField => simp [pr, fullParen]
  | superIndex ssp sp hi ih => simp [fullParen, pr, sub, ih]
  | paren sp he ih => simp [fullParen, pr, sub, ih]
  | unary op sp he ih =>
    have h0 : ¬ unaryPrec < 0 := by decide
    simp [fullParen, pr, sub, ih, h0]
  | binary op sp hl hr ihl ihr => simp [fullParen, pr, sub, ihl, ihr]
  | field name sp he ih => simp [fullParen, pr, sub, ih]
  | index sp he hi ihe ihi => simp [fullParen, pr, sub, ihe, ihi]
  | inSuper ssp sp he ih =>
    have h0 : ¬ inSuperKind.prec < 0 := by decide
    simp [fullParen, pr, sub, ih, h0]
  | call args ts sp hf ha ihf iha => simp [fullParen, pr, sub, ihf, prArgs_full args iha]

end Rsj.Parser
