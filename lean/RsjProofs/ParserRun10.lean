/-
  C15 print/parse, part 10: full parenthesisation and left associativity on the fragment.
-/
import RsjProofs.ParserRun9
namespace Rsj.Parser

/-- wrap every subexpression in a `Paren` node -/
def fullParen : Expr → Expr
  | .paren e sp => .paren (.paren (fullParen e) .zero) sp
  | .unary op e sp => .unary op (.paren (fullParen e) .zero) sp
  | .binary l op r sp => .binary (.paren (fullParen l) .zero) op (.paren (fullParen r) .zero) sp
  | .field e n sp => .field (.paren (fullParen e) .zero) n sp
  | .index e i sp => .index (.paren (fullParen e) .zero) (.paren (fullParen i) .zero) sp
  | .inSuper e ssp sp => .inSuper (.paren (fullParen e) .zero) ssp sp
  | .superIndex ssp i sp => .superIndex ssp (.paren (fullParen i) .zero) sp
  | e => e

theorem fullParen_frag {e : Expr} (h : Frag e) : Frag (fullParen e) := by
  induction h with
  | null sp => exact .null sp
  | bool b sp => exact .bool b sp
  | selfObj sp => exact .selfObj sp
  | dollar sp => exact .dollar sp
  | str s sp => exact .str s sp
  | textBlock s sp => exact .textBlock s sp
  | number n sp => exact .number n sp
  | ident i sp => exact .ident i sp
  | superField ssp name sp => exact .superField ssp name sp
  | superIndex ssp sp _ ih => exact .superIndex ssp sp (.paren _ ih)
  | paren sp _ ih => exact .paren sp (.paren _ ih)
  | unary op sp _ ih => exact .unary op sp (.paren _ ih)
  | binary op sp _ _ ihl ihr => exact .binary op sp (.paren _ ihl) (.paren _ ihr)
  | field name sp _ ih => exact .field name sp (.paren _ ih)
  | index sp _ _ ihe ihi => exact .index sp (.paren _ ihe) (.paren _ ihi)
  | inSuper ssp sp _ ih => exact .inSuper ssp sp (.paren _ ih)

theorem fullParen_erase {e : Expr} (h : Frag e) : (fullParen e).erase = e.erase := by
  induction h with
  | superIndex ssp sp _ ih => simp [fullParen, Expr.erase, ih]
  | paren sp _ ih => simp [fullParen, Expr.erase, ih]
  | unary op sp _ ih => simp [fullParen, Expr.erase, ih]
  | binary op sp _ _ ihl ihr => simp [fullParen, Expr.erase, ihl, ihr]
  | field name sp _ ih => simp [fullParen, Expr.erase, ih]
  | index sp _ _ ihe ihi => simp [fullParen, Expr.erase, ihe, ihi]
  | inSuper ssp sp _ ih => simp [fullParen, Expr.erase, ih]
  | _ => rfl

theorem sub_true (e : Expr) (lvl : Nat) (o el : Bool) : sub true e lvl o el = parens (pr true e 0 false false) := by
  simp [sub]

/-- printing with every subexpression parenthesised = minimal printing of the tree with explicit
    `Paren` nodes around every subexpression -/
theorem printFull_eq {e : Expr} (h : Frag e) : printFull e = printMin (fullParen e) := by
  unfold printFull printMin
  induction h with
  | null | bool | selfObj | dollar | str | textBlock | number | ident | superField => simp [pr, fullParen]
  | superIndex ssp sp hi ih => simp [fullParen, pr, sub, ih]
  | paren sp he ih => simp [fullParen, pr, sub, ih]
  | unary op sp he ih =>
    have h0 : ¬ unaryPrec < 0 := by decide
    simp [fullParen, pr, sub, ih, h0]
  | binary op sp hl hr ihl ihr => simp [fullParen, pr, sub, ihl, ihr]
  | field name sp he ih => simp [fullParen, pr, sub, ih]
  | index sp he hi ihe ihi => simp [fullParen, pr, sub, ihe, ihi]
  | inSuper ssp sp he ih =>
    have h0 : ¬ inSuperKind.prec < 0 := by decide
    simp [fullParen, pr, sub, ih, h0]

end Rsj.Parser
