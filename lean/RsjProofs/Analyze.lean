import RsjModel.Analyze
namespace Rsj.Analyze
open Rsj.Core

/-! ## The declarative well-scopedness predicate -/

def fixedNames : Members → List String
  | .nil => []
  | .local_ _ _ _ rest => fixedNames rest
  | .assert_ _ _ rest => fixedNames rest
  | .fieldFix n _ _ _ _ rest => n :: fixedNames rest
  | .fieldDyn _ _ _ _ _ rest => fixedNames rest

/-- Environment after the comprehension clauses (each `for` binds its variable
    for the clauses to its right and for the body). -/
def specEnv : Specs → AEnv → AEnv
  | .nil, env => env
  | .for_ v _ rest, env => specEnv rest (env.add [v])
  | .if_ _ rest, env => specEnv rest env

mutual
  /-- `WS e Γ`: every variable occurrence in `e` is bound (by `Γ` or an enclosing
      binder), `self`/`super`/`$` occur only inside an object, no scope repeats a
      local, parameter or fixed field name, no positional argument follows a
      named one, and import paths are string literals. -/
  def WS : Expr → AEnv → Prop
    | .null, _ | .true_, _ | .false_, _ | .str _, _ | .num _, _ => True
    | .self_, env => env.isObj = true
    | .dollar, env => env.isObj = true
    | .paren e, env => WS e env
    | .object ms, env => WSObj ms env
    | .objectComp locals name _ body spec, env =>
      WSSpecs spec env ∧ (bindNames locals).Nodup ∧
      WSBinds locals (objEnv (specEnv spec env) (bindNames locals)) ∧
      WS name (specEnv spec env) ∧
      WS body (objEnv (specEnv spec env) (bindNames locals))
    | .array items, env => WSExprs items env
    | .arrayComp body spec, env => WSSpecs spec env ∧ WS body (specEnv spec env)
    | .field e _, env => WS e env
    | .index e i, env => WS e env ∧ WS i env
    | .slice e a b c, env => WS e env ∧ WSOpt a env ∧ WSOpt b env ∧ WSOpt c env
    | .superField _, env => env.isObj = true
    | .superIndex i, env => env.isObj = true ∧ WS i env
    | .call callee args _, env => WS callee env ∧ WSArgs args false env
    | .var n, env => env.has n = true
    | .local_ bs body, env =>
      (bindNames bs).Nodup ∧ WSBinds bs (env.add (bindNames bs)) ∧ WS body (env.add (bindNames bs))
    | .if_ c t e, env => WS c env ∧ WS t env ∧ WSOpt e env
    | .binary _ a b, env => WS a env ∧ WS b env
    | .unary _ a, env => WS a env
    | .objExt e ms, env => WS e env ∧ WSObj ms env
    | .func ps body, env =>
      (paramNames ps).Nodup ∧ WSDefaults ps (env.add (paramNames ps)) ∧ WS body (env.add (paramNames ps))
    | .assert_ c m inner, env => WS c env ∧ WSOpt m env ∧ WS inner env
    | .error_ e, env => WS e env
    | .inSuper e, env => env.isObj = true ∧ WS e env
    | .importLit _, _ => True
    | .importTextBlock _, _ => False
    | .importComputed _ _, _ => False
    | .builtin _ args, env => env.has "std" = true ∧ WSExprs args env
  def WSOpt : OptExpr → AEnv → Prop
    | .none, _ => True
    | .some e, env => WS e env
  def WSExprs : Exprs → AEnv → Prop
    | .nil, _ => True
    | .cons e rest, env => WS e env ∧ WSExprs rest env
  def WSArgs : Args → Bool → AEnv → Prop
    | .nil, _, _ => True
    | .pos e rest, seenNamed, env => seenNamed = false ∧ WS e env ∧ WSArgs rest seenNamed env
    | .named _ e rest, _, env => WS e env ∧ WSArgs rest true env
  def WSBinds : Binds → AEnv → Prop
    | .nil, _ => True
    | .cons _ .none e rest, env => WS e env ∧ WSBinds rest env
    | .cons _ (.some ps) e rest, env =>
      ((paramNames ps).Nodup ∧ WSDefaults ps (env.add (paramNames ps)) ∧ WS e (env.add (paramNames ps))) ∧
      WSBinds rest env
  def WSDefaults : Params → AEnv → Prop
    | .nil, _ => True
    | .cons _ d rest, env => WSOpt d env ∧ WSDefaults rest env
  def WSObj : Members → AEnv → Prop
    | ms, env =>
      (memberLocalNames ms).Nodup ∧ (fixedNames ms).Nodup ∧
      WSMembers ms env (objEnv env (memberLocalNames ms))
  def WSMembers : Members → AEnv → AEnv → Prop
    | .nil, _, _ => True
    | .local_ _ .none e rest, outer, inner => WS e inner ∧ WSMembers rest outer inner
    | .local_ _ (.some ps) e rest, outer, inner =>
      ((paramNames ps).Nodup ∧ WSDefaults ps (inner.add (paramNames ps)) ∧ WS e (inner.add (paramNames ps))) ∧
      WSMembers rest outer inner
    | .assert_ c m rest, outer, inner => WS c inner ∧ WSOpt m inner ∧ WSMembers rest outer inner
    | .fieldFix _ _ _ .none e rest, outer, inner => WS e inner ∧ WSMembers rest outer inner
    | .fieldFix _ _ _ (.some ps) e rest, outer, inner =>
      ((paramNames ps).Nodup ∧ WSDefaults ps (inner.add (paramNames ps)) ∧ WS e (inner.add (paramNames ps))) ∧
      WSMembers rest outer inner
    | .fieldDyn nameE _ _ .none e rest, outer, inner =>
      WS e inner ∧ WS nameE outer ∧ WSMembers rest outer inner
    | .fieldDyn nameE _ _ (.some ps) e rest, outer, inner =>
      ((paramNames ps).Nodup ∧ WSDefaults ps (inner.add (paramNames ps)) ∧ WS e (inner.add (paramNames ps))) ∧
      WS nameE outer ∧ WSMembers rest outer inner
  def WSSpecs : Specs → AEnv → Prop
    | .nil, _ => True
    | .for_ v e rest, env => WS e env ∧ WSSpecs rest (env.add [v])
    | .if_ c rest, env => WS c env ∧ WSSpecs rest env
end

/-! ## Helper lemmas -/

@[simp] theorem seq_ok (x y : Except AErr Unit) : (x >>> y) = .ok () ↔ x = .ok () ∧ y = .ok () := by
  unfold seq
  cases x with
  | error e => simp
  | ok u => cases u; simp

theorem firstDup_none (names seen : List String) :
    firstDup names seen = none ↔ names.Nodup ∧ ∀ n ∈ names, n ∉ seen := by
  induction names generalizing seen with
  | nil => simp [firstDup]
  | cons n ns ih =>
    unfold firstDup
    by_cases h : seen.contains n = true
    · rw [if_pos h]
      constructor
      · intro hc; cases hc
      · intro ⟨_, h2⟩
        have := h2 n (by simp)
        simp at h; exact absurd h this
    · rw [if_neg h, ih]
      simp only [List.nodup_cons, List.mem_cons]
      simp at h
      constructor
      · intro ⟨hnd, hall⟩
        refine ⟨⟨?_, hnd⟩, ?_⟩
        · intro hmem; exact (hall n hmem) (by simp)
        · intro m hm
          rcases hm with rfl | hm
          · exact h
          · intro hms; exact (hall m hm) (by simp [hms])
      · intro ⟨⟨hn, hnd⟩, hall⟩
        refine ⟨hnd, ?_⟩
        intro m hm hms
        rcases hms with rfl | hms
        · exact hn hm
        · exact (hall m (Or.inr hm)) hms

theorem firstDup_nil_none (names : List String) : firstDup names [] = none ↔ names.Nodup := by
  rw [firstDup_none]; simp

@[simp] theorem dupCheck_ok (names : List String) (mk : String → AErr) (x : Except AErr Unit) :
    dupCheck names mk x = .ok () ↔ names.Nodup ∧ x = .ok () := by
  unfold dupCheck
  cases h : firstDup names [] with
  | some n =>
    have : ¬ names.Nodup := by
      intro hnd; rw [(firstDup_nil_none names).mpr hnd] at h; cases h
    simp [this]
  | none =>
    have : names.Nodup := (firstDup_nil_none names).mp h
    simp [this]

theorem funcCheck_ok (names : List String) (env : AEnv) (d b : AEnv → Except AErr Unit) :
    funcCheck names env d b = .ok () ↔
      names.Nodup ∧ d (env.add names) = .ok () ∧ b (env.add names) = .ok () := by
  unfold funcCheck
  simp

theorem ite_ok_iff (c : Bool) (x : Except AErr Unit) (e : AErr) :
    (if c = true then x else .error e) = .ok () ↔ c = true ∧ x = .ok () := by
  cases c <;> simp

theorem ite_err_ok_iff (c : Bool) (x : Except AErr Unit) (e : AErr) :
    (if c = true then .error e else x) = .ok () ↔ c = false ∧ x = .ok () := by
  cases c <;> simp

theorem fix_step (n : String) (fixed rest : List String) (A B : Prop) :
    (A ∧ fixed.contains n = false ∧ (B ∧ rest.Nodup ∧ ∀ m ∈ rest, m ∉ n :: fixed)) ↔
    ((A ∧ B) ∧ (n :: rest).Nodup ∧ ∀ m ∈ n :: rest, m ∉ fixed) := by
  simp only [List.nodup_cons, List.mem_cons]
  have hc : fixed.contains n = false ↔ n ∉ fixed := by simp
  rw [hc]
  constructor
  · intro ⟨a, hn, b, hnd, hall⟩
    refine ⟨⟨a, b⟩, ⟨?_, hnd⟩, ?_⟩
    · intro hm; exact (hall n hm) (Or.inl rfl)
    · intro m hm
      rcases hm with rfl | hm
      · exact hn
      · intro hf; exact (hall m hm) (Or.inr hf)
  · intro ⟨⟨a, b⟩, ⟨hn, hnd⟩, hall⟩
    refine ⟨a, hall n (Or.inl rfl), b, hnd, ?_⟩
    intro m hm hf
    rcases hf with rfl | hf
    · exact hn hm
    · exact (hall m (Or.inr hm)) hf

/-! ## `analyze` accepts exactly the well-scoped programs -/

mutual
  theorem analyze_iff : ∀ (e : Expr) (env : AEnv), analyze e env = .ok () ↔ WS e env
    | .null, env => by simp [analyze, WS]
    | .true_, env => by simp [analyze, WS]
    | .false_, env => by simp [analyze, WS]
    | .str _, env => by simp [analyze, WS]
    | .num _, env => by simp [analyze, WS]
    | .self_, env => by cases h : env.isObj <;> simp [analyze, WS, h]
    | .dollar, env => by cases h : env.isObj <;> simp [analyze, WS, h]
    | .paren e, env => by simp only [analyze, WS]; exact analyze_iff e env
    | .object ms, env => by simp only [analyze, WS]; exact analyzeObj_iff ms env
    | .objectComp locals name _ body spec, env => by
      simp only [analyze, WS]
      have hs := analyzeSpecs_iff spec env
      cases hsp : analyzeSpecs spec env with
      | error er =>
        have : ¬ WSSpecs spec env := by
          intro hw
          have := (hs (specEnv spec env)).mpr ⟨hw, rfl⟩
          rw [hsp] at this; cases this
        simp [this]
      | ok env' =>
        obtain ⟨hw, henv⟩ := (hs env').mp hsp
        subst henv
        simp only [dupCheck_ok, seq_ok, analyzeBinds_iff locals, analyze_iff name, analyze_iff body]
        simp [hw]
    | .array items, env => by simp only [analyze, WS]; exact analyzeExprs_iff items env
    | .arrayComp body spec, env => by
      simp only [analyze, WS]
      have hs := analyzeSpecs_iff spec env
      cases hsp : analyzeSpecs spec env with
      | error er =>
        have : ¬ WSSpecs spec env := by
          intro hw
          have := (hs (specEnv spec env)).mpr ⟨hw, rfl⟩
          rw [hsp] at this; cases this
        simp [this]
      | ok env' =>
        obtain ⟨hw, henv⟩ := (hs env').mp hsp
        subst henv
        simp [hw, analyze_iff body]
    | .field e _, env => by simp only [analyze, WS]; exact analyze_iff e env
    | .index e i, env => by simp only [analyze, WS, seq_ok, analyze_iff e env, analyze_iff i env]
    | .slice e a b c, env => by
      simp only [analyze, WS, seq_ok, analyze_iff e env, analyzeOpt_iff a env, analyzeOpt_iff b env,
        analyzeOpt_iff c env]
    | .superField _, env => by cases h : env.isObj <;> simp [analyze, WS, h]
    | .superIndex i, env => by
      cases h : env.isObj <;> simp [analyze, WS, h, analyze_iff i env]
    | .call callee args _, env => by
      simp only [analyze, WS, seq_ok, analyze_iff callee env, analyzeArgs_iff args false env]
    | .var n, env => by cases h : env.has n <;> simp [analyze, WS, h]
    | .local_ bs body, env => by
      simp only [analyze, WS, dupCheck_ok, seq_ok, analyzeBinds_iff bs, analyze_iff body]
    | .if_ c t e, env => by
      simp only [analyze, WS, seq_ok, analyze_iff c env, analyze_iff t env, analyzeOpt_iff e env]
    | .binary _ a b, env => by simp only [analyze, WS, seq_ok, analyze_iff a env, analyze_iff b env]
    | .unary _ a, env => by simp only [analyze, WS]; exact analyze_iff a env
    | .objExt e ms, env => by simp only [analyze, WS, seq_ok, analyze_iff e env, analyzeObj_iff ms env]
    | .func ps body, env => by
      simp only [analyze, WS, funcCheck_ok, analyzeDefaults_iff ps, analyze_iff body]
    | .assert_ c m inner, env => by
      simp only [analyze, WS, seq_ok, analyze_iff c env, analyzeOpt_iff m env, analyze_iff inner env]
    | .error_ e, env => by simp only [analyze, WS]; exact analyze_iff e env
    | .inSuper e, env => by cases h : env.isObj <;> simp [analyze, WS, h, analyze_iff e env]
    | .importLit _, env => by simp [analyze, WS]
    | .importTextBlock _, env => by simp [analyze, WS]
    | .importComputed _ _, env => by simp [analyze, WS]
    | .builtin _ args, env => by
      cases h : env.has "std" <;> simp [analyze, WS, h, analyzeExprs_iff args env]
  theorem analyzeOpt_iff : ∀ (e : OptExpr) (env : AEnv), analyzeOpt e env = .ok () ↔ WSOpt e env
    | .none, env => by simp [analyzeOpt, WSOpt]
    | .some e, env => by simp only [analyzeOpt, WSOpt]; exact analyze_iff e env
  theorem analyzeExprs_iff : ∀ (es : Exprs) (env : AEnv), analyzeExprs es env = .ok () ↔ WSExprs es env
    | .nil, env => by simp [analyzeExprs, WSExprs]
    | .cons e rest, env => by
      simp only [analyzeExprs, WSExprs, seq_ok, analyze_iff e env, analyzeExprs_iff rest env]
  theorem analyzeArgs_iff : ∀ (as : Args) (b : Bool) (env : AEnv),
      analyzeArgs as b env = .ok () ↔ WSArgs as b env
    | .nil, b, env => by simp [analyzeArgs, WSArgs]
    | .pos e rest, b, env => by
      cases b <;> simp [analyzeArgs, WSArgs, analyze_iff e env, analyzeArgs_iff rest _ env]
    | .named _ e rest, b, env => by
      simp only [analyzeArgs, WSArgs, seq_ok, analyze_iff e env, analyzeArgs_iff rest true env]
  theorem analyzeBinds_iff : ∀ (bs : Binds) (env : AEnv), analyzeBinds bs env = .ok () ↔ WSBinds bs env
    | .nil, env => by simp [analyzeBinds, WSBinds]
    | .cons _ .none e rest, env => by
      simp only [analyzeBinds, WSBinds, seq_ok, analyze_iff e env, analyzeBinds_iff rest env]
    | .cons _ (.some ps) e rest, env => by
      simp only [analyzeBinds, WSBinds, seq_ok, funcCheck_ok, analyzeDefaults_iff ps, analyze_iff e,
        analyzeBinds_iff rest env]
  theorem analyzeDefaults_iff : ∀ (ps : Params) (env : AEnv),
      analyzeDefaults ps env = .ok () ↔ WSDefaults ps env
    | .nil, env => by simp [analyzeDefaults, WSDefaults]
    | .cons _ d rest, env => by
      simp only [analyzeDefaults, WSDefaults, seq_ok, analyzeOpt_iff d env, analyzeDefaults_iff rest env]
  theorem analyzeObj_iff : ∀ (ms : Members) (env : AEnv), analyzeObj ms env = .ok () ↔ WSObj ms env
    | ms, env => by
      simp only [analyzeObj, WSObj, dupCheck_ok]
      rw [analyzeMembers_iff ms env _ []]
      simp
      intro _
      constructor
      · intro ⟨a, b⟩; exact ⟨b, a⟩
      · intro ⟨a, b⟩; exact ⟨b, a⟩
  theorem analyzeMembers_iff : ∀ (ms : Members) (outer inner : AEnv) (fixed : List String),
      analyzeMembers ms outer inner fixed = .ok () ↔
        (WSMembers ms outer inner ∧ (fixedNames ms).Nodup ∧ ∀ n ∈ fixedNames ms, n ∉ fixed)
    | .nil, outer, inner, fixed => by simp [analyzeMembers, WSMembers, fixedNames]
    | .local_ _ .none e rest, outer, inner, fixed => by
      simp only [analyzeMembers, WSMembers, fixedNames, seq_ok, analyze_iff e inner,
        analyzeMembers_iff rest outer inner fixed, and_assoc]
    | .local_ _ (.some ps) e rest, outer, inner, fixed => by
      simp only [analyzeMembers, WSMembers, fixedNames, seq_ok, funcCheck_ok, analyzeDefaults_iff ps,
        analyze_iff e, analyzeMembers_iff rest outer inner fixed, and_assoc]
    | .assert_ c m rest, outer, inner, fixed => by
      simp only [analyzeMembers, WSMembers, fixedNames, seq_ok, analyze_iff c inner, analyzeOpt_iff m inner,
        analyzeMembers_iff rest outer inner fixed, and_assoc]
    | .fieldFix n _ _ .none e rest, outer, inner, fixed => by
      simp only [analyzeMembers, WSMembers, fixedNames, seq_ok, analyze_iff e inner, ite_err_ok_iff,
        analyzeMembers_iff rest outer inner (n :: fixed)]
      exact fix_step n fixed (fixedNames rest) _ _
    | .fieldFix n _ _ (.some ps) e rest, outer, inner, fixed => by
      simp only [analyzeMembers, WSMembers, fixedNames, seq_ok, funcCheck_ok, analyzeDefaults_iff ps,
        analyze_iff e, ite_err_ok_iff, analyzeMembers_iff rest outer inner (n :: fixed)]
      exact fix_step n fixed (fixedNames rest) _ _
    | .fieldDyn nameE _ _ .none e rest, outer, inner, fixed => by
      simp only [analyzeMembers, WSMembers, fixedNames, seq_ok, analyze_iff e inner, analyze_iff nameE outer,
        analyzeMembers_iff rest outer inner fixed, and_assoc]
    | .fieldDyn nameE _ _ (.some ps) e rest, outer, inner, fixed => by
      simp only [analyzeMembers, WSMembers, fixedNames, seq_ok, funcCheck_ok, analyzeDefaults_iff ps,
        analyze_iff e, analyze_iff nameE outer, analyzeMembers_iff rest outer inner fixed, and_assoc]
  theorem analyzeSpecs_iff : ∀ (ss : Specs) (env env' : AEnv),
      analyzeSpecs ss env = .ok env' ↔ (WSSpecs ss env ∧ env' = specEnv ss env)
    | .nil, env, env' => by
      simp only [analyzeSpecs, WSSpecs, specEnv, true_and]
      constructor
      · intro h; cases h; rfl
      · intro h; rw [h]
    | .for_ v e rest, env, env' => by
      simp only [analyzeSpecs, WSSpecs, specEnv]
      have := analyze_iff e env
      cases h : analyze e env with
      | error er =>
        have hn : ¬ WS e env := by intro hw; rw [this.mpr hw] at h; cases h
        simp [hn]
      | ok u =>
        have hw : WS e env := this.mp (by cases u; exact h)
        simp only [hw, true_and]
        exact analyzeSpecs_iff rest (env.add [v]) env'
    | .if_ c rest, env, env' => by
      simp only [analyzeSpecs, WSSpecs, specEnv]
      have := analyze_iff c env
      cases h : analyze c env with
      | error er =>
        have hn : ¬ WS c env := by intro hw; rw [this.mpr hw] at h; cases h
        simp [hn]
      | ok u =>
        have hw : WS c env := this.mp (by cases u; exact h)
        simp only [hw, true_and]
        exact analyzeSpecs_iff rest env env'
end

end Rsj.Analyze
