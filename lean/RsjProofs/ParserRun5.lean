/-
  C15 print/parse, part 5: the postfix loop (`parse_suffix_expr`) on `.f` and `[e]`.
-/
import RsjProofs.ParserRun4
namespace Rsj.Parser

section
variable {toks : List Token} (pe : PState toks → Except (Err toks) (Expr × PState toks))

/-- the token does not begin a postfix form (and is not the `tailstrict` that may end a call) -/
def NotSuffixStart (tk : TokKind) : Prop :=
  tk ≠ sim .Dot ∧ tk ≠ sim .LeftBracket ∧ tk ≠ sim .LeftParen ∧ tk ≠ sim .LeftBrace ∧
    tk ≠ sim .Tailstrict

theorem cur_pushIf (st : PState toks) (add : Bool) (e : Expected) : (st.pushIf add e).cur = st.cur := by
  unfold PState.pushIf PState.push; split <;> rfl

theorem suffix_done {st : PState toks} (lhs : Expr) (h : NotSuffixStart st.cur.kind) :
    ∃ st', st'.kinds = st.kinds ∧ ∀ f, parseSuffixExpr pe (f + 1) lhs st = .ok (lhs, st') := by
  obtain ⟨h1, h2, h3, h4, _⟩ := h
  simp only [sim] at h1 h2 h3 h4
  refine ⟨(((st.pushIf true (.simple .Dot)).pushIf true (.simple .LeftBracket)).pushIf true
    (.simple .LeftParen)).pushIf true (.simple .LeftBrace), ?_, fun f => ?_⟩
  rotate_left
  · unfold parseSuffixExpr
    rw [eatSimple_miss true h1]; simp only [bind, Except.bind]
    rw [eatSimple_miss true (by rw [cur_pushIf]; exact h2)]; simp only []
    rw [eatSimple_miss true (by rw [cur_pushIf, cur_pushIf]; exact h3)]; simp only []
    rw [eatSimple_miss true (by rw [cur_pushIf, cur_pushIf, cur_pushIf]; exact h4)]; simp only []
    rfl
  · simp only [kinds_pushIf]

theorem suffix_field {st : PState toks} {v : String} {b : TokKind} {ks : List TokKind} (lhs : Expr)
    (h : st.kinds = sim .Dot :: .ident v :: b :: ks) :
    ∃ sp1 sp2 st', st'.kinds = b :: ks ∧
      ∀ f, parseSuffixExpr pe (f + 1) lhs st = parseSuffixExpr pe f (.field lhs ⟨v, sp1⟩ sp2) st' := by
  obtain ⟨st1, he1, hk1⟩ := eatSimple_hit true h
  obtain ⟨st2, he2, hk2⟩ := expectIdent_hit true hk1
  refine ⟨st1.cur.span, surround lhs.span st1.cur.span, st2, hk2, fun f => ?_⟩
  rw [parseSuffixExpr]
  rw [he1]; simp only [bind, Except.bind]
  rw [he2]

theorem suffix_index {st : PState toks} {x b : TokKind} {X ks : List TokKind} (lhs : Expr) {ie : Expr}
    (h : st.kinds = sim .LeftBracket :: x :: X) (hx : ExprStart x)
    (hpe : ∀ st2 : PState toks, st2.kinds = x :: X → ∃ i' st3, pe st2 = .ok (i', st3) ∧
      st3.kinds = sim .RightBracket :: b :: ks ∧ i'.erase = ie) :
    ∃ i' sp st', i'.erase = ie ∧ st'.kinds = b :: ks ∧
      ∀ f, parseSuffixExpr pe (f + 1) lhs st = parseSuffixExpr pe f (.index lhs i' sp) st' := by
  have hc := (PState.kinds_cons h).1
  have hmiss : eatSimple .Dot true st = .ok (none, st.pushIf true (.simple .Dot)) :=
    eatSimple_miss true (by rw [hc]; simp [sim])
  obtain ⟨st1, he1, hk1⟩ := eatSimple_hit (st := st.pushIf true (.simple .Dot)) true
    (by rw [kinds_pushIf]; exact h)
  have hc1 := (PState.kinds_cons hk1).1
  have hx1 : x ≠ .simple .Colon := by intro hh; rw [hh] at hx; simp [ExprStart] at hx
  have hx2 : x ≠ .simple .ColonColon := by intro hh; rw [hh] at hx; simp [ExprStart] at hx
  have hm1 : eatSimple .Colon true st1 = .ok (none, st1.pushIf true (.simple .Colon)) :=
    eatSimple_miss true (by rw [hc1]; exact hx1)
  have hm2 : eatSimple .ColonColon true (st1.pushIf true (.simple .Colon)) =
      .ok (none, (st1.pushIf true (.simple .Colon)).pushIf true (.simple .ColonColon)) :=
    eatSimple_miss true (by rw [cur_pushIf, hc1]; exact hx2)
  obtain ⟨i', st3, hp, hk3, hie⟩ := hpe ((st1.pushIf true (.simple .Colon)).pushIf true (.simple .ColonColon))
    (by rw [kinds_pushIf, kinds_pushIf]; exact hk1)
  obtain ⟨st4, he4, hk4⟩ := eatSimple_hit true hk3
  refine ⟨i', surround lhs.span st3.cur.span, st4, hie, hk4, fun f => ?_⟩
  rw [parseSuffixExpr]
  rw [hmiss]; simp only [bind, Except.bind]
  rw [he1]; simp only []
  unfold parseIndexExpr
  rw [hm1]; simp only [bind, Except.bind]
  rw [hm2]; simp only []
  rw [hp]; simp only []
  rw [he4]; rfl

end
end Rsj.Parser
