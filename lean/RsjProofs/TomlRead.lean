/-
  SPECIFICATION (not a model of Rust code): a reader of the TOML sub-language that
  `std.manifestTomlEx` writes, following TOML v1.0.0 for everything it accepts.

  Syntax (`parseStmts`): a document is a sequence of expressions separated by
  newlines; blank lines and leading whitespace (space / tab) are skipped;
    `key = value`            keyval with a simple key (bare or basic-quoted),
    `[k1.k2.….kn]`           table header (std-table), keys as above, no whitespace
                              around the dots,
    `[[k1.k2.….kn]]`         array-of-tables header,
  each followed by optional whitespace and a newline or the end of the text.
  Values (`readVal`): `true`, `false`, numbers (the JSON number grammar, a subset of
  TOML's integer / float forms; the token is kept as text), basic strings, arrays
  `[ v, v, … ]` with whitespace and newlines allowed around the values (no trailing
  comma), inline tables `{ k = v, … }` with whitespace but no newline (duplicate
  keys rejected).  Not in the sub-language (rejected): comments, literal and
  multi-line strings, dotted keys in keyvals, dates, `inf`/`nan`, hex/octal/binary
  integers, underscores in numbers, `+` signs, CRLF newlines.

  Meaning: the statements get the absolute path of the table they belong to and
  are folded by `docValue` (`RsjProofs/TomlSem.lean`).

  `fuel` only makes the recursion structural (`readToml` supplies the length of
  the text plus one; every call consumes a character or descends into a value).
-/
import RsjProofs.Toml
import RsjProofs.TomlSem
namespace Rsj.Toml
open Rsj.Json

/-- TOML `wschar` -/
def isWsT (c : Nat) : Bool := c == 32 || c == 9

/-- skip `ws` -/
def skipWs : Str → Str
  | [] => []
  | c :: r => if isWsT c then skipWs r else c :: r

/-- skip whitespace and newlines (`ws-comment-newline` without comments) -/
def skipWsNl : Str → Str
  | [] => []
  | c :: r => if isWsT c || c == 10 then skipWsNl r else c :: r

mutual
/-- a value at the start of the input: the value and what follows it -/
def readVal : Nat → Str → Option (JVal × Str)
  | 0, _ => none
  | f + 1, s =>
    match stripPrefix sTrue s with
    | some r => some (.bool true, r)
    | none =>
    match stripPrefix sFalse s with
    | some r => some (.bool false, r)
    | none =>
    match s with
    | 34 :: r =>
      match tomlStrBody r with
      | some (str, r') => some (.str str, r')
      | none => none
    | 91 :: r =>
      match skipWsNl r with
      | 93 :: r' => some (.arr [], r')
      | r' =>
        match readArr f r' with
        | some (xs, r'') => some (.arr xs, r'')
        | none => none
    | 123 :: r =>
      match skipWs r with
      | 125 :: r' => some (.obj [], r')
      | r' =>
        match readInl f r' with
        | some (fs, r'') => some (.obj fs, r'')
        | none => none
    | _ =>
      match lexNumber s with
      | .ok (some (t, r)) => some (.num t, r)
      | _ => none
termination_by structural f _ => f
/-- `value ws-nl ( "," ws-nl value ws-nl )* "]"`, the input at the first value -/
def readArr : Nat → Str → Option (List JVal × Str)
  | 0, _ => none
  | f + 1, s =>
    match readVal f s with
    | some (x, r) =>
      match skipWsNl r with
      | 44 :: r' =>
        match readArr f (skipWsNl r') with
        | some (xs, r'') => some (x :: xs, r'')
        | none => none
      | 93 :: r' => some ([x], r')
      | _ => none
    | none => none
termination_by structural f _ => f
/-- `key ws "=" ws value ws ( "," ws key … )* "}"`, the input at the first key -/
def readInl : Nat → Str → Option (List (Str × JVal) × Str)
  | 0, _ => none
  | f + 1, s =>
    match readKey s with
    | some (k, r) =>
      match skipWs r with
      | 61 :: r1 =>
        match readVal f (skipWs r1) with
        | some (x, r2) =>
          match skipWs r2 with
          | 44 :: r3 =>
            match readInl f (skipWs r3) with
            | some (fs, r4) => if hasKey k fs then none else some ((k, x) :: fs, r4)
            | none => none
          | 125 :: r3 => some ([(k, x)], r3)
          | _ => none
        | none => none
      | _ => none
    | none => none
termination_by structural f _ => f
end

/-- `simple-key *( "." simple-key )` -/
def readPath : Nat → Str → Option (List Str × Str)
  | 0, _ => none
  | f + 1, s =>
    match readKey s with
    | some (k, 46 :: r) =>
      match readPath f r with
      | some (p, r') => some (k :: p, r')
      | none => none
    | some (k, r) => some ([k], r)
    | none => none

/-- optional whitespace, then a newline or the end of the text -/
def endLine (s : Str) : Option Str :=
  match skipWs s with
  | [] => some []
  | 10 :: r => some r
  | _ => none

/-- split a non-empty header path into the parent path and the last key -/
def splitLast : List Str → Option (List Str × Str)
  | [] => none
  | [k] => some ([], k)
  | k :: k' :: r =>
    match splitLast (k' :: r) with
    | some (q, l) => some (k :: q, l)
    | none => none

/-- the expressions of a document; `cur` is the path of the table opened by the
    most recent header -/
def parseStmts : Nat → List Str → Str → Option (List Stmt)
  | 0, _, _ => none
  | f + 1, cur, s =>
    match skipWsNl s with
    | [] => some []
    | 91 :: 91 :: r =>
      match readPath f (skipWs r) with
      | some (p, r1) =>
        match skipWs r1 with
        | 93 :: 93 :: r2 =>
          match endLine r2, splitLast p with
          | some r3, some (q, k) =>
            match parseStmts f p r3 with
            | some ss => some (.arrTable q k :: ss)
            | none => none
          | _, _ => none
        | _ => none
      | none => none
    | 91 :: r =>
      match readPath f (skipWs r) with
      | some (p, r1) =>
        match skipWs r1 with
        | 93 :: r2 =>
          match endLine r2, splitLast p with
          | some r3, some (q, k) =>
            match parseStmts f p r3 with
            | some ss => some (.table q k :: ss)
            | none => none
          | _, _ => none
        | _ => none
      | none => none
    | c :: r =>
      match readKey (c :: r) with
      | some (k, r0) =>
        match skipWs r0 with
        | 61 :: r1 =>
          match readVal f (skipWs r1) with
          | some (v, r2) =>
            match endLine r2 with
            | some r3 =>
              match parseStmts f cur r3 with
              | some ss => some (.kv cur k v :: ss)
              | none => none
            | none => none
          | none => none
        | _ => none
      | none => none

/-- the value of a TOML document of the sub-language -/
def readToml (text : Str) : Option JVal :=
  match parseStmts (text.length + 1) [] text with
  | some ss => docValue ss
  | none => none

end Rsj.Toml
