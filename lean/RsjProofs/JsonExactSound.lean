/-
  C20 / C05 — exactness of `parse_json.rs` against the RFC 8259 grammar (`JText`),
  part 2: SOUNDNESS of the explicit-stack parser.  Invariant (`Pre`): the consumed
  prefix is a well-formed partial document whose open containers are exactly the
  frames of the stack (with the items / members and the pending member name they hold).
-/
import RsjProofs.JsonExactLex
namespace Rsj.Json
open Rsj.Codec

/-! ### partial containers -/

/-- `( ws value ws "," )*` : the closed items of an open array -/
inductive ElemsPre : Str → List JVal → Prop
  | nil : ElemsPre [] []
  | cons {w1 body w2 rest : Str} {v : JVal} {vs : List JVal} : IsWs w1 → IsWs w2 → JValue body v →
      ElemsPre rest vs → ElemsPre (w1 ++ body ++ w2 ++ 44 :: rest) (v :: vs)

/-- `( ws string ws ":" ws value ws "," )*` : the closed members of an open object -/
inductive MembsPre : Str → List (Str × JVal) → Prop
  | nil : MembsPre [] []
  | cons {w1 ksrc k w2 w3 body w4 rest : Str} {v : JVal} {fs : List (Str × JVal)} : IsWs w1 → IsWs w2 →
      IsWs w3 → IsWs w4 → JChars ksrc k → JValue body v → MembsPre rest fs →
      MembsPre (w1 ++ 34 :: (ksrc ++ [34]) ++ w2 ++ 58 :: (w3 ++ body ++ w4) ++ 44 :: rest) ((k, v) :: fs)

theorem ElemsPre.snoc {ep : Str} {items : List JVal} (h : ElemsPre ep items) {w1 body w2 : Str} {v : JVal}
    (h1 : IsWs w1) (h2 : IsWs w2) (hv : JValue body v) :
    ElemsPre (ep ++ (w1 ++ body ++ w2 ++ [44])) (items ++ [v]) := by
  induction h with
  | nil => simpa using ElemsPre.cons h1 h2 hv .nil
  | cons a b c _ ih =>
    have := ElemsPre.cons a b c ih
    simpa only [List.append_assoc, List.cons_append, List.nil_append] using this

theorem ElemsPre.close {ep : Str} {items : List JVal} (h : ElemsPre ep items) {w1 body w2 : Str} {v : JVal}
    (h1 : IsWs w1) (h2 : IsWs w2) (hv : JValue body v) :
    JElements (ep ++ (w1 ++ body ++ w2)) (items ++ [v]) := by
  induction h with
  | nil => simpa using JElements.one h1 h2 hv
  | cons a b c _ ih =>
    have := JElements.cons a b c ih
    simpa only [List.append_assoc, List.cons_append, List.nil_append] using this

theorem MembsPre.snoc {mp : Str} {fields : List (Str × JVal)} (h : MembsPre mp fields)
    {w1 ksrc k w2 w3 body w4 : Str} {v : JVal} (h1 : IsWs w1) (h2 : IsWs w2) (h3 : IsWs w3) (h4 : IsWs w4)
    (hk : JChars ksrc k) (hv : JValue body v) :
    MembsPre (mp ++ (w1 ++ 34 :: (ksrc ++ [34]) ++ w2 ++ 58 :: (w3 ++ body ++ w4) ++ [44])) (fields ++ [(k, v)]) := by
  induction h with
  | nil => simpa using MembsPre.cons h1 h2 h3 h4 hk hv .nil
  | cons a b c d e f _ ih =>
    have := MembsPre.cons a b c d e f ih
    simpa only [List.append_assoc, List.cons_append, List.nil_append] using this

theorem MembsPre.close {mp : Str} {fields : List (Str × JVal)} (h : MembsPre mp fields)
    {w1 ksrc k w2 w3 body w4 : Str} {v : JVal} (h1 : IsWs w1) (h2 : IsWs w2) (h3 : IsWs w3) (h4 : IsWs w4)
    (hk : JChars ksrc k) (hv : JValue body v) :
    JMembers (mp ++ (w1 ++ 34 :: (ksrc ++ [34]) ++ w2 ++ 58 :: (w3 ++ body ++ w4))) (fields ++ [(k, v)]) := by
  induction h with
  | nil => simpa using JMembers.one h1 h2 h3 h4 hk hv
  | cons a b c d e f _ ih =>
    have := JMembers.cons a b c d e f ih
    simpa only [List.append_assoc, List.cons_append, List.nil_append] using this

/-! ### the invariant -/

/-- `Pre st pre`: the consumed text `pre` is leading whitespace followed, for each frame
    of the stack (bottom first), by the opening bracket of the container, its closed
    items, and — for an object — the pending member name and its colon; always up to
    the point where the next value starts. -/
def Pre : List Frame → Str → Prop
  | [], pre => IsWs pre
  | .arr items :: st, pre =>
    ∃ pre0 ep w, Pre st pre0 ∧ ElemsPre ep items ∧ IsWs w ∧ pre = pre0 ++ 91 :: (ep ++ w)
  | .obj fields key :: st, pre =>
    ∃ pre0 mp w1 ksrc w2 w3, Pre st pre0 ∧ MembsPre mp fields ∧ IsWs w1 ∧ JChars ksrc key ∧ IsWs w2 ∧
      IsWs w3 ∧ pre = pre0 ++ 123 :: (mp ++ (w1 ++ 34 :: (ksrc ++ [34]) ++ w2 ++ 58 :: w3))

theorem stripPrefix_eq : ∀ (p s r : Str), stripPrefix p s = some r → s = p ++ r
  | [], s, r, h => by rw [stripPrefix] at h; cases h; rfl
  | _ :: _, [], r, h => by rw [stripPrefix] at h; cases h
  | a :: p, c :: s, r, h => by
    rw [stripPrefix] at h
    split at h
    · next hac => rw [stripPrefix_eq p s r h, hac]; rfl
    · cases h

/-! ### `startValue` -/

/-- a scalar or an empty container was read: it is a `value` of the grammar, followed
    by whitespace -/
theorem startValue_value_sound {s : Str} {v : JVal} {r : Str} (h : startValue s = .ok (.value v r)) :
    ∃ body w, JValue body v ∧ IsWs w ∧ s = body ++ w ++ r := by
  unfold startValue at h
  split at h
  · next r0 hp =>
    cases h
    obtain ⟨w, hw, e, _⟩ := skipSpaces_spec r0
    exact ⟨sNull, w, .null, hw, by rw [stripPrefix_eq _ _ _ hp, List.append_assoc, ← e]⟩
  split at h
  · next r0 hp =>
    cases h
    obtain ⟨w, hw, e, _⟩ := skipSpaces_spec r0
    exact ⟨sFalse, w, .false, hw, by rw [stripPrefix_eq _ _ _ hp, List.append_assoc, ← e]⟩
  split at h
  · next r0 hp =>
    cases h
    obtain ⟨w, hw, e, _⟩ := skipSpaces_spec r0
    exact ⟨sTrue, w, .true, hw, by rw [stripPrefix_eq _ _ _ hp, List.append_assoc, ← e]⟩
  split at h
  · cases h
  · next t r0 hl =>
    cases h
    obtain ⟨rfl, hnum, hov⟩ := lexNumber_sound hl
    obtain ⟨w, hw, e, _⟩ := skipSpaces_spec r0
    exact ⟨t, w, .num hnum hov, hw, by rw [List.append_assoc, ← e]⟩
  split at h
  · cases h
  · next str r0 hl =>
    cases h
    obtain ⟨src, rfl, hj⟩ := lexString_sound hl
    obtain ⟨w, hw, e, _⟩ := skipSpaces_spec r0
    refine ⟨34 :: (src ++ [34]), w, .str hj, hw, ?_⟩
    simp only [List.cons_append, List.append_assoc, List.nil_append]
    rw [← e]
  split at h
  · next r0 _ _ _ _ _ =>
    split at h
    · next r1 hsk =>
      cases h
      obtain ⟨w0, hw0, e0, _⟩ := skipSpaces_spec r0
      obtain ⟨w, hw, e, _⟩ := skipSpaces_spec r1
      refine ⟨91 :: (w0 ++ [93]), w, .arrEmpty hw0, hw, ?_⟩
      rw [hsk] at e0
      simp only [List.cons_append, List.append_assoc, List.nil_append]
      rw [← e, ← e0]
    · cases h
  · next r0 _ _ _ _ _ =>
    split at h
    · next r1 hsk =>
      cases h
      obtain ⟨w0, hw0, e0, _⟩ := skipSpaces_spec r0
      obtain ⟨w, hw, e, _⟩ := skipSpaces_spec r1
      refine ⟨123 :: (w0 ++ [125]), w, .objEmpty hw0, hw, ?_⟩
      rw [hsk] at e0
      simp only [List.cons_append, List.append_assoc, List.nil_append]
      rw [← e, ← e0]
    · split at h <;> cases h
  · cases h

/-- a container was opened: the invariant holds for the longer stack -/
theorem startValue_push_sound {s : Str} {f : Frame} {r : Str} (h : startValue s = .ok (.push f r))
    {st : List Frame} {pre : Str} (hpre : Pre st pre) :
    ∃ consumed, s = consumed ++ r ∧ Pre (f :: st) (pre ++ consumed) := by
  unfold startValue at h
  split at h
  · cases h
  split at h
  · cases h
  split at h
  · cases h
  split at h
  · cases h
  · cases h
  split at h
  · cases h
  · cases h
  split at h
  · next r0 _ _ _ _ _ =>
    split at h
    · cases h
    · cases h
      obtain ⟨w0, hw0, e0, _⟩ := skipSpaces_spec r0
      refine ⟨91 :: w0, by rw [List.cons_append, ← e0], ?_⟩
      exact ⟨pre, [], w0, hpre, .nil, hw0, rfl⟩
  · next r0 _ _ _ _ _ =>
    split at h
    · cases h
    · split at h
      · cases h
      · next k r2 hk =>
        cases h
        obtain ⟨w0, hw0, e0, _⟩ := skipSpaces_spec r0
        obtain ⟨ksrc, w2, w3, e1, hj, hw2, hw3, _⟩ := lexKeyColon_sound hk
        refine ⟨123 :: (w0 ++ (34 :: (ksrc ++ [34]) ++ w2 ++ 58 :: w3)), ?_, ?_⟩
        · rw [e1] at e0
          rw [e0]
          simp only [List.cons_append, List.append_assoc, List.nil_append]
        · exact ⟨pre, [], w0, ksrc, w2, w3, hpre, .nil, hw0, hj, hw2, hw3,
            by simp only [List.cons_append, List.append_assoc, List.nil_append]⟩
  · cases h

/-! ### `unwind` -/

theorem unwind_sound : ∀ (st : List Frame) (v : JVal) (rem body w pre : Str), Pre st pre → JValue body v →
    IsWs w →
    (∀ v', unwind v st rem = .ok (.done v') → JText (pre ++ (body ++ w ++ rem)) v') ∧
    (∀ st' r', unwind v st rem = .ok (.more st' r') →
      ∃ pre', Pre st' pre' ∧ pre' ++ r' = pre ++ (body ++ w ++ rem))
  | [], v, rem, body, w, pre, hpre, hv, hw => by
    rw [unwind]
    constructor
    · intro v' h
      split at h
      · next he =>
        cases h
        have : rem = [] := by simpa using he
        subst this
        exact ⟨pre, body, w, hpre, hw, by simp, hv⟩
      · cases h
    · intro st' r' h; split at h <;> cases h
  | .arr items :: st, v, rem, body, w, pre, hpre, hv, hw => by
    obtain ⟨pre0, ep, w0, hpre0, hep, hw0, rfl⟩ := hpre
    rw [unwind.eq_def]; simp only []
    split
    · next r =>
      -- `]`
      obtain ⟨w', hw', e, _⟩ := skipSpaces_spec r
      have hval : JValue (91 :: ((ep ++ (w0 ++ body ++ w)) ++ [93])) (.arr (items ++ [v])) :=
        .arr (hep.close hw0 hw hv)
      have ih := unwind_sound st (.arr (items ++ [v])) (skipSpaces r) _ w' pre0 hpre0 hval hw'
      have etxt : pre0 ++ (91 :: ((ep ++ (w0 ++ body ++ w)) ++ [93]) ++ w' ++ skipSpaces r)
          = pre0 ++ 91 :: (ep ++ w0) ++ (body ++ w ++ 93 :: r) := by
        conv => rhs; rw [e]
        simp only [List.cons_append, List.append_assoc, List.nil_append]
      rw [← etxt]
      exact ih
    · next r =>
      -- `,`
      constructor
      · intro v' h; cases h
      · intro st' r' h
        cases h
        obtain ⟨w', hw', e, _⟩ := skipSpaces_spec r
        refine ⟨pre0 ++ 91 :: ((ep ++ (w0 ++ body ++ w ++ [44])) ++ w'),
          ⟨pre0, _, w', hpre0, hep.snoc hw0 hw hv, hw', rfl⟩, ?_⟩
        conv => rhs; rw [e]
        simp only [List.cons_append, List.append_assoc, List.nil_append]
    · constructor
      · intro v' h; cases h
      · intro st' r' h; cases h
  | .obj fields key :: st, v, rem, body, w, pre, hpre, hv, hw => by
    obtain ⟨pre0, mp, w1, ksrc, w2, w3, hpre0, hmp, hw1, hj, hw2, hw3, rfl⟩ := hpre
    rw [unwind.eq_def]; simp only []
    split
    · constructor
      · intro v' h; cases h
      · intro st' r' h; cases h
    split
    · next r =>
      -- `}`
      obtain ⟨w', hw', e, _⟩ := skipSpaces_spec r
      have hval : JValue (123 :: ((mp ++ (w1 ++ 34 :: (ksrc ++ [34]) ++ w2 ++ 58 :: (w3 ++ body ++ w))) ++ [125]))
          (.obj (fields ++ [(key, v)])) := .obj (hmp.close hw1 hw2 hw3 hw hj hv)
      have ih := unwind_sound st (.obj (fields ++ [(key, v)])) (skipSpaces r) _ w' pre0 hpre0 hval hw'
      have etxt : pre0 ++ (123 :: ((mp ++ (w1 ++ 34 :: (ksrc ++ [34]) ++ w2 ++ 58 :: (w3 ++ body ++ w))) ++ [125])
            ++ w' ++ skipSpaces r)
          = pre0 ++ 123 :: (mp ++ (w1 ++ 34 :: (ksrc ++ [34]) ++ w2 ++ 58 :: w3)) ++ (body ++ w ++ 125 :: r) := by
        conv => rhs; rw [e]
        simp only [List.cons_append, List.append_assoc, List.nil_append]
      rw [← etxt]
      exact ih
    · next r =>
      -- `,`
      constructor
      · intro v' h; split at h <;> cases h
      · intro st' r' h
        split at h
        · cases h
        · next k r2 hk =>
          cases h
          obtain ⟨w', hw', e, _⟩ := skipSpaces_spec r
          obtain ⟨ksrc', w2', w3', e1, hj', hw2', hw3', _⟩ := lexKeyColon_sound hk
          refine ⟨pre0 ++ 123 :: ((mp ++ (w1 ++ 34 :: (ksrc ++ [34]) ++ w2 ++ 58 :: (w3 ++ body ++ w) ++ [44])) ++
              (w' ++ 34 :: (ksrc' ++ [34]) ++ w2' ++ 58 :: w3')),
            ⟨pre0, _, w', ksrc', w2', w3', hpre0, hmp.snoc hw1 hw2 hw3 hw hj hv, hw', hj', hw2', hw3', rfl⟩, ?_⟩
          conv => rhs; rw [e, e1]
          simp only [List.cons_append, List.append_assoc, List.nil_append]
    · constructor
      · intro v' h; cases h
      · intro st' r' h; cases h

/-! ### the outer loop -/

theorem run_sound : ∀ (n : Nat) (st : List Frame) (rem : Str) (v : JVal) (pre : Str), Pre st pre →
    run n st rem = .ok v → JText (pre ++ rem) v
  | 0, _, _, _, _, _, h => by cases h
  | n + 1, st, rem, v, pre, hpre, h => by
    rw [run] at h
    split at h
    · cases h
    · next f r hs =>
      obtain ⟨consumed, rfl, hpre'⟩ := startValue_push_sound hs hpre
      have := run_sound n (f :: st) r v _ hpre' h
      rwa [List.append_assoc] at this
    · next v0 r hs =>
      obtain ⟨body, w, hv0, hw, rfl⟩ := startValue_value_sound hs
      have hu := unwind_sound st v0 r body w pre hpre hv0 hw
      split at h
      · cases h
      · next v' hd => cases h; exact hu.1 _ hd
      · next st' r' hm =>
        obtain ⟨pre', hpre', e⟩ := hu.2 _ _ hm
        rw [← e]
        exact run_sound n st' r' v pre' hpre' h

/-- **Soundness of `parse_json`**: every accepted text is a JSON text of RFC 8259 and
    the returned value is the one it denotes. -/
theorem parseJson_sound {s : Str} {v : JVal} (h : parseJson s = .ok v) : JText s v := by
  unfold parseJson at h
  obtain ⟨w, hw, e, _⟩ := skipSpaces_spec s
  have := run_sound _ [] (skipSpaces s) v w hw h
  rwa [← e] at this

end Rsj.Json
